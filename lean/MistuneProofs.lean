import MistuneProofs.C18
import MistuneProofs.C18Quote
import MistuneProofs.C18Unikey
import MistuneProofs.C16
import MistuneProofs.UnicodeSound
import MistuneProofs.Oblig.Unicode
import MistuneProofs.C15
