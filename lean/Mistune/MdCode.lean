/-
Model of the code-block writer of `src/mistune/renderers/markdown.py`: `fenced_re`, `_get_fenced_marker`,
`MarkdownRenderer.block_code`.

```python
fenced_re = re.compile(r"^ {0,3}([`~]+)", re.M)

def block_code(self, token, state):
    attrs = token.get("attrs", {}); info = attrs.get("info", ""); code = token["raw"]
    if code and code[-1] != "\n": code += "\n"
    marker = token.get("marker")
    if not marker or _closes_fence(marker, code):
        # (de-indenting the body of an indented fence can turn a code line into a closing fence)
        marker = _get_fenced_marker(code)
    return marker + info + "\n" + code + marker + "\n\n"

def _closes_fence(marker, code):
    pattern = r"^ {0,3}" + re.escape(marker[0]) + "{" + str(len(marker)) + r",}[ \t]*$"
    return re.search(pattern, code, re.M) is not None

def _get_fenced_marker(code):
    found = fenced_re.findall(code)
    if not found: return "```"
    ticks = []; waves = []
    for s in found:
        if s[0] == "`": ticks.append(len(s))
        else: waves.append(len(s))
    if not ticks: return "```"
    if not waves: return "~~~"
    return "`" * max(3, max(ticks) + 1)
```

List-level transcription without the regex engine (tied to the Python functions by differential testing through the
driver ops `md_marker` / `md_closes` / `md_block_code`).
-/
import Mistune.Util
namespace Mistune

/-- `t.split("\n")`: the lines of `t` (always at least one; a trailing newline gives a last empty line) -/
def lineSplit : Str → List Str
  | [] => [[]]
  | ch :: r =>
    if ch = '\n' then [] :: lineSplit r
    else match lineSplit r with
      | l :: ls => (ch :: l) :: ls
      | [] => [[ch]]

/-- the class `` [`~] `` -/
def isFenceCh (ch : Char) : Bool := ch == '`' || ch == '~'

/-- group 1 of ``^ {0,3}([`~]+)`` tried at the start of `line` (`[]`: no match).  ` {0,3}` is greedy and backtracks,
but no shorter indentation can succeed where the longest one fails: with more than three leading blanks the character
after every admissible indentation is a blank; otherwise the run starts right after all the blanks. -/
def lineRun (line : Str) : Str :=
  if (line.takeWhile (· == ' ')).length ≤ 3 then (line.dropWhile (· == ' ')).takeWhile isFenceCh else []

/-- `fenced_re.findall(code)`: under `re.M` the pattern can only match at a line start (position 0 or just after a
`'\n'`), a match never contains `'\n'`, and the position after a match is not a line start (it follows a run
character), so there is at most one match per line and the matches are the non-empty `lineRun`s, in order.  (The line
start after a final `'\n'` is the empty last line of `lineSplit`; it contributes nothing.) -/
def fenceRuns (code : Str) : List Str :=
  ((lineSplit code).map lineRun).filter (fun r => !r.isEmpty)

/-- `max(l)` for a non-empty list of naturals -/
def maxNat (l : List Nat) : Nat := l.foldl max 0

/-- `_get_fenced_marker` -/
def getFencedMarker (code : Str) : Str :=
  let found := fenceRuns code
  if found.isEmpty then "```".toList else
  let ticks := (found.filter (fun s => s.head? == some '`')).map List.length
  let waves := (found.filter (fun s => !(s.head? == some '`'))).map List.length
  if ticks.isEmpty then "```".toList
  else if waves.isEmpty then "~~~".toList
  else List.replicate (max 3 (maxNat ticks + 1)) '`'

/-- `if code and code[-1] != "\n": code += "\n"` -/
def ensureNl (code : Str) : Str :=
  if !code.isEmpty && !(code.getLast? == some '\n') then code ++ ['\n'] else code

/-- the class `[ \t]` -/
def isBlankCh (ch : Char) : Bool := ch == ' ' || ch == '\t'

/-- `c{n,}[ \t]*$` on the rest `r` of a line (no `'\n'` in it): at least `n` leading `c`, then only blanks and tabs.
Taking the maximal run of `c` loses nothing: when `c` is itself a blank or a tab the remaining `c`s pass the blank test
as well, otherwise the character after a shorter run is a `c`, which neither `[ \t]*` nor `$` accepts. -/
def closerTail (c : Char) (n : Nat) (r : Str) : Bool :=
  decide (n ≤ (r.takeWhile (· == c)).length) && (r.dropWhile (· == c)).all isBlankCh

/-- `^ {0,3}c{n,}[ \t]*$` on one line: some indentation of `k ≤ 3` blanks (` {0,3}` is greedy but backtracks; this
matters only for `c = ' '`) followed by `closerTail`.  For `c ≠ ' '`, `c ≠ '\t'`, `n ≥ 1` this is `isCloser c n` of
`MistuneProofs.C11Fence` (proved in `MistuneProofs.C13Code`). -/
def closerLine (c : Char) (n : Nat) (line : Str) : Bool :=
  (List.range 4).any (fun k =>
    decide (k ≤ line.length) && (line.take k).all (· == ' ') && closerTail c n (line.drop k))

/-- `_closes_fence(marker, code)`: the pattern uses `marker[0]` and `len(marker)` only.  Under `re.M` the pattern can
only match at a line start and `$` matches before a `'\n'` and at the very end, so for `marker[0] ≠ '\n'` (the matched
characters are blanks, tabs and `marker[0]`) a match is exactly one whole line of `code.split("\n")`; `re.escape` makes
`marker[0]` literal.  Python raises `IndexError` on an empty marker (`block_code` never calls it then); `false` here.
Not modelled: `marker[0] = '\n'` (the escaped newline would match across lines). -/
def closesFence (marker code : Str) : Bool :=
  match marker with
  | [] => false
  | c :: _ => (lineSplit code).any (closerLine c marker.length)

/-- the marker `block_code` writes, `code` being the newline-terminated code (`marker?` = `token.get("marker")`; `None`
and `""` are both falsy) -/
def mdMarker (marker? : Option Str) (code : Str) : Str :=
  match marker? with
  | some m => if m.isEmpty || closesFence m code then getFencedMarker code else m
  | none => getFencedMarker code

/-- `MarkdownRenderer.block_code` -/
def mdBlockCode (marker? : Option Str) (info code : Str) : Str :=
  let code := ensureNl code
  let marker := mdMarker marker? code
  marker ++ info ++ ['\n'] ++ code ++ marker ++ ['\n', '\n']

end Mistune
