/-
Model of `mistune.toc.render_toc_ul` (src/mistune/toc.py).

The Python function builds a string; the model builds the same output as a list of events (`Ev`) which
`printEvs` turns into exactly that string.  Python's `levels` stack holds heading levels only; the model's
stack additionally carries the *index* of the item each open `<li>` belongs to (ghost state used only to
state the nesting theorem; the level components evolve exactly as in Python).
-/
import Mistune.Util
namespace Mistune

inductive Ev where
  | ulOpen | ulClose | liOpen | liClose | nl
  | item (i : Nat)
  deriving Repr, DecidableEq

/-- one TOC entry: heading level and its position in the list -/
abbrev Entry := Nat × Nat    -- (level, index)

/-- The `while levels:` loop of the `else` branch (entered after the first `levels.pop()`).
Stack is top-first. Returns the new stack and the emitted events. -/
def popLoop (level i : Nat) : List Entry → List Entry × List Ev
  | [] => ([(level, i)], [.liClose, .nl, .liOpen, .item i])                      -- `while … else:` branch
  | (last, j) :: rest =>
    if level = last then
      ((level, i) :: rest, [.liClose, .nl, .ulClose, .nl, .liClose, .nl, .liOpen, .item i])
    else if level > last then
      ((level, i) :: (last, j) :: rest, [.liClose, .nl, .liOpen, .item i])
    else
      let r := popLoop level i rest
      (r.1, [.liClose, .nl, .ulClose, .nl] ++ r.2)

/-- One iteration of `for level, k, text in toc:`. -/
def tocStep (stack : List Entry) (level i : Nat) : List Entry × List Ev :=
  match stack with
  | [] => ([(level, i)], [.liOpen, .item i])
  | (top, j) :: rest =>
    if level = top then ((level, i) :: rest, [.liClose, .nl, .liOpen, .item i])
    else if level > top then ((level, i) :: (top, j) :: rest, [.nl, .ulOpen, .nl, .liOpen, .item i])
    else popLoop level i rest

/-- The `for` loop over the items `(level, index)`. -/
def tocLoop : List Entry → List Entry → List Ev → List Entry × List Ev
  | [], stack, out => (stack, out)
  | (level, i) :: rest, stack, out =>
    let r := tocStep stack level i
    tocLoop rest r.1 (out ++ r.2)

/-- `while len(levels) > 1: s += "</li>\n</ul>\n"; levels.pop()` -/
def closeAll : List Entry → List Ev
  | [] => []
  | [_] => []
  | _ :: rest => [.liClose, .nl, .ulClose, .nl] ++ closeAll rest

/-- `render_toc_ul` on the list of heading levels (ids and texts only decorate the `item` events). -/
def renderToc (levels : List Nat) : List Ev :=
  if levels.isEmpty then []
  else
    let items := levels.zipIdx
    let r := tocLoop items [] []
    let s := r.2 ++ closeAll r.1
    if s.isEmpty then [] else [.ulOpen, .nl] ++ s ++ [.liClose, .nl, .ulClose, .nl]

/-- The printed form: exactly the Python string, given the rendering of each item's `<a …>…</a>`. -/
def printEvs (anchor : Nat → Str) : List Ev → Str
  | [] => []
  | .ulOpen :: r => "<ul>".toList ++ printEvs anchor r
  | .ulClose :: r => "</ul>".toList ++ printEvs anchor r
  | .liOpen :: r => "<li>".toList ++ printEvs anchor r
  | .liClose :: r => "</li>".toList ++ printEvs anchor r
  | .nl :: r => '\n' :: printEvs anchor r
  | .item i :: r => anchor i ++ printEvs anchor r

/-! ### Reference semantics used by the theorems (independent of the algorithm) -/

/-- An open element of the HTML being written. `li j` is the list item that holds entry `j`. -/
inductive Open where
  | ul
  | li (j : Option Nat)
  deriving Repr, DecidableEq

/-- A checker for the event stream: tracks the open elements (top first) and enforces the content model
(`ul` directly contains only `li`; an item and nested `ul`s sit directly inside an `li`; every close matches).
It records, for each item, the entries of the `li`s that enclose its own `li` (innermost first). -/
def checkEvs : List Ev → List Open → List (Nat × List Nat) → Option (List Open × List (Nat × List Nat))
  | [], st, acc => some (st, acc)
  | .nl :: r, st, acc => checkEvs r st acc
  | .ulOpen :: r, st, acc =>
    match st with
    | [] => checkEvs r [.ul] acc
    | .li (some j) :: st' => checkEvs r (.ul :: .li (some j) :: st') acc
    | _ => none
  | .liOpen :: r, st, acc =>
    match st with
    | .ul :: st' => checkEvs r (.li none :: .ul :: st') acc
    | _ => none
  | .item i :: r, st, acc =>
    match st with
    | .li none :: st' =>
      checkEvs r (.li (some i) :: st') (acc ++ [(i, st'.filterMap (fun o => match o with | .li (some j) => some j | _ => none))])
    | _ => none
  | .liClose :: r, st, acc =>
    match st with
    | .li (some _) :: st' => checkEvs r st' acc
    | _ => none
  | .ulClose :: r, st, acc =>
    match st with
    | .ul :: st' => checkEvs r st' acc
    | _ => none

/-- Specification of nesting: scanning the preceding entries backwards (`rp` = reversed prefix), the first
one with a strictly smaller level is the parent; continue from there with the parent's level. -/
def ancOf : List Entry → Nat → List Nat
  | [], _ => []
  | (l, j) :: rest, lvl => if l < lvl then j :: ancOf rest l else ancOf rest lvl

/-- expected ancestor record of every entry of a level list -/
def ancSpec (levels : List Nat) : List (Nat × List Nat) :=
  let rec go : List Entry → List Entry → List (Nat × List Nat)
    | [], _ => []
    | (lvl, i) :: rest, rp => (i, ancOf rp lvl) :: go rest ((lvl, i) :: rp)
  go levels.zipIdx []

end Mistune
