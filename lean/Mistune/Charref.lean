/-
HTML character references: model of CPython's `html._replace_charref` (the replacement callback that
`mistune.util.unescape` passes to `_charref_re.sub`) and of `mistune.util.unescape` itself.

Tables (`html.entities.html5`, `html._invalid_charrefs`, `html._invalid_codepoints`) are GENERATED from the
running CPython into `Mistune.Generated.Html5` (harness/gen_html5.py).
-/
import Mistune.Py
import Mistune.Scanner
import Mistune.Generated.Html5
namespace Mistune
namespace Charref
open Mistune.Generated

/-- value of an ASCII digit / letter as a digit of `base` -/
def digitVal (base : Nat) (c : Char) : Option Nat :=
  let n := c.toNat
  let v : Option Nat :=
    if 48 ≤ n && n ≤ 57 then some (n - 48)
    else if 97 ≤ n && n ≤ 122 then some (n - 87)
    else if 65 ≤ n && n ≤ 90 then some (n - 55)
    else none
  v.bind (fun d => if d < base then some d else none)

def digitsVal (base : Nat) : Str → Nat → Option Nat
  | [], acc => some acc
  | c :: r, acc =>
    match digitVal base c with
    | some d => digitsVal base r (acc * base + d)
    | none => none

/-- `int(s, base)` restricted to what `_charref_re` can hand over: a non-empty run of ASCII digits of the base
(anything else is reported as `ValueError`; CPython would also accept signs, `_`, blanks and non-ASCII digits,
none of which the character classes `[0-9]`, `[0-9a-fA-F]` admit).  Decimal strings longer than 4300 digits raise
`ValueError` in CPython ≥ 3.11 (`sys.int_info.default_max_str_digits`); bases that are powers of two have no limit. -/
def pyInt (base : Nat) (s : Str) : Except PyErr Nat :=
  if s.isEmpty then .error .valueError
  else if base == 10 && s.length > 4300 then .error .valueError
  else match digitsVal base s 0 with
    | some n => .ok n
    | none => .error .valueError

/-- `s in _html5` / `_html5[s]` -/
def html5Lookup (s : Str) : Option Str :=
  (html5Entities.lookup (String.ofList s)).map (fun l => l.map Char.ofNat)

/-- the `for x in range(len(s)-1, 1, -1)` loop of `_replace_charref` with its `else` branch; `x` starts at the
argument and runs down to 2 -/
def prefixLoop (s : Str) : Nat → Str
  | 0 => '&' :: s
  | x + 1 =>
    if x + 1 < 2 then '&' :: s
    else match html5Lookup (s.take (x + 1)) with
      | some v => v ++ s.drop (x + 1)
      | none => prefixLoop s x

/-- `html._replace_charref(m)` where `s = m.group(1)` -/
def replaceCharref (s : Str) : Except PyErr Str :=
  match s with
  | [] => .error .indexError                         -- `s[0]`
  | '#' :: rest =>
    match rest with
    | [] => .error .indexError                       -- `s[1]`
    | c1 :: rest2 => do
      let num ←
        if c1 == 'x' || c1 == 'X' then pyInt 16 (Py.rstripC [';'] rest2)
        else pyInt 10 (Py.rstripC [';'] rest)
      match invalidCharrefs.lookup num with
      | some r => pure [Char.ofNat r]
      | none =>
        if (0xD800 ≤ num && num ≤ 0xDFFF) || num > 0x10FFFF then pure [Char.ofNat 0xFFFD]
        else if invalidCodepoints.contains num then pure []
        else pure [Char.ofNat num]
  | _ =>
    match html5Lookup s with
    | some v => .ok v
    | none => .ok (prefixLoop s (s.length - 1))

/-- `mistune.util._replace_known_charref(m)`: `ref[0] != "#" and ref not in html5` leaves the match as written -/
def replaceKnownCharref (s : Str) : Except PyErr Str :=
  match s with
  | [] => .error .indexError                         -- `ref[0]`
  | '#' :: _ => replaceCharref s
  | _ => if (html5Lookup s).isSome then replaceCharref s else .ok ('&' :: s)

/-- `mistune.util.unescape(s)`; `charrefRe` is `mistune.util._charref_re` -/
def unescape (charrefRe : Rx) (s : Str) : Except PyErr Str :=
  if !s.contains '&' then .ok s
  else Py.reSubM charrefRe (fun a mt =>
    match Py.groupStr a mt 1 with
    | some g => replaceKnownCharref g
    | none => .error .typeError) s                   -- `None[0]`

/-- `mistune.util.escape_url(link) = quote(unescape(link), safe=":/?#@!$&()*+,;=%")` -/
def escapeUrl (charrefRe : Rx) (link : Str) : Except PyErr Str := do
  let u ← unescape charrefRe link
  pure (quote urlSafeChars u)

end Charref
end Mistune
