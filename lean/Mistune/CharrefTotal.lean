/-
HTML character references: a model of CPython's `html._replace_charref` (the replacement function that
`mistune.util.unescape` passes to `_charref_re.sub`) and of `mistune.util.unescape` itself.

The tables (`html.entities.html5`, `html._invalid_charrefs`, `html._invalid_codepoints`) are GENERATED from the
running interpreter into `Mistune/Generated/Html5.lean` by `harness/gen_html5.py`.
-/
import Mistune.Py
import Mistune.Generated.Html5
namespace Mistune
open Mistune.Generated

/-- value of one hexadecimal digit (`int(c, 16)`); the callers only pass `[0-9a-fA-F]` -/
def hexVal (c : Char) : Nat :=
  if '0' ≤ c && c ≤ '9' then c.toNat - 48
  else if 'a' ≤ c && c ≤ 'f' then c.toNat - 87
  else if 'A' ≤ c && c ≤ 'F' then c.toNat - 55
  else 0

/-- `int(s, 16)` for a string of hexadecimal digits -/
def natOfHex (s : Str) : Nat := s.foldl (fun n c => n * 16 + hexVal c) 0

/-- `html.entities.html5.get(name)` as a string -/
def lookupEntity (name : Str) : Option Str :=
  (html5Entities.lookup (String.ofList name)).map (fun l => l.map Char.ofNat)

/-- numeric branch of `html._replace_charref`: the code point `num` to its replacement text -/
def charrefOfNum (num : Nat) : Str :=
  match invalidCharrefs.lookup num with
  | some l => [Char.ofNat l]                                       -- `_invalid_charrefs[num]`
  | none =>
    if (0xD800 ≤ num && num ≤ 0xDFFF) || num > 0x10FFFF then [Char.ofNat 0xFFFD]
    else if invalidCodepoints.contains num then []
    else [Char.ofNat num]

/-- the `for x in range(len(s)-1, 1, -1)` loop of `html._replace_charref`: the longest proper prefix of
length `≥ 2` that is an entity name; called with `x = len(s) - 1` -/
def longestEntityPrefix (s : Str) : Nat → Option Str
  | 0 => none
  | x + 1 =>
    if x + 1 ≤ 1 then none
    else match lookupEntity (s.take (x + 1)) with
      | some v => some (v ++ s.drop (x + 1))
      | none => longestEntityPrefix s x

/-- `html._replace_charref` applied to `s = m.group(1)` (the text between `&` and the end of the reference,
including the trailing `;` when there is one).  Precondition (guaranteed by `_charref_re`): a numeric
reference has at least one digit of the right kind, so `int(…)` cannot raise. -/
def replaceCharref (s : Str) : Str :=
  match s with
  | '#' :: r =>
    let num := match r with
      | 'x' :: h => natOfHex (Py.rstripC [';'] h)
      | 'X' :: h => natOfHex (Py.rstripC [';'] h)
      | _ => Py.natOfDigits (Py.rstripC [';'] r)
    charrefOfNum num
  | _ =>
    match lookupEntity s with
    | some v => v
    | none =>
      match longestEntityPrefix s (s.length - 1) with
      | some v => v
      | none => '&' :: s

/-- `mistune.util._replace_known_charref`: a name that is not an entity name stays as written (the whole match is
`&` followed by group 1) -/
def replaceKnownCharref (s : Str) : Str :=
  match s with
  | '#' :: _ => replaceCharref s
  | _ => if (lookupEntity s).isSome then replaceCharref s else '&' :: s

/-- `mistune.util.unescape(s)`; `charrefRe` is `mistune.util._charref_re` -/
def unescapeWith (charrefRe : Rx) (s : Str) : Str :=
  if !s.contains '&' then s
  else Py.reSub charrefRe (fun a mt => replaceKnownCharref ((Py.groupStr a mt 1).getD [])) s

end Mistune
