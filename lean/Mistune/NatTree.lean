/-
A search tree keyed by natural numbers, used for the large generated tables (Unicode case folding, …) so
that look-ups are logarithmic both in the compiled driver and in the kernel (`decide +kernel`).
No balance or ordering invariant is needed for soundness of what is proved: every theorem quantifies over
the *results of `lookup`*, and `lookup` can only return values that are stored in the tree.
-/
namespace Mistune

inductive NatTree (β : Type) where
  | leaf : NatTree β
  | node (l : NatTree β) (k : Nat) (v : β) (r : NatTree β) : NatTree β

namespace NatTree
variable {β : Type}

def lookup : NatTree β → Nat → Option β
  | leaf, _ => none
  | node l k v r, n => if n < k then l.lookup n else if k < n then r.lookup n else some v

def all (p : Nat → β → Bool) : NatTree β → Bool
  | leaf => true
  | node l k v r => l.all p && p k v && r.all p

/-- a tree of closed ranges `[k, v]`: is `n` inside one of them? -/
def rangeMem : NatTree Nat → Nat → Bool
  | leaf, _ => false
  | node l lo hi r, n => if n < lo then rangeMem l n else if hi < n then rangeMem r n else true

def size : NatTree β → Nat
  | leaf => 0
  | node l _ _ r => l.size + 1 + r.size

theorem lookup_all (p : Nat → β → Bool) (t : NatTree β) (h : t.all p = true) (n : Nat) (v : β)
    (hl : t.lookup n = some v) : p n v = true := by
  induction t with
  | leaf => simp [lookup] at hl
  | node l k w r ihl ihr =>
    simp only [all, Bool.and_eq_true] at h
    simp only [lookup] at hl
    split at hl
    · exact ihl h.1.1 hl
    · split at hl
      · exact ihr h.2 hl
      · have : n = k := by omega
        subst this; simp at hl; subst hl; exact h.1.2

end NatTree
end Mistune
