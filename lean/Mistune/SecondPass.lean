/-
`Markdown._iter_render` (the second pass) generically in the inline parser, and the token grammar of C05 as
an executable predicate (`wfTokens`, the Lean twin of harness/tokgrammar.py).
-/
import Mistune.Json
import Mistune.Scanner
import Mistune.Py
namespace Mistune

/-- `_iter_render`: a token with `children` has its children processed; otherwise a token with `text` loses it
and gets `children` = the inline tokens of the stripped text. Fuel bounds the depth of the tree. -/
def iterRenderG (inl : Str → Except PyErr (List Json)) : Nat → List Json → Except PyErr (List Json)
  | 0, _ => .error .depthExceeded
  | fuel + 1, toks =>
    toks.mapM (fun t =>
      match t.get? "children" with
      | some (.arr cs) => do
        let cs' ← iterRenderG inl fuel cs
        pure (t.set "children" (.arr cs'))
      | _ =>
        match t.get? "text" with
        | some (.str text) => do
          let cs ← inl (Py.stripC " \r\n\t\x0c".toList text)
          pure ((t.erase "text").set "children" (.arr cs))
        | _ => pure t)

mutual
/-- no `text` key anywhere in the value -/
def noTextJ : Json → Bool
  | .obj kv => !(kv.any (fun p => p.1 == "text")) && noTextKV kv
  | .arr l => noTextL l
  | _ => true
def noTextL : List Json → Bool
  | [] => true
  | j :: r => noTextJ j && noTextL r
def noTextKV : List (String × Json) → Bool
  | [] => true
  | (_, j) :: r => noTextJ j && noTextKV r
end

mutual
/-- what the block pass produces: a token never has both `children` and `text`; `children` is a list of such
tokens; every other field is free of `text` keys; `text`, when present, is a string -/
def preOKJ : Json → Bool
  | .obj kv =>
    !(kv.any (fun p => p.1 == "children") && kv.any (fun p => p.1 == "text")) && preOKKV kv
  | _ => false
def preOKL : List Json → Bool
  | [] => true
  | j :: r => preOKJ j && preOKL r
def preOKKV : List (String × Json) → Bool
  | [] => true
  | (k, v) :: r =>
    (if k == "children" then (match v with | .arr l => preOKL l | _ => false)
     else if k == "text" then (match v with | .str _ => true | _ => false)
     else noTextJ v) && preOKKV r
end

/-! ### the token grammar (C05) -/

def inlineTypes : List String := ["text", "codespan", "inline_html", "emphasis", "strong", "link", "image", "linebreak", "softbreak",
  "strikethrough", "mark", "insert", "superscript", "subscript", "inline_spoiler", "footnote_ref", "abbr", "inline_math", "ruby"]
def inlineLeafRaw : List String := ["text", "codespan", "inline_html", "footnote_ref", "inline_math", "ruby"]
def inlineEmpty : List String := ["linebreak", "softbreak"]
def blockInlineChildren : List String := ["paragraph", "block_text", "heading", "table_cell", "def_list_head", "figcaption", "admonition_title", "toc"]
def blockBlockChildren : List String := ["block_quote", "list_item", "task_list_item", "def_list_item", "footnote_item", "block_spoiler",
  "admonition_content", "legend"]
def blockLeafRaw : List String := ["block_code", "block_html", "block_error", "block_math", "include"]
def blockEmpty : List String := ["thematic_break", "blank_line", "block_image"]
def blockSpecial : List (String × List String) := [("list", ["list_item", "task_list_item"]), ("table", ["table_head", "table_body"]),
  ("table_head", ["table_cell"]), ("table_body", ["table_row"]), ("table_row", ["table_cell"]), ("def_list", ["def_list_head", "def_list_item"]),
  ("footnotes", ["footnote_item"]), ("admonition", ["admonition_title", "admonition_content"]), ("figure", ["block_image", "figcaption", "legend"])]
def onlyUnder : List String := ["list_item", "task_list_item", "table_head", "table_body", "table_row", "def_list_head", "def_list_item",
  "footnote_item", "admonition_title", "admonition_content", "figcaption", "legend"]
def blockTypes : List String := blockInlineChildren ++ blockBlockChildren ++ blockLeafRaw ++ blockEmpty ++ blockSpecial.map (·.1)
def countedContainers : List String := ["block_quote", "list", "block_spoiler"]

/-- context of a token: inline container, any block container, or a special parent with an allow-list -/
inductive TokCtx where
  | inline | block | only (allowed : List String)

def isIntJ : Option Json → Bool
  | some (.num _) => true
  | _ => false

def alignOf (c : Json) : Option Json := (c.get? "attrs").bind (fun a => a.get? "align")

def jsonEqAlign : Option Json → Option Json → Bool
  | some (.str a), some (.str b) => a == b
  | some .null, some .null => true
  | none, none => true
  | some .null, none => true
  | none, some .null => true
  | _, _ => false

/-- `tokgrammar._tok`/`_seq`; fuel bounds the depth of the tree -/
def wfSeq : Nat → List Json → TokCtx → Nat → Nat → Bool
  | 0, _, _, _, _ => false
  | fuel + 1, toks, ctx, depth, mx =>
    toks.all (fun t =>
      match t with
      | .obj _ =>
        match t.get? "type" with
        | some (.str tyS) =>
          let ty := String.ofList tyS
          let attrs := (t.get? "attrs").getD (.obj [])
          let hasRaw := t.has "raw"
          let hasCh := t.has "children"
          let basic := !t.has "text" && !(hasRaw && hasCh) &&
            (match t.get? "raw" with | some (.str _) => true | none => true | _ => false) &&
            (match t.get? "children" with | some (.arr _) => true | none => true | _ => false) &&
            (match t.get? "attrs" with | some (.obj _) => true | none => true | _ => false)
          let ctxOk := match ctx with
            | .inline => inlineTypes.contains ty
            | .block => blockTypes.contains ty && !onlyUnder.contains ty
            | .only allowed => blockTypes.contains ty && allowed.contains ty
          let shape :=
            if inlineLeafRaw.contains ty || blockLeafRaw.contains ty then hasRaw
            else if inlineEmpty.contains ty || blockEmpty.contains ty then !hasRaw && !hasCh
            else hasCh
          let perType :=
            (if ty == "heading" then (match attrs.getInt? "level" with | some n => 1 ≤ n && n ≤ 6 | none => false) else true) &&
            (if ty == "list" then (match attrs.get? "ordered" with | some (.bool _) => true | _ => false) && isIntJ (attrs.get? "depth") &&
                (match attrs.get? "start" with | none => true | some (.num _) => true | _ => false) else true) &&
            (if ty == "link" || ty == "image" then (match attrs.get? "url" with | some (.str _) => true | _ => false) else true) &&
            (if ty == "footnote_ref" then (match attrs.getInt? "index" with | some n => 1 ≤ n | none => false) else true) &&
            (if ty == "table" then
               match t.getArr "children" with
               | [h, b] =>
                 h.type == "table_head" && b.type == "table_body" &&
                 (let head := h.getArr "children"
                  let aligns := head.map alignOf
                  (b.getArr "children").all (fun row =>
                    let cells := row.getArr "children"
                    cells.length == head.length &&
                    (List.zip (cells.map alignOf) aligns).all (fun p => jsonEqAlign p.1 p.2)))
               | _ => false
             else true) &&
            (if ty == "table_cell" then
               (match attrs.get? "align" with
                | some (.str a) => a == "left".toList || a == "right".toList || a == "center".toList
                | some .null => true | none => true | _ => false) &&
               (match attrs.get? "head" with | some (.bool _) => true | _ => false)
             else true)
          let nd := depth + (if countedContainers.contains ty then 1 else 0)
          let sub : TokCtx :=
            match ctx with
            | .inline => .inline
            | _ =>
              if blockInlineChildren.contains ty then .inline
              else match blockSpecial.lookup ty with
                | some allowed => .only allowed
                | none => .block
          basic && ctxOk && shape && perType && nd ≤ mx &&
            (if hasCh then wfSeq fuel (t.getArr "children") sub nd mx else true)
        | _ => false
      | _ => false)

/-- the grammar of C05 on a token list.  The fuel of `wfSeq` bounds the depth of the tree that can be checked: block
containers nest at most `maxNested` deep (two levels per list: `list` > `list_item`), a text block adds one level,
and the inline parser nests at most `2 * 200 + 3` levels (its nesting budget `Inl.inlineFuel = 200`: links nest in
links through a raw `</a>`, so no smaller constant bound holds).  `parseDoc_wf` (MistuneProofs/C05Grammar.lean)
proves that this fuel suffices for every tree the parser model returns. -/
def wfTokens (toks : List Json) (maxNested : Nat) : Bool := wfSeq (2 * maxNested + 404) toks .block 0 maxNested

/-! ### reader for the canonical text form (driver input) -/

def splitTop (s : Str) (sep : Char) : List Str :=
  -- split at `sep` occurring at bracket depth 0
  let rec go : Str → Nat → Str → List Str → List Str
    | [], _, cur, acc => (acc ++ [cur.reverse])
    | c :: r, d, cur, acc =>
      if c == sep && d == 0 then go r d [] (acc ++ [cur.reverse])
      else if c == '[' || c == '{' then go r (d + 1) (c :: cur) acc
      else if c == ']' || c == '}' then go r (d - 1) (c :: cur) acc
      else go r d (c :: cur) acc
  go s 0 [] []

def parseCanonF : Nat → Str → Option Json
  | 0, _ => none
  | fuel + 1, s =>
    match s with
    | ['n'] => some .null
    | ['T'] => some (.bool true)
    | ['F'] => some (.bool false)
    | 'i' :: '-' :: r => (String.ofList r).toNat?.map (fun n => .num (-(n : Int)))
    | 'i' :: r => (String.ofList r).toNat?.map (fun n => .num n)
    | 's' :: r =>
      if r.isEmpty then some (.str [])
      else ((String.ofList r).splitOn ",").mapM (fun (t : String) => t.toNat?.map Char.ofNat) |>.map Json.str
    | '[' :: r =>
      let body := r.dropLast
      if body.isEmpty then some (.arr [])
      else (splitTop body ';').mapM (parseCanonF fuel) |>.map Json.arr
    | '{' :: r =>
      let body := r.dropLast
      if body.isEmpty then some (.obj [])
      else (splitTop body ';').mapM (fun item =>
        match (String.ofList item).splitOn "=" with
        | k :: rest => (parseCanonF fuel ("=".intercalate rest).toList).map (fun v => (k, v))
        | [] => none) |>.map Json.obj
    | _ => none

def Json.parseCanon (s : String) : Option Json := parseCanonF 200 s.toList

end Mistune
