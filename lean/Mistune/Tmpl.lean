/-
Render templates (C02 / C06): the HTML render methods of mistune, as extracted by harness/tmpl.py from the
Python AST, interpreted over TAGGED strings.  Every character carries a flag "comes from the document"
(`true`) or "comes from a template literal" (`false`); erasing the flags gives the string the Python method
returns (tied by probing on every run); the safety theorem is about the flagged characters.
-/
import Mistune.Json
import Mistune.Py
import Mistune.CharrefTotal
import Mistune.Unicode
import Mistune.Generated.Consts
namespace Mistune

/-- a string whose characters remember whether they are document data -/
abbrev TStr := List (Char × Bool)

def TStr.erase (t : TStr) : Str := t.map Prod.fst
def TStr.ofLit (s : Str) : TStr := s.map (fun c => (c, false))
def TStr.ofData (s : Str) : TStr := s.map (fun c => (c, true))

inductive TOp where
  | escape | escapeNoQuote | safeEntity | safeUrl | striptags | str | strip | rstrip | firstWord | dropLast4
  deriving Repr, DecidableEq

inductive TPiece where
  | lit (s : Str) : TPiece
  | arg (name : String) (ops : List TOp) : TPiece
  | sub (ops : List TOp) (e : List TPiece) : TPiece
  | replaceFirst (e : List TPiece) (pat : Str) (by_ : List TPiece) : TPiece
  | toc (name : String) : TPiece
  deriving Repr

inductive TCond where
  | truthy (e : List TPiece) : TCond
  | argTruthy (name : String) : TCond
  | notNone (name : String) : TCond
  | flagEscape : TCond
  | isDigit (name : String) : TCond
  | startsWith (e : List TPiece) (s : Str) : TCond
  | not (c : TCond) : TCond
  deriving Repr

inductive Tmpl where
  | seq (e : List TPiece) : Tmpl
  | ite (c : TCond) (t e : Tmpl) : Tmpl
  | opaque : Tmpl
  deriving Repr

/-- argument values of a render method -/
inductive TVal where
  | none : TVal
  | bool (b : Bool) : TVal
  | int (n : Int) : TVal
  | str (t : TStr) : TVal
  | toc (items : List (Int × TStr × TStr)) : TVal      -- (level, id, text)

/-- what the interpreter needs besides the arguments -/
structure TEnv where
  args : List (String × TVal)            -- `$text` and the keyword arguments
  escapeFlag : Bool                      -- `HTMLRenderer._escape`
  charrefRe : Rx                         -- `mistune.util._charref_re`
  striptagsRe : Rx                       -- `mistune.util._striptags_re`
  harmful : List Str
  goodData : List Str

def TEnv.get (env : TEnv) (n : String) : TVal := (env.args.lookup n).getD .none

/-! ### operations on tagged strings -/

def tEscape (q : Bool) (t : TStr) : TStr := t.flatMap (fun p => (escChar q p.1).map (fun c => (c, p.2)))

def tStrip (t : TStr) : TStr := ((t.dropWhile (fun p => isSpace p.1)).reverse.dropWhile (fun p => isSpace p.1)).reverse
def tRstrip (t : TStr) : TStr := (t.reverse.dropWhile (fun p => isSpace p.1)).reverse

/-- `s.split(None, 1)[0]` (the callers guarantee a word exists; otherwise the empty string) -/
def tFirstWord (t : TStr) : TStr := (t.dropWhile (fun p => isSpace p.1)).takeWhile (fun p => !isSpace p.1)

def tDropLast (n : Nat) (t : TStr) : TStr := t.take (t.length - n)

/-- delete the index ranges `[a, b)` (sorted, disjoint) from a list -/
def deleteSpans {α : Type} : List (Nat × Nat) → Nat → List α → List α
  | _, _, [] => []
  | [], _, l => l
  | (a, b) :: rest, i, x :: xs =>
    if i < a then x :: deleteSpans ((a, b) :: rest) (i + 1) xs
    else if i < b then deleteSpans ((a, b) :: rest) (i + 1) xs
    else deleteSpans rest i (x :: xs)

/-- all non-overlapping matches of `r` in `s`, left to right (spans) -/
def allSpans (r : Rx) (s : Str) : List (Nat × Nat) :=
  let x := Py.ctxOf s
  let rec go : Nat → Nat → List (Nat × Nat)
    | 0, _ => []
    | fuel + 1, pos =>
      if pos > x.n then [] else
      match r.search x pos with
      | none => []
      | some mt => if mt.stop == mt.start then go fuel (mt.start + 1) else (mt.start, mt.stop) :: go fuel mt.stop
  go (s.length + 2) 0

/-- `striptags`: `_striptags_re.sub("", s)` — removes characters, keeps the flags of the rest -/
def tStriptags (re : Rx) (t : TStr) : TStr := deleteSpans (allSpans re t.erase) 0 t

def lowerChar (c : Char) : Char := variantOf Generated.lowerTree c

/-- `HTMLRenderer.safe_url` with `allow_harmful_protocols=None` -/
def safeUrlStr (harmful goodData : List Str) (url : Str) : Str :=
  let l := url.map lowerChar
  if harmful.any (fun p => Py.startsWith l p) && !(goodData.any (fun p => Py.startsWith l p)) then "#harmful-link".toList
  else escape true url

def applyOp (env : TEnv) (op : TOp) (t : TStr) : TStr :=
  match op with
  | .escape => tEscape true t
  | .escapeNoQuote => tEscape false t
  | .safeEntity => TStr.ofData (escape true (unescapeWith env.charrefRe t.erase))
  | .safeUrl => TStr.ofData (safeUrlStr env.harmful env.goodData t.erase)
  | .striptags => tStriptags env.striptagsRe t
  | .str => t
  | .strip => tStrip t
  | .rstrip => tRstrip t
  | .firstWord => tFirstWord t
  | .dropLast4 => tDropLast 4 t

def applyOps (env : TEnv) (ops : List TOp) (t : TStr) : TStr := ops.foldl (fun acc op => applyOp env op acc) t

/-- `str(v)` / use of an argument as a string (`None` prints nothing here: the templates guard it) -/
def TVal.toTStr : TVal → TStr
  | .none => []
  | .bool b => TStr.ofData (if b then "True" else "False").toList
  | .int n => TStr.ofData (toString n).toList
  | .str t => t
  | .toc _ => []

def TVal.truthy : TVal → Bool
  | .none => false
  | .bool b => b
  | .int n => n != 0
  | .str t => !t.isEmpty
  | .toc items => !items.isEmpty

def tReplaceFirst (t : TStr) (pat : Str) (by_ : TStr) : TStr :=
  match Py.findFrom t.erase pat 0 with
  | some i => t.take i ++ by_ ++ t.drop (i + pat.length)
  | none => t

/-- `render_toc_ul` on items `(level, id, text)` (list structure: `Mistune.Toc`, here the flat string with the
entries' anchors; the nesting events carry no data) -/
def tocAnchorT (id text : TStr) : TStr :=
  TStr.ofLit "<a href=\"#".toList ++ id ++ TStr.ofLit "\">".toList ++ text ++ TStr.ofLit "</a>".toList

mutual
def evalPieces (env : TEnv) : List TPiece → TStr
  | [] => []
  | p :: rest => evalPiece env p ++ evalPieces env rest
def evalPiece (env : TEnv) : TPiece → TStr
  | .lit s => TStr.ofLit s
  | .arg n ops => applyOps env ops (env.get n).toTStr
  | .sub ops e => applyOps env ops (evalPieces env e)
  | .replaceFirst e pat by_ => tReplaceFirst (evalPieces env e) pat (evalPieces env by_)
  | .toc n =>
    match env.get n with
    | .toc items => items.flatMap (fun it => tocAnchorT it.2.1 it.2.2)     -- anchors only; see `Mistune.Toc` for the list skeleton
    | _ => []
end

/-- `str.isdigit()` (not `\d`: it also accepts superscript and circled digits) over the regenerated table -/
def isDigitStr (s : Str) : Bool := !s.isEmpty && s.all (fun c => NatTree.rangeMem Generated.strDigitTree c.toNat)

def evalCond (env : TEnv) : TCond → Bool
  | .truthy e => !(evalPieces env e).isEmpty
  | .argTruthy n => (env.get n).truthy
  | .notNone n => match env.get n with | .none => false | _ => true
  | .flagEscape => env.escapeFlag
  | .isDigit n => isDigitStr (env.get n).toTStr.erase
  | .startsWith e s => Py.startsWith (evalPieces env e).erase s
  | .not c => !evalCond env c

def evalTmpl (env : TEnv) : Tmpl → Option TStr
  | .seq e => some (evalPieces env e)
  | .ite c t e => if evalCond env c then evalTmpl env t else evalTmpl env e
  | .opaque => none

/-! ### the safety predicate and the static checker -/

/-- no document character is a markup delimiter -/
def TStr.Safe (t : TStr) : Prop := ∀ p ∈ t, p.2 = true → p.1 ≠ '<' ∧ p.1 ≠ '>' ∧ p.1 ≠ '"'

def TStr.safeB (t : TStr) : Bool := t.all (fun p => !p.2 || (p.1 != '<' && p.1 != '>' && p.1 != '"'))

def TVal.Safe : TVal → Prop
  | .str t => t.Safe
  | .toc items => ∀ it ∈ items, it.2.1.Safe ∧ it.2.2.Safe
  | _ => True

def TVal.safeB : TVal → Bool
  | .str t => t.safeB
  | .toc items => items.all (fun it => it.2.1.safeB && it.2.2.safeB)
  | _ => true

def isEscaper : TOp → Bool
  | .escape | .safeEntity | .safeUrl => true
  | _ => false

def hasEscaper (ops : List TOp) : Bool := ops.any isEscaper

mutual
/-- every use of an argument listed in `dataArgs` (arbitrary document data) passes through an escaper -/
def piecesOk (dataArgs : List String) : List TPiece → Bool
  | [] => true
  | p :: rest => pieceOk dataArgs p && piecesOk dataArgs rest
def pieceOk (dataArgs : List String) : TPiece → Bool
  | .lit s => !s.contains '\''         -- attribute values are always delimited by `"` (the character the escapers remove)
  | .arg n ops => !dataArgs.contains n || hasEscaper ops
  | .sub ops e => hasEscaper ops || piecesOk dataArgs e
  | .replaceFirst e _ by_ => piecesOk dataArgs e && piecesOk dataArgs by_
  | .toc n => !dataArgs.contains n
end

/-- the checker follows the branches that are possible when escaping is on (`flagEscape` is true); an argument
that a branch condition has shown to be all digits, or to be `None`, is not data in that branch -/
def tmplOk (dataArgs : List String) : Tmpl → Bool
  | .seq e => piecesOk dataArgs e
  | .ite .flagEscape t _ => tmplOk dataArgs t
  | .ite (.not .flagEscape) _ e => tmplOk dataArgs e
  | .ite (.isDigit n) t e => tmplOk (dataArgs.filter (· != n)) t && tmplOk dataArgs e
  | .ite (.notNone n) t e => tmplOk dataArgs t && tmplOk (dataArgs.filter (· != n)) e
  | .ite _ t e => tmplOk dataArgs t && tmplOk dataArgs e
  | .opaque => false

end Mistune
