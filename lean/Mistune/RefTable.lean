/-
Model of the link reference table (`env["ref_links"]`): `parse_ref_link` stores a definition only if its
key is new ("first definition wins"); `parse_link` looks a label up through `unikey`.
Keys are already-normalised labels (`unikey`, C18); data is opaque.
-/
import Mistune.Util
namespace Mistune

variable {D : Type}

/-- `if key not in env["ref_links"]: env["ref_links"][key] = data` -/
def refAdd (tbl : List (Str × D)) (key : Str) (data : D) : List (Str × D) :=
  if tbl.any (fun p => p.1 == key) then tbl else tbl ++ [(key, data)]

/-- all definitions of a document, in block-pass order -/
def refBuild : List (Str × D) → List (Str × D) → List (Str × D)
  | tbl, [] => tbl
  | tbl, (k, d) :: rest => refBuild (refAdd tbl k d) rest

/-- `ref_links.get(key)` -/
def refLookup (tbl : List (Str × D)) (key : Str) : Option D := tbl.lookup key

/-- specification: the data of the first definition with that key -/
def firstDef : List (Str × D) → Str → Option D
  | [], _ => none
  | (k, d) :: rest, key => if k == key then some d else firstDef rest key

end Mistune
