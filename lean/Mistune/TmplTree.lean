/-
Rendering a whole token tree with a table of templates (`HTMLRenderer.render_token` / `render_tokens`), over
tagged strings, and the decidable conditions of the safety theorem.
-/
import Mistune.Tmpl
import Mistune.TmplWire
namespace Mistune

structure TmplTable where
  tmpls : List (String × Tmpl)
  rawTypes : List String                      -- token types whose first argument is `token["raw"]` (document data)
  dataArgs : List (String × List String)      -- per type: arguments that carry unrestricted document data
  exempt : List String                        -- types excluded from the claim (known findings)

def TmplTable.dataArgsOf (tbl : TmplTable) (ty : String) : List String := (tbl.dataArgs.lookup ty).getD []

/-- **Static condition**: every template (outside the exempt types) escapes every use of its data arguments. -/
def TmplTable.ok (tbl : TmplTable) : Bool :=
  tbl.tmpls.all (fun p => tbl.exempt.contains p.1 || tmplOk (tbl.dataArgsOf p.1) p.2)

/-- keyword arguments of a render method from `token["attrs"]` -/
def attrVals (attrs : Json) : List (String × TVal) :=
  match attrs with
  | .obj kv => kv.map (fun p => (p.1, valOfJson p.2))
  | _ => []

/-- `render_token` over tagged strings; fuel bounds the depth of the tree -/
def renderTok (tbl : TmplTable) (mk : List (String × TVal) → TEnv) : Nat → Json → TStr
  | 0, _ => []
  | fuel + 1, t =>
    let ty := t.type
    let attrs := attrVals ((t.get? "attrs").getD (.obj []))
    let text : Option TStr :=
      if tbl.rawTypes.contains ty then (t.getStr? "raw").map TStr.ofData
      else match t.get? "children" with
        | some (.arr cs) => some (cs.flatMap (renderTok tbl mk fuel))
        | _ => none
    let args := match text with
      | some x => ("$text", TVal.str x) :: attrs
      | none => attrs
    match tbl.tmpls.lookup ty with
    | some T => (evalTmpl (mk args) T).getD []
    | none => []

def renderToks (tbl : TmplTable) (mk : List (String × TVal) → TEnv) (fuel : Nat) (toks : List Json) : TStr :=
  toks.flatMap (renderTok tbl mk fuel)

/-- **Refinement of the grammar** (what the parser guarantees about restricted fields): in every token, every
keyword argument that is NOT listed as a data argument of its type has a value that is already safe, and no
token has an exempt type.  Decidable; evaluated on real token trees by the check. -/
def refinedOk (tbl : TmplTable) : Nat → Json → Bool
  | 0, _ => false
  | fuel + 1, t =>
    let ty := t.type
    let attrs := attrVals ((t.get? "attrs").getD (.obj []))
    !tbl.exempt.contains ty &&
    (!tbl.rawTypes.contains ty || (tbl.dataArgsOf ty).contains "$text" ||
      ((t.getStr? "raw").map (fun r => (TStr.ofData r).safeB)).getD true) &&
    attrs.all (fun p => (tbl.dataArgsOf ty).contains p.1 ||
      p.2.safeB) &&
    (match t.get? "children" with
     | some (.arr cs) => cs.all (refinedOk tbl fuel)
     | _ => true)

end Mistune
