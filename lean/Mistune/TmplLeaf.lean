/-
C06 (c) at template level: which token types hand their text through unchanged, what a leaf's template does to
its raw text, and the list of leaf images a tree must show in document order.
-/
import Mistune.TmplTree
namespace Mistune

/-- the pieces contain, at top level, the untouched first argument -/
def piecesPassText : List TPiece → Bool
  | [] => false
  | .arg "$text" [] :: _ => true
  | _ :: rest => piecesPassText rest

/-- every branch that is possible with escaping on hands `$text` through untouched -/
def passOkT : Tmpl → Bool
  | .seq e => piecesPassText e
  | .ite .flagEscape t _ => passOkT t
  | .ite (.not .flagEscape) _ e => passOkT e
  | .ite _ t e => passOkT t && passOkT e
  | .opaque => false

/-- the operations applied to `$text` at top level of the pieces (first occurrence) -/
def piecesTextOps : List TPiece → Option (List TOp)
  | [] => none
  | .arg "$text" ops :: _ => some ops
  | _ :: rest => piecesTextOps rest

/-- the operations a leaf template applies to its raw text, when all branches possible with escaping on agree -/
def leafOpsT : Tmpl → Option (List TOp)
  | .seq e => piecesTextOps e
  | .ite .flagEscape t _ => leafOpsT t
  | .ite (.not .flagEscape) _ e => leafOpsT e
  | .ite _ t e =>
    match leafOpsT t, leafOpsT e with
    | some a, some b => if a == b then some a else none
    | _, _ => none
  | .opaque => none

/-- `out` shows the blocks `bs` in this order, as contiguous pieces (arbitrary text around and between them) -/
inductive InOrder : List TStr → TStr → Prop
  | nil (w : TStr) : InOrder [] w
  | cons (w b : TStr) (rest : List TStr) (out : TStr) : InOrder rest out → InOrder (b :: rest) (w ++ b ++ out)

/-- the leaf images a token must show: a raw-type token whose template applies `ops` to its text shows
`ops(raw)`; a container whose template hands its text through shows the images of its children, in order;
everything else (image alt text, footnote items, task items: templates that transform their children's text)
promises nothing here -/
def leafBlocks (tbl : TmplTable) (mk : List (String × TVal) → TEnv) : Nat → Json → List TStr
  | 0, _ => []
  | fuel + 1, t =>
    let ty := t.type
    match tbl.tmpls.lookup ty with
    | none => []
    | some T =>
      if tbl.rawTypes.contains ty then
        match t.getStr? "raw", leafOpsT T with
        | some raw, some ops =>
          let attrs := attrVals ((t.get? "attrs").getD (.obj []))
          [applyOps (mk (("$text", TVal.str (TStr.ofData raw)) :: attrs)) ops (TStr.ofData raw)]
        | _, _ => []
      else if passOkT T then
        match t.get? "children" with
        | some (.arr cs) => cs.flatMap (leafBlocks tbl mk fuel)
        | _ => []
      else []

/-- token types whose template hands `$text` through (computed from the table) -/
def TmplTable.passTypes (tbl : TmplTable) : List String := (tbl.tmpls.filter (fun p => passOkT p.2)).map (·.1)

/-- leaf types with the operations their template applies -/
def TmplTable.leafOps (tbl : TmplTable) : List (String × List TOp) :=
  tbl.tmpls.filterMap (fun p => if tbl.rawTypes.contains p.1 then (leafOpsT p.2).map (fun o => (p.1, o)) else none)

end Mistune
