/-
Static analyses of regular expressions (computable; their soundness w.r.t. the matcher is proved in
`MistuneProofs.Engine.*`).  They turn questions about *all subjects* into a finite computation on the regex,
which is what the per-run obligations (`MistuneProofs.Oblig.*`) decide on the regenerated rule tables.
-/
import Mistune.Rx
namespace Mistune

/-- a lower bound on the length of every match -/
def Rx.minLen : Rx → Nat
  | .eps => 0
  | .fail => 0
  | .cls _ _ => 1
  | .any _ => 1
  | .seq a b => a.minLen + b.minLen
  | .alt a b => min a.minLen b.minLen
  | .rep r mn _ _ => mn * r.minLen
  | .grp _ r => r.minLen
  | .backref _ => 0
  | .look _ _ _ _ => 0
  | .bos | .bol | .eos | .eol | .eosStrict | .wordb | .nwordb => 0

/-- `true` if the regex may match the empty string (over-approximation: `false` means every match is non-empty) -/
def Rx.mayBeEmpty (r : Rx) : Bool := r.minLen == 0

/-- every repeat body consumes at least one character per iteration (then CPython's empty-iteration rule is
never exercised, and every repeat terminates by consumption) -/
def Rx.repBodiesConsume : Rx → Bool
  | .seq a b => a.repBodiesConsume && b.repBodiesConsume
  | .alt a b => a.repBodiesConsume && b.repBodiesConsume
  | .rep r _ _ _ => r.repBodiesConsume && decide (1 ≤ r.minLen)
  | .grp _ r => r.repBodiesConsume
  | .look _ _ _ r => r.repBodiesConsume
  | _ => true

/-- Over-approximation of the set of characters a *non-empty* match can start with, as a predicate on the
code point, given the category tables. -/
def Rx.firstOk (t : CatTables) : Rx → Nat → Bool
  | .eps, _ => false
  | .fail, _ => false
  | .cls neg items, ch => clsTest t neg items ch
  | .any dotall, ch => dotall || ch != 10
  | .seq a b, ch => a.firstOk t ch || (a.mayBeEmpty && b.firstOk t ch)
  | .alt a b, ch => a.firstOk t ch || b.firstOk t ch
  | .rep r _ _ _, ch => r.firstOk t ch
  | .grp _ r, ch => r.firstOk t ch
  | .backref _, _ => true
  | .look _ _ _ _, _ => false
  | .bos, _ | .bol, _ | .eos, _ | .eol, _ | .eosStrict, _ | .wordb, _ | .nwordb, _ => false

/-- Characters that occur in *every* match (each listed code point occurs somewhere in the matched span). -/
def Rx.needs : Rx → List Nat
  | .cls false [.chr c] => [c]
  | .seq a b => a.needs ++ b.needs
  | .alt a b => a.needs.filter (fun c => b.needs.contains c)
  | .rep r mn _ _ => if mn ≥ 1 then r.needs else []
  | .grp _ r => r.needs
  | _ => []

/-- The regex can only match the empty string (anchors, look-arounds, ε and their combinations). -/
def Rx.zeroWidth : Rx → Bool
  | .eps | .fail => true
  | .seq a b => a.zeroWidth && b.zeroWidth
  | .alt a b => a.zeroWidth && b.zeroWidth
  | .rep r _ _ _ => r.zeroWidth
  | .grp _ r => r.zeroWidth
  | .look _ _ _ _ => true
  | .bos | .bol | .eos | .eol | .eosStrict | .wordb | .nwordb => true
  | .cls _ _ | .any _ | .backref _ => false

/-- Every match starts at the beginning of a line (position 0 or just after `\n`). -/
def Rx.bolAnchored : Rx → Bool
  | .bol => true
  | .bos => true
  | .fail => true
  | .seq a b => a.bolAnchored || (a.zeroWidth && b.bolAnchored)
  | .alt a b => a.bolAnchored && b.bolAnchored
  | .grp _ r => r.bolAnchored
  | .rep r mn _ _ => decide (1 ≤ mn) && r.bolAnchored
  | .look false false 1 (.cls false [.chr 10]) => true        -- `(?<=\n)`
  | _ => false

/-- union of two optional finite character sets -/
def optUnion : Option (List Nat) → Option (List Nat) → Option (List Nat)
  | some a, some b => some (a ++ b)
  | _, _ => none

def ClsItem.expand : ClsItem → Option (List Nat)
  | .chr c => some [c]
  | .range lo hi => if hi - lo ≤ 64 then some (List.range' lo (hi + 1 - lo)) else none
  | .cat _ _ => none

def expandItems : List ClsItem → Option (List Nat)
  | [] => some []
  | it :: rest => optUnion it.expand (expandItems rest)

/-- A *finite* over-approximation of the characters a non-empty match can start with, when there is one
(`none` = unbounded: negated class, `.`, category, back-reference). -/
def Rx.firstChars : Rx → Option (List Nat)
  | .eps => some []
  | .fail => some []
  | .cls false items => expandItems items
  | .cls true _ => none
  | .any _ => none
  | .seq a b => if a.mayBeEmpty then optUnion a.firstChars b.firstChars else a.firstChars
  | .alt a b => optUnion a.firstChars b.firstChars
  | .rep r _ _ _ => r.firstChars
  | .grp _ r => r.firstChars
  | .backref _ => none
  | .look _ _ _ _ => some []
  | .bos | .bol | .eos | .eol | .eosStrict | .wordb | .nwordb => some []

def optAdd : Option Nat → Option Nat → Option Nat
  | some a, some b => some (a + b)
  | _, _ => none

def optMax : Option Nat → Option Nat → Option Nat
  | some a, some b => some (max a b)
  | _, _ => none

/-- An upper bound on the number of newline characters a match can contain (`none` = unbounded / unknown). -/
def Rx.maxNewlines : Rx → Option Nat
  | .eps | .fail => some 0
  | .cls false items => some (if items.any (fun it => it.test ⟨fun _ => false, fun c => c == 10, fun _ => false⟩ 10) then 1 else 0)
  | .cls true items => some (if items.any (fun it => it.test ⟨fun _ => false, fun c => c == 10, fun _ => false⟩ 10) then 0 else 1)
  | .any dotall => some (if dotall then 1 else 0)
  | .seq a b => optAdd a.maxNewlines b.maxNewlines
  | .alt a b => optMax a.maxNewlines b.maxNewlines
  | .rep r _ (some m) _ => r.maxNewlines.map (· * m)
  | .rep r _ none _ => match r.maxNewlines with | some 0 => some 0 | _ => none
  | .grp _ r => r.maxNewlines
  | .backref _ => none
  | .look _ _ _ _ => some 0
  | .bos | .bol | .eos | .eol | .eosStrict | .wordb | .nwordb => some 0

/-- The stop characters of the speedup plugin's text rule, read off its regenerated regex
`[\s\S]+?(?=[stops]|…|$)`: the items of the first alternative of the look-ahead. -/
def Rx.speedupStops : Rx → Option (List Nat)
  | .seq (.rep (.cls false [.cat false .space, .cat true .space]) 1 none false) (.look true false _ (.alt (.cls false items) _)) =>
      expandItems items
  | _ => none

/-! ### backtracking-cost class (C07) -/

/-- a repeat is "big" when its iteration count is unbounded or larger than 16 -/
def bigRep (mx : Option Nat) : Bool :=
  match mx with
  | none => true
  | some m => decide (16 < m)

/-- the regex consumes exactly one character whenever it matches (class, dot) -/
def Rx.isSingleChar : Rx → Bool
  | .cls _ _ => true
  | .any _ => true
  | .grp _ r => r.isSingleChar
  | _ => false

/-- contains a big repeat -/
def Rx.hasBigRep : Rx → Bool
  | .seq a b => a.hasBigRep || b.hasBigRep
  | .alt a b => a.hasBigRep || b.hasBigRep
  | .rep r _ mx _ => bigRep mx || r.hasBigRep
  | .grp _ r => r.hasBigRep
  | .look _ _ _ r => r.hasBigRep
  | _ => false

/-- probe alphabet for class-overlap tests: all of ASCII plus representatives of the non-ASCII categories -/
def probeAlphabet : List Nat := List.range 128 ++ [0x85, 0xA0, 0xE9, 0xDF, 0x660, 0x2028, 0x3000, 0x4E00, 0x1F600]

/-- can both regexes start (a non-empty match) with the same probe character? -/
def firstOverlap (t : CatTables) (a b : Rx) : Bool := probeAlphabet.any (fun ch => a.firstOk t ch && b.firstOk t ch)

/-- the alternatives at the top of a repeat body (flattened `alt`) -/
def Rx.alts : Rx → List Rx
  | .alt a b => a.alts ++ b.alts
  | .grp _ r => r.alts
  | r => [r]

def pairwiseDisjoint (t : CatTables) : List Rx → Bool
  | [] => true
  | a :: rest => rest.all (fun b => !firstOverlap t a b) && pairwiseDisjoint t rest

/-- the last big single-character repeat at the end of a sequence, if the sequence ends with one (possibly
followed by zero-width items) -/
def Rx.trailingCharRep : Rx → Option Rx
  | .rep r _ mx _ => if bigRep mx && r.isSingleChar then some r else none
  | .seq a b => if b.zeroWidth then a.trailingCharRep else b.trailingCharRep
  | .grp _ r => r.trailingCharRep
  | _ => none

/-- the leading big single-character repeat of a sequence, if it starts with one -/
def Rx.leadingCharRep : Rx → Option Rx
  | .rep r _ mx _ => if bigRep mx && r.isSingleChar then some r else none
  | .seq a b => if a.zeroWidth then b.leadingCharRep else a.leadingCharRep
  | .grp _ r => r.leadingCharRep
  | _ => none

/-- **The cheap class.** Sufficient syntactic conditions under which the backtracking matcher cannot blow up:
every big repeat has a single-character body, or a body without inner big repeats whose alternatives start with
pairwise different characters (one way to read each iteration); and two big single-character repeats never
stand next to each other over overlapping classes (no `x{2,}x*`, the quadratic-per-start shape). -/
def Rx.polySafe (t : CatTables) : Rx → Bool
  | .seq a b =>
    a.polySafe t && b.polySafe t &&
    (match a.trailingCharRep, b.leadingCharRep with
     | some x, some y => !firstOverlap t x y
     | _, _ => true)
  | .alt a b => a.polySafe t && b.polySafe t
  | .rep r _ mx _ =>
    if bigRep mx then
      r.isSingleChar || (!r.hasBigRep && decide (1 ≤ r.minLen) && pairwiseDisjoint t r.alts && r.polySafe t)
    else r.polySafe t
  | .grp _ r => r.polySafe t
  | .look _ _ _ r => r.polySafe t
  | _ => true

end Mistune
