/-
Model of what persists between conversions on one converter object (C08).

Everything a conversion mutates is created per call (`BlockState`, `InlineState`, `env`, token lists) except
the compile caches: `Parser.__sc` of the block and of the inline parser (rule-list key ↦ compiled scanner),
`plugins._cached_modules` (name ↦ plugin function) and `mistune.__cached_parsers` (arguments ↦ converter).
All three have the same shape: a dictionary filled on a miss with a value that is a *function of the key and
of the immutable configuration* (`compile`).  That "only these persist" is what the state-footprint
correspondence checks on the real object graph (harness/props/c08.py).

A conversion is a program that interleaves pure computation with cache accesses.
-/
namespace Mistune

universe u
variable {K V Out : Type}

/-- A conversion seen from the shared state: it asks for compiled values by key. -/
inductive Prog (K V Out : Type) where
  | ret (o : Out) : Prog K V Out
  | getSc (k : K) (cont : V → Prog K V Out) : Prog K V Out

abbrev Cache (K V : Type) := List (K × V)

/-- Every cache entry is what its key compiles to. -/
def Coherent [DecidableEq K] (compile : K → V) (c : Cache K V) : Prop :=
  ∀ k v, c.lookup k = some v → v = compile k

/-- `compile_sc`: look the key up; on a miss compile and store. -/
def Prog.run [DecidableEq K] (compile : K → V) : Prog K V Out → Cache K V → Cache K V × Out
  | .ret o, c => (c, o)
  | .getSc k cont, c =>
    match c.lookup k with
    | some v => (cont v).run compile c
    | none => (cont (compile k)).run compile ((k, compile k) :: c)

/-- The result on a fresh converter, without any cache. -/
def Prog.eval (compile : K → V) : Prog K V Out → Out
  | .ret o => o
  | .getSc k cont => (cont (compile k)).eval compile

/-- A history of conversions on one converter: returns the outputs in order. -/
def runHistory [DecidableEq K] (compile : K → V) : List (Prog K V Out) → Cache K V → Cache K V × List Out
  | [], c => (c, [])
  | p :: ps, c =>
    let r := p.run compile c
    let rest := runHistory compile ps r.1
    (rest.1, r.2 :: rest.2)

/-! ### Concurrency: the same accesses split into atomic actions -/

/-- Atomic actions of one thread: a dictionary read, a dictionary write, local computation in between. -/
inductive Act (K V Out : Type) where
  | ret (o : Out) : Act K V Out
  | lookup (k : K) (cont : Option V → Act K V Out) : Act K V Out
  | insert (k : K) (v : V) (cont : Act K V Out) : Act K V Out

/-- `compile_sc` as it really executes: `get`, and on a miss compile locally, then store. -/
def Prog.toAct (compile : K → V) : Prog K V Out → Act K V Out
  | .ret o => .ret o
  | .getSc k cont =>
    .lookup k (fun r => match r with
      | some v => (cont v).toAct compile
      | none => .insert k (compile k) ((cont (compile k)).toAct compile))

/-- One atomic step of thread `i` on the shared cache. Finished threads do not move. -/
def stepThread [DecidableEq K] (c : Cache K V) : Act K V Out → Cache K V × Act K V Out
  | .ret o => (c, .ret o)
  | .lookup k cont => (c, cont (c.lookup k))
  | .insert k v cont => ((k, v) :: c, cont)

/-- Run a schedule (a list of thread indices) over a pool of threads. -/
def runSchedule [DecidableEq K] : List Nat → Cache K V → List (Act K V Out) → Cache K V × List (Act K V Out)
  | [], c, ts => (c, ts)
  | i :: sched, c, ts =>
    match ts[i]? with
    | none => runSchedule sched c ts
    | some t =>
      let r := stepThread c t
      runSchedule sched r.1 (ts.set i r.2)

end Mistune
