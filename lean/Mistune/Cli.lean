/-
Model of `mistune.__main__` (`cli`, `_md`, `_output`, `read_stdin`): channel selection, the mapping from
flags to `create_markdown` arguments, and the output channel.  The conversion itself is a parameter `conv`.
-/
import Mistune.Util
namespace Mistune

/-- parsed command line (`argparse.Namespace`) -/
structure CliArgs where
  message : Option Str := none       -- -m / --message
  file : Option Str := none          -- -f / --file
  plugin : Option (List Str) := none -- -p / --plugin (nargs="+", action="extend"): `none` or non-empty
  escape : Bool := false             -- --escape
  hardwrap : Bool := false           -- --hardwrap
  output : Option Str := none        -- -o / --output
  renderer : Str := "html".toList    -- -r / --renderer
  deriving Repr

/-- arguments `_md` passes to `create_markdown` -/
structure ConvCfg where
  escape : Bool
  hardWrap : Bool
  renderer : Str
  plugins : List Str
  deriving Repr, DecidableEq

def defaultPlugins : List Str := ["strikethrough".toList, "footnotes".toList, "table".toList, "speedup".toList]

/-- Python truthiness of an optional string / list -/
def truthyStr : Option Str → Bool
  | some s => !s.isEmpty
  | none => false

def cfgOf (a : CliArgs) : ConvCfg :=
  { escape := a.escape, hardWrap := a.hardwrap, renderer := a.renderer,
    plugins := match a.plugin with
      | some p => if p.isEmpty then defaultPlugins else p
      | none => defaultPlugins }

inductive CliOut where
  | stdout (text : Str)                       -- `print(text)`: text followed by a newline
  | file (path : Str) (content : Str)         -- `open(path, "w").write(text)`
  | usage                                      -- "You MUST specify a message or file", exit 1
  | noSuchFile (path : Str)
  deriving Repr, DecidableEq

def cliOutput (a : CliArgs) (text : Str) : CliOut :=
  if truthyStr a.output then .file (a.output.getD []) text else .stdout (text ++ ['\n'])

/-- `cli()`; `stdin = none` models a terminal (`isatty`), `fs` the file system (already decoded as UTF-8). -/
def cli (conv : ConvCfg → Str → Str) (fs : Str → Option Str) (a : CliArgs) (stdin : Option Str) : CliOut :=
  let message : Option Str := if !truthyStr a.message && !truthyStr a.file then stdin else a.message
  if truthyStr message then cliOutput a (conv (cfgOf a) (message.getD []))
  else if truthyStr a.file then
    match fs (a.file.getD []) with
    | some content => cliOutput a (conv (cfgOf a) content)
    | none => .noSuchFile (a.file.getD [])
  else .usage

end Mistune
