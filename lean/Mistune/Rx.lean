/-
Regular expressions with CPython `re` (sre) semantics, restricted to the op-codes that occur in mistune:
priority-ordered backtracking, greedy / lazy bounded repeats with CPython's empty-iteration rule, capture
groups, back-references, look-ahead, fixed-width look-behind, `^ $ \A \Z \b \B` under the MULTILINE / DOTALL
flags (resolved at translation time), `pos` / `endpos`.

The matcher is continuation-passing and *structurally recursive on the regex* (the repeat loop is factored
into `repLoop`, which receives the sub-matcher as an argument and recurses on fuel), so there is no
`partial` and no well-founded recursion: the kernel can unfold it and proofs go by induction on `Rx`.

Conformance with CPython is re-checked on every run for every pattern extracted from the repository
(harness/regex_conformance).
-/
import Mistune.NatTree
import Mistune.Util
namespace Mistune

inductive Cat where
  | digit | space | word
  deriving Repr, DecidableEq

inductive ClsItem where
  | chr (c : Nat)
  | range (lo hi : Nat)
  | cat (neg : Bool) (k : Cat)
  deriving Repr, DecidableEq

inductive Rx where
  | eps : Rx
  | fail : Rx
  | cls (neg : Bool) (items : List ClsItem) : Rx
  | any (dotall : Bool) : Rx
  | seq (a b : Rx) : Rx
  | alt (a b : Rx) : Rx
  | rep (r : Rx) (min : Nat) (max : Option Nat) (greedy : Bool) : Rx
  | grp (idx : Nat) (r : Rx) : Rx
  | backref (idx : Nat) : Rx
  | look (ahead neg : Bool) (width : Nat) (r : Rx) : Rx   -- `width` is used by look-behind only
  | bos | bol | eos | eol | eosStrict | wordb | nwordb : Rx
  deriving Repr, DecidableEq

/-- Unicode category tests of `str` patterns, supplied by the generated tables. -/
structure CatTables where
  isDigit : Nat → Bool
  isSpace : Nat → Bool
  isWord : Nat → Bool

def ClsItem.test (t : CatTables) (c : Nat) : ClsItem → Bool
  | .chr x => x == c
  | .range lo hi => lo ≤ c && c ≤ hi
  | .cat neg .digit => t.isDigit c != neg
  | .cat neg .space => t.isSpace c != neg
  | .cat neg .word => t.isWord c != neg

def clsTest (t : CatTables) (neg : Bool) (items : List ClsItem) (c : Nat) : Bool :=
  items.any (fun it => it.test t c) != neg

/-- captures: newest first; group index ↦ (start, end) -/
abbrev Caps := List (Nat × (Nat × Nat))

def Caps.get (c : Caps) (idx : Nat) : Option (Nat × Nat) := c.lookup idx

/-- matching context: subject, effective end (`endpos`), category tables -/
structure RxCtx where
  s : Array Char
  n : Nat            -- endpos, `n ≤ s.size`
  t : CatTables

def RxCtx.chr (x : RxCtx) (i : Nat) : Nat := (x.s.getD i ' ').toNat

def RxCtx.isWordAt (x : RxCtx) (i : Nat) : Bool := i < x.n && x.t.isWord (x.chr i)

/-- substring equality `s[a..a+len) = s[b..b+len)` (for back-references) -/
def RxCtx.sameSub (x : RxCtx) (a b : Nat) : Nat → Bool
  | 0 => true
  | len + 1 => x.s.getD a ' ' == x.s.getD b ' ' && x.sameSub (a + 1) (b + 1) len

/-- The repeat loop.  `mr i c k` runs one iteration of the body.  `cnt` iterations are done, the previous one
`prevAdv`anced (consumed ≥ 1 character).  CPython enters a further iteration only if `cnt < min` or the
previous iteration consumed something. -/
def repLoop {R : Type} (mr : Nat → Caps → (Nat → Caps → Option R) → Option R)
    (min : Nat) (max : Option Nat) (greedy : Bool) (k : Nat → Caps → Option R) :
    Nat → Nat → Bool → Nat → Caps → Option R
  | 0, _, _, _, _ => none
  | fuel + 1, cnt, prevAdv, i, c =>
    let canMore := (match max with | some m => cnt < m | none => true) && (cnt < min || prevAdv || cnt == 0)
    let more : Unit → Option R := fun _ =>
      if canMore then mr i c (fun j c' => repLoop mr min max greedy k fuel (cnt + 1) (j != i) j c') else none
    let done : Unit → Option R := fun _ => if cnt ≥ min then k i c else none
    if greedy then
      match more () with
      | some r => some r
      | none => done ()
    else
      match done () with
      | some r => some r
      | none => more ()

/-- The matcher: `m x r i c k` tries to match `r` at position `i` with captures `c`, then continues with `k`. -/
def Rx.m {R : Type} (x : RxCtx) : Rx → Nat → Caps → (Nat → Caps → Option R) → Option R
  | .eps, i, c, k => k i c
  | .fail, _, _, _ => none
  | .cls neg items, i, c, k => if i < x.n && clsTest x.t neg items (x.chr i) then k (i + 1) c else none
  | .any dotall, i, c, k => if i < x.n && (dotall || x.chr i != 10) then k (i + 1) c else none
  | .seq a b, i, c, k => a.m x i c (fun j c' => b.m x j c' k)
  | .alt a b, i, c, k =>
    match a.m x i c k with
    | some r => some r
    | none => b.m x i c k
  | .rep r min max greedy, i, c, k =>
    repLoop (fun i c k => r.m x i c k) min max greedy k (x.n + min + 2 - i) 0 false i c
  | .grp idx r, i, c, k => r.m x i c (fun j c' => k j ((idx, (i, j)) :: c'))
  | .backref idx, i, c, k =>
    match c.get idx with
    | none => none
    | some (a, b) =>
      let len := b - a
      if i + len ≤ x.n && x.sameSub a i len then k (i + len) c else none
  | .look true false _ r, i, c, k =>          -- (?=…): keeps the captures of its body
    match r.m x i c (fun _ c' => some c') with
    | some c' => k i c'
    | none => none
  | .look true true _ r, i, c, k =>           -- (?!…)
    match r.m x i c (fun _ _ => some ()) with
    | some _ => none
    | none => k i c
  | .look false false w r, i, c, k =>         -- (?<=…), fixed width `w`
    if w ≤ i then
      match r.m x (i - w) c (fun j c' => if j == i then some c' else none) with
      | some c' => k i c'
      | none => none
    else none
  | .look false true w r, i, c, k =>          -- (?<!…)
    if w ≤ i then
      match r.m x (i - w) c (fun j _ => if j == i then some () else none) with
      | some _ => none
      | none => k i c
    else k i c
  | .bos, i, c, k => if i == 0 then k i c else none
  | .bol, i, c, k => if i == 0 || x.chr (i - 1) == 10 then k i c else none
  | .eos, i, c, k => if i == x.n || (i + 1 == x.n && x.chr i == 10) then k i c else none
  | .eol, i, c, k => if i == x.n || (i < x.n && x.chr i == 10) then k i c else none
  | .eosStrict, i, c, k => if i == x.n then k i c else none
  | .wordb, i, c, k =>
    if (i > 0 && x.isWordAt (i - 1)) != x.isWordAt i then k i c else none
  | .nwordb, i, c, k =>
    if (i > 0 && x.isWordAt (i - 1)) != x.isWordAt i then none else k i c

/-- a successful match: span and captures -/
structure RxMatch where
  start : Nat
  stop : Nat
  caps : Caps
  deriving Repr

def RxMatch.group (mt : RxMatch) (idx : Nat) : Option (Nat × Nat) :=
  if idx == 0 then some (mt.start, mt.stop) else mt.caps.get idx

/-- `pattern.match(s, pos, endpos)` -/
def Rx.matchAt (r : Rx) (x : RxCtx) (pos : Nat) : Option RxMatch :=
  r.m x pos [] (fun j c => some { start := pos, stop := j, caps := c })

/-- `pattern.fullmatch(s, pos, endpos)` -/
def Rx.fullMatchAt (r : Rx) (x : RxCtx) (pos : Nat) : Option RxMatch :=
  r.m x pos [] (fun j c => if j == x.n then some { start := pos, stop := j, caps := c } else none)

/-- `pattern.search(s, pos, endpos)`: leftmost start, then priority order. -/
def Rx.searchFrom (r : Rx) (x : RxCtx) : Nat → Nat → Option RxMatch
  | 0, _ => none
  | fuel + 1, pos =>
    if pos > x.n then none
    else match r.matchAt x pos with
      | some mt => some mt
      | none => r.searchFrom x fuel (pos + 1)

def Rx.search (r : Rx) (x : RxCtx) (pos : Nat) : Option RxMatch :=
  r.searchFrom x (x.n + 2 - pos) pos

end Mistune
