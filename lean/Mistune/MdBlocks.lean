/-
Model of two leaf-block writers of `src/mistune/renderers/markdown.py`:

```python
def heading(self, token, state):
    level = cast(int, token["attrs"]["level"])
    marker = "#" * level
    text = self.render_children(token, state)
    return marker + " " + text + "\n\n"

def thematic_break(self, token, state):
    return "***\n\n"
```

`text` is the rendered inline content (`render_children`); the transcription takes it as an argument.  Tied to the
Python methods by differential testing through the driver ops `md_heading` / `md_thematic_break`
(harness/props/c13.py, `heading_tie`).
-/
import Mistune.Util
import Mistune.Py
import Mistune.MdCode
namespace Mistune

/-- `MarkdownRenderer.heading`: `"#" * level + " " + text + "\n\n"` -/
def mdHeading (level : Nat) (text : Str) : Str := List.replicate level '#' ++ [' '] ++ text ++ ['\n', '\n']

/-- `MarkdownRenderer.thematic_break`: `"***\n\n"` -/
def mdThematicBreak : Str := ['*', '*', '*', '\n', '\n']

/-! ### `MarkdownRenderer.block_quote`

```python
def block_quote(self, token, state):
    text = indent(self.render_children(token, state), "> ", lambda _: True)
    # drop the trailing empty quote lines, never characters of the last content line
    lines = text.split("\n")
    while lines and not lines[-1].strip("> "):
        lines.pop()
    return "\n".join(lines) + "\n\n"
```

with `textwrap.indent(text, prefix, predicate) = "".join(prefix + line if predicate(line) else line for line in
text.splitlines(True))`.  The transcription takes the rendered children (`render_children`) as its argument.  Tied to the
Python method by differential testing through the driver op `md_block_quote` (harness/props/c13.py, `quote_tie`). -/

/-- `s.splitlines(True)` (`keepends=True`): the lines with their terminators; the line boundaries are those of
`Py.isLineBreak` (`\n`, `\r`, `\r\n`, `\v`, `\f`, `\x1c`–`\x1e`, `\x85`, `\u2028`, `\u2029`); no empty last line. -/
def splitLinesKeep : Str → List Str
  | [] => []
  | '\r' :: '\n' :: r => ['\r', '\n'] :: splitLinesKeep r
  | c :: r =>
    if Py.isLineBreak c then [c] :: splitLinesKeep r
    else match splitLinesKeep r with
      | l :: ls => (c :: l) :: ls
      | [] => [[c]]

/-- `textwrap.indent(text, prefix, lambda _: True)`: every line of `text.splitlines(True)` gets the prefix -/
def indentAll (pre : Str) (text : Str) : Str := ((splitLinesKeep text).map (pre ++ ·)).flatten

/-- `not line.strip("> ")`: the line consists of `>` and blanks only -/
def quoteBlankLine (l : Str) : Bool := (Py.stripC ['>', ' '] l).isEmpty

/-- `while lines and not lines[-1].strip("> "): lines.pop()` -/
def popQuoteBlank (lines : List Str) : List Str := (lines.reverse.dropWhile quoteBlankLine).reverse

/-- `MarkdownRenderer.block_quote` on the rendered children `inner` -/
def mdBlockQuote (inner : Str) : Str :=
  let text := indentAll ['>', ' '] inner
  let lines := popQuoteBlank (lineSplit text)
  Py.join ['\n'] lines ++ ['\n', '\n']

end Mistune
