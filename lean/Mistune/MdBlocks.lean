/-
Model of two leaf-block writers of `src/mistune/renderers/markdown.py`:

```python
def heading(self, token, state):
    level = cast(int, token["attrs"]["level"])
    marker = "#" * level
    text = self.render_children(token, state)
    return marker + " " + text + "\n\n"

def thematic_break(self, token, state):
    return "***\n\n"
```

`text` is the rendered inline content (`render_children`); the transcription takes it as an argument.  Tied to the
Python methods by differential testing through the driver ops `md_heading` / `md_thematic_break`
(harness/props/c13.py, `heading_tie`).
-/
import Mistune.Util
namespace Mistune

/-- `MarkdownRenderer.heading`: `"#" * level + " " + text + "\n\n"` -/
def mdHeading (level : Nat) (text : Str) : Str := List.replicate level '#' ++ [' '] ++ text ++ ['\n', '\n']

/-- `MarkdownRenderer.thematic_break`: `"***\n\n"` -/
def mdThematicBreak : Str := ['*', '*', '*', '\n', '\n']

end Mistune
