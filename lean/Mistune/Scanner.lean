/-
The two scanner loops of mistune (`BlockParser.parse`, `InlineParser.parse`) as interpreters over a rule
table, with the rule handlers abstracted to their *return value* (the new cursor or `None`).  What a handler
does to the token list is irrelevant for progress and termination (C01) and for the partition of the source
into consumed spans (C03); those properties are about cursor arithmetic.

Where Python would loop forever (an iteration that does not advance) the model returns `PyErr.noProgress`.
-/
import Mistune.Rx
import Mistune.RxAnalysis
namespace Mistune

inductive PyErr where
  | noProgress | depthExceeded | keyError | indexError | valueError | assertion | attributeError | typeError
  deriving Repr, DecidableEq

/-- the combined scanner `(?P<r1>…)|(?P<r2>…)|…` at one position: first rule (in order) that matches -/
def scanAt (x : RxCtx) : List (String × Rx) → Nat → Option (String × RxMatch)
  | [], _ => none
  | (name, r) :: rest, pos =>
    match r.matchAt x pos with
    | some mt => some (name, mt)
    | none => scanAt x rest pos

/-- `sc.search(src, pos)`: leftmost position, then rule order -/
def scanFrom (x : RxCtx) (rules : List (String × Rx)) : Nat → Nat → Option (String × RxMatch)
  | 0, _ => none
  | fuel + 1, pos =>
    if pos > x.n then none
    else match scanAt x rules pos with
      | some r => some r
      | none => scanFrom x rules fuel (pos + 1)

def scan (x : RxCtx) (rules : List (String × Rx)) (pos : Nat) : Option (String × RxMatch) :=
  scanFrom x rules (x.n + 2 - pos) pos

/-- `BlockState.find_line_end`: `_LINE_END = \n|$` searched from the cursor; returns `m.end()` -/
def lineEndFrom (x : RxCtx) : Nat → Nat → Nat
  | 0, pos => pos
  | fuel + 1, pos =>
    if pos ≥ x.n then x.n
    else if x.chr pos == 10 then pos + 1
    else lineEndFrom x fuel (pos + 1)

def lineEnd (x : RxCtx) (pos : Nat) : Nat := lineEndFrom x (x.n + 1 - pos) pos

/-- one loop iteration as seen from outside: which rule fired on which span, what the handler returned,
where the cursor went -/
structure ScanEvent where
  rule : String
  start : Nat
  stop : Nat
  ret : Option Nat
  cursor : Nat          -- cursor after the iteration
  deriving Repr, DecidableEq

/-- The handler oracle: return value of `parse_method(m, state)` for the iteration's match (`none` = `None`/0). -/
abbrev HandlerRet := String → RxMatch → Option Nat

/-- `BlockParser.parse(state, rules)`: returns the iterations and the text spans added as paragraph "holes". -/
def blockLoop (x : RxCtx) (rules : List (String × Rx)) (h : HandlerRet) :
    Nat → Nat → List ScanEvent → Except PyErr (List ScanEvent × Nat)
  | 0, _, _ => .error .noProgress
  | fuel + 1, cursor, evs =>
    if cursor < x.n then
      match scan x rules cursor with
      | none => .ok (evs, x.n)                     -- `break`; the tail becomes a paragraph, cursor := cursor_max
      | some (name, mt) =>
        let ret := h name mt
        let cursor' := match ret with
          | some e => if e = 0 then lineEnd x mt.start else e       -- `if end_pos2:` (0 is falsy)
          | none => lineEnd x mt.start
        let ev : ScanEvent := { rule := name, start := mt.start, stop := mt.stop, ret := ret, cursor := cursor' }
        if cursor' ≤ cursor then .error .noProgress
        else blockLoop x rules h fuel cursor' (evs ++ [ev])
    else .ok (evs, cursor)

/-- `InlineParser.parse(state)`: `pos` plays the role of the cursor; a declined rule advances by one character. -/
def inlineLoop (x : RxCtx) (rules : List (String × Rx)) (h : HandlerRet) :
    Nat → Nat → List ScanEvent → Except PyErr (List ScanEvent × Nat)
  | 0, _, _ => .error .noProgress
  | fuel + 1, pos, evs =>
    if pos < x.n then
      match scan x rules pos with
      | none => .ok (evs, pos)
      | some (name, mt) =>
        let ret := h name mt
        let pos' := match ret with
          | some e => if e = 0 then mt.start + 1 else e
          | none => mt.start + 1
        let ev : ScanEvent := { rule := name, start := mt.start, stop := mt.stop, ret := ret, cursor := pos' }
        if pos' ≤ pos then .error .noProgress
        else inlineLoop x rules h fuel pos' (evs ++ [ev])
    else .ok (evs, pos)

/-- The progress contract of a handler table: a truthy return value lies strictly after the match start. -/
def ProgressContract (h : HandlerRet) : Prop :=
  ∀ name mt e, h name mt = some e → e ≠ 0 → mt.start < e

/-- Decidable side condition on a rule table: every rule consumes at least one character. -/
def rulesConsume (rules : List (String × Rx)) : Bool := rules.all (fun p => decide (1 ≤ p.2.minLen))

end Mistune
