/-
C06 (a): balance of the rendered HTML.  A stack automaton on top of the tag scanner of `TmplTags` (tag names, closing
tags, void elements), and its symbolic twin that runs through the pieces of a template: tag names may contain an
integer argument (`<h` + level + `>` … `</h` + level + `>`), compared symbolically.
-/
import Mistune.TmplTags
namespace Mistune

def voidTags : List Str := ["br".toList, "hr".toList, "img".toList, "input".toList]

/-- scanner state + the tag being read + the stack of open elements (top first) -/
structure BS where
  ts : TS
  name : Str
  reading : Bool       -- still in the name part of the tag
  closing : Bool       -- the tag began with `/`
  lastSlash : Bool     -- the previous character inside the tag was `/`
  stack : List Str
  deriving DecidableEq, Repr

def BS.init (stack : List Str) : BS := { ts := .text, name := [], reading := false, closing := false, lastSlash := false, stack := stack }

def nameEnd (c : Char) : Bool := c == ' ' || c == '/' || c == '\n' || c == '\t'

def bsStep (b : BS) (c : Char) : Option BS :=
  match tsStep b.ts c with
  | none => none
  | some ts' =>
    match b.ts, ts' with
    | .text, .lt => some { b with ts := .lt, name := [], reading := true, closing := false, lastSlash := false }
    | .lt, .tag => if c == '/' then some { b with ts := .tag, closing := true } else some { b with ts := .tag, name := [c] }
    | .tag, .tag =>
      if b.reading then
        if nameEnd c then some { b with reading := false, lastSlash := c == '/' } else some { b with name := b.name ++ [c] }
      else some { b with lastSlash := c == '/' }
    | .tag, .text =>
      -- `>`: the tag is complete
      if b.closing then
        match b.stack with
        | top :: rest => if top == b.name then some { (BS.init rest) with ts := .text } else none
        | [] => none
      else if b.lastSlash || voidTags.contains b.name then some (BS.init b.stack)
      else some (BS.init (b.name :: b.stack))
    | _, _ => some { b with ts := ts', reading := false, lastSlash := false }

def bsRun : BS → Str → Option BS
  | b, [] => some b
  | b, c :: cs => match bsStep b c with
    | some b' => bsRun b' cs
    | none => none

/-- every element is closed in order: run from the empty stack ends in character data with the empty stack -/
def Balanced (s : Str) : Prop := bsRun (BS.init []) s = some (BS.init [])

/-! ### the symbolic twin -/

/-- a character of a tag name: literal, or the printed value of an (integer) argument -/
inductive SymC where
  | c (ch : Char)
  | hole (n : String)
  deriving DecidableEq, Repr

abbrev SName := List SymC

def voidSym : List SName := voidTags.map (fun t => t.map SymC.c)

structure SBS where
  ts : TS
  name : SName
  reading : Bool
  closing : Bool
  lastSlash : Bool
  stack : List SName
  deriving DecidableEq, Repr

def SBS.init (stack : List SName) : SBS := { ts := .text, name := [], reading := false, closing := false, lastSlash := false, stack := stack }

def sbsStep (b : SBS) (c : Char) : Option SBS :=
  match tsStep b.ts c with
  | none => none
  | some ts' =>
    match b.ts, ts' with
    | .text, .lt => some { b with ts := .lt, name := [], reading := true, closing := false, lastSlash := false }
    | .lt, .tag => if c == '/' then some { b with ts := .tag, closing := true } else some { b with ts := .tag, name := [.c c] }
    | .tag, .tag =>
      if b.reading then
        if nameEnd c then some { b with reading := false, lastSlash := c == '/' } else some { b with name := b.name ++ [.c c] }
      else some { b with lastSlash := c == '/' }
    | .tag, .text =>
      if b.closing then
        match b.stack with
        | top :: rest => if top == b.name then some { (SBS.init rest) with ts := .text } else none
        | [] => none
      else if b.lastSlash || voidSym.contains b.name then some (SBS.init b.stack)
      else if voidSym.contains (b.name.filter (fun x => match x with | .hole _ => false | _ => true)) then
        none      -- a name that becomes a void element's name when its holes print nothing: not decided symbolically
      else some (SBS.init (b.name :: b.stack))
    | _, _ => some { b with ts := ts', reading := false, lastSlash := false }

def sbsRunLit : SBS → Str → Option SBS
  | b, [] => some b
  | b, c :: cs => match sbsStep b c with
    | some b' => sbsRunLit b' cs
    | none => none

/-- abstract run through the pieces (same admissibility conditions as `tagRunPieces`; in addition the stack discipline) -/
def balRunPieces (info : TagInfo) : SBS → List TPiece → Option SBS
  | b, [] => some b
  | b, .lit s :: rest => match sbsRunLit b s with
    | some b' => balRunPieces info b' rest
    | none => none
  | b, .arg n ops :: rest =>
    if n == "$text" && info.textIsChildren then
      -- the rendered children leave the stack as they found it (induction hypothesis)
      if (ops == [] && b.ts == .text) || (ops == [.striptags] && (b.ts == .text || b.ts == .dq)) then balRunPieces info b rest else none
    else if info.intArgs.contains n && ops.all (fun o => o == .str) then
      if b.ts == .text || b.ts == .dq then balRunPieces info b rest
      else if b.ts == .tag then
        (if b.reading then balRunPieces info { b with name := b.name ++ [.hole n] } rest else balRunPieces info { b with lastSlash := false } rest)
      else none
    else if (!info.dataArgs.contains n || hasEscaper ops) && (b.ts == .text || b.ts == .dq) then balRunPieces info b rest
    else none
  | b, .sub ops _ :: rest =>
    if hasEscaper ops && (b.ts == .text || b.ts == .dq) then balRunPieces info b rest else none
  | b, .toc _ :: rest =>
    -- the TOC list is balanced by `toc_wf` (C15) — not part of this checker: templates with a toc piece are not covered
    none
  | _, .replaceFirst _ _ _ :: _ => none

/-- every branch possible with escaping on is balanced: from the empty stack back to the empty stack, in character data -/
def tmplBalOk (info : TagInfo) : Tmpl → Bool
  | .seq e => balRunPieces info (SBS.init []) e == some (SBS.init [])
  | .ite .flagEscape t _ => tmplBalOk info t
  | .ite (.not .flagEscape) _ e => tmplBalOk info e
  | .ite (.isDigit n) t e => tmplBalOk { info with dataArgs := info.dataArgs.filter (· != n) } t && tmplBalOk info e
  | .ite (.notNone n) t e => tmplBalOk info t && tmplBalOk { info with dataArgs := info.dataArgs.filter (· != n) } e
  | .ite _ t e => tmplBalOk info t && tmplBalOk info e
  | .opaque => false

def TagTable.balTypes (tt : TagTable) : List String :=
  (tt.tbl.tmpls.filter (fun p => tmplBalOk (tt.infoOf p.1) p.2)).map (·.1)

/-- tree hypothesis: like `tagTreeOk`, with the balanced types -/
def balTreeOk (tt : TagTable) : Nat → Json → Bool
  | 0, _ => false
  | fuel + 1, t =>
    let ty := t.type
    tt.balTypes.contains ty &&
    (attrVals ((t.get? "attrs").getD (.obj []))).all (fun p =>
      if ((tt.intArgs.lookup ty).getD []).contains p.1 then (match p.2 with | .int _ => true | .none => true | _ => false) else true) &&
    (match t.get? "children" with
     | some (.arr cs) => cs.all (balTreeOk tt fuel)
     | _ => true)

/-- what a symbolic name stands for under an environment -/
def SymC.conc (env : TEnv) : SymC → Str
  | .c ch => [ch]
  | .hole n => (env.get n).toTStr.erase

def concName (env : TEnv) (n : SName) : Str := n.flatMap (SymC.conc env)

def SBS.conc (env : TEnv) (b : SBS) : BS :=
  { ts := b.ts, name := concName env b.name, reading := b.reading, closing := b.closing, lastSlash := b.lastSlash, stack := b.stack.map (concName env) }

end Mistune
