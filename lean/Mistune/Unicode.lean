/-
Unicode predicates of CPython's `str`, as table look-ups over `Mistune.Generated.Unicode` (regenerated on
every run from the running interpreter, so model and implementation use the same Unicode version).
-/
import Mistune.Util
import Mistune.Rx
import Mistune.Generated.Unicode
namespace Mistune
open Mistune.Generated

/-- membership in a list of closed ranges (kernel-friendly: `Nat.ble` on literals) -/
def inRanges : List (Nat × Nat) → Nat → Bool
  | [], _ => false
  | (a, b) :: r, n => bif Nat.ble a n && Nat.ble n b then true else inRanges r n

def isSpaceNat (n : Nat) : Bool := inRanges spaceRanges n

/-- `str.isspace()` for one character. -/
def isSpace (c : Char) : Bool := isSpaceNat c.toNat

/-- the Unicode category tests of CPython `str` patterns -/
def pyCats : CatTables :=
  { isDigit := NatTree.rangeMem digitTree, isSpace := isSpaceNat, isWord := NatTree.rangeMem wordTree }

def foldNat (n : Nat) : Option (List Nat) := foldTree.lookup n

/-- `c.lower().upper()` -/
def foldChar (c : Char) : Str :=
  match foldNat c.toNat with
  | some l => l.map Char.ofNat
  | none => [c]

/-- A per-character case variant taken from one of the generated single-code-point tables. -/
def variantOf (tbl : NatTree Nat) (c : Char) : Char :=
  match tbl.lookup c.toNat with
  | some m => Char.ofNat m
  | none => c

/-- `mistune.util.unikey` with CPython's tables. -/
def unikeyPy (s : Str) : Str := unikey isSpace foldChar s

end Mistune
