/-
Reader for templates / environments sent by the harness in canonical JSON text (for template probing), and
the default environment built from the regenerated constants.
-/
import Mistune.Tmpl
import Mistune.SecondPass
import Mistune.Generated.Regex
namespace Mistune
open Mistune.Generated

def opOfStr : Str → Option TOp
  | s => match String.ofList s with
    | "escape" => some .escape | "escapeNoQuote" => some .escapeNoQuote | "safeEntity" => some .safeEntity
    | "safeUrl" => some .safeUrl | "striptags" => some .striptags | "str" => some .str | "strip" => some .strip
    | "rstrip" => some .rstrip | "firstWord" => some .firstWord | "dropLast4" => some .dropLast4
    | _ => none

def opsOfJson : Json → Option (List TOp)
  | .arr l => l.mapM (fun j => match j with | .str s => opOfStr s | _ => none)
  | _ => none

def strOfJson : Json → Option Str
  | .str s => some s
  | _ => none

def piecesOfJson : Nat → Json → Option (List TPiece)
  | 0, _ => none
  | fuel + 1, .arr l =>
    l.mapM (fun p =>
      match p with
      | .arr [.str k, a] =>
        match String.ofList k with
        | "lit" => (strOfJson a).map TPiece.lit
        | "toc" => (strOfJson a).map (fun n => TPiece.toc (String.ofList n))
        | _ => none
      | .arr [.str k, a, b] =>
        match String.ofList k with
        | "arg" => do pure (TPiece.arg (String.ofList (← strOfJson a)) (← opsOfJson b))
        | "sub" => do pure (TPiece.sub (← opsOfJson a) (← piecesOfJson fuel b))
        | _ => none
      | .arr [.str k, a, b, c] =>
        match String.ofList k with
        | "replaceFirst" => do pure (TPiece.replaceFirst (← piecesOfJson fuel a) (← strOfJson b) (← piecesOfJson fuel c))
        | _ => none
      | _ => none)
  | _, _ => none

def condOfJson : Nat → Json → Option TCond
  | 0, _ => none
  | fuel + 1, j =>
    match j with
    | .arr [.str k, a] =>
      match String.ofList k with
      | "truthy" => (piecesOfJson 50 a).map TCond.truthy
      | "argtruthy" => (strOfJson a).map (fun n => TCond.argTruthy (String.ofList n))
      | "notnone" => (strOfJson a).map (fun n => TCond.notNone (String.ofList n))
      | "flag" => some .flagEscape
      | "isdigit" => (strOfJson a).map (fun n => TCond.isDigit (String.ofList n))
      | "not" => (condOfJson fuel a).map TCond.not
      | _ => none
    | .arr [.str k, a, b] =>
      match String.ofList k with
      | "startswith" => do pure (TCond.startsWith (← piecesOfJson 50 a) (← strOfJson b))
      | _ => none
    | _ => none

def tmplOfJson : Nat → Json → Option Tmpl
  | 0, _ => none
  | fuel + 1, j =>
    match j with
    | .arr [.str k, a] =>
      match String.ofList k with
      | "seq" => (piecesOfJson 50 a).map Tmpl.seq
      | "opaque" => some .opaque
      | _ => none
    | .arr [.str k, c, t, e] =>
      match String.ofList k with
      | "ite" => do pure (Tmpl.ite (← condOfJson 20 c) (← tmplOfJson fuel t) (← tmplOfJson fuel e))
      | _ => none
    | _ => none

def valOfJson : Json → TVal
  | .null => .none
  | .bool b => .bool b
  | .num n => .int n
  | .str s => .str (TStr.ofData s)
  | .arr items =>
    .toc (items.filterMap (fun it => match it with
      | .arr [.num lv, .str id, .str tx] => some (lv, TStr.ofData id, TStr.ofData tx)
      | _ => none))
  | .obj _ => .none

def strsOf (l : List String) : List Str := l.map String.toList

/-- environment with the regenerated constants of the working tree -/
def mkTEnv (args : List (String × TVal)) (escapeFlag : Bool) : TEnv :=
  { args := args, escapeFlag := escapeFlag,
    charrefRe := (namedRx.lookup "mistune.util._charref_re").getD .fail,
    striptagsRe := (namedRx.lookup "mistune.util._striptags_re").getD .fail,
    harmful := strsOf harmfulProtocols, goodData := strsOf goodDataProtocols }

end Mistune
