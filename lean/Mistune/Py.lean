/-
The slice of Python's `str` and `re` module API that mistune uses, over `Str = List Char`.
Each function mirrors the CPython behaviour named in its docstring; the tie is the correspondence run.
-/
import Mistune.Rx
import Mistune.RxWire
namespace Mistune
namespace Py

/-- `s.startswith(p)` -/
def startsWith : Str → Str → Bool
  | _, [] => true
  | [], _ :: _ => false
  | a :: s, b :: p => a == b && startsWith s p

def endsWith (s p : Str) : Bool := startsWith s.reverse p.reverse

/-- `s.lstrip(chars)` / `rstrip` / `strip` with an explicit character set -/
def lstripC (chars : Str) (s : Str) : Str := s.dropWhile (fun c => chars.contains c)
def rstripC (chars : Str) (s : Str) : Str := (s.reverse.dropWhile (fun c => chars.contains c)).reverse
def stripC (chars : Str) (s : Str) : Str := rstripC chars (lstripC chars s)

/-- `s.strip()` / `lstrip()` / `rstrip()` (Unicode white space) -/
def lstrip (s : Str) : Str := s.dropWhile isSpace
def rstrip (s : Str) : Str := (s.reverse.dropWhile isSpace).reverse
def strip (s : Str) : Str := rstrip (lstrip s)

/-- `s.find(sub, start)`; `none` for `-1` -/
def findFrom (s sub : Str) (start : Nat) : Option Nat :=
  let rec go : Str → Nat → Nat → Option Nat
    | rest, i, fuel =>
      match fuel with
      | 0 => none
      | fuel + 1 =>
        if startsWith rest sub then some i
        else match rest with
          | [] => none
          | _ :: r => go r (i + 1) fuel
  go (s.drop start) start (s.length + 2 - start)

/-- `s.replace(old, new)` for non-empty `old` (all occurrences, left to right, non-overlapping) -/
def replaceAll (old new : Str) (s : Str) : Str :=
  if old.isEmpty then s else
  let rec go : Str → Nat → Str
    | [], _ => []
    | c :: r, fuel =>
      match fuel with
      | 0 => c :: r
      | fuel + 1 =>
        if startsWith (c :: r) old then new ++ go ((c :: r).drop old.length) fuel
        else c :: go r fuel
  go s (s.length + 1)

/-- `s.replace(old, new, 1)` -/
def replaceFirst (old new : Str) (s : Str) : Str :=
  if old.isEmpty then new ++ s else
  let rec go : Str → Str
    | [] => []
    | c :: r => if startsWith (c :: r) old then new ++ (c :: r).drop old.length else c :: go r
  go s

/-- `s.split(sep)` for a non-empty separator -/
def splitOn (sep : Str) (s : Str) : List Str :=
  let rec go : Str → Str → Nat → List Str
    | [], cur, _ => [cur.reverse]
    | c :: r, cur, fuel =>
      match fuel with
      | 0 => [cur.reverse ++ (c :: r)]
      | fuel + 1 =>
        if startsWith (c :: r) sep then cur.reverse :: go ((c :: r).drop sep.length) [] fuel
        else go r (c :: cur) fuel
  go s [] (s.length + 1)

/-- line boundaries of `str.splitlines()` -/
def isLineBreak (c : Char) : Bool :=
  c == '\n' || c == '\r' || c == '\x0b' || c == '\x0c' || c == '\x1c' || c == '\x1d' || c == '\x1e' ||
  c.toNat == 0x85 || c.toNat == 0x2028 || c.toNat == 0x2029

/-- `s.splitlines()` (keepends = False) -/
def splitLines (s : Str) : List Str :=
  let rec go : Str → Str → List Str
    | [], cur => if cur.isEmpty then [] else [cur.reverse]
    | '\r' :: '\n' :: r, cur => cur.reverse :: go r []
    | c :: r, cur => if isLineBreak c then cur.reverse :: go r [] else go r (c :: cur)
  go s []

def join (sep : Str) : List Str → Str
  | [] => []
  | [a] => a
  | a :: r => a ++ sep ++ join sep r

/-- `"x" * n` -/
def rep (c : Char) (n : Nat) : Str := List.replicate n c

/-- ASCII `str.lower()` (used on HTML tag names, which the regexes restrict to ASCII) -/
def lowerAscii (s : Str) : Str := s.map (fun c => if 'A' ≤ c && c ≤ 'Z' then Char.ofNat (c.toNat + 32) else c)

/-- `int(s)` for a string of ASCII digits -/
def natOfDigits (s : Str) : Nat := s.foldl (fun n c => n * 10 + (c.toNat - 48)) 0

/-- start of the closed range of a range tree that contains `n` -/
def rangeLo : NatTree Nat → Nat → Option Nat
  | .leaf, _ => none
  | .node l lo hi r, n => if n < lo then rangeLo l n else if hi < n then rangeLo r n else some lo

/-- decimal value of a Unicode decimal digit (what `int()` uses for each character): the decimal digits
(`str.isdecimal`, = `\d`) come in runs of ten consecutive code points starting at a zero, so the value is the
offset in the maximal run modulo 10 (checked against CPython for every code point when the tables are made) -/
def digitValue (c : Char) : Option Nat :=
  (rangeLo Generated.digitTree c.toNat).map (fun lo => (c.toNat - lo) % 10)

/-- `int(s)` for a string of (Unicode) decimal digits; `none` = `ValueError` (empty string or a non-digit).
Signs, underscores and surrounding white space, which `int()` also accepts, do not occur at the call sites. -/
def intOfStr (s : Str) : Option Nat :=
  if s.isEmpty then none
  else s.foldl (fun acc c => match acc, digitValue c with
    | some n, some d => some (n * 10 + d)
    | _, _ => none) (some 0)

/-- `pattern.search(s, pos)`: CPython clamps `pos` to `len(s)` -/
def search (r : Rx) (x : RxCtx) (pos : Nat) : Option RxMatch := r.search x (min pos x.n)

/-- `pattern.match(s, pos)`: CPython clamps `pos` to `len(s)` -/
def matchAt (r : Rx) (x : RxCtx) (pos : Nat) : Option RxMatch := r.matchAt x (min pos x.n)

/-- `pattern.match(s, pos, endpos)`: both clamped to `len(s)`; no match when `pos > endpos` -/
def matchIn (r : Rx) (x : RxCtx) (pos endpos : Nat) : Option RxMatch :=
  let e := min endpos x.n
  let p := min pos x.n
  if p > e then none else r.matchAt { x with n := e } p

/-- `str(n)` -/
def strOfNat (n : Nat) : Str := (toString n).toList

def slice (a : Array Char) (i j : Nat) : Str := (a.extract i j).toList

/-! ### `re` on `Str` subjects -/

def ctxOf (s : Str) : RxCtx := mkCtx s s.length

/-- group text of a match over subject array `a` -/
def groupStr (a : Array Char) (mt : RxMatch) (idx : Nat) : Option Str :=
  (mt.group idx).map (fun p => slice a p.1 p.2)

/-- `pattern.sub(repl, s)` with a function replacement; Python's rule for empty matches: an empty match is
allowed right after a non-empty one, but never two matches at the same position. -/
def reSub (r : Rx) (repl : Array Char → RxMatch → Str) (s : Str) : Str :=
  let x := ctxOf s
  let rec go : Nat → Nat → Nat → Str → Str
    | 0, _, copyPos, acc => acc ++ slice x.s copyPos x.n
    | fuel + 1, pos, copyPos, acc =>
      if pos > x.n then acc ++ slice x.s copyPos x.n else
      match r.search x pos with
      | none => acc ++ slice x.s copyPos x.n
      | some mt =>
        let acc' := acc ++ slice x.s copyPos mt.start ++ repl x.s mt
        if mt.stop == mt.start then
          if mt.start < x.n then go fuel (mt.start + 1) (mt.start + 1) (acc' ++ [x.s.getD mt.start ' '])
          else acc'
        else go fuel mt.stop mt.stop acc'
  go (s.length + 2) 0 0 []

/-- `pattern.sub(repl, s)` with a function replacement that may raise (`repl` returns `Except ε`): same scan as
`reSub`, the first exception raised by a replacement call propagates (CPython calls `repl` in match order). -/
def reSubM {ε : Type} (r : Rx) (repl : Array Char → RxMatch → Except ε Str) (s : Str) : Except ε Str :=
  let x := ctxOf s
  let rec go : Nat → Nat → Nat → Str → Except ε Str
    | 0, _, copyPos, acc => .ok (acc ++ slice x.s copyPos x.n)
    | fuel + 1, pos, copyPos, acc =>
      if pos > x.n then .ok (acc ++ slice x.s copyPos x.n) else
      match r.search x pos with
      | none => .ok (acc ++ slice x.s copyPos x.n)
      | some mt =>
        match repl x.s mt with
        | .error e => .error e
        | .ok rep =>
          let acc' := acc ++ slice x.s copyPos mt.start ++ rep
          if mt.stop == mt.start then
            if mt.start < x.n then go fuel (mt.start + 1) (mt.start + 1) (acc' ++ [x.s.getD mt.start ' '])
            else .ok acc'
          else go fuel mt.stop mt.stop acc'
  go (s.length + 2) 0 0 []

/-- `pattern.split(s)` for a pattern without capture groups that never matches empty -/
def reSplit (r : Rx) (s : Str) : List Str :=
  let x := ctxOf s
  let rec go : Nat → Nat → List Str → List Str
    | 0, pos, acc => acc ++ [slice x.s pos x.n]
    | fuel + 1, pos, acc =>
      match r.search x pos with
      | none => acc ++ [slice x.s pos x.n]
      | some mt =>
        if mt.stop == mt.start then acc ++ [slice x.s pos x.n]
        else go fuel mt.stop (acc ++ [slice x.s pos mt.start])
  go (s.length + 2) 0 []

end Py
end Mistune
