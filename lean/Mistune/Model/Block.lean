/-
Model of `BlockParser` (block_parser.py, list_parser.py, the block part of helpers.py and core.py's
`BlockState`).  PLACEHOLDER: to be replaced by the transcription.
-/
import Mistune.Model.Base
namespace Mistune
namespace Model

/-- `BlockParser.parse` on an already normalised source, fresh root state: tokens (before the inline pass,
i.e. with `text` fields) and the final `env`. -/
def blockParse (cfg : MdCfg) (src : Str) : Except PyErr (List Json × Json) :=
  .ok ([tok "paragraph" [("text", .str src)]], .obj [("ref_links", .obj [])])

end Model
end Mistune
