/-
Model of `BlockParser` (block_parser.py, list_parser.py, the block part of helpers.py and util.py, and core.py's
`BlockState`), core configuration (no plugins, no directives).

Conventions
* one Lean function per Python function, same name in lowerCamelCase, Python name in the docstring;
* the mutable `BlockState` is threaded explicitly; a handler returns `(end_pos, state)` where `end_pos : Option Nat`
  is Python's `Optional[int]` (`if end_pos:` is `truthyPos`: `None` and `0` are falsy);
* `env` is shared between a state and its children (same dict object in Python): a child starts with the parent's
  `env` and the parent continues with the child's final `env`;
* Python exceptions are `Except PyErr`;
* loops recurse on an explicit fuel that bounds the number of iterations (every iteration of the Python loops
  advances the cursor; where it does not, Python does not terminate and the model returns `.noProgress`);
* the mutual recursion parse → handler → parse (children) / handler → handler (break rules, setext fall-back) goes
  through `parseMethod`, which is structurally recursive on a nesting budget and hands the smaller instance to the
  handlers as the argument `pm`.
-/
import Mistune.Model.Base
import Mistune.Unicode
import Mistune.CharrefTotal
namespace Mistune
namespace Model
namespace Blk

/-! ### small Python helpers -/

/-- `if end_pos:` for an `Optional[int]` -/
def truthyPos : Option Nat → Bool
  | some (_ + 1) => true
  | _ => false

/-- `d[k]` -/
def getE (j : Json) (k : String) : Except PyErr Json :=
  match j.get? k with
  | some v => .ok v
  | none => .error .keyError

/-- `tok["type"]` -/
def typeOf (t : Json) : Except PyErr String := do
  match ← getE t "type" with
  | .str s => pure (String.ofList s)
  | _ => pure ""

/-- `tok["children"]` as a list -/
def childrenOf (t : Json) : Except PyErr (List Json) := do
  match ← getE t "children" with
  | .arr l => pure l
  | _ => throw .typeError

/-- `l.insert(index, v)` for `0 ≤ index` (an index beyond the end appends) -/
def listInsert (l : List Json) (index : Nat) (v : Json) : List Json := l.take index ++ v :: l.drop index

/-! ### util.py -/

/-- `mistune.util.expand_leading_tab(text, width)` -/
def expandLeadingTab (cfg : MdCfg) (text : Str) (width : Nat) : Str :=
  Py.reSub (cfg.rx "mistune.util._expand_tab_re")
    (fun a mt =>
      let s := (Py.groupStr a mt 1).getD []
      s ++ Py.rep ' ' (width - s.length))
    text

/-- `mistune.util.expand_tab(text)` (`space` is always the default four blanks) -/
def expandTab (cfg : MdCfg) (text : Str) : Str :=
  Py.reSub (cfg.rx "mistune.util._expand_tab_re")
    (fun a mt => (Py.groupStr a mt 1).getD [] ++ "    ".toList)
    text

/-- `mistune.util.strip_end(src)` -/
def stripEnd (cfg : MdCfg) (src : Str) : Str :=
  Py.reSub (cfg.rx "mistune.util._strip_end_re") (fun _ _ => ['\n']) src

/-- `mistune.util.unescape(s)` -/
def unescape (cfg : MdCfg) (s : Str) : Str := unescapeWith (cfg.rx "mistune.util._charref_re") s

/-- `mistune.util.escape_url(link)` -/
def escapeUrlM (cfg : MdCfg) (link : Str) : Str := escapeUrl (unescape cfg) link

/-! ### helpers.py -/

/-- `mistune.helpers.unescape_char(text)`: `_ESCAPE_CHAR_RE.sub(r"\1", text)` -/
def unescapeChar (cfg : MdCfg) (text : Str) : Str :=
  Py.reSub (cfg.rx "mistune.helpers._ESCAPE_CHAR_RE") (fun a mt => (Py.groupStr a mt 1).getD []) text

/-- `mistune.helpers.parse_link_href(src, start_pos, block=True)`; `none` is `(None, None)` -/
def parseLinkHref (cfg : MdCfg) (x : RxCtx) (startPos : Nat) : Except PyErr (Option (Str × Nat)) :=
  match Py.matchAt (cfg.rx "mistune.helpers.LINK_BRACKET_START") x startPos with
  | some m =>
    let startPos := m.stop - 1
    match Py.matchAt (cfg.rx "mistune.helpers.LINK_BRACKET_RE") x startPos with
    | some m => .ok (some ((Py.groupStr x.s m 1).getD [], m.stop))
    | none => .ok none
  | none =>
    match Py.matchAt (cfg.rx "mistune.helpers.LINK_HREF_BLOCK_RE") x startPos with
    | none => .ok none
    | some m =>
      let endPos := m.stop
      let href := (Py.groupStr x.s m 1).getD []
      -- `src[end_pos - 1] == href[-1]`  (both index operations can raise IndexError)
      match href.getLast? with
      | none => .error .indexError
      | some hl =>
        -- a negative index `src[-1]` (end_pos = 0) would read the last character
        let i := if endPos == 0 then x.s.size - 1 else endPos - 1
        if h : i < x.s.size then
          if x.s[i] == hl then .ok (some (href, endPos)) else .ok (some (href, endPos - 1))
        else .error .indexError

/-- `mistune.helpers.parse_link_title(src, start_pos, max_pos)`; `none` is `(None, None)` -/
def parseLinkTitle (cfg : MdCfg) (x : RxCtx) (startPos maxPos : Nat) : Option (Str × Nat) :=
  match Py.matchIn (cfg.rx "mistune.helpers.LINK_TITLE_RE") x startPos maxPos with
  | some m =>
    let g := (Py.groupStr x.s m 1).getD []
    let title := (g.drop 1).dropLast          -- `[1:-1]`
    some (unescapeChar cfg title, m.stop)
  | none => none

/-! ### core.py: `BlockState` -/

structure BlockState where
  src : Str
  x : RxCtx                 -- `mkCtx src src.length`: the subject of every regex operation on `src`
  tokens : List Json
  cursor : Nat
  cursorMax : Nat
  depth : Nat               -- length of the `parent` chain (`BlockState.depth()`)
  env : Json

namespace BlockState

/-- `BlockState.process(src)` -/
def process (st : BlockState) (src : Str) : BlockState :=
  { st with src := src, x := mkCtx src src.length, cursorMax := src.length }

/-- `BlockState()` followed by `process(src)`: the root state -/
def root (src : Str) : BlockState :=
  process { src := [], x := mkCtx [] 0, tokens := [], cursor := 0, cursorMax := 0, depth := 0,
            env := .obj [("ref_links", .obj [])] } src

/-- `BlockState.child_state(src)`: the child shares the parent's `env` -/
def childState (st : BlockState) (src : Str) : BlockState :=
  process { src := [], x := mkCtx [] 0, tokens := [], cursor := 0, cursorMax := 0, depth := st.depth + 1,
            env := st.env } src

/-- `BlockState.find_line_end()`: `_LINE_END.search(self.src, self.cursor)`, `assert m is not None`, `m.end()` -/
def findLineEnd (cfg : MdCfg) (st : BlockState) : Except PyErr Nat :=
  match Py.search (cfg.rx "mistune.core._LINE_END") st.x st.cursor with
  | some m => .ok m.stop
  | none => .error .assertion

/-- `BlockState.get_text(end_pos)` -/
def getText (st : BlockState) (endPos : Nat) : Str := Py.slice st.x.s st.cursor endPos

/-- `self.src[self.cursor:]` -/
def restText (st : BlockState) : Str := Py.slice st.x.s st.cursor st.x.s.size

/-- `BlockState.last_token()` -/
def lastToken (st : BlockState) : Option Json := st.tokens.getLast?

/-- assignment through the reference returned by `last_token()` -/
def setLastToken (st : BlockState) (t : Json) : BlockState := { st with tokens := st.tokens.dropLast ++ [t] }

/-- `BlockState.prepend_token(token)`: `self.tokens.insert(len(self.tokens) - 1, token)`; on an empty list the
index `-1` is clamped to `0` -/
def prependToken (st : BlockState) (token : Json) : BlockState :=
  match st.tokens.getLast? with
  | none => { st with tokens := [token] }
  | some l => { st with tokens := st.tokens.dropLast ++ [token, l] }

/-- `BlockState.append_token(token)` -/
def appendToken (st : BlockState) (token : Json) : BlockState := { st with tokens := st.tokens ++ [token] }

/-- the test `last_token and last_token["type"] == "paragraph"`: the last token when it holds -/
def lastParagraph (st : BlockState) : Except PyErr (Option Json) :=
  match st.lastToken with
  | none => .ok none
  | some last =>
    if last.truthy then do
      if (← typeOf last) == "paragraph" then pure (some last) else pure none
    else .ok none

/-- `last_token["text"] += text` -/
def addText (last : Json) (text : Str) : Except PyErr Json := do
  match ← getE last "text" with
  | .str s => pure (last.set "text" (.str (s ++ text)))
  | _ => throw .typeError

/-- `BlockState.add_paragraph(text)` -/
def addParagraph (st : BlockState) (text : Str) : Except PyErr BlockState := do
  match ← st.lastParagraph with
  | some last => pure (st.setLastToken (← addText last text))
  | none => pure (st.appendToken (tok "paragraph" [("text", .str text)]))

/-- `BlockState.append_paragraph()` -/
def appendParagraph (cfg : MdCfg) (st : BlockState) : Except PyErr (Option Nat × BlockState) := do
  match ← st.lastParagraph with
  | some last =>
    let pos ← st.findLineEnd cfg
    let last ← addText last (st.getText pos)
    pure (some pos, st.setLastToken last)
  | none => pure (none, st)

end BlockState

/-- result of a parse method: `(end_pos, state)` -/
abbrev PMRes := Except PyErr (Option Nat × BlockState)

/-- `Parser.parse_method(m, state)` seen from a handler: rule name (`m.lastgroup`), the match, the state -/
abbrev ParseMethod := String → RxMatch → BlockState → PMRes

/-- `m.group(name)` on a match over `state.src` -/
def grp (cfg : MdCfg) (st : BlockState) (mt : RxMatch) (name : String) : Str := groupNamed cfg st.x.s mt name

/-- `m.group(0)` -/
def grp0 (st : BlockState) (mt : RxMatch) : Str := Py.slice st.x.s mt.start mt.stop

/-- `Parser.compile_sc(rules)`: `self.specification[k]` raises KeyError for an unknown rule -/
def compileSc (cfg : MdCfg) (rules : List String) : Except PyErr (List (String × Rx)) :=
  rules.mapM (fun n =>
    match cfg.blockSpec.lookup n with
    | some r => .ok (n, r)
    | none => .error .keyError)

/-- `sc.match(s, pos)` for a combined scanner (`pos` clamped like CPython does) -/
def scMatch (x : RxCtx) (sc : List (String × Rx)) (pos : Nat) : Option (String × RxMatch) :=
  scanAt x sc (min pos x.n)

/-! ### run-time regexes -/

/-- `re.compile(r"^ {0,3}" + c + "{" + str(n) + r",}[ \t]*(?:\n|$)", re.M)` of `parse_fenced_code`
(same shape as the generated instances `rt:fence_end[…]`) -/
def fenceEndRx (c : Char) (n : Nat) : Rx :=
  .seq .bol (.seq (.rep (.cls false [.chr 32]) 0 (some 3) true) (.seq (.rep (.cls false [.chr c.toNat]) n none true)
    (.seq (.rep (.cls false [.chr 32, .chr 9]) 0 none true) (.alt (.cls false [.chr 10]) .eol))))

/-- `re.compile("^ {0," + str(k) + "}", re.M)` of `parse_fenced_code` (same shape as `rt:trim[…]`) -/
def trimRx (k : Nat) : Rx := .seq .bol (.rep (.cls false [.chr 32]) 0 (some k) true)

/-! ### block_parser.py: the handlers that do not recurse -/

/-- `BlockParser.parse_blank_line` -/
def parseBlankLine (mt : RxMatch) (st : BlockState) : PMRes :=
  .ok (some mt.stop, st.appendToken (tok "blank_line" []))

/-- `BlockParser.parse_thematic_break` -/
def parseThematicBreak (mt : RxMatch) (st : BlockState) : PMRes :=
  .ok (some (mt.stop + 1), st.appendToken (tok "thematic_break" []))

/-- the text computation of `parse_indent_code`: `expand_leading_tab(code)`, `_INDENT_CODE_TRIM.sub("", code)`,
`code.strip("\n")` -/
def indentBody (cfg : MdCfg) (code : Str) : Str :=
  let code := expandLeadingTab cfg code 4
  let code := Py.reSub (cfg.rx "mistune.block_parser._INDENT_CODE_TRIM") (fun _ _ => []) code
  Py.stripC ['\n'] code

/-- `BlockParser.parse_indent_code` -/
def parseIndentCode (cfg : MdCfg) (mt : RxMatch) (st : BlockState) : PMRes := do
  let (endPos, st) ← st.appendParagraph cfg
  if truthyPos endPos then return (endPos, st)
  let code := indentBody cfg (grp0 st mt)
  return (some mt.stop, st.appendToken (tok "block_code" [("raw", .str code), ("style", Json.s "indent")]))

/-- the `(code, end_pos)` computation of `parse_fenced_code`: search the closing fence from `cursorStart`
(`m.end() + 1`), slice the body, strip up to `k = len(spaces)` leading blanks of every line (`k = 0`: `spaces` is
empty, no trim; Python also skips the `sub` when `code` is empty) -/
def fencedBody (x : RxCtx) (cursorMax : Nat) (c : Char) (n k : Nat) (cursorStart : Nat) : Str × Nat :=
  let (code, endPos) := match Py.search (fenceEndRx c n) x cursorStart with
    | some m2 => (Py.slice x.s cursorStart m2.start, m2.stop)
    | none => (Py.slice x.s cursorStart x.s.size, cursorMax)
  let code := if k != 0 && !code.isEmpty then Py.reSub (trimRx k) (fun _ _ => []) code else code
  (code, endPos)

/-- `BlockParser.parse_fenced_code` -/
def parseFencedCode (cfg : MdCfg) (mt : RxMatch) (st : BlockState) : PMRes := do
  let spaces := grp cfg st mt "fenced_1"
  let marker := grp cfg st mt "fenced_2"
  let info := grp cfg st mt "fenced_3"
  let c ← match marker with
    | c :: _ => pure c
    | [] => throw PyErr.indexError                        -- `marker[0]`
  if !info.isEmpty && c == '`' && info.contains c then    -- `info.find(c) != -1`
    return (none, st)
  let (code, endPos) := fencedBody st.x st.cursorMax c marker.length spaces.length (mt.stop + 1)
  let token := tok "block_code" [("raw", .str code), ("style", Json.s "fenced"), ("marker", .str marker)]
  let token := if !info.isEmpty then
      let info := unescapeChar cfg info
      token.set "attrs" (.obj [("info", .str (Py.strip info))])
    else token
  return (some endPos, st.appendToken token)

/-- the text computation of `parse_atx_heading`: `m.group("atx_2").strip()`, then (when non-empty)
`_ATX_HEADING_TRIM.sub("", text)` -/
def atxText (cfg : MdCfg) (g2 : Str) : Str :=
  let text := Py.strip g2
  if !text.isEmpty then Py.reSub (cfg.rx "mistune.block_parser._ATX_HEADING_TRIM") (fun _ _ => []) text else text

/-- `BlockParser.parse_atx_heading` -/
def parseAtxHeading (cfg : MdCfg) (mt : RxMatch) (st : BlockState) : PMRes :=
  let level := (grp cfg st mt "atx_1").length
  let text := atxText cfg (grp cfg st mt "atx_2")
  let token := tok "heading" [("text", .str text), ("attrs", .obj [("level", .num level)]), ("style", Json.s "atx")]
  .ok (some (mt.stop + 1), st.appendToken token)

/-- `BlockParser.parse_setex_heading` -/
def parseSetexHeading (cfg : MdCfg) (pm : ParseMethod) (mt : RxMatch) (st : BlockState) : PMRes := do
  match ← st.lastParagraph with
  | some last =>
    let level : Int := if grp cfg st mt "setext_1" == ['='] then 1 else 2
    let last := ((last.set "type" (Json.s "heading")).set "style" (Json.s "setext")).set "attrs" (.obj [("level", .num level)])
    return (some (mt.stop + 1), st.setLastToken last)
  | none =>
    let sc ← compileSc cfg ["thematic_break", "list"]
    match scMatch st.x sc st.cursor with
    | some (name, m2) =>
      if name == "list" && st.depth ≥ cfg.maxNested then
        -- no list beyond the nesting limit (the list rule itself is removed there)
        return (none, st)
      pm name m2 st
    | none => return (none, st)

/-- `BlockParser.parse_ref_link` -/
def parseRefLink (cfg : MdCfg) (mt : RxMatch) (st : BlockState) : PMRes := do
  let (endPos, st) ← st.appendParagraph cfg
  if truthyPos endPos then return (endPos, st)
  let label := grp cfg st mt "reflink_1"
  let key := unikeyPy label
  if key.isEmpty then return (none, st)
  match ← parseLinkHref cfg st.x mt.stop with
  | none => return (none, st)
  | some (href0, hrefPos0) =>
    let maxPos := match Py.search (cfg.rx "mistune.block_parser.BlockParser.BLANK_LINE") st.x hrefPos0 with
      | some b => b.start
      | none => st.cursorMax
    -- `title, title_pos = parse_link_title(...)`
    let (title, titlePos) : Option Str × Option Nat := match parseLinkTitle cfg st.x hrefPos0 maxPos with
      | some (t, p) => (some t, some p)
      | none => (none, none)
    let (title, titlePos) : Option Str × Option Nat :=
      if truthyPos titlePos then
        match Py.matchAt (cfg.rx "mistune.block_parser._BLANK_TO_LINE") st.x (titlePos.getD 0) with
        | some m2 => (title, some m2.stop)
        | none => (none, none)
      else (title, titlePos)
    let (href, hrefPos) : Option Str × Option Nat :=
      if titlePos.isNone then
        match Py.matchAt (cfg.rx "mistune.block_parser._BLANK_TO_LINE") st.x hrefPos0 with
        | some m3 => (some href0, some m3.stop)
        | none => (none, none)
      else (some href0, some hrefPos0)
    let endPos := if truthyPos titlePos then titlePos else hrefPos      -- `title_pos or href_pos`
    if !truthyPos endPos then return (none, st)
    let refs ← getE st.env "ref_links"
    let k := String.ofList key
    if !refs.has k then
      match href with
      | none => throw PyErr.assertion
      | some href =>
        let href := unescapeChar cfg href
        let data := Json.obj [("url", .str (escapeUrlM cfg href)), ("label", .str label)]
        let data := match title with
          | some t => if !t.isEmpty then data.set "title" (.str t) else data
          | none => data
        return (endPos, { st with env := st.env.set "ref_links" (refs.set k data) })
    return (endPos, st)

/-- `_parse_html_to_end(state, end_marker, start_pos)` -/
def parseHtmlToEnd (cfg : MdCfg) (st : BlockState) (endMarker : Str) (startPos : Nat) : PMRes := do
  match Py.findFrom st.src endMarker startPos with
  | none =>
    let text := st.restText
    return (some st.cursorMax, st.appendToken (tok "block_html" [("raw", .str text)]))
  | some markerPos =>
    let text := st.getText markerPos
    let st := { st with cursor := markerPos }
    let endPos ← st.findLineEnd cfg
    let text := text ++ st.getText endPos
    return (some endPos, st.appendToken (tok "block_html" [("raw", .str text)]))

/-- `_parse_html_to_newline(state, newline)` -/
def parseHtmlToNewline (st : BlockState) (newline : Rx) : PMRes :=
  match Py.search newline st.x st.cursor with
  | some m =>
    let endPos := m.start
    .ok (some endPos, st.appendToken (tok "block_html" [("raw", .str (st.getText endPos))]))
  | none =>
    .ok (some st.cursorMax, st.appendToken (tok "block_html" [("raw", .str st.restText)]))

/-- `BlockParser.parse_raw_html` (and `parse_block_html`, which delegates to it) -/
def parseRawHtml (cfg : MdCfg) (mt : RxMatch) (st : BlockState) : PMRes := do
  let blankLine := cfg.rx "mistune.block_parser.BlockParser.BLANK_LINE"
  let marker := Py.strip (grp0 st mt)
  -- rule 2
  if marker == "<!--".toList then return (← parseHtmlToEnd cfg st "-->".toList mt.stop)
  -- rule 3
  if marker == "<?".toList then return (← parseHtmlToEnd cfg st "?>".toList mt.stop)
  -- rule 5
  if marker == "<![CDATA[".toList then return (← parseHtmlToEnd cfg st "]]>".toList mt.stop)
  -- rule 4
  if Py.startsWith marker "<!".toList then return (← parseHtmlToEnd cfg st ">".toList mt.stop)
  let closeTag : Option Str := if Py.startsWith marker "</".toList then some (Py.lowerAscii (marker.drop 2)) else none
  let openTag : Option Str := if Py.startsWith marker "</".toList then none else some (Py.lowerAscii (marker.drop 1))
  match closeTag, openTag with
  | some ct, _ =>
    -- rule 6
    if cfg.blockTags.contains (String.ofList ct) then return (← parseHtmlToNewline st blankLine)
  | none, some ot =>
    -- rule 1
    if cfg.preTags.contains (String.ofList ot) then
      return (← parseHtmlToEnd cfg st ("</".toList ++ ot ++ ">".toList) mt.stop)
    -- rule 6
    if cfg.blockTags.contains (String.ofList ot) then return (← parseHtmlToNewline st blankLine)
  | none, none => pure ()
  -- Blocks of type 7 may not interrupt a paragraph.
  let (endPos, st) ← st.appendParagraph cfg
  if truthyPos endPos then return (endPos, st)
  -- rule 7
  let startPos := mt.stop
  let endPos ← st.findLineEnd cfg
  let isTruthy (o : Option Str) : Bool := match o with | some s => !s.isEmpty | none => false
  if (isTruthy openTag && (Py.matchIn (cfg.rx "mistune.block_parser._OPEN_TAG_END") st.x startPos endPos).isSome) ||
     (isTruthy closeTag && (Py.matchIn (cfg.rx "mistune.block_parser._CLOSE_TAG_END") st.x startPos endPos).isSome) then
    return (← parseHtmlToNewline st blankLine)
  return (none, st)

/-! ### `BlockParser.parse` -/

/-- the `while state.cursor < state.cursor_max` loop of `BlockParser.parse` -/
def parseLoop (cfg : MdCfg) (pm : ParseMethod) (sc : List (String × Rx)) : Nat → BlockState → Except PyErr BlockState
  | 0, st => if st.cursor < st.cursorMax then .error .noProgress else .ok st
  | fuel + 1, st =>
    if st.cursor < st.cursorMax then
      match scan st.x sc st.cursor with
      | none => .ok st                                  -- `break`
      | some (name, m) => do
        let endPos := m.start
        let st ← if endPos > st.cursor then do
            let st ← st.addParagraph (st.getText endPos)
            pure { st with cursor := endPos }
          else pure st
        let (endPos2, st) ← pm name m st
        let st ← if truthyPos endPos2 then pure { st with cursor := endPos2.getD 0 }
          else do
            let endPos3 ← st.findLineEnd cfg
            let st ← st.addParagraph (st.getText endPos3)
            pure { st with cursor := endPos3 }
        parseLoop cfg pm sc fuel st
    else .ok st

/-- `BlockParser.parse(state, rules)`; `rules = none` is `None` (`self.rules`) -/
def parse (cfg : MdCfg) (pm : ParseMethod) (st : BlockState) (rules : Option (List String)) : Except PyErr BlockState := do
  let sc ← compileSc cfg (rules.getD cfg.blockRules)
  let st ← parseLoop cfg pm sc (st.cursorMax + 1) st
  if st.cursor < st.cursorMax then
    let st ← st.addParagraph st.restText
    pure { st with cursor := st.cursorMax }
  else pure st

/-! ### block quotes -/

/-- the three substitutions applied to a matched run of quoted lines:
`_BLOCK_QUOTE_LEADING.sub("")`, `expand_leading_tab(…, 3)`, `_BLOCK_QUOTE_TRIM.sub("")` -/
def cleanQuote (cfg : MdCfg) (quote : Str) : Str :=
  let quote := Py.reSub (cfg.rx "mistune.block_parser._BLOCK_QUOTE_LEADING") (fun _ _ => []) quote
  let quote := expandLeadingTab cfg quote 3
  Py.reSub (cfg.rx "mistune.block_parser._BLOCK_QUOTE_TRIM") (fun _ _ => []) quote

/-- the `while state.cursor < state.cursor_max` loop of `extract_block_quote` (the `require_marker = False` branch);
returns `(text, end_pos, state)` -/
def extractQuoteLoop (cfg : MdCfg) (pm : ParseMethod) (breakSc : List (String × Rx)) :
    Nat → Str → Bool → Option Nat → BlockState → Except PyErr (Str × Option Nat × BlockState)
  | 0, text, _, endPos, st => if st.cursor < st.cursorMax then .error .noProgress else .ok (text, endPos, st)
  | fuel + 1, text, prevBlankLine, endPos, st =>
    if st.cursor < st.cursorMax then
      match Py.matchAt (cfg.rx "mistune.block_parser._STRICT_BLOCK_QUOTE") st.x st.cursor with
      | some m3 =>
        let quote := cleanQuote cfg (grp0 st m3)
        let text := text ++ quote
        let st := { st with cursor := m3.stop }
        let prevBlankLine :=
          if (Py.strip quote).isEmpty then true
          else ((cfg.rx "mistune.block_parser._LINE_BLANK_END").search (Py.ctxOf quote) 0).isSome
        extractQuoteLoop cfg pm breakSc fuel text prevBlankLine endPos st
      | none =>
        if prevBlankLine then
          -- CommonMark Example 249: a blank line is needed between a block quote and a following paragraph
          .ok (text, endPos, st)
        else do
          let (endPos, st) ← match scMatch st.x breakSc st.cursor with
            | some (name, m4) => pm name m4 st
            | none => pure (endPos, st)
          if truthyPos endPos then return (text, endPos, st)
          -- lazy continuation line
          let pos ← st.findLineEnd cfg
          let line := expandLeadingTab cfg (st.getText pos) 3
          extractQuoteLoop cfg pm breakSc fuel (text ++ line) prevBlankLine endPos { st with cursor := pos }
    else .ok (text, endPos, st)

/-- `BlockParser.extract_block_quote`: `(text, end_pos, state)` -/
def extractBlockQuote (cfg : MdCfg) (pm : ParseMethod) (mt : RxMatch) (st : BlockState) :
    Except PyErr (Str × Option Nat × BlockState) := do
  -- cleanup at first to detect if it is code block
  let text := grp cfg st mt "quote_1" ++ ['\n']
  let text := expandLeadingTab cfg text 3
  let text := Py.reSub (cfg.rx "mistune.block_parser._BLOCK_QUOTE_TRIM") (fun _ _ => []) text
  let sc ← compileSc cfg ["blank_line", "indent_code", "fenced_code"]
  let requireMarker := (scMatch (Py.ctxOf text) sc 0).isSome
  let st := { st with cursor := mt.stop + 1 }
  if requireMarker then
    match Py.matchAt (cfg.rx "mistune.block_parser._STRICT_BLOCK_QUOTE") st.x st.cursor with
    | some m2 =>
      let quote := cleanQuote cfg (grp0 st m2)
      return (expandTab cfg (text ++ quote), none, { st with cursor := m2.stop })
    | none => return (expandTab cfg text, none, st)
  else
    let breakSc ← compileSc cfg ["blank_line", "thematic_break", "fenced_code", "list", "block_html"]
    let (text, endPos, st) ← extractQuoteLoop cfg pm breakSc (st.cursorMax + 1) text false none st
    -- according to CommonMark Example 6, the second tab should be treated as 4 spaces
    return (expandTab cfg text, endPos, st)

/-- `[r for r in rules if r not in ("block_quote", "list")]` -/
def withoutContainers (rules : List String) : List String :=
  rules.filter (fun r => r != "block_quote" && r != "list")

/-- `BlockParser.parse_block_quote` -/
def parseBlockQuote (cfg : MdCfg) (pm : ParseMethod) (mt : RxMatch) (st : BlockState) : PMRes := do
  -- the block that ends the quote is parsed during extraction and may leave several tokens
  let tokIndex := st.tokens.length
  let (text, endPos, st) ← extractBlockQuote cfg pm mt st
  -- scan children state
  let child := st.childState text
  let rules :=
    if st.depth + 1 ≥ cfg.maxNested then            -- `state.depth() >= self.max_nested_level - 1`
      -- at the nesting limit no container may open another container
      withoutContainers cfg.quoteRules
    else cfg.quoteRules
  let child ← parse cfg pm child (some rules)
  let st := { st with env := child.env }
  let token := tok "block_quote" [("children", .arr child.tokens)]
  if truthyPos endPos then
    return (endPos, { st with tokens := listInsert st.tokens tokIndex token })
  return (some st.cursor, st.appendToken token)

/-! ### list_parser.py -/

/-- `_get_list_bullet(c)`, as the bullet character that indexes the generated family `rt:list_item[<c><w>]` -/
def getListBullet (c : Char) : Char :=
  if c == '.' then '.' else if c == ')' then ')' else if c == '*' then '*' else if c == '+' then '+' else '-'

/-- the scanner that `_parse_list_item` compiles: the list-item break rules with their first `3` replaced by the
leading width when it is `< 3` (generated family `rt:listbreak[<rule>,<w>]`), and `list_item`
(`_compile_list_item_pattern(bullet, leading_width)`, generated family `rt:list_item[<bullet><w>]`) inserted at
index 1; every alternative is prefixed by `(?<=\n)`.  `if 'fenced_directive' in block.specification:
list_item_breaks.insert(1, "fenced_directive")`: with a custom-marker `FencedDirective` its rule is a break rule too
(after `list_item` once that is inserted), and the replacement of the first `3` hits its fence-length quantifier
`{3,}` (family `rt:listbreak[fenced_directive,<w>]`, regenerated from the live pattern). -/
def listItemSc (cfg : MdCfg) (bullet : Char) (leadingWidth : Nat) : List (String × Rx) :=
  let w := min leadingWidth 3
  let br (n : String) : String × Rx := (n, cfg.rx ("rt:listbreak[" ++ n ++ "," ++ toString w ++ "]"))
  [br "thematic_break",
   ("list_item", cfg.rx ("rt:list_item[" ++ String.singleton bullet ++ toString w ++ "]"))] ++
  (if (cfg.blockSpec.lookup "fenced_directive").isSome then [br "fenced_directive"] else []) ++
  [br "fenced_code", br "atx_heading", br "block_quote", br "block_html", br "list"]

/-- `_compile_continue_width(text, leading_width)` -/
def compileContinueWidth (cfg : MdCfg) (text : Str) (leadingWidth : Nat) : Str × Nat :=
  let text := expandLeadingTab cfg text 3
  let text := expandTab cfg text
  match (cfg.rx "mistune.list_parser._LINE_HAS_TEXT").matchAt (Py.ctxOf text) 0 with
  | some m2 =>
    -- indent code, startswith 5 spaces
    let spaceWidth :=
      if Py.startsWith text "     ".toList then 1
      else match m2.group 1 with
        | some (a, b) => b - a
        | none => 0
    (text.drop spaceWidth ++ ['\n'], leadingWidth + spaceWidth)
  | none => ([], leadingWidth + 1)

/-- `_clean_list_item_text(src, continue_width)` -/
def cleanListItemText (cfg : MdCfg) (src : Str) (continueWidth : Nat) : Str :=
  -- according to Example 7, tab should be treated as 3 spaces
  let trimSpace := Py.rep ' ' continueWidth
  let lines := Py.splitOn ['\n'] src
  let rv := lines.map (fun line =>
    if Py.startsWith line trimSpace then
      -- according to CommonMark Example 5 tab should be treated as 4 spaces
      expandTab cfg (Py.replaceFirst trimSpace [] line)
    else line)
  Py.join ['\n'] rv

/-- `_is_loose_list(tokens)` -/
def isLooseList : List Json → Nat → Except PyErr Bool
  | [], _ => .ok false
  | t :: rest, paragraphCount => do
    let ty ← typeOf t
    if ty == "blank_line" then return true
    if ty == "paragraph" then
      if paragraphCount + 1 > 1 then return true
      isLooseList rest (paragraphCount + 1)
    else isLooseList rest paragraphCount

/-- `_transform_tight_list(token)`; the fuel bounds the nesting of lists -/
def transformTightList : Nat → Json → Except PyErr Json
  | 0, _ => .error .depthExceeded
  | fuel + 1, token => do
    if (← getE token "tight").truthy then
      -- reset tight list item
      let items ← childrenOf token
      let items ← items.mapM (fun listItem => do
        let cs ← childrenOf listItem
        let cs ← cs.mapM (fun t => do
          let ty ← typeOf t
          if ty == "paragraph" then pure (t.set "type" (Json.s "block_text"))
          else if ty == "list" then transformTightList fuel t
          else pure t)
        pure (listItem.set "children" (.arr cs)))
      pure (token.set "children" (.arr items))
    else pure token

/-- the groups `(spaces, marker, text)` of a list-item start -/
abbrev ItemGroups := Str × Str × Str

/-- the `while pos < state.cursor_max` loop of `_parse_list_item`; returns `(src, next_group, token, state)` -/
def listItemLoop (cfg : MdCfg) (pm : ParseMethod) (sc : List (String × Rx)) (text continueSpace : Str) :
    Nat → Nat → Str → Bool → Json → BlockState → Except PyErr (Str × Option ItemGroups × Json × BlockState)
  | 0, pos, src, _, token, st => if pos < st.cursorMax then .error .noProgress else .ok (src, none, token, st)
  | fuel + 1, pos, src, prevBlankLine, token, st =>
    if pos < st.cursorMax then do
      let pos ← st.findLineEnd cfg
      let line := st.getText pos
      if ((cfg.rx "mistune.block_parser.BlockParser.BLANK_LINE").matchAt (Py.ctxOf line) 0).isSome then
        listItemLoop cfg pm sc text continueSpace fuel pos (src ++ ['\n']) true token { st with cursor := pos }
      else
        let line := expandLeadingTab cfg line 4
        if Py.startsWith line continueSpace then
          if prevBlankLine && text.isEmpty && (Py.strip src).isEmpty then
            -- Example 280: a list item can begin with at most one blank line
            return (src, none, token, st)
          listItemLoop cfg pm sc text continueSpace fuel pos (src ++ line) false token { st with cursor := pos }
        else
          -- `m = sc.match(state.src, state.cursor)`
          let (stop, st) ← match scMatch st.x sc st.cursor with
            | some (tokType, m) =>
              if tokType == "list_item" then
                let token := if prevBlankLine then token.set "tight" (.bool false) else token
                let nextGroup : ItemGroups :=
                  (grp cfg st m "listitem_1", grp cfg st m "listitem_2", grp cfg st m "listitem_3")
                pure (some (some nextGroup, token), { st with cursor := m.stop + 1 })
              else if tokType == "list" || tokType == "block_quote" then pure (some (none, token), st)
              else do
                let tokIndex := st.tokens.length
                let (endPos, st) ← pm tokType m st
                if truthyPos endPos then
                  let token := (token.set "_tok_index" (.num tokIndex)).set "_end_pos" (.num (endPos.getD 0))
                  pure (some (none, token), st)
                else pure (none, st)
            | none => pure (none, st)
          match stop with
          | some (nextGroup, token) => return (src, nextGroup, token, st)
          | none =>
            if prevBlankLine && !Py.startsWith line continueSpace then
              -- not a continue line, and previous line is blank
              return (src, none, token, st)
            listItemLoop cfg pm sc text continueSpace fuel pos (src ++ line) prevBlankLine token { st with cursor := pos }
    else .ok (src, none, token, st)

/-- `_parse_list_item(block, bullet, groups, token, state, rules)`; returns `(next_group, token, state)` -/
def parseListItem (cfg : MdCfg) (pm : ParseMethod) (bullet : Char) (groups : ItemGroups) (token : Json)
    (st : BlockState) (rules : List String) : Except PyErr (Option ItemGroups × Json × BlockState) := do
  let (spaces, marker, text) := groups
  let leadingWidth := spaces.length + marker.length
  let (text, continueWidth) := compileContinueWidth cfg text leadingWidth
  let sc := listItemSc cfg bullet leadingWidth
  let continueSpace := Py.rep ' ' continueWidth
  let (src, nextGroup, token, st) ←
    listItemLoop cfg pm sc text continueSpace (st.cursorMax + 1) st.cursor [] false token st
  let text := text ++ cleanListItemText cfg src continueWidth
  let child := st.childState (stripEnd cfg text)
  let child ← parse cfg pm child (some rules)
  let st := { st with env := child.env }
  let token ← do
    if (← getE token "tight").truthy && (← isLooseList child.tokens 0) then pure (token.set "tight" (.bool false))
    else pure token
  let children ← childrenOf token
  let token := token.set "children" (.arr (children ++ [tok "list_item" [("children", .arr child.tokens)]]))
  return (nextGroup, token, st)

/-- the `while groups:` loop of `parse_list` -/
def listItemsLoop (cfg : MdCfg) (pm : ParseMethod) (bullet : Char) (rules : List String) :
    Nat → Option ItemGroups → Json → BlockState → Except PyErr (Json × BlockState)
  | _, none, token, st => .ok (token, st)
  | 0, some _, _, _ => .error .noProgress
  | fuel + 1, some groups, token, st => do
    let (groups, token, st) ← parseListItem cfg pm bullet groups token st rules
    listItemsLoop cfg pm bullet rules fuel groups token st

/-- `list_parser.parse_list(block, m, state)` (= `BlockParser.parse_list`) -/
def parseList (cfg : MdCfg) (pm : ParseMethod) (mt : RxMatch) (st : BlockState) : PMRes := do
  let text := grp cfg st mt "list_3"
  -- Example 285: an empty list item cannot interrupt a paragraph
  let (early, st) ← if (Py.strip text).isEmpty then st.appendParagraph cfg else pure (none, st)
  if truthyPos early then return (early, st)
  let marker := grp cfg st mt "list_2"
  let ordered := marker.length > 1
  let depth := st.depth
  let last ← match marker.getLast? with
    | some c => pure c
    | none => throw PyErr.indexError                       -- `marker[-1]`
  let attrs := Json.obj [("depth", .num depth), ("ordered", .bool ordered)]
  -- `if ordered: start = int(marker[:-1]); if start != 1: …`
  let (early, attrs, st) ← if ordered then do
      let start ← match Py.intOfStr marker.dropLast with
        | some n => pure n
        | none => throw PyErr.valueError
      if start != 1 then
        -- Example 304: we allow only lists starting with 1 to interrupt paragraphs
        let (endPos, st) ← st.appendParagraph cfg
        if truthyPos endPos then pure (endPos, attrs, st)
        else pure (none, attrs.set "start" (.num start), st)
      else pure (none, attrs, st)
    else pure (none, attrs, st)
  if truthyPos early then return (early, st)
  let token := tok "list" [("children", .arr []), ("tight", .bool true), ("bullet", .str [last]), ("attrs", attrs)]
  let st := { st with cursor := mt.stop + 1 }
  let groups : ItemGroups := (grp cfg st mt "list_1", marker, text)
  let rules :=
    if depth + 1 ≥ cfg.maxNested then              -- `depth >= block.max_nested_level - 1`
      -- at the nesting limit no container may open another container
      withoutContainers cfg.listRules
    else cfg.listRules
  let bullet := getListBullet last
  let (token, st) ← listItemsLoop cfg pm bullet rules (st.cursorMax + 2) (some groups) token st
  -- `end_pos = token.pop("_end_pos", None)`
  let endPos : Option Nat := match token.get? "_end_pos" with
    | some (.num n) => some n.toNat
    | _ => none
  let token := token.erase "_end_pos"
  let token ← transformTightList (cfg.maxNested + 3) token
  if truthyPos endPos then
    -- `index = token.pop("_tok_index")`
    let index ← match ← getE token "_tok_index" with
      | .num n => pure n.toNat
      | _ => throw PyErr.typeError
    let token := token.erase "_tok_index"
    return (endPos, { st with tokens := listInsert st.tokens index token })
  return (some st.cursor, st.appendToken token)

end Blk

end Model
end Mistune
