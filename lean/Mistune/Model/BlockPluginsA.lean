/-
Handlers of the block rules registered by the plugins `math` (`block_math`), `speedup` (`paragraph`) and `spoiler`
(`block_quote`, rebound).
`md.block.register(name, pattern, func, before=…)` puts the rule into `block.rules` only (not into
`block_quote_rules` / `list_rules`; `math_in_quote` / `math_in_list` are separate plugins that no named
configuration uses) and the pattern into `block.specification`: regenerated data of `MdCfg`.  A rule name reaches
`Blk.parseMethod` only through a scanner compiled from those lists, so the handler is bound exactly when the plugin
registered it.
-/
import Mistune.Model.Block
import Mistune.Model.BlockPluginsB
namespace Mistune
namespace Model
namespace Blk

/-- `math.parse_block_math` -/
def parseBlockMath (cfg : MdCfg) (mt : RxMatch) (st : BlockState) : PMRes :=
  let text := grp cfg st mt "math_text"
  .ok (some (mt.stop + 1), st.appendToken (tok "block_math" [("raw", .str text)]))

/-- `speedup.parse_paragraph` -/
def parseParagraph (mt : RxMatch) (st : BlockState) : PMRes := do
  let st ← st.addParagraph (grp0 st mt)
  pure (some mt.stop, st)

/-! ### plugins/spoiler.py (block part)

`spoiler(md)` calls `md.block.register("block_quote", None, parse_block_spoiler)`: the pattern is `None`, so
`block.specification` and the rule lists keep the core entries of `block_quote` and only `_methods["block_quote"]` is
rebound; every call of the rule (scanner of `parse`, break rules inside `extract_block_quote`) goes through
`parse_method`, hence to the new function.  The rule tables do not show the rebinding; the model recognises the
plugin by the inline rule it registers in the same call (`inline_spoiler`), see `spoilerActive`. -/

/-- the plugin `spoiler` is installed: its inline rule is registered -/
def spoilerActive (cfg : MdCfg) : Bool := cfg.inlineRules.contains "inline_spoiler"

/-- `spoiler.parse_block_spoiler` -/
def parseBlockSpoiler (cfg : MdCfg) (pm : ParseMethod) (mt : RxMatch) (st : BlockState) : PMRes := do
  let tokIndex := st.tokens.length
  let (text, endPos, st) ← extractBlockQuote cfg pm mt st
  -- ensure it endswith \n to make sure `_BLOCK_SPOILER_MATCH.match` works
  let text := if Py.endsWith text ['\n'] then text else text ++ ['\n']
  let isSpoiler := st.depth == 0 &&
    (Py.matchAt (cfg.rx "mistune.plugins.spoiler._BLOCK_SPOILER_MATCH") (Py.ctxOf text) 0).isSome
  let text := if isSpoiler then Py.reSub (cfg.rx "mistune.plugins.spoiler._BLOCK_SPOILER_START") (fun _ _ => []) text else text
  let tokType := if isSpoiler then "block_spoiler" else "block_quote"
  -- scan children state
  let child := st.childState text
  let rules :=
    if st.depth + 1 ≥ cfg.maxNested then            -- `state.depth() >= block.max_nested_level - 1`
      withoutContainers cfg.quoteRules
    else cfg.quoteRules
  let child ← parse cfg pm child (some rules)
  let st := { st with env := child.env }
  let token := tok tokType [("children", .arr child.tokens)]
  if truthyPos endPos then
    return (endPos, { st with tokens := listInsert st.tokens tokIndex token })
  return (some st.cursor, st.appendToken token)

end Blk
end Model
end Mistune
