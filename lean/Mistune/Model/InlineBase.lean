/-
Model of `InlineParser` (inline_parser.py), `InlineState` (core.py) and helpers.py
(`unescape_char`, `parse_link_text`, `parse_link_label`, `parse_link_href`, `parse_link_title`, `parse_link`).

Conventions
* A handler returns `Except PyErr (Option Nat × InlineState)`: Python's `Optional[int]` return value and the
  state after the call (`state.tokens`, `state.in_link` are the only things a handler mutates).  Python tests the
  return value for truthiness (`if not new_pos`, `if prec_pos`), so `some 0` and `none` are both falsy: `posTruthy`.
* Recursion (children of links / images / emphasis through `render`; the handler call inside `precedence_scan`)
  goes through `Rec`, a record of the two recursive entry points, instantiated by `recAt cfg fuel`; with fuel 0 both
  return `.error .depthExceeded`.  The scanner loop recurses on its own fuel (`len(src) + 1`), an iteration that does
  not advance is reported as `.noProgress` (Python would not terminate).
* Every regex that exists as a Python object is taken from `cfg` (regenerated from the source); the only run-time
  construction is the code-span end pattern, `codespanEndRx`.
-/
import Mistune.Model.Base
import Mistune.Charref
namespace Mistune
namespace Model
namespace Inl

/-- truthiness of an `Optional[int]` -/
def posTruthy : Option Nat → Bool
  | some p => p != 0
  | none => false

/-! ### `InlineState` (core.py) -/

/-- `InlineState`; `x` is the matching context of `src` (`x.s` = `src` as an array, `x.n = len(src)`), kept in
step with `src` by `setSrc`. -/
structure InlineState where
  env : Json
  src : Str
  x : RxCtx
  tokens : Array Json
  inImage : Bool
  inLink : Bool
  inEmphasis : Bool
  inStrong : Bool

namespace InlineState

/-- `InlineState.__init__(env)` -/
def new (env : Json) : InlineState :=
  { env := env, src := [], x := mkCtx [] 0, tokens := #[], inImage := false, inLink := false,
    inEmphasis := false, inStrong := false }

/-- `state.src = s` -/
def setSrc (st : InlineState) (s : Str) : InlineState := { st with src := s, x := mkCtx s s.length }

/-- `state.src = other.src` (shares the subject) -/
def setSrcOf (st other : InlineState) : InlineState := { st with src := other.src, x := other.x }

/-- `InlineState.copy`: same `env` and flags, fresh `src` and `tokens` -/
def copy (st : InlineState) : InlineState :=
  { new st.env with inImage := st.inImage, inLink := st.inLink, inEmphasis := st.inEmphasis, inStrong := st.inStrong }

/-- `InlineState.append_token` -/
def appendToken (st : InlineState) (t : Json) : InlineState := { st with tokens := st.tokens.push t }

/-- `len(state.src)` -/
def len (st : InlineState) : Nat := st.x.s.size

/-- `state.src[i:j]` for non-negative `i`, `j` -/
def slice (st : InlineState) (i j : Nat) : Str := Py.slice st.x.s i j

end InlineState

/-- `m.group(0)` -/
def group0 (st : InlineState) (m : RxMatch) : Str := st.slice m.start m.stop

def textTok (raw : Str) : Json := tok "text" [("raw", .str raw)]

/-! ### helpers.py -/

/-- `unescape_char(text)`: `_ESCAPE_CHAR_RE.sub(r"\1", text)` -/
def unescapeChar (cfg : MdCfg) (text : Str) : Str :=
  Py.reSub (cfg.rx "mistune.helpers._ESCAPE_CHAR_RE") (fun a mt => (Py.groupStr a mt 1).getD []) text

/-- the `while` loop of `parse_link_text`: returns `pos` when `found`.  `level ≥ 1` throughout (it is decremented
only by a `]`, and reaching 0 stops the loop).  NOTE (reproduced): `marker` is the whole match of
`(?<!\\)(?:\\\\)*[\[\]]`, so a bracket preceded by an even run of backslashes is never equal to `"]"` and counts as
an opening bracket. -/
def parseLinkTextLoop (cfg : MdCfg) (x : RxCtx) : Nat → Nat → Nat → Except PyErr (Option Nat)
  | 0, _, _ => .error .noProgress
  | fuel + 1, pos, level =>
    if pos < x.s.size then
      match (cfg.rx "mistune.helpers._INLINE_SQUARE_BRACKET_RE").search x pos with
      | none => .ok none
      | some m =>
        let pos := m.stop
        let marker := Py.slice x.s m.start m.stop
        if marker == [']'] then
          if level == 1 then .ok (some pos)
          else parseLinkTextLoop cfg x fuel pos (level - 1)
        else parseLinkTextLoop cfg x fuel pos (level + 1)
    else .ok none

/-- `parse_link_text(src, pos)` -/
def parseLinkText (cfg : MdCfg) (x : RxCtx) (pos : Nat) : Except PyErr (Option (Str × Nat)) := do
  match ← parseLinkTextLoop cfg x (x.s.size + 1 - pos) pos 1 with
  | some p => pure (some (Py.slice x.s pos (p - 1), p))
  | none => pure none

/-- `parse_link_label(src, start_pos)` -/
def parseLinkLabel (cfg : MdCfg) (x : RxCtx) (startPos : Nat) : Option (Str × Nat) :=
  match (cfg.rx "mistune.helpers._INLINE_LINK_LABEL_RE").matchAt x startPos with
  | some m => some ((Py.slice x.s m.start m.stop).dropLast, m.stop)
  | none => none

/-- `s[i]` for a Python `int` index (negative indices count from the end) -/
def pyGetItem (a : Array Char) (i : Int) : Except PyErr Char :=
  let j : Int := if i < 0 then i + a.size else i
  if j < 0 then .error .indexError
  else match a[j.toNat]? with
    | some c => .ok c
    | none => .error .indexError

/-- `parse_link_href(src, start_pos, block)`.  The returned position `end_pos - 1` is a Python `int`; it is
represented as a `Nat` with truncated subtraction: both patterns consume at least one character, and a negative
value could only be used as the `pos` argument of `Pattern.match`, which clips it to 0. -/
def parseLinkHref (cfg : MdCfg) (x : RxCtx) (startPos : Nat) (block : Bool) : Except PyErr (Option (Str × Nat)) :=
  match (cfg.rx "mistune.helpers.LINK_BRACKET_START").matchAt x startPos with
  | some m =>
    let startPos := m.stop - 1
    match (cfg.rx "mistune.helpers.LINK_BRACKET_RE").matchAt x startPos with
    | some m => .ok (some ((Py.groupStr x.s m 1).getD [], m.stop))
    | none => .ok none
  | none =>
    let m? := if block then (cfg.rx "mistune.helpers.LINK_HREF_BLOCK_RE").matchAt x startPos
              else (cfg.rx "mistune.helpers.LINK_HREF_INLINE_RE").matchAt x startPos
    match m? with
    | none => .ok none
    | some m => do
      let endPos := m.stop
      let href := (Py.groupStr x.s m 1).getD []
      if block then
        let c ← pyGetItem x.s ((endPos : Int) - 1)
        let h ← match href.getLast? with
          | some h => pure h
          | none => .error .indexError              -- `href[-1]`
        if c == h then pure (some (href, endPos)) else pure (some (href, endPos - 1))
      else pure (some (href, endPos - 1))

/-- `parse_link_title(src, start_pos, max_pos)` -/
def parseLinkTitle (cfg : MdCfg) (x : RxCtx) (startPos maxPos : Nat) : Option (Str × Nat) :=
  match (cfg.rx "mistune.helpers.LINK_TITLE_RE").matchAt { x with n := min maxPos x.n } startPos with
  | some m =>
    let g := (Py.groupStr x.s m 1).getD []
    let title := (g.drop 1).dropLast                 -- `m.group(1)[1:-1]`
    some (unescapeChar cfg title, m.stop)
  | none => none

/-- `escape_url(link)` -/
def escapeUrl (cfg : MdCfg) (link : Str) : Except PyErr Str :=
  Charref.escapeUrl (cfg.rx "mistune.util._charref_re") link

/-- `helpers.parse_link(src, pos)`: `(attrs, end)` -/
def parseLinkH (cfg : MdCfg) (x : RxCtx) (pos : Nat) : Except PyErr (Option (Json × Nat)) := do
  match ← parseLinkHref cfg x pos false with
  | none => pure none
  | some (href, hrefPos) =>
    let t := parseLinkTitle cfg x hrefPos x.s.size
    -- `next_pos = title_pos or href_pos`
    let nextPos := match t with
      | some (_, tp) => if tp != 0 then tp else hrefPos
      | none => hrefPos
    match (cfg.rx "mistune.helpers.PAREN_END_RE").matchAt x nextPos with
    | none => pure none
    | some m =>
      let href := unescapeChar cfg href
      let url ← escapeUrl cfg href
      let attrs := Json.obj [("url", .str url)]
      -- `if title:` (a non-empty string)
      let attrs := match t with
        | some (title, _) => if title.isEmpty then attrs else attrs.set "title" (.str title)
        | none => attrs
      pure (some (attrs, m.stop))

/-! ### inline_parser.py -/

abbrev HRes := Except PyErr (Option Nat × InlineState)

/-- the recursive entry points available to a handler -/
structure Rec where
  /-- `self.render(new_state)` for the children of a token -/
  render : InlineState → Except PyErr (Array Json)
  /-- `self.render(new_state)`, the final child state (its tokens, and its `env`: the dict the parent shares) -/
  renderSt : InlineState → Except PyErr InlineState
  /-- `self._methods[rule_name](m2, new_state)` inside `precedence_scan` -/
  call : String → RxMatch → InlineState → HRes

/-- `children = self.render(child)` called from a handler whose state is `st`: the children, and `st` continuing
with the `env` the child left (`InlineState.copy` passes the same dict object; the `footnote` handler writes it) -/
def Rec.renderIn (R : Rec) (child st : InlineState) : Except PyErr (Array Json × InlineState) := do
  let c ← R.renderSt child
  pure (c.tokens, { st with env := c.env })

/-- `compile_sc(rules)`: `self.specification[k]` raises `KeyError` for an unknown rule -/
def compileSc (cfg : MdCfg) (rules : List String) : Except PyErr (List (String × Rx)) :=
  rules.mapM (fun n => match cfg.inlineSpec.lookup n with
    | some r => .ok (n, r)
    | none => .error .keyError)

/-- `InlineParser.process_text` -/
def processText (text : Str) (st : InlineState) : InlineState := st.appendToken (textTok text)

/-- `abbrs_re.search(text, pos)` for `abbrs_re = re.compile("|".join(re.escape(k) for k in ref.keys()))` (plugins/abbr.py),
on the rest `text[pos:]`: the leftmost offset at which some key is a prefix, with the first such key in dict order -/
def abbrSearch (keys : List Str) : Str → Nat → Option (Nat × Str)
  | [], off => (keys.find? (fun k => k.isEmpty)).map (fun k => (off, k))
  | c :: r, off =>
    match keys.find? (fun k => Py.startsWith (c :: r) k) with
    | some k => some (off, k)
    | none => abbrSearch keys r (off + 1)

/-- the `while pos < len(text)` loop of the `process_text` of plugins/abbr.py and the two cases after it; `rest` is
`text[pos:]`, `atZero` is `pos == 0` (every key is non-empty, so `pos == 0` exactly when nothing matched yet) -/
def abbrLoop (ref : Json) (keys : List Str) : Nat → Str → Bool → InlineState → Except PyErr InlineState
  | 0, _, _, _ => .error .noProgress
  | fuel + 1, rest, atZero, st =>
    let finish : InlineState :=
      if atZero then st.appendToken (textTok rest)         -- special case, just pure text
      else if !rest.isEmpty then st.appendToken (textTok rest)
      else st
    if rest.isEmpty then .ok finish
    else match abbrSearch keys rest 0 with
      | none => .ok finish
      | some (off, label) =>
        let st := if off > 0 then st.appendToken (textTok (rest.take off)) else st
        match ref.get? (String.ofList label) with
        | none => .error .keyError                         -- `ref[label]`
        | some title =>
          if label.isEmpty then .error .noProgress else
          let st := st.appendToken (tok "abbr" [("children", .arr [textTok label]), ("attrs", .obj [("title", title)])])
          abbrLoop ref keys fuel (rest.drop (off + label.length)) false st

/-- `plugins.abbr.process_text` (installed as `md.inline.process_text` by the plugin).  The compiled alternation
cached in `env["abbrs_re"]` is a function of `env["ref_abbrs"]`, which the inline pass does not change: the cache is
not represented. -/
def abbrProcessText (text : Str) (st : InlineState) : Except PyErr InlineState :=
  let ref := (st.env.get? "ref_abbrs").getD .null
  if !ref.truthy then .ok (st.appendToken (textTok text))
  else
    -- a preceding text token is taken back and scanned again together with `text`
    let (text, st) := match st.tokens.back? with
      | some last =>
        if last.type == "text" then (last.getStr "raw" ++ text, { st with tokens := st.tokens.pop })
        else (text, st)
      | none => (text, st)
    let keys : List Str := match ref with
      | .obj kv => kv.map (fun p => p.1.toList)
      | _ => []
    abbrLoop ref keys (text.length + 1) text true st

/-- `self.process_text(text, state)`: the method of `InlineParser`, or the function the `abbr` plugin puts in its
place (the plugin is present exactly when its block rule `ref_abbr` is registered) -/
def processTextC (cfg : MdCfg) (text : Str) (st : InlineState) : Except PyErr InlineState :=
  if (cfg.blockSpec.lookup "ref_abbr").isSome then abbrProcessText text st else .ok (processText text st)

/-- `InlineParser.parse_escape` -/
def parseEscape (cfg : MdCfg) (m : RxMatch) (st : InlineState) : HRes :=
  let text := unescapeChar cfg (group0 st m)
  .ok (some m.stop, st.appendToken (textTok text))

/-- `InlineParser.precedence_scan(m, state, end_pos, rules)` -/
def precedenceScan (cfg : MdCfg) (R : Rec) (m : RxMatch) (st : InlineState) (endPos : Nat)
    (rules : List String) : HRes := do
  let markPos := m.stop
  let sc ← compileSc cfg rules
  -- `sc.search(state.src, mark_pos, end_pos)`: the subject is truncated at `end_pos`
  match scan { st.x with n := min endPos st.x.n } sc markPos with
  | none => pure (none, st)
  | some (lastgroup, m1) =>
    let ruleName := String.ofList (Py.replaceAll "prec_".toList [] lastgroup.toList)
    let sc2 ← compileSc cfg [ruleName]
    match scanAt st.x sc2 m1.start with
    | none => pure (none, st)
    | some (_, m2) =>
      let newState := st.copy.setSrcOf st
      let (m2Pos, newState) ← R.call ruleName m2 newState
      -- `new_state` shares `env` with `state`: what the speculative call wrote stays, whatever its outcome
      let st := { st with env := newState.env }
      match m2Pos with
      | none => pure (none, st)
      | some p =>
        if p == 0 || p < endPos then pure (none, st)
        else
          let rawText := st.slice m.start m2.start
          let st := st.appendToken (textTok rawText)
          let st := newState.tokens.foldl (fun s t => s.appendToken t) st
          pure (some p, st)

/-- `InlineParser.__parse_link_token` -/
def parseLinkToken (R : Rec) (isImage : Bool) (text : Str) (attrs : Json) (st : InlineState) :
    Except PyErr (Json × InlineState) := do
  let newState := st.copy.setSrc text
  if isImage then
    let (children, st) ← R.renderIn { newState with inImage := true } st
    pure (tok "image" [("children", .arr children.toList), ("attrs", attrs)], st)
  else
    let (children, st) ← R.renderIn { newState with inLink := true } st
    pure (tok "link" [("children", .arr children.toList), ("attrs", attrs)], st)

/-- the tail of `parse_link` from `if label is None: return None` on (reference form) -/
def parseLinkRef (R : Rec) (isImage : Bool) (text : Str) (label : Option Str) (endPos : Nat)
    (st : InlineState) : HRes :=
  match label with
  | none => .ok (none, st)
  | some label =>
    -- `ref_links = state.env.get("ref_links")`; `if not ref_links: return None`
    match st.env.get? "ref_links" with
    | none => .ok (none, st)
    | some refLinks =>
      if !refLinks.truthy then .ok (none, st) else
      let key := unikeyPy label
      -- `env = ref_links.get(key)`; `if env:`
      match refLinks.get? (String.ofList key) with
      | none => .ok (none, st)
      | some env =>
        if !env.truthy then .ok (none, st) else do
        let url ← match env.get? "url" with
          | some u => pure u
          | none => .error .keyError                 -- `env["url"]`
        let title := (env.get? "title").getD .null   -- `env.get("title")`
        let attrs := Json.obj [("url", url), ("title", title)]
        let (token, st) ← parseLinkToken R isImage text attrs st
        let token := (token.set "ref" (.str key)).set "label" (.str label)
        pure (some endPos, st.appendToken token)

/-- `InlineParser.parse_link` -/
def parseLink (cfg : MdCfg) (R : Rec) (m : RxMatch) (st : InlineState) : HRes := do
  let pos := m.stop
  let marker := group0 st m
  let c0 ← match marker with
    | c :: _ => pure c
    | [] => .error .indexError                       -- `marker[0]`
  let isImage := c0 == '!'
  if isImage && st.inImage then pure (some pos, st.appendToken (textTok marker))
  else if !isImage && st.inLink then pure (some pos, st.appendToken (textTok marker))
  else
    let lab := parseLinkLabel cfg st.x pos
    -- `text`, `end_pos`: from the label if there is one, else from `parse_link_text`
    let te ← match lab with
      | some (l, e) => pure (some (l, e))
      | none => parseLinkText cfg st.x pos
    match te with
    | none => pure (none, st)
    | some (text, endPos) =>
      let label : Option Str := lab.map (·.1)
      if endPos ≥ st.len && label.isNone then pure (none, st) else
      let (precPos, st) ← precedenceScan cfg R m st endPos ["codespan", "prec_auto_link", "prec_inline_html"]
      if posTruthy precPos then pure (precPos, st) else
      if endPos < st.len then
        let c := st.x.s.getD endPos ' '
        if c == '(' then
          -- standard link [text](<url> "title")
          match ← parseLinkH cfg st.x (endPos + 1) with
          | some (attrs, pos2) =>
            if pos2 != 0 then
              let (token, st) ← parseLinkToken R isImage text attrs st
              pure (some pos2, st.appendToken token)
            else parseLinkRef R isImage text label endPos st
          | none => parseLinkRef R isImage text label endPos st
        else if c == '[' then
          -- standard ref link [text][label]
          match parseLinkLabel cfg st.x (endPos + 1) with
          | some (label2, pos2) =>
            if pos2 != 0 then
              parseLinkRef R isImage text (if label2.isEmpty then label else some label2) pos2 st
            else parseLinkRef R isImage text label endPos st
          | none => parseLinkRef R isImage text label endPos st
        else parseLinkRef R isImage text label endPos st
      else parseLinkRef R isImage text label endPos st

/-- `InlineParser._add_auto_link` -/
def addAutoLink (cfg : MdCfg) (url text : Str) (st : InlineState) : Except PyErr InlineState := do
  let u ← escapeUrl cfg url
  pure (st.appendToken (tok "link" [("children", .arr [textTok text]), ("attrs", .obj [("url", .str u)])]))

/-- `InlineParser.parse_auto_link` -/
def parseAutoLink (cfg : MdCfg) (m : RxMatch) (st : InlineState) : HRes := do
  let text := group0 st m
  let pos := m.stop
  if st.inLink then pure (some pos, ← processTextC cfg text st)
  else
    let text := (text.drop 1).dropLast               -- `text[1:-1]`
    let st ← addAutoLink cfg text text st
    pure (some pos, st)

/-- `InlineParser.parse_auto_email` -/
def parseAutoEmail (cfg : MdCfg) (m : RxMatch) (st : InlineState) : HRes := do
  let text := group0 st m
  let pos := m.stop
  if st.inLink then pure (some pos, ← processTextC cfg text st)
  else
    let text := (text.drop 1).dropLast
    let url := "mailto:".toList ++ text
    let st ← addAutoLink cfg url text st
    pure (some pos, st)

/-- `InlineParser.parse_emphasis` -/
def parseEmphasis (cfg : MdCfg) (R : Rec) (m : RxMatch) (st : InlineState) : HRes := do
  let pos := m.stop
  let marker := group0 st m
  let mlen := marker.length
  if mlen == 1 && st.inEmphasis then pure (some pos, st.appendToken (textTok marker))
  else if mlen == 2 && st.inStrong then pure (some pos, st.appendToken (textTok marker))
  else
    -- `EMPHASIS_END_RE[marker]`
    let endRe ← match cfg.named.lookup ("mistune.inline_parser.EMPHASIS_END_RE[" ++ String.ofList marker ++ "]") with
      | some r => pure r
      | none => .error .keyError
    match endRe.search st.x pos with
    | none => pure (some pos, st.appendToken (textTok marker))
    | some m1 =>
      let endPos := m1.stop
      let text := st.slice pos (endPos - mlen)
      let (precPos, st) ← precedenceScan cfg R m st endPos ["codespan", "link", "prec_auto_link", "prec_inline_html"]
      if posTruthy precPos then pure (precPos, st) else
      let newState := st.copy.setSrc text
      if mlen == 1 then
        let (children, st) ← R.renderIn { newState with inEmphasis := true } st
        pure (some endPos, st.appendToken (tok "emphasis" [("children", .arr children.toList)]))
      else if mlen == 2 then
        let (children, st) ← R.renderIn { newState with inStrong := true } st
        pure (some endPos, st.appendToken (tok "strong" [("children", .arr children.toList)]))
      else
        let (inner, st) ← R.renderIn { newState with inEmphasis := true, inStrong := true } st
        let children := [tok "strong" [("children", .arr inner.toList)]]
        pure (some endPos, st.appendToken (tok "emphasis" [("children", .arr children)]))

/-- `re.compile(r"(.*?[^`])" + marker + r"(?!`)", re.S)`: the run-time end pattern of a code span.  `marker` is the
text matched by the `codespan` rule (a run of back-ticks), translated as a sequence of literal characters. -/
def codespanEndRx (marker : Str) : Rx :=
  .seq (.grp 1 (.seq (.rep (.any true) 0 none false) (.cls true [.chr 96])))
    (marker.foldr (fun c r => .seq (.cls false [.chr c.toNat]) r) (.look true true 0 (.cls false [.chr 96])))

/-- The pure core of `parse_codespan`: `pattern.match(state.src, pos)` with the run-time end pattern, then the
normalisation of `m2.group(1)`.  `some (code, end_pos)` when the closing run is found, `none` otherwise -/
def codespanBody (x : RxCtx) (marker : Str) (pos : Nat) : Option (Str × Nat) :=
  let pattern := codespanEndRx marker
  match pattern.matchAt x pos with
  | some m2 =>
    let endPos := m2.stop
    let code := (Py.groupStr x.s m2 1).getD []
    -- Line endings are treated like spaces
    let code := Py.replaceAll ['\n'] [' '] code
    let code :=
      if (Py.strip code).length != 0 then
        if Py.startsWith code [' '] && Py.endsWith code [' '] then (code.drop 1).dropLast else code
      else code
    some (code, endPos)
  | none => none

/-- `InlineParser.parse_codespan` -/
def parseCodespan (m : RxMatch) (st : InlineState) : HRes :=
  let marker := group0 st m
  let pos := m.stop
  match codespanBody st.x marker pos with
  | some (code, endPos) => .ok (some endPos, st.appendToken (tok "codespan" [("raw", .str code)]))
  | none => .ok (some pos, st.appendToken (textTok marker))

/-- `InlineParser.parse_linebreak` -/
def parseLinebreak (m : RxMatch) (st : InlineState) : HRes :=
  .ok (some m.stop, st.appendToken (tok "linebreak" []))

/-- `InlineParser.parse_softbreak` -/
def parseSoftbreak (m : RxMatch) (st : InlineState) : HRes :=
  .ok (some m.stop, st.appendToken (tok "softbreak" []))

/-- `html.startswith((p1, p2, …))` -/
def startsWithAny (s : Str) (ps : List String) : Bool := ps.any (fun p => Py.startsWith s p.toList)

/-- `InlineParser.parse_inline_html`.  NOTE (reproduced): any raw `<a …>` switches `in_link` on and any `</a>`
switches it off for the rest of this state, whatever the nesting, and only for this state object. -/
def parseInlineHtml (m : RxMatch) (st : InlineState) : HRes :=
  let endPos := m.stop
  let html := group0 st m
  let st := st.appendToken (tok "inline_html" [("raw", .str html)])
  let st :=
    if startsWithAny html ["<a ", "<a>", "<A ", "<A>"] then { st with inLink := true }
    else if startsWithAny html ["</a ", "</a>", "</A ", "</A>"] then { st with inLink := false }
    else st
  .ok (some endPos, st)

/-- `plugins.footnotes.parse_inline_footnote`: the list of referenced notes is kept in `state.env["footnotes"]`
(`env` is shared by every inline state of the document).  The group `footnote_key` is looked up under its
rule-qualified name (the block rule `ref_footnote` has a group of the same name at another index). -/
def parseInlineFootnote (cfg : MdCfg) (m : RxMatch) (st : InlineState) : HRes :=
  let key := unikeyPy (groupNamed cfg st.x.s m "inline:footnote/footnote_key")
  let ref := (st.env.get? "ref_footnotes").getD .null
  -- an image description is rendered as plain text: a reference in it could not link to its note
  if ref.truthy && ref.has (String.ofList key) && !st.inImage then
    let notes : List Json := match st.env.get? "footnotes" with
      | some (.arr l) => l
      | _ => []                                            -- `if not notes: notes = []`
    let isKey (j : Json) : Bool := match j with | .str s => s == key | _ => false
    let (notes, st) :=
      if !notes.any isKey then
        let notes := notes ++ [.str key]
        (notes, { st with env := st.env.set "footnotes" (.arr notes) })
      else (notes, st)
    let index := (notes.findIdx isKey) + 1                 -- `notes.index(key) + 1`
    .ok (some m.stop, st.appendToken (tok "footnote_ref" [("raw", .str key), ("attrs", .obj [("index", .num index)])]))
  else
    .ok (some m.stop, st.appendToken (textTok (group0 st m)))

end Inl
end Model
end Mistune
