/-
Block-level handlers of the plugins `table` (plugins/table.py), `footnotes` (the block rule `ref_footnote` of
plugins/footnotes.py), `def_list` (plugins/def_list.py) and `abbr` (the block rule `ref_abbr` of plugins/abbr.py).

Same conventions as `Mistune.Model.Block`: one Lean function per Python function, the mutable `BlockState` threaded,
`env` shared between a state and its children, loops on explicit fuel.  Every regex that exists as a Python object
(`TABLE_CELL`, `CELL_SPLIT`, `ALIGN_*`, `DEF_RE`, `DD_START_RE`, `TRIM_RE`, `HAS_BLANK_LINE_RE`) is taken from `cfg`
(regenerated); the rules themselves (`table`, `nptable`, `ref_footnote`, `def_list`, `ref_abbr`) are entries of
`cfg.blockSpec` and their positions in the rule lists are data.  The handlers are bound in `Blk.parseMethod`
(`Mistune.Model.BlockDispatch`) only when the rule is registered in the configuration.
-/
import Mistune.Model.Block
namespace Mistune
namespace Model
namespace Blk

/-- `name in self._methods` for a rule added by `Parser.register`: `register` stores the pattern in
`specification` and the function in `_methods` together -/
def registered (cfg : MdCfg) (name : String) : Bool := (cfg.blockSpec.lookup name).isSome

/-! ### plugins/table.py -/

/-- the body of the `for i, v in enumerate(aligns)` loop of `_process_thead`: `"center"`, `"left"`, `"right"` or
`None` -/
def tableAlign (cfg : MdCfg) (v : Str) : Json :=
  let x := Py.ctxOf v
  if (Py.matchAt (cfg.rx "mistune.plugins.table.ALIGN_CENTER") x 0).isSome then Json.s "center"
  else if (Py.matchAt (cfg.rx "mistune.plugins.table.ALIGN_LEFT") x 0).isSome then Json.s "left"
  else if (Py.matchAt (cfg.rx "mistune.plugins.table.ALIGN_RIGHT") x 0).isSome then Json.s "right"
  else .null

/-- `CELL_SPLIT.split(text)` -/
def cellSplit (cfg : MdCfg) (text : Str) : List Str := Py.reSplit (cfg.rx "mistune.plugins.table.CELL_SPLIT") text

/-- `[{"type": "table_cell", "text": text.strip(), "attrs": {"align": aligns[i], "head": head}} for i, text in
enumerate(cells)]` (the lengths agree where it is used) -/
def tableCells (cells : List Str) (aligns : List Json) (head : Bool) : List Json :=
  (cells.zip aligns).map (fun p =>
    tok "table_cell" [("text", .str (Py.strip p.1)), ("attrs", .obj [("align", p.2), ("head", .bool head)])])

/-- `_process_thead(header, align)`; `none` is `(None, None)` -/
def processThead (cfg : MdCfg) (header align : Str) : Option (Json × List Json) :=
  let headers := cellSplit cfg header
  let aligns := cellSplit cfg align
  if headers.length != aligns.length then none
  else
    let aligns := aligns.map (tableAlign cfg)
    some (tok "table_head" [("children", .arr (tableCells headers aligns true))], aligns)

/-- `_process_row(text, aligns)` -/
def processRow (cfg : MdCfg) (text : Str) (aligns : List Json) : Option Json :=
  let cells := cellSplit cfg text
  if cells.length != aligns.length then none
  else some (tok "table_row" [("children", .arr (tableCells cells aligns false))])

/-- the `for text in body.splitlines()` loop of `parse_table`; `none` is a `return None` -/
def tableRows (cfg : MdCfg) (aligns : List Json) : List Str → Option (List Json)
  | [] => some []
  | text :: rest =>
    match Py.matchAt (cfg.rx "mistune.plugins.table.TABLE_CELL") (Py.ctxOf text) 0 with
    | none => none
    | some m2 =>
      match processRow cfg ((Py.groupStr (Py.ctxOf text).s m2 1).getD []) aligns with
      | none => none
      | some row => (tableRows cfg aligns rest).map (fun rows => row :: rows)

/-- the `for text in body.splitlines()` loop of `parse_nptable` -/
def nptableRows (cfg : MdCfg) (aligns : List Json) : List Str → Option (List Json)
  | [] => some []
  | text :: rest =>
    match processRow cfg text aligns with
    | none => none
    | some row => (nptableRows cfg aligns rest).map (fun rows => row :: rows)

def tableToken (thead : Json) (rows : List Json) : Json :=
  tok "table" [("children", .arr [thead, tok "table_body" [("children", .arr rows)]])]

/-- `plugins.table.parse_table` -/
def parseTable (cfg : MdCfg) (mt : RxMatch) (st : BlockState) : PMRes :=
  let pos := mt.stop
  match processThead cfg (grp cfg st mt "table_head") (grp cfg st mt "table_align") with
  | none => .ok (none, st)
  | some (thead, aligns) =>
    match tableRows cfg aligns (Py.splitLines (grp cfg st mt "table_body")) with
    | none => .ok (none, st)
    | some rows => .ok (some pos, st.appendToken (tableToken thead rows))

/-- `plugins.table.parse_nptable` -/
def parseNptable (cfg : MdCfg) (mt : RxMatch) (st : BlockState) : PMRes :=
  match processThead cfg (grp cfg st mt "nptable_head") (grp cfg st mt "nptable_align") with
  | none => .ok (none, st)
  | some (thead, aligns) =>
    match nptableRows cfg aligns (Py.splitLines (grp cfg st mt "nptable_body")) with
    | none => .ok (none, st)
    | some rows => .ok (some mt.stop, st.appendToken (tableToken thead rows))

/-! ### plugins/footnotes.py: the block rule -/

/-- `state.env.get(name)` followed by `if not ref: ref = {}` -/
def envDict (env : Json) (name : String) : Json :=
  match env.get? name with
  | some r => if r.truthy then r else .obj []
  | none => .obj []

/-- `plugins.footnotes.parse_ref_footnote`.  The group name `footnote_key` is also a group of the inline rule
`footnote` (at another index): the rule-qualified entry of the regenerated group table is used. -/
def parseRefFootnote (cfg : MdCfg) (mt : RxMatch) (st : BlockState) : PMRes :=
  let ref := envDict st.env "ref_footnotes"
  let key := String.ofList (unikeyPy (grp cfg st mt "block:ref_footnote/footnote_key"))
  let st :=
    if !ref.has key then
      { st with env := st.env.set "ref_footnotes" (ref.set key (.str (grp cfg st mt "block:ref_footnote/footnote_text"))) }
    else st
  .ok (some mt.stop, st)

/-! ### plugins/abbr.py: the block rule -/

/-- `plugins.abbr.parse_ref_abbr` -/
def parseRefAbbr (cfg : MdCfg) (mt : RxMatch) (st : BlockState) : PMRes :=
  let ref := envDict st.env "ref_abbrs"
  let key := String.ofList (grp cfg st mt "abbr_key")
  let text := grp cfg st mt "abbr_text"
  let st := { st with env := st.env.set "ref_abbrs" (ref.set key (.str (Py.strip text))) }
  -- abbr definition can split paragraph
  .ok (some (mt.stop + 1), st.appendToken (tok "blank_line" []))

/-! ### plugins/def_list.py -/

/-- `_process_text(block, text, loose, parent)`: the tokens of the definition, and the parent state continuing with
the child's `env` (the child state shares it) -/
def defProcessText (cfg : MdCfg) (pm : ParseMethod) (text : Str) (loose : Bool) (parent : BlockState) :
    Except PyErr (List Json × BlockState) := do
  let text := Py.reSub (cfg.rx "mistune.plugins.def_list.TRIM_RE") (fun _ _ => []) text
  let child := parent.childState (stripEnd cfg text)
  -- use default list rules
  let child ← parse cfg pm child (some cfg.listRules)
  let parent := { parent with env := child.env }
  match child.tokens with
  | [t] =>
    if !loose then
      if (← typeOf t) == "paragraph" then pure ([t.set "type" (Json.s "block_text")], parent)
      else pure ([t], parent)
    else pure ([t], parent)
  | toks => pure (toks, parent)

def defListItem (children : List Json) : Json := tok "def_list_item" [("children", .arr children)]

/-- the `while m2:` loop of `_parse_def_item` and the final item; `x` is the subject `src = m.group(0)`.  Every
iteration moves `start` to a later `:` line start (the search begins at `start + 1`). -/
def defItemLoop (cfg : MdCfg) (pm : ParseMethod) (x : RxCtx) :
    Nat → Nat → Bool → List Json → BlockState → Except PyErr (List Json × BlockState)
  | 0, _, _, _, _ => .error .noProgress
  | fuel + 1, start, prevBlankLine, acc, st =>
    match Py.search (cfg.rx "mistune.plugins.def_list.DD_START_RE") x (start + 1) with
    | none => do
      let text := Py.replaceFirst [':'] [' '] (Py.slice x.s start x.s.size)
      let (children, st) ← defProcessText cfg pm text prevBlankLine st
      pure (acc ++ [defListItem children], st)
    | some m2 => do
      let endPos := m2.start
      let text := Py.replaceFirst [':'] [' '] (Py.slice x.s start endPos)
      let (children, st) ← defProcessText cfg pm text prevBlankLine st
      let prevBlankLine := (Py.search (cfg.rx "mistune.plugins.def_list.HAS_BLANK_LINE_RE") (Py.ctxOf text) 0).isSome
      defItemLoop cfg pm x fuel endPos prevBlankLine (acc ++ [defListItem children]) st

/-- `list(_parse_def_item(block, m, state))`: `a` is the subject of the match `mt` (always `state.src`) -/
def parseDefItem (cfg : MdCfg) (pm : ParseMethod) (mt : RxMatch) (st : BlockState) :
    Except PyErr (List Json × BlockState) := do
  let head := grp cfg st mt "def_list_head"
  let heads := (Py.splitLines head).map (fun line => tok "def_list_head" [("text", .str line)])
  let src := grp0 st mt
  let x := Py.ctxOf src
  let endPos := head.length
  match Py.search (cfg.rx "mistune.plugins.def_list.DD_START_RE") x endPos with
  | none => throw .assertion                                 -- `assert m2 is not None`
  | some m2 =>
    let start := m2.start
    let prevBlankLine := Py.slice x.s endPos start == ['\n']
    defItemLoop cfg pm x (src.length + 1) start prevBlankLine heads st

/-- the `while m2:` loop of `parse_def_list` (every match of `DEF_RE` is non-empty) -/
def defListLoop (cfg : MdCfg) (pm : ParseMethod) :
    Nat → Nat → List Json → BlockState → Except PyErr (Nat × List Json × BlockState)
  | 0, _, _, _ => .error .noProgress
  | fuel + 1, pos, children, st =>
    match Py.matchAt (cfg.rx "mistune.plugins.def_list.DEF_RE") st.x pos with
    | none => .ok (pos, children, st)
    | some m2 => do
      let (more, st) ← parseDefItem cfg pm m2 st
      if m2.stop ≤ pos then throw .noProgress
      defListLoop cfg pm fuel m2.stop (children ++ more) st

/-- `plugins.def_list.parse_def_list` -/
def parseDefList (cfg : MdCfg) (pm : ParseMethod) (mt : RxMatch) (st : BlockState) : PMRes := do
  let (children, st) ← parseDefItem cfg pm mt st
  let (pos, children, st) ← defListLoop cfg pm (st.cursorMax + 1) mt.stop children st
  pure (some pos, st.appendToken (tok "def_list" [("children", .arr children)]))

end Blk
end Model
end Mistune
