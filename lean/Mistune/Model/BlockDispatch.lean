/-
`Parser.parse_method` of the block parser: the dispatch over the bound handlers (core handlers of
`Mistune.Model.Block`, plugin handlers of `Mistune.Model.BlockPluginsB` and `Mistune.Model.BlockPluginsA`), and the entry point `blockParse`.
(Moved verbatim from the end of `Mistune.Model.Block` so that plugin handler files can import the core handlers.)
-/
import Mistune.Model.Block
import Mistune.Model.BlockPluginsB
import Mistune.Model.BlockPluginsA
import Mistune.Model.Directives
namespace Mistune
namespace Model
namespace Blk

/-! ### dispatch -/

/-- `Parser.parse_method(m, state)`: `self._methods[m.lastgroup](m, state)`.  `_methods` has one entry per key of
`SPECIFICATION` (core configuration); any other rule name raises KeyError.  The argument is the nesting budget:
handlers receive the instance with the smaller budget for their own calls of `parse_method` / `parse`. -/
def parseMethod (cfg : MdCfg) : Nat → ParseMethod
  | 0 => fun _ _ _ => .error .depthExceeded
  | fuel + 1 => fun name mt st =>
    let pm := parseMethod cfg fuel
    match name with
    | "blank_line" => parseBlankLine mt st
    | "atx_heading" => parseAtxHeading cfg mt st
    | "setex_heading" => parseSetexHeading cfg pm mt st
    | "fenced_code" =>
      -- a `FencedDirective` with the default markers rebinds `_methods["fenced_code"]`
      if fencedCodeRebound cfg then parseFencedCodeDir cfg pm mt st else parseFencedCode cfg mt st
    | "indent_code" => parseIndentCode cfg mt st
    | "thematic_break" => parseThematicBreak mt st
    | "ref_link" => parseRefLink cfg mt st
    | "block_quote" =>
      -- the plugin `spoiler` rebinds `_methods["block_quote"]`
      if spoilerActive cfg then parseBlockSpoiler cfg pm mt st else parseBlockQuote cfg pm mt st
    | "list" => parseList cfg pm mt st
    | "block_html" => parseRawHtml cfg mt st              -- `parse_block_html`
    | "raw_html" => parseRawHtml cfg mt st
    -- plugins: a handler is in `_methods` only when the plugin registered its rule
    | "table" => if registered cfg "table" then parseTable cfg mt st else .error .keyError
    | "nptable" => if registered cfg "nptable" then parseNptable cfg mt st else .error .keyError
    | "ref_footnote" => if registered cfg "ref_footnote" then parseRefFootnote cfg mt st else .error .keyError
    | "def_list" => if registered cfg "def_list" then parseDefList cfg pm mt st else .error .keyError
    | "ref_abbr" => if registered cfg "ref_abbr" then parseRefAbbr cfg mt st else .error .keyError
    -- `Mistune.Model.BlockPluginsA`: math, speedup (spoiler: see `block_quote`)
    | "block_math" => if registered cfg "block_math" then parseBlockMath cfg mt st else .error .keyError
    | "paragraph" => if registered cfg "paragraph" then parseParagraph mt st else .error .keyError
    -- `Mistune.Model.Directives`: the rule of the directive syntax
    | "rst_directive" => if registered cfg "rst_directive" then parseRstDirective cfg pm mt st else .error .keyError
    | "fenced_directive" => if registered cfg "fenced_directive" then parseFencedDirective cfg pm mt st else .error .keyError
    | _ => .error .keyError

/-- nesting budget for a source: every nested activation of a handler (child parse or break rule) owns at least
one character of the (tab-expanded) source, and states nest at most `max_nested_level + 1` deep -/
def nestFuel (cfg : MdCfg) (src : Str) : Nat := 4 * src.length + cfg.maxNested + 16

/-- `BlockParser.parse` on an already normalised source, fresh root state: tokens (before the inline pass,
i.e. with `text` fields) and the final `env`. -/
def blockParse (cfg : MdCfg) (src : Str) : Except PyErr (List Json × Json) := do
  let st := BlockState.root src
  let st ← parse cfg (parseMethod cfg (nestFuel cfg src)) st none
  pure (st.tokens, st.env)

end Blk

def blockParse (cfg : MdCfg) (src : Str) : Except PyErr (List Json × Json) := Blk.blockParse cfg src

end Model
end Mistune
