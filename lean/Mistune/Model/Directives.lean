/-
Directives (`mistune/directives/`): `_base.py` (`DirectiveParser`, `BaseDirective.parse_method`), `_rst.py`
(`RSTParser`, `RSTDirective`), `_fenced.py` (`FencedParser`, `FencedDirective` incl. the rebound `fenced_code`
handler), `admonition.py`, `image.py` (`Image`, `Figure`), `toc.py` (`TableOfContents.parse`), `include.py`
(the path without a source file).

Which directive plugins a configuration registers is REGENERATED (`RuleCfg.directives`, from the instance built with
`renderer=None`, the one `parseDoc` describes): per syntax the parser rule name, the fence markers and the registered
directive names with the class of the plugin that handles them.  `TableOfContents.__call__` registers `toc` and
its `toc_hook` only with an HTML renderer, so with `renderer=None` `toc` is an UNKNOWN directive (a `block_error`
token) and no hook is installed.

A directive plugin never touches `state.cursor`; it returns token(s) which `BaseDirective.parse_method` appends,
and it may change the shared `env` (through `parse_tokens`: the child state shares it).  The plugin functions
therefore return `(tokens to append, env)`.
-/
import Mistune.Model.Block
import Mistune.Model.BlockPluginsB
namespace Mistune
namespace Model
namespace Blk

/-- the two directive syntaxes (`BaseDirective.parser`: `RSTParser` / `FencedParser`) -/
inductive DirSyntax where
  | rst | fenced
  deriving DecidableEq, Repr

/-- `DirectiveParser.name`: the block rule the syntax registers -/
def DirSyntax.ruleName : DirSyntax → String
  | .rst => "rst_directive"
  | .fenced => "fenced_directive"

/-- the module-level `_directive_re` of the syntax, by its regenerated name -/
def DirSyntax.reName : DirSyntax → String
  | .rst => "mistune.directives._rst._directive_re"
  | .fenced => "mistune.directives._fenced._directive_re"

/-- a module-level pattern of `mistune.directives.*`: the regenerated table `directiveRx` (`.fail` if the working
tree no longer has it) -/
def dirNamedRx (name : String) : Rx := (Generated.directiveRx.lookup name).getD .fail

/-- `_rst._directive_re` / `_fenced._directive_re` -/
def dirRx (syn : DirSyntax) : Rx := dirNamedRx syn.reName

/-- the match object `m` handed to a directive plugin: its syntax, its subject (`state.src` for RST, the fence
body for the fenced syntax) and the match of `_directive_re` -/
structure DirMatch where
  syn : DirSyntax
  a : Array Char
  mt : RxMatch

/-- `m.group(name)` for the named groups `type`, `title`, `options`, `text` of `_directive_re` -/
def dgrp (cfg : MdCfg) (d : DirMatch) (name : String) : Str :=
  match cfg.groups.lookup (d.syn.reName ++ "/" ++ name) with
  | some idx => (Py.groupStr d.a d.mt idx).getD []
  | none => []

/-- `RSTParser.parse_type` / `FencedParser.parse_type` -/
def parseType (cfg : MdCfg) (d : DirMatch) : Str := dgrp cfg d "type"

/-- `RSTParser.parse_title` / `FencedParser.parse_title` -/
def parseTitle (cfg : MdCfg) (d : DirMatch) : Str := dgrp cfg d "title"

/-- `RSTParser.parse_content` (de-indentation by `len(m.group(1)) + 2`; the unused `pretext` slice cannot raise) /
`FencedParser.parse_content` -/
def parseContent (cfg : MdCfg) (d : DirMatch) : Str :=
  match d.syn with
  | .fenced => dgrp cfg d "text"
  | .rst =>
    let text := dgrp cfg d "text"
    let leading := ((Py.groupStr d.a d.mt 1).getD []).length + 2
    Py.join ['\n'] ((Py.splitLines text).map (fun line => line.drop leading)) ++ ['\n']

/-- `r"\n+"` of `re.split(r"\n+", text)` -/
def nlPlusRx : Rx := .rep (.cls false [.chr 10]) 1 none true

/-- the loop body of `DirectiveParser.parse_options` for one line; `none` = `continue` -/
def parseOptionLine (line : Str) : Option (Str × Str) :=
  let line := (Py.strip line).drop 1
  if line.isEmpty then none
  else match Py.findFrom line [':'] 0 with
    | some i => some (line.take i, Py.strip (line.drop (i + 1)))
    | none => some (line.dropLast, Py.strip line)            -- `i = -1`: `line[:-1]`, `line[0:]`

/-- `DirectiveParser.parse_options` -/
def parseOptions (cfg : MdCfg) (d : DirMatch) : List (Str × Str) :=
  let text := dgrp cfg d "options"
  if (Py.strip text).isEmpty then []
  else (Py.reSplit nlPlusRx text).filterMap parseOptionLine

/-- `dict(options).get(k)` (`None` = absent): the LAST pair with the key wins -/
def optGet (options : List (Str × Str)) (k : String) : Option Str :=
  (options.reverse.find? (fun p => p.1 == k.toList)).map (·.2)

/-- `DirectiveParser.parse_tokens(block, text, state)`: the child tokens and the (shared) `env` afterwards -/
def parseTokens (cfg : MdCfg) (pm : ParseMethod) (syn : DirSyntax) (text : Str) (st : BlockState) :
    Except PyErr (List Json × Json) := do
  let rules :=
    if st.depth + 1 ≥ cfg.maxNested then                 -- `state.depth() >= block.max_nested_level - 1`
      cfg.blockRules.filter (fun r => r != syn.ruleName && r != "block_quote" && r != "list")
    else cfg.blockRules
  let child ← parse cfg pm (st.childState text) (some rules)
  pure (child.tokens, child.env)

/-! ### admonition.py -/

/-- `str.capitalize()` on the ASCII names `[a-zA-Z0-9_-]+` a directive type consists of -/
def capitalizeAscii : Str → Str
  | [] => []
  | c :: r => (if 'a' ≤ c && c ≤ 'z' then Char.ofNat (c.toNat - 32) else c) :: Py.lowerAscii r

/-- `Admonition.parse` (the names it is registered for are in the regenerated table) -/
def admonitionParse (cfg : MdCfg) (pm : ParseMethod) (d : DirMatch) (st : BlockState) :
    Except PyErr (List Json × Json) := do
  let name := parseType cfg d
  let options := parseOptions cfg d
  let attrs := [("name", Json.str name)] ++
    (match optGet options "class" with | some c => [("class", Json.str c)] | none => [])
  let title := parseTitle cfg d
  let title := if title.isEmpty then capitalizeAscii name else title
  let content := parseContent cfg d
  let (toks, env) ← parseTokens cfg pm d.syn content st
  let children := [tok "admonition_title" [("text", .str title)], tok "admonition_content" [("children", .arr toks)]]
  pure ([tok "admonition" [("children", .arr children), ("attrs", .obj attrs)]], env)

/-! ### image.py -/

/-- `_allowed_aligns` -/
def allowedAligns : List String := ["top", "middle", "bottom", "left", "center", "right"]

/-- `height and _num_re.match(height)` -/
def numOk (cfg : MdCfg) (v : Str) : Bool :=
  !v.isEmpty && (Py.matchAt (dirNamedRx "mistune.directives.image._num_re") (Py.ctxOf v) 0).isSome

/-- `image._parse_attrs(options)` -/
def imageParseAttrs (cfg : MdCfg) (options : List (Str × Str)) : List (String × Json) :=
  (match optGet options "alt" with | some v => [("alt", Json.str v)] | none => []) ++
  (match optGet options "align" with
    | some v => if !v.isEmpty && allowedAligns.contains (String.ofList v) then [("align", Json.str v)] else []
    | none => []) ++
  (match optGet options "height" with | some v => if numOk cfg v then [("height", Json.str v)] else [] | none => []) ++
  (match optGet options "width" with | some v => if numOk cfg v then [("width", Json.str v)] else [] | none => []) ++
  (match optGet options "target" with | some v => [("target", Json.str (escapeUrlM cfg v))] | none => [])

/-- `Image.parse` -/
def imageParse (cfg : MdCfg) (d : DirMatch) (st : BlockState) : Except PyErr (List Json × Json) :=
  let attrs := imageParseAttrs cfg (parseOptions cfg d) ++ [("src", Json.str (escapeUrlM cfg (parseTitle cfg d)))]
  .ok ([tok "block_image" [("attrs", .obj attrs)]], st.env)

/-- `Figure.parse_directive_content`: `(children or [] for None, env)` -/
def figureContent (cfg : MdCfg) (pm : ParseMethod) (d : DirMatch) (st : BlockState) :
    Except PyErr (List Json × Json) := do
  let content := parseContent cfg d
  if content.isEmpty then return ([], st.env)
  let (tokens, env) ← parseTokens cfg pm d.syn content st
  match tokens with
  | [] => return ([], env)                                   -- content that leaves no token
  | caption :: rest =>
    if (← typeOf caption) == "paragraph" then
      let caption := caption.set "type" (Json.s "figcaption")
      return (caption :: (if rest.isEmpty then [] else [tok "legend" [("children", .arr rest)]]), env)
    else return ([], env)

/-- `Figure.parse` -/
def figureParse (cfg : MdCfg) (pm : ParseMethod) (d : DirMatch) (st : BlockState) :
    Except PyErr (List Json × Json) := do
  let options := parseOptions cfg d
  let imageAttrs := imageParseAttrs cfg options ++ [("src", Json.str (escapeUrlM cfg (parseTitle cfg d)))]
  let align := imageAttrs.lookup "align"                     -- `image_attrs.pop("align", None)`
  let imageAttrs := imageAttrs.filter (fun p => p.1 != "align")
  let figAttrs :=
    (match align with | some v => if v.truthy then [("align", v)] else [] | none => []) ++
    (match optGet options "figwidth" with | some v => [("figwidth", Json.str v)] | none => []) ++
    (match optGet options "figclass" with | some v => [("figclass", Json.str v)] | none => [])
  let (content, env) ← figureContent cfg pm d st
  let children := tok "block_image" [("attrs", .obj imageAttrs)] :: content
  pure ([tok "figure" [("attrs", .obj figAttrs), ("children", .arr children)]], env)

/-! ### include.py -/

/-- `Include.parse` for a state without `env["__file__"]` (what `md(s)` gives): the `block_error` token.  The
file-system path is not modelled (`.keyError` stands for it, as for the hooks that are not modelled). -/
def includeParse (st : BlockState) : Except PyErr (List Json × Json) :=
  match st.env.get? "__file__" with
  | some v => if v.truthy then .error .keyError
              else .ok ([tok "block_error" [("raw", Json.s "Missing source file")]], st.env)
  | none => .ok ([tok "block_error" [("raw", Json.s "Missing source file")]], st.env)

/-! ### toc.py -/

/-- `int(level)` for the option values of `toc` (decimal digits with an optional sign; `none` = ValueError) -/
def intOfOption (s : Str) : Option Int :=
  match s with
  | '-' :: r => (Py.intOfStr r).map (fun n => - (Int.ofNat n))
  | '+' :: r => (Py.intOfStr r).map Int.ofNat
  | _ => (Py.intOfStr s).map Int.ofNat

/-- `toc._normalize_level(options, name, default)`; the error is the message of the `ValueError` -/
def normalizeLevel (options : List (Str × Str)) (name : String) (default : Int) : Except Str Int :=
  match optGet options name with
  | none => .ok default
  | some level =>
    if level.isEmpty then .ok default
    else match intOfOption level with
      | some n => .ok n
      | none => .error (("\"" ++ name ++ "\" option MUST be integer").toList)

/-- `TableOfContents.parse` for the default `min_level = 1`, `max_level = 3` (a `ValueError` becomes the
`block_error` token of `BaseDirective.parse_method`).  NOT exercised by the correspondence: with `renderer=None`
the plugin does not register `toc` (see the file header). -/
def tocParse (cfg : MdCfg) (d : DirMatch) (st : BlockState) : Except PyErr (List Json × Json) :=
  let selfMin : Int := 1
  let selfMax : Int := 3
  let title := parseTitle cfg d
  let options := parseOptions cfg d
  let r : Except Str (Int × Int × Bool) :=
    if options.isEmpty then .ok (selfMin, selfMax, false)
    else do
      let collapse := (optGet options "collapse").isSome
      let minLevel ← normalizeLevel options "min-level" selfMin
      let maxLevel ← normalizeLevel options "max-level" selfMax
      if minLevel < selfMin then throw "\"min-level\" option MUST be >= 1".toList
      if maxLevel > selfMax then throw "\"max-level\" option MUST be <= 3".toList
      if minLevel > maxLevel then throw "\"min-level\" option MUST be less than \"max-level\" option".toList
      pure (minLevel, maxLevel, collapse)
  match r with
  | .ok (lo, hi, collapse) =>
    .ok ([tok "toc" [("text", .str title),
      ("attrs", .obj [("min_level", .num lo), ("max_level", .num hi), ("collapse", .bool collapse)])]], st.env)
  | .error msg => .ok ([tok "block_error" [("raw", .str msg)]], st.env)

/-! ### _base.py: `BaseDirective.parse_method` -/

/-- `self._methods.get(_type)`: the class of the plugin registered for the directive name -/
def dirLookup (cfg : MdCfg) (syn : DirSyntax) (ty : Str) : Option String :=
  (cfg.directives.lookup syn.ruleName).bind (fun p => p.2.lookup (String.ofList ty))

/-- the registered plugin's `parse` (or the `block_error` token for an unknown directive): tokens and `env` -/
def dirTokens (cfg : MdCfg) (pm : ParseMethod) (d : DirMatch) (st : BlockState) : Except PyErr (List Json × Json) :=
  match dirLookup cfg d.syn (parseType cfg d) with
  | some "Admonition" => admonitionParse cfg pm d st
  | some "Image" => imageParse cfg d st
  | some "Figure" => figureParse cfg pm d st
  | some "Include" => includeParse st
  | some "TableOfContents" => tocParse cfg d st
  | some _ => .error .keyError                                 -- a plugin class that is not modelled
  | none => .ok ([tok "block_error" [("raw", .str (Py.slice d.a d.mt.start d.mt.stop))]], st.env)

/-- `BaseDirective.parse_method(block, m, state)`: the state afterwards (tokens appended, `env` of the children) -/
def dirParseMethod (cfg : MdCfg) (pm : ParseMethod) (d : DirMatch) (st : BlockState) : Except PyErr BlockState := do
  let (toks, env) ← dirTokens cfg pm d st
  pure { st with tokens := st.tokens ++ toks, env := env }

/-! ### _rst.py -/

/-- `RSTDirective.parse_directive` (the handler of the rule `rst_directive`) -/
def parseRstDirective (cfg : MdCfg) (pm : ParseMethod) (_mt : RxMatch) (st : BlockState) : PMRes :=
  match Py.matchAt (dirRx .rst) st.x st.cursor with
  | none => .ok (none, st)
  | some m2 => do
    let st' ← dirParseMethod cfg pm ⟨.rst, st.x.s, m2⟩ st
    pure (some m2.stop, st')

/-! ### _fenced.py -/

/-- `FencedDirective._process_directive(block, marker, start, state)`.  The closing-fence pattern is built from
`marker[0]` unescaped; for the markers of the regenerated configurations (back-tick, tilde, colon) that is the
literal character (`fenceEndRx`). -/
def processDirective (cfg : MdCfg) (pm : ParseMethod) (marker : Str) (start : Nat) (st : BlockState) : PMRes := do
  let c ← match marker with
    | c :: _ => pure c
    | [] => throw PyErr.indexError                        -- `marker[0]`
  let cursorStart := start + marker.length
  let (text, endPos) := match Py.search (fenceEndRx c marker.length) st.x cursorStart with
    | some m => (Py.slice st.x.s cursorStart m.start, m.stop)
    | none => (Py.slice st.x.s cursorStart st.x.s.size, st.cursorMax)
  let tx := Py.ctxOf text
  match Py.matchAt (dirRx .fenced) tx 0 with
  | none => pure (none, st)
  | some m => do
    let st' ← dirParseMethod cfg pm ⟨.fenced, tx.s, m⟩ st
    pure (some endPos, st')

/-- `FencedDirective.parse_directive` (the handler of the rule `fenced_directive`, custom markers) -/
def parseFencedDirective (cfg : MdCfg) (pm : ParseMethod) (mt : RxMatch) (st : BlockState) : PMRes :=
  processDirective cfg pm (grp cfg st mt "fenced_directive_mark") mt.start st

/-- `FencedDirective.parse_fenced_code`: with the default markers the directive REPLACES the handler of the core
rule `fenced_code` -/
def parseFencedCodeDir (cfg : MdCfg) (pm : ParseMethod) (mt : RxMatch) (st : BlockState) : PMRes :=
  let info := grp cfg st mt "fenced_3"
  if info.isEmpty || (Py.matchAt (dirNamedRx "mistune.directives._fenced._type_re") (Py.ctxOf info) 0).isNone then
    parseFencedCode cfg mt st
  else if st.depth ≥ cfg.maxNested then parseFencedCode cfg mt st
  else processDirective cfg pm (grp cfg st mt "fenced_2") mt.start st

/-- a `FencedDirective` with the default markers is installed: `_methods["fenced_code"]` is rebound -/
def fencedCodeRebound (cfg : MdCfg) : Bool :=
  match cfg.directives.lookup "fenced_directive" with
  | some p => p.1 == "`~"
  | none => false

end Blk
end Model
end Mistune
