/-
Handlers of the inline rules that mistune's plugins register (plugins/formatting.py, url.py, math.py, speedup.py,
ruby.py, spoiler.py).  Same conventions as `Mistune.Model.InlineBase`: one Lean function per Python function, a
handler returns `HRes` (`Optional[int]` and the state after the call), children are rendered through `Rec.render`.

What a plugin does besides `md.inline.register(name, pattern, func, before=…)`:
* `register` puts `name` into `inline.rules` (position: `before`) and `pattern` into `inline.specification`; both
  are regenerated data of `MdCfg` (`cfg.inlineRules`, `cfg.inlineSpec`), and `_methods[name] = func` is the dispatch
  line of `Inl.parseMethod`, which binds a handler only when its rule is in `cfg.inlineRules`;
* `md.renderer.register(...)` happens only for the HTML renderer and does not touch the token tree;
* `speedup` reads `md.inline.rules` while it builds the pattern of `text` (`"url_link" in md.inline.rules`): the
  resulting pattern string is regenerated per configuration (`cfg.inlineSpec` of `text`), nothing to model;
* `spoiler` re-registers the BLOCK rule `block_quote` with `parse_block_spoiler` (pattern `None`: the specification
  and the rule lists stay as they are): see `Mistune.Model.BlockPluginsA`.
No plugin in this file installs a hook (`before_parse_hooks`, `before_render_hooks`, `after_render_hooks`).
-/
import Mistune.Model.InlineBase
namespace Mistune
namespace Model
namespace Inl

/-- `children = inline.render(new_state)` from a handler whose state is `st`: the children's tokens and `st` as it
is afterwards (`new_state = state.copy()` shares `state.env`, the same dict object, and the inline `footnote` rule
writes it: `Rec.renderIn`) -/
def renderChildren (R : Rec) (child st : InlineState) : Except PyErr (Array Json × InlineState) := R.renderIn child st

/-! ### plugins/formatting.py -/

/-- `_parse_to_end(inline, m, state, tok_type, end_pattern)`.  `end_pos - 2 ≥ pos + 1`: every end pattern consumes
the two closing characters and at least one character before them. -/
def parseToEnd (R : Rec) (tokType : String) (endPattern : Rx) (m : RxMatch) (st : InlineState) : HRes := do
  let pos := m.stop
  match endPattern.search st.x pos with
  | none => pure (none, st)
  | some m1 =>
    let endPos := m1.stop
    let text := st.slice pos (endPos - 2)
    let newState := st.copy.setSrc text
    let (children, st) ← renderChildren R newState st
    pure (some endPos, st.appendToken (tok tokType [("children", .arr children.toList)]))

/-- `parse_strikethrough` -/
def parseStrikethrough (cfg : MdCfg) (R : Rec) (m : RxMatch) (st : InlineState) : HRes :=
  parseToEnd R "strikethrough" (cfg.rx "mistune.plugins.formatting._STRIKE_END") m st

/-- `parse_mark` -/
def parseMark (cfg : MdCfg) (R : Rec) (m : RxMatch) (st : InlineState) : HRes :=
  parseToEnd R "mark" (cfg.rx "mistune.plugins.formatting._MARK_END") m st

/-- `parse_insert` -/
def parseInsert (cfg : MdCfg) (R : Rec) (m : RxMatch) (st : InlineState) : HRes :=
  parseToEnd R "insert" (cfg.rx "mistune.plugins.formatting._INSERT_END") m st

/-- the text computation of `_parse_script`: `text[1:-1].replace("\\ ", " ")` -/
def scriptText (text : Str) : Str := Py.replaceAll ['\\', ' '] [' '] (text.drop 1).dropLast

/-- `_parse_script(inline, m, state, tok_type)` -/
def parseScript (R : Rec) (tokType : String) (m : RxMatch) (st : InlineState) : HRes := do
  let text := group0 st m
  let newState := st.copy.setSrc (scriptText text)
  let (children, st) ← renderChildren R newState st
  pure (some m.stop, st.appendToken (tok tokType [("children", .arr children.toList)]))

/-- `parse_superscript` -/
def parseSuperscript (R : Rec) (m : RxMatch) (st : InlineState) : HRes := parseScript R "superscript" m st

/-- `parse_subscript` -/
def parseSubscript (R : Rec) (m : RxMatch) (st : InlineState) : HRes := parseScript R "subscript" m st

/-! ### plugins/url.py -/

/-- `parse_url_link` -/
def parseUrlLink (cfg : MdCfg) (m : RxMatch) (st : InlineState) : HRes := do
  let text := group0 st m
  let pos := m.stop
  if st.inLink then pure (some pos, ← processTextC cfg text st)
  else
    let u ← escapeUrl cfg text
    pure (some pos, st.appendToken (tok "link" [("children", .arr [textTok text]), ("attrs", .obj [("url", .str u)])]))

/-! ### plugins/math.py (inline part) -/

/-- `parse_inline_math` -/
def parseInlineMath (cfg : MdCfg) (m : RxMatch) (st : InlineState) : HRes :=
  let text := groupNamed cfg st.x.s m "math_text"
  .ok (some m.stop, st.appendToken (tok "inline_math" [("raw", .str text)]))

/-! ### plugins/speedup.py (inline part) -/

/-- `speedup.parse_text`: `HARD_LINEBREAK_RE.sub("\n", m.group(0))`, `inline.process_text` (the method that the
plugin `abbr` replaces, `processTextC`) -/
def parseText (cfg : MdCfg) (m : RxMatch) (st : InlineState) : HRes := do
  let text := group0 st m
  let text := Py.reSub (cfg.rx "mistune.plugins.speedup.HARD_LINEBREAK_RE") (fun _ _ => ['\n']) text
  pure (some m.stop, ← processTextC cfg text st)

/-! ### plugins/spoiler.py (inline part) -/

/-- `parse_inline_spoiler` -/
def parseInlineSpoiler (cfg : MdCfg) (R : Rec) (m : RxMatch) (st : InlineState) : HRes := do
  let text := groupNamed cfg st.x.s m "spoiler_text"
  let newState := st.copy.setSrc text
  let (children, st) ← renderChildren R newState st
  pure (some m.stop, st.appendToken (tok "inline_spoiler" [("children", .arr children.toList)]))

/-! ### plugins/ruby.py -/

/-- `_ruby_re = re.compile(RUBY_PATTERN)`: the module-level object when the generated table has it, else the
pattern of the rule `ruby` (the same string `RUBY_PATTERN`, same flags) -/
def rubyRe (cfg : MdCfg) : Rx :=
  match cfg.named.lookup "mistune.plugins.ruby._ruby_re" with
  | some r => r
  | none => (cfg.inlineSpec.lookup "ruby").getD .fail

/-- the token list of one bracket group: `m.group(0)[1:-2].split(")")`, then `rb, rt = item.split("(")` for every
item (a `ValueError` when an item does not split in two) -/
def rubyTokens (g0 : Str) : Except PyErr (List Json) :=
  let text := ((g0.drop 1).dropLast).dropLast
  (Py.splitOn [')'] text).mapM (fun item =>
    match Py.splitOn ['('] item with
    | [rb, rt] => .ok (tok "ruby" [("raw", .str rb), ("attrs", .obj [("rt", .str rt)])])
    | _ => .error .valueError)

/-- the `while True` loop of `parse_ruby`: adjacent groups are emitted as they are passed; returns the tokens of the
last group, its end and the state -/
def rubyLoop (cfg : MdCfg) : Nat → RxMatch → InlineState → Except PyErr (List Json × Nat × InlineState)
  | 0, _, _ => .error .noProgress
  | fuel + 1, m, st => do
    let tokens ← rubyTokens (group0 st m)
    let endPos := m.stop
    match (rubyRe cfg).matchAt st.x endPos with
    | none => pure (tokens, endPos, st)
    | some next => rubyLoop cfg fuel next (tokens.foldl (fun s t => s.appendToken t) st)

/-- `_parse_ruby_link(inline, state, pos, tokens)` -/
def parseRubyLink (cfg : MdCfg) (st : InlineState) (pos : Nat) (tokens : List Json) : HRes := do
  let c ← pyGetItem st.x.s pos
  if c == '(' then
    -- standard link [text](<url> "title")
    match ← parseLinkH cfg st.x (pos + 1) with
    | some (attrs, linkPos) =>
      if linkPos != 0 then
        pure (some linkPos, st.appendToken (tok "link" [("children", .arr tokens), ("attrs", attrs)]))
      else pure (none, st)
    | none => pure (none, st)
  else if c == '[' then
    -- standard ref link [text][label]
    match parseLinkLabel cfg st.x (pos + 1) with
    | some (label, linkPos) =>
      if !label.isEmpty && linkPos != 0 then
        -- `ref_links = state.env.get("ref_links") or {}`; `env = ref_links.get(key)`
        let key := unikeyPy label
        let env? : Option Json := match st.env.get? "ref_links" with
          | some refLinks => if refLinks.truthy then refLinks.get? (String.ofList key) else none
          | none => none
        match env? with
        | some env =>
          if env.truthy then
            let url ← match env.get? "url" with
              | some u => pure u
              | none => .error .keyError
            let title := (env.get? "title").getD .null
            let attrs := Json.obj [("url", url), ("title", title)]
            pure (some linkPos, st.appendToken (tok "link" [("children", .arr tokens), ("attrs", attrs)]))
          else
            let st := tokens.foldl (fun s t => s.appendToken t) st
            pure (some linkPos, st.appendToken (textTok (['['] ++ label ++ [']'])))
        | none =>
          let st := tokens.foldl (fun s t => s.appendToken t) st
          pure (some linkPos, st.appendToken (textTok (['['] ++ label ++ [']'])))
      else pure (none, st)
    | none => pure (none, st)
  else pure (none, st)

/-- `parse_ruby` -/
def parseRuby (cfg : MdCfg) (m : RxMatch) (st : InlineState) : HRes := do
  let (tokens, endPos, st) ← rubyLoop cfg (st.len + 1) m st
  -- repeat link logic
  let (linkPos, st) ← if endPos < st.len then parseRubyLink cfg st endPos tokens else pure (none, st)
  if posTruthy linkPos then pure (linkPos, st)
  else pure (some endPos, tokens.foldl (fun s t => s.appendToken t) st)

end Inl
end Model
end Mistune
