/-
The hooks that plugins add to `Markdown` (`before_render_hooks`, `after_render_hooks`) and the second pass
(`Markdown._iter_render`) with the shared `env` threaded through the inline calls.

* `task_lists_hook` (plugins/task_lists.py, a `before_render_hooks` entry): rewrites the block tokens in place.
* `md_footnotes_hook` (plugins/footnotes.py, an `after_render_hooks` entry): acts on the RESULT of `render_state`
  (with `renderer=None` the token list) and on the state: appends the `footnotes` token.
* `iterRenderEnv`: `_iter_render` where each call `self.inline(text, state.env)` may write `state.env`
  (the `footnote` handler keeps the list of referenced notes there), so the calls are chained in document order.

Which hooks a configuration has is data (`MdCfg.beforeRenderHooks` …, regenerated from the live `Markdown` object, by
function name); a hook this model has no transcription of makes `parseDoc` fail with `.keyError` (as an unmodelled
rule does).
-/
import Mistune.Model.BlockDispatch
import Mistune.Model.Inline
import Mistune.SecondPass
namespace Mistune
namespace Model
namespace Hooks

/-! ### `Markdown._iter_render` with `env` threaded -/

/-- `_iter_render(tokens, state)`: the tokens and `state.env` afterwards (a token with `children` has its children
processed; otherwise a token with `text` loses it and gets `children` = the inline tokens of the stripped text).
Fuel bounds the depth of the tree. -/
def iterRenderEnv (cfg : MdCfg) : Nat → Json → List Json → Except PyErr (List Json × Json)
  | 0, _, _ => .error .depthExceeded
  | fuel + 1, env, toks =>
    toks.foldlM (fun (acc : List Json × Json) t =>
      let (out, env) := acc
      match t.get? "children" with
      | some (.arr cs) => do
        let (cs, env) ← iterRenderEnv cfg fuel env cs
        pure (out ++ [t.set "children" (.arr cs)], env)
      | _ =>
        match t.get? "text" with
        | some (.str text) => do
          -- avoid striping emsp or other unicode spaces
          let (cs, env) ← inlineParseEnv cfg env (Py.stripC " \r\n\t\x0c".toList text)
          pure (out ++ [(t.erase "text").set "children" (.arr cs)], env)
        | _ => pure (out ++ [t], env)) ([], env)

/-- `Markdown.render_state(state)` with `renderer=None`: `list(self._iter_render(state.tokens, state))` -/
def renderState (cfg : MdCfg) (toks : List Json) (env : Json) : Except PyErr (List Json × Json) :=
  iterRenderEnv cfg 64 env toks

/-! ### plugins/task_lists.py -/

/-- `_rewrite_list_item(tok)` -/
def rewriteListItem (cfg : MdCfg) (t : Json) : Except PyErr Json := do
  let children ← Blk.childrenOf t
  match children with
  | [] => pure t
  | firstChild :: rest =>
    -- `text = first_child.get("text", "")`
    let text : Str := match firstChild.get? "text" with
      | some (.str s) => s
      | _ => []
    let x := Py.ctxOf text
    match Py.matchAt (cfg.rx "mistune.plugins.task_lists.TASK_LIST_ITEM") x 0 with
    | none => pure t
    | some m =>
      let mark := (Py.groupStr x.s m 1).getD []
      let firstChild := firstChild.set "text" (.str (Py.slice x.s m.stop x.s.size))
      let t := t.set "children" (.arr (firstChild :: rest))
      let t := t.set "type" (Json.s "task_list_item")
      pure (t.set "attrs" (.obj [("checked", .bool (mark != "[ ]".toList))]))

/-- `_rewrite_all_list_items(tokens)`. Fuel bounds the depth of the tree. -/
def rewriteAllListItems (cfg : MdCfg) : Nat → List Json → Except PyErr (List Json)
  | 0, _ => .error .depthExceeded
  | fuel + 1, toks =>
    toks.mapM (fun t => do
      let t ← if (← Blk.typeOf t) == "list_item" then rewriteListItem cfg t else pure t
      match t.get? "children" with
      | some (.arr cs) =>
        let cs ← rewriteAllListItems cfg fuel cs
        pure (t.set "children" (.arr cs))
      | some _ => throw .typeError
      | none => pure t)

/-- `task_lists_hook(md, state)`: the new `state.tokens` -/
def taskListsHook (cfg : MdCfg) (toks : List Json) : Except PyErr (List Json) := rewriteAllListItems cfg 64 toks

/-! ### plugins/footnotes.py -/

/-- `re.compile(r"^ {" + str(spaces) + r",}", flags=re.M)` of `parse_footnote_item` (same shape as the generated
instances `rt:fn_indent[…]`) -/
def fnIndentRx (spaces : Nat) : Rx := .seq .bol (.rep (.cls false [.chr 32]) spaces none true)

/-- the `for second_line in lines[1:]: if second_line: break` loop: the first non-empty line after the first one
(when there is none the variable ends as `None` or as an empty string, both falsy) -/
def secondLine (lines : List Str) : Option Str := (lines.drop 1).find? (fun l => !l.isEmpty)

/-- `parse_footnote_item(block, key, index, state)` -/
def parseFootnoteItem (cfg : MdCfg) (key : Str) (index : Nat) (env : Json) : Except PyErr Json := do
  let ref := (env.get? "ref_footnotes").getD .null
  if !ref.truthy then throw .valueError                     -- `raise ValueError("Missing 'ref_footnotes'.")`
  let text ← match ← Blk.getE ref (String.ofList key) with
    | .str s => pure s
    | _ => throw .typeError
  let lines := Py.splitLines text
  let children : List Json := match secondLine lines with
    | some second =>
      let spaces := second.length - (Py.lstrip second).length
      let text := Py.strip (Py.reSub (fnIndentRx spaces) (fun _ _ => []) text)
      let items := Py.reSplit (cfg.rx "mistune.plugins.footnotes._PARAGRAPH_SPLIT") text
      items.map (fun s => tok "paragraph" [("text", .str s)])
    | none => [tok "paragraph" [("text", .str (Py.strip text))]]
  pure (tok "footnote_item" [("children", .arr children), ("attrs", .obj [("key", .str key), ("index", .num index)])])

/-- `[parse_footnote_item(md.block, k, i + 1, state) for i, k in enumerate(notes)]` -/
def footnoteItems (cfg : MdCfg) (env : Json) : List Json → Nat → Except PyErr (List Json)
  | [], _ => .ok []
  | k :: rest, i => do
    let key ← match k with
      | .str s => pure s
      | _ => throw .typeError
    let item ← parseFootnoteItem cfg key (i + 1) env
    let items ← footnoteItems cfg env rest (i + 1)
    pure (item :: items)

/-- `md_footnotes_hook(md, result, state)` with `renderer=None`: `result` is the token list.  The notes are rendered
in a FRESH `BlockState()` whose `env` only receives the document's `ref_links`: inside the text of a note
`env["ref_footnotes"]` is absent, so a `[^key]` there is plain text. -/
def mdFootnotesHook (cfg : MdCfg) (result : List Json) (env : Json) : Except PyErr (List Json) := do
  let notes := (env.get? "footnotes").getD .null
  if !notes.truthy then return result
  let notes ← match notes with
    | .arr l => pure l
    | _ => throw .typeError
  let children ← footnoteItems cfg env notes 0
  let refLinks := (env.get? "ref_links").getD .null
  -- `state = BlockState()`; `if ref_links: state.env["ref_links"] = ref_links`
  let env2 := if refLinks.truthy then Json.obj [("ref_links", refLinks)] else Json.obj [("ref_links", .obj [])]
  let (output, _) ← renderState cfg [tok "footnotes" [("children", .arr children)]] env2
  pure (result ++ output)

/-! ### the hook lists -/

/-- `for hook2 in self.before_render_hooks: hook2(self, state)`; the tokens afterwards -/
def beforeRender (cfg : MdCfg) : List String → List Json → Except PyErr (List Json)
  | [], toks => .ok toks
  | h :: rest, toks => do
    let toks ← if h == "task_lists_hook" then taskListsHook cfg toks else throw .keyError
    beforeRender cfg rest toks

/-- `for hook3 in self.after_render_hooks: result = hook3(self, result, state)` -/
def afterRender (cfg : MdCfg) (env : Json) : List String → List Json → Except PyErr (List Json)
  | [], result => .ok result
  | h :: rest, result => do
    let result ← if h == "md_footnotes_hook" then mdFootnotesHook cfg result env else throw .keyError
    afterRender cfg env rest result

end Hooks
end Model
end Mistune
