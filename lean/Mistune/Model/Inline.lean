/-
Model of `InlineParser` (inline_parser.py and the inline part of helpers.py).
PLACEHOLDER: to be replaced by the transcription.
-/
import Mistune.Model.Base
namespace Mistune
namespace Model

/-- `InlineParser.__call__(s, env)`: the list of inline tokens -/
def inlineParse (cfg : MdCfg) (env : Json) (src : Str) : Except PyErr (List Json) :=
  .ok [tok "text" [("raw", .str src)]]

end Model
end Mistune
