/-
Model of `InlineParser` (inline_parser.py): the dispatch `_methods[name]`, the scanning loop `parse`, `render` and
`__call__`.  `InlineState`, the helpers and the handlers of the core rules (and of the inline `footnote` rule) are in
`Mistune.Model.InlineBase`, the handlers of the other plugins' inline rules in `Mistune.Model.InlinePlugins`
(conventions: see `InlineBase`).
-/
import Mistune.Model.InlineBase
import Mistune.Model.InlinePlugins
namespace Mistune
namespace Model
namespace Inl

/-- the rules that have a modelled handler (`parse_<name>` methods of `InlineParser`, registered plugin functions) -/
def handlerNames : List String :=
  ["escape", "codespan", "emphasis", "link", "auto_link", "auto_email", "inline_html", "linebreak", "softbreak",
   "footnote",
   -- plugins formatting, url, math, speedup, ruby, spoiler (`Mistune.Model.InlinePlugins`)
   "strikethrough", "mark", "insert", "superscript", "subscript", "url_link", "inline_math", "text", "ruby",
   "inline_spoiler"]

/-- `self._methods[name](m, state)`: `_methods` has exactly the names in `self.rules`; a rule without a modelled
handler is a `KeyError` as well. -/
def parseMethod (cfg : MdCfg) (R : Rec) (name : String) (m : RxMatch) (st : InlineState) : HRes :=
  if !cfg.inlineRules.contains name then .error .keyError
  else match name with
    | "escape" => parseEscape cfg m st
    | "codespan" => parseCodespan m st
    | "emphasis" => parseEmphasis cfg R m st
    | "link" => parseLink cfg R m st
    | "auto_link" => parseAutoLink cfg m st
    | "auto_email" => parseAutoEmail cfg m st
    | "inline_html" => parseInlineHtml m st
    | "linebreak" => parseLinebreak m st
    | "softbreak" => parseSoftbreak m st
    | "footnote" => parseInlineFootnote cfg m st
    -- rules registered by the plugins formatting, url, math, speedup, ruby, spoiler (`Mistune.Model.InlinePlugins`)
    | "strikethrough" => parseStrikethrough cfg R m st
    | "mark" => parseMark cfg R m st
    | "insert" => parseInsert cfg R m st
    | "superscript" => parseSuperscript R m st
    | "subscript" => parseSubscript R m st
    | "url_link" => parseUrlLink cfg m st
    | "inline_math" => parseInlineMath cfg m st
    | "text" => parseText cfg m st
    | "ruby" => parseRuby cfg m st
    | "inline_spoiler" => parseInlineSpoiler cfg R m st
    | _ => .error .keyError

/-- the `while pos < len(state.src)` loop of `InlineParser.parse`: final `pos` and state -/
def parseLoop (cfg : MdCfg) (R : Rec) (sc : List (String × Rx)) :
    Nat → Nat → InlineState → Except PyErr (Nat × InlineState)
  | 0, _, _ => .error .noProgress
  | fuel + 1, pos, st =>
    if pos < st.len then
      match scan st.x sc pos with
      | none => .ok (pos, st)
      | some (name, m) => do
        let endPos := m.start
        let st ← if endPos > pos then processTextC cfg (st.slice pos endPos) st else pure st
        let (newPos, st) ← parseMethod cfg R name m st
        match newPos with
        | some p =>
          if p != 0 then
            if p ≤ pos then .error .noProgress else parseLoop cfg R sc fuel p st
          else
            -- move cursor 1 character forward
            let pos := endPos + 1
            parseLoop cfg R sc fuel pos (← processTextC cfg (st.slice endPos pos) st)
        | none =>
          let pos := endPos + 1
          parseLoop cfg R sc fuel pos (← processTextC cfg (st.slice endPos pos) st)
    else .ok (pos, st)

/-- `InlineParser.parse(state)` -/
def parse (cfg : MdCfg) (R : Rec) (st : InlineState) : Except PyErr InlineState := do
  let sc ← compileSc cfg cfg.inlineRules
  let (pos, st) ← parseLoop cfg R sc (st.len + 1) 0 st
  if pos == 0 then
    -- special case, just pure text
    processTextC cfg st.src st
  else if pos < st.len then processTextC cfg (st.slice pos st.len) st
  else pure st

/-- `InlineParser.render(state)` -/
def render (cfg : MdCfg) (R : Rec) (st : InlineState) : Except PyErr (Array Json) := do
  let st ← parse cfg R st
  pure st.tokens

/-- `InlineParser.render(state)`, the final state -/
def renderSt (cfg : MdCfg) (R : Rec) (st : InlineState) : Except PyErr InlineState := parse cfg R st

/-- the recursive entry points with nesting budget `fuel`: each `render` of children and each handler call from
`precedence_scan` consumes one unit -/
def recAt (cfg : MdCfg) : Nat → Rec
  | 0 => { render := fun _ => .error .depthExceeded, renderSt := fun _ => .error .depthExceeded,
           call := fun _ _ _ => .error .depthExceeded }
  | fuel + 1 =>
    let R := recAt cfg fuel
    { render := fun st => render cfg R st, renderSt := fun st => renderSt cfg R st,
      call := fun name m st => parseMethod cfg R name m st }

/-- nesting budget of `inlineParse` -/
def inlineFuel : Nat := 200

/-- `InlineParser.__call__(s, env)`: the list of inline tokens, and `env` after the call (the caller's dict, which
the `footnote` handler writes) -/
def inlineParseEnv (cfg : MdCfg) (env : Json) (src : Str) : Except PyErr (List Json × Json) := do
  -- `InlineParser.__init__` builds `_methods` for every rule; a rule this model has no handler for (plugins) is
  -- reported at once, whether or not it would fire on `src`
  if cfg.inlineRules.any (fun n => !handlerNames.contains n) then throw .keyError
  let st := (InlineState.new env).setSrc src
  let st ← renderSt cfg (recAt cfg inlineFuel) st
  pure (st.tokens.toList, st.env)

/-- `InlineParser.__call__(s, env)`: the list of inline tokens -/
def inlineParse (cfg : MdCfg) (env : Json) (src : Str) : Except PyErr (List Json) := do
  let (toks, _) ← inlineParseEnv cfg env src
  pure toks

end Inl

def inlineParse (cfg : MdCfg) (env : Json) (src : Str) : Except PyErr (List Json) := Inl.inlineParse cfg env src

def inlineParseEnv (cfg : MdCfg) (env : Json) (src : Str) : Except PyErr (List Json × Json) := Inl.inlineParseEnv cfg env src

end Model
end Mistune
