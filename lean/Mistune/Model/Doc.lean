/-
`Markdown.parse` with `renderer=None`: normalise, block pass, inline pass (`_iter_render`).
-/
import Mistune.Model.Block
import Mistune.Model.Inline
import Mistune.SecondPass
namespace Mistune
namespace Model

/-- `Markdown._iter_render` with the concrete inline parser: the generic second pass of `Mistune.SecondPass`
(about which `iterRender_shape` / `iterRender_length` are proved) instantiated. -/
def iterRender (cfg : MdCfg) (env : Json) (fuel : Nat) (toks : List Json) : Except PyErr (List Json) :=
  iterRenderG (inlineParse cfg env) fuel toks

/-- `md(s)` with `renderer=None` -/
def parseDoc (cfg : MdCfg) (s : Str) : Except PyErr (List Json) := do
  let (toks, env) ← blockParse cfg (norm s)
  iterRender cfg env 64 toks

end Model
end Mistune
