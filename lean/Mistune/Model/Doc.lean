/-
`Markdown.parse` with `renderer=None`: normalise, block pass, inline pass (`_iter_render`).
-/
import Mistune.Model.Hooks
namespace Mistune
namespace Model

/-- `Markdown._iter_render` with the concrete inline parser: the generic second pass of `Mistune.SecondPass`
(about which `iterRender_shape` / `iterRender_length` are proved) instantiated. -/
def iterRender (cfg : MdCfg) (env : Json) (fuel : Nat) (toks : List Json) : Except PyErr (List Json) :=
  iterRenderG (inlineParse cfg env) fuel toks

/-- `md(s)` with `renderer=None` (`Markdown.parse`): normalise, `before_parse_hooks` (none is modelled), block pass,
`before_render_hooks` on the block tokens, `render_state` (the inline pass), `after_render_hooks` on the result.
The inline pass of a configuration whose inline rules write `env` (`footnote`) threads `env` through the calls
(`Hooks.iterRenderEnv`); the others use `iterRender` (nothing writes `env` there). -/
def parseDoc (cfg : MdCfg) (s : Str) : Except PyErr (List Json) := do
  if !cfg.beforeParseHooks.isEmpty then throw .keyError
  let (toks, env) ← blockParse cfg (norm s)
  let toks ← Hooks.beforeRender cfg cfg.beforeRenderHooks toks
  let (result, env) ← if cfg.inlineRules.contains "footnote" then Hooks.renderState cfg toks env
    else do pure (← iterRender cfg env 64 toks, env)
  Hooks.afterRender cfg env cfg.afterRenderHooks result

end Model
end Mistune
