/-
`Markdown.parse` with `renderer=None`: normalise, block pass, inline pass (`_iter_render`).
-/
import Mistune.Model.Block
import Mistune.Model.Inline
namespace Mistune
namespace Model

/-- `Markdown._iter_render`: children first, else `text` is replaced by inline `children`. Fuel bounds the tree depth. -/
def iterRender (cfg : MdCfg) (env : Json) : Nat → List Json → Except PyErr (List Json)
  | 0, _ => .error .depthExceeded
  | _ + 1, [] => .ok []
  | fuel + 1, t :: rest => do
    let t' ← match t.get? "children" with
      | some (.arr cs) => do
        let cs' ← iterRender cfg env fuel cs
        pure (t.set "children" (.arr cs'))
      | _ =>
        match t.get? "text" with
        | some (.str text) => do
          let cs ← inlineParse cfg env (Py.stripC " \r\n\t\x0c".toList text)
          pure ((t.erase "text").set "children" (.arr cs))
        | _ => pure t
    let rest' ← iterRender cfg env (fuel + 1 - 1 + 1) rest
    pure (t' :: rest')

/-- `md(s)` with `renderer=None` -/
def parseDoc (cfg : MdCfg) (s : Str) : Except PyErr (List Json) := do
  let (toks, env) ← blockParse cfg (norm s)
  iterRender cfg env 64 toks

end Model
end Mistune
