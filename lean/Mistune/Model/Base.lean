/-
Concrete model of mistune's parser: shared definitions.

`MdCfg` is the *configuration object* (`Markdown` + `BlockParser` + `InlineParser`): everything in it is
REGENERATED from the working tree (rule tables, specification regexes, module-level regexes, tag lists);
the handlers in `Mistune.Model.Block` / `Mistune.Model.Inline` are hand transcriptions of the Python
handlers and are checked by the correspondence run on every check.
-/
import Mistune.Rx
import Mistune.RxWire
import Mistune.Py
import Mistune.Json
import Mistune.Scanner
import Mistune.Generated.Regex
import Mistune.Generated.Consts
namespace Mistune
namespace Model
open Mistune.Generated

structure MdCfg where
  name : String
  blockSpec : List (String × Rx)        -- `block.specification`
  blockRules : List String              -- `block.rules`
  quoteRules : List String              -- `block.block_quote_rules`
  listRules : List String               -- `block.list_rules`
  inlineSpec : List (String × Rx)       -- `inline.specification`
  inlineRules : List String             -- `inline.rules`
  named : List (String × Rx)            -- module-level / class-level compiled patterns and run-time constructions
  groups : List (String × Nat)          -- named group -> index within its regex
  maxNested : Nat
  hardWrap : Bool
  blockTags : List String
  preTags : List String
  beforeParseHooks : List String := []   -- `md.before_parse_hooks`, by function name
  beforeRenderHooks : List String := []  -- `md.before_render_hooks`
  afterRenderHooks : List String := []   -- `md.after_render_hooks`
  /-- directives registered with `renderer=None`: (parser rule name, fence markers, [(directive name, plugin class)]) -/
  directives : List (String × String × List (String × String)) := []

def ofRuleCfg (c : RuleCfg) : MdCfg :=
  { name := c.name, blockSpec := c.blockSpec, blockRules := c.block.map (·.1), quoteRules := c.quote.map (·.1),
    listRules := c.list.map (·.1), inlineSpec := c.inlineSpec, inlineRules := c.inline.map (·.1),
    named := namedRx, groups := groupIndex, maxNested := c.maxNested, hardWrap := c.hardWrap,
    blockTags := blockTags, preTags := preTags,
    beforeParseHooks := c.beforeParseHooks, beforeRenderHooks := c.beforeRenderHooks,
    afterRenderHooks := c.afterRenderHooks, directives := c.directives }

/-- a named module-level pattern (`.fail` if the working tree no longer has it: every use then declines) -/
def MdCfg.rx (cfg : MdCfg) (name : String) : Rx := (cfg.named.lookup name).getD .fail

/-- `compile_sc(rules)`: the rule table for a list of rule names -/
def MdCfg.blockSc (cfg : MdCfg) (rules : List String) : List (String × Rx) :=
  rules.filterMap (fun n => (cfg.blockSpec.lookup n).map (fun r => (n, r)))

def MdCfg.inlineSc (cfg : MdCfg) (rules : List String) : List (String × Rx) :=
  rules.filterMap (fun n => (cfg.inlineSpec.lookup n).map (fun r => (n, r)))

/-- `m.group("name")` -/
def groupNamed (cfg : MdCfg) (a : Array Char) (mt : RxMatch) (name : String) : Str :=
  match cfg.groups.lookup name with
  | some idx => (Py.groupStr a mt idx).getD []
  | none => []

def findCfg (name : String) : Option MdCfg := (allCfgs.find? (fun c => c.name == name)).map ofRuleCfg

end Model
end Mistune
