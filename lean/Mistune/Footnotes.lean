/-
Model of the footnote numbering machine of `plugins/footnotes.py`:
`parse_inline_footnote` (one call per `[^key]` occurrence, in inline-processing order = document order) and
the item list built by `md_footnotes_hook`.

State = `env["footnotes"]` (the list `notes`); `defs` = the keys of `env["ref_footnotes"]`, complete before
the inline pass starts (two-pass structure of `Markdown.parse`).
-/
import Mistune.Util
namespace Mistune

/-- `parse_inline_footnote` on an already normalised key: new `notes` and the emitted token
(`some index` = `footnote_ref` with that index, `none` = literal text). -/
def fnRef (defs : List Str) (notes : List Str) (key : Str) : List Str × Option Nat :=
  if defs.contains key then
    let notes' := if notes.contains key then notes else notes ++ [key]
    (notes', some (notes'.idxOf key + 1))
  else (notes, none)

/-- all references of a document, in order; returns final `notes` and what each reference became -/
def fnRun (defs : List Str) : List Str → List Str → List Str × List (Str × Option Nat)
  | notes, [] => (notes, [])
  | notes, k :: ks =>
    let r := fnRef defs notes k
    let rest := fnRun defs r.1 ks
    (rest.1, (k, r.2) :: rest.2)

/-- `md_footnotes_hook`: items `(key, index)` of the footnotes section; no section when `notes` is empty. -/
def fnItems (notes : List Str) : List (Str × Nat) := notes.zipIdx.map (fun p => (p.1, p.2 + 1))

/-- reference list de-duplicated keeping first occurrences (specification of "order of first reference") -/
def firstOccs : List Str → List Str → List Str
  | _, [] => []
  | seen, k :: ks => if seen.contains k then firstOccs seen ks else k :: firstOccs (k :: seen) ks

end Mistune
