/-
Wire format of `Rx` (prefix tokens) so that the harness can send run-time regexes and whole rule tables to
the driver; `Rx.parseWire` is its reader.  Also helpers to run a search on a `Str` subject.
-/
import Mistune.Rx
import Mistune.Unicode
namespace Mistune

def parseItem (tok : String) : Option ClsItem :=
  match tok.toList with
  | 'c' :: r => (String.ofList r).toNat?.map ClsItem.chr
  | 'r' :: r =>
    match (String.ofList r).splitOn "-" with
    | [a, b] => do pure (ClsItem.range (← a.toNat?) (← b.toNat?))
    | _ => none
  | ['k', n, k] =>
    let neg := n == '1'
    match k with
    | 'd' => some (.cat neg .digit)
    | 's' => some (.cat neg .space)
    | 'w' => some (.cat neg .word)
    | _ => none
  | _ => none

def parseItems : Nat → List String → Option (List ClsItem × List String)
  | 0, ts => some ([], ts)
  | n + 1, t :: ts => do
    let it ← parseItem t
    let (r, rest) ← parseItems n ts
    pure (it :: r, rest)
  | _ + 1, [] => none

/-- prefix-token reader; fuel = number of tokens -/
def parseRx : Nat → List String → Option (Rx × List String)
  | 0, _ => none
  | fuel + 1, ts =>
    match ts with
    | "eps" :: r => some (.eps, r)
    | "fail" :: r => some (.fail, r)
    | "bos" :: r => some (.bos, r)
    | "bol" :: r => some (.bol, r)
    | "eos" :: r => some (.eos, r)
    | "eol" :: r => some (.eol, r)
    | "eosStrict" :: r => some (.eosStrict, r)
    | "wordb" :: r => some (.wordb, r)
    | "nwordb" :: r => some (.nwordb, r)
    | "any" :: d :: r => some (.any (d == "1"), r)
    | "cls" :: neg :: n :: r => do
      let (items, rest) ← parseItems (← n.toNat?) r
      pure (.cls (neg == "1") items, rest)
    | "seq" :: r => do
      let (a, r1) ← parseRx fuel r
      let (b, r2) ← parseRx fuel r1
      pure (.seq a b, r2)
    | "alt" :: r => do
      let (a, r1) ← parseRx fuel r
      let (b, r2) ← parseRx fuel r1
      pure (.alt a b, r2)
    | "rep" :: lo :: hi :: g :: r => do
      let (a, r1) ← parseRx fuel r
      pure (.rep a (← lo.toNat?) (if hi == "-" then none else hi.toNat?) (g == "1"), r1)
    | "grp" :: idx :: r => do
      let (a, r1) ← parseRx fuel r
      pure (.grp (← idx.toNat?) a, r1)
    | "backref" :: idx :: r => do pure (.backref (← idx.toNat?), r)
    | "look" :: ah :: ng :: w :: r => do
      let (a, r1) ← parseRx fuel r
      pure (.look (ah == "1") (ng == "1") (← w.toNat?) a, r1)
    | _ => none

def Rx.parseWire (s : String) : Option Rx :=
  let ts := (s.splitOn " ").filter (· ≠ "")
  match parseRx (ts.length + 1) ts with
  | some (r, []) => some r
  | _ => none

def mkCtx (s : Str) (endpos : Nat) : RxCtx :=
  let a := s.toArray
  { s := a, n := min endpos a.size, t := pyCats }

end Mistune
