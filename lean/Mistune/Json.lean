/-
Python values that occur in mistune's token trees and `env` (a small JSON), tokens as dictionaries
(association lists, like the Python dicts they model), and a canonical text form used to compare model and
implementation.
-/
import Mistune.Util
namespace Mistune

inductive Json where
  | null : Json
  | bool (b : Bool) : Json
  | num (n : Int) : Json
  | str (s : Str) : Json
  | arr (l : List Json) : Json
  | obj (kv : List (String × Json)) : Json
  deriving Repr, Inhabited

namespace Json

def get? : Json → String → Option Json
  | .obj kv, k => kv.lookup k
  | _, _ => none

def has (j : Json) (k : String) : Bool := (j.get? k).isSome

/-- `d[k] = v` (keeps the position of an existing key, appends a new one: dict insertion order) -/
def set : Json → String → Json → Json
  | .obj kv, k, v =>
    if kv.any (fun p => p.1 == k) then .obj (kv.map (fun p => if p.1 == k then (k, v) else p))
    else .obj (kv ++ [(k, v)])
  | j, _, _ => j

def erase : Json → String → Json
  | .obj kv, k => .obj (kv.filter (fun p => p.1 != k))
  | j, _ => j

def getStr (j : Json) (k : String) : Str :=
  match j.get? k with
  | some (.str s) => s
  | _ => []

def getStr? (j : Json) (k : String) : Option Str :=
  match j.get? k with
  | some (.str s) => some s
  | _ => none

def getArr (j : Json) (k : String) : List Json :=
  match j.get? k with
  | some (.arr l) => l
  | _ => []

def getBool (j : Json) (k : String) : Bool :=
  match j.get? k with
  | some (.bool b) => b
  | _ => false

def getInt? (j : Json) (k : String) : Option Int :=
  match j.get? k with
  | some (.num n) => some n
  | _ => none

def s (x : String) : Json := .str x.toList

/-- Python truthiness -/
def truthy : Json → Bool
  | .null => false
  | .bool b => b
  | .num n => n != 0
  | .str s => !s.isEmpty
  | .arr l => !l.isEmpty
  | .obj kv => !kv.isEmpty

end Json

def insertSorted (p : String × String) : List (String × String) → List (String × String)
  | [] => [p]
  | q :: r => if p.1 < q.1 then p :: q :: r else q :: insertSorted p r

def sortKV (l : List (String × String)) : List (String × String) := l.foldr insertSorted []

/-- canonical text: `n` / `T` `F` / `i<int>` / `s<code points>` / `[a;b]` / `{k=v;…}` with keys sorted -/
partial def Json.canon : Json → String
  | .null => "n"
  | .bool b => if b then "T" else "F"
  | .num n => "i" ++ toString n
  | .str s => "s" ++ ",".intercalate (s.map (fun c => toString c.toNat))
  | .arr l => "[" ++ ";".intercalate (l.map Json.canon) ++ "]"
  | .obj kv =>
    let items := sortKV (kv.map (fun p => (p.1, Json.canon p.2)))
    "{" ++ ";".intercalate (items.map (fun p => p.1 ++ "=" ++ p.2)) ++ "}"

/-- token constructors -/
def tok (type : String) (fields : List (String × Json)) : Json := .obj (("type", Json.s type) :: fields)

def Json.type (t : Json) : String := String.ofList (t.getStr "type")

end Mistune
