/-
Model of `src/mistune/util.py` (escape, escape_url's `quote` layer, safe_entity, unikey) and of the
line-ending normalisation at the head of `Markdown.parse`.

Strings are `List Char` (`Str`).  Lean's `Char` is a Unicode scalar value; Python strings may also hold
lone surrogates, which are outside this model (see DESIGN.md §3.3).
This file imports nothing outside core Lean so that the driver links as a `lean_exe`.
-/
namespace Mistune

abbrev Str := List Char

/-- `str.replace(c, r)` for a one-character pattern `c`. -/
def replace1 (c : Char) (r : Str) (s : Str) : Str :=
  s.flatMap (fun x => if x = c then r else [x])

/-- `mistune.util.escape`: the chain of four `str.replace` calls, `&` first. -/
def escape (quote : Bool) (s : Str) : Str :=
  let s := replace1 '&' "&amp;".toList s
  let s := replace1 '<' "&lt;".toList s
  let s := replace1 '>' "&gt;".toList s
  if quote then replace1 '"' "&quot;".toList s else s

/-- Per-character view of `escape` (proved equal in `MistuneProofs.C18`). -/
def escChar (quote : Bool) (c : Char) : Str :=
  if c = '&' then "&amp;".toList
  else if c = '<' then "&lt;".toList
  else if c = '>' then "&gt;".toList
  else if c = '"' ∧ quote then "&quot;".toList
  else [c]

/-- Decoder for exactly the four entities `escape` produces (reference for the round trip; its agreement
with `html.unescape` on the image of `escape` is checked by the correspondence). -/
def decodeBasic : Str → Str
  | '&' :: 'a' :: 'm' :: 'p' :: ';' :: r => '&' :: decodeBasic r
  | '&' :: 'l' :: 't' :: ';' :: r => '<' :: decodeBasic r
  | '&' :: 'g' :: 't' :: ';' :: r => '>' :: decodeBasic r
  | '&' :: 'q' :: 'u' :: 'o' :: 't' :: ';' :: r => '"' :: decodeBasic r
  | c :: r => c :: decodeBasic r
  | [] => []

/-! ### `urllib.parse.quote` -/

/-- UTF-8 encoding of a scalar value, as natural numbers < 256. -/
def utf8Bytes (c : Char) : List Nat :=
  let n := c.toNat
  if n < 0x80 then [n]
  else if n < 0x800 then [0xC0 + n / 64, 0x80 + n % 64]
  else if n < 0x10000 then [0xE0 + n / 4096, 0x80 + (n / 64) % 64, 0x80 + n % 64]
  else [0xF0 + n / 262144, 0x80 + (n / 4096) % 64, 0x80 + (n / 64) % 64, 0x80 + n % 64]

def hexDigit (n : Nat) : Char :=
  if n < 10 then Char.ofNat (48 + n) else Char.ofNat (55 + n)   -- '0'.. '9', 'A'..'F'

/-- `_ALWAYS_SAFE` of `urllib.parse`: ASCII letters, digits and `_.-~`. -/
def alwaysSafe (b : Nat) : Bool :=
  (65 ≤ b && b ≤ 90) || (97 ≤ b && b ≤ 122) || (48 ≤ b && b ≤ 57) ||
  b = 95 || b = 46 || b = 45 || b = 126

/-- The `safe` argument `escape_url` passes: `:/?#@` `!$&()*+,;=` `%`. -/
def urlSafeChars : Str := ":/?#@!$&()*+,;=%".toList

def byteSafe (safe : Str) (b : Nat) : Bool :=
  alwaysSafe b || safe.any (fun c => c.toNat = b && b < 128)

def quoteByte (safe : Str) (b : Nat) : Str :=
  if byteSafe safe b then [Char.ofNat b] else ['%', hexDigit (b / 16), hexDigit (b % 16)]

/-- `urllib.parse.quote(s, safe=safe)` for `str` input (UTF-8, errors=strict). -/
def quote (safe : Str) (s : Str) : Str :=
  s.flatMap (fun c => (utf8Bytes c).flatMap (quoteByte safe))

/-- `escape_url(link) = quote(unescape(link), safe=…)`; `unescape` is a parameter (CPython's
`html._replace_charref`, trusted; a table-driven model is `Mistune.Charref`). -/
def escapeUrl (unescape : Str → Str) (s : Str) : Str := quote urlSafeChars (unescape s)

/-- `safe_entity(s) = escape(unescape(s))`. -/
def safeEntity (unescape : Str → Str) (s : Str) : Str := escape true (unescape s)

/-! ### `unikey` -/

/-- Helper of `splitWs`: `(w, ws)` where `w` is the (possibly empty) word in progress at the head of the
string and `ws` are the later words. -/
def splitGo (isSp : Char → Bool) : Str → Str × List Str
  | [] => ([], [])
  | c :: r =>
    let p := splitGo isSp r
    if isSp c then ([], if p.1.isEmpty then p.2 else p.1 :: p.2) else (c :: p.1, p.2)

/-- `str.split()` with no argument, parameterised by the whitespace predicate (`str.isspace` per char). -/
def splitWs (isSp : Char → Bool) (s : Str) : List Str :=
  let p := splitGo isSp s
  if p.1.isEmpty then p.2 else p.1 :: p.2

/-- `" ".join(ws)` -/
def joinSp : List Str → Str
  | [] => []
  | [w] => w
  | w :: ws => w ++ ' ' :: joinSp ws

/-- `str.strip()` with no argument. -/
def stripWs (isSp : Char → Bool) (s : Str) : Str :=
  ((s.dropWhile isSp).reverse.dropWhile isSp).reverse

/-- `unikey`: `" ".join(s.split()).strip().lower().upper()`; `fold c` is `c.lower().upper()` as a
per-code-point table (`Generated.Unicode`). -/
def unikey (isSp : Char → Bool) (fold : Char → Str) (s : Str) : Str :=
  (stripWs isSp (joinSp (splitWs isSp s))).flatMap fold

/-! ### line-ending normalisation (`Markdown.parse`) -/

/-- `s.replace("\r\n", "\n")` -/
def replCRLF : Str → Str
  | '\r' :: '\n' :: r => '\n' :: replCRLF r
  | c :: r => c :: replCRLF r
  | [] => []

/-- the three normalisation statements of `Markdown.parse` -/
def norm (s : Str) : Str :=
  let s := replace1 '\r' ['\n'] (replCRLF s)
  if s.getLast? = some '\n' then s else s ++ ['\n']

end Mistune
