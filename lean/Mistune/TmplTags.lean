/-
Tag structure of the rendered HTML (C02: "… appear only as escaped character data or inside properly quoted
attribute values"): a five-state scanner over the output, the static check of a template against it, and the
specification of `striptags` as that scanner's projection.
-/
import Mistune.TmplTree
namespace Mistune

/-- where the scanner is: in character data, just after `<`, inside a tag, inside a double- / single-quoted
attribute value -/
inductive TS where
  | text | lt | tag | dq | sq
  deriving DecidableEq, Repr

/-- one character; `none` = the string is not well tagged (a bare `>` or `"` in character data, `<` inside a tag,
`<!`, `<<`, `<>`, `<"`, `<'`) -/
def tsStep : TS → Char → Option TS
  | .text, c => if c == '<' then some .lt else if c == '>' || c == '"' then none else some .text
  | .lt, c => if c == '!' || c == '<' || c == '>' || c == '"' || c == '\'' then none else some .tag
  | .tag, c => if c == '>' then some .text else if c == '<' then none else if c == '"' then some .dq
               else if c == '\'' then some .sq else some .tag
  | .dq, c => if c == '"' then some .tag else some .dq
  | .sq, c => if c == '\'' then some .tag else some .sq

def tsRun : TS → Str → Option TS
  | st, [] => some st
  | st, c :: cs => match tsStep st c with
    | some st' => tsRun st' cs
    | none => none

/-- every `<`, `>`, `"` of the string delimits a tag or a quoted attribute value (or sits inside such a value) -/
def WellTagged (s : Str) : Prop := tsRun .text s = some .text

/-- the scanner's projection on character data: what remains when the tags are taken out -/
def tsStripT : TS → TStr → TStr
  | _, [] => []
  | st, p :: ps => match tsStep st p.1 with
    | some st' => if st == .text && st' == .text then p :: tsStripT st' ps else tsStripT st' ps
    | none => []

/-- none of `<`, `>`, `"`, `'` -/
def plainC (c : Char) : Bool := c != '<' && c != '>' && c != '"' && c != '\''
/-- none of `<`, `>`, `"` -/
def plain3 (c : Char) : Bool := c != '<' && c != '>' && c != '"'

/-- what the static check knows about the arguments of one token type -/
structure TagInfo where
  dataArgs : List String       -- arbitrary document data (must be escaped; escaped / restricted values have none of < > ")
  intArgs : List String        -- integers (may stand inside a tag, e.g. `<h` + level)
  textIsChildren : Bool        -- `$text` is the rendered children (well tagged by induction), not `token["raw"]`

def onlySublistOps (ops : List TOp) : Bool := ops.all (fun o => !isEscaper o)

/-- abstract run of the scanner through the pieces of a template -/
def tagRunPieces (info : TagInfo) : TS → List TPiece → Option TS
  | st, [] => some st
  | st, .lit s :: rest => match tsRun st s with
    | some st' => tagRunPieces info st' rest
    | none => none
  | st, .arg n ops :: rest =>
    if n == "$text" && info.textIsChildren then
      -- the rendered children: untouched in character data, or tag-stripped in character data / a double-quoted value
      if (ops == [] && st == .text) || (ops == [.striptags] && (st == .text || st == .dq)) then tagRunPieces info st rest else none
    else if info.intArgs.contains n && ops.all (fun o => o == .str) then
      if st == .text || st == .dq || st == .tag then tagRunPieces info st rest else none
    else if (!info.dataArgs.contains n || hasEscaper ops) && (st == .text || st == .dq) then tagRunPieces info st rest
    else none
  | st, .sub ops _ :: rest =>
    -- an escaped sub-expression has none of < > " whatever it is made of
    if hasEscaper ops && (st == .text || st == .dq) then tagRunPieces info st rest else none
  | st, .toc _ :: rest => if st == .text then tagRunPieces info st rest else none
  | _, .replaceFirst _ _ _ :: _ => none

/-- every branch possible with escaping on starts and ends in character data -/
def tmplTagOk (info : TagInfo) : Tmpl → Bool
  | .seq e => tagRunPieces info .text e == some .text
  | .ite .flagEscape t _ => tmplTagOk info t
  | .ite (.not .flagEscape) _ e => tmplTagOk info e
  | .ite (.isDigit n) t e => tmplTagOk { info with dataArgs := info.dataArgs.filter (· != n) } t && tmplTagOk info e
  | .ite (.notNone n) t e => tmplTagOk info t && tmplTagOk { info with dataArgs := info.dataArgs.filter (· != n) } e
  | .ite _ t e => tmplTagOk info t && tmplTagOk info e
  | .opaque => false

/-- table-level: the types whose template passes; `intArgs` per type is part of the regenerated signature -/
structure TagTable where
  tbl : TmplTable
  intArgs : List (String × List String)

def TagTable.infoOf (tt : TagTable) (ty : String) : TagInfo :=
  { dataArgs := tt.tbl.dataArgsOf ty, intArgs := (tt.intArgs.lookup ty).getD [], textIsChildren := !tt.tbl.rawTypes.contains ty }

def TagTable.okTypes (tt : TagTable) : List String :=
  (tt.tbl.tmpls.filter (fun p => tmplTagOk (tt.infoOf p.1) p.2)).map (·.1)

/-- the tree hypothesis: `refinedOk`, integer arguments are integers, and every token's type has a template that passes -/
def tagTreeOk (tt : TagTable) : Nat → Json → Bool
  | 0, _ => false
  | fuel + 1, t =>
    let ty := t.type
    tt.okTypes.contains ty &&
    (attrVals ((t.get? "attrs").getD (.obj []))).all (fun p =>
      if ((tt.intArgs.lookup ty).getD []).contains p.1 then (match p.2 with | .int _ => true | .none => true | _ => false) else true) &&
    (match t.get? "children" with
     | some (.arr cs) => cs.all (tagTreeOk tt fuel)
     | _ => true)

/-- integer arguments of the render methods of the working tree (used by the driver; `templateIntArgs` of the proofs is this list) -/
def defaultIntArgs : List (String × List String) :=
  [("heading", ["level"]), ("list", ["start"]), ("footnote_ref", ["index"]), ("footnote_item", ["index"])]

end Mistune
