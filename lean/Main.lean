/-
`mistune-model`: line-protocol driver for the executable Lean model.
One request per line: `op<TAB>arg1<TAB>arg2…`; a string argument is its code points in decimal separated
by `,` (the empty string is the empty field), so nothing is lost to encodings.  One reply per line.
-/
import Mistune
open Mistune

def decStr (f : String) : Str :=
  if f.isEmpty then [] else (f.splitOn ",").map (fun t => Char.ofNat t.toNat!)

def encStr (s : Str) : String :=
  ",".intercalate (s.map (fun c => toString c.toNat))

def encList (l : List Str) : String := "|".intercalate (l.map encStr)

def decBool (f : String) : Bool := f == "1"

/-- list of strings: items separated by `|`, each prefixed by `s` (so that `[]` ≠ `[""]`) -/
def decList (f : String) : List Str :=
  if f.isEmpty then [] else (f.splitOn "|").map (fun t => decStr ((t.drop 1).toString))

def encListS (l : List Str) : String := "|".intercalate (l.map (fun s => "s" ++ encStr s))

def decNats (f : String) : List Nat :=
  if f.isEmpty then [] else (f.splitOn ",").map (fun t => t.toNat!)

def tocAnchor (i : Nat) : Str := ("<a href=\"#k" ++ toString i ++ "\">t" ++ toString i ++ "</a>").toList

abbrev Tables := List (String × List (String × Rx))

def parseTable (f : String) : Option (List (String × Rx)) :=
  if f.isEmpty then some [] else
  (f.splitOn ";").mapM (fun item =>
    match item.splitOn "=" with
    | [n, w] => (Rx.parseWire w).map (fun r => (n, r))
    | _ => none)

def selectRules (tbl : List (String × Rx)) (names : String) : Option (List (String × Rx)) :=
  if names.isEmpty then some [] else
  (names.splitOn ",").mapM (fun n => (tbl.lookup n).map (fun r => (n, r)))

def decRets (f : String) : List (Nat × Option Nat) :=
  if f.isEmpty then [] else
  (f.splitOn ",").filterMap (fun t =>
    match t.splitOn ":" with
    | [a, b] => some (a.toNat!, if b == "-" then none else some b.toNat!)
    | _ => none)

def encEvents (r : Except PyErr (List ScanEvent × Nat)) : String :=
  match r with
  | .error e => "error " ++ (repr e).pretty
  | .ok (evs, fin) =>
    ";".intercalate (evs.map (fun e => e.rule ++ "," ++ toString e.start ++ "," ++ toString e.stop ++ "," ++ toString e.cursor))
      ++ "|" ++ toString fin

/-- ops that need the rule tables defined earlier on this connection -/
def handleT (tables : Tables) (fields : List String) : Option String :=
  match fields with
  | [op, tid, names, src, cur, rets] =>
    if op == "block_loop" || op == "inline_loop" then
      match tables.lookup tid with
      | none => some "no-table"
      | some tbl =>
        match selectRules tbl names with
        | none => some "unknown-rule"
        | some rules =>
          let s := decStr src
          let x := mkCtx s s.length
          let rs := decRets rets
          let h : HandlerRet := fun _ mt => (rs.lookup mt.start).join
          let c := cur.toNat!
          if op == "block_loop" then some (encEvents (blockLoop x rules h (x.n + 1 - c) c []))
          else some (encEvents (inlineLoop x rules h (x.n + 1 - c) c []))
    else none
  | _ => none

def handle (fields : List String) : String :=
  match fields with
  | ["escape", q, s] => encStr (escape (decBool q) (decStr s))
  | ["decode_basic", s] => encStr (decodeBasic (decStr s))
  | ["quote", safe, s] => encStr (quote (decStr safe) (decStr s))
  | ["quote_url", s] => encStr (quote urlSafeChars (decStr s))
  | ["unikey", s] => encStr (unikeyPy (decStr s))
  | ["md_marker", code] => encStr (getFencedMarker (decStr code))
  | ["md_closes", marker, code] => if closesFence (decStr marker) (decStr code) then "1" else "0"
  | ["md_block_code", marker, info, code] =>
    -- an empty `marker` field is `None` (Python treats `""` the same way)
    let mk : Option Str := if marker.isEmpty then none else some (decStr marker)
    encStr (mdBlockCode mk (decStr info) (decStr code))
  | ["md_heading", level, text] => encStr (mdHeading level.toNat! (decStr text))
  | ["md_thematic_break"] => encStr mdThematicBreak
  | ["md_block_quote", inner] => encStr (mdBlockQuote (decStr inner))
  | ["md_indent_all", pre, text] => encStr (indentAll (decStr pre) (decStr text))
  | ["split", s] => encList (splitWs isSpace (decStr s))
  | ["strip", s] => encStr (stripWs isSpace (decStr s))
  | ["fold", s] => encStr ((decStr s).flatMap foldChar)
  | ["isspace", s] => encStr ((decStr s).map (fun c => if isSpace c then '1' else '0'))
  | ["norm", s] => encStr (norm (decStr s))
  | ["toc", lv] => encStr (printEvs tocAnchor (renderToc (decNats lv)))
  | ["toc_check", lv] =>
    let l := decNats lv
    if checkEvs (renderToc l) [] [] == some ([], ancSpec l) then "ok" else "bad"
  | ["fn", defs, refs] =>
    let r := fnRun (decList defs) [] (decList refs)
    encListS r.1 ++ ";" ++ ",".intercalate (r.2.map (fun p => match p.2 with | some i => toString i | none => "-"))
      ++ ";" ++ ",".intercalate ((fnItems r.1).map (fun q => toString q.2))
  | ["cli", msg, file, plug, esc, hw, outp, rend, stdin, fsHas] =>
    -- optional fields: "-" = absent, otherwise "s" ++ encoded string; plug: "-" or list
    let opt (f : String) : Option Str := if f == "-" then none else some (decStr ((f.drop 1).toString))
    let a : CliArgs := { message := opt msg, file := opt file,
                         plugin := if plug == "-" then none else some (decList plug),
                         escape := decBool esc, hardwrap := decBool hw, output := opt outp,
                         renderer := decStr rend }
    -- symbolic conversion: conv cfg s = "<cfg>" marker; the harness executes the plan with the real library
    let conv (c : ConvCfg) (s : Str) : Str :=
      ("CONV(" ++ (if c.escape then "1" else "0") ++ "," ++ (if c.hardWrap then "1" else "0") ++ "," ++ encStr c.renderer
        ++ "," ++ encListS c.plugins ++ ";" ++ encStr s ++ ")").toList
    let fs (p : Str) : Option Str := if fsHas == "-" then none else some (decStr ((fsHas.drop 1).toString))
    match cli conv fs a (opt stdin) with
    | .stdout t => "stdout " ++ (String.ofList t).replace "\n" "<NL>"
    | .file p t => "file " ++ encStr p ++ " " ++ (String.ofList t).replace "\n" "<NL>"
    | .usage => "usage"
    | .noSuchFile p => "nosuchfile " ++ encStr p
  | ["rx_search", mode, wire, subj, pos, endpos, ngroups] =>
    match Rx.parseWire wire with
    | none => "bad-regex"
    | some r =>
      let x := mkCtx (decStr subj) endpos.toNat!
      let res := match mode with
        | "search" => r.search x pos.toNat!
        | "match" => r.matchAt x pos.toNat!
        | _ => r.fullMatchAt x pos.toNat!
      match res with
      | none => "none"
      | some mt =>
        let gs := (List.range (ngroups.toNat! + 1)).map (fun g =>
          match mt.group g with
          | some (a, b) => toString a ++ "," ++ toString b
          | none => "-")
        ";".intercalate gs
  | ["cfg_needs", name] =>
    -- needed characters of every rule of a named configuration that the core configuration does not have
    match Mistune.Generated.allCfgs.find? (fun c => c.name == name) with
    | none => "no-cfg"
    | some c =>
      let core := Mistune.Generated.cfg_core
      let baseNames := (core.block ++ core.inline).map (·.1)
      let extra := (c.block ++ c.inline).filter (fun p => !baseNames.contains p.1)
      ";".intercalate (extra.map (fun p => p.1 ++ ":" ++ ",".intercalate (p.2.needs.map toString)))
  | ["m_block", cfgName, src] =>
    match Model.findCfg cfgName with
    | none => "no-cfg"
    | some cfg =>
      match Model.blockParse cfg (decStr src) with
      | .ok (toks, env) => "ok " ++ (Json.arr toks).canon ++ " " ++ env.canon
      | .error e => "error " ++ (repr e).pretty
  | ["m_inline", cfgName, refs, src] =>
    match Model.findCfg cfgName with
    | none => "no-cfg"
    | some cfg =>
      let entries := if refs.isEmpty then [] else (refs.splitOn ";").filterMap (fun e =>
        match e.splitOn "|" with
        | [k, u, t, l] =>
          let data := [("url", Json.str (decStr u)), ("label", Json.str (decStr l))] ++
            (if t == "-" then [] else [("title", Json.str (decStr t))])
          some (String.ofList (decStr k), Json.obj data)
        | _ => none)
      let env := Json.obj [("ref_links", Json.obj entries)]
      match Model.inlineParse cfg env (decStr src) with
      | .ok toks => "ok " ++ (Json.arr toks).canon
      | .error e => "error " ++ (repr e).pretty
  | ["m_doc", cfgName, src] =>
    match Model.findCfg cfgName with
    | none => "no-cfg"
    | some cfg =>
      match Model.parseDoc cfg (decStr src) with
      | .ok toks => "ok " ++ (Json.arr toks).canon
      | .error e => "error " ++ (repr e).pretty
  | ["ref_build", keys] =>
    -- the reference-table machine on a list of definition keys (data = position of the event)
    let ks := decList keys
    let evs := ks.zipIdx
    let tbl := refBuild ([] : List (Str × Nat)) evs
    let firsts := evs.map (fun p => if refLookup tbl p.1 == some p.2 then "1" else "0")
    encListS (tbl.map (·.1)) ++ ";" ++ ",".intercalate firsts
  | ["wf", canon, mx] =>
    match Json.parseCanon canon with
    | some (.arr toks) => if wfTokens toks mx.toNat! then "ok" else "bad"
    | _ => "unparsable"
  | ["tmpl_eval", tmplCanon, envCanon] =>
    match Json.parseCanon tmplCanon, Json.parseCanon envCanon with
    | some tj, some ej =>
      match tmplOfJson 40 tj with
      | none => "bad-template"
      | some t =>
        let args := match ej.get? "args" with
          | some (.obj kv) => kv.map (fun p => (p.1, valOfJson p.2))
          | _ => []
        let env := mkTEnv args (ej.getBool "escape")
        match evalTmpl env t with
        | some out => "ok " ++ encStr out.erase
        | none => "opaque"
    | _, _ => "unparsable"
  | ["tmpl_render", toksCanon, esc] =>
    match Json.parseCanon toksCanon with
    | some (.arr toks) =>
      let out := renderToks Generated.templates (fun a => mkTEnv a (esc == "1")) 64 toks
      let refined := toks.all (refinedOk Generated.templates 64)
      let tt : TagTable := { tbl := Generated.templates, intArgs := defaultIntArgs }
      let tagOk := toks.all (tagTreeOk tt 64)
      let wt := tsRun .text out.erase == some .text
      let re := (Generated.namedRx.lookup "mistune.util._striptags_re").getD .fail
      let agree := (tStriptags re out).erase == (tsStripT .text out).erase
      "ok " ++ (if refined then "R" else "r") ++ (if out.safeB then "S" else "s") ++ (if tagOk then "T" else "t") ++ (if wt then "W" else "w")
        ++ (if agree then "A" else "a") ++ (if toks.all (balTreeOk tt 64) then "B" else "b")
        ++ (if bsRun (BS.init []) out.erase == some (BS.init []) then "N" else "n") ++ " " ++ encStr out.erase ++ " " ++ encStr (tsStripT .text out).erase
    | _ => "unparsable"
  | ["ping"] => "pong"
  | _ => "bad-op"

partial def loop (h : IO.FS.Stream) (out : IO.FS.Stream) (tables : Tables) : IO Unit := do
  let line ← h.getLine
  if line.isEmpty then return ()
  let line := if line.endsWith "\n" then (line.dropEnd 1).toString else line
  let fields := line.splitOn "\t"
  match fields with
  | ["deftable", tid, body] =>
    match parseTable body with
    | some t => out.putStrLn "ok"; loop h out ((tid, t) :: tables)
    | none => out.putStrLn "bad-table"; loop h out tables
  | _ =>
    match handleT tables fields with
    | some r => out.putStrLn r
    | none => out.putStrLn (handle fields)
    loop h out tables

def main : IO Unit := do
  let i ← IO.getStdin
  let o ← IO.getStdout
  loop i o []
  o.flush
