/-
`mistune-model`: line-protocol driver for the executable Lean model.
One request per line: `op<TAB>arg1<TAB>arg2…`; a string argument is its code points in decimal separated
by `,` (the empty string is the empty field), so nothing is lost to encodings.  One reply per line.
-/
import Mistune
open Mistune

def decStr (f : String) : Str :=
  if f.isEmpty then [] else (f.splitOn ",").map (fun t => Char.ofNat t.toNat!)

def encStr (s : Str) : String :=
  ",".intercalate (s.map (fun c => toString c.toNat))

def encList (l : List Str) : String := "|".intercalate (l.map encStr)

def decBool (f : String) : Bool := f == "1"

def decNats (f : String) : List Nat :=
  if f.isEmpty then [] else (f.splitOn ",").map (fun t => t.toNat!)

def tocAnchor (i : Nat) : Str := ("<a href=\"#k" ++ toString i ++ "\">t" ++ toString i ++ "</a>").toList

def handle (fields : List String) : String :=
  match fields with
  | ["escape", q, s] => encStr (escape (decBool q) (decStr s))
  | ["decode_basic", s] => encStr (decodeBasic (decStr s))
  | ["quote", safe, s] => encStr (quote (decStr safe) (decStr s))
  | ["quote_url", s] => encStr (quote urlSafeChars (decStr s))
  | ["unikey", s] => encStr (unikeyPy (decStr s))
  | ["split", s] => encList (splitWs isSpace (decStr s))
  | ["strip", s] => encStr (stripWs isSpace (decStr s))
  | ["fold", s] => encStr ((decStr s).flatMap foldChar)
  | ["isspace", s] => encStr ((decStr s).map (fun c => if isSpace c then '1' else '0'))
  | ["norm", s] => encStr (norm (decStr s))
  | ["toc", lv] => encStr (printEvs tocAnchor (renderToc (decNats lv)))
  | ["toc_check", lv] =>
    let l := decNats lv
    if checkEvs (renderToc l) [] [] == some ([], ancSpec l) then "ok" else "bad"
  | ["ping"] => "pong"
  | _ => "bad-op"

partial def loop (h : IO.FS.Stream) (out : IO.FS.Stream) : IO Unit := do
  let line ← h.getLine
  if line.isEmpty then return ()
  let line := if line.endsWith "\n" then (line.dropEnd 1).toString else line
  out.putStrLn (handle (line.splitOn "\t"))
  loop h out

def main : IO Unit := do
  let i ← IO.getStdin
  let o ← IO.getStdout
  loop i o
  o.flush
