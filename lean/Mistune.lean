import Mistune.Util
import Mistune.Unicode
import Mistune.Toc
