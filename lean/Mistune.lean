import Mistune.Util
import Mistune.Unicode
import Mistune.Toc
import Mistune.Footnotes
import Mistune.Cli
import Mistune.Conv
