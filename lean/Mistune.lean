import Mistune.Util
import Mistune.Unicode
