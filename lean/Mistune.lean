import Mistune.Util
