/-
C03 (loop level): the two scanner loops PARTITION the source.

From the events a loop run returns (and the start cursor) we rebuild, in order, the *pieces* of source text the
Python loop hands on:

* the hole `[prevCursor, e.start)` before a match (block: `add_paragraph(get_text(end_pos))`, inline:
  `process_text(src[pos:end_pos])`) -- only when it is non-empty (`if end_pos > cursor`),
* the consumed piece `[e.start, e.cursor)` of the iteration: `handled rule` when the handler returned a (truthy)
  position, `declined rule` when it returned `None`/`0` (block: paragraph text up to the line end, inline: a
  one-character text piece),
* the tail `[lastCursor, x.n)` after the loop -- only when it is non-empty (`if state.cursor < cursor_max`,
  `elif pos < len(src)`).

Theorems (ANY subject, ANY consuming rule table, ANY handler table with the progress contract):
tiling (consecutive, non-empty, from the start cursor to the end), concatenation (the slices of the pieces
concatenate to the slice of the source), holes and tail are unclaimed (no rule matches at any position inside),
and the kinds are faithful (a declined piece ends at the line end / one character later, a handled piece ends
where the handler said).
-/
import Mistune.Scanner
import Mistune.Py
import MistuneProofs.C01Loops
namespace Mistune

/-! ### Pieces -/

inductive PieceKind where
  | hole
  | handled (rule : String)
  | declined (rule : String)
  | tail
  deriving Repr, DecidableEq

/-- a half-open span `[lo, hi)` of the source together with what the loop does with it -/
structure Piece where
  kind : PieceKind
  lo : Nat
  hi : Nat
  deriving Repr, DecidableEq

/-- `if end_pos2:` -- the handler's return value is truthy (`None` and `0` are falsy) -/
def ScanEvent.accepted (e : ScanEvent) : Bool :=
  match e.ret with
  | some r => r != 0
  | none => false

/-- the piece the iteration itself consumes -/
def ScanEvent.piece (e : ScanEvent) : Piece :=
  { kind := if e.accepted then .handled e.rule else .declined e.rule, lo := e.start, hi := e.cursor }

/-- the pieces of one iteration that started with the cursor at `prev`: the hole (if non-empty), then the
consumed piece -/
def eventPieces (prev : Nat) (e : ScanEvent) : List Piece :=
  (if prev < e.start then [{ kind := .hole, lo := prev, hi := e.start }] else []) ++ [e.piece]

/-- all pieces of a run over a source of effective length `n` that started at `cur` and produced `evs` -/
def piecesFrom (n : Nat) : Nat → List ScanEvent → List Piece
  | cur, [] => if cur < n then [{ kind := .tail, lo := cur, hi := n }] else []
  | cur, e :: rest => eventPieces cur e ++ piecesFrom n e.cursor rest

/-- the cursor after the last event (`cur` if there is none) -/
def lastCursor : Nat → List ScanEvent → Nat
  | cur, [] => cur
  | _, e :: rest => lastCursor e.cursor rest

/-- `Tiling a ps b`: the pieces are non-empty, the first starts at `a`, each next one starts where the previous
one ended, the last ends at `b` (`a = b` when there is no piece). -/
def Tiling : Nat → List Piece → Nat → Prop
  | a, [], b => a = b
  | a, p :: ps, b => p.lo = a ∧ p.lo < p.hi ∧ Tiling p.hi ps b

/-- the text of the pieces -/
def pieceTexts (s : Array Char) (ps : List Piece) : List Str := ps.map (fun p => Py.slice s p.lo p.hi)

/-- no rule of the table matches at any start position inside the piece -/
def Unclaimed (x : RxCtx) (rules : List (String × Rx)) (p : Piece) : Prop :=
  ∀ q, p.lo ≤ q → q < p.hi → scanAt x rules q = none

/-- plain-text pieces that exist because NO rule wanted them -/
def PieceKind.isPlain : PieceKind → Bool
  | .hole => true
  | .tail => true
  | _ => false

/-- Handlers never return a position beyond the effective end of the source (for matches inside it). -/
def HandlersBounded (x : RxCtx) (h : HandlerRet) : Prop :=
  ∀ name mt e, mt.stop ≤ x.n → h name mt = some e → e ≤ x.n

/-! ### Tilings -/

theorem Tiling.le : ∀ {a : Nat} {ps : List Piece} {b : Nat}, Tiling a ps b → a ≤ b
  | _, [], _, h => by simp only [Tiling] at h; omega
  | _, p :: ps, _, h => by
    obtain ⟨h1, h2, h3⟩ := h
    have := Tiling.le h3
    omega

theorem Tiling.append : ∀ {a : Nat} {ps : List Piece} {b : Nat} {qs : List Piece} {c : Nat},
    Tiling a ps b → Tiling b qs c → Tiling a (ps ++ qs) c
  | _, [], _, _, _, h1, h2 => by simp only [Tiling] at h1; subst h1; simpa using h2
  | _, p :: ps, _, _, _, h1, h2 => by
    obtain ⟨e1, e2, e3⟩ := h1
    exact ⟨e1, e2, Tiling.append e3 h2⟩

/-- every piece of a tiling lies inside the tiled interval and is non-empty (so `lo ≤ hi` in particular) -/
theorem Tiling.mem_bounds : ∀ {a : Nat} {ps : List Piece} {b : Nat}, Tiling a ps b →
    ∀ p ∈ ps, a ≤ p.lo ∧ p.lo < p.hi ∧ p.hi ≤ b
  | _, [], _, _, p, hp => by simp at hp
  | _, p0 :: ps, _, h, p, hp => by
    obtain ⟨e1, e2, e3⟩ := h
    rcases List.mem_cons.1 hp with hp | hp
    · subst hp
      have := Tiling.le e3
      omega
    · have := Tiling.mem_bounds e3 p hp
      omega

/-- two different positions of a tiling hold disjoint pieces, the earlier one entirely before the later one -/
theorem Tiling.ordered : ∀ {a : Nat} {ps : List Piece} {b : Nat}, Tiling a ps b →
    ∀ i j (hi : i < ps.length) (hj : j < ps.length), i < j → (ps[i]).hi ≤ (ps[j]).lo
  | _, [], _, _, i, j, hi, _, _ => by simp at hi
  | _, p0 :: ps, _, h, i, j, hi, hj, hij => by
    obtain ⟨e1, e2, e3⟩ := h
    match i, j, hij with
    | 0, j + 1, _ =>
      simp only [List.getElem_cons_zero, List.getElem_cons_succ]
      have hj' : j < ps.length := by simpa using hj
      exact (Tiling.mem_bounds e3 _ (List.getElem_mem hj')).1
    | i + 1, j + 1, hij =>
      simp only [List.getElem_cons_succ]
      exact Tiling.ordered e3 i j (by simpa using hi) (by simpa using hj) (by omega)

theorem slice_append (s : Array Char) (i j k : Nat) (h1 : i ≤ j) (h2 : j ≤ k) :
    Py.slice s i j ++ Py.slice s j k = Py.slice s i k := by
  unfold Py.slice
  rw [← Array.toList_append, Array.extract_append_extract, Nat.min_eq_left h1, Nat.max_eq_right h2]

theorem slice_self (s : Array Char) (i : Nat) : Py.slice s i i = [] := by
  unfold Py.slice
  simp

/-- slicing stops at the end of the array -/
theorem slice_clamp (s : Array Char) (i j : Nat) (h : s.size ≤ j) : Py.slice s i j = Py.slice s i s.size := by
  unfold Py.slice
  congr 1
  apply Array.ext'
  simp only [Array.toList_extract, List.extract_eq_take_drop]
  rw [List.take_of_length_le (by simp; omega), List.take_of_length_le (by simp)]

/-- the texts of a tiling concatenate to the slice of the tiled interval -/
theorem Tiling.concat (s : Array Char) : ∀ {a : Nat} {ps : List Piece} {b : Nat}, Tiling a ps b →
    (pieceTexts s ps).flatten = Py.slice s a b
  | _, [], _, h => by
    simp only [Tiling] at h
    subst h
    simp [pieceTexts, slice_self]
  | _, p :: ps, _, h => by
    obtain ⟨e1, e2, e3⟩ := h
    have ih := Tiling.concat s e3
    have hle := Tiling.le e3
    simp only [pieceTexts] at ih
    simp only [pieceTexts, List.map_cons, List.flatten_cons, ih]
    subst e1
    exact slice_append s _ _ _ (by omega) hle

/-! ### Leftmost search of the combined scanner -/

theorem scanFrom_leftmost (x : RxCtx) (rules : List (String × Rx)) :
    ∀ fuel pos name mt, scanFrom x rules fuel pos = some (name, mt) →
      pos ≤ mt.start ∧ mt.start ≤ x.n ∧ scanAt x rules mt.start = some (name, mt) ∧
      ∀ q, pos ≤ q → q < mt.start → scanAt x rules q = none := by
  intro fuel
  induction fuel with
  | zero => intro pos name mt h; simp [scanFrom] at h
  | succ fuel ih =>
    intro pos name mt h
    simp only [scanFrom] at h
    split at h
    · simp at h
    · rename_i hpos
      split at h
      · rename_i r hr
        cases h
        obtain ⟨r', _, hm⟩ := scanAt_sound x rules pos name mt hr
        have hst := (matchAt_sound x r' pos mt hm).1
        refine ⟨by omega, by omega, by rw [hst]; exact hr, ?_⟩
        intro q h1 h2
        omega
      · rename_i hm
        obtain ⟨h1, h2, h3, h4⟩ := ih _ _ _ h
        refine ⟨by omega, h2, h3, ?_⟩
        intro q hq1 hq2
        by_cases hq : q = pos
        · subst hq; exact hm
        · exact h4 q (by omega) hq2

theorem scanFrom_none (x : RxCtx) (rules : List (String × Rx)) :
    ∀ fuel pos, scanFrom x rules fuel pos = none → x.n + 1 - pos ≤ fuel →
      ∀ q, pos ≤ q → q ≤ x.n → scanAt x rules q = none := by
  intro fuel
  induction fuel with
  | zero => intro pos _ hf q h1 h2; omega
  | succ fuel ih =>
    intro pos h hf q h1 h2
    simp only [scanFrom] at h
    split at h
    · omega
    · split at h
      · simp at h
      · rename_i hm
        by_cases hq : q = pos
        · subst hq; exact hm
        · exact ih _ h (by omega) q (by omega) h2

/-- `sc.search(src, pos)` is leftmost: the match it returns is the scanner's answer at its own start, and at no
earlier start position in `[pos, start)` does any rule match. -/
theorem scan_leftmost (x : RxCtx) (rules : List (String × Rx)) (pos : Nat) (name : String) (mt : RxMatch)
    (h : scan x rules pos = some (name, mt)) :
    scanAt x rules mt.start = some (name, mt) ∧ ∀ q, pos ≤ q → q < mt.start → scanAt x rules q = none := by
  unfold scan at h
  obtain ⟨_, _, h3, h4⟩ := scanFrom_leftmost x rules _ _ _ _ h
  exact ⟨h3, h4⟩

/-- `sc.search(src, pos)` fails only if no rule matches at any start position in `[pos, endpos]`. -/
theorem scan_none (x : RxCtx) (rules : List (String × Rx)) (pos : Nat) (h : scan x rules pos = none) :
    ∀ q, pos ≤ q → q ≤ x.n → scanAt x rules q = none := by
  unfold scan at h
  exact scanFrom_none x rules _ _ h (by omega)

/-- the combined scanner fails at a position exactly when every rule's regex fails there -/
theorem scanAt_none_iff (x : RxCtx) (rules : List (String × Rx)) (q : Nat) :
    scanAt x rules q = none ↔ ∀ p ∈ rules, p.2.matchAt x q = none := by
  induction rules with
  | nil => simp [scanAt]
  | cons p rest ih =>
    obtain ⟨nm, r⟩ := p
    simp only [scanAt, List.mem_cons, forall_eq_or_imp]
    split
    · rename_i mt hm
      simp [hm]
    · rename_i hm
      simp [hm, ih]

/-! ### What one event says about its iteration -/

/-- the event records a genuine iteration of the block loop that began with the cursor at `prev` -/
def BlockStep (x : RxCtx) (rules : List (String × Rx)) (h : HandlerRet) (prev : Nat) (e : ScanEvent) : Prop :=
  ∃ mt, scan x rules prev = some (e.rule, mt) ∧ e.start = mt.start ∧ e.stop = mt.stop ∧
    e.ret = h e.rule mt ∧ e.cursor = blockNext x h e.rule mt

/-- the event records a genuine iteration of the inline loop that began at position `prev` -/
def InlineStep (x : RxCtx) (rules : List (String × Rx)) (h : HandlerRet) (prev : Nat) (e : ScanEvent) : Prop :=
  ∃ mt, scan x rules prev = some (e.rule, mt) ∧ e.start = mt.start ∧ e.stop = mt.stop ∧
    e.ret = h e.rule mt ∧ e.cursor = inlineNext h e.rule mt

/-- every event of the list is a genuine iteration, each starting where the previous one left the cursor -/
def StepChain (step : Nat → ScanEvent → Prop) : Nat → List ScanEvent → Prop
  | _, [] => True
  | cur, e :: rest => step cur e ∧ StepChain step e.cursor rest

theorem blockNext_declined (x : RxCtx) (h : HandlerRet) (e : ScanEvent) (mt : RxMatch)
    (hret : e.ret = h e.rule mt) (hacc : e.accepted = false) : blockNext x h e.rule mt = lineEnd x mt.start := by
  unfold blockNext
  unfold ScanEvent.accepted at hacc
  rw [← hret]
  split at hacc
  · rename_i r hr
    rw [hr]
    simp only [bne_eq_false_iff_eq] at hacc
    simp [hacc]
  · rename_i hr
    rw [hr]

theorem blockNext_accepted (x : RxCtx) (h : HandlerRet) (e : ScanEvent) (mt : RxMatch)
    (hret : e.ret = h e.rule mt) (hacc : e.accepted = true) :
    h e.rule mt = some (blockNext x h e.rule mt) ∧ blockNext x h e.rule mt ≠ 0 := by
  unfold blockNext
  unfold ScanEvent.accepted at hacc
  rw [← hret]
  split at hacc
  · rename_i r hr
    rw [hr]
    simp only [bne_iff_ne, ne_eq] at hacc
    simp [hacc]
  · simp at hacc

theorem inlineNext_declined (h : HandlerRet) (e : ScanEvent) (mt : RxMatch)
    (hret : e.ret = h e.rule mt) (hacc : e.accepted = false) : inlineNext h e.rule mt = mt.start + 1 := by
  unfold inlineNext
  unfold ScanEvent.accepted at hacc
  rw [← hret]
  split at hacc
  · rename_i r hr
    rw [hr]
    simp only [bne_eq_false_iff_eq] at hacc
    simp [hacc]
  · rename_i hr
    rw [hr]

theorem inlineNext_accepted (h : HandlerRet) (e : ScanEvent) (mt : RxMatch)
    (hret : e.ret = h e.rule mt) (hacc : e.accepted = true) :
    h e.rule mt = some (inlineNext h e.rule mt) ∧ inlineNext h e.rule mt ≠ 0 := by
  unfold inlineNext
  unfold ScanEvent.accepted at hacc
  rw [← hret]
  split at hacc
  · rename_i r hr
    rw [hr]
    simp only [bne_iff_ne, ne_eq] at hacc
    simp [hacc]
  · simp at hacc

/-! ### A successful run is a chain of genuine iterations -/

theorem blockLoop_run_aux (x : RxCtx) (rules : List (String × Rx)) (h : HandlerRet) :
    ∀ fuel cursor evs0 evsAll fin, blockLoop x rules h fuel cursor evs0 = .ok (evsAll, fin) →
      ∃ evs, evsAll = evs0 ++ evs ∧ StepChain (BlockStep x rules h) cursor evs ∧
        (lastCursor cursor evs < x.n → scan x rules (lastCursor cursor evs) = none) ∧
        fin = max x.n (lastCursor cursor evs) := by
  intro fuel
  induction fuel with
  | zero => intro cursor evs0 evsAll fin hrun; simp [blockLoop] at hrun
  | succ fuel ih =>
    intro cursor evs0 evsAll fin hrun
    rw [blockLoop_succ] at hrun
    split at hrun
    · rename_i hlt
      split at hrun
      · rename_i hs
        cases hrun
        exact ⟨[], by simp, trivial, fun _ => hs, by simp only [lastCursor]; omega⟩
      · rename_i name mt hs
        split at hrun
        · cases hrun
        · obtain ⟨evs, e1, e2, e3, e4⟩ := ih _ _ _ _ hrun
          exact ⟨{ rule := name, start := mt.start, stop := mt.stop, ret := h name mt,
                   cursor := blockNext x h name mt } :: evs,
            by rw [e1]; simp, ⟨⟨mt, hs, rfl, rfl, rfl, rfl⟩, e2⟩, e3, e4⟩
    · cases hrun
      exact ⟨[], by simp, trivial, fun hh => by simp only [lastCursor] at hh; omega,
        by simp only [lastCursor]; omega⟩

theorem inlineLoop_run_aux (x : RxCtx) (rules : List (String × Rx)) (h : HandlerRet) :
    ∀ fuel pos evs0 evsAll fin, inlineLoop x rules h fuel pos evs0 = .ok (evsAll, fin) →
      ∃ evs, evsAll = evs0 ++ evs ∧ StepChain (InlineStep x rules h) pos evs ∧
        (lastCursor pos evs < x.n → scan x rules (lastCursor pos evs) = none) ∧
        fin = lastCursor pos evs := by
  intro fuel
  induction fuel with
  | zero => intro pos evs0 evsAll fin hrun; simp [inlineLoop] at hrun
  | succ fuel ih =>
    intro pos evs0 evsAll fin hrun
    rw [inlineLoop_succ] at hrun
    split at hrun
    · rename_i hlt
      split at hrun
      · rename_i hs
        cases hrun
        exact ⟨[], by simp, trivial, fun _ => hs, rfl⟩
      · rename_i name mt hs
        split at hrun
        · cases hrun
        · obtain ⟨evs, e1, e2, e3, e4⟩ := ih _ _ _ _ hrun
          exact ⟨{ rule := name, start := mt.start, stop := mt.stop, ret := h name mt,
                   cursor := inlineNext h name mt } :: evs,
            by rw [e1]; simp, ⟨⟨mt, hs, rfl, rfl, rfl, rfl⟩, e2⟩, e3, e4⟩
    · cases hrun
      exact ⟨[], by simp, trivial, fun hh => by simp only [lastCursor] at hh; omega, rfl⟩

/-- what a successful block-loop run (from an empty event list) says about its events -/
theorem blockLoop_run (x : RxCtx) (rules : List (String × Rx)) (h : HandlerRet) (fuel cursor : Nat)
    (evs : List ScanEvent) (fin : Nat) (hrun : blockLoop x rules h fuel cursor [] = .ok (evs, fin)) :
    StepChain (BlockStep x rules h) cursor evs ∧
      (lastCursor cursor evs < x.n → scan x rules (lastCursor cursor evs) = none) ∧
      fin = max x.n (lastCursor cursor evs) := by
  obtain ⟨evs', e1, e2⟩ := blockLoop_run_aux x rules h fuel cursor [] evs fin hrun
  simp only [List.nil_append] at e1
  subst e1
  exact e2

theorem inlineLoop_run (x : RxCtx) (rules : List (String × Rx)) (h : HandlerRet) (fuel pos : Nat)
    (evs : List ScanEvent) (fin : Nat) (hrun : inlineLoop x rules h fuel pos [] = .ok (evs, fin)) :
    StepChain (InlineStep x rules h) pos evs ∧
      (lastCursor pos evs < x.n → scan x rules (lastCursor pos evs) = none) ∧
      fin = lastCursor pos evs := by
  obtain ⟨evs', e1, e2⟩ := inlineLoop_run_aux x rules h fuel pos [] evs fin hrun
  simp only [List.nil_append] at e1
  subst e1
  exact e2

/-! ### From the chain of iterations to the partition -/

theorem BlockStep.facts {x : RxCtx} {rules : List (String × Rx)} {h : HandlerRet} {prev : Nat} {e : ScanEvent}
    (hc : ProgressContract h) (hr : rulesConsume rules = true) (hs : BlockStep x rules h prev e) :
    prev ≤ e.start ∧ e.start < e.cursor ∧ e.start < e.stop ∧ e.stop ≤ x.n := by
  obtain ⟨mt, h1, h2, h3, _, h5⟩ := hs
  obtain ⟨s1, _, s3, _, s5⟩ := scan_sound x rules prev e.rule mt h1
  have s5 := s5 hr
  have := blockNext_gt x h hc e.rule mt (by omega)
  omega

theorem InlineStep.facts {x : RxCtx} {rules : List (String × Rx)} {h : HandlerRet} {prev : Nat} {e : ScanEvent}
    (hc : ProgressContract h) (hr : rulesConsume rules = true) (hs : InlineStep x rules h prev e) :
    prev ≤ e.start ∧ e.start < e.cursor ∧ e.start < e.stop ∧ e.stop ≤ x.n := by
  obtain ⟨mt, h1, h2, h3, _, h5⟩ := hs
  obtain ⟨s1, _, s3, _, s5⟩ := scan_sound x rules prev e.rule mt h1
  have s5 := s5 hr
  have := inlineNext_gt h hc e.rule mt
  omega

theorem StepChain.eventChain {step : Nat → ScanEvent → Prop}
    (hstep : ∀ prev e, step prev e → prev ≤ e.start ∧ e.start < e.cursor ∧ e.start < e.stop ∧ e.stop ≤ n) :
    ∀ evs cur, StepChain step cur evs → EventChain cur evs
  | [], _, _ => trivial
  | e :: rest, cur, hch => by
    obtain ⟨h1, h2⟩ := hch
    have := hstep cur e h1
    exact ⟨this.1, this.2.1, by omega, StepChain.eventChain hstep rest e.cursor h2⟩

/-- **Tiling, from the event chain alone**: the pieces rebuilt from a chain of events tile the interval from the
start cursor to `max n lastCursor`. -/
theorem tiling_of_eventChain (n : Nat) : ∀ evs cur, EventChain cur evs →
    Tiling cur (piecesFrom n cur evs) (max n (lastCursor cur evs))
  | [], cur, _ => by
    simp only [piecesFrom, lastCursor]
    split
    · exact ⟨rfl, by simpa using ‹cur < n›, by simp only [Tiling]; omega⟩
    · simp only [Tiling]; omega
  | e :: rest, cur, hch => by
    obtain ⟨h1, h2, _, h4⟩ := hch
    have ih := tiling_of_eventChain n rest e.cursor h4
    simp only [piecesFrom, lastCursor]
    refine Tiling.append (b := e.cursor) ?_ ih
    unfold eventPieces
    split
    · exact ⟨rfl, by simpa using ‹cur < e.start›, rfl, h2, rfl⟩
    · exact ⟨by simp only [ScanEvent.piece]; omega, h2, rfl⟩

/-- where a piece comes from -/
theorem mem_piecesFrom (step : Nat → ScanEvent → Prop) (n : Nat) :
    ∀ evs cur, StepChain step cur evs → ∀ p ∈ piecesFrom n cur evs,
      (p = { kind := .tail, lo := lastCursor cur evs, hi := n } ∧ lastCursor cur evs < n) ∨
      ∃ prev e, step prev e ∧ ((p = { kind := .hole, lo := prev, hi := e.start } ∧ prev < e.start) ∨ p = e.piece)
  | [], cur, _, p, hp => by
    simp only [piecesFrom] at hp
    split at hp
    · simp only [List.mem_singleton] at hp
      exact Or.inl ⟨hp, ‹cur < n›⟩
    · simp at hp
  | e :: rest, cur, hch, p, hp => by
    obtain ⟨h1, h2⟩ := hch
    simp only [piecesFrom, List.mem_append] at hp
    rcases hp with hp | hp
    · right
      refine ⟨cur, e, h1, ?_⟩
      unfold eventPieces at hp
      simp only [List.mem_append, List.mem_singleton] at hp
      rcases hp with hp | hp
      · split at hp
        · simp only [List.mem_singleton] at hp
          exact Or.inl ⟨hp, ‹cur < e.start›⟩
        · simp at hp
      · exact Or.inr hp
    · exact mem_piecesFrom step n rest e.cursor h2 p hp

theorem ScanEvent.piece_not_plain (e : ScanEvent) : e.piece.kind.isPlain = false := by
  unfold ScanEvent.piece
  simp only
  split <;> rfl

/-- **Plain text is unclaimed text**: in every hole and in the tail no rule matches at any start position. -/
theorem plain_unclaimed (x : RxCtx) (rules : List (String × Rx)) (step : Nat → ScanEvent → Prop)
    (hstep : ∀ prev e, step prev e → ∃ mt, scan x rules prev = some (e.rule, mt) ∧ e.start = mt.start)
    (cur : Nat) (evs : List ScanEvent) (hch : StepChain step cur evs)
    (hfin : lastCursor cur evs < x.n → scan x rules (lastCursor cur evs) = none) :
    ∀ p ∈ piecesFrom x.n cur evs, p.kind.isPlain = true → Unclaimed x rules p := by
  intro p hp hk
  rcases mem_piecesFrom step x.n evs cur hch p hp with ⟨rfl, hlt⟩ | ⟨prev, e, hs, ⟨rfl, _⟩ | rfl⟩
  · intro q h1 h2
    exact scan_none x rules _ (hfin hlt) q h1 (by simp only at h2; omega)
  · obtain ⟨mt, hscan, hst⟩ := hstep prev e hs
    intro q h1 h2
    exact (scan_leftmost x rules prev e.rule mt hscan).2 q h1 (by simp only at h2; omega)
  · rw [ScanEvent.piece_not_plain] at hk
    cases hk

theorem ScanEvent.ret_of_not_accepted (e : ScanEvent) (h : e.accepted = false) : e.ret = none ∨ e.ret = some 0 := by
  unfold ScanEvent.accepted at h
  split at h
  · rename_i r hr
    simp only [bne_eq_false_iff_eq] at h
    subst h
    exact Or.inr hr
  · rename_i hr
    exact Or.inl hr

/-- what the kind of a block-loop piece means -/
def BlockPieceOK (x : RxCtx) (rules : List (String × Rx)) (h : HandlerRet) (p : Piece) : Prop :=
  match p.kind with
  | .handled name => ∃ mt, scanAt x rules p.lo = some (name, mt) ∧ mt.start = p.lo ∧
      h name mt = some p.hi ∧ p.hi ≠ 0
  | .declined name => ∃ mt, scanAt x rules p.lo = some (name, mt) ∧ mt.start = p.lo ∧
      (h name mt = none ∨ h name mt = some 0) ∧ p.hi = lineEnd x p.lo
  | .hole => True
  | .tail => p.hi = x.n

/-- what the kind of an inline-loop piece means -/
def InlinePieceOK (x : RxCtx) (rules : List (String × Rx)) (h : HandlerRet) (p : Piece) : Prop :=
  match p.kind with
  | .handled name => ∃ mt, scanAt x rules p.lo = some (name, mt) ∧ mt.start = p.lo ∧
      h name mt = some p.hi ∧ p.hi ≠ 0
  | .declined name => ∃ mt, scanAt x rules p.lo = some (name, mt) ∧ mt.start = p.lo ∧
      (h name mt = none ∨ h name mt = some 0) ∧ p.hi = p.lo + 1
  | .hole => True
  | .tail => p.hi = x.n

theorem block_kinds (x : RxCtx) (rules : List (String × Rx)) (h : HandlerRet)
    (cur : Nat) (evs : List ScanEvent) (hch : StepChain (BlockStep x rules h) cur evs) :
    ∀ p ∈ piecesFrom x.n cur evs, BlockPieceOK x rules h p := by
  intro p hp
  rcases mem_piecesFrom _ x.n evs cur hch p hp with ⟨rfl, _⟩ | ⟨prev, e, hs, ⟨rfl, _⟩ | rfl⟩
  · simp [BlockPieceOK]
  · simp [BlockPieceOK]
  · obtain ⟨mt, h1, h2, h3, h4, h5⟩ := hs
    have hat := (scan_leftmost x rules prev e.rule mt h1).1
    unfold BlockPieceOK ScanEvent.piece
    cases hacc : e.accepted
    · simp only [Bool.false_eq_true, if_false]
      refine ⟨mt, by rw [h2]; exact hat, h2.symm, ?_, ?_⟩
      · rw [← h4]; exact e.ret_of_not_accepted hacc
      · rw [h5, h2]; exact blockNext_declined x h e mt h4 hacc
    · simp only [if_true]
      have := blockNext_accepted x h e mt h4 hacc
      refine ⟨mt, by rw [h2]; exact hat, h2.symm, ?_, ?_⟩
      · rw [h5]; exact this.1
      · rw [h5]; exact this.2

theorem inline_kinds (x : RxCtx) (rules : List (String × Rx)) (h : HandlerRet)
    (cur : Nat) (evs : List ScanEvent) (hch : StepChain (InlineStep x rules h) cur evs) :
    ∀ p ∈ piecesFrom x.n cur evs, InlinePieceOK x rules h p := by
  intro p hp
  rcases mem_piecesFrom _ x.n evs cur hch p hp with ⟨rfl, _⟩ | ⟨prev, e, hs, ⟨rfl, _⟩ | rfl⟩
  · simp [InlinePieceOK]
  · simp [InlinePieceOK]
  · obtain ⟨mt, h1, h2, h3, h4, h5⟩ := hs
    have hat := (scan_leftmost x rules prev e.rule mt h1).1
    unfold InlinePieceOK ScanEvent.piece
    cases hacc : e.accepted
    · simp only [Bool.false_eq_true, if_false]
      refine ⟨mt, by rw [h2]; exact hat, h2.symm, ?_, ?_⟩
      · rw [← h4]; exact e.ret_of_not_accepted hacc
      · rw [h5, h2]; exact inlineNext_declined h e mt h4 hacc
    · simp only [if_true]
      have := inlineNext_accepted h e mt h4 hacc
      refine ⟨mt, by rw [h2]; exact hat, h2.symm, ?_, ?_⟩
      · rw [h5]; exact this.1
      · rw [h5]; exact this.2

/-- with bounded handlers the cursor never leaves the source -/
theorem block_lastCursor_le (x : RxCtx) (rules : List (String × Rx)) (h : HandlerRet)
    (hr : rulesConsume rules = true) (hb : HandlersBounded x h) :
    ∀ evs cur, cur ≤ x.n → StepChain (BlockStep x rules h) cur evs → lastCursor cur evs ≤ x.n
  | [], _, hcur, _ => hcur
  | e :: rest, cur, _, hch => by
    obtain ⟨⟨mt, h1, h2, h3, h4, h5⟩, hrest⟩ := hch
    refine block_lastCursor_le x rules h hr hb rest e.cursor ?_ hrest
    obtain ⟨_, _, s3, _, s5⟩ := scan_sound x rules cur e.rule mt h1
    have s5 := s5 hr
    rw [h5]
    unfold blockNext
    have hle := (lineEnd_progress x mt.start (by omega)).2
    split
    · rename_i r hr'
      split
      · exact hle
      · exact hb _ _ _ s3 hr'
    · exact hle

theorem inline_lastCursor_le (x : RxCtx) (rules : List (String × Rx)) (h : HandlerRet)
    (hr : rulesConsume rules = true) (hb : HandlersBounded x h) :
    ∀ evs cur, cur ≤ x.n → StepChain (InlineStep x rules h) cur evs → lastCursor cur evs ≤ x.n
  | [], _, hcur, _ => hcur
  | e :: rest, cur, _, hch => by
    obtain ⟨⟨mt, h1, h2, h3, h4, h5⟩, hrest⟩ := hch
    refine inline_lastCursor_le x rules h hr hb rest e.cursor ?_ hrest
    obtain ⟨_, _, s3, _, s5⟩ := scan_sound x rules cur e.rule mt h1
    have s5 := s5 hr
    rw [h5]
    unfold inlineNext
    split
    · rename_i r hr'
      split
      · omega
      · exact hb _ _ _ s3 hr'
    · omega

/-! ### C03 at loop level: the block loop -/

/-- **C03 tiling (block loop).**  For ANY successful run of the block loop: the pieces rebuilt from its events are
non-empty, consecutive (each starts where the previous one ended), start at the initial cursor and end at the
final cursor `fin`, which is at or beyond the end of the source -- and is exactly the end `x.n` when no handler
returns a position beyond it.  (A handler that returns `e > x.n` ends the loop with `fin = e`: the last
`handled` piece then sticks out of the source; see the counterexample below.) -/
theorem blockLoop_partition (x : RxCtx) (rules : List (String × Rx)) (h : HandlerRet)
    (hc : ProgressContract h) (hr : rulesConsume rules = true) (fuel cursor : Nat)
    (evs : List ScanEvent) (fin : Nat) (hrun : blockLoop x rules h fuel cursor [] = .ok (evs, fin)) :
    Tiling cursor (piecesFrom x.n cursor evs) fin ∧ x.n ≤ fin ∧
      (HandlersBounded x h → cursor ≤ x.n → fin = x.n) := by
  obtain ⟨hch, _, hfin⟩ := blockLoop_run x rules h fuel cursor evs fin hrun
  have hev := StepChain.eventChain (n := x.n) (fun _ _ hs => BlockStep.facts hc hr hs) evs cursor hch
  refine ⟨by rw [hfin]; exact tiling_of_eventChain x.n evs cursor hev, by omega, ?_⟩
  intro hb hcur
  have := block_lastCursor_le x rules h hr hb evs cursor hcur hch
  omega

/-- every piece lies inside `[cursor₀, fin]`, has `lo < hi`, and pieces at different positions are disjoint and
in source order -/
theorem blockLoop_partition_disjoint (x : RxCtx) (rules : List (String × Rx)) (h : HandlerRet)
    (hc : ProgressContract h) (hr : rulesConsume rules = true) (fuel cursor : Nat)
    (evs : List ScanEvent) (fin : Nat) (hrun : blockLoop x rules h fuel cursor [] = .ok (evs, fin)) :
    (∀ p ∈ piecesFrom x.n cursor evs, cursor ≤ p.lo ∧ p.lo < p.hi ∧ p.hi ≤ fin) ∧
    ∀ i j (hi : i < (piecesFrom x.n cursor evs).length) (hj : j < (piecesFrom x.n cursor evs).length), i < j →
      ((piecesFrom x.n cursor evs)[i]).hi ≤ ((piecesFrom x.n cursor evs)[j]).lo := by
  have ht := (blockLoop_partition x rules h hc hr fuel cursor evs fin hrun).1
  exact ⟨ht.mem_bounds, ht.ordered⟩

/-- **C03 concatenation (block loop), general form**: the texts of the pieces concatenate to the slice of the
subject from the initial to the final cursor. -/
theorem blockLoop_partition_concat_fin (x : RxCtx) (rules : List (String × Rx)) (h : HandlerRet)
    (hc : ProgressContract h) (hr : rulesConsume rules = true) (fuel cursor : Nat)
    (evs : List ScanEvent) (fin : Nat) (hrun : blockLoop x rules h fuel cursor [] = .ok (evs, fin)) :
    ((piecesFrom x.n cursor evs).map (fun p => Py.slice x.s p.lo p.hi)).flatten = Py.slice x.s cursor fin :=
  (blockLoop_partition x rules h hc hr fuel cursor evs fin hrun).1.concat x.s

/-- **C03 concatenation (block loop).**  Every character of `[cursor₀, x.n)` is in exactly one piece, in order:
the texts of the pieces concatenate to `src[cursor₀ : n]`.  Needs that the run ends at the end of the text:
either no handler returns a position beyond `x.n`, or `x.n` is the end of the subject array (no `endpos` in
the middle of the string -- the case of every mistune call) so that slicing clamps. -/
theorem blockLoop_partition_concat (x : RxCtx) (rules : List (String × Rx)) (h : HandlerRet)
    (hc : ProgressContract h) (hr : rulesConsume rules = true) (fuel cursor : Nat) (hcur : cursor ≤ x.n)
    (hend : HandlersBounded x h ∨ x.s.size ≤ x.n)
    (evs : List ScanEvent) (fin : Nat) (hrun : blockLoop x rules h fuel cursor [] = .ok (evs, fin)) :
    ((piecesFrom x.n cursor evs).map (fun p => Py.slice x.s p.lo p.hi)).flatten = Py.slice x.s cursor x.n := by
  rw [blockLoop_partition_concat_fin x rules h hc hr fuel cursor evs fin hrun]
  obtain ⟨_, h2, h3⟩ := blockLoop_partition x rules h hc hr fuel cursor evs fin hrun
  rcases hend with hb | hsz
  · rw [h3 hb hcur]
  · rw [slice_clamp x.s cursor fin (by omega), slice_clamp x.s cursor x.n hsz]

/-- **C03 holes are unclaimed (block loop).**  In every hole and in the tail -- the text that becomes a paragraph
because no rule fired -- the combined scanner fails at every start position, i.e. every rule's regex fails. -/
theorem blockLoop_holes_unclaimed (x : RxCtx) (rules : List (String × Rx)) (h : HandlerRet) (fuel cursor : Nat)
    (evs : List ScanEvent) (fin : Nat) (hrun : blockLoop x rules h fuel cursor [] = .ok (evs, fin)) :
    ∀ p ∈ piecesFrom x.n cursor evs, p.kind = .hole ∨ p.kind = .tail →
      ∀ q, p.lo ≤ q → q < p.hi → scanAt x rules q = none ∧ ∀ r ∈ rules, r.2.matchAt x q = none := by
  obtain ⟨hch, hfin, _⟩ := blockLoop_run x rules h fuel cursor evs fin hrun
  intro p hp hk q h1 h2
  have hplain : p.kind.isPlain = true := by rcases hk with hk | hk <;> rw [hk] <;> rfl
  have := plain_unclaimed x rules _ (fun prev e ⟨mt, a, b, _⟩ => ⟨mt, a, b⟩) cursor evs hch hfin p hp hplain q h1 h2
  exact ⟨this, (scanAt_none_iff x rules q).1 this⟩

/-- **C03 kinds are faithful (block loop).**  A `handled r` piece starts at a match of rule `r` (the scanner's
answer at that position) and ends where the handler said; a `declined r` piece starts at a match of rule `r`
whose handler returned `None`/`0` and ends at the line end (`find_line_end`); the tail ends at `x.n`. -/
theorem blockLoop_kinds (x : RxCtx) (rules : List (String × Rx)) (h : HandlerRet) (fuel cursor : Nat)
    (evs : List ScanEvent) (fin : Nat) (hrun : blockLoop x rules h fuel cursor [] = .ok (evs, fin)) :
    ∀ p ∈ piecesFrom x.n cursor evs, BlockPieceOK x rules h p :=
  block_kinds x rules h cursor evs (blockLoop_run x rules h fuel cursor evs fin hrun).1

/-- **C03 (block loop), with totality**: under the hypotheses of `blockLoop_total` the run exists and its pieces
partition the source. -/
theorem blockLoop_partition_total (x : RxCtx) (rules : List (String × Rx)) (h : HandlerRet)
    (hc : ProgressContract h) (hr : rulesConsume rules = true) (cursor : Nat) (hcur : cursor ≤ x.n) :
    ∃ evs fin, blockLoop x rules h (x.n + 1 - cursor) cursor [] = .ok (evs, fin) ∧
      Tiling cursor (piecesFrom x.n cursor evs) fin ∧ x.n ≤ fin ∧ (HandlersBounded x h → fin = x.n) ∧
      ((piecesFrom x.n cursor evs).map (fun p => Py.slice x.s p.lo p.hi)).flatten = Py.slice x.s cursor fin ∧
      (HandlersBounded x h ∨ x.s.size ≤ x.n →
        ((piecesFrom x.n cursor evs).map (fun p => Py.slice x.s p.lo p.hi)).flatten = Py.slice x.s cursor x.n) ∧
      (∀ p ∈ piecesFrom x.n cursor evs, p.kind = .hole ∨ p.kind = .tail →
        ∀ q, p.lo ≤ q → q < p.hi → scanAt x rules q = none ∧ ∀ r ∈ rules, r.2.matchAt x q = none) ∧
      (∀ p ∈ piecesFrom x.n cursor evs, BlockPieceOK x rules h p) := by
  obtain ⟨evs, fin, hrun, _, _⟩ := blockLoop_total x rules h hc hr cursor hcur
  obtain ⟨t1, t2, t3⟩ := blockLoop_partition x rules h hc hr _ cursor evs fin hrun
  exact ⟨evs, fin, hrun, t1, t2, fun hb => t3 hb hcur,
    blockLoop_partition_concat_fin x rules h hc hr _ cursor evs fin hrun,
    fun hend => blockLoop_partition_concat x rules h hc hr _ cursor hcur hend evs fin hrun,
    blockLoop_holes_unclaimed x rules h _ cursor evs fin hrun,
    blockLoop_kinds x rules h _ cursor evs fin hrun⟩

/-! ### C03 at loop level: the inline loop -/

/-- **C03 tiling (inline loop).**  For ANY successful run of the inline loop (which returns the final position
`fin`, possibly before the end when the scanner found nothing more): the pieces -- including the tail
`[fin, x.n)` that `process_text(src[pos:])` emits -- are non-empty, consecutive, start at the initial position and
end at `max x.n fin`, which is `x.n` when no handler returns a position beyond it. -/
theorem inlineLoop_partition (x : RxCtx) (rules : List (String × Rx)) (h : HandlerRet)
    (hc : ProgressContract h) (hr : rulesConsume rules = true) (fuel pos : Nat)
    (evs : List ScanEvent) (fin : Nat) (hrun : inlineLoop x rules h fuel pos [] = .ok (evs, fin)) :
    Tiling pos (piecesFrom x.n pos evs) (max x.n fin) ∧ pos ≤ fin ∧
      (HandlersBounded x h → pos ≤ x.n → fin ≤ x.n) := by
  obtain ⟨hch, _, hfin⟩ := inlineLoop_run x rules h fuel pos evs fin hrun
  have hev := StepChain.eventChain (n := x.n) (fun _ _ hs => InlineStep.facts hc hr hs) evs pos hch
  have ht := tiling_of_eventChain x.n evs pos hev
  have hle : ∀ evs pos, EventChain pos evs → pos ≤ lastCursor pos evs := by
    intro evs
    induction evs with
    | nil => intro pos _; exact Nat.le_refl _
    | cons e rest ih =>
      intro pos hch
      obtain ⟨h1, h2, _, h4⟩ := hch
      have := ih e.cursor h4
      simp only [lastCursor]
      omega
  refine ⟨by rw [hfin]; exact ht, by rw [hfin]; exact hle evs pos hev, ?_⟩
  intro hb hpos
  rw [hfin]
  exact inline_lastCursor_le x rules h hr hb evs pos hpos hch

theorem inlineLoop_partition_disjoint (x : RxCtx) (rules : List (String × Rx)) (h : HandlerRet)
    (hc : ProgressContract h) (hr : rulesConsume rules = true) (fuel pos : Nat)
    (evs : List ScanEvent) (fin : Nat) (hrun : inlineLoop x rules h fuel pos [] = .ok (evs, fin)) :
    (∀ p ∈ piecesFrom x.n pos evs, pos ≤ p.lo ∧ p.lo < p.hi ∧ p.hi ≤ max x.n fin) ∧
    ∀ i j (hi : i < (piecesFrom x.n pos evs).length) (hj : j < (piecesFrom x.n pos evs).length), i < j →
      ((piecesFrom x.n pos evs)[i]).hi ≤ ((piecesFrom x.n pos evs)[j]).lo := by
  have ht := (inlineLoop_partition x rules h hc hr fuel pos evs fin hrun).1
  exact ⟨ht.mem_bounds, ht.ordered⟩

theorem inlineLoop_partition_concat_fin (x : RxCtx) (rules : List (String × Rx)) (h : HandlerRet)
    (hc : ProgressContract h) (hr : rulesConsume rules = true) (fuel pos : Nat)
    (evs : List ScanEvent) (fin : Nat) (hrun : inlineLoop x rules h fuel pos [] = .ok (evs, fin)) :
    ((piecesFrom x.n pos evs).map (fun p => Py.slice x.s p.lo p.hi)).flatten = Py.slice x.s pos (max x.n fin) :=
  (inlineLoop_partition x rules h hc hr fuel pos evs fin hrun).1.concat x.s

/-- **C03 concatenation (inline loop).**  The texts of the pieces concatenate to `src[pos₀ : n]`. -/
theorem inlineLoop_partition_concat (x : RxCtx) (rules : List (String × Rx)) (h : HandlerRet)
    (hc : ProgressContract h) (hr : rulesConsume rules = true) (fuel pos : Nat) (hpos : pos ≤ x.n)
    (hend : HandlersBounded x h ∨ x.s.size ≤ x.n)
    (evs : List ScanEvent) (fin : Nat) (hrun : inlineLoop x rules h fuel pos [] = .ok (evs, fin)) :
    ((piecesFrom x.n pos evs).map (fun p => Py.slice x.s p.lo p.hi)).flatten = Py.slice x.s pos x.n := by
  rw [inlineLoop_partition_concat_fin x rules h hc hr fuel pos evs fin hrun]
  obtain ⟨_, h2, h3⟩ := inlineLoop_partition x rules h hc hr fuel pos evs fin hrun
  rcases hend with hb | hsz
  · have := h3 hb hpos
    rw [Nat.max_eq_left this]
  · rw [slice_clamp x.s pos (max x.n fin) (by omega), slice_clamp x.s pos x.n hsz]

/-- **C03 holes are unclaimed (inline loop).** -/
theorem inlineLoop_holes_unclaimed (x : RxCtx) (rules : List (String × Rx)) (h : HandlerRet) (fuel pos : Nat)
    (evs : List ScanEvent) (fin : Nat) (hrun : inlineLoop x rules h fuel pos [] = .ok (evs, fin)) :
    ∀ p ∈ piecesFrom x.n pos evs, p.kind = .hole ∨ p.kind = .tail →
      ∀ q, p.lo ≤ q → q < p.hi → scanAt x rules q = none ∧ ∀ r ∈ rules, r.2.matchAt x q = none := by
  obtain ⟨hch, hfin, _⟩ := inlineLoop_run x rules h fuel pos evs fin hrun
  intro p hp hk q h1 h2
  have hplain : p.kind.isPlain = true := by rcases hk with hk | hk <;> rw [hk] <;> rfl
  have := plain_unclaimed x rules _ (fun prev e ⟨mt, a, b, _⟩ => ⟨mt, a, b⟩) pos evs hch hfin p hp hplain q h1 h2
  exact ⟨this, (scanAt_none_iff x rules q).1 this⟩

/-- **C03 kinds are faithful (inline loop).**  A `declined r` piece is exactly one character long. -/
theorem inlineLoop_kinds (x : RxCtx) (rules : List (String × Rx)) (h : HandlerRet) (fuel pos : Nat)
    (evs : List ScanEvent) (fin : Nat) (hrun : inlineLoop x rules h fuel pos [] = .ok (evs, fin)) :
    ∀ p ∈ piecesFrom x.n pos evs, InlinePieceOK x rules h p :=
  inline_kinds x rules h pos evs (inlineLoop_run x rules h fuel pos evs fin hrun).1

/-- **C03 (inline loop), with totality.** -/
theorem inlineLoop_partition_total (x : RxCtx) (rules : List (String × Rx)) (h : HandlerRet)
    (hc : ProgressContract h) (hr : rulesConsume rules = true) (pos : Nat) (hpos : pos ≤ x.n) :
    ∃ evs fin, inlineLoop x rules h (x.n + 1 - pos) pos [] = .ok (evs, fin) ∧
      Tiling pos (piecesFrom x.n pos evs) (max x.n fin) ∧ pos ≤ fin ∧ (HandlersBounded x h → fin ≤ x.n) ∧
      ((piecesFrom x.n pos evs).map (fun p => Py.slice x.s p.lo p.hi)).flatten
        = Py.slice x.s pos (max x.n fin) ∧
      (HandlersBounded x h ∨ x.s.size ≤ x.n →
        ((piecesFrom x.n pos evs).map (fun p => Py.slice x.s p.lo p.hi)).flatten = Py.slice x.s pos x.n) ∧
      (∀ p ∈ piecesFrom x.n pos evs, p.kind = .hole ∨ p.kind = .tail →
        ∀ q, p.lo ≤ q → q < p.hi → scanAt x rules q = none ∧ ∀ r ∈ rules, r.2.matchAt x q = none) ∧
      (∀ p ∈ piecesFrom x.n pos evs, InlinePieceOK x rules h p) := by
  obtain ⟨evs, fin, hrun, _, _⟩ := inlineLoop_total x rules h hc hr pos hpos
  obtain ⟨t1, t2, t3⟩ := inlineLoop_partition x rules h hc hr _ pos evs fin hrun
  exact ⟨evs, fin, hrun, t1, t2, fun hb => t3 hb hpos,
    inlineLoop_partition_concat_fin x rules h hc hr _ pos evs fin hrun,
    fun hend => inlineLoop_partition_concat x rules h hc hr _ pos hpos hend evs fin hrun,
    inlineLoop_holes_unclaimed x rules h _ pos evs fin hrun,
    inlineLoop_kinds x rules h _ pos evs fin hrun⟩

/-! ### Concrete runs -/

namespace C03Example

/-- two one-character rules: `*` and `_` -/
def rules : List (String × Rx) := [("star", .cls false [.chr 42]), ("us", .cls false [.chr 95])]
/-- the `star` handler accepts its match and returns the position `far` characters after its start, every
other handler declines -/
def handlers (far : Nat) : HandlerRet := fun name mt => if name = "star" then some (mt.start + far) else none
def subject : RxCtx := Py.ctxOf "a_b\nc*d".toList

theorem rules_consume : rulesConsume rules = true := by decide
theorem handlers_contract (far : Nat) (hfar : 0 < far) : ProgressContract (handlers far) := by
  intro name mt e he _
  unfold handlers at he
  split at he
  · cases he; omega
  · cases he

/-- block loop on `a_b\nc*d`: the declined `_` takes the rest of its line, `*` is handled -/
example : blockLoop subject rules (handlers 1) 8 0 [] =
    .ok ([⟨"us", 1, 2, none, 4⟩, ⟨"star", 5, 6, some 6, 6⟩], 7) := by rfl
example : piecesFrom subject.n 0 [⟨"us", 1, 2, none, 4⟩, ⟨"star", 5, 6, some 6, 6⟩] =
    [⟨.hole, 0, 1⟩, ⟨.declined "us", 1, 4⟩, ⟨.hole, 4, 5⟩, ⟨.handled "star", 5, 6⟩, ⟨.tail, 6, 7⟩] := by decide
example : pieceTexts subject.s (piecesFrom subject.n 0 [⟨"us", 1, 2, none, 4⟩, ⟨"star", 5, 6, some 6, 6⟩]) =
    ["a".toList, "_b\n".toList, "c".toList, "*".toList, "d".toList] := by decide

/-- inline loop on the same subject: the declined `_` is a one-character piece, the loop stops at 6 and the
tail `[6, 7)` is emitted after it -/
example : inlineLoop subject rules (handlers 1) 8 0 [] =
    .ok ([⟨"us", 1, 2, none, 2⟩, ⟨"star", 5, 6, some 6, 6⟩], 6) := by rfl
example : piecesFrom subject.n 0 [⟨"us", 1, 2, none, 2⟩, ⟨"star", 5, 6, some 6, 6⟩] =
    [⟨.hole, 0, 1⟩, ⟨.declined "us", 1, 2⟩, ⟨.hole, 2, 5⟩, ⟨.handled "star", 5, 6⟩, ⟨.tail, 6, 7⟩] := by decide
example : pieceTexts subject.s (piecesFrom subject.n 0 [⟨"us", 1, 2, none, 2⟩, ⟨"star", 5, 6, some 6, 6⟩]) =
    ["a".toList, "_".toList, "b\nc".toList, "*".toList, "d".toList] := by decide

/-- the generic theorem instantiated on the concrete tables -/
example : ∃ evs fin, blockLoop subject rules (handlers 1) (subject.n + 1 - 0) 0 [] = .ok (evs, fin) ∧
    Tiling 0 (piecesFrom subject.n 0 evs) fin ∧
    ((piecesFrom subject.n 0 evs).map (fun p => Py.slice subject.s p.lo p.hi)).flatten
      = Py.slice subject.s 0 subject.n := by
  obtain ⟨evs, fin, h1, h2, _, _, _, h6, _⟩ :=
    blockLoop_partition_total subject rules (handlers 1) (handlers_contract 1 (by omega)) rules_consume 0
      (Nat.zero_le _)
  exact ⟨evs, fin, h1, h2, h6 (Or.inr (by decide))⟩

/-! #### Counterexamples: why `HandlersBounded` / `x.s.size ≤ x.n` are needed

A handler may return a position beyond `x.n` (the progress contract only bounds it from below).  The loop then
exits with that cursor, the last `handled` piece sticks out of `[cursor₀, x.n)`:

* "the last piece ends at `x.n`" is false (subject `ab*c`, `n = 4`, handler returns `start + 100`): the run ends
  at 102.  The concatenation is still `src[0:4]` because slicing clamps at the end of the string.
* with `endpos` in the middle of the string (subject `ab*cdef`, `n = 4`, handler returns `start + 4 = 6`) even the
  concatenation `= src[0:n]` is false: the pieces spell `ab*cde`, not `ab*c`. -/

def short : RxCtx := Py.ctxOf "ab*c".toList
example : handlers 100 "star" ⟨2, 3, []⟩ = some 102 := by rfl   -- not bounded by `short.n = 4`
example : blockLoop short rules (handlers 100) 5 0 [] = .ok ([⟨"star", 2, 3, some 102, 102⟩], 102) := by rfl
example : piecesFrom short.n 0 [⟨"star", 2, 3, some 102, 102⟩] = [⟨.hole, 0, 2⟩, ⟨.handled "star", 2, 102⟩] := by
  decide
example : (pieceTexts short.s (piecesFrom short.n 0 [⟨"star", 2, 3, some 102, 102⟩])).flatten = "ab*c".toList := by
  decide

def cut : RxCtx := mkCtx "ab*cdef".toList 4
example : cut.n = 4 ∧ cut.s.size = 7 := by decide
example : blockLoop cut rules (handlers 4) 5 0 [] = .ok ([⟨"star", 2, 3, some 6, 6⟩], 6) := by rfl
example : inlineLoop cut rules (handlers 4) 5 0 [] = .ok ([⟨"star", 2, 3, some 6, 6⟩], 6) := by rfl
example : (pieceTexts cut.s (piecesFrom cut.n 0 [⟨"star", 2, 3, some 6, 6⟩])).flatten = "ab*cde".toList ∧
    Py.slice cut.s 0 cut.n = "ab*c".toList := by decide

/-! `rulesConsume` is needed as well: with a rule that matches the empty string only at the end (`$`), declined,
the block loop makes an EMPTY piece `[4, 4)` (so pieces are no longer non-empty) and the inline loop makes the
piece `[4, 5)` beyond the end of the source and ends at 5 (Python: `src[4:5] = ''`, harmless there). -/
def endRule : List (String × Rx) := [("end", .eos)]
example : rulesConsume endRule = false := by decide
example : blockLoop short endRule (handlers 1) 5 0 [] = .ok ([⟨"end", 4, 4, none, 4⟩], 4) := by rfl
example : inlineLoop short endRule (handlers 1) 5 0 [] = .ok ([⟨"end", 4, 4, none, 5⟩], 5) := by rfl
example : piecesFrom short.n 0 [⟨"end", 4, 4, none, 5⟩] = [⟨.hole, 0, 4⟩, ⟨.declined "end", 4, 5⟩] := by decide

end C03Example

end Mistune

