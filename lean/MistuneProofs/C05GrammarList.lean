/-
C05 for the concrete model, block pass, second part: lists (`list_parser.py`), the induction on the nesting budget
(`parseMethod_grammar`) and `blockParse_pre`: every token list returned by the block pass is in the block-pass
grammar `preSeq`, nesting clause included.
-/
import MistuneProofs.C05GrammarBlock
namespace Mistune
namespace Model
namespace Blk
namespace G

/-! ### list and list-item tokens -/

def itemCtx : TokCtx := .only ["list_item", "task_list_item"]

theorem preView_list_children (rec : List Json → TokCtx → Nat → Bool) (s : Str) (hs : String.ofList s = "list")
    (attrsJ rawJ chJ textJ : Option Json) (ctx : TokCtx) (d mx : Nat) (cs' : List Json)
    (h : preView rec (some (.str s)) attrsJ rawJ chJ textJ ctx d mx = true) :
    rec (optList chJ) itemCtx (d + 1) = true ∧ optArr chJ = true ∧ d < mx ∧
      (rec cs' itemCtx (d + 1) = true → preView rec (some (.str s)) attrsJ rawJ (some (.arr cs')) textJ ctx d mx = true) := by
  simp only [preView, hs] at h ⊢
  simp [optHas, optArr, optList, itemCtx] at h ⊢
  obtain ⟨h1, h2, h3⟩ := h
  refine ⟨h3, ?_, ?_, fun h' => ⟨h1, ?_, h'⟩⟩
  · simp_all
  · omega
  · simp_all

theorem preView_item_children (rec : List Json → TokCtx → Nat → Bool) (s : Str) (hs : String.ofList s = "list_item")
    (attrsJ rawJ chJ textJ : Option Json) (ctx : TokCtx) (d mx : Nat) (cs' : List Json)
    (h : preView rec (some (.str s)) attrsJ rawJ chJ textJ ctx d mx = true) :
    rec (optList chJ) .block d = true ∧ optArr chJ = true ∧
      (rec cs' .block d = true → preView rec (some (.str s)) attrsJ rawJ (some (.arr cs')) textJ ctx d mx = true) := by
  simp only [preView, hs] at h ⊢
  simp [optHas, optArr, optList] at h ⊢
  obtain ⟨h1, h2, h3⟩ := h
  refine ⟨h3, ?_, fun h' => ⟨h1, ?_, h'⟩⟩
  · simp_all
  · simp_all

/-- in an item context only `list_item` tokens pass -/
theorem preView_itemCtx_type (rec : List Json → TokCtx → Nat → Bool) (tyJ attrsJ rawJ chJ textJ : Option Json)
    (d mx : Nat) (h : preView rec tyJ attrsJ rawJ chJ textJ itemCtx d mx = true) :
    ∃ s, tyJ = some (.str s) ∧ String.ofList s = "list_item" := by
  unfold preView at h
  split at h
  · rename_i tyS
    refine ⟨tyS, rfl, ?_⟩
    simp only [itemCtx, isBlockCtx, Bool.false_and, Bool.and_eq_true] at h
    have h2 := h.2
    by_cases e : String.ofList tyS = "list_item"
    · exact e
    · exfalso
      revert h2
      repeat' split
      all_goals simp_all
  · cases h

theorem childrenOf_eq (t : Json) : Sat (fun l => t.get? "children" = some (.arr l)) (childrenOf t) := by
  unfold childrenOf getE
  intro l hl
  cases hg : t.get? "children" with
  | none => rw [hg] at hl; cases hl
  | some v =>
    rw [hg] at hl
    cases v with
    | arr l' =>
      have : (Except.ok l' : Except PyErr (List Json)) = .ok l := hl
      injection this with e; rw [e]
    | _ => cases hl

theorem typeOf_sat (t : Json) : Sat (fun ty => typeOf t = .ok ty) (typeOf t) := fun _ h => h

theorem sat_mapM {α β : Type} (f : α → Except PyErr β) (P : α → Prop) (Q : β → Prop)
    (hf : ∀ a, P a → Sat Q (f a)) (l : List α) (hl : ∀ a ∈ l, P a) : Sat (fun out => ∀ b ∈ out, Q b) (l.mapM f) :=
  fun out hout => mapM_ok_forall f P Q (fun a b ha hb => hf a ha b hb) l out hout hl

theorem preTok_set_children_list (rec : List Json → TokCtx → Nat → Bool) (t : Json) (s : Str)
    (ht : t.get? "type" = some (.str s)) (hs : String.ofList s = "list") (ctx : TokCtx) (d mx : Nat) (cs' : List Json)
    (h : preTok rec t ctx d mx = true) (h' : rec cs' itemCtx (d + 1) = true) :
    preTok rec (t.set "children" (.arr cs')) ctx d mx = true := by
  obtain ⟨kv, hkv⟩ := isObj_of_get? _ _ _ ht
  unfold preTok at h ⊢
  rw [get?_set_ne _ _ "type" _ (by decide), get?_set_ne _ _ "attrs" _ (by decide), get?_set_ne _ _ "raw" _ (by decide),
    get?_set_ne _ _ "text" _ (by decide)]
  have : (t.set "children" (.arr cs')).get? "children" = some (.arr cs') := by rw [hkv]; exact get?_set_self _ _ _
  rw [this]
  rw [ht] at h ⊢
  exact (preView_list_children rec s hs _ _ _ _ _ _ _ cs' h).2.2.2 h'

theorem preTok_set_children_item (rec : List Json → TokCtx → Nat → Bool) (t : Json) (s : Str)
    (ht : t.get? "type" = some (.str s)) (hs : String.ofList s = "list_item") (ctx : TokCtx) (d mx : Nat) (cs' : List Json)
    (h : preTok rec t ctx d mx = true) (h' : rec cs' .block d = true) :
    preTok rec (t.set "children" (.arr cs')) ctx d mx = true := by
  obtain ⟨kv, hkv⟩ := isObj_of_get? _ _ _ ht
  unfold preTok at h ⊢
  rw [get?_set_ne _ _ "type" _ (by decide), get?_set_ne _ _ "attrs" _ (by decide), get?_set_ne _ _ "raw" _ (by decide),
    get?_set_ne _ _ "text" _ (by decide)]
  have : (t.set "children" (.arr cs')).get? "children" = some (.arr cs') := by rw [hkv]; exact get?_set_self _ _ _
  rw [this]
  rw [ht] at h ⊢
  exact (preView_item_children rec s hs _ _ _ _ _ _ _ cs' h).2.2 h'

theorem preSeq_retype (n : Nat) (t : Json) (ctx : TokCtx) (d mx : Nat) (hty : typeOf t = .ok "paragraph")
    (h : preSeq (n + 1) [t] ctx d mx = true) : preSeq (n + 1) [t.set "type" (Json.s "block_text")] ctx d mx = true := by
  obtain ⟨s, hs1, hs2⟩ := typeOf_eq t "paragraph" (by decide) hty
  obtain ⟨kv, hkv⟩ := isObj_of_get? _ _ _ hs1
  rw [preSeq_single, preTok] at h ⊢
  rw [hs1] at h
  obtain ⟨a1, a2, a3, a4, a5, a6⟩ := preView_para_inv _ s hs2 _ _ _ _ _ _ _ h
  have : (t.set "type" (Json.s "block_text")).get? "type" = some (.str "block_text".toList) := by
    rw [hkv]; exact get?_set_self _ _ _
  rw [this, get?_set_ne _ _ _ _ (by decide), get?_set_ne _ _ _ _ (by decide), get?_set_ne _ _ _ _ (by decide),
    get?_set_ne _ _ _ _ (by decide), a5, a6]
  exact preView_textblock _ _ (Or.inr (by decide)) _ _ _ _ _ a1 a2 a3 a4

/-- `_transform_tight_list` keeps a list token inside the grammar (any fuel, context and depth) -/
theorem transformTight_ok : ∀ (fuel : Nat) (token : Json) (n : Nat) (ctx : TokCtx) (d mx : Nat) (s : Str),
    token.get? "type" = some (.str s) → String.ofList s = "list" → preSeq (n + 1) [token] ctx d mx = true →
    Sat (fun r => preSeq (n + 1) [r] ctx d mx = true) (transformTightList fuel token) := by
  intro fuel
  induction fuel with
  | zero => intro token n ctx d mx s _ _ _; unfold transformTightList; exact Sat.err
  | succ fuel ih =>
    intro token n ctx d mx s ht hs h
    unfold transformTightList
    refine Sat.bind (Sat.triv _) (fun tight _ => ?_)
    split
    · refine Sat.bind (childrenOf_eq token) (fun items hitems => ?_)
      have h0 := h
      rw [preSeq_single, preTok, ht] at h0
      obtain ⟨b1, _, _, _⟩ := preView_list_children _ s hs _ _ _ _ _ _ _ [] h0
      rw [hitems] at b1
      simp only [optList] at b1
      -- the items are checked with fuel `n`, which is therefore positive
      cases n with
      | zero => simp [preSeq] at b1
      | succ n1 =>
        refine Sat.bind (sat_mapM _ (fun it => preSeq (n1 + 1) [it] itemCtx (d + 1) mx = true)
          (fun it => preSeq (n1 + 1) [it] itemCtx (d + 1) mx = true) ?_ items ((preSeq_iff _ _ _ _ _).1 b1)) ?_
        · intro it hit
          refine Sat.bind (childrenOf_eq it) (fun cs hcs => ?_)
          have hit0 := hit
          rw [preSeq_single, preTok] at hit0
          obtain ⟨si, hsi1, hsi2⟩ := preView_itemCtx_type _ _ _ _ _ _ _ _ hit0
          rw [hsi1] at hit0
          obtain ⟨c1, _, _⟩ := preView_item_children _ si hsi2 _ _ _ _ _ _ _ [] hit0
          rw [hcs] at c1
          simp only [optList] at c1
          have hfin : ∀ cs', preSeq n1 cs' .block (d + 1) mx = true →
              preSeq (n1 + 1) [it.set "children" (.arr cs')] itemCtx (d + 1) mx = true := by
            intro cs' hcs'
            rw [preSeq_single]
            rw [preSeq_single] at hit
            exact preTok_set_children_item _ it si hsi1 hsi2 _ _ _ cs' hit hcs'
          cases n1 with
          | zero => simp [preSeq] at c1
          | succ n2 =>
            refine Sat.bind (sat_mapM _ (fun t => preSeq (n2 + 1) [t] .block (d + 1) mx = true)
              (fun t => preSeq (n2 + 1) [t] .block (d + 1) mx = true) ?_ cs ((preSeq_iff _ _ _ _ _).1 c1)) ?_
            · intro t htok
              refine Sat.bind (typeOf_sat t) (fun ty hty => ?_)
              split
              · rename_i e
                have : ty = "paragraph" := by simpa using e
                subst this
                exact Sat.pure (preSeq_retype _ _ _ _ _ hty htok)
              · split
                · rename_i e
                  have : ty = "list" := by simpa using e
                  subst this
                  obtain ⟨st, hst1, hst2⟩ := typeOf_eq t "list" (by decide) hty
                  exact ih t n2 .block (d + 1) mx st hst1 hst2 htok
                · exact Sat.pure htok
            · intro cs' hcs'
              exact Sat.pure (hfin cs' ((preSeq_iff _ _ _ _ _).2 hcs'))
        · intro items' hitems'
          refine Sat.pure ?_
          rw [preSeq_single] at h ⊢
          exact preTok_set_children_list _ token s ht hs _ _ _ items' h ((preSeq_iff _ _ _ _ _).2 hitems')
    · exact Sat.pure h

/-! ### the list token under construction -/

/-- the list token while its items are collected: in the grammar, and of type `list` -/
def LTok (mx d : Nat) (token : Json) : Prop :=
  TokOk mx d token ∧ ∃ s, token.get? "type" = some (.str s) ∧ String.ofList s = "list"

theorem TokOk.set_other {mx d : Nat} {t : Json} (h : TokOk mx d t) (k : String) (v : Json)
    (hk : k ≠ "type" ∧ k ≠ "attrs" ∧ k ≠ "raw" ∧ k ≠ "children" ∧ k ≠ "text") : TokOk mx d (t.set k v) := by
  unfold TokOk gF at *
  rw [preSeq_set_other _ _ _ _ _ _ _ hk]; exact h

theorem TokOk.erase_other {mx d : Nat} {t : Json} (h : TokOk mx d t) (k : String)
    (hk : k ≠ "type" ∧ k ≠ "attrs" ∧ k ≠ "raw" ∧ k ≠ "children" ∧ k ≠ "text") : TokOk mx d (t.erase k) := by
  unfold TokOk gF at *
  rw [preSeq_erase_other _ _ _ _ _ _ hk]; exact h

theorem LTok.set_other {mx d : Nat} {t : Json} (h : LTok mx d t) (k : String) (v : Json)
    (hk : k ≠ "type" ∧ k ≠ "attrs" ∧ k ≠ "raw" ∧ k ≠ "children" ∧ k ≠ "text") : LTok mx d (t.set k v) := by
  obtain ⟨h1, s, h2, h3⟩ := h
  exact ⟨h1.set_other k v hk, s, by rw [get?_set_ne _ _ "type" _ (Ne.symm hk.1)]; exact h2, h3⟩

theorem LTok.erase_other {mx d : Nat} {t : Json} (h : LTok mx d t) (k : String)
    (hk : k ≠ "type" ∧ k ≠ "attrs" ∧ k ≠ "raw" ∧ k ≠ "children" ∧ k ≠ "text") : LTok mx d (t.erase k) := by
  obtain ⟨h1, s, h2, h3⟩ := h
  exact ⟨h1.erase_other k hk, s, by rw [get?_erase_ne _ _ "type" (Ne.symm hk.1)]; exact h2, h3⟩

theorem LTok.lt {mx d : Nat} {t : Json} (h : LTok mx d t) : d < mx := by
  obtain ⟨h1, s, h2, h3⟩ := h
  unfold TokOk gF at h1
  rw [preSeq_single, preTok, h2] at h1
  exact (preView_list_children _ s h3 _ _ _ _ _ _ _ [] h1).2.2.1

theorem LTok.add_item {mx d : Nat} {token : Json} (h : LTok mx d token) (children : List Json)
    (hch : token.get? "children" = some (.arr children)) (cs : List Json) (hcs : ∀ t ∈ cs, TokOk mx (d + 1) t) :
    LTok mx d (token.set "children" (.arr (children ++ [tok "list_item" [("children", .arr cs)]]))) := by
  have hd := h.lt
  obtain ⟨h1, s, h2, h3⟩ := h
  refine ⟨?_, s, by rw [get?_set_ne _ _ "type" _ (by decide)]; exact h2, h3⟩
  unfold TokOk at h1 ⊢
  rw [gF_succ mx d hd, preSeq_single] at h1 ⊢
  refine preTok_set_children_list _ token s h2 h3 _ _ _ _ h1 ?_
  have h0 := h1
  rw [preTok, h2] at h0
  obtain ⟨b1, _, _, _⟩ := preView_list_children _ s h3 _ _ _ _ _ _ _ [] h0
  rw [hch] at b1
  simp only [optList] at b1
  rw [preSeq_append, b1, Bool.true_and, preSeq_single]
  have hrec : preSeq (gF mx (d + 1)) cs .block (d + 1) mx = true := by
    unfold TokOk gF at hcs
    unfold gF
    exact (preSeq_iff _ _ _ _ _).2 hcs
  have hle : d + 1 ≤ mx := hd
  simp [preTok, preView, tok, Json.get?, List.lookup, Json.s, isItemCtx, itemCtx, optHas, optArr, optList, attrsOkB,
    attrsOkT, attrsShape, hle, hrec]

/-- the attributes of a list token -/
def listAttrsB (a : Json) : Bool :=
  (match a with | .obj _ => true | _ => false) &&
  (match a.get? "ordered" with | some (.bool _) => true | _ => false) && isIntJ (a.get? "depth") &&
  (match a.get? "start" with | none => true | some (.num _) => true | _ => false) &&
  attrsShape "list" (some a)

theorem lTok_init (mx d : Nat) (hd : d < mx) (attrs : Json) (ha : listAttrsB attrs = true) (b : Json) :
    LTok mx d (tok "list" [("children", .arr []), ("tight", .bool true), ("bullet", b), ("attrs", attrs)]) := by
  refine ⟨?_, "list".toList, rfl, by decide⟩
  unfold TokOk
  rw [gF_succ mx d hd, preSeq_single]
  have hle : d ≤ mx := by omega
  have hle1 : d + 1 ≤ mx := hd
  unfold listAttrsB at ha
  simp only [Bool.and_eq_true] at ha
  obtain ⟨⟨⟨⟨a1, a2⟩, a3⟩, a4⟩, a5⟩ := ha
  have a1' : attrsOkT "list" (some attrs) = true := by
    unfold attrsOkT attrsOkB
    rw [a5, Bool.and_true]
    split at a1
    · rfl
    · cases a1
  simp [preTok, preView, tok, Json.get?, List.lookup, Json.s, isBlockCtx, optHas, optArr, optList, a1',
    hle, hle1, preSeq]
  exact ⟨⟨a2, a3⟩, a4⟩

/-! ### `_parse_list_item`, `parse_list` -/

/-- state and list token after a step of the item machinery -/
def ItemPost (mx : Nat) (st : BlockState) (token : Json) (st' : BlockState) : Prop :=
  Keeps mx st st' ∧ LTok mx st.depth token

theorem listItemLoop_ok (cfg : MdCfg) (pm : ParseMethod) (hpm : PMGrammar cfg pm)
    (sc : List (String × Rx)) (hatx : AtxSc cfg sc) (text continueSpace : Str) :
    ∀ (fuel pos : Nat) (src : Str) (pbl : Bool) (token : Json) (st : BlockState), TokensOk cfg.maxNested st →
      LTok cfg.maxNested st.depth token →
      Sat (fun res => ItemPost cfg.maxNested st res.2.2.1 res.2.2.2)
        (listItemLoop cfg pm sc text continueSpace fuel pos src pbl token st) := by
  intro fuel
  induction fuel with
  | zero =>
    intro pos src pbl token st h htok
    unfold listItemLoop
    split
    · exact Sat.err
    · exact Sat.ok ⟨Keeps.refl h, htok⟩
  | succ fuel ih =>
    intro pos src pbl token st h htok
    unfold listItemLoop
    split
    · refine Sat.bind (Sat.triv _) (fun pos' _ => ?_)
      have hrec : ∀ (src' : Str) (pbl' : Bool) (st1 : BlockState), Keeps cfg.maxNested st st1 →
          Sat (fun res => ItemPost cfg.maxNested st res.2.2.1 res.2.2.2)
            (listItemLoop cfg pm sc text continueSpace fuel pos' src' pbl' token { st1 with cursor := pos' }) := by
        intro src' pbl' st1 hk
        have hk' : Keeps cfg.maxNested st { st1 with cursor := pos' } := Keeps.cursor _ hk
        refine (ih pos' src' pbl' token _ hk'.1 (by rw [hk'.2.1]; exact htok)).mono ?_
        rintro ⟨s', ng, tk, st'⟩ ⟨q1, q2⟩
        exact ⟨Keeps.trans hk' q1, by rw [← hk'.2.1]; exact q2⟩
      extract_lets line line2 jp token2 tokIndex
      have htok2 : LTok cfg.maxNested st.depth token2 := by
        show LTok _ _ (if pbl = true then token.set "tight" (Json.bool false) else token)
        split
        · exact htok.set_other _ _ (by decide)
        · exact htok
      clear_value token2
      have hjp : ∀ (stop : Option (Option ItemGroups × Json)) (st1 : BlockState), Keeps cfg.maxNested st st1 →
          (∀ ng tk, stop = some (ng, tk) → LTok cfg.maxNested st.depth tk) →
          Sat (fun res => ItemPost cfg.maxNested st res.2.2.1 res.2.2.2) (jp (stop, st1)) := by
        intro stop st1 hk e4
        show Sat _ (match stop with | some (nextGroup, token) => _ | none => _)
        split
        · rename_i ng tk
          exact Sat.pure ⟨hk, e4 ng tk rfl⟩
        · split
          · exact Sat.pure ⟨hk, htok⟩
          · exact hrec _ _ st1 hk
      clear_value jp
      split
      · exact hrec _ _ st (Keeps.refl h)
      · split
        · split
          · exact Sat.pure ⟨Keeps.refl h, htok⟩
          · exact hrec _ _ st (Keeps.refl h)
        · split
          · rename_i tokType m hm
            obtain ⟨_, _, _, r, hmem, hspec⟩ := scMatch_sound _ _ _ _ _ hm
            split
            · simp only [pure_bind]
              refine hjp _ _ (Keeps.cursor _ (Keeps.refl h)) ?_
              intro ng tk e; cases e; exact htok2
            · split
              · simp only [pure_bind]
                refine hjp _ _ (Keeps.refl h) ?_
                intro ng tk e; cases e; exact htok
              · rename_i hnl hnc
                refine Sat.bind (hpm _ _ _ h (fun hc => ?_) (fun ha => ?_)) ?_
                · exfalso; apply hnc
                  rcases hc with hc | hc <;> simp [hc]
                · subst ha; unfold grp; exact hatx _ _ _ hmem hspec
                rintro ⟨endPos, st1⟩ hp
                show Sat _ (if truthyPos endPos = true then _ else _)
                split
                · simp only [pure_bind]
                  refine hjp _ _ hp ?_
                  intro ng tk e; cases e
                  exact (htok.set_other _ _ (by decide)).set_other _ _ (by decide)
                · simp only [pure_bind]
                  exact hjp _ _ hp (fun ng tk e => by cases e)
          · simp only [pure_bind]
            exact hjp _ _ (Keeps.refl h) (fun ng tk e => by cases e)
    · exact Sat.ok ⟨Keeps.refl h, htok⟩

theorem parseListItem_ok (cfg : MdCfg) (pm : ParseMethod) (hpm : PMGrammar cfg pm)
    (hatx : AtxSc cfg cfg.blockSpec) (bullet : Char) (hb : ∀ lw, AtxSc cfg (listItemSc cfg bullet lw))
    (groups : ItemGroups) (token : Json) (st : BlockState) (rules : List String)
    (h : TokensOk cfg.maxNested st) (htok : LTok cfg.maxNested st.depth token)
    (hr : RulesOk cfg.maxNested (st.depth + 1) rules) :
    Sat (fun res => ItemPost cfg.maxNested st res.2.1 res.2.2) (parseListItem cfg pm bullet groups token st rules) := by
  unfold parseListItem
  obtain ⟨spaces, marker, text⟩ := groups
  dsimp only
  refine Sat.bind (listItemLoop_ok cfg pm hpm _ (hb _) _ _ (st.cursorMax + 1) st.cursor [] false token st h htok) ?_
  rintro ⟨src, ng, tk, st1⟩ ⟨q1, q2⟩
  dsimp only at q1 q2 ⊢
  have hd1 : st1.depth < cfg.maxNested := by rw [q1.2.1]; exact htok.lt
  refine Sat.bind (parse_ok cfg pm hpm hatx _ (some rules) (tokensOk_child st1 _ hd1 q1.1.2.2)
    (by show RulesOk _ (st1.depth + 1) rules; rw [q1.2.1]; exact hr)) (fun child hc => ?_)
  have hdc : child.depth = st1.depth + 1 := hc.2.1
  have hcs : ∀ t ∈ child.tokens, TokOk cfg.maxNested (st.depth + 1) t := by
    intro t ht
    have := hc.1.2.1 t ht
    rw [hdc, q1.2.1] at this
    exact this
  refine Sat.bind (Sat.triv _) (fun a _ => ?_)
  refine Sat.bind (Sat.triv _) (fun b _ => ?_)
  split
  · simp only [pure_bind]
    refine Sat.bind (childrenOf_eq _) (fun cs hcs' => ?_)
    exact Sat.pure ⟨Keeps.env _ q1 hc.1.2.2, (q2.set_other _ _ (by decide)).add_item cs hcs' _ hcs⟩
  · simp only [pure_bind]
    refine Sat.bind (childrenOf_eq _) (fun cs hcs' => ?_)
    exact Sat.pure ⟨Keeps.env _ q1 hc.1.2.2, q2.add_item cs hcs' _ hcs⟩

theorem listItemsLoop_ok (cfg : MdCfg) (pm : ParseMethod) (hpm : PMGrammar cfg pm)
    (hatx : AtxSc cfg cfg.blockSpec) (bullet : Char) (hb : ∀ lw, AtxSc cfg (listItemSc cfg bullet lw))
    (rules : List String) (d : Nat) (hr : RulesOk cfg.maxNested (d + 1) rules) :
    ∀ (fuel : Nat) (groups : Option ItemGroups) (token : Json) (st : BlockState), TokensOk cfg.maxNested st →
      st.depth = d → LTok cfg.maxNested st.depth token →
      Sat (fun res => ItemPost cfg.maxNested st res.1 res.2) (listItemsLoop cfg pm bullet rules fuel groups token st) := by
  intro fuel
  induction fuel with
  | zero =>
    intro groups token st h hd htok
    cases groups with
    | none => unfold listItemsLoop; exact Sat.ok ⟨Keeps.refl h, htok⟩
    | some g => unfold listItemsLoop; exact Sat.err
  | succ fuel ih =>
    intro groups token st h hd htok
    cases groups with
    | none => unfold listItemsLoop; exact Sat.ok ⟨Keeps.refl h, htok⟩
    | some g =>
      unfold listItemsLoop
      refine Sat.bind (parseListItem_ok cfg pm hpm hatx bullet hb g token st rules h htok (by rw [hd]; exact hr)) ?_
      rintro ⟨ng, tk, st1⟩ ⟨q1, q2⟩
      dsimp only at q1 q2 ⊢
      refine (ih ng tk st1 q1.1 (q1.2.1.trans hd) (by rw [q1.2.1]; exact q2)).mono ?_
      rintro ⟨tk', st'⟩ ⟨r1, r2⟩
      exact ⟨Keeps.trans q1 r1, by rw [← q1.2.1]; exact r2⟩

theorem parseList_ok (cfg : MdCfg) (pm : ParseMethod) (hpm : PMGrammar cfg pm)
    (hatx : AtxSc cfg cfg.blockSpec) (hb : ∀ bullet lw, AtxSc cfg (listItemSc cfg bullet lw))
    (mt : RxMatch) (st : BlockState) (h : TokensOk cfg.maxNested st) (hd : st.depth < cfg.maxNested) :
    Sat (GPost cfg.maxNested st) (parseList cfg pm mt st) := by
  unfold parseList
  extract_lets text jp
  have hjp : ∀ res : Option Nat × BlockState, Keeps cfg.maxNested st res.2 → Sat (GPost cfg.maxNested st) (jp res) := by
    rintro ⟨early, st1⟩ hk
    dsimp only at hk
    show Sat _ (if truthyPos early = true then _ else _)
    split
    · exact Sat.pure hk
    extract_lets marker ordered depth attrs rules jpLast
    have hLast : ∀ last, Sat (GPost cfg.maxNested st) (jpLast last) := by
      intro last
      unfold jpLast
      extract_lets +onlyGivenNames bullet jp2
      have hjp2 : ∀ res : Option Nat × Json × BlockState, Keeps cfg.maxNested st res.2.2 →
          listAttrsB res.2.1 = true → Sat (GPost cfg.maxNested st) (jp2 res) := by
        rintro ⟨early2, attrs2, st2⟩ hk2 hattrs
        dsimp only at hk2 hattrs
        show Sat _ (if truthyPos early2 = true then _ else _)
        split
        · exact Sat.pure hk2
        extract_lets +onlyGivenNames token st3 groups
        have hk3 : Keeps cfg.maxNested st st3 := Keeps.cursor _ hk2
        have hd3 : st3.depth < cfg.maxNested := by rw [hk3.2.1]; exact hd
        have htok0 : LTok cfg.maxNested st3.depth token := lTok_init _ _ hd3 _ hattrs _
        have hrules : RulesOk cfg.maxNested (st3.depth + 1) rules := by
          show RulesOk _ _ (if depth + 1 ≥ cfg.maxNested then _ else _)
          split
          · exact rulesOk_without _ _ _
          · rename_i hlt
            intro n _ _
            have e1 : depth = st1.depth := rfl
            have e2 : st3.depth = st2.depth := rfl
            have := hk.2.1
            have := hk2.2.1
            omega
        refine Sat.bind (listItemsLoop_ok cfg pm hpm hatx bullet (hb bullet) rules st3.depth hrules (st3.cursorMax + 2)
          (some groups) token st3 hk3.1 rfl htok0) ?_
        rintro ⟨tk, st4⟩ ⟨r1, r2⟩
        dsimp only at r1 r2
        dsimp -zeta only
        extract_lets +onlyGivenNames endPos tk2
        clear_value endPos
        have hk4 : Keeps cfg.maxNested st st4 := Keeps.trans hk3 r1
        have r3 : LTok cfg.maxNested st3.depth tk2 := r2.erase_other _ (by decide)
        obtain ⟨r31, s, r32, r33⟩ := r3
        have r34 : preSeq (2 * (cfg.maxNested - st3.depth) + 1) [tk2] .block st3.depth cfg.maxNested = true := r31
        refine Sat.bind (transformTight_ok _ tk2 _ _ _ _ s r32 r33 r34) (fun tk3 htk3 => ?_)
        have htk3' : TokOk cfg.maxNested st4.depth tk3 := by
          rw [r1.2.1]; exact htk3
        split
        · refine Sat.bind (Sat.triv _) (fun idx _ => ?_)
          extract_lets +onlyGivenNames tk4 jp4
          have hjp4 : ∀ i, Sat (GPost cfg.maxNested st) (jp4 i) := by
            intro i
            exact Sat.pure ⟨tokensOk_insert _ hk4.1 (htk3'.erase_other _ (by decide)), hk4.2.1, hk4.2.2⟩
          clear_value jp4
          split
          · simp only [pure_bind]; exact hjp4 _
          · exact Sat.throw
        · exact Sat.pure (Keeps.append hk4 (by rw [← hk4.2.1]; exact htk3'))
      clear_value jp2
      have hattrs0 : listAttrsB attrs = true := by
        simp [attrs, listAttrsB, Json.get?, List.lookup, isIntJ, attrsShape, plainJ]
      split
      · extract_lets +onlyGivenNames jp3
        have hjp3 : ∀ start, Sat (GPost cfg.maxNested st) (jp3 start) := by
          intro start
          show Sat _ (if (start != 1) = true then _ else _)
          split
          · refine Sat.bind (appendParagraph_ok _ cfg st1 hk.1) ?_
            rintro ⟨e, st2⟩ g1
            dsimp only at g1
            show Sat _ (if truthyPos e = true then _ else _)
            split
            · simp only [pure_bind]
              exact hjp2 _ (Keeps.trans hk g1) hattrs0
            · simp only [pure_bind]
              refine hjp2 _ (Keeps.trans hk g1) ?_
              simp [attrs, listAttrsB, Json.get?, Json.set, List.lookup, isIntJ, attrsShape, plainJ]
          · simp only [pure_bind]
            exact hjp2 _ hk hattrs0
        clear_value jp3
        split
        · simp only [pure_bind]; exact hjp3 _
        · exact Sat.throw
      · simp only [pure_bind]
        exact hjp2 _ hk hattrs0
    clear_value jpLast
    split
    · simp only [pure_bind]; exact hLast _
    · exact Sat.throw
  clear_value jp
  split
  · exact Sat.bind (appendParagraph_ok _ cfg st h) (fun res hres => hjp res hres)
  · simp only [pure_bind]
    exact hjp _ (Keeps.refl h)

/-- `math.parse_block_math` -/
theorem parseBlockMath_ok (cfg : MdCfg) (mx : Nat) (mt : RxMatch) (st : BlockState) (h : TokensOk mx st) :
    Sat (GPost mx st) (parseBlockMath cfg mt st) := by
  unfold parseBlockMath
  refine Sat.ok (Keeps.append (Keeps.refl h) ?_)
  have hd := h.1
  unfold TokOk gF
  simp [preSeq, preTok, preView, tok, Json.get?, List.lookup, Json.s, isBlockCtx, optHas, optStr,
      optArr, optList, attrsOkB, attrsOkT, attrsShape, hd]

/-- `speedup.parse_paragraph` -/
theorem parseParagraph_ok (mx : Nat) (mt : RxMatch) (st : BlockState) (h : TokensOk mx st) :
    Sat (GPost mx st) (parseParagraph mt st) := by
  unfold parseParagraph
  exact Sat.bind (addParagraph_ok _ _ _ h) (fun a ha => Sat.pure ha)

/-! ### induction on the nesting budget -/

/-- the ATX rules of the configuration (block specification, list-item break rules) capture one to six `#` -/
def CfgAtx (cfg : MdCfg) : Prop :=
  AtxSc cfg cfg.blockSpec ∧ ∀ bullet lw, AtxSc cfg (listItemSc cfg bullet lw)

/-- no uncovered block plugin rule is registered (decidable); covered: `paragraph` (speedup), `block_math` (math), the `spoiler` rebinding of
`block_quote` -/
def noBlockPlugins (cfg : MdCfg) : Bool :=
  !registered cfg "table" && !registered cfg "nptable" && !registered cfg "ref_footnote" &&
    !registered cfg "def_list" && !registered cfg "ref_abbr" && !fencedCodeRebound cfg &&
    !registered cfg "rst_directive" && !registered cfg "fenced_directive"

/-- **every instance of `parse_method` satisfies the grammar contract** -/
theorem parseMethod_grammar (cfg : MdCfg) (hatx : CfgAtx cfg) (hnp : noBlockPlugins cfg = true) :
    ∀ fuel, PMGrammar cfg (parseMethod cfg fuel) := by
  intro fuel
  simp only [noBlockPlugins, Bool.and_eq_true, Bool.not_eq_true'] at hnp
  obtain ⟨⟨⟨⟨⟨⟨⟨p1, p2⟩, p3⟩, p4⟩, p5⟩, p9⟩, p10⟩, p11⟩ := hnp
  induction fuel with
  | zero =>
    intro name mt st _ _ _
    exact Sat.err
  | succ fuel ih =>
    intro name mt st h hc ha
    unfold parseMethod
    dsimp only
    split
    · exact parseBlankLine_ok _ mt st h
    · exact parseAtxHeading_ok cfg _ mt st h (ha rfl)
    · exact parseSetexHeading_ok cfg _ ih mt st h
    · rw [p9]; exact parseFencedCode_ok cfg _ mt st h
    · exact parseIndentCode_ok cfg _ mt st h
    · exact parseThematicBreak_ok _ mt st h
    · exact parseRefLink_ok cfg _ mt st h
    · split
      · exact parseBlockSpoiler_ok cfg _ ih hatx.1 mt st h (hc (Or.inl rfl))
      · exact parseBlockQuote_ok cfg _ ih hatx.1 mt st h (hc (Or.inl rfl))
    · exact parseList_ok cfg _ ih hatx.1 hatx.2 mt st h (hc (Or.inr rfl))
    · exact parseRawHtml_ok cfg _ mt st h
    · exact parseRawHtml_ok cfg _ mt st h
    · rw [p1]; exact Sat.err
    · rw [p2]; exact Sat.err
    · rw [p3]; exact Sat.err
    · rw [p4]; exact Sat.err
    · rw [p5]; exact Sat.err
    · split
      · exact parseBlockMath_ok cfg _ mt st h
      · exact Sat.err
    · split
      · exact parseParagraph_ok _ mt st h
      · exact Sat.err
    · rw [p10]; exact Sat.err
    · rw [p11]; exact Sat.err
    · exact Sat.err

/-- **the block pass returns a token list of the block-pass grammar** (nesting clause included) -/
theorem blockParse_pre (cfg : MdCfg) (hatx : CfgAtx cfg) (hnp : noBlockPlugins cfg = true) (hmx : 1 ≤ cfg.maxNested)
    (src : Str) (toks : List Json) (env : Json) (h : Model.blockParse cfg src = .ok (toks, env)) :
    preSeq (2 * cfg.maxNested + 1) toks .block 0 cfg.maxNested = true ∧ EnvOk env := by
  unfold Model.blockParse Blk.blockParse at h
  dsimp only at h
  have hroot : TokensOk cfg.maxNested (BlockState.root src) := by
    refine ⟨Nat.zero_le _, fun t ht => ?_, ?_⟩
    · simp [BlockState.root, BlockState.process] at ht
    · intro refLinks hr key e he
      simp [BlockState.root, BlockState.process, Json.get?, List.lookup] at hr
      subst hr
      simp [Json.get?, List.lookup] at he
  have hr : RulesOk cfg.maxNested (BlockState.root src).depth ((none : Option (List String)).getD cfg.blockRules) := by
    intro n _ _
    show 0 < cfg.maxNested
    omega
  have := parse_ok cfg _ (parseMethod_grammar cfg hatx hnp (nestFuel cfg src)) hatx.1 (BlockState.root src) none hroot hr
  cases hp : parse cfg (parseMethod cfg (nestFuel cfg src)) (BlockState.root src) none with
  | error e => rw [hp] at h; cases h
  | ok st =>
    rw [hp] at h
    have hk := this st hp
    have e : toks = st.tokens := by
      have : (Except.ok (st.tokens, st.env) : Except PyErr (List Json × Json)) = .ok (toks, env) := h
      injection this with e; injection e with e1 e2; exact e1.symm
    have e' : env = st.env := by
      have : (Except.ok (st.tokens, st.env) : Except PyErr (List Json × Json)) = .ok (toks, env) := h
      injection this with e; injection e with e1 e2; exact e2.symm
    subst e e'
    have hd : st.depth = 0 := hk.2.1
    have := hk.1.2.1
    rw [hd] at this
    unfold TokOk gF at this
    exact ⟨(preSeq_iff _ _ _ _ _).2 this, hk.1.2.2⟩

end G
end Blk
end Model
end Mistune

#print axioms Mistune.Model.Blk.G.blockParse_pre
