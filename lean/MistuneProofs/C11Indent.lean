/-
C11 (indented code): the text computation of `parse_indent_code` (`Model.Blk.indentBody`) is, line by line,
"expand a leading tab to the four-column stop, remove up to four leading blanks", followed by `strip("\n")`.

Both regexes (`_expand_tab_re = ^( {0,3})\t`, `_INDENT_CODE_TRIM = ^ {1,4}`, both `re.M`) are *line-head* patterns: they
match only at a line start, never across a newline, never empty.  `lineSub` is the exact evaluation of `Py.reSub` for
any such pattern (loop invariant of the `sub` scan, including the positions where the pattern does not match); the two
regexes are then evaluated exactly on the engine (greedy path for success, `matchAt_sound` + `Spec` inversion for
failure), as in `C11Fence`.
-/
import MistuneProofs.C11Fence
namespace Mistune
open Mistune.Model Mistune.Model.Blk Mistune.Generated

/-! ### the two regexes, as expected; kernel-decided against the regenerated table -/

/-- `re.compile(r"^( {0,3})\t", flags=re.M)` -/
def expandTabRxExpected : Rx :=
  .seq .bol (.seq (.grp 1 (.rep (.cls false [.chr 32]) 0 (some 3) true)) (.cls false [.chr 9]))

/-- `re.compile(r"^ {1,4}", flags=re.M)` -/
def indentTrimRxExpected : Rx := .seq .bol (.rep (.cls false [.chr 32]) 1 (some 4) true)

/-- **Obligation:** the regenerated `mistune.util._expand_tab_re` is the expected term. -/
theorem expandTabRx_lookup : namedRx.lookup "mistune.util._expand_tab_re" = some expandTabRxExpected := by
  decide +kernel

/-- **Obligation:** the regenerated `mistune.block_parser._INDENT_CODE_TRIM` is the expected term. -/
theorem indentTrimRx_lookup :
    namedRx.lookup "mistune.block_parser._INDENT_CODE_TRIM" = some indentTrimRxExpected := by
  decide +kernel

/-! ### first line of a text -/

/-- the text up to (excluding) the first newline -/
def firstLine : Str → Str
  | [] => []
  | ch :: r => if ch = '\n' then [] else ch :: firstLine r

theorem firstLine_no_nl (b : Str) : '\n' ∉ firstLine b := by
  induction b with
  | nil => simp [firstLine]
  | cons ch r ih =>
    simp only [firstLine]
    split
    · simp
    · rename_i h
      intro e
      rcases List.mem_cons.mp e with e | e
      · exact h e.symm
      · exact ih e

/-- a text is its first line, followed by nothing or by a newline and the rest -/
theorem firstLine_spec (b : Str) : ∃ tl, b = firstLine b ++ tl ∧ (tl = [] ∨ ∃ v, tl = '\n' :: v) := by
  induction b with
  | nil => exact ⟨[], rfl, Or.inl rfl⟩
  | cons ch r ih =>
    simp only [firstLine]
    split
    · rename_i h
      exact ⟨ch :: r, rfl, Or.inr ⟨r, by rw [h]⟩⟩
    · obtain ⟨tl, h1, h2⟩ := ih
      exact ⟨tl, by rw [List.cons_append, ← h1], h2⟩

theorem firstLine_append (u v : Str) (hu : '\n' ∉ u) : firstLine (u ++ v) = u ++ firstLine v := by
  induction u with
  | nil => rfl
  | cons ch r ih =>
    have h1 : ch ≠ '\n' := fun e => hu (by simp [e])
    have h2 : '\n' ∉ r := fun e => hu (by simp [e])
    simp [firstLine, h1, ih h2]

theorem firstLine_cons (ch : Char) (r : Str) (h : ch ≠ '\n') : firstLine (ch :: r) = ch :: firstLine r := by
  simp [firstLine, h]

theorem firstLine_nl (r : Str) : firstLine ('\n' :: r) = [] := by simp [firstLine]

/-- the characters of the first line are the first characters of the text -/
theorem firstLine_getElem? (b : Str) (i : Nat) (ch : Char) (h : (firstLine b)[i]? = some ch) : b[i]? = some ch := by
  obtain ⟨tl, h1, _⟩ := firstLine_spec b
  have hi : i < (firstLine b).length := by
    rcases Nat.lt_or_ge i (firstLine b).length with h' | h'
    · exact h'
    · rw [List.getElem?_eq_none h'] at h; cases h
  rw [h1, List.getElem?_append_left hi, h]

theorem spRun_firstLine (k : Nat) (b : Str) : spRun k (firstLine b) = spRun k b := by
  induction k generalizing b with
  | zero => simp [spRun]
  | succ k ih =>
    cases b with
    | nil => rfl
    | cons ch r =>
      by_cases hnl : ch = '\n'
      · subst hnl; simp [firstLine, spRun]
      · rw [firstLine_cons _ _ hnl]
        by_cases hsp : ch = ' '
        · subst hsp; simp [spRun, ih]
        · simp [spRun, hsp]

/-! ### line-wise rewriting (generalises `trimLines` / `midLines`) -/

/-- apply `f` to every line -/
def subLines (f : Str → Str) (t : Str) : Str := Py.join ['\n'] ((splitNl t).map f)

/-- the same, except for the first line (the text starts in the middle of a line) -/
def midSub (f : Str → Str) (t : Str) : Str :=
  match splitNl t with
  | l :: ls => Py.join ['\n'] (l :: ls.map f)
  | [] => []

theorem trimLines_eq_subLines (k : Nat) (t : Str) : trimLines k t = subLines (dropUpTo k) t := rfl

theorem midSub_nil (f : Str → Str) : midSub f [] = [] := rfl

theorem midSub_nl (f : Str → Str) (r : Str) : midSub f ('\n' :: r) = '\n' :: subLines f r := by
  unfold midSub subLines
  cases hs : splitNl r with
  | nil => exact absurd hs (splitNl_ne_nil r)
  | cons l ls => simp [splitNl, hs, Py.join]

theorem midSub_cons (f : Str → Str) (ch : Char) (r : Str) (h : ch ≠ '\n') :
    midSub f (ch :: r) = ch :: midSub f r := by
  unfold midSub
  cases hs : splitNl r with
  | nil => exact absurd hs (splitNl_ne_nil r)
  | cons l ls =>
    simp only [splitNl, h, if_false, hs, consHead]
    cases ls with
    | nil => simp [Py.join]
    | cons l2 ls2 => simp [Py.join]

theorem subLines_nl (f : Str → Str) (r : Str) : subLines f ('\n' :: r) = f [] ++ '\n' :: subLines f r := by
  unfold subLines
  cases hs : splitNl r with
  | nil => exact absurd hs (splitNl_ne_nil r)
  | cons l ls => simp [splitNl, hs, Py.join]

/-- `subLines` and `midSub` differ only on the first line; `midSub` commutes with dropping a part of the first line -/
theorem subLines_midSub (f : Str → Str) (b : Str) :
    ∃ T, subLines f b = f (firstLine b) ++ T ∧
      ∀ n, n ≤ (firstLine b).length → midSub f (b.drop n) = (firstLine b).drop n ++ T := by
  obtain ⟨tl, h1, h2⟩ := firstLine_spec b
  have hl := firstLine_no_nl b
  generalize firstLine b = l at h1 hl
  subst h1
  rcases h2 with rfl | ⟨v, rfl⟩
  · refine ⟨[], ?_, ?_⟩
    · simp only [List.append_nil, subLines, splitNl_no_nl l hl]; rfl
    · intro n _
      have : '\n' ∉ l.drop n := fun e => hl (List.mem_of_mem_drop e)
      simp only [List.append_nil, midSub, splitNl_no_nl _ this]; rfl
  · refine ⟨'\n' :: subLines f v, ?_, ?_⟩
    · unfold subLines
      rw [splitNl_line_nl l v hl]
      cases hs : splitNl v with
      | nil => exact absurd hs (splitNl_ne_nil v)
      | cons l2 ls => simp [Py.join]
    · intro n hn
      have : '\n' ∉ l.drop n := fun e => hl (List.mem_of_mem_drop e)
      rw [List.drop_append_of_le_length hn]
      unfold midSub subLines
      rw [splitNl_line_nl _ v this]
      cases hs : splitNl v with
      | nil => exact absurd hs (splitNl_ne_nil v)
      | cons l2 ls => simp [Py.join]

/-! ### `sub` with a line-head pattern -/

/-- rewrite of one line: the first `len l` characters are replaced by `out l` (`len l = 0`: no match) -/
def rwLine (len : Str → Nat) (out : Str → Str) (l : Str) : Str :=
  if 0 < len l then out l ++ l.drop (len l) else l

/-- `r` (with replacement function `repl`) is a line-head pattern: it matches exactly at the line starts whose line
`l` has `len l > 0`, the match is the first `len l` characters of that line, and the replacement is `out l`. -/
structure LineSub (r : Rx) (repl : Array Char → RxMatch → Str) (len : Str → Nat) (out : Str → Str) : Prop where
  len_le : ∀ l, len l ≤ l.length
  hit : ∀ (t : Str) (q : Nat), q ≤ t.length → bolAt t q → 0 < len (firstLine (t.drop q)) →
    ∃ mt, r.matchAt (Py.ctxOf t) q = some mt ∧ mt.start = q ∧ mt.stop = q + len (firstLine (t.drop q)) ∧
      repl (Py.ctxOf t).s mt = out (firstLine (t.drop q))
  miss : ∀ (t : Str) (q : Nat) (mt : RxMatch), q ≤ t.length → r.matchAt (Py.ctxOf t) q = some mt →
    bolAt t q ∧ 0 < len (firstLine (t.drop q))

/-- what remains to be produced from position `p` on -/
def tailSpec (f : Str → Str) (t : Str) (p : Nat) : Str :=
  if bolAt t p then subLines f (t.drop p) else midSub f (t.drop p)

theorem search_skip (r : Rx) (x : RxCtx) (p : Nat) (hp : p < x.n) (h : r.matchAt x p = none) :
    r.search x p = r.search x (p + 1) := by
  unfold Rx.search
  rw [show x.n + 2 - p = (x.n + 2 - (p + 1)) + 1 by omega, Rx.searchFrom, if_neg (by omega), h]

theorem rwLine_nil {len : Str → Nat} {out : Str → Str} (hlen : ∀ l, len l ≤ l.length) : rwLine len out [] = [] := by
  have := hlen []
  simp only [List.length_nil, Nat.le_zero_eq] at this
  simp [rwLine, this]

/-- no match at `p`: the character at `p` is copied -/
theorem tailSpec_step {len : Str → Nat} {out : Str → Str} (hlen : ∀ l, len l ≤ l.length) (t : Str) (p : Nat)
    (hp : p < t.length) (hno : ¬ (bolAt t p ∧ 0 < len (firstLine (t.drop p)))) :
    tailSpec (rwLine len out) t p = t[p] :: tailSpec (rwLine len out) t (p + 1) := by
  have hd : t.drop p = t[p] :: t.drop (p + 1) := List.drop_eq_getElem_cons hp
  by_cases hnl : t[p] = '\n'
  · have hb1 : bolAt t (p + 1) := Or.inr (by simp [List.getElem?_eq_getElem hp, hnl])
    unfold tailSpec
    rw [if_pos hb1, hd, hnl]
    by_cases hb : bolAt t p
    · rw [if_pos hb, subLines_nl, rwLine_nil hlen]; rfl
    · rw [if_neg hb, midSub_nl]
  · have hb1 : ¬ bolAt t (p + 1) := not_bol_of_mem t (p + 1) (by omega) (by
      intro ch hch
      simp only [Nat.add_sub_cancel, List.getElem?_eq_getElem hp, Option.some.injEq] at hch
      exact hch ▸ hnl)
    unfold tailSpec
    rw [if_neg hb1]
    by_cases hb : bolAt t p
    · rw [if_pos hb]
      have h0 : len (firstLine (t.drop p)) = 0 := by
        rcases Nat.eq_zero_or_pos (len (firstLine (t.drop p))) with h | h
        · exact h
        · exact absurd ⟨hb, h⟩ hno
      obtain ⟨T, hT1, hT2⟩ := subLines_midSub (rwLine len out) (t.drop p)
      have hT0 := hT2 0 (Nat.zero_le _)
      simp only [List.drop_zero] at hT0
      rw [hT1, show rwLine len out (firstLine (t.drop p)) = firstLine (t.drop p) by simp [rwLine, h0], ← hT0, hd,
        midSub_cons _ _ _ hnl]
    · rw [if_neg hb, hd, midSub_cons _ _ _ hnl]

/-- a match at `p`: the replacement is produced, the scan continues in the middle of the line -/
theorem tailSpec_hit {len : Str → Nat} {out : Str → Str} (hlen : ∀ l, len l ≤ l.length) (t : Str) (p : Nat)
    (hp : p ≤ t.length) (hb : bolAt t p) (hpos : 0 < len (firstLine (t.drop p))) :
    ¬ bolAt t (p + len (firstLine (t.drop p))) ∧ p + len (firstLine (t.drop p)) ≤ t.length ∧
    tailSpec (rwLine len out) t p =
      out (firstLine (t.drop p)) ++ tailSpec (rwLine len out) t (p + len (firstLine (t.drop p))) := by
  obtain ⟨T, hT1, hT2⟩ := subLines_midSub (rwLine len out) (t.drop p)
  have hle := hlen (firstLine (t.drop p))
  obtain ⟨tl, h1, _⟩ := firstLine_spec (t.drop p)
  have hnl := firstLine_no_nl (t.drop p)
  have hrw : rwLine len out (firstLine (t.drop p)) =
      out (firstLine (t.drop p)) ++ (firstLine (t.drop p)).drop (len (firstLine (t.drop p))) := by
    simp [rwLine, hpos]
  rw [hrw] at hT1
  generalize firstLine (t.drop p) = l at *
  generalize len l = n at *
  have hlen2 : p + l.length ≤ t.length := by
    have := congrArg List.length h1
    simp at this; omega
  have hnb : ¬ bolAt t (p + n) := by
    apply not_bol_of_mem t _ (by omega)
    intro ch hch
    have hlt : n - 1 < l.length := by omega
    rw [show p + n - 1 = p + (n - 1) by omega, ← List.getElem?_drop, h1, List.getElem?_append_left hlt] at hch
    have hmem : ch ∈ l := List.mem_of_getElem? hch
    exact fun e => hnl (e ▸ hmem)
  refine ⟨hnb, by omega, ?_⟩
  unfold tailSpec
  rw [if_pos hb, if_neg hnb, hT1, ← List.drop_drop, hT2 n hle, List.append_assoc]

/-- loop invariant of `sub` for a line-head pattern -/
theorem lineSub_go {r : Rx} {repl : Array Char → RxMatch → Str} {len : Str → Nat} {out : Str → Str}
    (H : LineSub r repl len out) (t : Str) :
    ∀ (fuel d p cp : Nat) (acc : Str), t.length - p = d → cp ≤ p → p ≤ t.length → t.length + 1 ≤ fuel + p →
      Py.reSub.go r repl (Py.ctxOf t) fuel p cp acc =
        acc ++ (t.drop cp).take (p - cp) ++ tailSpec (rwLine len out) t p := by
  intro fuel
  induction fuel with
  | zero => intro d p cp acc _ _ h1 h2; omega
  | succ fuel ihf =>
    intro d
    induction d with
    | zero =>
      intro p cp acc hd hcp hp hf
      have hpe : p = t.length := by omega
      rw [Py.reSub.go, if_neg (by rw [ctxOf_n]; omega)]
      have hnone : r.search (Py.ctxOf t) p = none := by
        apply search_all_none
        intro i h1 h2
        rw [ctxOf_n] at h2
        have hi : i = t.length := by omega
        cases hm : r.matchAt (Py.ctxOf t) i with
        | none => rfl
        | some mt =>
          exfalso
          have := (H.miss t i mt (by omega) hm).2
          rw [hi, List.drop_length] at this
          have h0 := H.len_le (firstLine [])
          simp only [firstLine, List.length_nil] at h0 this
          omega
      rw [hnone]
      simp only [ctxOf_s, ctxOf_n, slice_toArray]
      have : tailSpec (rwLine len out) t p = [] := by
        unfold tailSpec
        rw [hpe, List.drop_length]
        split
        · simp only [subLines, splitNl, List.map_cons, List.map_nil, Py.join]
          exact rwLine_nil H.len_le
        · rfl
      rw [this, hpe, List.append_nil]
    | succ d ihd =>
      intro p cp acc hd hcp hp hf
      have hlt : p < t.length := by omega
      cases hm : r.matchAt (Py.ctxOf t) p with
      | none =>
        -- the scan moves on by one character
        have hstep : Py.reSub.go r repl (Py.ctxOf t) (fuel + 1) p cp acc =
            Py.reSub.go r repl (Py.ctxOf t) (fuel + 1) (p + 1) cp acc := by
          rw [Py.reSub.go, Py.reSub.go, if_neg (by rw [ctxOf_n]; omega), if_neg (by rw [ctxOf_n]; omega),
            search_skip _ _ _ (by rw [ctxOf_n]; exact hlt) hm]
        rw [hstep, ihd (p + 1) cp acc (by omega) (by omega) (by omega) (by omega)]
        have hno : ¬ (bolAt t p ∧ 0 < len (firstLine (t.drop p))) := by
          intro ⟨hb, hpos⟩
          obtain ⟨mt, hmt, _⟩ := H.hit t p hp hb hpos
          rw [hm] at hmt; cases hmt
        rw [tailSpec_step H.len_le t p hlt hno]
        have : (t.drop cp).take (p + 1 - cp) = (t.drop cp).take (p - cp) ++ [t[p]] := by
          rw [show p + 1 - cp = (p - cp) + 1 by omega, List.take_add_one, List.getElem?_drop,
            show cp + (p - cp) = p by omega, List.getElem?_eq_getElem hlt]
          rfl
        rw [this]
        simp
      | some mt0 =>
        obtain ⟨hb, hpos⟩ := H.miss t p mt0 hp hm
        obtain ⟨mt, hmt, hst, hsp, hrepl⟩ := H.hit t p hp hb hpos
        obtain ⟨hnb, hle, htail⟩ := tailSpec_hit (out := out) H.len_le t p hp hb hpos
        have hsearch : r.search (Py.ctxOf t) p = some mt :=
          search_first _ _ p p _ (Nat.le_refl _) (by rw [ctxOf_n]; exact hp) (fun i h1 h2 => by omega) hmt
        rw [Py.reSub.go, if_neg (by rw [ctxOf_n]; omega), hsearch]
        simp only
        rw [hrepl, hst, hsp, if_neg (by simp; omega),
          ihf _ (p + len (firstLine (t.drop p))) (p + len (firstLine (t.drop p))) _ rfl (Nat.le_refl _)
            hle (by omega), htail]
        simp [ctxOf_s, slice_toArray]

/-- **`sub` with a line-head pattern rewrites every line separately.** -/
theorem lineSub {r : Rx} {repl : Array Char → RxMatch → Str} {len : Str → Nat} {out : Str → Str}
    (H : LineSub r repl len out) (t : Str) : Py.reSub r repl t = subLines (rwLine len out) t := by
  unfold Py.reSub
  have := lineSub_go H t (t.length + 2) _ 0 0 [] rfl (Nat.le_refl _) (Nat.zero_le _) (by omega)
  simp only [List.nil_append, List.drop_zero, Nat.sub_self, List.take_zero, tailSpec] at this
  rw [if_pos (show bolAt t 0 from Or.inl rfl)] at this
  exact this

/-! ### `^ {1,k}`: the trim regex of `parse_indent_code` -/

theorem m_grp {R : Type} (x : RxCtx) (idx : Nat) (r : Rx) (i : Nat) (c : Caps) (k : Nat → Caps → Option R) :
    (Rx.grp idx r).m x i c k = r.m x i c (fun j c' => k j ((idx, (i, j)) :: c')) := rfl

theorem spec_grp {x : RxCtx} {idx : Nat} {r : Rx} {i : Nat} {c : Caps} {j : Nat} {c' : Caps} :
    Spec x (.grp idx r) i c j c' ↔ ∃ c0, Spec x r i c j c0 ∧ c' = (idx, (i, j)) :: c0 := Iff.rfl

theorem spec_bol {s : Str} {i : Nat} {c : Caps} {j : Nat} {c' : Caps} (h : Spec (Py.ctxOf s) .bol i c j c') :
    bolAt s i ∧ j = i ∧ c' = c := by
  simp only [Spec] at h
  obtain ⟨hb, rfl, rfl⟩ := h
  refine ⟨(bol_test s j).mp ?_, rfl, rfl⟩
  rcases hb with h | h
  · simp [h]
  · simp [h]

/-- `^ {lo,k}` matches at a line start with at least `lo` blanks, and takes `min k (number of blanks)` of them -/
theorem trimLo_matchAt_hit (lo k : Nat) (t : Str) (q : Nat) (hq : q ≤ t.length) (hb : bolAt t q)
    (hlo : lo ≤ spRun k (t.drop q)) :
    (Rx.seq .bol (.rep (.cls false [.chr 32]) lo (some k) true)).matchAt (Py.ctxOf t) q =
      some { start := q, stop := q + spRun k (t.drop q), caps := [] } := by
  unfold Rx.matchAt
  rw [m_seq, m_bol, if_pos hb]
  obtain ⟨run, rest, h1, h2, h3, h4, h5⟩ := spRun_spec k (t.drop q)
  have ht : t.take q ++ run ++ rest = t := by rw [List.append_assoc, ← h1, List.take_append_drop]
  have hlen : (t.take q).length = q := by simp [hq]
  have := rep_greedy_list (t.take q) run rest [.chr 32] (· == ' ') (fun ch => clsTest_chr1 pyCats ' ' ch)
    lo (some k) (fun j c => some ({ start := q, stop := j, caps := c } : RxMatch)) [] _
    (fun ch hch => by simp [h3 ch hch])
    (by
      rcases h5 with h5 | h5 | ⟨ch, r', h5, h6⟩
      · left; rw [h2, h5]
      · right; left; exact h5
      · right; right; exact ⟨ch, r', h5, by simpa using h6⟩)
    (by intro m hm; cases hm; omega) (by omega) rfl
  rw [ht, hlen, h2] at this
  exact this

/-- conversely a match of `^ {lo,k}` is at a line start with at least `lo` blanks -/
theorem trimLo_matchAt_sound (lo k : Nat) (t : Str) (q : Nat) (mt : RxMatch)
    (h : (Rx.seq .bol (.rep (.cls false [.chr 32]) lo (some k) true)).matchAt (Py.ctxOf t) q = some mt) :
    bolAt t q ∧ lo ≤ spRun k (t.drop q) := by
  obtain ⟨_, hs⟩ := matchAt_sound _ _ _ _ h
  obtain ⟨i0, c0, hbol, hs⟩ := spec_seq.mp hs
  obtain ⟨hb, rfl, rfl⟩ := spec_bol hbol
  obtain ⟨cnt, hc1, hc2, hit⟩ := spec_rep.mp hs
  obtain ⟨_, _, hr⟩ := iter_cls hit
  refine ⟨hb, ?_⟩
  obtain ⟨sp, hsp1, hsp2, hd⟩ := run_of_forall (· == ' ') cnt t i0
    (fun j hj => cls_at t _ _ (fun ch => clsTest_chr1 pyCats ' ' ch) _ (hr j hj))
  have hck : cnt ≤ k := hc2 k rfl
  have : cnt ≤ spRun k (t.drop i0) := by
    rw [hd, spRun_eq, List.takeWhile_append_of_pos hsp2]
    simp only [List.length_append, hsp1]
    omega
  omega

theorem spRun_le_length (k : Nat) (l : Str) : spRun k l ≤ l.length := by
  induction k generalizing l with
  | zero => simp [spRun]
  | succ k ih =>
    cases l with
    | nil => simp [spRun]
    | cons ch r =>
      simp only [spRun]
      split
      · have := ih r; simp; omega
      · simp

theorem trimLo_lineSub (k : Nat) :
    LineSub (Rx.seq .bol (.rep (.cls false [.chr 32]) 1 (some k) true)) (fun _ _ => []) (spRun k)
      (fun _ => []) where
  len_le := spRun_le_length k
  hit := fun t q hq hb hpos => by
    rw [spRun_firstLine] at hpos ⊢
    exact ⟨_, trimLo_matchAt_hit 1 k t q hq hb hpos, rfl, rfl, rfl⟩
  miss := fun t q mt _ hm => by
    rw [spRun_firstLine]
    exact trimLo_matchAt_sound 1 k t q mt hm

theorem rwLine_spRun (k : Nat) : rwLine (spRun k) (fun _ => []) = dropUpTo k := by
  funext l
  rw [dropUpTo_eq]
  unfold rwLine
  split
  · rfl
  · rename_i h
    rw [show spRun k l = 0 by omega]; rfl

/-- **`^ {1,k}` substituted by the empty string strips up to `k` leading blanks of every line** — the same function
as for `^ {0,k}` (`reSub_trim`): where `^ {1,k}` cannot match there is nothing to strip. -/
theorem reSub_trimLo (k : Nat) (t : Str) :
    Py.reSub (Rx.seq .bol (.rep (.cls false [.chr 32]) 1 (some k) true)) (fun _ _ => []) t = trimLines k t := by
  rw [lineSub (trimLo_lineSub k) t, rwLine_spRun]; rfl

/-! ### `^( {0,3})\t`: the tab regex of `expand_leading_tab` -/

/-- length of the match of `^( {0,3})\t` at the start of line `l` (`0`: no match): the blanks (at most three) and the
tab -/
def tabLen (l : Str) : Nat := if l[spRun 3 l]? = some '\t' then spRun 3 l + 1 else 0

/-- the replacement `m.group(1) + " " * (width - len(m.group(1)))` -/
def tabOut (w : Nat) (l : Str) : Str := List.replicate (spRun 3 l) ' ' ++ List.replicate (w - spRun 3 l) ' '

theorem take_spRun (k : Nat) (l : Str) : l.take (spRun k l) = List.replicate (spRun k l) ' ' := by
  induction k generalizing l with
  | zero => simp [spRun]
  | succ k ih =>
    cases l with
    | nil => simp [spRun]
    | cons ch r =>
      by_cases h : ch = ' '
      · subst h; simp [spRun, ih, List.replicate_succ]
      · simp [spRun, h]

theorem spRun_run (k : Nat) (sp rest : Str) (hsp : ∀ ch ∈ sp, ch = ' ') (hlen : sp.length ≤ k)
    (hrest : ∀ ch r, rest = ch :: r → ch ≠ ' ') : spRun k (sp ++ rest) = sp.length := by
  rw [spRun_eq, List.takeWhile_append_of_pos (fun ch hch => by simp [hsp ch hch]),
    takeWhile_nil_of_head (fun ch r h => by simpa using hrest ch r h), List.append_nil]
  omega

theorem tabLen_le (l : Str) : tabLen l ≤ l.length := by
  unfold tabLen
  split
  · rename_i h
    rcases Nat.lt_or_ge (spRun 3 l) l.length with h' | h'
    · omega
    · rw [List.getElem?_eq_none h'] at h; cases h
  · omega

/-- the repl function of `expand_leading_tab(text, width)` -/
def tabRepl (w : Nat) : Array Char → RxMatch → Str := fun a mt =>
  let s := (Py.groupStr a mt 1).getD []
  s ++ Py.rep ' ' (w - s.length)

theorem expandTab_matchAt_hit (t : Str) (q : Nat) (hq : q ≤ t.length) (hb : bolAt t q)
    (htab : (t.drop q)[spRun 3 (t.drop q)]? = some '\t') :
    expandTabRxExpected.matchAt (Py.ctxOf t) q =
      some { start := q, stop := q + spRun 3 (t.drop q) + 1, caps := [(1, (q, q + spRun 3 (t.drop q)))] } := by
  unfold Rx.matchAt expandTabRxExpected
  rw [m_seq, m_bol, if_pos hb, m_seq, m_grp]
  obtain ⟨run, rest, h1, h2, h3, h4, h5⟩ := spRun_spec 3 (t.drop q)
  have ht : t.take q ++ run ++ rest = t := by rw [List.append_assoc, ← h1, List.take_append_drop]
  have hlen : (t.take q).length = q := by simp [hq]
  have hhead : rest.head? = some '\t' := by
    rw [← h2, h1, List.getElem?_append_right (Nat.le_refl _), Nat.sub_self] at htab
    cases rest with
    | nil => simp at htab
    | cons ch r => simpa using htab
  obtain ⟨rest', rfl⟩ : ∃ rest', rest = '\t' :: rest' := by
    cases rest with
    | nil => simp at hhead
    | cons ch r => simp only [List.head?_cons, Option.some.injEq] at hhead; exact ⟨r, by rw [hhead]⟩
  have := rep_greedy_list (t.take q) run ('\t' :: rest') [.chr 32] (· == ' ')
    (fun ch => clsTest_chr1 pyCats ' ' ch) 0 (some 3)
    (fun j c' => (Rx.cls false [.chr 9]).m (Py.ctxOf (t.take q ++ run ++ '\t' :: rest')) j ((1, (q, j)) :: c')
      (fun j c => some ({ start := q, stop := j, caps := c } : RxMatch))) []
    { start := q, stop := q + spRun 3 (t.drop q) + 1, caps := [(1, (q, q + spRun 3 (t.drop q)))] }
    (fun ch hch => by simp [h3 ch hch])
    (Or.inr (Or.inr ⟨'\t', rest', rfl, by decide⟩))
    (by intro m hm; cases hm; omega) (by omega)
    (by
      simp only [Rx.m]
      rw [if_pos, hlen, h2]
      rw [Bool.and_eq_true, decide_eq_true_eq]
      refine ⟨by simp [ctxOf_n], ?_⟩
      rw [ctxOf_chr, getElem?_after, ctxOf_t, List.head?_cons, Option.getD_some]
      decide)
  rw [ht, hlen] at this
  exact this

theorem expandTab_matchAt_sound (t : Str) (q : Nat) (mt : RxMatch)
    (h : expandTabRxExpected.matchAt (Py.ctxOf t) q = some mt) :
    bolAt t q ∧ ∃ sp rest, t.drop q = sp ++ '\t' :: rest ∧ (∀ ch ∈ sp, ch = ' ') ∧ sp.length ≤ 3 := by
  obtain ⟨_, hs⟩ := matchAt_sound _ _ _ _ h
  unfold expandTabRxExpected at hs
  obtain ⟨i0, c0, hbol, hs⟩ := spec_seq.mp hs
  obtain ⟨hb, rfl, rfl⟩ := spec_bol hbol
  obtain ⟨i1, c1, hg, htab⟩ := spec_seq.mp hs
  obtain ⟨c2, hrep, _⟩ := spec_grp.mp hg
  obtain ⟨cnt, _, hc2, hit⟩ := spec_rep.mp hrep
  obtain ⟨rfl, _, hr⟩ := iter_cls hit
  refine ⟨hb, ?_⟩
  obtain ⟨sp, hsp1, hsp2, hd⟩ := run_of_forall (· == ' ') cnt t i0
    (fun j hj => cls_at t _ _ (fun ch => clsTest_chr1 pyCats ' ' ch) _ (hr j hj))
  simp only [Spec] at htab
  obtain ⟨ch, hch, hp⟩ := cls_at t [.chr 9] (· == '\t') (fun ch => clsTest_chr1 pyCats '\t' ch) _
    ⟨htab.1, htab.2.1⟩
  have hlt : i0 + cnt < t.length := by
    rcases Nat.lt_or_ge (i0 + cnt) t.length with h | h
    · exact h
    · rw [List.getElem?_eq_none h] at hch; cases hch
  rw [List.getElem?_eq_getElem hlt, Option.some.injEq] at hch
  have hch' : t[i0 + cnt] = '\t' := by rw [hch]; simpa using hp
  refine ⟨sp, t.drop (i0 + cnt + 1), ?_, fun ch hch => by simpa using hsp2 ch hch, ?_⟩
  · rw [hd, List.drop_eq_getElem_cons hlt, hch']
  · have := hc2 3 rfl; omega

theorem expandTab_lineSub (w : Nat) : LineSub expandTabRxExpected (tabRepl w) tabLen (tabOut w) where
  len_le := tabLen_le
  hit := fun t q hq hb hpos => by
    have htab : (firstLine (t.drop q))[spRun 3 (t.drop q)]? = some '\t' := by
      unfold tabLen at hpos
      split at hpos
      · rename_i h; rwa [spRun_firstLine] at h
      · omega
    have hlen : tabLen (firstLine (t.drop q)) = spRun 3 (t.drop q) + 1 := by
      unfold tabLen
      rw [spRun_firstLine, if_pos htab]
    have htab' := firstLine_getElem? _ _ _ htab
    refine ⟨_, expandTab_matchAt_hit t q hq hb htab', rfl, by rw [hlen, Nat.add_assoc], ?_⟩
    have hsl : (t.drop q).take (spRun 3 (t.drop q)) = List.replicate (spRun 3 (t.drop q)) ' ' := take_spRun 3 _
    simp [tabRepl, tabOut, Py.groupStr, RxMatch.group, Caps.get, List.lookup, ctxOf_s, slice_toArray, hsl,
      spRun_firstLine, Py.rep]
  miss := fun t q mt _ hm => by
    obtain ⟨hb, sp, rest, hd, hsp, hsp3⟩ := expandTab_matchAt_sound t q mt hm
    refine ⟨hb, ?_⟩
    have hnl : '\n' ∉ sp ++ ['\t'] := by
      intro e
      rcases List.mem_append.mp e with e | e
      · exact absurd (hsp _ e) (by decide)
      · simp at e
    have hfl : firstLine (t.drop q) = sp ++ '\t' :: firstLine rest := by
      rw [hd, show sp ++ '\t' :: rest = (sp ++ ['\t']) ++ rest by simp, firstLine_append _ _ hnl]; simp
    have hrun : spRun 3 (firstLine (t.drop q)) = sp.length := by
      rw [hfl]
      exact spRun_run 3 sp _ hsp hsp3 (fun ch r h => by cases h; decide)
    unfold tabLen
    rw [hrun, if_pos (by rw [hfl]; simp)]
    omega

/-- `expand_leading_tab` on one line -/
def expandLineW (w : Nat) (l : Str) : Str :=
  if l[spRun 3 l]? = some '\t' then
    l.take (spRun 3 l) ++ List.replicate (w - spRun 3 l) ' ' ++ l.drop (spRun 3 l + 1)
  else l

theorem rwLine_tab (w : Nat) : rwLine tabLen (tabOut w) = expandLineW w := by
  funext l
  unfold rwLine expandLineW tabLen tabOut
  by_cases h : l[spRun 3 l]? = some '\t'
  · simp [h, take_spRun]
  · simp [h]

/-- **`expand_leading_tab(text, width)` rewrites every line separately** -/
theorem reSub_expandTab (w : Nat) (t : Str) : Py.reSub expandTabRxExpected (tabRepl w) t = subLines (expandLineW w) t := by
  rw [lineSub (expandTab_lineSub w) t, rwLine_tab]

theorem rx_of_lookup (cfg : MdCfg) (name : String) (r : Rx) (h : cfg.named.lookup name = some r) : cfg.rx name = r := by
  simp [MdCfg.rx, h]

theorem expandLeadingTab_eq (cfg : MdCfg) (h : cfg.named.lookup "mistune.util._expand_tab_re" = some expandTabRxExpected)
    (t : Str) (w : Nat) : expandLeadingTab cfg t w = subLines (expandLineW w) t := by
  unfold expandLeadingTab
  rw [rx_of_lookup cfg _ _ h]
  exact reSub_expandTab w t

/-! ### the specification of `indentBody` -/

/-- the refactoring of `parseIndentCode` is syntactic: `indentBody` is the three `let`s of the former body -/
theorem indentBody_def (cfg : MdCfg) (code : Str) :
    indentBody cfg code = Py.stripC ['\n'] (Py.reSub (cfg.rx "mistune.block_parser._INDENT_CODE_TRIM")
      (fun _ _ => []) (expandLeadingTab cfg code 4)) := rfl

/-- `expand_leading_tab(line)` (width 4): a tab after at most three blanks at the start of the line is replaced by
the blanks that reach column 4; nothing else changes (in particular no other tab of the line) -/
def expandLine (l : Str) : Str := expandLineW 4 l

/-- `_INDENT_CODE_TRIM.sub("", line)`: the line without its first `min 4 (number of leading blanks)` blanks.
The regex is `^ {1,4}` (at least one blank): on a line without leading blank it does not match and `sub` copies the
line, which is what removing zero blanks does, so no case distinction is needed. -/
def deindent (l : Str) : Str := dropUpTo 4 l

/-- `s.strip("\n")` -/
def stripNl (s : Str) : Str := ((s.dropWhile (· == '\n')).reverse.dropWhile (· == '\n')).reverse

/-- the specification: every line separately, then the newlines at both ends are removed -/
def indentSpec (code : Str) : Str := stripNl (Py.join ['\n'] ((splitNl code).map (deindent ∘ expandLine)))

theorem expandLine_tab (sp rest : Str) (hsp : ∀ ch ∈ sp, ch = ' ') (hlen : sp.length ≤ 3) :
    expandLine (sp ++ '\t' :: rest) = sp ++ List.replicate (4 - sp.length) ' ' ++ rest := by
  have hrun : spRun 3 (sp ++ '\t' :: rest) = sp.length :=
    spRun_run 3 sp _ hsp hlen (fun ch r h => by cases h; decide)
  unfold expandLine expandLineW
  rw [hrun, if_pos (by simp)]
  simp

theorem expandLine_other (l : Str)
    (h : ¬ ∃ sp rest, l = sp ++ '\t' :: rest ∧ (∀ ch ∈ sp, ch = ' ') ∧ sp.length ≤ 3) : expandLine l = l := by
  unfold expandLine expandLineW
  split
  · rename_i htab
    exfalso
    apply h
    obtain ⟨run, rest, h1, h2, h3, h4, _⟩ := spRun_spec 3 l
    refine ⟨run, rest.tail, ?_, h3, by omega⟩
    have : rest.head? = some '\t' := by
      rw [← h2] at htab
      rw [h1, List.getElem?_append_right (Nat.le_refl _), Nat.sub_self] at htab
      cases rest with
      | nil => simp at htab
      | cons ch r => simpa using htab
    cases rest with
    | nil => simp at this
    | cons ch r =>
      simp only [List.head?_cons, Option.some.injEq] at this
      rw [h1, this]; rfl
  · rfl

theorem deindent_eq (l : Str) : deindent l = l.drop (min 4 (l.takeWhile (· == ' ')).length) := by
  unfold deindent
  rw [dropUpTo_eq, spRun_eq]

theorem stripC_nl (s : Str) : Py.stripC ['\n'] s = stripNl s := by
  have : (fun c : Char => ['\n'].contains c) = (· == '\n') := by
    funext c
    by_cases h : c = '\n' <;> simp [h]
  unfold Py.stripC Py.rstripC Py.lstripC stripNl
  rw [this]

theorem splitNl_mem_no_nl (t : Str) : ∀ l ∈ splitNl t, '\n' ∉ l := by
  induction t with
  | nil => intro l hl; simp [splitNl] at hl; simp [hl]
  | cons ch r ih =>
    intro l hl
    simp only [splitNl] at hl
    split at hl
    · rcases List.mem_cons.mp hl with rfl | hl
      · simp
      · exact ih l hl
    · rename_i hch
      cases hs : splitNl r with
      | nil => exact absurd hs (splitNl_ne_nil r)
      | cons l' ls =>
        rw [hs] at hl ih
        simp only [consHead] at hl
        rcases List.mem_cons.mp hl with rfl | hl
        · intro e
          rcases List.mem_cons.mp e with e | e
          · exact hch e.symm
          · exact ih l' (by simp) e
        · exact ih l (by simp [hl])

theorem join_cons_cons (sep a b : Str) (r : List Str) :
    Py.join sep (a :: b :: r) = a ++ sep ++ Py.join sep (b :: r) := rfl

theorem splitNl_join (ls : List Str) (hne : ls ≠ []) (h : ∀ l ∈ ls, '\n' ∉ l) :
    splitNl (Py.join ['\n'] ls) = ls := by
  induction ls with
  | nil => exact absurd rfl hne
  | cons a r ih =>
    cases r with
    | nil => exact splitNl_no_nl a (h a (by simp))
    | cons b r =>
      rw [join_cons_cons, List.append_assoc, List.singleton_append, splitNl_line_nl a _ (h a (by simp)),
        ih (by simp) (fun l hl => h l (by simp [hl]))]

theorem expandLineW_no_nl (w : Nat) (l : Str) (h : '\n' ∉ l) : '\n' ∉ expandLineW w l := by
  unfold expandLineW
  split
  · intro e
    rcases List.mem_append.mp e with e | e
    · rcases List.mem_append.mp e with e | e
      · exact h (List.mem_of_mem_take e)
      · exact absurd (List.eq_of_mem_replicate e) (by decide)
    · exact h (List.mem_of_mem_drop e)
  · exact h

/-- **`indentBody` is the specification**, for every configuration whose two named regexes are the expected ones -/
theorem indentBody_eq_of_lookup (cfg : MdCfg)
    (h1 : cfg.named.lookup "mistune.util._expand_tab_re" = some expandTabRxExpected)
    (h2 : cfg.named.lookup "mistune.block_parser._INDENT_CODE_TRIM" = some indentTrimRxExpected)
    (code : Str) : indentBody cfg code = indentSpec code := by
  unfold indentBody indentSpec
  rw [expandLeadingTab_eq cfg h1, rx_of_lookup cfg _ _ h2, stripC_nl]
  unfold indentTrimRxExpected
  rw [reSub_trimLo 4]
  unfold trimLines subLines
  rw [splitNl_join _ (by simpa using splitNl_ne_nil code) (by
    intro l hl
    obtain ⟨l0, hl0, rfl⟩ := List.mem_map.mp hl
    exact expandLineW_no_nl 4 l0 (splitNl_mem_no_nl code l0 hl0)), List.map_map]
  rfl

/-- **…in particular for every regenerated configuration** (closed: the two obligations are kernel-decided above) -/
theorem indentBody_eq (cfg : MdCfg) (hcfg : cfg.named = Generated.namedRx) (code : Str) :
    indentBody cfg code = indentSpec code :=
  indentBody_eq_of_lookup cfg (by rw [hcfg]; exact expandTabRx_lookup) (by rw [hcfg]; exact indentTrimRx_lookup) code

/-- every configuration the model is run with (`ofRuleCfg`) -/
theorem indentBody_eq_ofRuleCfg (c : RuleCfg) (code : Str) : indentBody (ofRuleCfg c) code = indentSpec code :=
  indentBody_eq (ofRuleCfg c) rfl code

/-! ### `strip("\n")` -/

theorem stripNl_id (s : Str) (h1 : s.head? ≠ some '\n') (h2 : s.getLast? ≠ some '\n') : stripNl s = s := by
  unfold stripNl
  have e1 : s.dropWhile (· == '\n') = s :=
    dropWhile_id_of_head (fun ch r h => by
      rw [h] at h1
      simpa using h1)
  have e2 : s.reverse.dropWhile (· == '\n') = s.reverse :=
    dropWhile_id_of_head (fun ch r h => by
      have : s.getLast? = some ch := by rw [← List.head?_reverse, h]; rfl
      rw [this] at h2
      simpa using h2)
  rw [e1, e2, List.reverse_reverse]

theorem head?_dropWhile_ne (p : Char → Bool) (l : Str) (ch : Char) (h : (l.dropWhile p).head? = some ch) :
    p ch = false := by
  induction l with
  | nil => simp at h
  | cons a r ih =>
    rw [List.dropWhile_cons] at h
    split at h
    · exact ih h
    · rename_i hp
      simp only [List.head?_cons, Option.some.injEq] at h
      rw [← h]; simpa using hp

/-- the result of `strip("\n")` neither starts nor ends with a newline -/
theorem stripNl_ends (s : Str) : (stripNl s).head? ≠ some '\n' ∧ (stripNl s).getLast? ≠ some '\n' := by
  unfold stripNl
  have hu : ∀ ch, (s.dropWhile (· == '\n')).head? = some ch → (ch == '\n') = false :=
    fun ch h => head?_dropWhile_ne _ s ch h
  generalize s.dropWhile (· == '\n') = u at *
  constructor
  · intro h
    -- the result is a prefix of `u`, whose head is not a newline
    have hpre : (u.reverse.dropWhile (· == '\n')).reverse <+: u := by
      rw [← List.reverse_reverse u, List.reverse_prefix, List.reverse_reverse]
      exact List.dropWhile_suffix _
    obtain ⟨tl, htl⟩ := hpre
    generalize (u.reverse.dropWhile (· == '\n')).reverse = v at *
    cases v with
    | nil => simp at h
    | cons a v' =>
      simp only [List.head?_cons, Option.some.injEq] at h
      have := hu a (by rw [← htl]; rfl)
      rw [h] at this
      simp at this
  · intro h
    rw [List.getLast?_reverse] at h
    have := head?_dropWhile_ne _ _ _ h
    simp at this

theorem stripNl_eq_iff (s : Str) : stripNl s = s ↔ s.head? ≠ some '\n' ∧ s.getLast? ≠ some '\n' :=
  ⟨fun h => by have := stripNl_ends s; rwa [h] at this, fun h => stripNl_id s h.1 h.2⟩

/-! ### joined lines and newlines at the ends -/

theorem join_append_singleton (sep : Str) (init : List Str) (z : Str) (h : init ≠ []) :
    Py.join sep (init ++ [z]) = Py.join sep init ++ sep ++ z := by
  induction init with
  | nil => exact absurd rfl h
  | cons a r ih =>
    cases r with
    | nil => rfl
    | cons b r =>
      rw [List.cons_append, List.cons_append, join_cons_cons, ← List.cons_append, ih (by simp), join_cons_cons]
      simp

/-- a text joined from lines is unchanged by `strip("\n")` iff it is a single line or its first and last lines are
non-empty -/
theorem stripNl_join_iff (outs : List Str) (hne : outs ≠ []) (hno : ∀ l ∈ outs, '\n' ∉ l) :
    stripNl (Py.join ['\n'] outs) = Py.join ['\n'] outs ↔
      (outs.length = 1 ∨ (outs.head? ≠ some [] ∧ outs.getLast? ≠ some [])) := by
  rw [stripNl_eq_iff]
  have hhead : ∀ l : Str, '\n' ∉ l → l.head? ≠ some '\n' := fun l hl h => hl (List.mem_of_mem_head? h)
  have hlast : ∀ l : Str, '\n' ∉ l → l.getLast? ≠ some '\n' := fun l hl h => hl (List.mem_of_getLast? h)
  cases outs with
  | nil => exact absurd rfl hne
  | cons a r =>
    cases r with
    | nil =>
      simp only [Py.join, List.length_cons, List.length_nil, Nat.zero_add, true_or, iff_true]
      exact ⟨hhead a (hno a (by simp)), hlast a (hno a (by simp))⟩
    | cons b r =>
      -- at least two lines
      have hlen : (a :: b :: r).length ≠ 1 := by simp
      obtain ⟨init, z, hz⟩ : ∃ init z, b :: r = init ++ [z] := by
        rcases List.eq_nil_or_concat (b :: r) with h | ⟨init, z, h⟩
        · cases h
        · exact ⟨init, z, by rw [h]; simp⟩
      have hj1 : Py.join ['\n'] (a :: b :: r) = a ++ '\n' :: Py.join ['\n'] (b :: r) := by
        rw [join_cons_cons]; simp
      have hj2 : Py.join ['\n'] (a :: b :: r) = Py.join ['\n'] (a :: init) ++ '\n' :: z := by
        rw [hz, ← List.cons_append, join_append_singleton _ _ _ (by simp)]; simp
      have hgl : (a :: b :: r).getLast? = some z := by
        rw [hz, show a :: (init ++ [z]) = (a :: init) ++ [z] from rfl, List.getLast?_concat]
      have hza : '\n' ∉ a := hno a (by simp)
      have hzz : '\n' ∉ z := hno z (by rw [hz]; simp)
      simp only [hlen, false_or, List.head?_cons, hgl]
      constructor
      · rintro ⟨h1, h2⟩
        constructor
        · intro e
          simp only [Option.some.injEq] at e
          rw [hj1, e] at h1
          simp at h1
        · intro e
          simp only [Option.some.injEq] at e
          rw [hj2, e] at h2
          simp at h2
      · rintro ⟨h1, h2⟩
        constructor
        · rw [hj1]
          cases a with
          | nil => simp at h1
          | cons ch a' =>
            simp only [List.cons_append, List.head?_cons]
            intro e
            simp only [Option.some.injEq] at e
            exact hza (by simp [e])
        · rw [hj2]
          rcases List.eq_nil_or_concat z with hzc | ⟨z0, x, hzc⟩
          · rw [hzc] at h2; simp at h2
          · rw [List.concat_eq_append] at hzc
            have hx : x ≠ '\n' := fun e => hzz (by rw [hzc, e]; simp)
            rw [hzc, show Py.join ['\n'] (a :: init) ++ '\n' :: (z0 ++ [x]) =
              (Py.join ['\n'] (a :: init) ++ '\n' :: z0) ++ [x] by simp, List.getLast?_concat]
            simpa using hx

/-! ### the property: an indented block is reproduced verbatim -/

/-- the five ways to write a four-column indent: four blanks, or at most three blanks and a tab -/
def indents : List Str :=
  [[' ', ' ', ' ', ' '], ['\t'], [' ', '\t'], [' ', ' ', '\t'], [' ', ' ', ' ', '\t']]

example : indents = ["    ".toList, "\t".toList, " \t".toList, "  \t".toList, "   \t".toList] := by decide

/-- One line: after a four-column indent the rest of the line comes out unchanged, **whatever it is** — it may start
with blanks or tabs: after four blanks `^( {0,3})\t` cannot match (the fourth blank is in the way), after a tab indent
the match is over, and `^ {1,4}` takes exactly the four blanks of the (expanded) indent. -/
theorem deindent_expandLine_indent (ind l : Str) (h : ind ∈ indents) : deindent (expandLine (ind ++ l)) = l := by
  simp only [indents, List.mem_cons, List.not_mem_nil, or_false] at h
  rcases h with rfl | rfl | rfl | rfl | rfl
  · simp [expandLine, expandLineW, spRun, deindent, dropUpTo]
  · rw [show ['\t'] ++ l = [] ++ '\t' :: l from rfl, expandLine_tab [] l (by simp) (by simp)]
    simp [deindent, dropUpTo]
  · rw [show [' ', '\t'] ++ l = [' '] ++ '\t' :: l from rfl, expandLine_tab [' '] l (by simp) (by simp)]
    simp [deindent, dropUpTo, List.replicate]
  · rw [show [' ', ' ', '\t'] ++ l = [' ', ' '] ++ '\t' :: l from rfl, expandLine_tab [' ', ' '] l (by simp) (by simp)]
    simp [deindent, dropUpTo, List.replicate]
  · rw [show [' ', ' ', ' ', '\t'] ++ l = [' ', ' ', ' '] ++ '\t' :: l from rfl,
      expandLine_tab [' ', ' ', ' '] l (by simp) (by simp)]
    simp [deindent, dropUpTo]

theorem deindent_expandLine_nil : deindent (expandLine []) = [] := by decide

/-- **Line-wise form.**  Every line of `code` is `ind ++ l` with a four-column indent `ind` and an arbitrary `l`, or is
empty (`segs` lists the pairs `(ind, l)`; `([], [])` for an empty line).  Then the code is the `l`s joined by
newlines, with the newlines at both ends stripped. -/
theorem indent_lines (cfg : MdCfg) (hcfg : cfg.named = Generated.namedRx) (code : Str) (segs : List (Str × Str))
    (hlines : splitNl code = segs.map (fun p => p.1 ++ p.2))
    (hseg : ∀ p ∈ segs, p.1 ∈ indents ∨ p = ([], [])) :
    indentBody cfg code = stripNl (Py.join ['\n'] (segs.map (·.2))) := by
  rw [indentBody_eq cfg hcfg, indentSpec, hlines, List.map_map]
  congr 2
  apply List.map_congr_left
  intro p hp
  rcases hseg p hp with h | h
  · exact deindent_expandLine_indent p.1 p.2 h
  · rw [h]; exact deindent_expandLine_nil

theorem seg_no_nl (code : Str) (segs : List (Str × Str))
    (hlines : splitNl code = segs.map (fun p => p.1 ++ p.2)) : ∀ l ∈ segs.map (·.2), '\n' ∉ l := by
  intro l hl
  obtain ⟨p, hp, rfl⟩ := List.mem_map.mp hl
  have := splitNl_mem_no_nl code (p.1 ++ p.2) (by rw [hlines]; exact List.mem_map.mpr ⟨p, hp, rfl⟩)
  exact fun e => this (List.mem_append_right _ e)

/-- **`indent_verbatim`.**  Under the hypotheses of `indent_lines`, the code is exactly the `l`s joined by newlines
**iff** there is a single line or the first and the last `l` are non-empty.  (Non-emptiness of the first and last
*lines* is not enough: for `"    \n    x"` the first `l` is empty, the joined text starts with a newline and
`strip("\n")` removes it.) -/
theorem indent_verbatim_iff (cfg : MdCfg) (hcfg : cfg.named = Generated.namedRx) (code : Str)
    (segs : List (Str × Str)) (hlines : splitNl code = segs.map (fun p => p.1 ++ p.2))
    (hseg : ∀ p ∈ segs, p.1 ∈ indents ∨ p = ([], [])) :
    indentBody cfg code = Py.join ['\n'] (segs.map (·.2)) ↔
      ((segs.map (·.2)).length = 1 ∨
        ((segs.map (·.2)).head? ≠ some [] ∧ (segs.map (·.2)).getLast? ≠ some [])) := by
  rw [indent_lines cfg hcfg code segs hlines hseg]
  apply stripNl_join_iff _ _ (seg_no_nl code segs hlines)
  intro e
  have := splitNl_ne_nil code
  rw [hlines] at this
  simp only [List.map_eq_nil_iff] at e
  rw [e] at this
  exact this rfl

/-- **The property**: every line of `code` is a four-column indent followed by an arbitrary `l`, or is empty; the
first and the last `l` are non-empty; then the code of the block is the `l`s (`""` for the empty lines) joined by
newlines. -/
theorem indent_verbatim (cfg : MdCfg) (hcfg : cfg.named = Generated.namedRx) (code : Str)
    (segs : List (Str × Str)) (hlines : splitNl code = segs.map (fun p => p.1 ++ p.2))
    (hseg : ∀ p ∈ segs, p.1 ∈ indents ∨ p = ([], []))
    (hfirst : (segs.map (·.2)).head? ≠ some []) (hlast : (segs.map (·.2)).getLast? ≠ some []) :
    indentBody cfg code = Py.join ['\n'] (segs.map (·.2)) :=
  (indent_verbatim_iff cfg hcfg code segs hlines hseg).mpr (Or.inr ⟨hfirst, hlast⟩)

/-- the same with the text given by its lines -/
theorem indent_verbatim_join (cfg : MdCfg) (hcfg : cfg.named = Generated.namedRx) (segs : List (Str × Str))
    (hne : segs ≠ []) (hseg : ∀ p ∈ segs, (p.1 ∈ indents ∨ p = ([], [])) ∧ '\n' ∉ p.2)
    (hfirst : (segs.map (·.2)).head? ≠ some []) (hlast : (segs.map (·.2)).getLast? ≠ some []) :
    indentBody cfg (Py.join ['\n'] (segs.map (fun p => p.1 ++ p.2))) = Py.join ['\n'] (segs.map (·.2)) := by
  apply indent_verbatim cfg hcfg _ segs _ (fun p hp => (hseg p hp).1) hfirst hlast
  apply splitNl_join _ (by simpa using hne)
  intro l hl
  obtain ⟨p, hp, rfl⟩ := List.mem_map.mp hl
  intro e
  rcases List.mem_append.mp e with e | e
  · rcases (hseg p hp).1 with h | h
    · simp only [indents, List.mem_cons, List.not_mem_nil, or_false] at h
      rcases h with h | h | h | h | h <;> rw [h] at e <;> simp at e
    · rw [h] at e; simp at e
  · exact (hseg p hp).2 e

/-! ### the handler -/

theorem appendParagraph_x (cfg : MdCfg) (st st' : BlockState) (endPos : Option Nat)
    (h : st.appendParagraph cfg = .ok (endPos, st')) : st'.x = st.x := by
  unfold BlockState.appendParagraph at h
  cases hl : st.lastParagraph with
  | error e => rw [hl] at h; cases h
  | ok o =>
    rw [hl] at h
    cases o with
    | none =>
      simp only [bind, Except.bind, pure, Except.pure] at h
      cases h; rfl
    | some last =>
      simp only [bind, Except.bind, pure, Except.pure] at h
      cases hf : st.findLineEnd cfg with
      | error e => rw [hf] at h; cases h
      | ok pos =>
        rw [hf] at h
        simp only at h
        cases ha : BlockState.addText last (st.getText pos) with
        | error e => rw [ha] at h; cases h
        | ok last' =>
          rw [ha] at h
          simp only at h
          cases h; rfl

/-- **the handler**: when `append_paragraph()` returns a falsy position (it left the state `st'`), `parse_indent_code`
appends one `block_code` token whose `raw` is `indentBody` of the matched text, and returns `m.end()` -/
theorem parseIndentCode_eq (cfg : MdCfg) (mt : RxMatch) (st st' : BlockState) (endPos : Option Nat)
    (hap : st.appendParagraph cfg = .ok (endPos, st')) (hfalsy : truthyPos endPos = false) :
    parseIndentCode cfg mt st =
      .ok (some mt.stop, st'.appendToken
        (tok "block_code" [("raw", .str (indentBody cfg (grp0 st mt))), ("style", Json.s "indent")])) ∧
    (tok "block_code" [("raw", .str (indentBody cfg (grp0 st mt))), ("style", Json.s "indent")]).getStr? "raw" =
      some (indentBody cfg (grp0 st mt)) := by
  constructor
  · have hx : grp0 st' mt = grp0 st mt := by unfold grp0; rw [appendParagraph_x cfg st st' endPos hap]
    unfold parseIndentCode
    rw [hap]
    simp only [bind, Except.bind, hfalsy, Bool.false_eq_true, if_false, hx]
    rfl
  · simp [tok, Json.getStr?, Json.get?, List.lookup]

/-- it is a part of the paragraph: a truthy position is returned as it is, no token is appended -/
theorem parseIndentCode_paragraph (cfg : MdCfg) (mt : RxMatch) (st st' : BlockState) (endPos : Option Nat)
    (hap : st.appendParagraph cfg = .ok (endPos, st')) (htruthy : truthyPos endPos = true) :
    parseIndentCode cfg mt st = .ok (endPos, st') := by
  unfold parseIndentCode
  rw [hap]
  simp only [bind, Except.bind, htruthy, if_true]
  rfl

/-- an exception of `append_paragraph()` propagates -/
theorem parseIndentCode_raise (cfg : MdCfg) (mt : RxMatch) (st : BlockState) (e : PyErr)
    (hap : st.appendParagraph cfg = .error e) : parseIndentCode cfg mt st = .error e := by
  unfold parseIndentCode
  rw [hap]
  rfl

/-! ### instances -/

section Examples

/-- the configuration the examples run with (any `ofRuleCfg c` has `named = namedRx` by definition) -/
abbrev exCfg : MdCfg := ofRuleCfg cfg_core

/-- `indentBody_eq`: the model (the two regexes run on the engine) and the specification, both evaluated by the kernel.
Line 1: tab after one blank, then `l = " \tfoo"` (its tab is not expanded).  Line 2: tab after two blanks, `l = "  x"`.
Line 3: tab after three blanks. -/
example : indentBody exCfg " \t \tfoo\n  \t  x\n   \ty".toList = " \tfoo\n  x\ny".toList := by decide

example : indentSpec " \t \tfoo\n  \t  x\n   \ty".toList = " \tfoo\n  x\ny".toList := by decide

example : indentBody exCfg " \t \tfoo\n  \t  x\n   \ty".toList = indentSpec " \t \tfoo\n  \t  x\n   \ty".toList :=
  indentBody_eq exCfg rfl _

/-- lines that are not indented by four columns (the function is total): one to three blanks are removed, a line without
leading blank is copied by `^ {1,4}`, five blanks leave one -/
example : indentSpec "  x\ny\n     z\n\n\n".toList = "x\ny\n z".toList := by decide

example : indentBody exCfg "  x\ny\n     z\n\n\n".toList = "x\ny\n z".toList := by decide

/-- `indent_verbatim` on `"    a\n\n\t\tb\n  \t  c\n    \td"`: all five clauses of the property at once — four blanks, an
interior empty line, a tab indent followed by a tab, blanks + tab followed by blanks, four blanks followed by a tab -/
example : indentBody exCfg "    a\n\n\t\tb\n  \t  c\n    \td".toList = "a\n\n\tb\n  c\n\td".toList :=
  indent_verbatim exCfg rfl _
    [("    ".toList, "a".toList), ([], []), ("\t".toList, "\tb".toList), ("  \t".toList, "  c".toList),
      ("    ".toList, "\td".toList)]
    (by decide) (by decide) (by decide) (by decide)

/-- the same evaluated directly on the engine -/
example : indentBody exCfg "    a\n\n\t\tb\n  \t  c\n    \td".toList = "a\n\n\tb\n  c\n\td".toList := by decide

/-- the clause "`l` starting with a tab after a four-blank indent" is **true**: `^( {0,3})\t` does not match
`"    \tfoo"` (the engine backtracks through 3, 2, 1, 0 blanks and finds a blank instead of the tab each time) -/
example : indentBody exCfg "    \tfoo".toList = "\tfoo".toList := by decide

example : expandTabRxExpected.matchAt (Py.ctxOf "    \tfoo".toList) 0 = none := by decide

/-- **counterexample** to "first and last *lines* non-empty": the first line `"    "` is non-empty but its `l` is; the
joined text `"\nx"` starts with a newline, which `strip("\n")` removes -/
example : indentBody exCfg "    \n    x".toList = "x".toList ∧
    indentBody exCfg "    \n    x".toList ≠ Py.join ['\n'] [[], "x".toList] := by decide

/-- the same through `indent_verbatim_iff` -/
example : indentBody exCfg "    \n    x".toList ≠ Py.join ['\n'] [[], "x".toList] := fun h =>
  absurd ((indent_verbatim_iff exCfg rfl "    \n    x".toList [("    ".toList, []), ("    ".toList, "x".toList)]
    (by decide) (by decide)).mp h) (by decide)

/-- **counterexample** at the other end (`"  \t"` is a whole last line with empty `l`) -/
example : indentBody exCfg "\tx\n  \t".toList = "x".toList ∧
    indentBody exCfg "\tx\n  \t".toList ≠ Py.join ['\n'] ["x".toList, []] := by decide

/-- a single line with empty `l` is fine (first disjunct of `indent_verbatim_iff`) -/
example : indentBody exCfg "    ".toList = Py.join ['\n'] [[]] :=
  (indent_verbatim_iff exCfg rfl "    ".toList [("    ".toList, [])] (by decide) (by decide)).mpr (Or.inl rfl)

/-- outside the hypotheses: an interior line of two blanks is not an empty line; it comes out empty -/
example : indentBody exCfg "    a\n  \n    b".toList = "a\n\nb".toList := by decide

/-- the handler on the root state of `"    a\n"`, match `[0, 6)` (no paragraph before): one token, `raw = "a"` -/
example :
    parseIndentCode exCfg { start := 0, stop := 6, caps := [] } (BlockState.root "    a\n".toList) =
      .ok (some 6, (BlockState.root "    a\n".toList).appendToken
        (tok "block_code" [("raw", .str (indentBody exCfg "    a\n".toList)), ("style", Json.s "indent")])) :=
  (parseIndentCode_eq exCfg { start := 0, stop := 6, caps := [] } (BlockState.root "    a\n".toList)
    (BlockState.root "    a\n".toList) none rfl rfl).1

example : indentBody exCfg "    a\n".toList = "a".toList := by decide

end Examples


end Mistune
