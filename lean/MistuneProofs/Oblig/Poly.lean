/-
C07 obligation: every regex of the working tree is in the syntactic cheap class `Rx.polySafe`, or is
structurally equal to one of the accepted exceptions of the pinned tree (`Mistune.PolyExceptions`).
-/
import Mistune.Generated.Regex
import Mistune.RxAnalysis
import Mistune.Unicode
import Mistune.PolyExceptions
namespace Mistune
open Mistune.Generated

def allRx : List (String × Rx) := namedRx ++ directiveRx ++ (allCfgs.map (fun c => c.blockSpec ++ c.inlineSpec)).flatten

def polyOk (r : Rx) : Bool := r.polySafe pyCats || polyExceptions.any (fun e => decide (e = r))

/-- names of the regexes that are neither in the cheap class nor an accepted exception (empty on the pinned tree) -/
def polyOffenders : List String := (allRx.filter (fun p => !polyOk p.2)).map (·.1)

theorem allRx_polyOk : polyOffenders = [] := by decide +kernel

end Mistune
