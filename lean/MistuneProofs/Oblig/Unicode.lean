/-
Obligations over the regenerated Unicode tables (kernel-checked, `decide +kernel`; no axioms) and the
instantiation of the generic `unikey` theorems for CPython's tables.
-/
import MistuneProofs.UnicodeSound
namespace Mistune
open Mistune.Generated

theorem foldTableGood_holds : foldTableGood = true := by decide +kernel

theorem foldOk_py : FoldOk isSpace foldChar := foldOk_of_good foldTableGood_holds

/-- **C18 (unikey idempotent), CPython tables.** -/
theorem unikeyPy_idem (s : Str) : unikeyPy (unikeyPy s) = unikeyPy s :=
  unikey_idem isSpace foldChar foldOk_py s

/-- **C18 (unikey, whitespace runs), CPython tables.** -/
theorem unikeyPy_ws_run (a b sp1 sp2 : Str) (h1 : sp1 ≠ []) (h2 : sp2 ≠ [])
    (hs1 : ∀ c ∈ sp1, isSpace c = true) (hs2 : ∀ c ∈ sp2, isSpace c = true) :
    unikeyPy (a ++ sp1 ++ b) = unikeyPy (a ++ sp2 ++ b) :=
  unikey_ws_run isSpace foldChar a b sp1 sp2 h1 h2 hs1 hs2

theorem unikeyPy_ws_lead (sp b : Str) (h1 : sp ≠ []) (hs : ∀ c ∈ sp, isSpace c = true) :
    unikeyPy (sp ++ b) = unikeyPy b := unikey_ws_lead isSpace foldChar sp b h1 hs

theorem unikeyPy_ws_trail (a sp : Str) (h1 : sp ≠ []) (hs : ∀ c ∈ sp, isSpace c = true) :
    unikeyPy (a ++ sp) = unikeyPy a := unikey_ws_trail isSpace foldChar a sp h1 hs

theorem lowerTree_good : variantGood lowerTree = true := by decide +kernel
theorem upperTree_good : variantGood upperTree = true := by decide +kernel
theorem titleTree_good : variantGood titleTree = true := by decide +kernel
theorem swapcaseTree_good : variantGood swapcaseTree = true := by decide +kernel
theorem casefoldTree_good : variantGood casefoldTree = true := by decide +kernel

/-- **C18 (unikey, letter case), CPython tables.** Lower-casing, upper-casing, title-casing, swap-casing or
case-folding any characters of a label (single-code-point mappings) does not change its key. -/
theorem unikeyPy_case (tbl : NatTree Nat)
    (h : tbl = lowerTree ∨ tbl = upperTree ∨ tbl = titleTree ∨ tbl = swapcaseTree ∨ tbl = casefoldTree)
    (s : Str) : unikeyPy (s.map (variantOf tbl)) = unikeyPy s := by
  have hg : variantGood tbl = true := by
    rcases h with h | h | h | h | h <;> subst h
    · exact lowerTree_good
    · exact upperTree_good
    · exact titleTree_good
    · exact swapcaseTree_good
    · exact casefoldTree_good
  have := variant_sound tbl hg
  exact unikey_case isSpace foldChar (variantOf tbl) this.1 this.2 s

end Mistune
