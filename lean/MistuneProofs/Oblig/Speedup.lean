/-
Obligations over the regenerated rule tables for C09 (speedup) and C10 (plugin triggers), and the
instantiation of the generic scanner theorems for the named configurations.
-/
import Mistune.Generated.Regex
import Mistune.Unicode
import MistuneProofs.C09C10
namespace Mistune
open Mistune.Generated

/-- inline rules whose interplay with the text chunk is handled separately (the speedup pattern special-cases
them: hard/soft line breaks by `HARD_LINEBREAK_RE.sub`, `url_link` by the `https?:` alternative) -/
def speedupSpecial : List String := ["text", "linebreak", "softbreak", "url_link"]

/-- **C09 obligation**: in a configuration with speedup, the text rule has the expected shape, and every other
inline rule (outside the special ones) can only start with one of its stop characters. -/
def speedupOk (c : RuleCfg) : Bool :=
  match c.inline.lookup "text" with
  | none => true           -- speedup not enabled in this configuration
  | some tr =>
    match tr.speedupStops with
    | none => false
    | some stops =>
      (c.inline.filter (fun p => !speedupSpecial.contains p.1)).all (fun p =>
        match p.2.firstChars with
        | some l => l.all (fun ch => stops.contains ch)
        | none => false)

theorem allCfgs_speedupOk : allCfgs.all speedupOk = true := by decide +kernel

/-- The block-level fast path (`paragraph` rule of speedup) claims one line that starts with a character
outside white space / digits / ASCII punctuation.  Rules ordered BEFORE it are tried first at the same position
(scanner priority, `scanAt`); every rule ordered AFTER it must be unable to start with a character the
paragraph rule accepts. -/
def blockFirstOk (c : RuleCfg) : Bool :=
  match c.block.lookup "paragraph" with
  | none => true
  | some pr =>
    ((c.block.dropWhile (fun p => p.1 != "paragraph")).drop 1).all (fun p =>
      match p.2.firstChars with
      | some l => l.all (fun ch => !(pr.firstOk pyCats ch))
      | none => false)

theorem allCfgs_blockFirstOk : allCfgs.all blockFirstOk = true := by decide +kernel

/-- the block fast path claims ONE line: its regex can contain at most one newline -/
def paragraphSingleLine (c : RuleCfg) : Bool :=
  match c.block.lookup "paragraph" with
  | none => true
  | some pr => pr.maxNewlines == some 1 && pr.bolAnchored

theorem allCfgs_paragraphSingleLine : allCfgs.all paragraphSingleLine = true := by decide +kernel

/-- **C10 obligation**: every rule that a plugin adds has at least one needed character (its trigger set is
computed from the regenerated regex, never written down). -/
def pluginRulesHaveTrigger (base c : RuleCfg) : Bool :=
  let baseNames := (base.block ++ base.inline).map (·.1)
  ((c.block ++ c.inline).filter (fun p => !baseNames.contains p.1 && p.1 != "text" && p.1 != "paragraph")).all
    (fun p => !p.2.needs.isEmpty)

theorem plugins_have_triggers : allCfgs.all (pluginRulesHaveTrigger cfg_core) = true := by decide +kernel

end Mistune
