/-
Obligations over the regenerated rule tables (kernel-checked): every rule of every named configuration
consumes at least one character; every repeat body in every regex of the repository consumes at least one
character per iteration; the translator expressed every pattern.
-/
import Mistune.Generated.Regex
import Mistune.Scanner
namespace Mistune
open Mistune.Generated

def cfgRules (c : RuleCfg) : List (String × Rx) := c.block ++ c.quote ++ c.list ++ c.inline

def cfgConsumes (c : RuleCfg) : Bool :=
  rulesConsume c.block && rulesConsume c.quote && rulesConsume c.list && rulesConsume c.inline

def cfgRepOk (c : RuleCfg) : Bool := (cfgRules c).all (fun p => p.2.repBodiesConsume)

/-- **Obligation (C01):** no rule of any named configuration can match the empty string. -/
theorem allCfgs_consume : allCfgs.all cfgConsumes = true := by decide +kernel

/-- **Obligation (C01/C07, engine fidelity):** no repeat body is nullable, in any rule of any configuration… -/
theorem allCfgs_repBodies : allCfgs.all cfgRepOk = true := by decide +kernel

/-- …nor in any module-level / run-time pattern. -/
theorem namedRx_repBodies : namedRx.all (fun p => p.2.repBodiesConsume) = true := by decide +kernel

/-- **Obligation (translator):** every pattern of the working tree was expressible as an `Rx`. -/
theorem no_unsupported : unsupportedRx = [] := by decide

end Mistune
