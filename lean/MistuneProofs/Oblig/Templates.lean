/-
Kernel-decided obligation over the render templates regenerated from the working tree: every HTML render
method (core, every plugin, both directive syntaxes) was translated (none opaque), and every use of an argument
that carries arbitrary document data passes through an escaper on every branch that is possible with
escaping on.  `block_error` is exempt (known finding C02).
-/
import Mistune.Generated.Templates
namespace Mistune
open Mistune.Generated

theorem templates_ok : templates.ok = true := by decide +kernel

theorem templates_none_opaque : opaqueTemplates = [] := by decide

end Mistune
