/-
C05 for the concrete model: non-vacuity examples for `parseDoc_wf` (kernel-checked), and the witness of the finding
about the fixed fuel of `wfTokens`.
-/
import MistuneProofs.C05Grammar
namespace Mistune
namespace Model

/-- a quote with a list with a heading, and a link inside emphasis -/
def exDoc : Str := "> - # a *b [c](u) d*\n>   text\n".toList

/-- the model parses the document, the result is in the grammar -/
example : ((findCfg "core").map (fun cfg =>
    match parseDoc cfg exDoc with
    | .ok toks => wfSeq (wfFuel cfg) toks .block 0 cfg.maxNested && wfTokens toks cfg.maxNested
    | .error _ => false)) = some true := by decide +kernel

/-- the nesting clause is not vacuous: the predicate rejects the same tree for `max_nested_level = 1` -/
example : ((findCfg "core").map (fun cfg =>
    match parseDoc cfg exDoc with
    | .ok toks => wfSeq (wfFuel cfg) toks .block 0 1
    | .error _ => true)) = some false := by decide +kernel

/-! ### why the fuel of `wfTokens` depends on the inline budget

`</a>` resets `in_link` inside the child state of a link, so links nest in links without bound
(`[a </a>[a </a>x](u)](u)` is link > link in Python as well).  `k` nested links give a tree of depth `k + 2`, so any
constant fuel of `wfSeq` is exceeded by a reachable tree: kernel-checked at small scale below (8 links: fuel 9 fails,
`wfTokens` succeeds).  With the former fuel 64, `parseDoc cfg_core (nestedLinks 63)` was rejected (`#eval`) although
`harness/tokgrammar.py` accepts Python's tree for the same input. -/

def nestedLinks : Nat → String
  | 0 => "x"
  | k + 1 => "[a </a>" ++ nestedLinks k ++ "](u)"

example : ((findCfg "core").map (fun cfg =>
    match parseDoc cfg (nestedLinks 8).toList with
    | .ok toks => (wfTokens toks cfg.maxNested, wfSeq 9 toks .block 0 cfg.maxNested)
    | .error _ => (false, false))) = some (true, false) := by decide +kernel

end Model
end Mistune
