/-
C02 / C06 — template-level safety theorem.

`TStr.Safe t` : no character of `t` that comes from the document (flag `true`) is `<`, `>` or `"`.
The HTML output is obtained by erasing the flags (tied to the real render methods by probing, every run), so the
theorem says: with escaping on, every `<`, `>`, `"` of the output was written by a template literal.
-/
import Mistune.TmplTree
import Mistune.Generated.Templates
import MistuneProofs.Oblig.Templates
import MistuneProofs.C18
namespace Mistune
open Mistune.Generated

/-- the arguments outside `dataArgs` have safe values -/
def ArgsSafe (env : TEnv) (dataArgs : List String) : Prop :=
  ∀ n, dataArgs.contains n = false → (env.get n).Safe

/-! ### operations -/

theorem TStr.safeB_iff (t : TStr) : t.safeB = true ↔ t.Safe := by
  unfold TStr.safeB TStr.Safe
  rw [List.all_eq_true]
  constructor
  · intro h p hp hf
    have := h p hp
    simp [hf] at this
    exact ⟨this.1.1, this.1.2, this.2⟩
  · intro h p hp
    by_cases hf : p.2 = true
    · have := h p hp hf
      simp [hf, this]
    · simp at hf; simp [hf]

theorem TVal.safeB_iff (v : TVal) : v.safeB = true ↔ v.Safe := by
  cases v with
  | str t => exact TStr.safeB_iff t
  | toc items =>
    simp only [TVal.safeB, TVal.Safe, List.all_eq_true, Bool.and_eq_true, TStr.safeB_iff]
  | none => simp [TVal.safeB, TVal.Safe]
  | bool b => simp [TVal.safeB, TVal.Safe]
  | int n => simp [TVal.safeB, TVal.Safe]

theorem TStr.Safe.nil : TStr.Safe [] := by intro p hp; cases hp

theorem TStr.Safe.append {a b : TStr} (ha : a.Safe) (hb : b.Safe) : (a ++ b).Safe := by
  intro p hp
  rcases List.mem_append.1 hp with h | h
  · exact ha p h
  · exact hb p h

theorem TStr.Safe.of_subset {a b : TStr} (hb : b.Safe) (h : ∀ p ∈ a, p ∈ b) : a.Safe :=
  fun p hp => hb p (h p hp)

theorem TStr.Safe.of_sublist {a b : TStr} (hb : b.Safe) (h : a.Sublist b) : a.Safe :=
  hb.of_subset (fun _ hp => h.subset hp)

theorem TStr.Safe.flatMap {α : Type} (l : List α) (f : α → TStr) (h : ∀ x ∈ l, (f x).Safe) :
    TStr.Safe (l.flatMap f) := by
  intro p hp
  obtain ⟨x, hx, hpx⟩ := List.mem_flatMap.1 hp
  exact h x hx p hpx

theorem TStr.ofLit_safe (s : Str) : (TStr.ofLit s).Safe := by
  intro p hp hf
  simp [TStr.ofLit] at hp
  obtain ⟨c, _, rfl⟩ := hp
  simp at hf

theorem TStr.ofData_safe (s : Str) (h : ∀ c ∈ s, c ≠ '<' ∧ c ≠ '>' ∧ c ≠ '"') : (TStr.ofData s).Safe := by
  intro p hp _
  simp [TStr.ofData] at hp
  obtain ⟨c, hc, rfl⟩ := hp
  exact h c hc

theorem tEscape_safe (t : TStr) : (tEscape true t).Safe := by
  intro p hp _
  simp only [tEscape, List.mem_flatMap, List.mem_map] at hp
  obtain ⟨q, _, c, hc, rfl⟩ := hp
  have := escChar_no_special true q.1 c hc
  exact ⟨this.1, this.2.1, this.2.2 rfl⟩

theorem tEscape_preserves (q : Bool) (t : TStr) (h : t.Safe) : (tEscape q t).Safe := by
  intro p hp hf
  simp only [tEscape, List.mem_flatMap, List.mem_map] at hp
  obtain ⟨r, hr, c, hc, rfl⟩ := hp
  have hs := h r hr hf
  have := escChar_no_special q r.1 c hc
  refine ⟨this.1, this.2.1, ?_⟩
  simp only
  intro hcq
  subst hcq
  unfold escChar at hc
  split at hc
  · simp at hc
  split at hc
  · simp at hc
  split at hc
  · simp at hc
  split at hc
  · simp at hc
  · simp at hc; exact hs.2.2 hc.symm

/-- `escape(s)` never contains `<`, `>`, `"` -/
theorem escape_mem_no_specials (s : Str) : ∀ c ∈ escape true s, c ≠ '<' ∧ c ≠ '>' ∧ c ≠ '"' := by
  intro c hc
  have h := escape_no_specials true s
  refine ⟨?_, ?_, ?_⟩
  · rintro rfl; exact h.1 hc
  · rintro rfl; exact h.2.1 hc
  · rintro rfl; exact h.2.2 rfl hc

theorem safeUrlStr_no_specials (h g : List Str) (u : Str) : ∀ c ∈ safeUrlStr h g u, c ≠ '<' ∧ c ≠ '>' ∧ c ≠ '"' := by
  intro c hc
  unfold safeUrlStr at hc
  simp only at hc
  split at hc
  · revert c; decide
  · exact escape_mem_no_specials u c hc

theorem mem_deleteSpans {α : Type} (sp : List (Nat × Nat)) (i : Nat) (l : List α) :
    ∀ x ∈ deleteSpans sp i l, x ∈ l := by
  fun_induction deleteSpans sp i l with
  | case1 => intro x hx; cases hx
  | case2 => intro x hx; exact hx
  | case3 a b rest i x xs h ih =>
    intro y hy
    rcases List.mem_cons.1 hy with rfl | hy
    · exact List.mem_cons_self
    · exact List.mem_cons_of_mem _ (ih y hy)
  | case4 a b rest i x xs h1 h2 ih =>
    intro y hy; exact List.mem_cons_of_mem _ (ih y hy)
  | case5 a b rest i x xs h1 h2 ih =>
    intro y hy; exact ih y hy

theorem applyOp_escaper_safe (env : TEnv) (op : TOp) (t : TStr) (h : isEscaper op = true) : (applyOp env op t).Safe := by
  cases op <;> simp [isEscaper] at h
  · exact tEscape_safe t
  · exact TStr.ofData_safe _ (escape_mem_no_specials _)
  · exact TStr.ofData_safe _ (safeUrlStr_no_specials _ _ _)

theorem applyOp_preserves (env : TEnv) (op : TOp) (t : TStr) (h : t.Safe) : (applyOp env op t).Safe := by
  cases op
  · exact tEscape_safe t
  · exact tEscape_preserves false t h
  · exact TStr.ofData_safe _ (escape_mem_no_specials _)
  · exact TStr.ofData_safe _ (safeUrlStr_no_specials _ _ _)
  · exact h.of_subset (mem_deleteSpans _ _ _)
  · exact h
  · refine h.of_sublist ?_
    show (tStrip t).Sublist t
    unfold tStrip
    have h1 : ((t.dropWhile (fun p => isSpace p.1)).reverse.dropWhile (fun p => isSpace p.1)).Sublist
        (t.dropWhile (fun p => isSpace p.1)).reverse := List.dropWhile_sublist _
    have h2 := List.reverse_sublist.2 h1
    rw [List.reverse_reverse] at h2
    exact h2.trans (List.dropWhile_sublist _)
  · refine h.of_sublist ?_
    show (tRstrip t).Sublist t
    unfold tRstrip
    have h1 : (t.reverse.dropWhile (fun p => isSpace p.1)).Sublist t.reverse := List.dropWhile_sublist _
    have h2 := List.reverse_sublist.2 h1
    rw [List.reverse_reverse] at h2
    exact h2
  · refine h.of_sublist ?_
    exact (List.takeWhile_sublist _).trans (List.dropWhile_sublist _)
  · refine h.of_sublist ?_
    exact List.take_sublist _ _

theorem applyOps_safe (env : TEnv) (ops : List TOp) (t : TStr) (h : hasEscaper ops = true ∨ t.Safe) : (applyOps env ops t).Safe := by
  induction ops generalizing t with
  | nil =>
    rcases h with h | h
    · simp [hasEscaper] at h
    · exact h
  | cons op ops ih =>
    simp only [applyOps, List.foldl_cons]
    apply ih
    rcases h with h | h
    · simp only [hasEscaper, List.any_cons, Bool.or_eq_true] at h
      rcases h with h | h
      · exact Or.inr (applyOp_escaper_safe env op t h)
      · exact Or.inl h
    · exact Or.inr (applyOp_preserves env op t h)

theorem int_toString_safe (n : Int) : (TStr.ofData (toString n).toList).Safe := by
  apply TStr.ofData_safe
  have hd : ∀ (m : Nat) c, c ∈ m.repr.toList → c ≠ '<' ∧ c ≠ '>' ∧ c ≠ '"' := by
    intro m c hc
    rw [Nat.toList_repr] at hc
    have := Nat.isDigit_of_mem_toDigits (by decide) (by decide) hc
    refine ⟨?_, ?_, ?_⟩ <;> rintro rfl <;> simp at this
  intro c hc
  rw [Int.toString_eq_repr, Int.repr_eq_if] at hc
  split at hc
  · exact hd _ c hc
  · simp only [String.toList_append, List.mem_append] at hc
    rcases hc with hc | hc
    · revert c; decide
    · exact hd _ c hc

theorem TVal.toTStr_safe (v : TVal) (h : v.Safe) : v.toTStr.Safe := by
  cases v with
  | none => exact TStr.Safe.nil
  | bool b =>
    apply TStr.ofData_safe
    cases b <;> decide
  | int n => exact int_toString_safe n
  | str t => exact h
  | toc items => exact TStr.Safe.nil

/-! ### templates -/

theorem tReplaceFirst_safe (t : TStr) (pat : Str) (b : TStr) (ht : t.Safe) (hb : b.Safe) :
    (tReplaceFirst t pat b).Safe := by
  unfold tReplaceFirst
  split
  · exact ((ht.of_sublist (List.take_sublist _ _)).append hb).append (ht.of_sublist (List.drop_sublist _ _))
  · exact ht

theorem tocAnchorT_safe (id text : TStr) (h1 : id.Safe) (h2 : text.Safe) : (tocAnchorT id text).Safe := by
  unfold tocAnchorT
  exact ((((TStr.ofLit_safe _).append h1).append (TStr.ofLit_safe _)).append h2).append (TStr.ofLit_safe _)

mutual
theorem evalPieces_safe (env : TEnv) (d : List String) (e : List TPiece)
    (hok : piecesOk d e = true) (ha : ArgsSafe env d) : (evalPieces env e).Safe := by
  match e with
  | [] => simp only [evalPieces]; exact TStr.Safe.nil
  | p :: rest =>
    simp only [piecesOk, Bool.and_eq_true] at hok
    simp only [evalPieces]
    exact (evalPiece_safe env d p hok.1 ha).append (evalPieces_safe env d rest hok.2 ha)
theorem evalPiece_safe (env : TEnv) (d : List String) (p : TPiece)
    (hok : pieceOk d p = true) (ha : ArgsSafe env d) : (evalPiece env p).Safe := by
  match p with
  | .lit s => simp only [evalPiece]; exact TStr.ofLit_safe s
  | .arg n ops =>
    simp only [evalPiece]
    simp only [pieceOk, Bool.or_eq_true, Bool.not_eq_true'] at hok
    apply applyOps_safe
    rcases hok with h | h
    · exact Or.inr (TVal.toTStr_safe _ (ha n h))
    · exact Or.inl h
  | .sub ops e =>
    simp only [evalPiece]
    simp only [pieceOk, Bool.or_eq_true] at hok
    apply applyOps_safe
    rcases hok with h | h
    · exact Or.inl h
    · exact Or.inr (evalPieces_safe env d e h ha)
  | .replaceFirst e pat by_ =>
    simp only [evalPiece]
    simp only [pieceOk, Bool.and_eq_true] at hok
    exact tReplaceFirst_safe _ _ _ (evalPieces_safe env d e hok.1 ha) (evalPieces_safe env d by_ hok.2 ha)
  | .toc n =>
    simp only [pieceOk, Bool.not_eq_true'] at hok
    have hs := ha n hok
    simp only [evalPiece]
    split
    · rename_i items heq
      rw [heq] at hs
      apply TStr.Safe.flatMap
      intro it hit
      have := hs it hit
      exact tocAnchorT_safe _ _ this.1 this.2
    · exact TStr.Safe.nil
end

theorem isDigitStr_safe (v : TVal) (h : isDigitStr v.toTStr.erase = true) : v.Safe := by
  cases v with
  | str t =>
    simp only [TVal.toTStr] at h
    simp only [TVal.Safe]
    intro p hp _
    simp only [isDigitStr, Bool.and_eq_true, List.all_eq_true] at h
    have := h.2 p.1 (List.mem_map.2 ⟨p, hp, rfl⟩)
    refine ⟨?_, ?_, ?_⟩ <;> intro hc <;> rw [hc] at this <;> revert this <;> decide +kernel
  | toc items => simp [TVal.toTStr, TStr.erase, isDigitStr] at h
  | none => trivial
  | bool b => trivial
  | int n => trivial

theorem ArgsSafe.filter {env : TEnv} {d : List String} {n : String} (ha : ArgsSafe env d)
    (hn : (env.get n).Safe) : ArgsSafe env (d.filter (· != n)) := by
  intro m hm
  by_cases hmn : m = n
  · subst hmn; exact hn
  · apply ha
    simp only [List.contains_eq_mem, decide_eq_false_iff_not, List.mem_filter, bne_iff_ne, ne_eq, not_and,
      Decidable.not_not] at hm ⊢
    intro hmem
    exact hmn (hm hmem)

theorem evalTmpl_safe (env : TEnv) (d : List String) (T : Tmpl) (hesc : env.escapeFlag = true)
    (hok : tmplOk d T = true) (ha : ArgsSafe env d) : ∀ out, evalTmpl env T = some out → out.Safe := by
  fun_induction tmplOk d T with
  | case1 d e =>
    intro out h
    simp only [evalTmpl, Option.some.injEq] at h
    subst h
    exact evalPieces_safe env d e hok ha
  | case2 d t e ih =>
    intro out h
    have hc : evalCond env .flagEscape = true := by simp only [evalCond, hesc]
    simp only [evalTmpl] at h
    rw [if_pos hc] at h
    exact ih hok ha out h
  | case3 d t e ih =>
    intro out h
    have hc : ¬ evalCond env (.not .flagEscape) = true := by simp [evalCond, hesc]
    simp only [evalTmpl] at h
    rw [if_neg hc] at h
    exact ih hok ha out h
  | case4 d n t e ih1 ih2 =>
    intro out h
    simp only [Bool.and_eq_true] at hok
    simp only [evalTmpl] at h
    by_cases hc : evalCond env (.isDigit n) = true
    · rw [if_pos hc] at h
      simp only [evalCond] at hc
      exact ih1 hok.1 (ha.filter (isDigitStr_safe _ hc)) out h
    · rw [if_neg hc] at h
      exact ih2 hok.2 ha out h
  | case5 d n t e ih1 ih2 =>
    intro out h
    simp only [Bool.and_eq_true] at hok
    simp only [evalTmpl] at h
    by_cases hc : evalCond env (.notNone n) = true
    · rw [if_pos hc] at h
      exact ih1 hok.1 ha out h
    · rw [if_neg hc] at h
      refine ih2 hok.2 (ha.filter ?_) out h
      simp only [evalCond] at hc
      cases heq : env.get n with
      | none => trivial
      | bool b => rw [heq] at hc; simp at hc
      | int b => rw [heq] at hc; simp at hc
      | str b => rw [heq] at hc; simp at hc
      | toc b => rw [heq] at hc; simp at hc
  | case6 d c t e _ _ _ _ ih1 ih2 =>
    intro out h
    simp only [Bool.and_eq_true] at hok
    simp only [evalTmpl] at h
    split at h
    · exact ih1 hok.1 ha out h
    · exact ih2 hok.2 ha out h
  | case7 d => simp at hok

/-! ### token trees -/

theorem mem_of_lookup_eq_some {β : Type} (a : String) (l : List (String × β)) (b : β)
    (h : l.lookup a = some b) : (a, b) ∈ l := by
  induction l with
  | nil => simp at h
  | cons p l ih =>
    obtain ⟨k, v⟩ := p
    simp only [List.lookup_cons] at h
    split at h
    · rename_i heq
      simp at heq h
      subst heq; subst h
      exact List.mem_cons_self
    · exact List.mem_cons_of_mem _ (ih h)

theorem evalTmpl_getD_safe (mk : List (String × TVal) → TEnv)
    (hmk : ∀ args, (mk args).escapeFlag = true ∧ (mk args).args = args)
    (d : List String) (T : Tmpl) (hok : tmplOk d T = true) (args : List (String × TVal))
    (ha : ∀ n, d.contains n = false → ((args.lookup n).getD .none).Safe) :
    ((evalTmpl (mk args) T).getD []).Safe := by
  cases hout : evalTmpl (mk args) T with
  | none => exact TStr.Safe.nil
  | some out =>
    refine evalTmpl_safe (mk args) d T (hmk args).1 hok ?_ out hout
    intro n hn
    unfold TEnv.get
    rw [(hmk args).2]
    exact ha n hn

theorem attrs_lookup_safe (d : List String) (attrs : List (String × TVal))
    (h : attrs.all (fun p => d.contains p.1 || p.2.safeB) = true) :
    ∀ n, d.contains n = false → ((attrs.lookup n).getD .none).Safe := by
  intro n hn
  cases hl : attrs.lookup n with
  | none => trivial
  | some v =>
    have hm := mem_of_lookup_eq_some n attrs v hl
    have := List.all_eq_true.1 h _ hm
    simp only [hn, Bool.false_or] at this
    exact (TVal.safeB_iff v).1 this

theorem text_lookup_safe (d : List String) (attrs : List (String × TVal)) (x : TStr)
    (hx : d.contains "$text" = false → x.Safe)
    (h : ∀ n, d.contains n = false → ((attrs.lookup n).getD .none).Safe) :
    ∀ n, d.contains n = false → (((("$text", TVal.str x) :: attrs).lookup n).getD .none).Safe := by
  intro n hn
  simp only [List.lookup_cons]
  split
  · rename_i heq
    simp at heq
    subst heq
    exact hx hn
  · exact h n hn

theorem tmplOk_of_table (tbl : TmplTable) (hok : tbl.ok = true) (ty : String) (T : Tmpl)
    (hl : tbl.tmpls.lookup ty = some T) (hex : tbl.exempt.contains ty = false) :
    tmplOk (tbl.dataArgsOf ty) T = true := by
  have hm := mem_of_lookup_eq_some ty _ T hl
  have := List.all_eq_true.1 hok _ hm
  simp only [hex, Bool.false_or] at this
  exact this

/-- **Tree theorem**: for a template table that passes the static check, rendering a token tree whose restricted
fields are safe (the decidable `refinedOk`) yields a safe string, at every depth. -/
theorem renderTok_safe (tbl : TmplTable) (hok : tbl.ok = true) (mk : List (String × TVal) → TEnv)
    (hmk : ∀ args, (mk args).escapeFlag = true ∧ (mk args).args = args) :
    ∀ fuel t, refinedOk tbl fuel t = true → (renderTok tbl mk fuel t).Safe := by
  intro fuel
  induction fuel with
  | zero => intro t h; simp [refinedOk] at h
  | succ fuel ih =>
    intro t h
    simp only [refinedOk, Bool.and_eq_true, Bool.or_eq_true, Bool.not_eq_true'] at h
    obtain ⟨⟨⟨hex, hraw⟩, hattrs⟩, hch⟩ := h
    have hA := attrs_lookup_safe _ _ hattrs
    unfold renderTok
    simp only
    cases hT : tbl.tmpls.lookup t.type with
    | none => exact TStr.Safe.nil
    | some T =>
      simp only
      have hTok := tmplOk_of_table tbl hok _ T hT hex
      apply evalTmpl_getD_safe mk hmk _ T hTok
      generalize htext : (if tbl.rawTypes.contains t.type = true then Option.map TStr.ofData (t.getStr? "raw")
        else match t.get? "children" with
          | some (Json.arr cs) => some (List.flatMap (renderTok tbl mk fuel) cs)
          | _ => none) = text
      cases text with
      | none => exact hA
      | some x =>
        simp only
        apply text_lookup_safe _ _ x ?_ hA
        intro hd
        by_cases hr : tbl.rawTypes.contains t.type = true
        · rw [if_pos hr] at htext
          cases hg : t.getStr? "raw" with
          | none => rw [hg] at htext; simp at htext
          | some r =>
            rw [hg] at htext hraw
            simp only [Option.map_some, Option.some.injEq] at htext
            subst htext
            rcases hraw with (h | h) | h
            · rw [hr] at h; cases h
            · rw [hd] at h; cases h
            · simp only [Option.map_some, Option.getD_some] at h
              exact (TStr.safeB_iff _).1 h
        · rw [if_neg hr] at htext
          split at htext
          · rename_i cs heq
            rw [heq] at hch
            simp only [List.all_eq_true] at hch
            simp only [Option.some.injEq] at htext
            subst htext
            apply TStr.Safe.flatMap
            intro c hc
            exact ih c (hch c hc)
          · cases htext

/-- **C02 on the templates of the working tree** (uses the kernel-decided obligation `templates_ok`). -/
theorem render_safe (fuel : Nat) (toks : List Json) (h : toks.all (refinedOk templates fuel) = true) :
    (renderToks templates (fun a => mkTEnv a true) fuel toks).Safe := by
  unfold renderToks
  apply TStr.Safe.flatMap
  intro t ht
  exact renderTok_safe templates templates_ok (fun a => mkTEnv a true) (fun _ => ⟨rfl, rfl⟩) fuel t
    (List.all_eq_true.1 h t ht)

/-- non-vacuity: a paragraph holding a raw `<script>` text and a link with a quote in its title meets the
hypothesis, and the output keeps the data but no data delimiter. -/
example :
    let tok := Json.obj [("type", .str "paragraph".toList), ("children", .arr [
      Json.obj [("type", .str "text".toList), ("raw", .str "<script>\"".toList)],
      Json.obj [("type", .str "link".toList), ("attrs", .obj [("url", .str "a\"b".toList), ("title", .str "<".toList)]),
                ("children", .arr [])]])]
    refinedOk templates 5 tok = true ∧
    (renderTok templates (fun a => mkTEnv a true) 5 tok).erase
      = "<p>&lt;script&gt;&quot;<a href=\"a&quot;b\" title=\"&lt;\"></a></p>\n".toList := by
  decide +kernel


end Mistune
