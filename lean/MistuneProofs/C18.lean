/-
C18 — escaping and key utilities are safe and stable.  Theorems about `Mistune.Util` for ALL strings.
-/
import Mistune.Util
namespace Mistune

/-! ## escape -/

theorem replace1_append (c : Char) (r a b : Str) :
    replace1 c r (a ++ b) = replace1 c r a ++ replace1 c r b := by
  simp [replace1, List.flatMap_append]

theorem replace1_cons (c : Char) (r : Str) (x : Char) (s : Str) :
    replace1 c r (x :: s) = (if x = c then r else [x]) ++ replace1 c r s := by
  simp [replace1]

theorem replace1_flatMap (c : Char) (r : Str) (f : Char → Str) (s : Str) :
    replace1 c r (s.flatMap f) = s.flatMap (fun x => replace1 c r (f x)) := by
  simp [replace1, List.flatMap_assoc]

theorem escape_single (q : Bool) (x : Char) : escape q [x] = escChar q x := by
  by_cases h1 : x = '&'
  · subst h1; cases q <;> decide
  by_cases h2 : x = '<'
  · subst h2; cases q <;> decide
  by_cases h3 : x = '>'
  · subst h3; cases q <;> decide
  by_cases h4 : x = '"'
  · subst h4; cases q <;> decide
  cases q <;> simp [escape, escChar, replace1, h1, h2, h3, h4]

/-- The chain of `str.replace` calls (in mistune's order, `&` first) is the per-character map. -/
theorem escape_eq_flatMap (q : Bool) (s : Str) : escape q s = s.flatMap (escChar q) := by
  have h : ∀ s : Str, escape q s = s.flatMap (fun x => escape q [x]) := by
    intro s
    have e : s = s.flatMap (fun x => [x]) := by simp
    conv => lhs; rw [e]
    cases q <;> simp only [escape, replace1_flatMap] <;> rfl
  rw [h]; congr; funext x; exact escape_single q x

theorem escChar_no_special (q : Bool) (c x : Char) (hx : x ∈ escChar q c) :
    x ≠ '<' ∧ x ≠ '>' ∧ (q = true → x ≠ '"') := by
  unfold escChar at hx
  split at hx
  · simp at hx; rcases hx with h|h|h|h|h <;> subst h <;> simp <;> decide
  split at hx
  · simp at hx; rcases hx with h|h|h|h <;> subst h <;> simp <;> decide
  split at hx
  · simp at hx; rcases hx with h|h|h|h <;> subst h <;> simp <;> decide
  split at hx
  · simp at hx; rcases hx with h|h|h|h|h|h <;> subst h <;> simp <;> decide
  · simp at hx; subst hx
    refine ⟨by assumption, by assumption, ?_⟩
    intro hq hc; simp_all

/-- **C18 (escape, safety).** `escape` output never contains `<` or `>`, nor `"` when quoting. -/
theorem escape_no_specials (q : Bool) (s : Str) :
    '<' ∉ escape q s ∧ '>' ∉ escape q s ∧ (q = true → '"' ∉ escape q s) := by
  rw [escape_eq_flatMap]
  refine ⟨?_, ?_, ?_⟩
  · intro h; obtain ⟨c, _, hc⟩ := List.mem_flatMap.1 h; exact (escChar_no_special q c _ hc).1 rfl
  · intro h; obtain ⟨c, _, hc⟩ := List.mem_flatMap.1 h; exact (escChar_no_special q c _ hc).2.1 rfl
  · intro hq h; obtain ⟨c, _, hc⟩ := List.mem_flatMap.1 h; exact (escChar_no_special q c _ hc).2.2 hq rfl

theorem decodeBasic_escChar (q : Bool) (c : Char) (t : Str)
    (ih : decodeBasic t = decodeBasic t) : decodeBasic (escChar q c ++ t) = c :: decodeBasic t := by
  unfold escChar
  split
  · subst_vars; simp [decodeBasic]
  split
  · subst_vars; simp [decodeBasic]
  split
  · subst_vars; simp [decodeBasic]
  split
  · rename_i h; obtain ⟨h, _⟩ := h; subst h; simp [decodeBasic]
  · -- c is none of & < > (and not a quoted ")
    rename_i h1 h2 h3 h4
    simp only [List.singleton_append]
    by_cases hc : c = '&'
    · exact absurd hc h1
    · rw [decodeBasic]
      all_goals intros; simp_all

/-- **C18 (escape, round trip).** Decoding the four basic entities of `escape q s` gives back `s`. -/
theorem escape_roundtrip (q : Bool) (s : Str) : decodeBasic (escape q s) = s := by
  rw [escape_eq_flatMap]
  induction s with
  | nil => simp [decodeBasic]
  | cons c s ih =>
    simp only [List.flatMap_cons]
    rw [decodeBasic_escChar q c _ rfl, ih]

/-- **C18 (safe_entity).** For any decoder, `safe_entity` output has no raw `<`, `>`, `"`. -/
theorem safeEntity_no_specials (u : Str → Str) (s : Str) :
    '<' ∉ safeEntity u s ∧ '>' ∉ safeEntity u s ∧ '"' ∉ safeEntity u s := by
  have h := escape_no_specials true (u s)
  exact ⟨h.1, h.2.1, h.2.2 rfl⟩

end Mistune
