/-
C01 (conversion is total and terminating): the PROGRESS CONTRACT for the concrete block-parser model
`Mistune.Model.Blk` (block_parser.py, list_parser.py, core.py `BlockState`).

`C01Loops` proves termination of the abstract scanner loops under a `ProgressContract` on the handler
returns; here the contract is PROVED, handler by handler, for the transcription of the Python handlers that
the driver executes: no loop of the model ever returns `.error .noProgress` (the model's rendering of a
non-terminating Python `while` loop), for every configuration whose regenerated tables meet the decidable
condition `CfgOk`, and for every source string.

This file: the framework (`Good`), the regex facts, the non-recursive handlers, `parseLoop` and `parse`.
Block quotes, lists, the induction on the nesting budget and the headline theorem: `C01ProgressList`.
-/
import Mistune.Model.BlockDispatch
import MistuneProofs.C01Loops
namespace Mistune

/-! ### regex facts -/

/-- "the line at `i` starts with blanks and then `<`": what an HTML rule guarantees at its match start -/
def Mark (x : RxCtx) (i : Nat) : Prop :=
  ∃ k, i ≤ k ∧ (∀ p, i ≤ p → p < k → x.chr p = 32) ∧ x.chr k = 60

/-- `_LINE_END = re.compile(r"\n|$")` -/
def lineEndRx : Rx := .alt (.cls false [.chr 10]) .eos

theorem lineEndRx_matchAt (x : RxCtx) (i : Nat) (m : RxMatch) (h : lineEndRx.matchAt x i = some m)
    (hi : i < x.n) : i < m.stop := by
  simp only [lineEndRx, Rx.matchAt, Rx.m, clsTest, ClsItem.test, List.any_cons, List.any_nil, Bool.or_false] at h
  by_cases hc : 10 = x.chr i
  · simp [← hc, hi] at h
    subst h; simp
  · have : ¬ (i == x.n) = true := by simp; omega
    simp [hc, this] at h
    exact absurd h.1.2.symm hc

/-- `BlockParser.BLANK_LINE = re.compile(r"(^[ \t\v\f]*\n)+", re.M)` -/
def blankLineRx : Rx :=
  .rep (.grp 1 (.seq .bol (.seq (.rep (.cls false [.chr 32, .chr 9, .chr 11, .chr 12]) 0 none true)
    (.cls false [.chr 10])))) 1 none true

/-- "the line at `i` is blank": only blanks up to its newline -/
def Blank (x : RxCtx) (i : Nat) : Prop :=
  ∃ q, i ≤ q ∧ (∀ p, i ≤ p → p < q → x.chr p ≠ 60 ∧ x.chr p ≠ 10) ∧ x.chr q = 10

theorem iter_cls_run {x : RxCtx} {neg : Bool} {items : List ClsItem} {cnt i : Nat} {c : Caps} {j : Nat} {c' : Caps}
    (h : Iter (Spec x (.cls neg items)) cnt i c j c') :
    i ≤ j ∧ ∀ p, i ≤ p → p < j → clsTest x.t neg items (x.chr p) = true := by
  induction h with
  | zero i c => exact ⟨Nat.le_refl _, fun p h1 h2 => by omega⟩
  | @succ n i j k c c' c'' hs _ ih =>
    simp only [Spec] at hs
    obtain ⟨_, h2, h3, _⟩ := hs
    subst h3
    refine ⟨by omega, fun p h1 hp => ?_⟩
    by_cases hpi : p = i
    · subst hpi; exact h2
    · exact ih.2 p (by omega) hp

theorem spec_rep_iff {x : RxCtx} {r : Rx} {mn : Nat} {mx : Option Nat} {g : Bool} {i : Nat} {c : Caps} {j : Nat} {c' : Caps} :
    Spec x (.rep r mn mx g) i c j c' ↔
      ∃ cnt, mn ≤ cnt ∧ (∀ m, mx = some m → cnt ≤ m) ∧ Iter (Spec x r) cnt i c j c' := Iff.rfl

theorem spec_seq_iff {x : RxCtx} {a b : Rx} {i : Nat} {c : Caps} {j : Nat} {c' : Caps} :
    Spec x (.seq a b) i c j c' ↔ ∃ m cm, Spec x a i c m cm ∧ Spec x b m cm j c' := Iff.rfl

theorem spec_grp_iff {x : RxCtx} {idx : Nat} {r : Rx} {i : Nat} {c : Caps} {j : Nat} {c' : Caps} :
    Spec x (.grp idx r) i c j c' ↔ ∃ c0, Spec x r i c j c0 ∧ c' = (idx, (i, j)) :: c0 := Iff.rfl

theorem blankLineRx_spec (x : RxCtx) (i : Nat) (c : Caps) (j : Nat) (c' : Caps)
    (h : Spec x blankLineRx i c j c') : Blank x i := by
  rw [blankLineRx, spec_rep_iff] at h
  obtain ⟨cnt, h1, _, hit⟩ := h
  cases hit with
  | zero => omega
  | succ hs _ =>
    rw [spec_grp_iff] at hs
    obtain ⟨c0, hs, _⟩ := hs
    rw [spec_seq_iff] at hs
    obtain ⟨m, cm, hbol, hs⟩ := hs
    rw [spec_seq_iff] at hs
    obtain ⟨m2, cm2, hrep, hnl⟩ := hs
    rw [spec_rep_iff] at hrep
    obtain ⟨cnt2, _, _, hrun⟩ := hrep
    simp only [Spec] at hbol hnl
    obtain ⟨_, hm, _⟩ := hbol
    subst hm
    have hr := iter_cls_run hrun
    obtain ⟨_, hq, _, _⟩ := hnl
    refine ⟨m2, hr.1, fun p h1 h2 => ?_, ?_⟩
    · have := hr.2 p h1 h2
      simp [clsTest, ClsItem.test] at this
      omega
    · simp [clsTest, ClsItem.test] at hq; omega

theorem mark_not_blank (x : RxCtx) (i : Nat) (hm : Mark x i) (hb : Blank x i) : False := by
  obtain ⟨k, hk1, hk2, hk3⟩ := hm
  obtain ⟨q, hq1, hq2, hq3⟩ := hb
  rcases Nat.lt_trichotomy k q with h | h | h
  · exact (hq2 k hk1 h).1 hk3
  · subst h; omega
  · have := hk2 q hq1 h; omega

/-! ### the `Mark` analysis: a regex whose every match starts with ` *<` -/

def Rx.isSpaceRun : Rx → Bool
  | .rep (.cls false [.chr 32]) _ _ _ => true
  | _ => false

/-- every match starts with a run of blanks followed by `<` (structural check) -/
def Rx.markStart : Rx → Bool
  | .cls false [.chr 60] => true
  | .grp _ r => r.markStart
  | .seq a b => a.markStart || ((a.zeroWidth || a.isSpaceRun) && b.markStart)
  | _ => false

theorem isSpaceRun_sound (x : RxCtx) (a : Rx) (i : Nat) (c : Caps) (j : Nat) (c' : Caps)
    (h : Spec x a i c j c') (ha : a.isSpaceRun = true) : i ≤ j ∧ ∀ p, i ≤ p → p < j → x.chr p = 32 := by
  unfold Rx.isSpaceRun at ha
  split at ha
  · rw [spec_rep_iff] at h
    obtain ⟨cnt, _, _, hit⟩ := h
    have hr := iter_cls_run hit
    refine ⟨hr.1, fun p h1 h2 => ?_⟩
    have := hr.2 p h1 h2
    simp [clsTest, ClsItem.test] at this; omega
  · cases ha

theorem markStart_sound (x : RxCtx) (r : Rx) (i : Nat) (c : Caps) (j : Nat) (c' : Caps)
    (h : Spec x r i c j c') (hm : r.markStart = true) : Mark x i := by
  induction r generalizing i c j c' with
  | cls neg items =>
    unfold Rx.markStart at hm
    split at hm
    · rename_i heq
      cases heq
      simp only [Spec] at h
      refine ⟨i, Nat.le_refl _, fun p h1 h2 => by omega, ?_⟩
      have := h.2.1; simp [clsTest, ClsItem.test] at this; omega
    · rename_i heq; cases heq
    · rename_i heq; cases heq
    · cases hm
  | grp idx r ih =>
    simp only [Rx.markStart] at hm
    simp only [Spec] at h
    obtain ⟨c0, h1, _⟩ := h
    exact ih _ _ _ _ h1 hm
  | seq a b iha ihb =>
    simp only [Rx.markStart, Bool.or_eq_true, Bool.and_eq_true] at hm
    simp only [Spec] at h
    obtain ⟨m, cm, h1, h2⟩ := h
    rcases hm with hm | ⟨hz, hb⟩
    · exact iha _ _ _ _ h1 hm
    · have hmk := ihb _ _ _ _ h2 hb
      rcases hz with hz | hz
      · have := zeroWidth_sound _ _ _ _ _ _ h1 hz
        subst this; exact hmk
      · obtain ⟨hle, hrun⟩ := isSpaceRun_sound x a i c m cm h1 hz
        obtain ⟨k, hk1, hk2, hk3⟩ := hmk
        refine ⟨k, by omega, fun p hp1 hp2 => ?_, hk3⟩
        by_cases hpm : p < m
        · exact hrun p hp1 hpm
        · exact hk2 p (by omega) hp2
  | _ => simp [Rx.markStart] at hm


namespace Model
namespace Blk

/-! ### results that are not `.noProgress` -/

/-- the computation does not return `.noProgress`, and a normal result satisfies `P` -/
def Good {α : Type} (P : α → Prop) : Except PyErr α → Prop
  | .ok a => P a
  | .error e => e ≠ .noProgress

theorem Good.bind {α β : Type} {Q : α → Prop} {P : β → Prop} {e : Except PyErr α} {f : α → Except PyErr β}
    (h1 : Good Q e) (h2 : ∀ a, Q a → Good P (f a)) : Good P (e >>= f) := by
  cases e with
  | ok a => exact h2 a h1
  | error err => exact h1

theorem Good.ok {α : Type} {P : α → Prop} {a : α} (h : P a) : Good P (.ok a : Except PyErr α) := h

theorem Good.pure {α : Type} {P : α → Prop} {a : α} (h : P a) : Good P (pure a : Except PyErr α) := h

theorem Good.err {α : Type} {P : α → Prop} {e : PyErr} (h : e ≠ .noProgress) :
    Good P (.error e : Except PyErr α) := h

theorem Good.throw {α : Type} {P : α → Prop} {e : PyErr} (h : e ≠ .noProgress) :
    Good P (throw e : Except PyErr α) := h

theorem Good.mono {α : Type} {Q P : α → Prop} {e : Except PyErr α} (h : Good Q e) (hqp : ∀ a, Q a → P a) :
    Good P e := by
  cases e with
  | ok a => exact hqp a h
  | error err => exact h

theorem Good.noProgress {α : Type} {P : α → Prop} {e : Except PyErr α} (h : Good P e) : e ≠ .error .noProgress := by
  cases e with
  | ok a => intro h2; cases h2
  | error err => intro h2; cases h2; exact h rfl

theorem Good.of_ok {α : Type} {P : α → Prop} {e : Except PyErr α} {a : α} (h : Good P e) (he : e = .ok a) : P a := by
  subst he; exact h

theorem Good.and {α : Type} {P Q : α → Prop} {e : Except PyErr α} (h1 : Good P e) (h2 : Good Q e) :
    Good (fun a => P a ∧ Q a) e := by
  cases e with
  | ok a => exact ⟨h1, h2⟩
  | error err => exact h1

theorem good_mapM {α β : Type} (f : α → Except PyErr β) (hf : ∀ a, Good (fun _ => True) (f a)) :
    ∀ l : List α, Good (fun _ => True) (l.mapM f) := by
  intro l
  induction l with
  | nil => simp only [List.mapM_nil]; exact Good.pure trivial
  | cons a l ih =>
    simp only [List.mapM_cons]
    refine Good.bind (hf a) (fun b _ => ?_)
    refine Good.bind ih (fun bs _ => ?_)
    exact Good.pure trivial

/-! ### truthiness of positions -/

theorem truthyPos_iff (r : Option Nat) : truthyPos r = true ↔ ∃ n, r = some n ∧ n ≠ 0 := by
  cases r with
  | none => simp [truthyPos]
  | some n => cases n <;> simp [truthyPos]

theorem truthyPos_getD {r : Option Nat} (h : truthyPos r = true) : r = some (r.getD 0) ∧ r.getD 0 ≠ 0 := by
  obtain ⟨n, h1, h2⟩ := (truthyPos_iff r).1 h
  subst h1; exact ⟨rfl, h2⟩

/-- a truthy position lies strictly after `c` -/
def PosOk (c : Nat) (r : Option Nat) : Prop := truthyPos r = true → c < r.getD 0

theorem PosOk.some {c n : Nat} (h : c < n) : PosOk c (some n) := fun _ => h
theorem PosOk.none {c : Nat} : PosOk c none := by intro h; simp [truthyPos] at h

/-! ### the state invariant and the contract -/

/-- the regex subject ends where the cursor range ends (true of every state built by `process`) -/
def Inv (st : BlockState) : Prop := st.x.n = st.cursorMax

/-- what a handler guarantees about `(end_pos, state')`: the subject and the range are those of the incoming
state; a truthy `end_pos` lies strictly after the incoming cursor; the cursor never moves backwards, and with a
falsy `end_pos` it was not moved at all -/
def Post (st : BlockState) (res : Option Nat × BlockState) : Prop :=
  res.2.x = st.x ∧ res.2.cursorMax = st.cursorMax ∧ PosOk st.cursor res.1 ∧ st.cursor ≤ res.2.cursor ∧
    (truthyPos res.1 = false → res.2.cursor = st.cursor)

/-- what every call of `parse_method(m, state)` guarantees: the match starts at the cursor, is non-empty and
inside the subject, and for the HTML rules it starts with ` *<` -/
def Pre (name : String) (mt : RxMatch) (st : BlockState) : Prop :=
  Inv st ∧ mt.start = st.cursor ∧ mt.start < mt.stop ∧ mt.stop ≤ st.x.n ∧
    ((name = "block_html" ∨ name = "raw_html") → Mark st.x st.cursor)

/-- **the progress contract** of a parse method -/
def PMProgress (pm : ParseMethod) : Prop :=
  ∀ name mt st, Pre name mt st → Good (Post st) (pm name mt st)


/-! ### facts about the regex operations -/

theorem lookup_mem {β : Type} (l : List (String × β)) (n : String) (r : β) (h : l.lookup n = some r) : (n, r) ∈ l := by
  induction l with
  | nil => simp [List.lookup] at h
  | cons p l ih =>
    obtain ⟨k, v⟩ := p
    simp only [List.lookup] at h
    split at h
    · rename_i heq
      have : n = k := by simpa using heq
      cases h; subst this; exact List.mem_cons_self
    · exact List.mem_cons_of_mem _ (ih h)

theorem pySearch_sound (r : Rx) (x : RxCtx) (pos : Nat) (m : RxMatch) (h : Py.search r x pos = some m) :
    min pos x.n ≤ m.start ∧ m.start ≤ m.stop ∧ m.stop ≤ x.n ∧ Spec x r m.start [] m.stop m.caps := by
  unfold Py.search at h
  obtain ⟨h1, h2, h3, h4, _⟩ := search_sound x r _ m h
  exact ⟨h1, h2, h3, h4⟩

theorem pyMatchAt_sound (r : Rx) (x : RxCtx) (pos : Nat) (m : RxMatch) (h : Py.matchAt r x pos = some m) :
    m.start = min pos x.n ∧ m.start ≤ m.stop ∧ m.stop ≤ x.n ∧ Spec x r m.start [] m.stop m.caps := by
  unfold Py.matchAt at h
  obtain ⟨h1, h2⟩ := matchAt_sound x r _ m h
  have hb := spec_bounds x r _ _ _ _ h2 (Nat.min_le_right _ _)
  rw [h1]
  exact ⟨rfl, hb.1, hb.2, h2⟩

theorem pyMatchIn_sound (r : Rx) (x : RxCtx) (pos e : Nat) (m : RxMatch) (h : Py.matchIn r x pos e = some m) :
    min pos x.n ≤ m.stop ∧ m.stop ≤ x.n := by
  unfold Py.matchIn at h
  simp only at h
  split at h
  · cases h
  · rename_i hle
    obtain ⟨h1, h2⟩ := matchAt_sound { x with n := min e x.n } r _ m h
    have hb := spec_bounds { x with n := min e x.n } r _ _ _ _ h2 (by simp only; omega)
    simp only at hb
    omega

theorem scMatch_sound (x : RxCtx) (sc : List (String × Rx)) (pos : Nat) (name : String) (m : RxMatch)
    (h : scMatch x sc pos = some (name, m)) :
    m.start = min pos x.n ∧ m.start ≤ m.stop ∧ m.stop ≤ x.n ∧
      ∃ r, (name, r) ∈ sc ∧ Spec x r m.start [] m.stop m.caps := by
  unfold scMatch at h
  obtain ⟨r, hmem, hm⟩ := scanAt_sound x sc _ name m h
  obtain ⟨h1, h2⟩ := matchAt_sound x r _ m hm
  have hb := spec_bounds x r _ _ _ _ h2 (Nat.min_le_right _ _)
  rw [h1]
  exact ⟨rfl, hb.1, hb.2, r, hmem, h2⟩


/-! ### the decidable condition on the configuration tables -/

/-- every rule of the table consumes a character, and the HTML rules start with ` *<` -/
def scOkB (sc : List (String × Rx)) : Bool :=
  sc.all (fun p => decide (1 ≤ p.2.minLen) && ((p.1 != "block_html" && p.1 != "raw_html") || p.2.markStart))

def ScOk (sc : List (String × Rx)) : Prop :=
  ∀ n r, (n, r) ∈ sc → 1 ≤ r.minLen ∧ ((n = "block_html" ∨ n = "raw_html") → r.markStart = true)

theorem scOk_of_B {sc : List (String × Rx)} (h : scOkB sc = true) : ScOk sc := by
  intro n r hmem
  unfold scOkB at h
  rw [List.all_eq_true] at h
  have := h _ hmem
  simp only [Bool.and_eq_true, decide_eq_true_eq, Bool.or_eq_true, bne_iff_ne, ne_eq] at this
  refine ⟨this.1, fun hn => ?_⟩
  rcases this.2 with h2 | h2
  · rcases hn with hn | hn
    · exact absurd hn h2.1
    · exact absurd hn h2.2
  · exact h2

def listBullets : List Char := ['.', ')', '*', '+', '-']

/-- **the decidable obligation on a configuration**: every rule of `block.specification` and every alternative of
the list-item scanners consumes at least one character; the HTML rules start with ` {0,k}<`; `_LINE_END` and
`BLANK_LINE` are the expected patterns; `_STRICT_BLOCK_QUOTE`, `LINK_BRACKET_START`, `LINK_HREF_BLOCK_RE` consume -/
def CfgOk (cfg : MdCfg) : Bool :=
  scOkB cfg.blockSpec &&
  (listBullets.all fun b => [0, 1, 2, 3].all fun w => scOkB (listItemSc cfg b w)) &&
  decide (cfg.rx "mistune.core._LINE_END" = lineEndRx) &&
  decide (cfg.rx "mistune.block_parser.BlockParser.BLANK_LINE" = blankLineRx) &&
  decide (1 ≤ (cfg.rx "mistune.block_parser._STRICT_BLOCK_QUOTE").minLen) &&
  decide (1 ≤ (cfg.rx "mistune.helpers.LINK_BRACKET_START").minLen) &&
  decide (1 ≤ (cfg.rx "mistune.helpers.LINK_HREF_BLOCK_RE").minLen) &&
  -- plugin `def_list` (only where its rule is registered): `DD_START_RE` and `DEF_RE` consume
  (!registered cfg "def_list" ||
    (decide (1 ≤ (cfg.rx "mistune.plugins.def_list.DD_START_RE").minLen) &&
     decide (1 ≤ (cfg.rx "mistune.plugins.def_list.DEF_RE").minLen)))

structure CfgFacts (cfg : MdCfg) : Prop where
  spec : ScOk cfg.blockSpec
  item : ∀ (c : Char) (lw : Nat), ScOk (listItemSc cfg (getListBullet c) lw)
  lineEnd : cfg.rx "mistune.core._LINE_END" = lineEndRx
  blank : cfg.rx "mistune.block_parser.BlockParser.BLANK_LINE" = blankLineRx
  strict : 1 ≤ (cfg.rx "mistune.block_parser._STRICT_BLOCK_QUOTE").minLen
  brStart : 1 ≤ (cfg.rx "mistune.helpers.LINK_BRACKET_START").minLen
  hrefBlock : 1 ≤ (cfg.rx "mistune.helpers.LINK_HREF_BLOCK_RE").minLen
  defList : registered cfg "def_list" = true →
    1 ≤ (cfg.rx "mistune.plugins.def_list.DD_START_RE").minLen ∧ 1 ≤ (cfg.rx "mistune.plugins.def_list.DEF_RE").minLen

theorem getListBullet_mem (c : Char) : getListBullet c ∈ listBullets := by
  unfold getListBullet listBullets
  split
  · simp
  · split
    · simp
    · split
      · simp
      · split <;> simp

theorem listItemSc_min (cfg : MdCfg) (b : Char) (lw : Nat) : listItemSc cfg b lw = listItemSc cfg b (min lw 3) := by
  unfold listItemSc
  simp only [Nat.min_assoc, Nat.min_self]

theorem cfgFacts_of_ok {cfg : MdCfg} (h : CfgOk cfg = true) : CfgFacts cfg := by
  unfold CfgOk at h
  simp only [Bool.and_eq_true, decide_eq_true_eq] at h
  obtain ⟨⟨⟨⟨⟨⟨⟨h1, h2⟩, h3⟩, h4⟩, h5⟩, h6⟩, h7⟩, h8⟩ := h
  refine ⟨scOk_of_B h1, ?_, h3, h4, h5, h6, h7, ?_⟩
  rotate_left
  · intro hreg
    simp only [hreg, Bool.not_true, Bool.false_or, Bool.and_eq_true, decide_eq_true_eq] at h8
    exact h8
  intro c lw
  rw [listItemSc_min]
  rw [List.all_eq_true] at h2
  have hb := h2 _ (getListBullet_mem c)
  rw [List.all_eq_true] at hb
  have : min lw 3 ∈ [0, 1, 2, 3] := by
    have : min lw 3 ≤ 3 := Nat.min_le_right _ _
    generalize min lw 3 = k at this
    match k, this with
    | 0, _ => simp
    | 1, _ => simp
    | 2, _ => simp
    | 3, _ => simp
  exact scOk_of_B (hb _ this)

/-- a match of a scanner at the cursor satisfies the precondition of `parse_method` -/
theorem pre_of_spec {sc : List (String × Rx)} (hsc : ScOk sc) {st : BlockState} (hinv : Inv st)
    {name : String} {m : RxMatch} {r : Rx} (hmem : (name, r) ∈ sc) (hstart : m.start = st.cursor)
    (hstop : m.stop ≤ st.x.n) (hs : Spec st.x r m.start [] m.stop m.caps) : Pre name m st := by
  obtain ⟨h1, h2⟩ := hsc name r hmem
  refine ⟨hinv, hstart, nonempty_of_minLen _ _ _ _ _ _ hs h1, hstop, fun hn => ?_⟩
  rw [← hstart]
  exact markStart_sound _ _ _ _ _ _ hs (h2 hn)

theorem pre_of_scMatch {sc : List (String × Rx)} (hsc : ScOk sc) {st : BlockState} (hinv : Inv st)
    (hcur : st.cursor ≤ st.x.n) {name : String} {m : RxMatch}
    (h : scMatch st.x sc st.cursor = some (name, m)) : Pre name m st := by
  obtain ⟨h1, h2, h3, r, hmem, hs⟩ := scMatch_sound _ _ _ _ _ h
  exact pre_of_spec hsc hinv hmem (by omega) h3 hs

theorem compileSc_good (cfg : MdCfg) (hspec : ScOk cfg.blockSpec) (rules : List String) :
    Good (fun sc => ScOk sc) (compileSc cfg rules) := by
  unfold compileSc
  induction rules with
  | nil => simp only [List.mapM_nil]; exact Good.pure (fun n r h => by cases h)
  | cons a l ih =>
    simp only [List.mapM_cons]
    refine Good.bind (Q := fun p => p ∈ cfg.blockSpec) ?_ (fun b hb => ?_)
    · split
      · rename_i r hr
        exact Good.ok (lookup_mem _ _ _ hr)
      · exact Good.err (by decide)
    · refine Good.bind ih (fun bs hbs => ?_)
      refine Good.pure (fun n r hmem => ?_)
      rcases List.mem_cons.1 hmem with h | h
      · subst h; exact hspec _ _ hb
      · exact hbs n r h

/-! ### `BlockState` operations -/

theorem findLineEnd_good (cfg : MdCfg) (hle : cfg.rx "mistune.core._LINE_END" = lineEndRx) (st : BlockState) :
    Good (fun p => min st.cursor st.x.n ≤ p ∧ p ≤ st.x.n ∧ (st.cursor < st.x.n → st.cursor < p))
      (st.findLineEnd cfg) := by
  unfold BlockState.findLineEnd
  rw [hle]
  split
  · rename_i m hm
    refine Good.ok ?_
    unfold Py.search Rx.search at hm
    obtain ⟨h1, h2, h3, _⟩ := searchFrom_sound _ _ _ _ _ hm
    obtain ⟨_, hsp⟩ := matchAt_sound _ _ _ _ h3
    have hb := spec_bounds _ _ _ _ _ _ hsp h2
    refine ⟨by omega, hb.2, fun hlt => ?_⟩
    by_cases hst : m.start = st.cursor
    · have := lineEndRx_matchAt _ _ _ h3 (by omega)
      omega
    · have : min st.cursor st.x.n = st.cursor := by omega
      omega
  · exact Good.err (by decide)

theorem getE_good (j : Json) (k : String) : Good (fun _ => True) (getE j k) := by
  unfold getE; split
  · exact Good.ok trivial
  · exact Good.err (by decide)

theorem typeOf_good (t : Json) : Good (fun _ => True) (typeOf t) := by
  unfold typeOf
  refine Good.bind (getE_good _ _) (fun a _ => ?_)
  split <;> exact Good.pure trivial

theorem childrenOf_good (t : Json) : Good (fun _ => True) (childrenOf t) := by
  unfold childrenOf
  refine Good.bind (getE_good _ _) (fun a _ => ?_)
  split
  · exact Good.pure trivial
  · exact Good.throw (by decide)

theorem lastParagraph_good (st : BlockState) : Good (fun _ => True) st.lastParagraph := by
  unfold BlockState.lastParagraph
  split
  · exact Good.ok trivial
  · split
    · refine Good.bind (typeOf_good _) (fun a _ => ?_)
      split <;> exact Good.pure trivial
    · exact Good.ok trivial

theorem addText_good (last : Json) (text : Str) : Good (fun _ => True) (BlockState.addText last text) := by
  unfold BlockState.addText
  refine Good.bind (getE_good _ _) (fun a _ => ?_)
  split
  · exact Good.pure trivial
  · exact Good.throw (by decide)

/-- the state differs from `st` only in its tokens / env -/
def SameFrame (st st' : BlockState) : Prop :=
  st'.x = st.x ∧ st'.cursorMax = st.cursorMax ∧ st'.cursor = st.cursor

theorem SameFrame.refl {st : BlockState} : SameFrame st st := ⟨Eq.refl _, Eq.refl _, Eq.refl _⟩

theorem addParagraph_good (st : BlockState) (text : Str) : Good (SameFrame st) (st.addParagraph text) := by
  unfold BlockState.addParagraph
  refine Good.bind (lastParagraph_good _) (fun a _ => ?_)
  split
  · refine Good.bind (addText_good _ _) (fun b _ => ?_)
    exact Good.pure ⟨rfl, rfl, rfl⟩
  · exact Good.pure ⟨rfl, rfl, rfl⟩

theorem appendParagraph_good (cfg : MdCfg) (hle : cfg.rx "mistune.core._LINE_END" = lineEndRx) (st : BlockState)
    (hcur : st.cursor < st.x.n) :
    Good (fun res => SameFrame st res.2 ∧ PosOk st.cursor res.1) (st.appendParagraph cfg) := by
  unfold BlockState.appendParagraph
  refine Good.bind (lastParagraph_good _) (fun a _ => ?_)
  split
  · refine Good.bind (findLineEnd_good cfg hle st) (fun pos hpos => ?_)
    refine Good.bind (addText_good _ _) (fun b _ => ?_)
    exact Good.pure ⟨⟨rfl, rfl, rfl⟩, PosOk.some (hpos.2.2 hcur)⟩
  · exact Good.pure ⟨⟨rfl, rfl, rfl⟩, PosOk.none⟩


/-! ### the handlers that do not recurse -/

theorem Post.of_frame {st st' : BlockState} {r : Option Nat} (h : SameFrame st st') (hp : PosOk st.cursor r) :
    Post st (r, st') := ⟨h.1, h.2.1, hp, Nat.le_of_eq h.2.2.symm, fun _ => h.2.2⟩

theorem parseBlankLine_good (name : String) (mt : RxMatch) (st : BlockState) (hpre : Pre name mt st) :
    Good (Post st) (parseBlankLine mt st) := by
  obtain ⟨_, h2, h3, _, _⟩ := hpre
  exact Good.ok (Post.of_frame ⟨rfl, rfl, rfl⟩ (PosOk.some (by omega)))

theorem parseThematicBreak_good (name : String) (mt : RxMatch) (st : BlockState) (hpre : Pre name mt st) :
    Good (Post st) (parseThematicBreak mt st) := by
  obtain ⟨_, h2, h3, _, _⟩ := hpre
  exact Good.ok (Post.of_frame ⟨rfl, rfl, rfl⟩ (PosOk.some (by omega)))

theorem parseAtxHeading_good (cfg : MdCfg) (name : String) (mt : RxMatch) (st : BlockState) (hpre : Pre name mt st) :
    Good (Post st) (parseAtxHeading cfg mt st) := by
  obtain ⟨_, h2, h3, _, _⟩ := hpre
  exact Good.ok (Post.of_frame ⟨rfl, rfl, rfl⟩ (PosOk.some (by omega)))

theorem parseIndentCode_good (cfg : MdCfg) (hf : CfgFacts cfg) (name : String) (mt : RxMatch) (st : BlockState)
    (hpre : Pre name mt st) : Good (Post st) (parseIndentCode cfg mt st) := by
  obtain ⟨_, h2, h3, h4, _⟩ := hpre
  unfold parseIndentCode
  refine Good.bind (appendParagraph_good cfg hf.lineEnd st (by omega)) ?_
  rintro ⟨endPos, st1⟩ ⟨hfr, hpos⟩
  simp only at hfr hpos ⊢
  split
  · exact Good.pure (Post.of_frame hfr hpos)
  · exact Good.pure (Post.of_frame ⟨hfr.1, hfr.2.1, hfr.2.2⟩ (PosOk.some (by omega)))

theorem parseFencedCode_good (cfg : MdCfg) (name : String) (mt : RxMatch) (st : BlockState)
    (hpre : Pre name mt st) : Good (Post st) (parseFencedCode cfg mt st) := by
  obtain ⟨hinv, h2, h3, h4, _⟩ := hpre
  unfold parseFencedCode
  simp only
  have key : ∀ c n k, mt.start < (fencedBody st.x st.cursorMax c n k (mt.stop + 1)).2 := by
    intro c n k
    unfold fencedBody
    simp only
    split
    · rename_i m2 hm2
      have := pySearch_sound _ _ _ _ hm2
      simp only
      omega
    · simp only
      unfold Inv at hinv
      omega
  split
  · simp only [pure_bind]
    split
    · exact Good.pure (Post.of_frame SameFrame.refl PosOk.none)
    · exact Good.pure (Post.of_frame ⟨rfl, rfl, rfl⟩ (PosOk.some (by have := key; grind)))
  · exact (by decide : PyErr.indexError ≠ PyErr.noProgress)


theorem parseSetexHeading_good (cfg : MdCfg) (hf : CfgFacts cfg) (pm : ParseMethod) (hpm : PMProgress pm)
    (name : String) (mt : RxMatch) (st : BlockState) (hpre : Pre name mt st) :
    Good (Post st) (parseSetexHeading cfg pm mt st) := by
  obtain ⟨hinv, h2, h3, h4, _⟩ := hpre
  unfold parseSetexHeading
  refine Good.bind (lastParagraph_good _) (fun a _ => ?_)
  split
  · exact Good.pure (Post.of_frame ⟨rfl, rfl, rfl⟩ (PosOk.some (by omega)))
  · refine Good.bind (compileSc_good cfg hf.spec _) (fun sc hsc => ?_)
    split
    · rename_i nm m2 hm2
      split
      · exact Good.pure (Post.of_frame SameFrame.refl PosOk.none)
      · exact hpm _ _ _ (pre_of_scMatch hsc hinv (by omega) hm2)
    · exact Good.pure (Post.of_frame SameFrame.refl PosOk.none)

theorem parseLinkHref_good (cfg : MdCfg) (hf : CfgFacts cfg) (x : RxCtx) (startPos : Nat) :
    Good (fun r => ∀ href p, r = some (href, p) → min startPos x.n ≤ p) (parseLinkHref cfg x startPos) := by
  unfold parseLinkHref
  split
  · rename_i m hm
    obtain ⟨a1, a2, a3, a4⟩ := pyMatchAt_sound _ _ _ _ hm
    have := nonempty_of_minLen _ _ _ _ _ _ a4 hf.brStart
    simp only
    split
    · rename_i m' hm'
      obtain ⟨b1, b2, b3, b4⟩ := pyMatchAt_sound _ _ _ _ hm'
      refine Good.ok (fun href p h => ?_)
      cases h
      omega
    · exact Good.ok (fun href p h => by cases h)
  · split
    · exact Good.ok (fun href p h => by cases h)
    · rename_i m hm
      obtain ⟨a1, a2, a3, a4⟩ := pyMatchAt_sound _ _ _ _ hm
      have := nonempty_of_minLen _ _ _ _ _ _ a4 hf.hrefBlock
      simp only
      repeat' split
      all_goals first
        | exact (by decide : PyErr.indexError ≠ PyErr.noProgress)
        | (refine Good.ok (fun href p h => ?_); cases h; omega)

theorem parseLinkTitle_bound (cfg : MdCfg) (x : RxCtx) (s e : Nat) (t : Str) (p : Nat)
    (h : parseLinkTitle cfg x s e = some (t, p)) : min s x.n ≤ p := by
  unfold parseLinkTitle at h
  split at h
  · rename_i m hm
    have := pyMatchIn_sound _ _ _ _ _ hm
    simp only [Option.some.injEq, Prod.mk.injEq] at h
    omega
  · cases h

theorem parseRefLink_good (cfg : MdCfg) (hf : CfgFacts cfg) (name : String) (mt : RxMatch) (st : BlockState)
    (hpre : Pre name mt st) : Good (Post st) (parseRefLink cfg mt st) := by
  obtain ⟨hinv, h2, h3, h4, _⟩ := hpre
  unfold parseRefLink
  refine Good.bind (appendParagraph_good cfg hf.lineEnd st (by omega)) ?_
  rintro ⟨endPos, st1⟩ ⟨hfr, hpos⟩
  dsimp only at hfr hpos
  show Good (Post st) (if truthyPos endPos = true then _ else _)
  split
  · exact Good.pure (Post.of_frame hfr hpos)
  extract_lets label key
  split
  · exact Good.pure (Post.of_frame hfr PosOk.none)
  refine Good.bind (parseLinkHref_good cfg hf st1.x mt.stop) (fun r hr => ?_)
  split
  · exact Good.pure (Post.of_frame hfr PosOk.none)
  rename_i href0 hrefPos0
  have h0 := hr _ _ rfl
  extract_lets maxPos
  split
  rename_i title titlePos htp
  split
  rename_i title2 titlePos2 htp2
  split
  rename_i href hrefPos hhp
  extract_lets endPos2
  have hx : st1.x = st.x := hfr.1
  have hM : mt.stop ≤ st1.x.n := by rw [hx]; exact h4
  have e1 : ∀ n, titlePos = some n → mt.stop ≤ n := by
    intro n hn
    split at htp
    · rename_i t p hp
      have := parseLinkTitle_bound _ _ _ _ _ _ hp
      simp only [Prod.mk.injEq] at htp
      obtain ⟨_, htp⟩ := htp
      rw [hn] at htp
      cases htp
      omega
    · simp only [Prod.mk.injEq] at htp
      rw [hn] at htp
      cases htp.2
  have e2 : ∀ n, titlePos2 = some n → mt.stop ≤ n := by
    intro n hn
    split at htp2
    · rename_i htr
      obtain ⟨hs, _⟩ := truthyPos_getD htr
      have := e1 _ hs
      split at htp2
      · rename_i m2 hm2
        have := pyMatchAt_sound _ _ _ _ hm2
        simp only [Prod.mk.injEq] at htp2
        rw [hn] at htp2
        cases htp2.2
        omega
      · simp only [Prod.mk.injEq] at htp2
        rw [hn] at htp2
        cases htp2.2
    · simp only [Prod.mk.injEq] at htp2
      rw [← htp2.2] at hn
      exact e1 n hn
  have e3 : ∀ n, hrefPos = some n → mt.stop ≤ n := by
    intro n hn
    split at hhp
    · split at hhp
      · rename_i m3 hm3
        have := pyMatchAt_sound _ _ _ _ hm3
        simp only [Prod.mk.injEq] at hhp
        rw [hn] at hhp
        cases hhp.2
        omega
      · simp only [Prod.mk.injEq] at hhp
        rw [hn] at hhp
        cases hhp.2
    · simp only [Prod.mk.injEq] at hhp
      rw [hn] at hhp
      cases hhp.2
      omega
  have hend : PosOk st.cursor endPos2 := by
    intro htr
    obtain ⟨hs, _⟩ := truthyPos_getD htr
    have : mt.stop ≤ endPos2.getD 0 := by
      show mt.stop ≤ (if truthyPos titlePos2 = true then titlePos2 else hrefPos).getD 0
      change endPos2 = _ at hs
      generalize endPos2.getD 0 = n at hs ⊢
      have hs' : (if truthyPos titlePos2 = true then titlePos2 else hrefPos) = some n := hs
      split at hs'
      · exact e2 n hs'
      · exact e3 n hs'
    omega
  clear_value endPos2
  split
  · exact Good.pure (Post.of_frame hfr PosOk.none)
  refine Good.bind (getE_good _ _) (fun refs _ => ?_)
  split
  · split
    · exact (by decide : PyErr.assertion ≠ PyErr.noProgress)
    · exact Good.pure (Post.of_frame ⟨hfr.1, hfr.2.1, hfr.2.2⟩ hend)
  · exact Good.pure (Post.of_frame hfr hend)


/-! ### raw / block HTML -/

theorem findFrom_go_le (sub : Str) : ∀ (fuel : Nat) (rest : Str) (i p : Nat),
    Py.findFrom.go sub rest i fuel = some p → i ≤ p := by
  intro fuel
  induction fuel with
  | zero => intro rest i p h; simp [Py.findFrom.go] at h
  | succ fuel ih =>
    intro rest i p h
    unfold Py.findFrom.go at h
    dsimp only at h
    split at h
    · cases h; exact Nat.le_refl _
    · split at h
      · cases h
      · have := ih _ _ _ h; omega

theorem findFrom_le (s sub : Str) (start p : Nat) (h : Py.findFrom s sub start = some p) : start ≤ p := by
  unfold Py.findFrom at h
  exact findFrom_go_le sub _ _ _ _ h

theorem parseHtmlToEnd_good (cfg : MdCfg) (hf : CfgFacts cfg) (name : String) (mt : RxMatch) (st : BlockState)
    (hpre : Pre name mt st) (endMarker : Str) :
    Good (Post st) (parseHtmlToEnd cfg st endMarker mt.stop) := by
  obtain ⟨hinv, h2, h3, h4, _⟩ := hpre
  unfold Inv at hinv
  unfold parseHtmlToEnd
  split
  · exact Good.pure (Post.of_frame ⟨rfl, rfl, rfl⟩ (PosOk.some (by omega)))
  · rename_i markerPos hmp
    have hle := findFrom_le _ _ _ _ hmp
    extract_lets text st2
    refine Good.bind (findLineEnd_good cfg hf.lineEnd st2) (fun endPos he => ?_)
    have hc : st2.cursor = markerPos := rfl
    have hx : st2.x = st.x := rfl
    rw [hc, hx] at he
    have hlt : st.cursor < endPos := by omega
    refine Good.pure ⟨rfl, rfl, PosOk.some hlt, by show st.cursor ≤ markerPos; omega, fun hfalse => ?_⟩
    have : truthyPos (some endPos) = true := (truthyPos_iff _).2 ⟨endPos, rfl, by omega⟩
    rw [this] at hfalse
    cases hfalse

theorem parseHtmlToNewline_good (cfg : MdCfg) (hf : CfgFacts cfg) (st : BlockState) (hinv : Inv st)
    (hcur : st.cursor < st.x.n) (hmark : Mark st.x st.cursor) :
    Good (Post st) (parseHtmlToNewline st (cfg.rx "mistune.block_parser.BlockParser.BLANK_LINE")) := by
  unfold parseHtmlToNewline
  rw [hf.blank]
  unfold Inv at hinv
  split
  · rename_i m hm
    obtain ⟨a1, a2, a3, a4⟩ := pySearch_sound _ _ _ _ hm
    have hb := blankLineRx_spec _ _ _ _ _ a4
    have : m.start ≠ st.cursor := by
      intro heq
      rw [heq] at hb
      exact mark_not_blank _ _ hmark hb
    exact Good.ok (Post.of_frame ⟨rfl, rfl, rfl⟩ (PosOk.some (by omega)))
  · exact Good.ok (Post.of_frame ⟨rfl, rfl, rfl⟩ (PosOk.some (by omega)))


theorem parseRawHtml_good (cfg : MdCfg) (hf : CfgFacts cfg) (name : String) (mt : RxMatch) (st : BlockState)
    (hpre : Pre name mt st) (hmark : Mark st.x st.cursor) : Good (Post st) (parseRawHtml cfg mt st) := by
  have hend := parseHtmlToEnd_good cfg hf name mt st hpre
  obtain ⟨hinv, h2, h3, h4, _⟩ := hpre
  have hnl := parseHtmlToNewline_good cfg hf st hinv (by omega) hmark
  unfold parseRawHtml
  extract_lets blankLine marker closeTag openTag startPos isTruthy jp
  have hjp : Good (Post st) (jp ()) := by
    show Good (Post st) (BlockState.appendParagraph cfg st >>= _)
    refine Good.bind (appendParagraph_good cfg hf.lineEnd st (by omega)) ?_
    rintro ⟨endPos, st1⟩ ⟨hfr, hpos⟩
    dsimp only at hfr hpos
    show Good (Post st) (if truthyPos endPos = true then _ else _)
    split
    · exact Good.pure (Post.of_frame hfr hpos)
    · refine Good.bind (findLineEnd_good cfg hf.lineEnd st1) (fun e _ => ?_)
      obtain ⟨f1, f2, f3⟩ := hfr
      split
      · have hinv1 : Inv st1 := by unfold Inv at hinv ⊢; rw [f1, f2]; exact hinv
        have := parseHtmlToNewline_good cfg hf st1 hinv1 (by rw [f1, f3]; omega) (by rw [f1, f3]; exact hmark)
        refine this.mono (fun a ha => ?_)
        obtain ⟨g1, g2, g3, g5, g4⟩ := ha
        exact ⟨g1.trans f1, g2.trans f2, by rw [← f3]; exact g3, by rw [← f3]; exact g5, fun hh => (g4 hh).trans f3⟩
      · exact Good.pure (Post.of_frame ⟨f1, f2, f3⟩ PosOk.none)
  clear_value jp closeTag openTag
  split
  · exact hend _
  split
  · exact hend _
  split
  · exact hend _
  split
  · exact hend _
  split
  · split
    · exact hnl
    · exact hjp
  · split
    · exact hend _
    · split
      · exact hnl
      · exact hjp
  · exact hjp


/-! ### `BlockParser.parse` -/

theorem parseLoop_good (cfg : MdCfg) (hf : CfgFacts cfg) (pm : ParseMethod) (hpm : PMProgress pm)
    (sc : List (String × Rx)) (hsc : ScOk sc) :
    ∀ (fuel : Nat) (st : BlockState), Inv st → st.cursorMax - st.cursor ≤ fuel →
      Good (fun _ => True) (parseLoop cfg pm sc fuel st) := by
  intro fuel
  induction fuel with
  | zero =>
    intro st _ hfu
    unfold parseLoop
    rw [if_neg (by omega)]
    exact Good.ok trivial
  | succ fuel ih =>
    intro st hinv hfu
    unfold parseLoop
    split
    · rename_i hlt
      split
      · exact Good.ok trivial
      · rename_i name m hscan
        obtain ⟨s1, s2, s3, ⟨r, hmem, hspec⟩, _⟩ := scan_sound _ _ _ _ _ hscan
        have hne := nonempty_of_minLen _ _ _ _ _ _ hspec (hsc _ _ hmem).1
        extract_lets endPos jpLoop jp
        have hloop : ∀ st3 : BlockState, st3.x = st.x → st3.cursorMax = st.cursorMax → st.cursor < st3.cursor →
            Good (fun _ => True) (jpLoop st3) := by
          intro st3 q1 q2 q3
          exact ih st3 (by unfold Inv at hinv ⊢; rw [q1, q2]; exact hinv) (by rw [q2]; omega)
        clear_value jpLoop
        have hjp : ∀ st1 : BlockState, st1.x = st.x → st1.cursorMax = st.cursorMax → st1.cursor = m.start →
            Good (fun _ => True) (jp st1) := by
          intro st1 e1 e2 e3
          have hinv1 : Inv st1 := by unfold Inv at hinv ⊢; rw [e1, e2]; exact hinv
          have hpre : Pre name m st1 :=
            pre_of_spec hsc hinv1 hmem e3.symm (by rw [e1]; exact s3) (by rw [e1]; exact hspec)
          show Good _ (pm name m st1 >>= _)
          refine Good.bind (hpm _ _ _ hpre) ?_
          rintro ⟨endPos2, st2⟩ ⟨p1, p2, p3, _, p4⟩
          dsimp only at p1 p2 p3 p4
          show Good _ (if truthyPos endPos2 = true then _ else _)
          split
          · rename_i htr
            have := p3 htr
            simp only [pure_bind]
            exact hloop _ (p1.trans e1) (p2.trans e2) (by show st.cursor < endPos2.getD 0; omega)
          · rename_i hfa
            have hc2 : st2.cursor = st1.cursor := p4 (by simpa using hfa)
            refine Good.bind (findLineEnd_good cfg hf.lineEnd st2) (fun e3' he => ?_)
            refine Good.bind (addParagraph_good _ _) (fun a ha => ?_)
            simp only [pure_bind]
            refine hloop _ (ha.1.trans (p1.trans e1)) (ha.2.1.trans (p2.trans e2)) ?_
            show st.cursor < e3'
            have := he.2.2 (by rw [p1, hc2, e1]; omega)
            omega
        clear_value jp
        split
        · refine Good.bind (addParagraph_good _ _) (fun a ha => ?_)
          simp only [pure_bind]
          exact hjp _ ha.1 ha.2.1 (Eq.refl _)
        · rename_i hle
          simp only [pure_bind]
          refine hjp _ rfl rfl ?_
          have : ¬ m.start > st.cursor := hle
          omega
    · exact Good.ok trivial

theorem parse_good (cfg : MdCfg) (hf : CfgFacts cfg) (pm : ParseMethod) (hpm : PMProgress pm)
    (st : BlockState) (hinv : Inv st) (rules : Option (List String)) :
    Good (fun _ => True) (parse cfg pm st rules) := by
  unfold parse
  refine Good.bind (compileSc_good cfg hf.spec _) (fun sc hsc => ?_)
  refine Good.bind (parseLoop_good cfg hf pm hpm sc hsc _ st hinv (by omega)) (fun st1 _ => ?_)
  split
  · refine Good.bind (addParagraph_good _ _) (fun a _ => ?_)
    exact Good.pure trivial
  · exact Good.pure trivial

theorem inv_childState (st : BlockState) (src : Str) : Inv (st.childState src) := by
  unfold Inv BlockState.childState BlockState.process mkCtx
  simp

theorem inv_root (src : Str) : Inv (BlockState.root src) := by
  unfold Inv BlockState.root BlockState.process mkCtx
  simp

end Blk
end Model
end Mistune
