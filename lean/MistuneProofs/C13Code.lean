/-
C13 (code blocks of the Markdown renderer): the fence chosen by `_get_fenced_marker` cannot be closed by any line of
the code, hence parsing what `MarkdownRenderer.block_code` wrote (`Model.Blk.fencedBody` from the line after the
opening fence) gives back exactly the code (up to the final newline the renderer adds), whatever the code contains.
A marker recorded in the token is kept only when no line of the code closes it (`_closes_fence`); the round trip holds
for every token whose marker is absent or of the shape the block parser records (`md_block_code_roundtrip_any`).
-/
import Mistune.MdCode
import MistuneProofs.C11Fence
namespace Mistune
open Mistune.Model Mistune.Model.Blk

/-! ### lines -/

theorem lineSplit_eq_splitNl (t : Str) : lineSplit t = splitNl t := by
  induction t with
  | nil => rfl
  | cons ch r ih =>
    simp only [lineSplit, splitNl, ih]
    split
    · rfl
    · cases splitNl r <;> rfl

theorem not_nl_mem_splitNl (t : Str) : ∀ l ∈ splitNl t, '\n' ∉ l := by
  induction t with
  | nil => intro l hl; simp [splitNl] at hl; simp [hl]
  | cons ch r ih =>
    intro l hl
    simp only [splitNl] at hl
    split at hl
    · rcases List.mem_cons.mp hl with rfl | hl
      · simp
      · exact ih l hl
    · rename_i hch
      cases hs : splitNl r with
      | nil => exact absurd hs (splitNl_ne_nil r)
      | cons l' ls =>
        rw [hs] at hl ih
        simp only [consHead] at hl
        rcases List.mem_cons.mp hl with rfl | hl
        · intro e
          rcases List.mem_cons.mp e with e | e
          · exact hch e.symm
          · exact ih l' (by simp) e
        · exact ih l (by simp [hl])

theorem flatten_lines_eq_join (ls : List Str) (h : ls ≠ []) :
    (ls.map (· ++ ['\n'])).flatten = Py.join ['\n'] ls ++ ['\n'] := by
  induction ls with
  | nil => exact absurd rfl h
  | cons l ls ih =>
    cases ls with
    | nil => simp [Py.join]
    | cons l2 ls2 =>
      have := ih (by simp)
      simp only [List.map_cons, List.flatten_cons, Py.join] at this ⊢
      rw [this]
      simp

/-- a text that is empty or ends with a newline consists of complete lines, each of which is one of its `splitNl`
lines -/
theorem complete_lines (t : Str) (h : t = [] ∨ t.getLast? = some '\n') :
    ∃ lines : List Str, t = (lines.map (· ++ ['\n'])).flatten ∧ ∀ l ∈ lines, '\n' ∉ l ∧ l ∈ splitNl t := by
  rcases List.eq_nil_or_concat t with rfl | ⟨u, ch, rfl⟩
  · exact ⟨[], rfl, by simp⟩
  · have hch : ch = '\n' := by
      rcases h with h | h
      · simp at h
      · simpa using h
    subst hch
    rw [List.concat_eq_append]
    refine ⟨splitNl u, ?_, ?_⟩
    · rw [flatten_lines_eq_join _ (splitNl_ne_nil u), join_splitNl]
    · intro l hl
      refine ⟨not_nl_mem_splitNl u l hl, ?_⟩
      rw [splitNl_append_nl]
      exact List.mem_append_left _ hl

/-! ### the run of a closing fence line -/

theorem isFenceCh_ne_space {c : Char} (h : isFenceCh c = true) : c ≠ ' ' ∧ c ≠ '\t' ∧ c ≠ '\n' := by
  simp only [isFenceCh, Bool.or_eq_true, beq_iff_eq] at h
  rcases h with rfl | rfl <;> decide

/-- a closing fence line for a fence of `n ≥ 1` characters `c ∈ {'`','~'}` has a run (in the sense of `fenced_re`)
that starts with `c` and has at least `n` characters -/
theorem run_of_closer (c : Char) (n : Nat) (l : Str) (hc : isFenceCh c = true) (hn : 1 ≤ n)
    (h : isCloser c n l = true) : (lineRun l).head? = some c ∧ n ≤ (lineRun l).length := by
  obtain ⟨hc1, _, _⟩ := isFenceCh_ne_space hc
  obtain ⟨sp, m, bl, rfl, hsp, hsp3, hm, _⟩ := shape_of_isCloser c n l h
  obtain ⟨m', rfl⟩ : ∃ m', m = m' + 1 := ⟨m - 1, by omega⟩
  have hsp' : ∀ ch ∈ sp, (ch == ' ') = true := fun ch hch => by simp [hsp ch hch]
  have hrep : ∀ ch ∈ List.replicate (m' + 1) c, isFenceCh ch = true := fun ch hch => by
    rw [List.eq_of_mem_replicate hch]; exact hc
  have h1 : (sp ++ List.replicate (m' + 1) c ++ bl).takeWhile (· == ' ') = sp := by
    rw [List.append_assoc, List.takeWhile_append_of_pos hsp', List.replicate_succ]
    simp [hc1]
  have h2 : (sp ++ List.replicate (m' + 1) c ++ bl).dropWhile (· == ' ') = List.replicate (m' + 1) c ++ bl := by
    rw [List.append_assoc, List.dropWhile_append_of_pos hsp', List.replicate_succ]
    simp [hc1]
  have h3 : lineRun (sp ++ List.replicate (m' + 1) c ++ bl) =
      List.replicate (m' + 1) c ++ bl.takeWhile isFenceCh := by
    unfold lineRun
    rw [h1, if_pos hsp3, h2, List.takeWhile_append_of_pos hrep]
  rw [h3]
  constructor
  · simp [List.replicate_succ]
  · simp; omega

/-! ### the marker -/

/-- fence character and fence length of the chosen marker -/
def fenceChar (code : Str) : Char := (getFencedMarker code).headD '`'

def fenceLen (code : Str) : Nat := (getFencedMarker code).length

theorem foldl_max_ge (l : List Nat) : ∀ (a : Nat), a ≤ l.foldl max a ∧ ∀ x ∈ l, x ≤ l.foldl max a := by
  induction l with
  | nil => intro a; simp
  | cons y r ih =>
    intro a
    obtain ⟨h1, h2⟩ := ih (max a y)
    simp only [List.foldl_cons]
    refine ⟨by omega, ?_⟩
    intro x hx
    rcases List.mem_cons.mp hx with rfl | hx
    · omega
    · exact h2 x hx

theorem le_maxNat (l : List Nat) (x : Nat) (h : x ∈ l) : x ≤ maxNat l := (foldl_max_ge l 0).2 x h

theorem replicate_max3 (k : Nat) (c : Char) :
    (List.replicate (max 3 k) c).headD '`' = c ∧ (List.replicate (max 3 k) c).length = max 3 k := by
  obtain ⟨j, hj⟩ : ∃ j, max 3 k = j + 1 := ⟨max 3 k - 1, by omega⟩
  rw [hj]
  simp [List.replicate_succ]

/-- the chosen marker, case by case, with what each case knows about the runs of the code: every run that starts with
the fence character is strictly shorter than the fence -/
theorem marker_beats_runs (code : Str) :
    getFencedMarker code = List.replicate (fenceLen code) (fenceChar code) ∧
      (fenceChar code = '`' ∨ fenceChar code = '~') ∧ 3 ≤ fenceLen code ∧
      ∀ r ∈ fenceRuns code, r.head? = some (fenceChar code) → r.length < fenceLen code := by
  unfold fenceLen fenceChar getFencedMarker
  simp only
  split
  · rename_i h
    refine ⟨by decide, Or.inl (by decide), by decide, ?_⟩
    intro r hr
    rw [List.isEmpty_iff.mp h] at hr
    simp at hr
  · split
    · rename_i h
      refine ⟨by decide, Or.inl (by decide), by decide, ?_⟩
      intro r hr hhead
      exfalso
      have h0 := List.isEmpty_iff.mp h
      rw [List.map_eq_nil_iff, List.filter_eq_nil_iff] at h0
      have hd : "```".toList.headD '`' = '`' := by decide
      rw [hd] at hhead
      exact h0 r hr (by simp [hhead])
    · split
      · rename_i h
        refine ⟨by decide, Or.inr (by decide), by decide, ?_⟩
        intro r hr hhead
        exfalso
        have h0 := List.isEmpty_iff.mp h
        rw [List.map_eq_nil_iff, List.filter_eq_nil_iff] at h0
        have hd : "~~~".toList.headD '`' = '~' := by decide
        rw [hd] at hhead
        exact h0 r hr (by simp [hhead])
      · obtain ⟨hd, hl⟩ := replicate_max3
          (maxNat (((fenceRuns code).filter (fun s => s.head? == some '`')).map List.length) + 1) '`'
        rw [hd, hl]
        refine ⟨rfl, Or.inl rfl, by omega, ?_⟩
        intro r hr hhead
        have := le_maxNat (((fenceRuns code).filter (fun s => s.head? == some '`')).map List.length) r.length
          (List.mem_map.mpr ⟨r, List.mem_filter.mpr ⟨hr, by simp [hhead]⟩, rfl⟩)
        omega

/-- **the marker is a fence**: at least three back-ticks or at least three tildes -/
theorem marker_shape (code : Str) :
    getFencedMarker code = List.replicate (fenceLen code) (fenceChar code) ∧
      (fenceChar code = '`' ∨ fenceChar code = '~') ∧ 3 ≤ fenceLen code :=
  ⟨(marker_beats_runs code).1, (marker_beats_runs code).2.1, (marker_beats_runs code).2.2.1⟩

/-- the same without the two names -/
theorem marker_shape' (code : Str) :
    ∃ (c : Char) (n : Nat), getFencedMarker code = List.replicate n c ∧ (c = '`' ∨ c = '~') ∧ 3 ≤ n :=
  ⟨_, _, marker_shape code⟩

theorem fenceChar_isFenceCh (code : Str) : isFenceCh (fenceChar code) = true := by
  rcases (marker_shape code).2.1 with h | h <;> rw [h] <;> decide

theorem mem_fenceRuns (code l : Str) (hl : l ∈ splitNl code) (hne : lineRun l ≠ []) : lineRun l ∈ fenceRuns code := by
  unfold fenceRuns
  rw [lineSplit_eq_splitNl]
  exact List.mem_filter.mpr ⟨List.mem_map.mpr ⟨l, hl, rfl⟩, by cases h : lineRun l <;> simp_all⟩

/-- **no line of the code closes the chosen fence** -/
theorem marker_not_closable (code : Str) :
    ∀ l ∈ splitNl code, isCloser (fenceChar code) (fenceLen code) l = false := by
  intro l hl
  cases hcl : isCloser (fenceChar code) (fenceLen code) l with
  | false => rfl
  | true =>
    exfalso
    obtain ⟨_, _, h3, hruns⟩ := marker_beats_runs code
    obtain ⟨hhead, hlen⟩ := run_of_closer _ _ l (fenceChar_isFenceCh code) (by omega) hcl
    have hne : lineRun l ≠ [] := by
      intro e; rw [e] at hhead; cases hhead
    have := hruns _ (mem_fenceRuns code l hl hne) hhead
    omega

/-! ### the final newline does not change the marker -/

theorem lineRun_nil : lineRun [] = [] := rfl

theorem fenceRuns_append_nl (code : Str) : fenceRuns (code ++ ['\n']) = fenceRuns code := by
  unfold fenceRuns
  rw [lineSplit_eq_splitNl, lineSplit_eq_splitNl, splitNl_append_nl]
  simp [splitNl, lineRun_nil]

theorem fenceRuns_ensureNl (code : Str) : fenceRuns (ensureNl code) = fenceRuns code := by
  unfold ensureNl
  split
  · exact fenceRuns_append_nl code
  · rfl

theorem getFencedMarker_ensureNl (code : Str) : getFencedMarker (ensureNl code) = getFencedMarker code := by
  unfold getFencedMarker
  rw [fenceRuns_ensureNl]

theorem ensureNl_terminated (code : Str) : ensureNl code = [] ∨ (ensureNl code).getLast? = some '\n' := by
  unfold ensureNl
  split
  · right; simp
  · rename_i h
    simp only [Bool.and_eq_true, Bool.not_eq_true', not_and, Bool.not_eq_false] at h
    cases code with
    | nil => exact Or.inl rfl
    | cons ch r => right; simpa using h (by simp)

theorem mdMarker_none (code : Str) : mdMarker none (ensureNl code) = getFencedMarker code := by
  unfold mdMarker
  exact getFencedMarker_ensureNl code

theorem mdBlockCode_eq (marker? : Option Str) (info code : Str) :
    mdBlockCode marker? info code =
      mdMarker marker? (ensureNl code) ++ info ++ ['\n'] ++ ensureNl code ++ mdMarker marker? (ensureNl code) ++
        ['\n', '\n'] := rfl

theorem mdBlockCode_none (info code : Str) :
    mdBlockCode none info code =
      getFencedMarker code ++ info ++ ['\n'] ++ ensureNl code ++ getFencedMarker code ++ ['\n', '\n'] := by
  rw [mdBlockCode_eq, mdMarker_none]

/-! ### the round trip -/

/-- the common core: a fence of `n ≥ 1` characters `c ∈ {'`','~'}` around a text of complete lines none of which
closes it -/
theorem fence_roundtrip (c : Char) (n : Nat) (pre post info body : Str) (cursorMax : Nat)
    (hc : isFenceCh c = true) (hn : 1 ≤ n) (hterm : body = [] ∨ body.getLast? = some '\n')
    (hno : ∀ l ∈ splitNl body, isCloser c n l = false) :
    fencedBody
        (Py.ctxOf (pre ++ (List.replicate n c ++ info ++ ['\n'] ++ body ++ List.replicate n c ++ ['\n', '\n']) ++ post))
        cursorMax c n 0 (pre.length + n + info.length + 1) =
      (body, pre.length + n + info.length + 1 + body.length + n + 1) := by
  obtain ⟨lines, hbody, hlines⟩ := complete_lines body hterm
  obtain ⟨hc1, hc2, hc3⟩ := isFenceCh_ne_space hc
  have hclose : ∀ l ∈ lines, '\n' ∉ l ∧ isCloser c n l = false :=
    fun l hl => ⟨(hlines l hl).1, hno l (hlines l hl).2⟩
  have key := fenced_closed_verbatim_notrim c n n (pre ++ List.replicate n c ++ info ++ ['\n']) ('\n' :: post)
    [] [] ['\n'] lines cursorMax hc1 hc2 hc3 hn (Or.inr (by simp)) hclose (by simp) (by simp)
    (Nat.le_refl _) (by simp) (Or.inl rfl)
  simp only [← hbody] at key
  have hs : pre ++ (List.replicate n c ++ info ++ ['\n'] ++ body ++ List.replicate n c ++ ['\n', '\n']) ++ post =
      pre ++ List.replicate n c ++ info ++ ['\n'] ++ body ++ ([] ++ List.replicate n c ++ [] ++ ['\n']) ++
      '\n' :: post := by
    simp
  have hstart : (pre ++ List.replicate n c ++ info ++ ['\n']).length = pre.length + n + info.length + 1 := by
    simp; omega
  rw [← hs, hstart] at key
  rw [key]
  simp
  omega

/-- **Round trip.** Whatever `code` and `info` are: in a subject in which the block written by
`MarkdownRenderer.block_code` (no marker in the token) starts at a line start, `parse_fenced_code`'s body computation,
started on the line after the opening fence with the fence character and fence length of the written marker, returns
exactly the code (with the final newline the renderer adds unless the code is empty or already ends with one) and stops
just after the closing fence line.

No hypothesis on `info` or `pre` is needed for this statement (the length of `info` only fixes where the body starts, and
the body starts after the `'\n'` of the opening line whatever `pre` is).  What the *opening* line needs in order to be
read as this fence with this info string is outside `fencedBody`: `pre` empty or ending with `'\n'`, `info` without
`'\n'`, not starting with the fence character (the fence would become longer) and, for a back-tick fence, without
back-tick (`parseFencedCode_decline`). -/
theorem md_block_code_roundtrip (pre post info code : Str) (cursorMax : Nat) :
    let c := fenceChar code
    let n := fenceLen code
    let code' := ensureNl code
    let s := pre ++ mdBlockCode none info code ++ post
    let start := pre.length + n + info.length + 1
    fencedBody (Py.ctxOf s) cursorMax c n 0 start = (code', start + code'.length + n + 1) := by
  intro c n code' s start
  obtain ⟨hmk, _, hn3⟩ := marker_shape code
  have hno : ∀ l ∈ splitNl code', isCloser c n l = false := by
    intro l hl
    have := marker_not_closable code' l hl
    unfold fenceChar fenceLen at this
    rw [getFencedMarker_ensureNl] at this
    exact this
  have := fence_roundtrip c n pre post info code' cursorMax (fenceChar_isFenceCh code) (by omega)
    (ensureNl_terminated code) hno
  simp only [s, mdBlockCode_none, hmk]
  exact this

/-! ### `_closes_fence` and a marker recorded in the token -/

theorem isBlankCh_eq (ch : Char) : isBlankCh ch = isBlank ch := rfl

theorem all_dropWhile {p q : Char → Bool} : ∀ {l : Str}, l.all q = true → (l.dropWhile p).all q = true := by
  intro l
  induction l with
  | nil => intro h; exact h
  | cons a r ih =>
    intro h
    rw [List.dropWhile_cons]
    split
    · exact ih (by simp only [List.all_cons, Bool.and_eq_true] at h; exact h.2)
    · exact h

/-- the one-line test of `_closes_fence` is the closing-fence predicate of C11Fence as soon as the fence character is
neither a blank nor a tab and the fence is not empty (for `c = ' '` they differ: four blanks close a fence of one
blank for the regex — indentation three — but `isCloser ' ' 1 "    " = false`, see the example below) -/
theorem closerLine_eq_isCloser (c : Char) (n : Nat) (line : Str) (hc1 : c ≠ ' ') (hc2 : c ≠ '\t') (hn : 1 ≤ n) :
    closerLine c n line = isCloser c n line := by
  rw [Bool.eq_iff_iff]
  constructor
  · intro h
    simp only [closerLine, List.any_eq_true, List.mem_range, Bool.and_eq_true, decide_eq_true_eq,
      List.all_eq_true, beq_iff_eq, closerTail] at h
    obtain ⟨k, hk, ⟨hkl, hsp⟩, hm, hbl⟩ := h
    have hrep : List.replicate ((line.drop k).takeWhile (· == c)).length c = (line.drop k).takeWhile (· == c) := by
      symm
      rw [List.eq_replicate_iff]
      exact ⟨rfl, fun b hb => by simpa using (mem_takeWhile_pos hb)⟩
    have hline : line = line.take k ++ List.replicate ((line.drop k).takeWhile (· == c)).length c ++
        (line.drop k).dropWhile (· == c) := by
      rw [hrep, List.append_assoc, List.takeWhile_append_dropWhile, List.take_append_drop]
    rw [hline]
    exact isCloser_of_shape c n _ _ _ hc1 hc2 hn hsp (by rw [List.length_take]; omega) hm
      (fun ch hch => by rw [← isBlankCh_eq]; exact hbl ch hch)
  · intro h
    obtain ⟨sp, m, bl, rfl, hsp, hsp3, hm, hbl⟩ := shape_of_isCloser c n line h
    simp only [closerLine, List.any_eq_true, List.mem_range, Bool.and_eq_true, decide_eq_true_eq,
      List.all_eq_true, beq_iff_eq, closerTail]
    refine ⟨sp.length, by omega, ⟨by simp, ?_⟩, ?_, ?_⟩
    · intro ch hch
      rw [List.append_assoc, List.take_left] at hch
      exact hsp ch hch
    · rw [List.append_assoc, List.drop_left,
        List.takeWhile_append_of_pos (fun ch hch => by simp [List.eq_of_mem_replicate hch])]
      simp; omega
    · rw [List.append_assoc, List.drop_left,
        List.dropWhile_append_of_pos (fun ch hch => by simp [List.eq_of_mem_replicate hch])]
      have hall : bl.all isBlankCh = true := by
        rw [List.all_eq_true]; intro ch hch; rw [isBlankCh_eq]; exact hbl ch hch
      exact List.all_eq_true.mp (all_dropWhile hall)

/-- why `c ≠ ' '` is needed above (the regex backtracks on the indentation, `isCloser` takes all leading blanks) -/
example : closerLine ' ' 1 "    ".toList = true ∧ isCloser ' ' 1 "    ".toList = false := by decide

/-- **`_closes_fence` on a marker of the parser's shape: some line of the code is a closing fence line** -/
theorem closesFence_eq (c : Char) (n : Nat) (code : Str) (hc : isFenceCh c = true) (hn : 1 ≤ n) :
    closesFence (List.replicate n c) code = (splitNl code).any (isCloser c n) := by
  obtain ⟨hc1, hc2, _⟩ := isFenceCh_ne_space hc
  obtain ⟨n', rfl⟩ : ∃ n', n = n' + 1 := ⟨n - 1, by omega⟩
  simp only [List.replicate_succ, closesFence, lineSplit_eq_splitNl, List.length_cons, List.length_replicate]
  congr 1
  funext line
  exact closerLine_eq_isCloser c (n' + 1) line hc1 hc2 hn

theorem closesFence_false_iff (c : Char) (n : Nat) (code : Str) (hc : isFenceCh c = true) (hn : 1 ≤ n) :
    closesFence (List.replicate n c) code = false ↔ ∀ l ∈ splitNl code, isCloser c n l = false := by
  rw [closesFence_eq c n code hc hn, List.any_eq_false]
  simp

/-- the newline appended by the renderer does not matter for the test (lines of `code` instead of `ensureNl code`) -/
theorem closers_ensureNl (c : Char) (n : Nat) (code : Str) (hn : 1 ≤ n) :
    (∀ l ∈ splitNl (ensureNl code), isCloser c n l = false) ↔ ∀ l ∈ splitNl code, isCloser c n l = false := by
  unfold ensureNl
  split
  · rw [splitNl_append_nl]
    have h0 : isCloser c n [] = false := by
      simp [isCloser]; omega
    constructor
    · intro h l hl
      exact h l (List.mem_append_left _ hl)
    · intro h l hl
      rcases List.mem_append.mp hl with hl | hl
      · exact h l hl
      · simp only [splitNl, List.mem_singleton] at hl
        rw [hl]; exact h0
  · exact Iff.rfl

/-- fence character and fence length of the marker `block_code` writes for a token with `marker` = `marker?` -/
def writtenFence (marker? : Option Str) (code : Str) : Char × Nat :=
  ((mdMarker marker? (ensureNl code)).headD '`', (mdMarker marker? (ensureNl code)).length)

theorem writtenFence_none (code : Str) : writtenFence none code = (fenceChar code, fenceLen code) := by
  unfold writtenFence fenceChar fenceLen
  rw [mdMarker_none]

theorem replicate_headD (c : Char) (n : Nat) (hn : 1 ≤ n) : (List.replicate n c).headD '`' = c := by
  obtain ⟨n', rfl⟩ : ∃ n', n = n' + 1 := ⟨n - 1, by omega⟩
  simp [List.replicate_succ]

/-- **the recorded fence is kept whenever no line of the code closes it** (lines of the code as given; the appended
newline adds an empty line, which closes nothing) -/
theorem written_eq_recorded (c : Char) (n : Nat) (code : Str) (hc : c = '`' ∨ c = '~') (hn : 3 ≤ n)
    (hno : ∀ l ∈ splitNl code, isCloser c n l = false) :
    mdMarker (some (List.replicate n c)) (ensureNl code) = List.replicate n c ∧
      writtenFence (some (List.replicate n c)) code = (c, n) := by
  have hfc : isFenceCh c = true := by rcases hc with rfl | rfl <;> decide
  have hcl : closesFence (List.replicate n c) (ensureNl code) = false :=
    (closesFence_false_iff c n _ hfc (by omega)).mpr ((closers_ensureNl c n code (by omega)).mpr hno)
  have hne : (List.replicate n c).isEmpty = false := by
    obtain ⟨n', rfl⟩ : ∃ n', n = n' + 1 := ⟨n - 1, by omega⟩
    rfl
  have hmk : mdMarker (some (List.replicate n c)) (ensureNl code) = List.replicate n c := by
    simp only [mdMarker, hne, hcl, Bool.or_false, Bool.false_eq_true, if_false]
  refine ⟨hmk, ?_⟩
  unfold writtenFence
  rw [hmk, replicate_headD c n (by omega), List.length_replicate]

/-- otherwise (some line of the code closes the recorded fence) the fence is computed as for a token without marker -/
theorem written_eq_computed (c : Char) (n : Nat) (code : Str) (hc : c = '`' ∨ c = '~') (hn : 3 ≤ n)
    (l : Str) (hl : l ∈ splitNl code) (hcl : isCloser c n l = true) :
    mdMarker (some (List.replicate n c)) (ensureNl code) = getFencedMarker code ∧
      writtenFence (some (List.replicate n c)) code = (fenceChar code, fenceLen code) := by
  have hfc : isFenceCh c = true := by rcases hc with rfl | rfl <;> decide
  have hcf : closesFence (List.replicate n c) (ensureNl code) = true := by
    cases h : closesFence (List.replicate n c) (ensureNl code) with
    | true => rfl
    | false =>
      have := (closers_ensureNl c n code (by omega)).mp ((closesFence_false_iff c n _ hfc (by omega)).mp h) l hl
      rw [hcl] at this; cases this
  have hmk : mdMarker (some (List.replicate n c)) (ensureNl code) = getFencedMarker code := by
    simp only [mdMarker, hcf, Bool.or_true, if_true]
    exact getFencedMarker_ensureNl code
  refine ⟨hmk, ?_⟩
  unfold writtenFence fenceChar fenceLen
  rw [hmk]

/-- the written marker is a fence that no line of the (newline-terminated) code closes, whatever the token records -/
theorem written_fence_ok (marker? : Option Str) (code : Str)
    (hm : marker? = none ∨ ∃ c n, marker? = some (List.replicate n c) ∧ (c = '`' ∨ c = '~') ∧ 3 ≤ n) :
    mdMarker marker? (ensureNl code) =
        List.replicate (writtenFence marker? code).2 (writtenFence marker? code).1 ∧
      isFenceCh (writtenFence marker? code).1 = true ∧ 3 ≤ (writtenFence marker? code).2 ∧
      ∀ l ∈ splitNl (ensureNl code),
        isCloser (writtenFence marker? code).1 (writtenFence marker? code).2 l = false := by
  have hcomputed : mdMarker marker? (ensureNl code) = getFencedMarker code →
      writtenFence marker? code = (fenceChar code, fenceLen code) →
      mdMarker marker? (ensureNl code) =
          List.replicate (writtenFence marker? code).2 (writtenFence marker? code).1 ∧
        isFenceCh (writtenFence marker? code).1 = true ∧ 3 ≤ (writtenFence marker? code).2 ∧
        ∀ l ∈ splitNl (ensureNl code),
          isCloser (writtenFence marker? code).1 (writtenFence marker? code).2 l = false := by
    intro h1 h2
    rw [h1, h2]
    refine ⟨(marker_shape code).1, fenceChar_isFenceCh code, (marker_shape code).2.2, ?_⟩
    exact (closers_ensureNl _ _ code (by have := (marker_shape code).2.2; omega)).mpr (marker_not_closable code)
  rcases hm with rfl | ⟨c, n, rfl, hc, hn⟩
  · exact hcomputed (mdMarker_none code) (writtenFence_none code)
  · by_cases hex : ∀ l ∈ splitNl code, isCloser c n l = false
    · obtain ⟨h1, h2⟩ := written_eq_recorded c n code hc hn hex
      rw [h1, h2]
      refine ⟨rfl, by rcases hc with rfl | rfl <;> rfl, hn, ?_⟩
      exact (closers_ensureNl c n code (by omega)).mpr hex
    · have : ∃ l, l ∈ splitNl code ∧ isCloser c n l = true := by
        apply Classical.byContradiction
        intro hne
        apply hex
        intro l hl
        cases h : isCloser c n l with
        | false => rfl
        | true => exact absurd ⟨l, hl, h⟩ hne
      obtain ⟨l, hl, hcl⟩ := this
      obtain ⟨h1, h2⟩ := written_eq_computed c n code hc hn l hl hcl
      exact hcomputed h1 h2

/-- **Round trip, any token.** For a token without marker, or with a marker of the shape the block parser records
(`n ≥ 3` back-ticks or tildes): whatever `code`, `info`, `pre`, `post` are, `parse_fenced_code`'s body computation,
started on the line after the opening fence with the fence `(c', n')` actually written, returns exactly the code (with
the final newline the renderer adds) and stops just after the closing fence line. -/
theorem md_block_code_roundtrip_any (marker? : Option Str) (pre post info code : Str) (cursorMax : Nat)
    (hm : marker? = none ∨ ∃ c n, marker? = some (List.replicate n c) ∧ (c = '`' ∨ c = '~') ∧ 3 ≤ n) :
    let c' := (writtenFence marker? code).1
    let n' := (writtenFence marker? code).2
    let code' := ensureNl code
    let s := pre ++ mdBlockCode marker? info code ++ post
    let start := pre.length + n' + info.length + 1
    fencedBody (Py.ctxOf s) cursorMax c' n' 0 start = (code', start + code'.length + n' + 1) := by
  intro c' n' code' s start
  obtain ⟨hmk, hfc, hn3, hno⟩ := written_fence_ok marker? code hm
  have := fence_roundtrip c' n' pre post info code' cursorMax hfc (by omega) (ensureNl_terminated code) hno
  simp only [s, mdBlockCode_eq, hmk]
  exact this

/-- the corner `code = ""`: the block is `marker + info + "\n" + marker + "\n\n"` with the default marker, and the
body is empty -/
theorem md_block_code_empty (info : Str) :
    mdBlockCode none info [] = "```".toList ++ info ++ "\n```\n\n".toList := by
  rw [mdBlockCode_none]
  simp [show getFencedMarker [] = "```".toList by decide, show ensureNl [] = [] from rfl]

/-! ### concrete inputs -/

/-- four blanks: not a run -/
example : fenceRuns "    x".toList = [] ∧ getFencedMarker "    x".toList = "```".toList := by decide

example : fenceRuns "    ```".toList = [] ∧ getFencedMarker "    ```".toList = "```".toList := by decide

/-- only back-tick runs: tildes -/
example : fenceRuns "```\nx".toList = ["```".toList] ∧ getFencedMarker "```\nx".toList = "~~~".toList := by decide

/-- both kinds: one back-tick more than the longest back-tick run (the closer-like line ```` ```` ```` has four) -/
example : fenceRuns " ~~~\n```` \n".toList = ["~~~".toList, "````".toList] ∧
    getFencedMarker " ~~~\n```` \n".toList = "`````".toList := by decide

example : fenceRuns "`\n~~~".toList = ["`".toList, "~~~".toList] ∧
    getFencedMarker "`\n~~~".toList = "```".toList := by decide

/-- a mixed run counts with its whole length under its first character -/
example : fenceRuns "`~`\n".toList = ["`~`".toList] ∧ getFencedMarker "`~`\n".toList = "~~~".toList := by decide

example : mdBlockCode none "py".toList "```\nx".toList = "~~~py\n```\nx\n~~~\n\n".toList := by decide

example : mdBlockCode none [] [] = "```\n```\n\n".toList := by decide

/-- the round trip on `" ~~~\n```` \n"` (fence of five back-ticks), evaluated and as an instance of the theorem -/
example :
    fencedBody (Py.ctxOf ("a\n".toList ++ mdBlockCode none "py".toList " ~~~\n```` \n".toList ++ "rest".toList)) 99
      '`' 5 0 10 = (" ~~~\n```` \n".toList, 27) := by decide

example :
    fencedBody (Py.ctxOf ("a\n".toList ++ mdBlockCode none "py".toList " ~~~\n```` \n".toList ++ "rest".toList)) 99
      '`' 5 0 10 = (" ~~~\n```` \n".toList, 27) :=
  md_block_code_roundtrip "a\n".toList "rest".toList "py".toList " ~~~\n```` \n".toList 99

/-- the corner: empty code -/
example : fencedBody (Py.ctxOf (mdBlockCode none "py".toList [] ++ "rest".toList)) 99 '`' 3 0 6 = ([], 10) :=
  md_block_code_roundtrip [] "rest".toList "py".toList [] 99

/-! ### a marker taken from the token (`marker? = some m`)

The block parser stores the marker of every fenced block.  The code of a fence indented by `k ≥ 1` blanks is stripped
of up to `k` blanks per line, which can turn a line with four leading blanks (not a closing line) into one with three
(a closing line).  Source `" ~~~\n    ~~~\n ~~~\n"`: parsed code `"   ~~~\n"` with marker `"~~~"`.  Before the fix
(`if not marker:` only) the renderer wrote `"~~~\n   ~~~\n~~~\n\n"`, whose body parses as empty (third conjunct).  With
`_closes_fence` the recorded marker is dropped here, the computed one (three back-ticks) is written, and the block
round-trips. -/

example :
    fencedBody (Py.ctxOf " ~~~\n    ~~~\n ~~~\n".toList) 18 '~' 3 1 5 = ("   ~~~\n".toList, 18) ∧
    closesFence "~~~".toList "   ~~~\n".toList = true ∧
    fencedBody (Py.ctxOf "~~~\n   ~~~\n~~~\n\n".toList) 16 '~' 3 0 4 = ([], 11) ∧
    mdBlockCode (some "~~~".toList) [] "   ~~~\n".toList = "```\n   ~~~\n```\n\n".toList ∧
    writtenFence (some "~~~".toList) "   ~~~\n".toList = ('`', 3) ∧
    fencedBody (Py.ctxOf "```\n   ~~~\n```\n\n".toList) 16 '`' 3 0 4 = ("   ~~~\n".toList, 15) := by decide

/-- the same round trip as an instance of the theorem -/
example :
    fencedBody (Py.ctxOf (mdBlockCode (some "~~~".toList) [] "   ~~~\n".toList)) 16 '`' 3 0 4 =
      ("   ~~~\n".toList, 15) :=
  md_block_code_roundtrip_any (some (List.replicate 3 '~')) [] [] [] "   ~~~\n".toList 16
    (Or.inr ⟨'~', 3, rfl, Or.inr rfl, by decide⟩)

/-- a recorded fence of four tildes around the code `"~~~\n"` is kept (three tildes do not close four) -/
example :
    closesFence "~~~~".toList "~~~\n".toList = false ∧
    mdBlockCode (some "~~~~".toList) "py".toList "~~~\n".toList = "~~~~py\n~~~\n~~~~\n\n".toList ∧
    writtenFence (some "~~~~".toList) "~~~\n".toList = ('~', 4) ∧
    fencedBody (Py.ctxOf "~~~~py\n~~~\n~~~~\n\n".toList) 17 '~' 4 0 7 = ("~~~\n".toList, 16) := by decide

example : writtenFence (some "~~~~".toList) "~~~\n".toList = ('~', 4) :=
  (written_eq_recorded '~' 4 "~~~\n".toList (Or.inr rfl) (by decide) (by decide)).2

/-- the final newline is added before the test: a last line without newline can close the recorded fence as well -/
example : mdBlockCode (some "```".toList) [] "  ```".toList = "~~~\n  ```\n~~~\n\n".toList := by decide

/-- an empty recorded marker is treated as a missing one -/
example : mdBlockCode (some []) [] "x".toList = mdBlockCode none [] "x".toList := by decide


end Mistune
