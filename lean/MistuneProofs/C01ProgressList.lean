/-
C01, progress contract of the concrete block parser (continued): block quotes, lists, the induction on the
nesting budget and the headline theorem `blockParse_no_noProgress`.
-/
import MistuneProofs.C01Progress
import MistuneProofs.C01ProgressPlugins
import MistuneProofs.C01ProgressDirectives
import Mistune.Model.BlockDispatch
import Mistune.Generated.Regex
namespace Mistune
namespace Model
namespace Blk

theorem PosOk.of_falsy {c : Nat} {r : Option Nat} (h : truthyPos r = false) : PosOk c r := by
  intro h2; rw [h] at h2; cases h2

theorem PosOk.weaken {c c' : Nat} {r : Option Nat} (h : PosOk c' r) (hle : c ≤ c') : PosOk c r := by
  intro h2; have := h h2; omega

theorem truthy_some_pos {n : Nat} (h : 0 < n) : truthyPos (some n) = true :=
  (truthyPos_iff _).2 ⟨n, rfl, by omega⟩

/-! ### block quotes -/

/-- result of the quote extraction relative to a reference position `c0` -/
def QuotePost (st : BlockState) (res : Str × Option Nat × BlockState) : Prop :=
  res.2.2.x = st.x ∧ res.2.2.cursorMax = st.cursorMax ∧ PosOk st.cursor res.2.1 ∧ st.cursor ≤ res.2.2.cursor

theorem extractQuoteLoop_good (cfg : MdCfg) (hf : CfgFacts cfg) (pm : ParseMethod) (hpm : PMProgress pm)
    (breakSc : List (String × Rx)) (hsc : ScOk breakSc) :
    ∀ (fuel : Nat) (text : Str) (pbl : Bool) (endPos : Option Nat) (st : BlockState), Inv st →
      truthyPos endPos = false → st.cursorMax - st.cursor ≤ fuel →
      Good (QuotePost st) (extractQuoteLoop cfg pm breakSc fuel text pbl endPos st) := by
  intro fuel
  induction fuel with
  | zero =>
    intro text pbl endPos st _ hfalsy hfu
    unfold extractQuoteLoop
    rw [if_neg (by omega)]
    exact Good.ok ⟨rfl, rfl, PosOk.of_falsy hfalsy, Nat.le_refl _⟩
  | succ fuel ih =>
    intro text pbl endPos st hinv hfalsy hfu
    have hinv' := hinv
    unfold Inv at hinv'
    unfold extractQuoteLoop
    split
    · rename_i hlt
      split
      · rename_i m3 hm3
        obtain ⟨a1, a2, a3, a4⟩ := pyMatchAt_sound _ _ _ _ hm3
        have hne := nonempty_of_minLen _ _ _ _ _ _ a4 hf.strict
        extract_lets quote text2 st2 pbl2
        have hc2 : st2.cursor = m3.stop := rfl
        have := ih text2 pbl2 endPos st2 hinv hfalsy (by rw [hc2]; show st.cursorMax - m3.stop ≤ fuel; omega)
        refine this.mono ?_
        rintro ⟨t, e, st'⟩ ⟨q1, q2, q3, q4⟩
        exact ⟨q1, q2, q3.weaken (by rw [hc2]; omega), by rw [hc2] at q4; dsimp only at q4 ⊢; omega⟩
      · split
        · exact Good.ok ⟨rfl, rfl, PosOk.of_falsy hfalsy, Nat.le_refl _⟩
        · extract_lets jp
          have hjp : ∀ res : Option Nat × BlockState, Post st res → Good (QuotePost st) (jp res) := by
            rintro ⟨e, st1⟩ ⟨p1, p2, p3, p5, p4⟩
            dsimp only at p1 p2 p3 p4 p5
            show Good _ (if truthyPos e = true then _ else _)
            split
            · exact Good.pure ⟨p1, p2, p3, p5⟩
            · rename_i hfa
              have hfa' : truthyPos e = false := by simpa using hfa
              have hc1 := p4 hfa'
              refine Good.bind (findLineEnd_good cfg hf.lineEnd st1) (fun pos hp => ?_)
              have hlt1 : st.cursor < pos := by
                have := hp.2.2 (by rw [p1, hc1]; omega)
                omega
              extract_lets line
              have hinv1 : Inv st1 := by unfold Inv; rw [p1, p2]; exact hinv'
              have := ih (text ++ line) pbl e { st1 with cursor := pos } hinv1 hfa'
                (by show st1.cursorMax - pos ≤ fuel; rw [p2]; omega)
              refine this.mono ?_
              rintro ⟨t, e', st'⟩ ⟨q1, q2, q3, q4⟩
              dsimp only at q1 q2 q3 q4 ⊢
              exact ⟨q1.trans p1, q2.trans p2, q3.weaken (by omega), by show st.cursor ≤ st'.cursor; omega⟩
          clear_value jp
          split
          · rename_i nm m4 hm4
            exact Good.bind (hpm _ _ _ (pre_of_scMatch hsc hinv (by omega) hm4)) hjp
          · simp only [pure_bind]
            exact hjp _ ⟨rfl, rfl, PosOk.of_falsy hfalsy, Nat.le_refl _, fun _ => rfl⟩
    · exact Good.ok ⟨rfl, rfl, PosOk.of_falsy hfalsy, Nat.le_refl _⟩


/-- result of `extract_block_quote` relative to the match start -/
def QuotePost2 (st : BlockState) (mt : RxMatch) (res : Str × Option Nat × BlockState) : Prop :=
  res.2.2.x = st.x ∧ res.2.2.cursorMax = st.cursorMax ∧ PosOk mt.start res.2.1 ∧ mt.start < res.2.2.cursor

theorem extractBlockQuote_good (cfg : MdCfg) (hf : CfgFacts cfg) (pm : ParseMethod) (hpm : PMProgress pm)
    (name : String) (mt : RxMatch) (st : BlockState) (hpre : Pre name mt st) :
    Good (QuotePost2 st mt) (extractBlockQuote cfg pm mt st) := by
  obtain ⟨hinv, h2, h3, h4, _⟩ := hpre
  unfold extractBlockQuote
  extract_lets text1 text2 text3 st2
  refine Good.bind (compileSc_good cfg hf.spec _) (fun sc _ => ?_)
  extract_lets requireMarker
  have hc2 : st2.cursor = mt.stop + 1 := rfl
  split
  · split
    · rename_i m2 hm2
      obtain ⟨a1, a2, a3, a4⟩ := pyMatchAt_sound _ _ _ _ hm2
      have hne := nonempty_of_minLen _ _ _ _ _ _ a4 hf.strict
      refine Good.pure ⟨rfl, rfl, PosOk.none, ?_⟩
      show mt.start < m2.stop
      have hx : st2.x = st.x := rfl
      rw [hc2, hx] at a1
      omega
    · exact Good.pure ⟨rfl, rfl, PosOk.none, by show mt.start < mt.stop + 1; omega⟩
  · refine Good.bind (compileSc_good cfg hf.spec _) (fun breakSc hbs => ?_)
    have := extractQuoteLoop_good cfg hf pm hpm breakSc hbs (st2.cursorMax + 1) text3 false none st2 hinv rfl
      (by omega)
    refine Good.bind this ?_
    rintro ⟨t, e, st'⟩ ⟨q1, q2, q3, q4⟩
    dsimp only at q1 q2 q3 q4
    rw [hc2] at q3 q4
    exact Good.pure ⟨q1, q2, q3.weaken (by omega), by show mt.start < st'.cursor; omega⟩

theorem parseBlockQuote_good (cfg : MdCfg) (hf : CfgFacts cfg) (pm : ParseMethod) (hpm : PMProgress pm)
    (name : String) (mt : RxMatch) (st : BlockState) (hpre : Pre name mt st) :
    Good (Post st) (parseBlockQuote cfg pm mt st) := by
  have hq := extractBlockQuote_good cfg hf pm hpm name mt st hpre
  obtain ⟨hinv, h2, h3, h4, _⟩ := hpre
  unfold parseBlockQuote
  extract_lets tokIndex
  refine Good.bind hq ?_
  rintro ⟨text, endPos, st1⟩ ⟨q1, q2, q3, q4⟩
  dsimp only at q1 q2 q3 q4
  show Good _ (parse cfg pm (st1.childState text) _ >>= _)
  refine Good.bind (parse_good cfg hf pm hpm _ (inv_childState _ _) _) (fun child _ => ?_)
  extract_lets st3 token
  rw [h2] at q3 q4
  split
  · exact Good.pure ⟨q1, q2, q3, by show st.cursor ≤ st1.cursor; omega, fun hfa => by simp_all⟩
  · refine Good.pure ⟨q1, q2, PosOk.some (by show st.cursor < st1.cursor; omega),
      by show st.cursor ≤ st1.cursor; omega, fun hfa => ?_⟩
    have : truthyPos (some st3.cursor) = true := truthy_some_pos (by show 0 < st1.cursor; omega)
    rw [this] at hfa
    cases hfa


/-- `spoiler.parse_block_spoiler` (the function the plugin binds to `block_quote`): same extraction, same child parse -/
theorem parseBlockSpoiler_good (cfg : MdCfg) (hf : CfgFacts cfg) (pm : ParseMethod) (hpm : PMProgress pm)
    (name : String) (mt : RxMatch) (st : BlockState) (hpre : Pre name mt st) :
    Good (Post st) (parseBlockSpoiler cfg pm mt st) := by
  have hq := extractBlockQuote_good cfg hf pm hpm name mt st hpre
  obtain ⟨hinv, h2, h3, h4, _⟩ := hpre
  unfold parseBlockSpoiler
  extract_lets tokIndex
  refine Good.bind hq ?_
  rintro ⟨text, endPos, st1⟩ ⟨q1, q2, q3, q4⟩
  dsimp only at q1 q2 q3 q4
  dsimp only
  show Good _ (parse cfg pm (st1.childState _) _ >>= _)
  refine Good.bind (parse_good cfg hf pm hpm _ (inv_childState _ _) _) (fun child _ => ?_)
  rw [h2] at q3 q4
  split
  · exact Good.pure ⟨q1, q2, q3, by show st.cursor ≤ st1.cursor; omega, fun hfa => by simp_all⟩
  · refine Good.pure ⟨q1, q2, PosOk.some (by show st.cursor < st1.cursor; omega),
      by show st.cursor ≤ st1.cursor; omega, fun hfa => ?_⟩
    have : truthyPos (some st1.cursor) = true := truthy_some_pos (by omega)
    exact absurd (this.symm.trans hfa) (by decide)


/-! ### lists: token bookkeeping -/

theorem lookup_map_ne (kv : List (String × Json)) (k k' : String) (v : Json) (h : k' ≠ k) :
    (kv.map (fun p => if p.1 == k then (k, v) else p)).lookup k' = kv.lookup k' := by
  induction kv with
  | nil => rfl
  | cons p kv ih =>
    obtain ⟨a, b⟩ := p
    simp only [List.map_cons]
    by_cases hak : a = k
    · subst hak
      have : (k' == a) = false := by simpa using h
      simp only [BEq.rfl, if_true, List.lookup, this]
      exact ih
    · have : (a == k) = false := by simpa using hak
      simp only [this]
      simp only [List.lookup, ih, Bool.false_eq_true, if_false]

theorem lookup_append_ne (kv : List (String × Json)) (k k' : String) (v : Json) (h : k' ≠ k) :
    (kv ++ [(k, v)]).lookup k' = kv.lookup k' := by
  induction kv with
  | nil =>
    have : (k' == k) = false := by simpa using h
    simp [List.lookup, this]
  | cons p kv ih =>
    obtain ⟨a, b⟩ := p
    simp only [List.cons_append, List.lookup, ih]

theorem get?_set_ne (j : Json) (k k' : String) (v : Json) (h : k' ≠ k) : (j.set k v).get? k' = j.get? k' := by
  cases j with
  | obj kv =>
    simp only [Json.set]
    split
    · simp only [Json.get?]; exact lookup_map_ne kv k k' v h
    · simp only [Json.get?]; exact lookup_append_ne kv k k' v h
  | _ => rfl

theorem lookup_map_self (kv : List (String × Json)) (k : String) (v w : Json)
    (h : (kv.map (fun p => if p.1 == k then (k, v) else p)).lookup k = some w) : w = v := by
  induction kv with
  | nil => simp at h
  | cons p kv ih =>
    obtain ⟨a, b⟩ := p
    simp only [List.map_cons] at h
    by_cases hak : a = k
    · subst hak
      simp [List.lookup] at h
      exact h.symm
    · have h1 : (a == k) = false := by simpa using hak
      have h2 : (k == a) = false := by simpa using (Ne.symm hak)
      simp only [h1, Bool.false_eq_true, if_false, List.lookup, h2] at h
      exact ih h

theorem lookup_append_self (kv : List (String × Json)) (k : String) (v w : Json)
    (hno : kv.any (fun p => p.1 == k) = false) (h : (kv ++ [(k, v)]).lookup k = some w) : w = v := by
  induction kv with
  | nil => simp at h; exact h.symm
  | cons p kv ih =>
    obtain ⟨a, b⟩ := p
    simp only [List.any_cons, Bool.or_eq_false_iff] at hno
    have h1 : (a == k) = false := hno.1
    have h2 : (k == a) = false := by
      have : a ≠ k := by simpa using h1
      simpa using (Ne.symm this)
    simp only [List.cons_append, List.lookup, h2] at h
    exact ih hno.2 h

theorem get?_set_self (j : Json) (k : String) (v w : Json) (h : (j.set k v).get? k = some w) : w = v := by
  cases j with
  | obj kv =>
    simp only [Json.set] at h
    split at h
    · exact lookup_map_self kv k v w h
    · rename_i hno
      exact lookup_append_self kv k v w (Bool.eq_false_iff.2 hno) h
  | _ => simp [Json.set, Json.get?] at h

/-- the `_end_pos` that the list loop may have recorded in the list token lies after `c0` -/
def TokOk (c0 : Nat) (token : Json) : Prop :=
  ∀ n : Int, token.get? "_end_pos" = some (.num n) → n.toNat ≠ 0 → c0 < n.toNat

theorem TokOk.set_ne {c0 : Nat} {token : Json} (h : TokOk c0 token) (k : String) (v : Json) (hk : "_end_pos" ≠ k) :
    TokOk c0 (token.set k v) := by
  intro n hn; rw [get?_set_ne _ _ _ _ hk] at hn; exact h n hn

theorem TokOk.set_end {c0 : Nat} (token : Json) (e : Nat) (he : c0 < e) :
    TokOk c0 (token.set "_end_pos" (.num e)) := by
  intro n hn _
  have := get?_set_self _ _ _ _ hn
  cases this
  simpa using he

theorem isLooseList_good : ∀ (l : List Json) (n : Nat), Good (fun _ => True) (isLooseList l n) := by
  intro l
  induction l with
  | nil => intro n; exact Good.ok trivial
  | cons t rest ih =>
    intro n
    unfold isLooseList
    refine Good.bind (typeOf_good _) (fun ty _ => ?_)
    split
    · exact Good.pure trivial
    · split
      · split
        · exact Good.pure trivial
        · exact ih _
      · exact ih _

theorem transformTightList_good : ∀ (fuel : Nat) (t : Json), Good (fun _ => True) (transformTightList fuel t) := by
  intro fuel
  induction fuel with
  | zero => intro t; exact Good.err (by decide)
  | succ fuel ih =>
    intro t
    unfold transformTightList
    refine Good.bind (getE_good _ _) (fun a _ => ?_)
    split
    · refine Good.bind (childrenOf_good _) (fun items _ => ?_)
      refine Good.bind (good_mapM _ (fun li => ?_) _) (fun _ _ => Good.pure trivial)
      refine Good.bind (childrenOf_good _) (fun cs _ => ?_)
      refine Good.bind (good_mapM _ (fun t' => ?_) _) (fun _ _ => Good.pure trivial)
      refine Good.bind (typeOf_good _) (fun ty _ => ?_)
      split
      · exact Good.pure trivial
      · split
        · exact ih _
        · exact Good.pure trivial
    · exact Good.pure trivial


/-! ### lists: the loops -/

/-- result of the list-item loops: same subject and range, the cursor did not move backwards, the recorded
`_end_pos` is fine, and a following item means the cursor moved forward inside the range -/
def ItemPost (c0 : Nat) (st : BlockState) (ng : Option ItemGroups) (token : Json) (st' : BlockState) : Prop :=
  st'.x = st.x ∧ st'.cursorMax = st.cursorMax ∧ st.cursor ≤ st'.cursor ∧ TokOk c0 token ∧
    (ng.isSome = true → st.cursor < st'.cursor ∧ st.cursor < st.cursorMax)

theorem listItemLoop_good (cfg : MdCfg) (hf : CfgFacts cfg) (pm : ParseMethod) (hpm : PMProgress pm)
    (sc : List (String × Rx)) (hsc : ScOk sc) (text continueSpace : Str) (c0 : Nat) :
    ∀ (fuel pos : Nat) (src : Str) (pbl : Bool) (token : Json) (st : BlockState), Inv st → pos = st.cursor →
      st.cursorMax - pos ≤ fuel → TokOk c0 token → c0 ≤ st.cursor →
      Good (fun res => ItemPost c0 st res.2.1 res.2.2.1 res.2.2.2)
        (listItemLoop cfg pm sc text continueSpace fuel pos src pbl token st) := by
  intro fuel
  induction fuel with
  | zero =>
    intro pos src pbl token st _ hpos hfu htok _
    unfold listItemLoop
    rw [if_neg (by omega)]
    exact Good.ok ⟨rfl, rfl, Nat.le_refl _, htok, fun h => by cases h⟩
  | succ fuel ih =>
    intro pos src pbl token st hinv hpos hfu htok hc0
    have hinv' := hinv
    unfold Inv at hinv'
    subst hpos
    unfold listItemLoop
    split
    · rename_i hlt
      refine Good.bind (findLineEnd_good cfg hf.lineEnd st) (fun pos' hp => ?_)
      have hlt' : st.cursor < pos' := hp.2.2 (by omega)
      -- the recursive calls
      have hrec : ∀ (src' : Str) (pbl' : Bool) (token' : Json) (st1 : BlockState), st1.x = st.x →
          st1.cursorMax = st.cursorMax → TokOk c0 token' →
          Good (fun res => ItemPost c0 st res.2.1 res.2.2.1 res.2.2.2)
            (listItemLoop cfg pm sc text continueSpace fuel pos' src' pbl' token' { st1 with cursor := pos' }) := by
        intro src' pbl' token' st1 e1 e2 htok'
        have := ih pos' src' pbl' token' { st1 with cursor := pos' } (by unfold Inv; rw [e1, e2]; exact hinv') rfl
          (by show st1.cursorMax - pos' ≤ fuel; rw [e2]; omega) htok' (by show c0 ≤ pos'; omega)
        refine this.mono ?_
        rintro ⟨s', ng, tk, st'⟩ ⟨q1, q2, q3, q4, q5⟩
        dsimp only at q1 q2 q3 q4 q5 ⊢
        exact ⟨q1.trans e1, q2.trans e2, by omega, q4, fun _ => ⟨by omega, hlt⟩⟩
      extract_lets line line2 jp token2 tokIndex
      have htok2 : TokOk c0 token2 := by
        show TokOk c0 (if pbl = true then token.set "tight" (Json.bool false) else token)
        split
        · exact htok.set_ne _ _ (by decide)
        · exact htok
      clear_value token2
      have hjp : ∀ (stop : Option (Option ItemGroups × Json)) (st1 : BlockState), st1.x = st.x →
          st1.cursorMax = st.cursorMax → st.cursor ≤ st1.cursor →
          (∀ ng tk, stop = some (ng, tk) → TokOk c0 tk ∧ (ng.isSome = true → st.cursor < st1.cursor)) →
          Good (fun res => ItemPost c0 st res.2.1 res.2.2.1 res.2.2.2) (jp (stop, st1)) := by
        intro stop st1 e1 e2 e3 e4
        show Good _ (match stop with | some (nextGroup, token) => _ | none => _)
        split
        · rename_i ng tk
          obtain ⟨t1, t2⟩ := e4 ng tk rfl
          exact Good.pure ⟨e1, e2, e3, t1, fun h => ⟨t2 h, hlt⟩⟩
        · split
          · exact Good.pure ⟨e1, e2, e3, htok, fun h => by cases h⟩
          · exact hrec _ _ _ st1 e1 e2 htok
      clear_value jp
      split
      · exact hrec _ _ _ st rfl rfl htok
      · split
        · split
          · exact Good.pure ⟨rfl, rfl, Nat.le_refl _, htok, fun h => by cases h⟩
          · exact hrec _ _ _ st rfl rfl htok
        · split
          · rename_i tokType m hm
            have hpre := pre_of_scMatch hsc hinv (by omega) hm
            split
            · simp only [pure_bind]
              refine hjp _ _ rfl rfl (by show st.cursor ≤ m.stop + 1; have := hpre.2.1; have := hpre.2.2.1; omega) ?_
              intro ng tk h
              cases h
              exact ⟨htok2, fun _ => by show st.cursor < m.stop + 1; have := hpre.2.1; have := hpre.2.2.1; omega⟩
            · split
              · simp only [pure_bind]
                refine hjp _ _ rfl rfl (Nat.le_refl _) ?_
                intro ng tk h
                cases h
                exact ⟨htok, fun h => by cases h⟩
              · refine Good.bind (hpm _ _ _ hpre) ?_
                rintro ⟨endPos, st1⟩ ⟨p1, p2, p3, p5, p4⟩
                dsimp only at p1 p2 p3 p4 p5
                show Good _ (if truthyPos endPos = true then _ else _)
                split
                · rename_i htr
                  have := p3 htr
                  simp only [pure_bind]
                  refine hjp _ _ p1 p2 p5 ?_
                  intro ng tk h
                  cases h
                  refine ⟨?_, fun h => by cases h⟩
                  exact TokOk.set_end _ _ (by omega)
                · simp only [pure_bind]
                  exact hjp _ _ p1 p2 p5 (fun ng tk h => by cases h)
          · simp only [pure_bind]
            exact hjp _ _ rfl rfl (Nat.le_refl _) (fun ng tk h => by cases h)
    · exact Good.ok ⟨rfl, rfl, Nat.le_refl _, htok, fun h => by cases h⟩


theorem parseListItem_good (cfg : MdCfg) (hf : CfgFacts cfg) (pm : ParseMethod) (hpm : PMProgress pm)
    (bullet : Char) (hb : ∀ lw, ScOk (listItemSc cfg bullet lw)) (c0 : Nat) (groups : ItemGroups) (token : Json)
    (st : BlockState) (rules : List String) (hinv : Inv st) (htok : TokOk c0 token) (hc0 : c0 ≤ st.cursor) :
    Good (fun res => ItemPost c0 st res.1 res.2.1 res.2.2) (parseListItem cfg pm bullet groups token st rules) := by
  unfold parseListItem
  obtain ⟨spaces, marker, text⟩ := groups
  dsimp only
  refine Good.bind (listItemLoop_good cfg hf pm hpm _ (hb _) _ _ c0 (st.cursorMax + 1) st.cursor [] false token st
    hinv rfl (by omega) htok hc0) ?_
  rintro ⟨src, ng, tk, st1⟩ ⟨q1, q2, q3, q4, q5⟩
  dsimp only at q1 q2 q3 q4 q5 ⊢
  refine Good.bind (parse_good cfg hf pm hpm _ (inv_childState _ _) _) (fun child _ => ?_)
  refine Good.bind (getE_good _ _) (fun a _ => ?_)
  refine Good.bind (isLooseList_good _ _) (fun b _ => ?_)
  split
  · simp only [pure_bind]
    refine Good.bind (childrenOf_good _) (fun cs _ => ?_)
    exact Good.pure ⟨q1, q2, q3, (q4.set_ne _ _ (by decide)).set_ne _ _ (by decide), q5⟩
  · simp only [pure_bind]
    refine Good.bind (childrenOf_good _) (fun cs _ => ?_)
    exact Good.pure ⟨q1, q2, q3, q4.set_ne _ _ (by decide), q5⟩

theorem listItemsLoop_good (cfg : MdCfg) (hf : CfgFacts cfg) (pm : ParseMethod) (hpm : PMProgress pm)
    (bullet : Char) (hb : ∀ lw, ScOk (listItemSc cfg bullet lw)) (c0 : Nat) (rules : List String) :
    ∀ (fuel : Nat) (groups : Option ItemGroups) (token : Json) (st : BlockState), Inv st → TokOk c0 token →
      c0 ≤ st.cursor → (groups.isSome = true → st.cursorMax - st.cursor < fuel) →
      Good (fun res => res.2.x = st.x ∧ res.2.cursorMax = st.cursorMax ∧ st.cursor ≤ res.2.cursor ∧ TokOk c0 res.1)
        (listItemsLoop cfg pm bullet rules fuel groups token st) := by
  intro fuel
  induction fuel with
  | zero =>
    intro groups token st hinv htok hc0 hfu
    cases groups with
    | none => unfold listItemsLoop; exact Good.ok ⟨rfl, rfl, Nat.le_refl _, htok⟩
    | some g => have := hfu rfl; omega
  | succ fuel ih =>
    intro groups token st hinv htok hc0 hfu
    cases groups with
    | none => unfold listItemsLoop; exact Good.ok ⟨rfl, rfl, Nat.le_refl _, htok⟩
    | some g =>
      have hfu := hfu rfl
      unfold listItemsLoop
      refine Good.bind (parseListItem_good cfg hf pm hpm bullet hb c0 g token st rules hinv htok hc0) ?_
      rintro ⟨ng, tk, st1⟩ ⟨q1, q2, q3, q4, q5⟩
      dsimp only at q1 q2 q3 q4 q5 ⊢
      have := ih ng tk st1 (by unfold Inv at hinv ⊢; rw [q1, q2]; exact hinv) q4 (by omega)
        (fun h => by have := q5 h; rw [q2]; omega)
      refine this.mono ?_
      rintro ⟨tk', st'⟩ ⟨r1, r2, r3, r4⟩
      exact ⟨r1.trans q1, r2.trans q2, by dsimp only at r3 ⊢; omega, r4⟩


theorem parseList_good (cfg : MdCfg) (hf : CfgFacts cfg) (pm : ParseMethod) (hpm : PMProgress pm)
    (name : String) (mt : RxMatch) (st : BlockState) (hpre : Pre name mt st) :
    Good (Post st) (parseList cfg pm mt st) := by
  obtain ⟨hinv, h2, h3, h4, _⟩ := hpre
  have hinv' := hinv
  unfold Inv at hinv'
  unfold parseList
  extract_lets text jp
  have hjp : ∀ res : Option Nat × BlockState, SameFrame st res.2 → PosOk st.cursor res.1 → Good (Post st) (jp res) := by
    rintro ⟨early, st1⟩ hfr hpos
    dsimp only at hfr hpos
    show Good _ (if truthyPos early = true then _ else _)
    split
    · exact Good.pure (Post.of_frame hfr hpos)
    extract_lets marker ordered depth attrs rules jpLast
    have hLast : ∀ last, Good (Post st) (jpLast last) := by
      intro last
      unfold jpLast
      extract_lets +onlyGivenNames bullet jp2
      have hjp2 : ∀ res : Option Nat × Json × BlockState, SameFrame st res.2.2 → PosOk st.cursor res.1 →
          Good (Post st) (jp2 res) := by
        rintro ⟨early2, attrs2, st2⟩ hfr2 hpos2
        dsimp only at hfr2 hpos2
        show Good _ (if truthyPos early2 = true then _ else _)
        split
        · exact Good.pure (Post.of_frame hfr2 hpos2)
        extract_lets +onlyGivenNames token st3 groups
        obtain ⟨f1, f2, f3⟩ := hfr2
        have hc3 : st3.cursor = mt.stop + 1 := rfl
        have hx3 : st3.x = st.x := f1
        have hm3 : st3.cursorMax = st.cursorMax := f2
        have htok0 : TokOk mt.start token := by
          intro n hn
          simp [token, tok, Json.get?, List.lookup] at hn
        have := listItemsLoop_good cfg hf pm hpm bullet (hf.item last) mt.start rules (st3.cursorMax + 2)
          (some groups) token st3 (by unfold Inv; rw [hx3, hm3]; exact hinv') htok0 (by omega) (fun _ => by omega)
        refine Good.bind this ?_
        rintro ⟨tk, st4⟩ ⟨r1, r2, r3, r4⟩
        dsimp only at r1 r2 r3 r4
        dsimp -zeta only
        extract_lets +onlyGivenNames endPos tk2
        have hend : PosOk st.cursor endPos := by
          intro htr
          obtain ⟨hs, hnz⟩ := truthyPos_getD htr
          revert hs hnz
          generalize endPos.getD 0 = e
          intro hs hnz
          have hs' : (match tk.get? "_end_pos" with
            | some (Json.num n) => some n.toNat
            | _ => none) = some e := hs
          split at hs'
          · rename_i n hn
            cases hs'
            have := r4 n hn hnz
            omega
          · cases hs'
        clear_value endPos
        refine Good.bind (transformTightList_good _ _) (fun tk3 _ => ?_)
        split
        · refine Good.bind (getE_good _ _) (fun idx _ => ?_)
          extract_lets +onlyGivenNames tk4 jp4
          have hjp4 : ∀ i, Good (Post st) (jp4 i) := by
            intro i
            exact Good.pure ⟨r1.trans hx3, r2.trans hm3, hend, by show st.cursor ≤ st4.cursor; omega,
              fun hfa => by simp_all⟩
          clear_value jp4
          split
          · simp only [pure_bind]; exact hjp4 _
          · exact (by decide : PyErr.typeError ≠ PyErr.noProgress)
        · refine Good.pure ⟨r1.trans hx3, r2.trans hm3, PosOk.some (by show st.cursor < st4.cursor; omega),
            by show st.cursor ≤ st4.cursor; omega, fun hfa => ?_⟩
          have : truthyPos (some st4.cursor) = true := truthy_some_pos (by omega)
          rw [this] at hfa
          cases hfa
      clear_value jp2
      split
      · extract_lets +onlyGivenNames jp3
        have hjp3 : ∀ start, Good (Post st) (jp3 start) := by
          intro start
          show Good _ (if (start != 1) = true then _ else _)
          split
          · refine Good.bind (appendParagraph_good cfg hf.lineEnd st1 (by rw [hfr.1, hfr.2.2]; omega)) ?_
            rintro ⟨e, st2⟩ ⟨g1, g2⟩
            dsimp only at g1 g2
            have hfr2 : SameFrame st st2 := ⟨g1.1.trans hfr.1, g1.2.1.trans hfr.2.1, g1.2.2.trans hfr.2.2⟩
            show Good _ (if truthyPos e = true then _ else _)
            split
            · simp only [pure_bind]
              exact hjp2 _ hfr2 (by rw [← hfr.2.2]; exact g2)
            · simp only [pure_bind]
              exact hjp2 _ hfr2 PosOk.none
          · simp only [pure_bind]
            exact hjp2 _ hfr PosOk.none
        clear_value jp3
        split
        · simp only [pure_bind]; exact hjp3 _
        · exact (by decide : PyErr.valueError ≠ PyErr.noProgress)
      · simp only [pure_bind]
        exact hjp2 _ hfr PosOk.none
    clear_value jpLast
    split
    · simp only [pure_bind]; exact hLast _
    · exact (by decide : PyErr.indexError ≠ PyErr.noProgress)
  clear_value jp
  split
  · refine Good.bind (appendParagraph_good cfg hf.lineEnd st (by omega)) (fun res hres => hjp res hres.1 hres.2)
  · simp only [pure_bind]
    exact hjp _ SameFrame.refl PosOk.none


/-! ### induction on the nesting budget, headline theorems -/

/-- **every instance of `parse_method` satisfies the progress contract** (induction on the nesting budget: a
handler only calls the instance with the smaller budget) -/
theorem parseMethod_progress (cfg : MdCfg) (hf : CfgFacts cfg) : ∀ fuel, PMProgress (parseMethod cfg fuel) := by
  intro fuel
  induction fuel with
  | zero =>
    intro name mt st _
    exact Good.err (by decide)
  | succ fuel ih =>
    intro name mt st hpre
    unfold parseMethod
    dsimp only
    -- one goal per case of the dispatcher; every goal is closed by the first lemma of the list that fits.
    -- ADDING A HANDLER = adding one `| exact …` line with its `…_good` lemma (wrapped in `Good.guard` when the
    -- dispatcher binds it only if `registered`)
    split
    all_goals first
      | exact Good.err (by decide)                                             -- unknown rule name: KeyError
      | exact parseBlankLine_good _ mt st hpre
      | exact parseAtxHeading_good cfg _ mt st hpre
      | exact parseSetexHeading_good cfg hf _ ih _ mt st hpre
      | exact parseFencedCode_good cfg _ mt st hpre
      | (split                                                                  -- `fenced_code` with / without a default-marker `FencedDirective`
         · exact parseFencedCodeDir_good cfg hf _ ih _ mt st hpre
         · exact parseFencedCode_good cfg _ mt st hpre)
      | exact parseIndentCode_good cfg hf _ mt st hpre
      | exact parseThematicBreak_good _ mt st hpre
      | exact parseRefLink_good cfg hf _ mt st hpre
      | exact parseBlockQuote_good cfg hf _ ih _ mt st hpre
      | (split                                                                  -- `block_quote` with / without `spoiler`
         · exact parseBlockSpoiler_good cfg hf _ ih _ mt st hpre
         · exact parseBlockQuote_good cfg hf _ ih _ mt st hpre)
      | exact parseList_good cfg hf _ ih _ mt st hpre
      | exact parseRawHtml_good cfg hf _ mt st hpre (hpre.2.2.2.2 (Or.inl rfl))   -- block_html
      | exact parseRawHtml_good cfg hf _ mt st hpre (hpre.2.2.2.2 (Or.inr rfl))   -- raw_html
      | exact Good.guard (fun _ => parseTable_good cfg _ mt st hpre)
      | exact Good.guard (fun _ => parseNptable_good cfg _ mt st hpre)
      | exact Good.guard (fun _ => parseRefFootnote_good cfg _ mt st hpre)
      | exact Good.guard (fun hreg => parseDefList_good cfg hf _ ih hreg _ mt st hpre)
      -- (the guard is given explicitly: a wrong alternative then fails at once instead of comparing two handlers)
      | exact Good.guard (c := registered cfg "block_math") (fun _ => parseBlockMath_good cfg _ mt st hpre)
      | exact Good.guard (c := registered cfg "paragraph") (fun _ => parseParagraph_good _ mt st hpre)
      | exact Good.guard (fun _ => parseRefAbbr_good cfg _ mt st hpre)
      | exact Good.guard (c := registered cfg "rst_directive") (fun _ => parseRstDirective_good cfg hf _ ih _ mt st hpre)
      | exact Good.guard (c := registered cfg "fenced_directive") (fun _ => parseFencedDirective_good cfg hf _ ih _ mt st hpre)

/-- `BlockParser.parse` on any state built by `process`, with any rule list and any nesting budget, never
returns `.noProgress` -/
theorem parse_no_noProgress (cfg : MdCfg) (hok : CfgOk cfg = true) (fuel : Nat) (st : BlockState) (hinv : Inv st)
    (rules : Option (List String)) : parse cfg (parseMethod cfg fuel) st rules ≠ .error .noProgress :=
  (parse_good cfg (cfgFacts_of_ok hok) _ (parseMethod_progress cfg (cfgFacts_of_ok hok) fuel) st hinv rules).noProgress

/-- **C01, progress of the concrete block parser.**  For every configuration whose regenerated tables pass the
decidable check `CfgOk` and for EVERY source string, the block parser model never reaches a state where the
Python `while` loops would spin without advancing: no loop of the model (`parseLoop`, `extractQuoteLoop`,
`listItemLoop`, `listItemsLoop`, at any nesting depth) returns `.noProgress`. -/
theorem blockParse_no_noProgress (cfg : MdCfg) (hok : CfgOk cfg = true) (src : Str) :
    Blk.blockParse cfg src ≠ .error .noProgress := by
  have hf := cfgFacts_of_ok hok
  have : Good (fun _ => True) (Blk.blockParse cfg src) := by
    unfold Blk.blockParse
    refine Good.bind (parse_good cfg hf _ (parseMethod_progress cfg hf _) _ (inv_root src) none) (fun st _ => ?_)
    exact Good.pure trivial
  exact this.noProgress

end Blk
end Model
end Mistune

namespace Mistune
open Mistune.Model Mistune.Model.Blk Mistune.Generated

theorem Model.blockParse_no_noProgress (cfg : MdCfg) (hok : CfgOk cfg = true) (src : Str) :
    Model.blockParse cfg src ≠ .error .noProgress := Blk.blockParse_no_noProgress cfg hok src

/-- **Obligation (C01, concrete block parser):** every regenerated configuration passes `CfgOk`
(re-checked by the kernel against /repo's tables on every run). -/
theorem allCfgs_cfgOk : allCfgs.all (fun c => CfgOk (ofRuleCfg c)) = true := by decide +kernel

/-- the headline theorem for every regenerated configuration -/
theorem allCfgs_blockParse_no_noProgress (c : RuleCfg) (hc : c ∈ allCfgs) (src : Str) :
    Model.blockParse (ofRuleCfg c) src ≠ .error .noProgress := by
  have := List.all_eq_true.1 allCfgs_cfgOk c hc
  exact Model.blockParse_no_noProgress _ this src

end Mistune

/-! ### non-vacuity, necessity -/

namespace Mistune
open Mistune.Model Mistune.Model.Blk Mistune.Generated

/-- result classifiers (the result type has no decidable equality) -/
def isNoProgress {α : Type} : Except PyErr α → Bool
  | .error .noProgress => true
  | _ => false

def isOkRes {α : Type} : Except PyErr α → Bool
  | .ok _ => true
  | _ => false

-- concrete configurations satisfy the hypothesis of the headline theorem
example : CfgOk (ofRuleCfg cfg_core) = true := by decide +kernel
example : (findCfg "core").map CfgOk = some true := by decide +kernel
example : (findCfg "core").isSome = true := by decide +kernel

-- the model runs to a normal result on small documents (kernel evaluation of the whole block parser)
example : isOkRes (Model.blockParse (ofRuleCfg cfg_core) "# a\n".toList) = true := by decide +kernel
example : isOkRes (Model.blockParse (ofRuleCfg cfg_core) "> a\n- b\n\n<div>\nx\n".toList) = true := by
  decide +kernel

-- plugin configurations: the plugin handlers are bound (`registered`) and their loops run
example : registered (ofRuleCfg cfg_only_def_list) "def_list" = true := by decide +kernel
example : isOkRes (Model.blockParse (ofRuleCfg cfg_only_def_list) "a\n: b\n: c\n".toList) = true := by decide +kernel
example : isOkRes (Model.blockParse (ofRuleCfg cfg_only_table) "a | b\n--- | ---\n1 | 2\n".toList) = true := by
  decide +kernel

/-- the hypothesis is necessary: a table with a rule that can match the empty string fails `CfgOk`, and the model
does reach `.noProgress` (in Python: `BlockParser.parse` would spin at position 2 of `"a\nb"`) -/
def badCfg : MdCfg := { ofRuleCfg cfg_core with blockSpec := [("blank_line", .eps)], blockRules := ["blank_line"] }

example : CfgOk badCfg = false := by decide +kernel
example : isNoProgress (Model.blockParse badCfg "a\nb".toList) = true := by decide +kernel

/-- `rulesConsume` alone (the side condition of the abstract loop theorem) is NOT enough for the concrete handlers:
`_parse_html_to_newline` returns the START of the next blank line, so an HTML rule that could match at a blank
line stalls the loop.  This table consumes (`"\n<div"`), fails `CfgOk` (no ` *<` start), and the model reaches
`.noProgress` on `"a\n\n<div"`. -/
def badHtmlRx : Rx :=
  .seq .bol (.seq (.cls false [.chr 10]) (.seq (.cls false [.chr 60]) (.seq (.cls false [.chr 100])
    (.seq (.cls false [.chr 105]) (.cls false [.chr 118])))))

def badHtmlCfg : MdCfg :=
  { ofRuleCfg cfg_core with blockSpec := [("raw_html", badHtmlRx)], blockRules := ["raw_html"] }

example : rulesConsume badHtmlCfg.blockSpec = true := by decide +kernel
example : CfgOk badHtmlCfg = false := by decide +kernel
example : isNoProgress (Model.blockParse badHtmlCfg "a\n\n<div".toList) = true := by decide +kernel

end Mistune

