/-
C03 (list items): `_clean_list_item_text(src, continue_width)` (`Model.Blk.cleanListItemText`) is, line by line,
"if the line starts with `continue_width` blanks, remove exactly these and expand a leading tab (after at most three
blanks) to four blanks; otherwise copy the line".  Nothing but blanks and tabs is ever removed or inserted, the line
structure is preserved, and the removal is anchored at the line start (`str.replace(trim_space, "", 1)` is called only
under `startswith(trim_space)`, so its first occurrence *is* the prefix).

The regex `_expand_tab_re = ^( {0,3})\t` (`re.M`) is the line-head pattern already evaluated in `C11Indent`; only the
replacement differs (`r"\1" + "    "` here, `group(1) + " " * (width - len(group(1)))` there).
-/
import MistuneProofs.C11Indent
namespace Mistune
open Mistune.Model Mistune.Model.Blk Mistune.Generated

/-! ### `expand_tab`: `_expand_tab_re.sub(r"\1" + "    ", text)` -/

/-- `expand_tab` on one line: a tab after at most three blanks at the start of the line becomes four blanks (the
blanks before it are kept: `\1`); nothing else changes -/
def expandTab4 (l : Str) : Str :=
  if l[spRun 3 l]? = some '\t' then l.take (spRun 3 l) ++ [' ', ' ', ' ', ' '] ++ l.drop (spRun 3 l + 1) else l

/-- the line is (0–3 blanks) ++ tab ++ … -/
def TabHead (l : Str) : Prop := ∃ sp rest, l = sp ++ '\t' :: rest ∧ (∀ ch ∈ sp, ch = ' ') ∧ sp.length ≤ 3

theorem expandTab4_tab (sp rest : Str) (hsp : ∀ ch ∈ sp, ch = ' ') (hlen : sp.length ≤ 3) :
    expandTab4 (sp ++ '\t' :: rest) = sp ++ [' ', ' ', ' ', ' '] ++ rest := by
  have hrun : spRun 3 (sp ++ '\t' :: rest) = sp.length :=
    spRun_run 3 sp _ hsp hlen (fun ch r h => by cases h; decide)
  unfold expandTab4
  rw [hrun, if_pos (by simp)]
  simp

theorem tabHead_of_getElem (l : Str) (htab : l[spRun 3 l]? = some '\t') : TabHead l := by
  obtain ⟨run, rest, h1, h2, h3, h4, _⟩ := spRun_spec 3 l
  refine ⟨run, rest.tail, ?_, h3, by omega⟩
  have : rest.head? = some '\t' := by
    rw [← h2] at htab
    rw [h1, List.getElem?_append_right (Nat.le_refl _), Nat.sub_self] at htab
    cases rest with
    | nil => simp at htab
    | cons ch r => simpa using htab
  cases rest with
  | nil => simp at this
  | cons ch r =>
    simp only [List.head?_cons, Option.some.injEq] at this
    rw [h1, this]; rfl

theorem expandTab4_other (l : Str) (h : ¬ TabHead l) : expandTab4 l = l := by
  unfold expandTab4
  split
  · rename_i htab
    exact absurd (tabHead_of_getElem l htab) h
  · rfl

/-- the two cases of `expandTab4`, as one statement -/
theorem expandTab4_spec (l : Str) :
    (∃ sp rest, l = sp ++ '\t' :: rest ∧ (∀ ch ∈ sp, ch = ' ') ∧ sp.length ≤ 3 ∧
      expandTab4 l = sp ++ [' ', ' ', ' ', ' '] ++ rest) ∨ (¬ TabHead l ∧ expandTab4 l = l) := by
  by_cases h : TabHead l
  · obtain ⟨sp, rest, h1, h2, h3⟩ := h
    exact Or.inl ⟨sp, rest, h1, h2, h3, by rw [h1]; exact expandTab4_tab sp rest h2 h3⟩
  · exact Or.inr ⟨h, expandTab4_other l h⟩

/-- the replacement of `expand_tab`: `r"\1" + "    "` -/
def tabRepl4 : Array Char → RxMatch → Str := fun a mt => (Py.groupStr a mt 1).getD [] ++ "    ".toList

def tabOut4 (l : Str) : Str := List.replicate (spRun 3 l) ' ' ++ [' ', ' ', ' ', ' ']

theorem expandTab4_lineSub : LineSub expandTabRxExpected tabRepl4 tabLen tabOut4 where
  len_le := tabLen_le
  hit := fun t q hq hb hpos => by
    have htab : (firstLine (t.drop q))[spRun 3 (t.drop q)]? = some '\t' := by
      unfold tabLen at hpos
      split at hpos
      · rename_i h; rwa [spRun_firstLine] at h
      · omega
    have hlen : tabLen (firstLine (t.drop q)) = spRun 3 (t.drop q) + 1 := by
      unfold tabLen
      rw [spRun_firstLine, if_pos htab]
    have htab' := firstLine_getElem? _ _ _ htab
    refine ⟨_, expandTab_matchAt_hit t q hq hb htab', rfl, by rw [hlen, Nat.add_assoc], ?_⟩
    have hsl : (t.drop q).take (spRun 3 (t.drop q)) = List.replicate (spRun 3 (t.drop q)) ' ' := take_spRun 3 _
    simp [tabRepl4, tabOut4, Py.groupStr, RxMatch.group, Caps.get, List.lookup, ctxOf_s, slice_toArray, hsl,
      spRun_firstLine]
  miss := (expandTab_lineSub 0).miss

theorem rwLine_tab4 : rwLine tabLen tabOut4 = expandTab4 := by
  funext l
  unfold rwLine expandTab4 tabLen tabOut4
  by_cases h : l[spRun 3 l]? = some '\t'
  · simp [h, take_spRun]
  · simp [h]

theorem reSub_expandTab4 (t : Str) : Py.reSub expandTabRxExpected tabRepl4 t = subLines expandTab4 t := by
  rw [lineSub expandTab4_lineSub t, rwLine_tab4]

/-- **`expand_tab(text)` rewrites every line separately**, for every configuration whose `_expand_tab_re` is the
expected term -/
theorem expandTab_eq_of_lookup (cfg : MdCfg)
    (h : cfg.named.lookup "mistune.util._expand_tab_re" = some expandTabRxExpected) (t : Str) :
    expandTab cfg t = subLines expandTab4 t := by
  unfold expandTab
  rw [rx_of_lookup cfg _ _ h]
  exact reSub_expandTab4 t

/-- **…in particular for every regenerated configuration** -/
theorem expandTab_eq (cfg : MdCfg) (hcfg : cfg.named = Generated.namedRx) (t : Str) :
    expandTab cfg t = subLines expandTab4 t :=
  expandTab_eq_of_lookup cfg (by rw [hcfg]; exact expandTabRx_lookup) t

theorem subLines_no_nl (f : Str → Str) (l : Str) (h : '\n' ∉ l) : subLines f l = f l := by
  unfold subLines
  rw [splitNl_no_nl l h]; rfl

/-- on a single line -/
theorem expandTab_line (cfg : MdCfg) (hcfg : cfg.named = Generated.namedRx) (l : Str) (h : '\n' ∉ l) :
    expandTab cfg l = expandTab4 l := by
  rw [expandTab_eq cfg hcfg, subLines_no_nl _ _ h]

/-! ### `startswith` and `replace(old, new, 1)` -/

theorem startsWith_iff (l p : Str) : Py.startsWith l p = true ↔ ∃ r, l = p ++ r := by
  induction p generalizing l with
  | nil => simp [Py.startsWith]
  | cons b p ih =>
    cases l with
    | nil => simp [Py.startsWith]
    | cons a s =>
      simp only [Py.startsWith, Bool.and_eq_true, beq_iff_eq, ih, List.cons_append, List.cons.injEq]
      constructor
      · rintro ⟨rfl, r, rfl⟩; exact ⟨r, rfl, rfl⟩
      · rintro ⟨r, rfl, rfl⟩; exact ⟨rfl, r, rfl⟩

theorem startsWith_append (p r : Str) : Py.startsWith (p ++ r) p = true := (startsWith_iff _ _).mpr ⟨r, rfl⟩

/-- a line that starts with `p` is `p` followed by the line without its first `len(p)` characters -/
theorem startsWith_split (l p : Str) (h : Py.startsWith l p = true) : l = p ++ l.drop p.length := by
  obtain ⟨r, rfl⟩ := (startsWith_iff l p).mp h
  simp

/-- `line.replace(p, new, 1)` when `line.startswith(p)`: the first occurrence is the prefix itself.  Also for `p = ""`:
Python's `"abc".replace("", new, 1)` is `new + "abc"` (the empty string occurs first at position 0), which is what the
model computes (`new ++ s`), and `drop 0` is the identity. -/
theorem replaceFirst_prefix_gen (line p new : Str) (h : Py.startsWith line p = true) :
    Py.replaceFirst p new line = new ++ line.drop p.length := by
  unfold Py.replaceFirst
  split
  · rename_i he
    have : p = [] := by simpa using he
    subst this; rfl
  · rename_i he
    cases line with
    | nil =>
      cases p with
      | nil => simp at he
      | cons b p => simp [Py.startsWith] at h
    | cons c r => rw [Py.replaceFirst.go, if_pos h]

/-- **the removal is anchored at the line start**: under `line.startswith(p)`, `line.replace(p, "", 1)` is the line
without its first `len(p)` characters — for every `p`, the empty one included (`"abc".replace("", "", 1) == "abc"`
in Python and in the model). -/
theorem replaceFirst_prefix (line p : Str) (h : Py.startsWith line p = true) :
    Py.replaceFirst p [] line = line.drop p.length := by
  rw [replaceFirst_prefix_gen line p [] h]; rfl

/-- what an unanchored `replace` does: without the `startswith` guard the first occurrence anywhere is removed -/
example : Py.replaceFirst "  ".toList [] "beta  gamma".toList = "betagamma".toList := by decide

example : Py.replaceFirst [] [] "abc".toList = "abc".toList := by decide

/-! ### `split("\n")` -/

/-- put a string in front of the first line -/
def prependHead (p : Str) : List Str → List Str
  | l :: ls => (p ++ l) :: ls
  | [] => [p]

theorem splitOn_go_nl (s : Str) : ∀ (cur : Str) (fuel : Nat), s.length < fuel →
    Py.splitOn.go ['\n'] s cur fuel = prependHead cur.reverse (splitNl s) := by
  induction s with
  | nil => intro cur fuel _; simp [Py.splitOn.go, splitNl, prependHead]
  | cons c r ih =>
    intro cur fuel hf
    cases fuel with
    | zero => simp at hf
    | succ fuel =>
      have hf' : r.length < fuel := by simpa using hf
      rw [Py.splitOn.go]
      by_cases hc : c = '\n'
      · subst hc
        have : Py.startsWith ('\n' :: r) ['\n'] = true := by simp [Py.startsWith]
        rw [if_pos this]
        simp only [List.length_cons, List.length_nil, Nat.zero_add, List.drop_succ_cons, List.drop_zero]
        rw [ih [] fuel hf']
        cases hs : splitNl r with
        | nil => exact absurd hs (splitNl_ne_nil r)
        | cons l ls => simp [splitNl, hs, prependHead]
      · have : ¬ Py.startsWith (c :: r) ['\n'] = true := by simp [Py.startsWith, hc]
        rw [if_neg this, ih (c :: cur) fuel hf']
        cases hs : splitNl r with
        | nil => exact absurd hs (splitNl_ne_nil r)
        | cons l ls => simp [splitNl, hc, hs, prependHead, consHead]

/-- **`src.split("\n")` of the model is `splitNl`** -/
theorem splitOn_nl (s : Str) : Py.splitOn ['\n'] s = splitNl s := by
  unfold Py.splitOn
  rw [splitOn_go_nl s [] _ (Nat.lt_succ_self _)]
  cases hs : splitNl s with
  | nil => exact absurd hs (splitNl_ne_nil s)
  | cons l ls => simp [prependHead]

/-! ### `_clean_list_item_text` -/

/-- one line of `_clean_list_item_text(src, w)` -/
def cleanLine (w : Nat) (l : Str) : Str :=
  if Py.startsWith l (List.replicate w ' ') then expandTab4 (l.drop w) else l

/-- **`_clean_list_item_text` rewrites every line separately**, for every configuration whose `_expand_tab_re` is the
expected term -/
theorem cleanListItemText_eq_of_lookup (cfg : MdCfg)
    (h : cfg.named.lookup "mistune.util._expand_tab_re" = some expandTabRxExpected) (src : Str) (w : Nat) :
    cleanListItemText cfg src w = Py.join ['\n'] ((Py.splitOn ['\n'] src).map (cleanLine w)) := by
  unfold cleanListItemText
  simp only [Py.rep]
  congr 1
  apply List.map_congr_left
  intro l hl
  rw [splitOn_nl] at hl
  have hnl := splitNl_mem_no_nl src l hl
  unfold cleanLine
  by_cases hs : Py.startsWith l (List.replicate w ' ') = true
  · simp only [hs, if_true]
    rw [replaceFirst_prefix l _ hs, List.length_replicate, expandTab_eq_of_lookup cfg h,
      subLines_no_nl _ _ (fun e => hnl (List.mem_of_mem_drop e))]
  · simp [hs]

/-- **…in particular for every regenerated configuration** -/
theorem cleanListItemText_eq (cfg : MdCfg) (hcfg : cfg.named = Generated.namedRx) (src : Str) (w : Nat) :
    cleanListItemText cfg src w = Py.join ['\n'] ((Py.splitOn ['\n'] src).map (cleanLine w)) :=
  cleanListItemText_eq_of_lookup cfg (by rw [hcfg]; exact expandTabRx_lookup) src w

/-- the same over `splitNl`, i.e. `subLines` -/
theorem cleanListItemText_eq_subLines (cfg : MdCfg) (hcfg : cfg.named = Generated.namedRx) (src : Str) (w : Nat) :
    cleanListItemText cfg src w = subLines (cleanLine w) src := by
  rw [cleanListItemText_eq cfg hcfg, splitOn_nl]; rfl

/-- every configuration the model is run with (`ofRuleCfg`) -/
theorem cleanListItemText_eq_ofRuleCfg (c : RuleCfg) (src : Str) (w : Nat) :
    cleanListItemText (ofRuleCfg c) src w = subLines (cleanLine w) src :=
  cleanListItemText_eq_subLines (ofRuleCfg c) rfl src w

/-! ### conservation: nothing but blanks and tabs is removed or inserted -/

/-- everything but the blank and the tab -/
abbrev notBlank : Char → Bool := fun c => c != ' ' && c != '\t'

theorem filter_replicate_sp (n : Nat) : (List.replicate n ' ').filter notBlank = [] := by
  induction n with
  | zero => rfl
  | succ n ih => rw [List.replicate_succ, List.filter_cons_of_neg (by decide), ih]

theorem filter_spaces (sp : Str) (h : ∀ ch ∈ sp, ch = ' ') : sp.filter notBlank = [] := by
  rw [List.filter_eq_nil_iff]
  intro ch hch
  rw [h ch hch]; decide

/-- `expand_tab` on a line only turns a tab into blanks -/
theorem expandTab4_conserve (l : Str) : (expandTab4 l).filter notBlank = l.filter notBlank := by
  rcases expandTab4_spec l with ⟨sp, rest, h1, _, _, h4⟩ | ⟨_, h⟩
  · rw [h4, h1, List.filter_append, List.filter_append, List.filter_append,
      List.filter_cons_of_neg (a := '\t') (by decide), show List.filter notBlank [' ', ' ', ' ', ' '] = [] from filter_replicate_sp 4, List.append_nil]
  · rw [h]

/-- **(a), one line**: with blanks and tabs removed, the cleaned line is the line — no other character is lost,
duplicated or reordered -/
theorem cleanLine_conserve (w : Nat) (l : Str) : (cleanLine w l).filter notBlank = l.filter notBlank := by
  unfold cleanLine
  by_cases hs : Py.startsWith l (List.replicate w ' ') = true
  · rw [if_pos hs, expandTab4_conserve]
    have := startsWith_split l _ hs
    rw [List.length_replicate] at this
    conv => rhs; rw [this]
    rw [List.filter_append, filter_replicate_sp, List.nil_append]
  · rw [if_neg hs]

/-- the same, with the predicate written out -/
theorem cleanLine_conserve' (w : Nat) (l : Str) :
    (cleanLine w l).filter (fun c => c != ' ' && c != '\t') = l.filter (fun c => c != ' ' && c != '\t') :=
  cleanLine_conserve w l

/-- stronger: the cleaned line and the line differ only in a prefix made of blanks and tabs (on the line) resp. of
blanks (on the cleaned line); the rest of the line — in particular every interior blank — is the same suffix -/
theorem cleanLine_suffix (w : Nat) (l : Str) :
    ∃ pre pre' rest, l = pre ++ rest ∧ cleanLine w l = pre' ++ rest ∧
      (∀ ch ∈ pre, ch = ' ' ∨ ch = '\t') ∧ (∀ ch ∈ pre', ch = ' ') := by
  unfold cleanLine
  by_cases hs : Py.startsWith l (List.replicate w ' ') = true
  · rw [if_pos hs]
    have hl := startsWith_split l _ hs
    rw [List.length_replicate] at hl
    rcases expandTab4_spec (l.drop w) with ⟨sp, rest, h1, h2, _, h4⟩ | ⟨_, h⟩
    · refine ⟨List.replicate w ' ' ++ sp ++ ['\t'], sp ++ [' ', ' ', ' ', ' '], rest, ?_, ?_, ?_, ?_⟩
      · conv => lhs; rw [hl, h1]
        simp
      · rw [h4]
      · intro ch hch
        simp only [List.mem_append, List.mem_singleton] at hch
        rcases hch with (hch | hch) | hch
        · exact Or.inl (List.eq_of_mem_replicate hch)
        · exact Or.inl (h2 ch hch)
        · exact Or.inr hch
      · intro ch hch
        rcases List.mem_append.mp hch with hch | hch
        · exact h2 ch hch
        · simp at hch; exact hch
    · refine ⟨List.replicate w ' ', [], l.drop w, hl, by rw [h]; rfl, ?_, by simp⟩
      intro ch hch
      exact Or.inl (List.eq_of_mem_replicate hch)
  · rw [if_neg hs]
    exact ⟨[], [], l, rfl, rfl, by simp, by simp⟩

/-! ### the whole text: the line structure is preserved -/

theorem expandTab4_no_nl (l : Str) (h : '\n' ∉ l) : '\n' ∉ expandTab4 l := by
  unfold expandTab4
  split
  · intro e
    rcases List.mem_append.mp e with e | e
    · rcases List.mem_append.mp e with e | e
      · exact h (List.mem_of_mem_take e)
      · simp at e
    · exact h (List.mem_of_mem_drop e)
  · exact h

theorem cleanLine_no_nl (w : Nat) (l : Str) (h : '\n' ∉ l) : '\n' ∉ cleanLine w l := by
  unfold cleanLine
  split
  · exact expandTab4_no_nl _ (fun e => h (List.mem_of_mem_drop e))
  · exact h

theorem splitNl_subLines (f : Str → Str) (hf : ∀ l, '\n' ∉ l → '\n' ∉ f l) (t : Str) :
    splitNl (subLines f t) = (splitNl t).map f := by
  unfold subLines
  apply splitNl_join _ (by simpa using splitNl_ne_nil t)
  intro l hl
  obtain ⟨l0, hl0, rfl⟩ := List.mem_map.mp hl
  exact hf l0 (splitNl_mem_no_nl t l0 hl0)

/-- **the lines of the result are the cleaned lines of the source** (`split("\n")` of the result, not only the list
that was joined: no line is created or merged) -/
theorem clean_lines (cfg : MdCfg) (hcfg : cfg.named = Generated.namedRx) (src : Str) (w : Nat) :
    splitNl (cleanListItemText cfg src w) = (splitNl src).map (cleanLine w) := by
  rw [cleanListItemText_eq_subLines cfg hcfg, splitNl_subLines _ (cleanLine_no_nl w)]

/-- same number of lines -/
theorem clean_line_count (cfg : MdCfg) (hcfg : cfg.named = Generated.namedRx) (src : Str) (w : Nat) :
    (splitNl (cleanListItemText cfg src w)).length = (splitNl src).length := by
  rw [clean_lines cfg hcfg, List.length_map]

/-- **(a), the text, line by line**: the lines of the result with blanks and tabs removed are the lines of the source
with blanks and tabs removed -/
theorem clean_conserve_lines (cfg : MdCfg) (hcfg : cfg.named = Generated.namedRx) (src : Str) (w : Nat) :
    (splitNl (cleanListItemText cfg src w)).map (·.filter notBlank) = (splitNl src).map (·.filter notBlank) := by
  rw [clean_lines cfg hcfg, List.map_map]
  apply List.map_congr_left
  intro l _
  exact cleanLine_conserve w l

theorem filter_join_nl (ls : List Str) :
    (Py.join ['\n'] ls).filter notBlank = Py.join ['\n'] (ls.map (·.filter notBlank)) := by
  induction ls with
  | nil => rfl
  | cons a r ih =>
    cases r with
    | nil => rfl
    | cons b r =>
      rw [join_cons_cons, List.filter_append, List.filter_append, ih]
      rfl

/-- **(a), the text as a whole** (the newline is neither a blank nor a tab, so it is kept by the filter) -/
theorem clean_conserve (cfg : MdCfg) (hcfg : cfg.named = Generated.namedRx) (src : Str) (w : Nat) :
    (cleanListItemText cfg src w).filter notBlank = src.filter notBlank := by
  rw [← join_splitNl (cleanListItemText cfg src w), filter_join_nl, clean_conserve_lines cfg hcfg, ← filter_join_nl,
    join_splitNl]

/-! ### (b) verbatim -/

/-- a line indented by `w` blanks: the blanks are removed, the rest goes through `expand_tab` -/
theorem cleanLine_indent (w : Nat) (l : Str) : cleanLine w (List.replicate w ' ' ++ l) = expandTab4 l := by
  unfold cleanLine
  rw [if_pos (startsWith_append _ _)]
  congr 1
  simp

/-- …and comes out as it is unless it starts with (0–3 blanks, tab) -/
theorem cleanLine_indented (w : Nat) (l : Str) (h : ¬ TabHead l) : cleanLine w (List.replicate w ' ' ++ l) = l := by
  rw [cleanLine_indent, expandTab4_other l h]

/-- a line that does not start with `w` blanks (lazy continuation line, blank line shorter than `w`) is copied -/
theorem cleanLine_lazy (w : Nat) (l : Str) (h : Py.startsWith l (List.replicate w ' ') = false) : cleanLine w l = l := by
  unfold cleanLine
  rw [if_neg (by simp [h])]

/-- **`clean_verbatim`.**  Every line of `src` is `p.1 ++ p.2` where either `p.1` is the `w` blanks and `p.2` does not
start with (0–3 blanks, tab), or `p.1` is empty and `p.2` does not start with `w` blanks.  Then the result is the
`p.2`s joined by newlines: exactly the `w` leading blanks of the indented lines are removed, everything else —
interior blanks included — is untouched. -/
theorem clean_verbatim (cfg : MdCfg) (hcfg : cfg.named = Generated.namedRx) (src : Str) (w : Nat)
    (segs : List (Str × Str)) (hlines : splitNl src = segs.map (fun p => p.1 ++ p.2))
    (hseg : ∀ p ∈ segs, (p.1 = List.replicate w ' ' ∧ ¬ TabHead p.2) ∨
      (p.1 = [] ∧ Py.startsWith p.2 (List.replicate w ' ') = false)) :
    cleanListItemText cfg src w = Py.join ['\n'] (segs.map (·.2)) := by
  rw [cleanListItemText_eq_subLines cfg hcfg]
  unfold subLines
  rw [hlines, List.map_map]
  congr 1
  apply List.map_congr_left
  intro p hp
  rcases hseg p hp with ⟨h1, h2⟩ | ⟨h1, h2⟩
  · simp only [Function.comp, h1]; exact cleanLine_indented w p.2 h2
  · simp only [Function.comp, h1, List.nil_append]; exact cleanLine_lazy w p.2 h2

/-- the same with the text given by its lines -/
theorem clean_verbatim_join (cfg : MdCfg) (hcfg : cfg.named = Generated.namedRx) (w : Nat) (segs : List (Str × Str))
    (hne : segs ≠ [])
    (hseg : ∀ p ∈ segs, ((p.1 = List.replicate w ' ' ∧ ¬ TabHead p.2) ∨
      (p.1 = [] ∧ Py.startsWith p.2 (List.replicate w ' ') = false)) ∧ '\n' ∉ p.2) :
    cleanListItemText cfg (Py.join ['\n'] (segs.map (fun p => p.1 ++ p.2))) w = Py.join ['\n'] (segs.map (·.2)) := by
  apply clean_verbatim cfg hcfg _ w segs _ (fun p hp => (hseg p hp).1)
  apply splitNl_join _ (by simpa using hne)
  intro l hl
  obtain ⟨p, hp, rfl⟩ := List.mem_map.mp hl
  intro e
  rcases List.mem_append.mp e with e | e
  · rcases (hseg p hp).1 with ⟨h, _⟩ | ⟨h, _⟩
    · rw [h] at e; exact absurd (List.eq_of_mem_replicate e) (by decide)
    · rw [h] at e; simp at e
  · exact (hseg p hp).2 e

/-- a decidable test for `TabHead` (for the examples) -/
theorem tabHead_iff (l : Str) : TabHead l ↔ l[spRun 3 l]? = some '\t' := by
  constructor
  · rintro ⟨sp, rest, rfl, h2, h3⟩
    rw [spRun_run 3 sp _ h2 h3 (fun ch r h => by cases h; decide)]
    simp
  · exact tabHead_of_getElem l

instance (l : Str) : Decidable (TabHead l) := decidable_of_iff _ (tabHead_iff l).symm

/-! ### instances -/

section Examples

/-- `split("\n")`: a trailing newline gives a last empty line, an empty text one empty line -/
example : Py.splitOn ['\n'] "a\n\nb\n".toList = ["a".toList, [], "b".toList, []] := by decide
example : Py.splitOn ['\n'] [] = [[]] := by decide

/-- `expand_tab` on the engine and the line function -/
example : expandTab exCfg "  \tx\n\ty\n    \tz\na\tb".toList = "      x\n    y\n    \tz\na\tb".toList := by decide
example : subLines expandTab4 "  \tx\n\ty\n    \tz\na\tb".toList = "      x\n    y\n    \tz\na\tb".toList := by decide

/-- **anchoring**: a lazy line is copied, its interior double blank included (an unanchored
`replace("  ", "", 1)` would give `"betagamma"`, see above) -/
example : cleanLine 2 "beta  gamma".toList = "beta  gamma".toList := by decide

/-- an indented line: only the two leading blanks go -/
example : cleanLine 2 "  beta  gamma".toList = "beta  gamma".toList := by decide

/-- more blanks than `w`: exactly `w` are removed -/
example : cleanLine 2 "     x".toList = "   x".toList := by decide

/-- fewer blanks than `w`: nothing is removed -/
example : cleanLine 3 "  x".toList = "  x".toList := by decide

/-- a tab right after the indent, or after at most three further blanks, becomes four blanks (whatever the column) -/
example : cleanLine 2 "  \tx".toList = "    x".toList := by decide
example : cleanLine 2 "   \tx".toList = "     x".toList := by decide
example : cleanLine 2 "     \tx\ty".toList = "       x\ty".toList := by decide

/-- after four further blanks the tab stays; a tab inside the `w` columns is not an indent -/
example : cleanLine 2 "      \tx".toList = "    \tx".toList := by decide
example : cleanLine 2 " \tx".toList = " \tx".toList := by decide

/-- `w = 0`: every line "starts with" the empty string; `replace("", "", 1)` is the identity; only `expand_tab` acts -/
example : cleanLine 0 "\tx  y".toList = "    x  y".toList := by decide
example : cleanLine 0 "x  y".toList = "x  y".toList := by decide

/-- the model (regex on the engine), evaluated by the kernel: indented line, empty line, indented line with a tab, lazy
line with interior blanks, line with three blanks -/
example : cleanListItemText exCfg "  a\n\n  \tb\nlazy  c\n   d  e\n".toList 2 =
    "a\n\n    b\nlazy  c\n d  e\n".toList := by decide +kernel

example : cleanListItemText exCfg "  a\n\n  \tb\nlazy  c\n   d  e\n".toList 2 =
    subLines (cleanLine 2) "  a\n\n  \tb\nlazy  c\n   d  e\n".toList :=
  cleanListItemText_eq_subLines exCfg rfl _ _

/-- `clean_verbatim` on a text without tab heads: indented lines lose their two blanks, the others are copied -/
example : cleanListItemText exCfg "  a  b\n\n lazy  c\n    d\te\n".toList 2 = "a  b\n\n lazy  c\n  d\te\n".toList :=
  clean_verbatim exCfg rfl _ 2
    [("  ".toList, "a  b".toList), ([], []), ([], " lazy  c".toList), ("  ".toList, "  d\te".toList), ([], [])]
    (by decide) (by decide)

/-- outside the hypothesis of `clean_verbatim` (tab head after the indent) the line is not verbatim, but (a) holds -/
example : cleanListItemText exCfg "  \tb".toList 2 = "    b".toList ∧
    ("    b".toList).filter notBlank = ("  \tb".toList).filter notBlank := by decide

end Examples


end Mistune
