/-
C16 — line-ending style does not matter.  `Markdown.parse` starts by `norm`; everything after it is a
function of `norm s` only (tied by the correspondence: `state.src` of the real parser equals `norm s`).
-/
import Mistune.Util
namespace Mistune

/-- Replace every line ending (`\r\n`, lone `\r`, lone `\n`; `\r\n` read greedily, as every consumer does)
by the ending `e`. -/
def endsTo (e : Str) : Str → Str
  | '\r' :: '\n' :: r => e ++ endsTo e r
  | '\r' :: r => e ++ endsTo e r
  | '\n' :: r => e ++ endsTo e r
  | c :: r => c :: endsTo e r
  | [] => []

/-- the two `replace` statements -/
def crNorm (s : Str) : Str := replace1 '\r' ['\n'] (replCRLF s)

def addNl (s : Str) : Str := if s.getLast? = some '\n' then s else s ++ ['\n']

theorem norm_eq (s : Str) : norm s = addNl (crNorm s) := rfl

/-- Induction over a string read as a sequence of line-ending tokens and ordinary characters. -/
theorem ends_induct (P : Str → Prop) (hnil : P [])
    (hcrlf : ∀ r, P r → P ('\r' :: '\n' :: r))
    (hcr : ∀ r, (∀ r', r ≠ '\n' :: r') → P r → P ('\r' :: r))
    (hlf : ∀ r, P r → P ('\n' :: r))
    (hother : ∀ c r, c ≠ '\r' → c ≠ '\n' → P r → P (c :: r)) : ∀ s, P s := by
  intro s
  fun_induction endsTo [] s with
  | case1 r ih => exact hcrlf r ih
  | case2 r h ih => exact hcr r (fun r' e => h r' e) ih
  | case3 r ih => exact hlf r ih
  | case4 c r h1 h2 h3 ih => exact hother c r h2 h3 ih
  | case5 => exact hnil

theorem endsTo_crlf (e r) : endsTo e ('\r' :: '\n' :: r) = e ++ endsTo e r := by simp [endsTo]
theorem endsTo_lf (e r) : endsTo e ('\n' :: r) = e ++ endsTo e r := by simp [endsTo]
theorem endsTo_cr (e r) (h : ∀ r', r ≠ '\n' :: r') : endsTo e ('\r' :: r) = e ++ endsTo e r := by
  rw [endsTo]; intro r' e; exact h r' e
theorem endsTo_other (e c r) (h1 : c ≠ '\r') (h2 : c ≠ '\n') : endsTo e (c :: r) = c :: endsTo e r := by
  rw [endsTo]
  · intro _ e; exact absurd e h1
  · intro e; exact absurd e h1
  · intro e; exact absurd e h2
theorem replCRLF_crlf (r) : replCRLF ('\r' :: '\n' :: r) = '\n' :: replCRLF r := by simp [replCRLF]
theorem replCRLF_cr (r) (h : ∀ r', r ≠ '\n' :: r') : replCRLF ('\r' :: r) = '\r' :: replCRLF r := by
  rw [replCRLF]; intro r' _ e; exact h r' e
theorem replCRLF_other (c r) (h1 : c ≠ '\r') : replCRLF (c :: r) = c :: replCRLF r := by
  rw [replCRLF]; intro r' e _; exact h1 e
theorem replace1_cons' (c : Char) (r : Str) (x : Char) (s : Str) :
    replace1 c r (x :: s) = (if x = c then r else [x]) ++ replace1 c r s := by
  simp [replace1]

/-- The two `replace` calls together turn every line ending into `\n`. -/
theorem crNorm_eq_endsTo (s : Str) : crNorm s = endsTo ['\n'] s := by
  unfold crNorm
  induction s using ends_induct with
  | hnil => simp [replCRLF, replace1, endsTo]
  | hcrlf r ih => rw [replCRLF_crlf, endsTo_crlf, replace1_cons', ih]; simp
  | hcr r h ih => rw [replCRLF_cr r h, endsTo_cr _ r h, replace1_cons', ih]; simp
  | hlf r ih => rw [replCRLF_other _ _ (by decide), endsTo_lf, replace1_cons', ih]; simp
  | hother c r h1 h2 ih => rw [replCRLF_other _ _ h1, endsTo_other _ _ _ h1 h2, replace1_cons', ih]; simp [h1]

theorem endsTo_lf_crlf (s : Str) : endsTo ['\n'] (endsTo ['\r', '\n'] s) = endsTo ['\n'] s := by
  induction s using ends_induct with
  | hnil => simp [endsTo]
  | hcrlf r ih => simp [endsTo_crlf, ih]
  | hcr r h ih => rw [endsTo_cr _ r h, endsTo_cr _ r h]; simp [endsTo_crlf, ih]
  | hlf r ih => rw [endsTo_lf, endsTo_lf]; simp [endsTo_crlf, ih]
  | hother c r h1 h2 ih => rw [endsTo_other _ _ _ h1 h2, endsTo_other _ _ _ h1 h2, endsTo_other _ _ _ h1 h2, ih]

theorem endsTo_cr_shape (s : Str) : ∀ r', endsTo ['\r'] s ≠ '\n' :: r' := by
  induction s using ends_induct with
  | hnil => simp [endsTo]
  | hcrlf r ih => simp [endsTo_crlf]
  | hcr r h ih => rw [endsTo_cr _ r h]; simp
  | hlf r ih => rw [endsTo_lf]; simp
  | hother c r h1 h2 ih => rw [endsTo_other _ _ _ h1 h2]; simp [h2]

theorem endsTo_lf_cr (s : Str) : endsTo ['\n'] (endsTo ['\r'] s) = endsTo ['\n'] s := by
  induction s using ends_induct with
  | hnil => simp [endsTo]
  | hcrlf r ih =>
    rw [endsTo_crlf, endsTo_crlf]; simp only [List.cons_append, List.nil_append]
    rw [endsTo_cr _ _ (endsTo_cr_shape r), ih]; simp
  | hcr r h ih =>
    rw [endsTo_cr _ r h, endsTo_cr _ r h]; simp only [List.cons_append, List.nil_append]
    rw [endsTo_cr _ _ (endsTo_cr_shape r), ih]; simp
  | hlf r ih =>
    rw [endsTo_lf, endsTo_lf]; simp only [List.cons_append, List.nil_append]
    rw [endsTo_cr _ _ (endsTo_cr_shape r), ih]; simp
  | hother c r h1 h2 ih => rw [endsTo_other _ _ _ h1 h2, endsTo_other _ _ _ h1 h2, endsTo_other _ _ _ h1 h2, ih]

theorem endsTo_lf_lf (s : Str) : endsTo ['\n'] (endsTo ['\n'] s) = endsTo ['\n'] s := by
  induction s using ends_induct with
  | hnil => simp [endsTo]
  | hcrlf r ih => rw [endsTo_crlf]; simp [endsTo_lf, ih]
  | hcr r h ih => rw [endsTo_cr _ r h]; simp [endsTo_lf, ih]
  | hlf r ih => rw [endsTo_lf]; simp [endsTo_lf, ih]
  | hother c r h1 h2 ih => rw [endsTo_other _ _ _ h1 h2, endsTo_other _ _ _ h1 h2, ih]

/-- **C16 (CRLF).** Rewriting every line ending of any input as CRLF does not change the normalised text. -/
theorem norm_crlf (s : Str) : norm (endsTo ['\r', '\n'] s) = norm s := by
  simp only [norm_eq, crNorm_eq_endsTo, endsTo_lf_crlf]

/-- **C16 (lone CR).** Rewriting every line ending as a lone CR does not change the normalised text. -/
theorem norm_cr (s : Str) : norm (endsTo ['\r'] s) = norm s := by
  simp only [norm_eq, crNorm_eq_endsTo, endsTo_lf_cr]

/-- **C16 (LF).** …and rewriting them as LF is what normalisation does; `norm` is idempotent. -/
theorem norm_lf (s : Str) : norm (endsTo ['\n'] s) = norm s := by
  simp only [norm_eq, crNorm_eq_endsTo, endsTo_lf_lf]

/-- **C16 (mixed).** Any per-ending choice among LF / CRLF / CR gives the same normal form, as long as the
rewritten text is read back as the same sequence of endings (stated through `endsTo`: two texts with the
same LF-form have the same normal form). -/
theorem norm_of_same_lf_form (s t : Str) (h : endsTo ['\n'] s = endsTo ['\n'] t) : norm s = norm t := by
  simp only [norm_eq, crNorm_eq_endsTo, h]

theorem norm_ends_nl (s : Str) : (norm s).getLast? = some '\n' := by
  rw [norm_eq]; unfold addNl; split
  · assumption
  · simp

theorem getLast?_cons_ne_nil (c : Char) (r : Str) (h : r ≠ []) : (c :: r).getLast? = r.getLast? := by
  obtain ⟨a, b, e⟩ := List.exists_cons_of_ne_nil h
  subst e; simp [List.getLast?_cons_cons]

theorem endsTo_ne_nil (e s : Str) (he : e ≠ []) (hs : s ≠ []) : endsTo e s ≠ [] := by
  induction s using ends_induct with
  | hnil => exact absurd rfl hs
  | hcrlf r _ => rw [endsTo_crlf]; simp [he]
  | hcr r h _ => rw [endsTo_cr _ r h]; simp [he]
  | hlf r _ => rw [endsTo_lf]; simp [he]
  | hother c r h1 h2 _ => rw [endsTo_other _ _ _ h1 h2]; simp

theorem addNl_append (p t : Str) (ht : t ≠ []) : addNl (p ++ t) = p ++ addNl t := by
  unfold addNl
  rw [List.getLast?_append]
  obtain ⟨a, b, e⟩ := List.exists_cons_of_ne_nil ht
  cases hl : t.getLast? with
  | none => subst e; simp at hl
  | some z => simp only [Option.some_or]; split <;> simp_all

theorem endsTo_lf_append_nl (s : Str) (h : s.getLast? ≠ some '\n') :
    endsTo ['\n'] (s ++ ['\n']) = addNl (endsTo ['\n'] s) := by
  induction s using ends_induct with
  | hnil => simp [endsTo, addNl]
  | hcrlf r ih =>
    by_cases hr : r = []
    · subst hr; simp at h
    · rw [getLast?_cons_ne_nil _ _ (by simp), getLast?_cons_ne_nil _ _ hr] at h
      have ih := ih h
      simp only [List.cons_append, endsTo_crlf, ih]
      exact (addNl_append ['\n'] _ (endsTo_ne_nil ['\n'] _ (by simp) hr)).symm
  | hcr r h' ih =>
    by_cases hr : r = []
    · subst hr; simp [endsTo_crlf, endsTo, addNl]
    · rw [getLast?_cons_ne_nil _ _ hr] at h
      have ih := ih h
      have h'' : ∀ r', r ++ ['\n'] ≠ '\n' :: r' := by
        intro r' e
        obtain ⟨a, b, e'⟩ := List.exists_cons_of_ne_nil hr
        subst e'; simp at e; exact h' b (by rw [e.1])
      simp only [List.cons_append]
      rw [endsTo_cr _ _ h'', endsTo_cr _ _ h', ih]
      exact (addNl_append ['\n'] _ (endsTo_ne_nil ['\n'] _ (by simp) hr)).symm
  | hlf r ih =>
    by_cases hr : r = []
    · subst hr; simp at h
    · rw [getLast?_cons_ne_nil _ _ hr] at h
      have ih := ih h
      simp only [List.cons_append, endsTo_lf, ih]
      exact (addNl_append ['\n'] _ (endsTo_ne_nil ['\n'] _ (by simp) hr)).symm
  | hother c r h1 h2 ih =>
    by_cases hr : r = []
    · subst hr
      simp [endsTo_other _ _ _ h1 h2, endsTo_lf, endsTo, addNl, h2]
    · rw [getLast?_cons_ne_nil _ _ hr] at h
      have ih := ih h
      simp only [List.cons_append]
      rw [endsTo_other _ _ _ h1 h2, endsTo_other _ _ _ h1 h2, ih]
      exact (addNl_append [c] _ (endsTo_ne_nil _ _ (by simp) hr)).symm

theorem addNl_idem (s : Str) : addNl (addNl s) = addNl s := by
  unfold addNl; split
  · simp [*]
  · simp

/-- **C16 (missing final newline).** Supplying the final newline an input lacks changes nothing. -/
theorem norm_append_nl (s : Str) (h : s.getLast? ≠ some '\n') : norm (s ++ ['\n']) = norm s := by
  simp only [norm_eq, crNorm_eq_endsTo]
  rw [endsTo_lf_append_nl s h, addNl_idem]

/-- **C16 (empty / None).** `Markdown.__call__` maps `None` to `"\n"`, which is the normal form of `""`. -/
theorem norm_empty : norm [] = ['\n'] := by decide

theorem norm_none_eq_empty : norm ['\n'] = norm [] := by decide

end Mistune
