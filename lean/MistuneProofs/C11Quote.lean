/-
C11 / C03 / C04 / C13 (block quotes): the removal of the quote prefix is verbatim.

`extract_block_quote` applies three substitutions to a run of marked lines (`Model.Blk.cleanQuote`):
`_BLOCK_QUOTE_LEADING.sub("")` (`^ *>`, re.M), `expand_leading_tab(…, 3)` (`^( {0,3})\t`, re.M) and
`_BLOCK_QUOTE_TRIM.sub("")` (`^ ?`, re.M).  All three are line-head patterns.

(1) expected terms and kernel-decided `…_lookup` obligations for the three regexes and for the block rule `block_quote`;
(2) `cleanQuote_eq`: for every input, `cleanQuote` is the per-line function `quoteLine` applied to every line;
(3) `cleanQuote_verbatim` (`> l`), `cleanQuote_verbatim_tight` (`>l`), `cleanQuote_verbatim_marked` (mixed): the content
    lines come out unchanged; the tab hypothesis is necessary (`> \tx`);
(4) `_STRICT_BLOCK_QUOTE` (`( {0,3}>[^\n]*(?:\n|$))+`) evaluated exactly on the engine: `strictQuote_matchAt` (the greedy `+`
    takes every marked line and stops at the first line without marker), `strictQuote_matchAt_open` (last line
    unterminated at the end of the subject), `strictQuote_matchAt_isSome_iff` (a match exists iff the text starts with
    (0–3 blanks) `>`);
(5) the handler: `extractBlockQuote_marker` (`require_marker` branch), `extractBlockQuote_lazy_eos / _blank / _break` (the
    loop, on a canonical quote), their `_verbatim_` forms (the child text is exactly the de-prefixed lines),
    `parseBlockQuote_of`, `blockQuote_match` (what the match of the block rule provides), and the composition with
    `fenced_closed_verbatim`: `quoted_fenced_verbatim`.
-/
import MistuneProofs.C03ListClean
namespace Mistune
open Mistune.Model Mistune.Model.Blk Mistune.Generated

/- generic helper lemmas of this file live in `Mistune.QuoteAux` (to keep the flat `Mistune` namespace free of
generic names) -/
namespace QuoteAux
end QuoteAux
open QuoteAux

/-! ### (1) the three regexes, as expected; kernel-decided against the regenerated table -/

/-- `re.compile(r"^ *>", flags=re.M)` -/
def quoteLeadingRxExpected : Rx :=
  .seq .bol (.seq (.rep (.cls false [.chr 32]) 0 none true) (.cls false [.chr 62]))

/-- `re.compile(r"^ ?", flags=re.M)`: the same term as `^ {0,1}` -/
def quoteTrimRxExpected : Rx := trimRx 1

/-- one marked line: `( {0,3}>[^\n]*(?:\n|$))` -/
def strictLineRx : Rx :=
  .grp 1 (.seq (.rep (.cls false [.chr 32]) 0 (some 3) true) (.seq (.cls false [.chr 62])
    (.seq (.rep (.cls true [.chr 10]) 0 none true) (.alt (.cls false [.chr 10]) .eos))))

/-- `re.compile(r"( {0,3}>[^\n]*(?:\n|$))+")` -/
def strictQuoteRxExpected : Rx := .rep strictLineRx 1 none true

/-- **Obligation:** the regenerated `mistune.block_parser._BLOCK_QUOTE_LEADING` is the expected term. -/
theorem quoteLeadingRx_lookup :
    namedRx.lookup "mistune.block_parser._BLOCK_QUOTE_LEADING" = some quoteLeadingRxExpected := by
  decide +kernel

/-- **Obligation:** the regenerated `mistune.block_parser._BLOCK_QUOTE_TRIM` is the expected term. -/
theorem quoteTrimRx_lookup :
    namedRx.lookup "mistune.block_parser._BLOCK_QUOTE_TRIM" = some quoteTrimRxExpected := by
  decide +kernel

/-- **Obligation:** the regenerated `mistune.block_parser._STRICT_BLOCK_QUOTE` is the expected term. -/
theorem strictQuoteRx_lookup :
    namedRx.lookup "mistune.block_parser._STRICT_BLOCK_QUOTE" = some strictQuoteRxExpected := by
  decide +kernel

/-! ### `^ *>`: a line-head pattern -/

namespace QuoteAux
/-- number of leading blanks -/
def blanks (l : Str) : Nat := (l.takeWhile (· == ' ')).length
end QuoteAux

/-- length of the match of `^ *>` at the start of line `l` (`0`: no match): all the leading blanks and the `>` -/
def markLen (l : Str) : Nat := if l[blanks l]? = some '>' then blanks l + 1 else 0

/-- `_BLOCK_QUOTE_LEADING.sub("", line)`: a line of the shape blanks* `>` … loses the blanks and the `>` -/
def dropMarker (l : Str) : Str := if l[blanks l]? = some '>' then l.drop (blanks l + 1) else l

namespace QuoteAux
theorem blanks_cons_sp (r : Str) : blanks (' ' :: r) = blanks r + 1 := by simp [blanks]
end QuoteAux

namespace QuoteAux
theorem blanks_cons_ne (ch : Char) (r : Str) (h : ch ≠ ' ') : blanks (ch :: r) = 0 := by simp [blanks, h]
end QuoteAux

namespace QuoteAux
theorem blanks_firstLine (b : Str) : blanks (firstLine b) = blanks b := by
  induction b with
  | nil => rfl
  | cons ch r ih =>
    by_cases hnl : ch = '\n'
    · subst hnl; simp [firstLine, blanks]
    · rw [firstLine_cons _ _ hnl]
      by_cases hsp : ch = ' '
      · subst hsp; rw [blanks_cons_sp, blanks_cons_sp, ih]
      · rw [blanks_cons_ne _ _ hsp, blanks_cons_ne _ _ hsp]
end QuoteAux

namespace QuoteAux
/-- the leading blanks, and what follows -/
theorem blanks_spec (b : Str) :
    ∃ run rest, b = run ++ rest ∧ run.length = blanks b ∧ (∀ ch ∈ run, ch = ' ') ∧
      (rest = [] ∨ ∃ ch r', rest = ch :: r' ∧ ch ≠ ' ') := by
  refine ⟨b.takeWhile (· == ' '), b.dropWhile (· == ' '), (List.takeWhile_append_dropWhile).symm, rfl, ?_, ?_⟩
  · intro ch hch; simpa using mem_takeWhile_pos hch
  · cases hd : b.dropWhile (· == ' ') with
    | nil => exact Or.inl rfl
    | cons ch r' =>
      right
      refine ⟨ch, r', rfl, ?_⟩
      have := head?_dropWhile_ne (· == ' ') b ch (by rw [hd]; rfl)
      simpa using this
end QuoteAux

namespace QuoteAux
theorem blanks_run (sp rest : Str) (hsp : ∀ ch ∈ sp, ch = ' ') (hrest : ∀ ch r, rest = ch :: r → ch ≠ ' ') :
    blanks (sp ++ rest) = sp.length := by
  unfold blanks
  rw [List.takeWhile_append_of_pos (fun ch hch => by simp [hsp ch hch]),
    takeWhile_nil_of_head (fun ch r h => by simpa using hrest ch r h), List.append_nil]
end QuoteAux

theorem markLen_le (l : Str) : markLen l ≤ l.length := by
  unfold markLen
  split
  · rename_i h
    rcases Nat.lt_or_ge (blanks l) l.length with h' | h'
    · omega
    · rw [List.getElem?_eq_none h'] at h; cases h
  · omega

theorem quoteLeading_matchAt_hit (t : Str) (q : Nat) (hq : q ≤ t.length) (hb : bolAt t q)
    (hgt : (t.drop q)[blanks (t.drop q)]? = some '>') :
    quoteLeadingRxExpected.matchAt (Py.ctxOf t) q =
      some { start := q, stop := q + blanks (t.drop q) + 1, caps := [] } := by
  unfold Rx.matchAt quoteLeadingRxExpected
  rw [m_seq, m_bol, if_pos hb, m_seq]
  obtain ⟨run, rest, h1, h2, h3, h5⟩ := blanks_spec (t.drop q)
  have ht : t.take q ++ run ++ rest = t := by rw [List.append_assoc, ← h1, List.take_append_drop]
  have hlen : (t.take q).length = q := by simp [hq]
  have hhead : rest.head? = some '>' := by
    rw [← h2, h1, List.getElem?_append_right (Nat.le_refl _), Nat.sub_self] at hgt
    cases rest with
    | nil => simp at hgt
    | cons ch r => simpa using hgt
  obtain ⟨rest', rfl⟩ : ∃ rest', rest = '>' :: rest' := by
    cases rest with
    | nil => simp at hhead
    | cons ch r => simp only [List.head?_cons, Option.some.injEq] at hhead; exact ⟨r, by rw [hhead]⟩
  have := rep_greedy_list (t.take q) run ('>' :: rest') [.chr 32] (· == ' ')
    (fun ch => clsTest_chr1 pyCats ' ' ch) 0 none
    (fun j c' => (Rx.cls false [.chr 62]).m (Py.ctxOf (t.take q ++ run ++ '>' :: rest')) j c'
      (fun j c => some ({ start := q, stop := j, caps := c } : RxMatch))) []
    { start := q, stop := q + blanks (t.drop q) + 1, caps := [] }
    (fun ch hch => by simp [h3 ch hch])
    (Or.inr (Or.inr ⟨'>', rest', rfl, by decide⟩))
    (by intro m hm; cases hm) (by omega)
    (by
      simp only [Rx.m]
      rw [if_pos, hlen, h2]
      rw [Bool.and_eq_true, decide_eq_true_eq]
      refine ⟨by simp [ctxOf_n], ?_⟩
      rw [ctxOf_chr, getElem?_after, ctxOf_t, List.head?_cons, Option.getD_some]
      decide)
  rw [ht, hlen] at this
  exact this

/-- the line is blanks* `>` … -/
def MarkHead (l : Str) : Prop := ∃ sp rest, l = sp ++ '>' :: rest ∧ ∀ ch ∈ sp, ch = ' '

theorem quoteLeading_matchAt_sound (t : Str) (q : Nat) (mt : RxMatch)
    (h : quoteLeadingRxExpected.matchAt (Py.ctxOf t) q = some mt) :
    bolAt t q ∧ MarkHead (t.drop q) := by
  obtain ⟨_, hs⟩ := matchAt_sound _ _ _ _ h
  unfold quoteLeadingRxExpected at hs
  obtain ⟨i0, c0, hbol, hs⟩ := spec_seq.mp hs
  obtain ⟨hb, rfl, rfl⟩ := spec_bol hbol
  obtain ⟨i1, c1, hrep, hgt⟩ := spec_seq.mp hs
  obtain ⟨cnt, _, _, hit⟩ := spec_rep.mp hrep
  obtain ⟨rfl, _, hr⟩ := iter_cls hit
  refine ⟨hb, ?_⟩
  obtain ⟨sp, hsp1, hsp2, hd⟩ := run_of_forall (· == ' ') cnt t i0
    (fun j hj => cls_at t _ _ (fun ch => clsTest_chr1 pyCats ' ' ch) _ (hr j hj))
  simp only [Spec] at hgt
  obtain ⟨ch, hch, hp⟩ := cls_at t [.chr 62] (· == '>') (fun ch => clsTest_chr1 pyCats '>' ch) _
    ⟨hgt.1, hgt.2.1⟩
  have hlt : i0 + cnt < t.length := by
    rcases Nat.lt_or_ge (i0 + cnt) t.length with h | h
    · exact h
    · rw [List.getElem?_eq_none h] at hch; cases hch
  rw [List.getElem?_eq_getElem hlt, Option.some.injEq] at hch
  have hch' : t[i0 + cnt] = '>' := by rw [hch]; simpa using hp
  refine ⟨sp, t.drop (i0 + cnt + 1), ?_, fun ch hch => by simpa using hsp2 ch hch⟩
  rw [hd, List.drop_eq_getElem_cons hlt, hch']

theorem markHead_iff (l : Str) : MarkHead l ↔ l[blanks l]? = some '>' := by
  constructor
  · rintro ⟨sp, rest, rfl, h2⟩
    rw [blanks_run sp _ h2 (fun ch r h => by cases h; decide)]
    simp
  · intro hgt
    obtain ⟨run, rest, h1, h2, h3, _⟩ := blanks_spec l
    refine ⟨run, rest.tail, ?_, h3⟩
    have : rest.head? = some '>' := by
      rw [← h2] at hgt
      rw [h1, List.getElem?_append_right (Nat.le_refl _), Nat.sub_self] at hgt
      cases rest with
      | nil => simp at hgt
      | cons ch r => simpa using hgt
    cases rest with
    | nil => simp at this
    | cons ch r =>
      simp only [List.head?_cons, Option.some.injEq] at this
      rw [h1, this]; rfl

instance (l : Str) : Decidable (MarkHead l) := decidable_of_iff _ (markHead_iff l).symm

theorem markHead_firstLine (b : Str) : MarkHead (firstLine b) ↔ MarkHead b := by
  rw [markHead_iff, markHead_iff, blanks_firstLine]
  constructor
  · exact firstLine_getElem? b _ _
  · intro h
    obtain ⟨tl, h1, h2⟩ := firstLine_spec b
    have hbl : blanks b ≤ (firstLine b).length := by
      rw [← blanks_firstLine]
      unfold blanks
      exact (List.takeWhile_sublist _).length_le
    have h' : (firstLine b ++ tl)[blanks b]? = some '>' := by rw [← h1]; exact h
    rcases Nat.lt_or_ge (blanks b) (firstLine b).length with hlt | hge
    · rw [List.getElem?_append_left hlt] at h'; exact h'
    · exfalso
      have he : blanks b = (firstLine b).length := by omega
      rw [he, List.getElem?_append_right (Nat.le_refl _), Nat.sub_self] at h'
      rcases h2 with rfl | ⟨v, rfl⟩
      · simp at h'
      · simp at h'

theorem quoteLeading_lineSub : LineSub quoteLeadingRxExpected (fun _ _ => []) markLen (fun _ => []) where
  len_le := markLen_le
  hit := fun t q hq hb hpos => by
    have hgt : (firstLine (t.drop q))[blanks (firstLine (t.drop q))]? = some '>' := by
      unfold markLen at hpos
      split at hpos
      · assumption
      · omega
    have hgt' : (t.drop q)[blanks (t.drop q)]? = some '>' :=
      (markHead_iff _).mp ((markHead_firstLine _).mp ((markHead_iff _).mpr hgt))
    have hlen : markLen (firstLine (t.drop q)) = blanks (t.drop q) + 1 := by
      unfold markLen
      rw [if_pos hgt, blanks_firstLine]
    exact ⟨_, quoteLeading_matchAt_hit t q hq hb hgt', rfl, by rw [hlen, Nat.add_assoc], rfl⟩
  miss := fun t q mt _ hm => by
    obtain ⟨hb, hmk⟩ := quoteLeading_matchAt_sound t q mt hm
    refine ⟨hb, ?_⟩
    have := (markHead_iff _).mp ((markHead_firstLine _).mpr hmk)
    unfold markLen
    rw [if_pos this]
    omega

theorem rwLine_marker : rwLine markLen (fun _ => []) = dropMarker := by
  funext l
  unfold rwLine dropMarker markLen
  by_cases h : l[blanks l]? = some '>'
  · simp [h]
  · simp [h]

/-- **`_BLOCK_QUOTE_LEADING.sub("", text)` rewrites every line separately** -/
theorem reSub_quoteLeading (t : Str) :
    Py.reSub quoteLeadingRxExpected (fun _ _ => []) t = subLines dropMarker t := by
  rw [lineSub quoteLeading_lineSub t, rwLine_marker]

/-! ### (2) `cleanQuote`, line by line -/

/-- **the per-line specification of the prefix removal**:
1. a line of the shape blanks* `>` … loses the blanks and the `>` (`dropMarker`; other lines are kept);
2. if what remains starts with at most three blanks and a tab, the tab is replaced by the blanks that reach column 3
   (`expandLineW 3`: `sp ++ '\t' :: r ↦ sp ++ replicate (3 - |sp|) ' ' ++ r`; after three blanks the tab disappears);
3. one leading blank is removed if there is one (`dropUpTo 1`). -/
def quoteLine (l : Str) : Str := dropUpTo 1 (expandLineW 3 (dropMarker l))

namespace QuoteAux
theorem subLines_comp (f g : Str → Str) (hf : ∀ l, '\n' ∉ l → '\n' ∉ f l) (t : Str) :
    subLines g (subLines f t) = subLines (g ∘ f) t := by
  unfold subLines
  rw [show Py.join ['\n'] ((splitNl t).map f) = subLines f t from rfl, splitNl_subLines f hf, List.map_map]
end QuoteAux

theorem dropMarker_no_nl (l : Str) (h : '\n' ∉ l) : '\n' ∉ dropMarker l := by
  unfold dropMarker
  split
  · exact fun e => h (List.mem_of_mem_drop e)
  · exact h

namespace QuoteAux
theorem dropUpTo_no_nl (k : Nat) (l : Str) (h : '\n' ∉ l) : '\n' ∉ dropUpTo k l := by
  rw [dropUpTo_eq]
  exact fun e => h (List.mem_of_mem_drop e)
end QuoteAux

theorem quoteLine_no_nl (l : Str) (h : '\n' ∉ l) : '\n' ∉ quoteLine l :=
  dropUpTo_no_nl 1 _ (expandLineW_no_nl 3 _ (dropMarker_no_nl l h))

/-- **`cleanQuote` is the per-line specification**, for every configuration whose three named regexes are the
expected ones -/
theorem cleanQuote_eq_of_lookup (cfg : MdCfg)
    (h1 : cfg.named.lookup "mistune.block_parser._BLOCK_QUOTE_LEADING" = some quoteLeadingRxExpected)
    (h2 : cfg.named.lookup "mistune.util._expand_tab_re" = some expandTabRxExpected)
    (h3 : cfg.named.lookup "mistune.block_parser._BLOCK_QUOTE_TRIM" = some quoteTrimRxExpected)
    (q : Str) : cleanQuote cfg q = subLines quoteLine q := by
  unfold cleanQuote
  simp only []
  rw [rx_of_lookup cfg _ _ h1, rx_of_lookup cfg _ _ h3, expandLeadingTab_eq cfg h2, reSub_quoteLeading]
  unfold quoteTrimRxExpected
  rw [reSub_trim 1, trimLines_eq_subLines, subLines_comp _ _ dropMarker_no_nl,
    subLines_comp (expandLineW 3 ∘ dropMarker) (dropUpTo 1)
      (fun l hl => expandLineW_no_nl 3 _ (dropMarker_no_nl l hl))]
  rfl

/-- **(2) `cleanQuote_eq`: for every string `q`, `cleanQuote cfg q` is `quoteLine` applied to every line of `q`**
(split at `'\n'`, joined by `'\n'`), for every regenerated configuration (closed: the obligations are kernel-decided
above) -/
theorem cleanQuote_eq (cfg : MdCfg) (hcfg : cfg.named = Generated.namedRx) (q : Str) :
    cleanQuote cfg q = Py.join ['\n'] ((splitNl q).map quoteLine) :=
  cleanQuote_eq_of_lookup cfg (by rw [hcfg]; exact quoteLeadingRx_lookup) (by rw [hcfg]; exact expandTabRx_lookup)
    (by rw [hcfg]; exact quoteTrimRx_lookup) q

theorem cleanQuote_eq_ofRuleCfg (c : RuleCfg) (q : Str) :
    cleanQuote (ofRuleCfg c) q = Py.join ['\n'] ((splitNl q).map quoteLine) :=
  cleanQuote_eq (ofRuleCfg c) rfl q

/-- the line structure is preserved: the lines of the result are the cleaned lines of the source -/
theorem cleanQuote_lines (cfg : MdCfg) (hcfg : cfg.named = Generated.namedRx) (q : Str) :
    splitNl (cleanQuote cfg q) = (splitNl q).map quoteLine := by
  rw [cleanQuote_eq cfg hcfg]
  exact splitNl_subLines quoteLine quoteLine_no_nl q

theorem cleanQuote_line_count (cfg : MdCfg) (hcfg : cfg.named = Generated.namedRx) (q : Str) :
    (splitNl (cleanQuote cfg q)).length = (splitNl q).length := by
  rw [cleanQuote_lines cfg hcfg, List.length_map]

/-! ### the cases of `quoteLine` -/

theorem dropMarker_marked (sp rest : Str) (hsp : ∀ ch ∈ sp, ch = ' ') : dropMarker (sp ++ '>' :: rest) = rest := by
  unfold dropMarker
  rw [blanks_run sp _ hsp (fun ch r h => by cases h; decide), if_pos (by simp)]
  simp

theorem dropMarker_other (l : Str) (h : ¬ MarkHead l) : dropMarker l = l := by
  unfold dropMarker
  rw [if_neg (fun e => h ((markHead_iff l).mpr e))]

namespace QuoteAux
theorem expandLineW_tab (w : Nat) (sp rest : Str) (hsp : ∀ ch ∈ sp, ch = ' ') (hlen : sp.length ≤ 3) :
    expandLineW w (sp ++ '\t' :: rest) = sp ++ List.replicate (w - sp.length) ' ' ++ rest := by
  have hrun : spRun 3 (sp ++ '\t' :: rest) = sp.length :=
    spRun_run 3 sp _ hsp hlen (fun ch r h => by cases h; decide)
  unfold expandLineW
  rw [hrun, if_pos (by simp)]
  simp
end QuoteAux

namespace QuoteAux
theorem expandLineW_other (w : Nat) (l : Str) (h : ¬ TabHead l) : expandLineW w l = l := by
  unfold expandLineW
  rw [if_neg (fun e => h (tabHead_of_getElem l e))]
end QuoteAux

/-- a marked line: the blanks and the `>` go, the rest is tab-expanded to column 3 and loses one leading blank -/
theorem quoteLine_marked (sp rest : Str) (hsp : ∀ ch ∈ sp, ch = ' ') :
    quoteLine (sp ++ '>' :: rest) = dropUpTo 1 (expandLineW 3 rest) := by
  unfold quoteLine
  rw [dropMarker_marked sp rest hsp]

/-- a line without marker (it cannot occur in a `_STRICT_BLOCK_QUOTE` match, `cleanQuote` is total nevertheless) -/
theorem quoteLine_unmarked (l : Str) (h : ¬ MarkHead l) : quoteLine l = dropUpTo 1 (expandLineW 3 l) := by
  unfold quoteLine
  rw [dropMarker_other l h]

theorem quoteLine_nil : quoteLine [] = [] := by decide

/-- `ind> l` (one blank after the marker): the content `l` comes out as it is, unless `" " ++ l` starts with at most
three blanks and a tab (i.e. `l` starts with at most two blanks and a tab) -/
theorem quoteLine_spaced (ind l : Str) (hind : ∀ ch ∈ ind, ch = ' ') (h : ¬ TabHead (' ' :: l)) :
    quoteLine (ind ++ '>' :: ' ' :: l) = l := by
  rw [quoteLine_marked ind _ hind, expandLineW_other 3 _ h]
  simp [dropUpTo]

/-- `ind>l` with `l` not starting with a blank or a tab: the content comes out as it is -/
theorem quoteLine_tight (ind l : Str) (hind : ∀ ch ∈ ind, ch = ' ') (h1 : l.head? ≠ some ' ')
    (h2 : l.head? ≠ some '\t') : quoteLine (ind ++ '>' :: l) = l := by
  have hnt : ¬ TabHead l := by
    rintro ⟨sp, rest, rfl, hsp, _⟩
    cases sp with
    | nil => simp at h2
    | cons ch sp' =>
      have := hsp ch (by simp)
      subst this
      simp at h1
  rw [quoteLine_marked ind _ hind, expandLineW_other 3 _ hnt]
  cases l with
  | nil => rfl
  | cons ch r =>
    have : ch ≠ ' ' := fun e => h1 (by simp [e])
    simp [dropUpTo, this]

/-- the tab case, exactly: after the marker, (≤ 3 blanks) tab `r` becomes the blanks, the blanks that reach column 3,
`r`, minus one leading blank — the tab never survives, and after three blanks it vanishes -/
theorem quoteLine_tab (ind sp r : Str) (hind : ∀ ch ∈ ind, ch = ' ') (hsp : ∀ ch ∈ sp, ch = ' ')
    (hlen : sp.length ≤ 3) :
    quoteLine (ind ++ '>' :: (sp ++ '\t' :: r)) = dropUpTo 1 (sp ++ List.replicate (3 - sp.length) ' ' ++ r) := by
  rw [quoteLine_marked ind _ hind, expandLineW_tab 3 sp r hsp hlen]

/-! ### (3) verbatim -/

namespace QuoteAux
theorem subLines_nil (f : Str → Str) : subLines f [] = f [] := rfl
end QuoteAux

namespace QuoteAux
theorem subLines_line_nl (f : Str → Str) (u v : Str) (h : '\n' ∉ u) :
    subLines f (u ++ '\n' :: v) = f u ++ '\n' :: subLines f v := by
  unfold subLines
  rw [splitNl_line_nl u v h]
  cases hs : splitNl v with
  | nil => exact absurd hs (splitNl_ne_nil v)
  | cons l ls => simp [Py.join]
end QuoteAux

namespace QuoteAux
/-- `subLines` on a text made of complete lines (the last, empty line after the final newline is `f [] = []`) -/
theorem subLines_flatten (f : Str → Str) (hf : f [] = []) (lines : List Str) (h : ∀ l ∈ lines, '\n' ∉ l) :
    subLines f (lines.map (· ++ ['\n'])).flatten = (lines.map (fun l => f l ++ ['\n'])).flatten := by
  induction lines with
  | nil => exact hf
  | cons l ls ih =>
    simp only [List.map_cons, List.flatten_cons, List.append_assoc, List.singleton_append]
    rw [subLines_line_nl f l _ (h l (by simp)), ih (fun l' hl' => h l' (by simp [hl']))]
end QuoteAux

/-- `line` is a marked form of the content line `l`: blanks, `>`, and either one blank and `l` (where `" " ++ l` is not
(≤ 3 blanks) tab …), or `l` directly (where `l` does not start with a blank or a tab) -/
inductive Marked : Str → Str → Prop where
  | spaced (ind l : Str) : (∀ ch ∈ ind, ch = ' ') → ¬ TabHead (' ' :: l) → Marked (ind ++ '>' :: ' ' :: l) l
  | tight (ind l : Str) : (∀ ch ∈ ind, ch = ' ') → l.head? ≠ some ' ' → l.head? ≠ some '\t' →
      Marked (ind ++ '>' :: l) l

theorem quoteLine_of_marked {line l : Str} (h : Marked line l) : quoteLine line = l := by
  cases h with
  | spaced ind l h1 h2 => exact quoteLine_spaced ind l h1 h2
  | tight ind l h1 h2 h3 => exact quoteLine_tight ind l h1 h2 h3

theorem marked_no_nl {line l : Str} (h : Marked line l) (hl : '\n' ∉ l) : '\n' ∉ line := by
  have aux : ∀ ind : Str, (∀ ch ∈ ind, ch = ' ') → '\n' ∉ ind :=
    fun ind hind e => absurd (hind _ e) (by decide)
  cases h with
  | spaced ind l h1 h2 =>
    intro e
    rcases List.mem_append.mp e with e | e
    · exact aux ind h1 e
    · simp only [List.mem_cons] at e
      rcases e with e | e | e
      · exact absurd e (by decide)
      · exact absurd e (by decide)
      · exact hl e
  | tight ind l h1 h2 h3 =>
    intro e
    rcases List.mem_append.mp e with e | e
    · exact aux ind h1 e
    · simp only [List.mem_cons] at e
      rcases e with e | e
      · exact absurd e (by decide)
      · exact hl e

/-- the per-line specification on marked lines: `segs` lists pairs (marked line, content line) -/
theorem subLines_quoteLine_marked (segs : List (Str × Str)) (hseg : ∀ p ∈ segs, Marked p.1 p.2 ∧ '\n' ∉ p.2) :
    subLines quoteLine (segs.map (fun p => p.1 ++ ['\n'])).flatten = (segs.map (fun p => p.2 ++ ['\n'])).flatten := by
  have := subLines_flatten quoteLine quoteLine_nil (segs.map (·.1)) (by
    intro l hl
    obtain ⟨p, hp, rfl⟩ := List.mem_map.mp hl
    exact marked_no_nl (hseg p hp).1 (hseg p hp).2)
  rw [List.map_map, List.map_map] at this
  rw [show (fun p : Str × Str => p.1 ++ ['\n']) = ((· ++ ['\n']) ∘ fun p => p.1) from rfl]
  refine Eq.trans this ?_
  congr 1
  apply List.map_congr_left
  intro p hp
  simp only [Function.comp]
  rw [quoteLine_of_marked (hseg p hp).1]

/-- **(3), general form.**  `segs` lists pairs (marked line, content line).  `cleanQuote` of the marked lines (each
followed by a newline) is the content lines (each followed by a newline). -/
theorem cleanQuote_verbatim_marked (cfg : MdCfg) (hcfg : cfg.named = Generated.namedRx) (segs : List (Str × Str))
    (hseg : ∀ p ∈ segs, Marked p.1 p.2 ∧ '\n' ∉ p.2) :
    cleanQuote cfg (segs.map (fun p => p.1 ++ ['\n'])).flatten = (segs.map (fun p => p.2 ++ ['\n'])).flatten := by
  rw [cleanQuote_eq cfg hcfg]
  exact subLines_quoteLine_marked segs hseg

/-- **(3) `cleanQuote_verbatim`.**  `segs` lists pairs `(ind, l)`: `ind` is made of blanks (any number; the regex
`_STRICT_BLOCK_QUOTE` only admits 0–3), `l` is the content line, `" " ++ l` is not of the form (≤ 3 blanks) tab … .
Then `cleanQuote` of the concatenation of the `ind ++ "> " ++ l ++ "\n"` is the concatenation of the `l ++ "\n"`:
exactly the prefix is removed, everything else — interior and further leading blanks included — is untouched. -/
theorem cleanQuote_verbatim (cfg : MdCfg) (hcfg : cfg.named = Generated.namedRx) (segs : List (Str × Str))
    (hseg : ∀ p ∈ segs, (∀ ch ∈ p.1, ch = ' ') ∧ ¬ TabHead (' ' :: p.2) ∧ '\n' ∉ p.2) :
    cleanQuote cfg (segs.map (fun p => p.1 ++ '>' :: ' ' :: p.2 ++ ['\n'])).flatten =
      (segs.map (fun p => p.2 ++ ['\n'])).flatten := by
  have := cleanQuote_verbatim_marked cfg hcfg (segs.map (fun p => (p.1 ++ '>' :: ' ' :: p.2, p.2))) (by
    intro p hp
    obtain ⟨p0, hp0, rfl⟩ := List.mem_map.mp hp
    obtain ⟨h1, h2, h3⟩ := hseg p0 hp0
    exact ⟨Marked.spaced p0.1 p0.2 h1 h2, h3⟩)
  rw [List.map_map, List.map_map] at this
  exact this

/-- **(3), the variant `>foo`**: the marker is immediately followed by a character that is neither a blank nor a tab
(or by nothing: `l = []`, the line `>`). -/
theorem cleanQuote_verbatim_tight (cfg : MdCfg) (hcfg : cfg.named = Generated.namedRx) (segs : List (Str × Str))
    (hseg : ∀ p ∈ segs, (∀ ch ∈ p.1, ch = ' ') ∧ p.2.head? ≠ some ' ' ∧ p.2.head? ≠ some '\t' ∧ '\n' ∉ p.2) :
    cleanQuote cfg (segs.map (fun p => p.1 ++ '>' :: p.2 ++ ['\n'])).flatten =
      (segs.map (fun p => p.2 ++ ['\n'])).flatten := by
  have := cleanQuote_verbatim_marked cfg hcfg (segs.map (fun p => (p.1 ++ '>' :: p.2, p.2))) (by
    intro p hp
    obtain ⟨p0, hp0, rfl⟩ := List.mem_map.mp hp
    obtain ⟨h1, h2, h3, h4⟩ := hseg p0 hp0
    exact ⟨Marked.tight p0.1 p0.2 h1 h2 h3, h4⟩)
  rw [List.map_map, List.map_map] at this
  exact this

section Examples

/-- the model (three regexes on the engine), evaluated by the kernel -/
example : cleanQuote exCfg "> foo\n> bar\n".toList = "foo\nbar\n".toList := by decide +kernel
example : cleanQuote exCfg " >  x\n>y\n".toList = " x\ny\n".toList := by decide +kernel

/-- the per-line specification on the same inputs -/
example : subLines quoteLine "> foo\n> bar\n".toList = "foo\nbar\n".toList := by decide
example : subLines quoteLine " >  x\n>y\n   >   z  z\n>\n".toList = " x\ny\n  z  z\n\n".toList := by decide

/-- `cleanQuote_verbatim` instantiated (non-vacuity): three lines, with interior / further leading blanks -/
example : cleanQuote exCfg "> foo  bar\n   >   x\n>  \n".toList = "foo  bar\n  x\n \n".toList :=
  cleanQuote_verbatim exCfg rfl [([], "foo  bar".toList), ("   ".toList, "  x".toList), ([], " ".toList)]
    (by decide)

/-- `cleanQuote_verbatim_tight` instantiated -/
example : cleanQuote exCfg ">foo\n  >```\n>\n".toList = "foo\n```\n\n".toList :=
  cleanQuote_verbatim_tight exCfg rfl [([], "foo".toList), ("  ".toList, "```".toList), ([], [])] (by decide)

/-- mixed -/
example : cleanQuote exCfg ">foo\n > bar\n".toList = "foo\nbar\n".toList :=
  cleanQuote_verbatim_marked exCfg rfl [(">foo".toList, "foo".toList), (" > bar".toList, "bar".toList)] (by
    intro p hp
    simp only [List.mem_cons, List.not_mem_nil, or_false] at hp
    rcases hp with rfl | rfl
    · exact ⟨Marked.tight [] "foo".toList (by simp) (by decide) (by decide), by decide⟩
    · exact ⟨Marked.spaced " ".toList "bar".toList (by decide) (by decide), by decide⟩)

/-- **the hypothesis `¬ TabHead (" " ++ l)` is necessary**: for `l = "\tx"` (`> \tx`) the content is not reproduced:
the blank after the marker and the tab become the three blanks that reach column 3, one of which is trimmed -/
example : TabHead (' ' :: "\tx".toList) ∧
    cleanQuote exCfg "> \tx\n".toList = "  x\n".toList ∧ "  x\n".toList ≠ "\tx\n".toList := by decide +kernel

/-- the same for the tight form: `>\tx` gives two blanks, not the tab -/
example : cleanQuote exCfg ">\tx\n".toList = "  x\n".toList := by decide +kernel

/-- after three blanks the tab disappears altogether (`expand_leading_tab(…, 3)` pads to width 3) -/
example : cleanQuote exCfg ">   \tx\n".toList = "  x\n".toList := by decide +kernel

/-- a tab that is not at the head of the content is untouched -/
example : cleanQuote exCfg "> a\tb\n>     \tc\n".toList = "a\tb\n    \tc\n".toList := by decide +kernel

end Examples

/-! ### (4) `_STRICT_BLOCK_QUOTE` on the engine -/

namespace QuoteAux
/-- `repLoop_cls_greedy` for a class of either polarity (`[^\n]` is a negated class) -/
theorem repLoop_clsN_greedy {R : Type} (x : RxCtx) (neg : Bool) (items : List ClsItem) (lo : Nat) (hi : Option Nat)
    (k : Nat → Caps → Option R) (c : Caps) (r : R) :
    ∀ (j fuel cnt i : Nat) (pa : Bool),
      (∀ t, t < j → i + t < x.n ∧ clsTest x.t neg items (x.chr (i + t)) = true) →
      (hi = some (cnt + j) ∨ ¬ (i + j < x.n ∧ clsTest x.t neg items (x.chr (i + j)) = true)) →
      (∀ m, hi = some m → cnt + j ≤ m) →
      lo ≤ cnt + j → j < fuel → (pa = true ∨ cnt = 0) →
      k (i + j) c = some r →
      repLoop (fun i c k => (Rx.cls neg items).m x i c k) lo hi true k fuel cnt pa i c = some r := by
  intro j
  induction j with
  | zero =>
    intro fuel cnt i pa _ hstop _ hlo hfuel _ hk
    obtain ⟨f, rfl⟩ : ∃ f, fuel = f + 1 := ⟨fuel - 1, by omega⟩
    simp only [Nat.add_zero] at hstop hlo hk
    have hdone : (if cnt ≥ lo then k i c else none) = some r := by simp [hlo, hk]
    rw [repLoop_succ_greedy]
    rcases hstop with hhi | hno
    · subst hhi
      rw [canMoreB_false]
      exact hdone
    · have : (Rx.cls neg items).m x i c
          (fun j c' => repLoop (fun i c k => (Rx.cls neg items).m x i c k) lo hi true k f (cnt + 1) (j != i) j c')
          = none := by
        simp only [Rx.m]
        split
        · rename_i h
          simp only [Bool.and_eq_true, decide_eq_true_eq] at h
          exact absurd h hno
        · rfl
      simp only [this, ite_self]
      exact hdone
  | succ j ih =>
    intro fuel cnt i pa hrun hstop hhi hlo hfuel hpa hk
    obtain ⟨f, rfl⟩ : ∃ f, fuel = f + 1 := ⟨fuel - 1, by omega⟩
    have h0 := hrun 0 (by omega)
    simp only [Nat.add_zero] at h0
    have hcan : canMoreB hi lo cnt pa = true :=
      canMoreB_true (fun m hm => by have := hhi m hm; omega) hpa
    have hrec := ih f (cnt + 1) (i + 1) ((i + 1) != i)
      (fun t ht => by have := hrun (t + 1) (by omega); rwa [show i + 1 + t = i + (t + 1) by omega])
      (by rw [show cnt + 1 + j = cnt + (j + 1) by omega, show i + 1 + j = i + (j + 1) by omega]; exact hstop)
      (fun m hm => by have := hhi m hm; omega) (by omega) (by omega) (Or.inl (by simp))
      (by rw [show i + 1 + j = i + (j + 1) by omega]; exact hk)
    rw [repLoop_succ_greedy, hcan]
    have : (Rx.cls neg items).m x i c
        (fun j c' => repLoop (fun i c k => (Rx.cls neg items).m x i c k) lo hi true k f (cnt + 1) (j != i) j c')
        = some r := by
      simp only [Rx.m]
      rw [if_pos (by simp [h0.1, h0.2])]
      exact hrec
    simp only [if_true, this]
end QuoteAux

namespace QuoteAux
/-- list form, either polarity: the subject is `a ++ run ++ rest`, the loop starts after `a`, `run` is the maximal run
of class characters (bounded by `hi`) -/
theorem rep_greedyN_list {R : Type} (a run rest : Str) (neg : Bool) (items : List ClsItem) (p : Char → Bool)
    (hp : ∀ ch : Char, clsTest pyCats neg items ch.toNat = p ch)
    (lo : Nat) (hi : Option Nat) (k : Nat → Caps → Option R) (c : Caps) (r : R)
    (hrun : ∀ ch ∈ run, p ch = true)
    (hstop : hi = some run.length ∨ rest = [] ∨ ∃ ch r', rest = ch :: r' ∧ p ch = false)
    (hhi : ∀ m, hi = some m → run.length ≤ m) (hlo : lo ≤ run.length)
    (hk : k (a.length + run.length) c = some r) :
    (Rx.rep (.cls neg items) lo hi true).m (Py.ctxOf (a ++ run ++ rest)) a.length c k = some r := by
  simp only [Rx.m]
  apply repLoop_clsN_greedy _ neg items lo hi k c r run.length _ 0 a.length false
  · intro t ht
    refine ⟨by simp [ctxOf_n]; omega, ?_⟩
    rw [ctxOf_chr, getElem?_mid _ _ _ _ ht, ctxOf_t, Option.getD_some, hp]
    exact hrun _ (List.getElem_mem ht)
  · rcases hstop with h | h | ⟨ch, r', h, hch⟩
    · exact Or.inl (by simpa using h)
    · right
      subst h
      simp [ctxOf_n]
    · right
      subst h
      rw [ctxOf_chr, getElem?_after, ctxOf_t]
      simp [hp, hch]
  · simpa using hhi
  · simpa using hlo
  · simp [ctxOf_n]; omega
  · exact Or.inr rfl
  · exact hk
end QuoteAux

namespace QuoteAux
theorem clsTest_nchr1 (t : CatTables) (a : Char) (ch : Char) :
    clsTest t true [.chr a.toNat] ch.toNat = (ch != a) := by
  have := clsTest_chr1 t a ch
  simp only [clsTest, Bool.bne_false] at this
  simp only [clsTest, this]
  show ((ch == a) != true) = !(ch == a)
  cases (ch == a) <;> rfl
end QuoteAux

namespace QuoteAux
/-- a class that matches the character at `i` -/
theorem m_cls_hit {R : Type} (s : Str) (neg : Bool) (items : List ClsItem) (p : Char → Bool)
    (hp : ∀ ch : Char, clsTest pyCats neg items ch.toNat = p ch) (i : Nat) (ch : Char) (hch : s[i]? = some ch)
    (hpc : p ch = true) (c : Caps) (k : Nat → Caps → Option R) :
    (Rx.cls neg items).m (Py.ctxOf s) i c k = k (i + 1) c := by
  have hi : i < s.length := by
    rcases Nat.lt_or_ge i s.length with h | h
    · exact h
    · rw [List.getElem?_eq_none h] at hch; cases hch
  simp only [Rx.m]
  rw [if_pos]
  rw [Bool.and_eq_true, decide_eq_true_eq, ctxOf_n, ctxOf_chr, ctxOf_t, hch, Option.getD_some, hp]
  exact ⟨hi, hpc⟩
end QuoteAux

namespace QuoteAux
theorem m_alt_left {R : Type} (x : RxCtx) (a b : Rx) (i : Nat) (c : Caps) (k : Nat → Caps → Option R) (r : R)
    (h : a.m x i c k = some r) : (Rx.alt a b).m x i c k = some r := by
  simp only [Rx.m, h]
end QuoteAux

/-- a marked line of the subject: (0–3 blanks) `>` (no newline)* newline -/
def QLine (line : Str) : Prop :=
  ∃ sp body, line = sp ++ '>' :: body ++ ['\n'] ∧ (∀ ch ∈ sp, ch = ' ') ∧ sp.length ≤ 3 ∧ '\n' ∉ body

/-- the text starts with (0–3 blanks) `>` -/
def QuoteHead (l : Str) : Prop := ∃ sp r, l = sp ++ '>' :: r ∧ (∀ ch ∈ sp, ch = ' ') ∧ sp.length ≤ 3

namespace QuoteAux
theorem m_alt_right {R : Type} (x : RxCtx) (a b : Rx) (i : Nat) (c : Caps) (k : Nat → Caps → Option R)
    (h : a.m x i c k = none) : (Rx.alt a b).m x i c k = b.m x i c k := by
  simp only [Rx.m, h]
end QuoteAux

/-- the greedy path of one iteration `( {0,3}>[^\n]*(?:\n|$))` over a marked line (terminated by a newline, or
unterminated at the end of the subject: `nl = []`, `rest = []`): if the continuation succeeds after the line (with the
capture of the line pushed), so does the iteration — no backtracking takes place -/
theorem strictLine_greedy' {R : Type} (s a sp body nl rest : Str)
    (hs : s = a ++ (sp ++ '>' :: body ++ nl) ++ rest) (hnl : nl = ['\n'] ∨ (nl = [] ∧ rest = []))
    (hsp : ∀ ch ∈ sp, ch = ' ') (hlen : sp.length ≤ 3) (hbody : '\n' ∉ body)
    (c : Caps) (k : Nat → Caps → Option R) (r : R)
    (hk : k (a.length + (sp.length + 1 + body.length + nl.length))
      ((1, (a.length, a.length + (sp.length + 1 + body.length + nl.length))) :: c) = some r) :
    strictLineRx.m (Py.ctxOf s) a.length c k = some r := by
  have e1 : s = a ++ sp ++ ('>' :: body ++ nl ++ rest) := by rw [hs]; simp
  have e2 : s = (a ++ sp ++ ['>']) ++ body ++ (nl ++ rest) := by rw [hs]; simp
  have e : (a ++ sp ++ ['>']).length + body.length = a.length + (sp.length + 1 + body.length) := by
    simp only [List.length_append, List.length_cons, List.length_nil]; omega
  unfold strictLineRx
  rw [m_grp, m_seq]
  have step1 := rep_greedy_list a sp ('>' :: body ++ nl ++ rest) [.chr 32] (· == ' ')
    (fun ch => clsTest_chr1 pyCats ' ' ch) 0 (some 3)
    (fun j c' => (Rx.seq (.cls false [.chr 62]) (.seq (.rep (.cls true [.chr 10]) 0 none true)
      (.alt (.cls false [.chr 10]) .eos))).m (Py.ctxOf s) j c'
      (fun j c' => k j ((1, (a.length, j)) :: c'))) c r
    (fun ch hch => by simp [hsp ch hch])
    (Or.inr (Or.inr ⟨'>', _, rfl, by decide⟩))
    (by intro m hm; cases hm; exact hlen) (by omega)
    (by
      rw [m_seq, m_cls_hit s false [.chr 62] (· == '>') (fun ch => clsTest_chr1 pyCats '>' ch) _ '>'
        (by rw [e1, getElem?_after]; rfl) (by decide), m_seq]
      have step2 := rep_greedyN_list (a ++ sp ++ ['>']) body (nl ++ rest) true [.chr 10] (· != '\n')
        (fun ch => clsTest_nchr1 pyCats '\n' ch) 0 none
        (fun j c' => (Rx.alt (.cls false [.chr 10]) .eos).m (Py.ctxOf s) j c'
          (fun j c' => k j ((1, (a.length, j)) :: c'))) c r
        (fun ch hch => by
          have : ch ≠ '\n' := fun e => hbody (e ▸ hch)
          simp [this])
        (by
          rcases hnl with rfl | ⟨rfl, rfl⟩
          · exact Or.inr (Or.inr ⟨'\n', rest, rfl, by decide⟩)
          · exact Or.inr (Or.inl rfl))
        (by intro m hm; cases hm) (by omega)
        (by
          rcases hnl with rfl | ⟨rfl, rfl⟩
          · apply m_alt_left
            rw [m_cls_hit s false [.chr 10] (· == '\n') (fun ch => clsTest_chr1 pyCats '\n' ch) _ '\n'
              (by rw [e2, getElem?_after]; rfl) (by decide)]
            have hk' := hk
            rw [show a.length + (sp.length + 1 + body.length + ['\n'].length) =
              (a ++ sp ++ ['>']).length + body.length + 1 by rw [e]; simp; omega] at hk'
            exact hk'
          · have hn : (Py.ctxOf s).n = (a ++ sp ++ ['>']).length + body.length := by
              rw [ctxOf_n, e2]; simp only [List.length_append, List.length_cons, List.length_nil]; omega
            rw [m_alt_right]
            · simp only [Rx.m]
              rw [if_pos (by simp [hn])]
              have hk' := hk
              rw [show a.length + (sp.length + 1 + body.length + ([] : Str).length) =
                (a ++ sp ++ ['>']).length + body.length by rw [e]; simp] at hk'
              exact hk'
            · simp only [Rx.m]
              rw [if_neg (by simp [hn])])
      rw [← e2] at step2
      simp only [List.length_append, List.length_cons, List.length_nil] at step2
      exact step2)
  rw [← e1] at step1
  exact step1

theorem strictLine_greedy {R : Type} (s a sp body rest : Str)
    (hs : s = a ++ (sp ++ '>' :: body ++ ['\n']) ++ rest)
    (hsp : ∀ ch ∈ sp, ch = ' ') (hlen : sp.length ≤ 3) (hbody : '\n' ∉ body)
    (c : Caps) (k : Nat → Caps → Option R) (r : R)
    (hk : k (a.length + (sp.length + 1 + body.length + 1))
      ((1, (a.length, a.length + (sp.length + 1 + body.length + 1))) :: c) = some r) :
    strictLineRx.m (Py.ctxOf s) a.length c k = some r :=
  strictLine_greedy' s a sp body ['\n'] rest hs (Or.inl rfl) hsp hlen hbody c k r hk

theorem quoteHead_of_spec (s : Str) (i : Nat) (c : Caps) (j : Nat) (c' : Caps)
    (h : Spec (Py.ctxOf s) strictLineRx i c j c') : QuoteHead (s.drop i) := by
  unfold strictLineRx at h
  obtain ⟨c0, hs, _⟩ := spec_grp.mp h
  obtain ⟨i1, c1, hrep, hs⟩ := spec_seq.mp hs
  obtain ⟨i2, c2, hgt, _⟩ := spec_seq.mp hs
  obtain ⟨cnt, _, hc2, hit⟩ := spec_rep.mp hrep
  obtain ⟨rfl, _, hr⟩ := iter_cls hit
  obtain ⟨sp, hsp1, hsp2, hd⟩ := run_of_forall (· == ' ') cnt s i
    (fun j hj => cls_at s _ _ (fun ch => clsTest_chr1 pyCats ' ' ch) _ (hr j hj))
  simp only [Spec] at hgt
  obtain ⟨ch, hch, hp⟩ := cls_at s [.chr 62] (· == '>') (fun ch => clsTest_chr1 pyCats '>' ch) _
    ⟨hgt.1, hgt.2.1⟩
  have hlt : i + cnt < s.length := by
    rcases Nat.lt_or_ge (i + cnt) s.length with h | h
    · exact h
    · rw [List.getElem?_eq_none h] at hch; cases hch
  rw [List.getElem?_eq_getElem hlt, Option.some.injEq] at hch
  have hch' : s[i + cnt] = '>' := by rw [hch]; simpa using hp
  refine ⟨sp, s.drop (i + cnt + 1), ?_, fun ch hch => by simpa using hsp2 ch hch, ?_⟩
  · rw [hd, List.drop_eq_getElem_cons hlt, hch']
  · have := hc2 3 rfl; omega

/-- where the text does not start with (0–3 blanks) `>`, an iteration fails whatever the continuation -/
theorem strictLine_none {R : Type} (s : Str) (i : Nat) (h : ¬ QuoteHead (s.drop i)) (c : Caps)
    (k : Nat → Caps → Option R) : strictLineRx.m (Py.ctxOf s) i c k = none := by
  cases hm : strictLineRx.m (Py.ctxOf s) i c k with
  | none => rfl
  | some r =>
    obtain ⟨j, c', hs, _⟩ := m_sound _ _ _ _ _ _ hm
    exact absurd (quoteHead_of_spec s i c j c' hs) h

theorem qLine_length {line : Str} (h : QLine line) : 2 ≤ line.length := by
  obtain ⟨sp, body, rfl, _⟩ := h
  simp; omega

/-- the greedy `+` loop takes every marked line and stops where the text no longer starts with a marker -/
theorem strictLoop_greedy (s : Str) (p : Nat) (rest : Str) (hrest : ¬ QuoteHead rest) (lines : List Str) :
    ∀ (a : Str) (fuel cnt : Nat) (pa : Bool) (c : Caps),
      s = a ++ lines.flatten ++ rest → (∀ l ∈ lines, QLine l) → (pa = true ∨ cnt = 0) →
      lines.flatten.length < fuel → 1 ≤ cnt + lines.length →
      ∃ c', repLoop (fun i c k => strictLineRx.m (Py.ctxOf s) i c k) 1 none true
          (fun j c => some ({ start := p, stop := j, caps := c } : RxMatch)) fuel cnt pa a.length c =
        some { start := p, stop := a.length + lines.flatten.length, caps := c' } := by
  induction lines with
  | nil =>
    intro a fuel cnt pa c hs _ _ hfuel hcnt
    obtain ⟨f, rfl⟩ : ∃ f, fuel = f + 1 := ⟨fuel - 1, by omega⟩
    simp only [List.flatten_nil, List.append_nil, List.length_nil, Nat.add_zero] at hs hcnt ⊢
    have hd : s.drop a.length = rest := by rw [hs]; simp
    refine ⟨c, ?_⟩
    rw [repLoop_succ_greedy, strictLine_none s a.length (by rw [hd]; exact hrest)]
    simp only [ite_self]
    rw [if_pos hcnt]
  | cons line lines ih =>
    intro a fuel cnt pa c hs hl hpa hfuel _
    obtain ⟨f, rfl⟩ : ∃ f, fuel = f + 1 := ⟨fuel - 1, by omega⟩
    have hq := hl line (by simp)
    have h2 := qLine_length hq
    obtain ⟨sp, body, rfl, hsp, hlen, hbody⟩ := hq
    have e : (a ++ (sp ++ '>' :: body ++ ['\n'])).length = a.length + (sp.length + 1 + body.length + 1) := by
      simp only [List.length_append, List.length_cons, List.length_nil]; omega
    have e2 : a.length + ((sp ++ '>' :: body ++ ['\n']) :: lines).flatten.length =
        a.length + (sp.length + 1 + body.length + 1) + lines.flatten.length := by
      simp only [List.flatten_cons, List.length_append, List.length_cons, List.length_nil]; omega
    have hs' : s = (a ++ (sp ++ '>' :: body ++ ['\n'])) ++ lines.flatten ++ rest := by rw [hs]; simp
    obtain ⟨c', hc'⟩ := ih (a ++ (sp ++ '>' :: body ++ ['\n'])) f (cnt + 1)
      ((a.length + (sp.length + 1 + body.length + 1)) != a.length)
      ((1, (a.length, a.length + (sp.length + 1 + body.length + 1))) :: c) hs'
      (fun l h => hl l (by simp [h])) (Or.inl (by simp)) (by omega) (by omega)
    rw [e] at hc'
    refine ⟨c', ?_⟩
    rw [repLoop_succ_greedy, canMoreB_true (by intro m hm; cases hm) hpa, if_pos rfl, e2]
    have := strictLine_greedy s a sp body (lines.flatten ++ rest) (by rw [hs]; simp) hsp hlen hbody c
      (fun j c' => repLoop (fun i c k => strictLineRx.m (Py.ctxOf s) i c k) 1 none true
          (fun j c => some ({ start := p, stop := j, caps := c } : RxMatch)) f (cnt + 1) (j != a.length) j c')
      { start := p, stop := a.length + (sp.length + 1 + body.length + 1) + lines.flatten.length, caps := c' }
      hc'
    rw [this]

/-- **(4) `strictQuote_matchAt`, success (sound and complete).**  On the subject `pre ++ run ++ rest`, where `run` is
the concatenation of `n ≥ 1` marked lines (each (0–3 blanks) `>` (no newline)* newline) and `rest` does not start with
(0–3 blanks) `>` (e.g. it is empty, or a blank line), `_STRICT_BLOCK_QUOTE.match(src, len(pre))` is the match that
spans exactly `run`. -/
theorem strictQuote_matchAt (pre rest : Str) (lines : List Str) (hne : lines ≠ []) (hl : ∀ l ∈ lines, QLine l)
    (hrest : ¬ QuoteHead rest) :
    ∃ caps, Py.matchAt strictQuoteRxExpected (Py.ctxOf (pre ++ lines.flatten ++ rest)) pre.length =
      some { start := pre.length, stop := pre.length + lines.flatten.length, caps := caps } := by
  have hmin : min pre.length (Py.ctxOf (pre ++ lines.flatten ++ rest)).n = pre.length := by
    rw [ctxOf_n]; simp
  unfold Py.matchAt Rx.matchAt strictQuoteRxExpected
  rw [hmin]
  simp only [Rx.m]
  have hpos : 1 ≤ lines.length := by
    cases lines with
    | nil => exact absurd rfl hne
    | cons l ls => simp
  exact strictLoop_greedy _ pre.length rest hrest lines pre _ 0 false [] rfl hl (Or.inr rfl)
    (by rw [ctxOf_n]; simp; omega) (by omega)

namespace QuoteAux
theorem iter_first {step : Nat → Caps → Nat → Caps → Prop} {n i j : Nat} {c c' : Caps}
    (h : Iter step n i c j c') (hn : 1 ≤ n) : ∃ j1 c1, step i c j1 c1 := by
  cases h with
  | zero => omega
  | succ hstep _ => exact ⟨_, _, hstep⟩
end QuoteAux

namespace QuoteAux
/-- once the minimum is reached, a greedy loop whose continuation succeeds here succeeds -/
theorem repLoop_done_isSome {R : Type} (mr : Nat → Caps → (Nat → Caps → Option R) → Option R)
    (lo : Nat) (hi : Option Nat) (k : Nat → Caps → Option R) (f cnt : Nat) (pa : Bool) (i : Nat) (c : Caps)
    (hcnt : lo ≤ cnt) (hk : (k i c).isSome) : (repLoop mr lo hi true k (f + 1) cnt pa i c).isSome := by
  rw [repLoop_succ_greedy]
  split
  · rfl
  · rw [if_pos hcnt]; exact hk
end QuoteAux

/-- **(4), sound**: a match at `pos` means that the text at `pos` starts with (0–3 blanks) `>` -/
theorem strictQuote_matchAt_sound (s : Str) (pos : Nat) (hpos : pos ≤ s.length) (mt : RxMatch)
    (h : Py.matchAt strictQuoteRxExpected (Py.ctxOf s) pos = some mt) : QuoteHead (s.drop pos) := by
  have hmin : min pos (Py.ctxOf s).n = pos := by rw [ctxOf_n]; omega
  unfold Py.matchAt at h
  rw [hmin] at h
  obtain ⟨_, hs⟩ := matchAt_sound _ _ _ _ h
  unfold strictQuoteRxExpected at hs
  obtain ⟨cnt, hc1, _, hit⟩ := spec_rep.mp hs
  obtain ⟨j1, c1, hstep⟩ := iter_first hit hc1
  exact quoteHead_of_spec s pos _ _ _ hstep

/-- **(4), complete, for every subject**: where the text starts with (0–3 blanks) `>` there is a match (the first line,
terminated or at the end of the subject, is taken by the first iteration) -/
theorem strictQuote_matchAt_complete (s : Str) (pos : Nat) (hpos : pos ≤ s.length) (h : QuoteHead (s.drop pos)) :
    (Py.matchAt strictQuoteRxExpected (Py.ctxOf s) pos).isSome := by
  have hmin : min pos (Py.ctxOf s).n = pos := by rw [ctxOf_n]; omega
  obtain ⟨sp, r, hd, hsp, hlen⟩ := h
  obtain ⟨tl, h1, h2⟩ := firstLine_spec r
  have hbody := firstLine_no_nl r
  generalize firstLine r = body at h1 hbody
  have hal : (s.take pos).length = pos := by simp [hpos]
  obtain ⟨nl, rest, hnl, hs⟩ : ∃ nl rest, (nl = ['\n'] ∨ (nl = [] ∧ rest = [])) ∧
      s = s.take pos ++ (sp ++ '>' :: body ++ nl) ++ rest := by
    rcases h2 with rfl | ⟨v, rfl⟩
    · refine ⟨[], [], Or.inr ⟨rfl, rfl⟩, ?_⟩
      conv => lhs; rw [← List.take_append_drop pos s, hd, h1]
      simp
    · refine ⟨['\n'], v, Or.inl rfl, ?_⟩
      conv => lhs; rw [← List.take_append_drop pos s, hd, h1]
      simp
  have hn : pos + (sp.length + 1 + body.length + nl.length) ≤ s.length := by
    have := congrArg List.length hs
    simp only [List.length_append, List.length_cons] at this
    rw [hal] at this
    omega
  unfold Py.matchAt Rx.matchAt strictQuoteRxExpected
  rw [hmin]
  simp only [Rx.m]
  obtain ⟨F, hF⟩ : ∃ F, (Py.ctxOf s).n + 1 + 2 - pos = F + 1 + 1 := ⟨s.length - pos + 1, by rw [ctxOf_n]; omega⟩
  rw [hF, repLoop_succ_greedy, canMoreB_true (by intro m hm; cases hm) (Or.inr rfl), if_pos rfl]
  have hK := repLoop_done_isSome (fun i c k => strictLineRx.m (Py.ctxOf s) i c k) 1 none
    (fun j c => some ({ start := pos, stop := j, caps := c } : RxMatch)) F 1
    ((pos + (sp.length + 1 + body.length + nl.length)) != pos) (pos + (sp.length + 1 + body.length + nl.length))
    ((1, (pos, pos + (sp.length + 1 + body.length + nl.length))) :: []) (Nat.le_refl _) rfl
  obtain ⟨res, hres⟩ := Option.isSome_iff_exists.mp hK
  have := strictLine_greedy' s (s.take pos) sp body nl rest hs hnl hsp hlen hbody []
    (fun j c' => repLoop (fun i c k => strictLineRx.m (Py.ctxOf s) i c k) 1 none true
      (fun j c => some ({ start := pos, stop := j, caps := c } : RxMatch)) (F + 1) (0 + 1) (j != pos) j c') res
    (by rw [hal]; exact hres)
  rw [hal] at this
  rw [this]
  rfl

/-- **(4), exactly**: there is a match at `pos` iff the text at `pos` starts with (0–3 blanks) `>` -/
theorem strictQuote_matchAt_isSome_iff (s : Str) (pos : Nat) (hpos : pos ≤ s.length) :
    (Py.matchAt strictQuoteRxExpected (Py.ctxOf s) pos).isSome ↔ QuoteHead (s.drop pos) := by
  constructor
  · intro h
    obtain ⟨mt, hmt⟩ := Option.isSome_iff_exists.mp h
    exact strictQuote_matchAt_sound s pos hpos mt hmt
  · exact strictQuote_matchAt_complete s pos hpos

theorem strictQuote_matchAt_none (s : Str) (pos : Nat) (hpos : pos ≤ s.length) (h : ¬ QuoteHead (s.drop pos)) :
    Py.matchAt strictQuoteRxExpected (Py.ctxOf s) pos = none := by
  cases hm : Py.matchAt strictQuoteRxExpected (Py.ctxOf s) pos with
  | none => rfl
  | some mt =>
    exact absurd ((strictQuote_matchAt_isSome_iff s pos hpos).mp (by rw [hm]; rfl)) h

/-- a decidable test for `QuoteHead` -/
theorem quoteHead_iff (l : Str) : QuoteHead l ↔ l[spRun 3 l]? = some '>' := by
  constructor
  · rintro ⟨sp, rest, rfl, h2, h3⟩
    rw [spRun_run 3 sp _ h2 h3 (fun ch r h => by cases h; decide)]
    simp
  · intro hgt
    obtain ⟨run, rest, h1, h2, h3, h4, _⟩ := spRun_spec 3 l
    refine ⟨run, rest.tail, ?_, h3, by omega⟩
    have : rest.head? = some '>' := by
      rw [← h2] at hgt
      rw [h1, List.getElem?_append_right (Nat.le_refl _), Nat.sub_self] at hgt
      cases rest with
      | nil => simp at hgt
      | cons ch r => simpa using hgt
    cases rest with
    | nil => simp at this
    | cons ch r =>
      simp only [List.head?_cons, Option.some.injEq] at this
      rw [h1, this]; rfl

instance (l : Str) : Decidable (QuoteHead l) := decidable_of_iff _ (quoteHead_iff l).symm

/-- the greedy loop when the last marked line is not terminated (end of the subject): it is taken through `$` -/
theorem strictLoop_open (s : Str) (p : Nat) (sp body : Str) (hsp : ∀ ch ∈ sp, ch = ' ') (hlen : sp.length ≤ 3)
    (hbody : '\n' ∉ body) (lines : List Str) :
    ∀ (a : Str) (fuel cnt : Nat) (pa : Bool) (c : Caps),
      s = a ++ lines.flatten ++ (sp ++ '>' :: body) → (∀ l ∈ lines, QLine l) → (pa = true ∨ cnt = 0) →
      lines.flatten.length + (sp.length + 1 + body.length) + 1 < fuel →
      ∃ c', repLoop (fun i c k => strictLineRx.m (Py.ctxOf s) i c k) 1 none true
          (fun j c => some ({ start := p, stop := j, caps := c } : RxMatch)) fuel cnt pa a.length c =
        some { start := p, stop := a.length + lines.flatten.length + (sp.length + 1 + body.length), caps := c' } := by
  induction lines with
  | nil =>
    intro a fuel cnt pa c hs _ hpa hfuel
    obtain ⟨f, rfl⟩ : ∃ f, fuel = f + 1 := ⟨fuel - 1, by omega⟩
    simp only [List.flatten_nil, List.append_nil, List.length_nil, Nat.add_zero] at hs hfuel ⊢
    have e : (a ++ (sp ++ '>' :: body)).length = a.length + (sp.length + 1 + body.length) := by
      simp only [List.length_append, List.length_cons]; omega
    obtain ⟨c', hc'⟩ := strictLoop_greedy s p [] (by decide) [] (a ++ (sp ++ '>' :: body)) f (cnt + 1)
      ((a.length + (sp.length + 1 + body.length + ([] : Str).length)) != a.length)
      ((1, (a.length, a.length + (sp.length + 1 + body.length + ([] : Str).length))) :: c)
      (by rw [hs]; simp) (by simp) (Or.inl (by simp)) (by simp; omega) (by omega)
    simp only [List.flatten_nil, List.length_nil, Nat.add_zero] at hc'
    rw [e] at hc'
    refine ⟨c', ?_⟩
    rw [repLoop_succ_greedy, canMoreB_true (by intro m hm; cases hm) hpa, if_pos rfl]
    have := strictLine_greedy' s a sp body [] [] (by rw [hs]; simp) (Or.inr ⟨rfl, rfl⟩) hsp hlen hbody c
      (fun j c' => repLoop (fun i c k => strictLineRx.m (Py.ctxOf s) i c k) 1 none true
          (fun j c => some ({ start := p, stop := j, caps := c } : RxMatch)) f (cnt + 1) (j != a.length) j c')
      { start := p, stop := a.length + (sp.length + 1 + body.length), caps := c' } hc'
    rw [this]
  | cons line lines ih =>
    intro a fuel cnt pa c hs hl hpa hfuel
    obtain ⟨f, rfl⟩ : ∃ f, fuel = f + 1 := ⟨fuel - 1, by omega⟩
    have hq := hl line (by simp)
    obtain ⟨sp1, body1, rfl, hsp1, hlen1, hbody1⟩ := hq
    have e : (a ++ (sp1 ++ '>' :: body1 ++ ['\n'])).length = a.length + (sp1.length + 1 + body1.length + 1) := by
      simp only [List.length_append, List.length_cons, List.length_nil]; omega
    have e2 : a.length + ((sp1 ++ '>' :: body1 ++ ['\n']) :: lines).flatten.length =
        a.length + (sp1.length + 1 + body1.length + 1) + lines.flatten.length := by
      simp only [List.flatten_cons, List.length_append, List.length_cons, List.length_nil]; omega
    have hs' : s = (a ++ (sp1 ++ '>' :: body1 ++ ['\n'])) ++ lines.flatten ++ (sp ++ '>' :: body) := by
      rw [hs]; simp
    obtain ⟨c', hc'⟩ := ih (a ++ (sp1 ++ '>' :: body1 ++ ['\n'])) f (cnt + 1)
      ((a.length + (sp1.length + 1 + body1.length + 1)) != a.length)
      ((1, (a.length, a.length + (sp1.length + 1 + body1.length + 1))) :: c) hs'
      (fun l h => hl l (by simp [h])) (Or.inl (by simp)) (by
        simp only [List.flatten_cons, List.length_append, List.length_cons, List.length_nil] at hfuel
        omega)
    rw [e] at hc'
    refine ⟨c', ?_⟩
    rw [repLoop_succ_greedy, canMoreB_true (by intro m hm; cases hm) hpa, if_pos rfl, e2]
    have := strictLine_greedy s a sp1 body1 (lines.flatten ++ (sp ++ '>' :: body)) (by rw [hs]; simp) hsp1 hlen1
      hbody1 c
      (fun j c' => repLoop (fun i c k => strictLineRx.m (Py.ctxOf s) i c k) 1 none true
          (fun j c => some ({ start := p, stop := j, caps := c } : RxMatch)) f (cnt + 1) (j != a.length) j c')
      { start := p,
        stop := a.length + (sp1.length + 1 + body1.length + 1) + lines.flatten.length +
          (sp.length + 1 + body.length), caps := c' }
      hc'
    rw [this]

/-- **(4), the run reaches the end of the subject with an unterminated marked line**: `n ≥ 0` terminated marked lines
and a last one, (0–3 blanks) `>` (no newline)*, at the end of the subject: the match spans everything -/
theorem strictQuote_matchAt_open (pre : Str) (lines : List Str) (sp body : Str) (hl : ∀ l ∈ lines, QLine l)
    (hsp : ∀ ch ∈ sp, ch = ' ') (hlen : sp.length ≤ 3) (hbody : '\n' ∉ body) :
    ∃ caps, Py.matchAt strictQuoteRxExpected (Py.ctxOf (pre ++ lines.flatten ++ (sp ++ '>' :: body))) pre.length =
      some { start := pre.length, stop := (pre ++ lines.flatten ++ (sp ++ '>' :: body)).length, caps := caps } := by
  have hmin : min pre.length (Py.ctxOf (pre ++ lines.flatten ++ (sp ++ '>' :: body))).n = pre.length := by
    rw [ctxOf_n]; simp
  unfold Py.matchAt Rx.matchAt strictQuoteRxExpected
  rw [hmin]
  simp only [Rx.m]
  have e : (pre ++ lines.flatten ++ (sp ++ '>' :: body)).length =
      pre.length + lines.flatten.length + (sp.length + 1 + body.length) := by
    simp only [List.length_append, List.length_cons]; omega
  rw [e]
  exact strictLoop_open _ pre.length sp body hsp hlen hbody lines pre _ 0 false [] rfl hl (Or.inr rfl)
    (by rw [ctxOf_n, e]; omega)


section Examples4

/-- the regenerated regex on the engine, evaluated by the kernel: subject `x\n> foo\n >  x\n\nrest`, position 2: the
match spans the two marked lines (12 characters) -/
example : (Py.matchAt (exCfg.rx "mistune.block_parser._STRICT_BLOCK_QUOTE")
      (Py.ctxOf "x\n> foo\n >  x\n\nrest".toList) 2).map (fun m => (m.start, m.stop)) = some (2, 14) := by
  decide +kernel

/-- `strictQuote_matchAt` instantiated on the same subject (non-vacuity) -/
example : ∃ caps, Py.matchAt strictQuoteRxExpected (Py.ctxOf "x\n> foo\n >  x\n\nrest".toList) 2 =
    some { start := 2, stop := 14, caps := caps } :=
  strictQuote_matchAt "x\n".toList "\nrest".toList ["> foo\n".toList, " >  x\n".toList] (by simp)
    (by
      intro l hl
      simp only [List.mem_cons, List.not_mem_nil, or_false] at hl
      rcases hl with rfl | rfl
      · exact ⟨[], " foo".toList, rfl, by simp, by simp, by decide⟩
      · exact ⟨" ".toList, "  x".toList, rfl, by decide, by decide, by decide⟩)
    (by decide)

/-- four blanks before the marker: not a marked line, the loop stops before it (and there is no match on it) -/
example : ¬ QuoteHead "    > x\n".toList := by decide
example : Py.matchAt strictQuoteRxExpected (Py.ctxOf "> a\n    > x\n".toList) 4 = none :=
  strictQuote_matchAt_none _ 4 (by decide) (by decide)
example : (Py.matchAt strictQuoteRxExpected (Py.ctxOf "> a\n    > x\n".toList) 0).map (·.stop) = some 4 := by
  decide +kernel

/-- a last marked line without newline at the end of the subject is matched too (through `$`) -/
example : (Py.matchAt strictQuoteRxExpected (Py.ctxOf "> a\n>b".toList) 0).map (·.stop) = some 6 := by
  decide +kernel
example : (Py.matchAt strictQuoteRxExpected (Py.ctxOf "> a\n>b".toList) 4).isSome :=
  strictQuote_matchAt_complete _ 4 (by decide) (by decide)

/-- `strictQuote_matchAt_open` instantiated -/
example : ∃ caps, Py.matchAt strictQuoteRxExpected (Py.ctxOf "x\n> a\n>b".toList) 2 =
    some { start := 2, stop := 8, caps := caps } :=
  strictQuote_matchAt_open "x\n".toList ["> a\n".toList] [] "b".toList
    (by
      intro l hl
      simp only [List.mem_cons, List.not_mem_nil, or_false] at hl
      subst hl
      exact ⟨[], " a".toList, rfl, by simp, by simp, by decide⟩)
    (by simp) (by simp) (by decide)

end Examples4

/-! ### (5) the handler -/

/-- the block rule `block_quote`: `^ {0,3}>(?P<quote_1>.*?)$` (re.M) -/
def blockQuoteRuleExpected : Rx :=
  .seq .bol (.seq (.rep (.cls false [.chr 32]) 0 (some 3) true) (.seq (.cls false [.chr 62])
    (.seq (.grp 1 (.rep (.any false) 0 none false)) .eol)))

/-- **Obligation:** in every regenerated configuration the block rule `block_quote` is the expected term. -/
theorem blockQuoteRule_lookup :
    ∀ c ∈ allCfgs, c.blockSpec.lookup "block_quote" = some blockQuoteRuleExpected := by
  decide +kernel

/-- **Obligation:** the group `quote_1` is group 1. -/
theorem quote1_lookup : groupIndex.lookup "quote_1" = some 1 := by decide +kernel

namespace QuoteAux
theorem iter_any {x : RxCtx} {cnt i : Nat} {c : Caps} {j : Nat} {c' : Caps}
    (h : Iter (Spec x (.any false)) cnt i c j c') :
    j = i + cnt ∧ c' = c ∧ ∀ t, t < cnt → i + t < x.n ∧ x.chr (i + t) ≠ 10 := by
  induction h with
  | zero i c => exact ⟨rfl, rfl, fun t ht => by omega⟩
  | @succ n i0 j0 k0 c0 c1 c2 hs _ ih =>
    simp only [Spec] at hs
    obtain ⟨h1, h2, rfl, rfl⟩ := hs
    obtain ⟨rfl, rfl, h3⟩ := ih
    refine ⟨by omega, rfl, ?_⟩
    intro t ht
    cases t with
    | zero => exact ⟨h1, by simpa using h2⟩
    | succ t => have := h3 t (by omega); rwa [show i0 + 1 + t = i0 + (t + 1) by omega] at this
end QuoteAux

/-- what a match of the block rule `block_quote` looks like (from soundness: the span and the group are determined by
the subject) -/
theorem blockQuoteRule_sound (s : Str) (pos : Nat) (mt : RxMatch)
    (h : blockQuoteRuleExpected.matchAt (Py.ctxOf s) pos = some mt) :
    ∃ sp content tl, s.drop pos = sp ++ '>' :: content ++ tl ∧ (∀ ch ∈ sp, ch = ' ') ∧ sp.length ≤ 3 ∧
      '\n' ∉ content ∧ (tl = [] ∨ ∃ v, tl = '\n' :: v) ∧ bolAt s pos ∧ mt.start = pos ∧
      mt.stop = pos + sp.length + 1 + content.length ∧ Py.groupStr (Py.ctxOf s).s mt 1 = some content := by
  obtain ⟨hstart, hs⟩ := matchAt_sound _ _ _ _ h
  unfold blockQuoteRuleExpected at hs
  obtain ⟨i0, c0, hbol, hs⟩ := spec_seq.mp hs
  obtain ⟨hb, rfl, rfl⟩ := spec_bol hbol
  obtain ⟨i1, c1, hrep, hs⟩ := spec_seq.mp hs
  obtain ⟨i2, c2, hgt, hs⟩ := spec_seq.mp hs
  obtain ⟨i3, c3, hg, heol⟩ := spec_seq.mp hs
  obtain ⟨cnt, _, hc2, hit⟩ := spec_rep.mp hrep
  obtain ⟨rfl, rfl, hr⟩ := iter_cls hit
  obtain ⟨sp, hsp1, hsp2, hd⟩ := run_of_forall (· == ' ') cnt s i0
    (fun j hj => cls_at s _ _ (fun ch => clsTest_chr1 pyCats ' ' ch) _ (hr j hj))
  simp only [Spec] at hgt
  obtain ⟨hgt1, hgt2, rfl, rfl⟩ := hgt
  obtain ⟨ch, hch, hp⟩ := cls_at s [.chr 62] (· == '>') (fun ch => clsTest_chr1 pyCats '>' ch) _ ⟨hgt1, hgt2⟩
  have hlt : i0 + cnt < s.length := by rw [ctxOf_n] at hgt1; exact hgt1
  rw [List.getElem?_eq_getElem hlt, Option.some.injEq] at hch
  have hch' : s[i0 + cnt] = '>' := by rw [hch]; simpa using hp
  obtain ⟨c4, hrep2, rfl⟩ := spec_grp.mp hg
  obtain ⟨cnt2, _, _, hit2⟩ := spec_rep.mp hrep2
  obtain ⟨rfl, rfl, hr2⟩ := iter_any hit2
  obtain ⟨content, hco1, hco2, hd2⟩ := run_of_forall (· != '\n') cnt2 s (i0 + cnt + 1) (fun t ht => by
    obtain ⟨h1, h2⟩ := hr2 t ht
    rw [ctxOf_n] at h1
    refine ⟨s[i0 + cnt + 1 + t], List.getElem?_eq_getElem h1, ?_⟩
    rw [ctxOf_chr, List.getElem?_eq_getElem h1, Option.getD_some] at h2
    simp only [bne_iff_ne, ne_eq]
    intro e
    rw [e] at h2
    exact h2 rfl)
  simp only [Spec] at heol
  obtain ⟨heol1, hstop, hcaps⟩ := heol
  rw [ctxOf_n] at heol1
  refine ⟨sp, content, s.drop (i0 + cnt + 1 + cnt2), ?_, fun ch hch => by simpa using hsp2 ch hch,
    by have := hc2 3 rfl; omega, ?_, ?_, hb, hstart, by omega, ?_⟩
  · rw [hd, List.drop_eq_getElem_cons hlt, hch', hd2]; simp
  · intro e
    have := hco2 _ e
    simp at this
  · rcases heol1 with h | ⟨h1, h2⟩
    · left; rw [h, List.drop_length]
    · right
      rw [ctxOf_chr, List.getElem?_eq_getElem h1, Option.getD_some] at h2
      have : s[i0 + cnt + 1 + cnt2] = '\n' := Char.toNat_inj.mp h2
      exact ⟨_, by rw [List.drop_eq_getElem_cons h1, this]⟩
  · have htake : (s.drop (i0 + cnt + 1)).take cnt2 = content := by
      rw [hd2, List.take_left' hco1]
    simp [Py.groupStr, RxMatch.group, hcaps, Caps.get, ctxOf_s, slice_toArray, htake]

/-- the first line of the quote: `expand_leading_tab(q1 + "\n", 3)` then `_BLOCK_QUOTE_TRIM.sub("")` -/
def firstQuoteLine (q1 : Str) : Str := dropUpTo 1 (expandLineW 3 q1)

namespace QuoteAux
theorem subLines_line_end (f : Str → Str) (hf : f [] = []) (l : Str) (h : '\n' ∉ l) :
    subLines f (l ++ ['\n']) = f l ++ ['\n'] := by
  rw [show l ++ ['\n'] = l ++ '\n' :: [] from rfl, subLines_line_nl f l [] h, subLines_nil, hf]
end QuoteAux

theorem firstText_eq (cfg : MdCfg) (hcfg : cfg.named = Generated.namedRx) (q1 : Str) (h : '\n' ∉ q1) :
    Py.reSub (cfg.rx "mistune.block_parser._BLOCK_QUOTE_TRIM") (fun _ _ => [])
      (expandLeadingTab cfg (q1 ++ ['\n']) 3) = firstQuoteLine q1 ++ ['\n'] := by
  rw [rx_of_lookup cfg _ _ (by rw [hcfg]; exact quoteTrimRx_lookup),
    expandLeadingTab_eq cfg (by rw [hcfg]; exact expandTabRx_lookup)]
  unfold quoteTrimRxExpected
  rw [reSub_trim 1, trimLines_eq_subLines, subLines_line_end _ (by decide) _ h,
    subLines_line_end _ (by decide) _ (expandLineW_no_nl 3 _ h)]
  rfl

theorem extractBlockQuote_marker (cfg : MdCfg) (hcfg : cfg.named = Generated.namedRx) (pm : ParseMethod)
    (mt : RxMatch) (st : BlockState) (pre rest q1 : Str) (lines : List Str) (sc : List (String × Rx))
    (hx : st.x = Py.ctxOf (pre ++ lines.flatten ++ rest)) (hstop : mt.stop + 1 = pre.length)
    (hq1 : grp cfg st mt "quote_1" = q1) (hq1nl : '\n' ∉ q1)
    (hsc : compileSc cfg ["blank_line", "indent_code", "fenced_code"] = .ok sc)
    (hreq : (scMatch (Py.ctxOf (firstQuoteLine q1 ++ ['\n'])) sc 0).isSome = true)
    (hl : ∀ l ∈ lines, QLine l) (hrest : ¬ QuoteHead rest) :
    extractBlockQuote cfg pm mt st =
      .ok (expandTab cfg (firstQuoteLine q1 ++ '\n' :: subLines quoteLine lines.flatten), none,
        { st with cursor := pre.length + lines.flatten.length }) := by
  unfold extractBlockQuote
  have hok : ∀ {α : Type} (a : α), (Except.ok a : Except PyErr α) = pure a := fun _ => rfl
  simp only [hq1, firstText_eq cfg hcfg q1 hq1nl, hsc, hok, pure_bind, hreq, if_true]
  rw [rx_of_lookup cfg _ _ (by rw [hcfg]; exact strictQuoteRx_lookup), hx, hstop]
  cases lines with
  | nil =>
    simp only [List.flatten_nil, List.append_nil]
    rw [strictQuote_matchAt_none _ _ (by simp) (by simpa using hrest)]
    simp only [subLines_nil, quoteLine_nil]
    rw [← hstop]
    rfl
  | cons l ls =>
    obtain ⟨caps, hm⟩ := strictQuote_matchAt pre rest (l :: ls) (by simp) hl hrest
    rw [hm]
    simp only [grp0, ctxOf_s, slice_toArray]
    have e : List.take (pre.length + (l :: ls).flatten.length - pre.length)
        (List.drop pre.length (pre ++ (l :: ls).flatten ++ rest)) = (l :: ls).flatten := by
      rw [List.append_assoc, List.drop_left' rfl, Nat.add_sub_cancel_left, List.take_left' rfl]
    rw [e, cleanQuote_eq cfg hcfg]
    simp only [List.append_assoc, List.singleton_append]
    rfl

/-! #### the lazy branch: the loop -/

/-- `prev_blank_line` after a run of marked lines whose cleaned text is `quote` -/
def blankEnd (cfg : MdCfg) (quote : Str) : Bool :=
  if (Py.strip quote).isEmpty then true
  else ((cfg.rx "mistune.block_parser._LINE_BLANK_END").search (Py.ctxOf quote) 0).isSome

/-- one iteration on a run of marked lines: the whole run is taken, cleaned and appended -/
theorem extractQuoteLoop_run (cfg : MdCfg) (hcfg : cfg.named = Generated.namedRx) (pm : ParseMethod)
    (breakSc : List (String × Rx)) (fuel : Nat) (text : Str) (pbl : Bool) (endPos : Option Nat) (st : BlockState)
    (pre rest : Str) (lines : List Str)
    (hx : st.x = Py.ctxOf (pre ++ lines.flatten ++ rest)) (hcur : st.cursor = pre.length)
    (hmax : st.cursorMax = (pre ++ lines.flatten ++ rest).length)
    (hne : lines ≠ []) (hl : ∀ l ∈ lines, QLine l) (hrest : ¬ QuoteHead rest) :
    extractQuoteLoop cfg pm breakSc (fuel + 1) text pbl endPos st =
      extractQuoteLoop cfg pm breakSc fuel (text ++ subLines quoteLine lines.flatten)
        (blankEnd cfg (subLines quoteLine lines.flatten)) endPos
        { st with cursor := pre.length + lines.flatten.length } := by
  obtain ⟨caps, hm⟩ := strictQuote_matchAt pre rest lines hne hl hrest
  have hlt : st.cursor < st.cursorMax := by
    rw [hcur, hmax]
    cases lines with
    | nil => exact absurd rfl hne
    | cons l ls =>
      have := qLine_length (hl l (by simp))
      simp only [List.flatten_cons, List.length_append]
      omega
  have e : List.take (pre.length + lines.flatten.length - pre.length)
      (List.drop pre.length (pre ++ lines.flatten ++ rest)) = lines.flatten := by
    rw [List.append_assoc, List.drop_left' rfl, Nat.add_sub_cancel_left, List.take_left' rfl]
  rw [extractQuoteLoop, if_pos hlt, rx_of_lookup cfg _ _ (by rw [hcfg]; exact strictQuoteRx_lookup), hx, hcur, hm]
  have hgrp : Py.slice st.x.s pre.length (pre.length + lines.flatten.length) = lines.flatten := by
    rw [hx, ctxOf_s, slice_toArray]; exact e
  simp only [grp0, hgrp, cleanQuote_eq cfg hcfg]
  rfl

theorem extractQuoteLoop_end (cfg : MdCfg) (pm : ParseMethod) (breakSc : List (String × Rx)) (fuel : Nat)
    (text : Str) (pbl : Bool) (endPos : Option Nat) (st : BlockState) (h : ¬ st.cursor < st.cursorMax) :
    extractQuoteLoop cfg pm breakSc fuel text pbl endPos st = .ok (text, endPos, st) := by
  cases fuel with
  | zero => rw [extractQuoteLoop, if_neg h]
  | succ f => rw [extractQuoteLoop, if_neg h]

/-- the loop stops at a position without marker when the previous run ended with a blank line -/
theorem extractQuoteLoop_blank (cfg : MdCfg) (hcfg : cfg.named = Generated.namedRx) (pm : ParseMethod)
    (breakSc : List (String × Rx)) (fuel : Nat) (hf : 0 < fuel) (text : Str) (endPos : Option Nat)
    (st : BlockState) (s : Str) (hx : st.x = Py.ctxOf s) (hlt : st.cursor < st.cursorMax)
    (hle : st.cursor ≤ s.length) (hnq : ¬ QuoteHead (s.drop st.cursor)) :
    extractQuoteLoop cfg pm breakSc fuel text true endPos st = .ok (text, endPos, st) := by
  obtain ⟨f, rfl⟩ : ∃ f, fuel = f + 1 := ⟨fuel - 1, by omega⟩
  rw [extractQuoteLoop, if_pos hlt, rx_of_lookup cfg _ _ (by rw [hcfg]; exact strictQuoteRx_lookup), hx,
    strictQuote_matchAt_none s _ hle hnq]
  rfl

/-- the loop stops at a position without marker where a break rule matches and its handler accepts -/
theorem extractQuoteLoop_break (cfg : MdCfg) (hcfg : cfg.named = Generated.namedRx) (pm : ParseMethod)
    (breakSc : List (String × Rx)) (fuel : Nat) (hf : 0 < fuel) (text : Str) (endPos : Option Nat)
    (st : BlockState) (s : Str) (hx : st.x = Py.ctxOf s) (hlt : st.cursor < st.cursorMax)
    (hle : st.cursor ≤ s.length) (hnq : ¬ QuoteHead (s.drop st.cursor))
    (name : String) (m4 : RxMatch) (ep : Option Nat) (st2 : BlockState)
    (hsc : scMatch st.x breakSc st.cursor = some (name, m4)) (hpm : pm name m4 st = .ok (ep, st2))
    (ht : truthyPos ep = true) :
    extractQuoteLoop cfg pm breakSc fuel text false endPos st = .ok (text, ep, st2) := by
  obtain ⟨f, rfl⟩ : ∃ f, fuel = f + 1 := ⟨fuel - 1, by omega⟩
  have hm : Py.matchAt (cfg.rx "mistune.block_parser._STRICT_BLOCK_QUOTE") st.x st.cursor = none := by
    rw [rx_of_lookup cfg _ _ (by rw [hcfg]; exact strictQuoteRx_lookup), hx, strictQuote_matchAt_none s _ hle hnq]
  rw [extractQuoteLoop, if_pos hlt, hm]
  simp only [Bool.false_eq_true, if_false, hsc, hpm]
  have hok : ∀ {α : Type} (a : α), (Except.ok a : Except PyErr α) = pure a := fun _ => rfl
  simp only [hok, pure_bind, ht, if_true]

/-- the loop on a canonical quote: the run of marked lines (possibly empty) is taken in one iteration; what happens at
the position after it is left to `hterm` -/
theorem extractQuoteLoop_canon (cfg : MdCfg) (hcfg : cfg.named = Generated.namedRx) (pm : ParseMethod)
    (breakSc : List (String × Rx)) (fuel : Nat) (hf : 2 ≤ fuel) (text : Str) (endPos : Option Nat) (st : BlockState)
    (pre rest : Str) (lines : List Str)
    (hx : st.x = Py.ctxOf (pre ++ lines.flatten ++ rest)) (hcur : st.cursor = pre.length)
    (hmax : st.cursorMax = (pre ++ lines.flatten ++ rest).length)
    (hl : ∀ l ∈ lines, QLine l) (hrest : ¬ QuoteHead rest) (R : Except PyErr (Str × Option Nat × BlockState))
    (hterm : ∀ f, 0 < f → extractQuoteLoop cfg pm breakSc f (text ++ subLines quoteLine lines.flatten)
      (!lines.isEmpty && blankEnd cfg (subLines quoteLine lines.flatten)) endPos
      { st with cursor := pre.length + lines.flatten.length } = R) :
    extractQuoteLoop cfg pm breakSc fuel text false endPos st = R := by
  cases lines with
  | nil =>
    have := hterm fuel (by omega)
    simp only [List.flatten_nil, subLines_nil, quoteLine_nil, List.append_nil, List.length_nil, Nat.add_zero,
      List.isEmpty_nil, Bool.not_true, Bool.false_and, ← hcur] at this
    exact this
  | cons l ls =>
    obtain ⟨f, rfl⟩ : ∃ f, fuel = f + 1 := ⟨fuel - 1, by omega⟩
    rw [extractQuoteLoop_run cfg hcfg pm breakSc f text false endPos st pre rest (l :: ls) hx hcur hmax (by simp) hl
      hrest]
    have := hterm f (by omega)
    simp only [List.isEmpty_cons, Bool.not_false, Bool.true_and] at this
    exact this

/-! #### `extract_block_quote` on a canonical quote, lazy branch -/

/-- common part: the first line is not blank / indented code / a fence (`require_marker = False`); the run of marked
lines that follows is taken by the first iteration of the loop; what happens after it is left to `hterm` -/
theorem extractBlockQuote_lazy_of (cfg : MdCfg) (hcfg : cfg.named = Generated.namedRx) (pm : ParseMethod)
    (mt : RxMatch) (st : BlockState) (pre rest q1 : Str) (lines : List Str) (sc breakSc : List (String × Rx))
    (hx : st.x = Py.ctxOf (pre ++ lines.flatten ++ rest)) (hstop : mt.stop + 1 = pre.length)
    (hmax : st.cursorMax = (pre ++ lines.flatten ++ rest).length)
    (hq1 : grp cfg st mt "quote_1" = q1) (hq1nl : '\n' ∉ q1)
    (hsc : compileSc cfg ["blank_line", "indent_code", "fenced_code"] = .ok sc)
    (hreq : (scMatch (Py.ctxOf (firstQuoteLine q1 ++ ['\n'])) sc 0).isSome = false)
    (hbsc : compileSc cfg ["blank_line", "thematic_break", "fenced_code", "list", "block_html"] = .ok breakSc)
    (hl : ∀ l ∈ lines, QLine l) (hrest : ¬ QuoteHead rest) (ep : Option Nat) (st2 : BlockState)
    (hterm : ∀ f, 0 < f → extractQuoteLoop cfg pm breakSc f
      (firstQuoteLine q1 ++ '\n' :: subLines quoteLine lines.flatten)
      (!lines.isEmpty && blankEnd cfg (subLines quoteLine lines.flatten)) none
      { st with cursor := pre.length + lines.flatten.length } =
        .ok (firstQuoteLine q1 ++ '\n' :: subLines quoteLine lines.flatten, ep, st2)) :
    extractBlockQuote cfg pm mt st =
      .ok (expandTab cfg (firstQuoteLine q1 ++ '\n' :: subLines quoteLine lines.flatten), ep, st2) := by
  unfold extractBlockQuote
  have hok : ∀ {α : Type} (a : α), (Except.ok a : Except PyErr α) = pure a := fun _ => rfl
  simp only [hq1, firstText_eq cfg hcfg q1 hq1nl, hsc, hbsc, hok, pure_bind, hreq, Bool.false_eq_true, if_false]
  have hpos : 2 ≤ st.cursorMax + 1 := by
    rw [hmax]; simp only [List.length_append]; omega
  rw [extractQuoteLoop_canon cfg hcfg pm breakSc _ hpos _ none { st with cursor := mt.stop + 1 } pre rest lines hx
    hstop hmax hl hrest (pure (firstQuoteLine q1 ++ '\n' :: subLines quoteLine lines.flatten, ep, st2)) (by
      intro f hf
      have := hterm f hf
      simp only [List.append_assoc, List.singleton_append]
      exact this)]
  rfl

/-- **(5), lazy branch, the quote ends the subject.** -/
theorem extractBlockQuote_lazy_eos (cfg : MdCfg) (hcfg : cfg.named = Generated.namedRx) (pm : ParseMethod)
    (mt : RxMatch) (st : BlockState) (pre q1 : Str) (lines : List Str) (sc breakSc : List (String × Rx))
    (hx : st.x = Py.ctxOf (pre ++ lines.flatten)) (hstop : mt.stop + 1 = pre.length)
    (hmax : st.cursorMax = (pre ++ lines.flatten).length)
    (hq1 : grp cfg st mt "quote_1" = q1) (hq1nl : '\n' ∉ q1)
    (hsc : compileSc cfg ["blank_line", "indent_code", "fenced_code"] = .ok sc)
    (hreq : (scMatch (Py.ctxOf (firstQuoteLine q1 ++ ['\n'])) sc 0).isSome = false)
    (hbsc : compileSc cfg ["blank_line", "thematic_break", "fenced_code", "list", "block_html"] = .ok breakSc)
    (hl : ∀ l ∈ lines, QLine l) :
    extractBlockQuote cfg pm mt st =
      .ok (expandTab cfg (firstQuoteLine q1 ++ '\n' :: subLines quoteLine lines.flatten), none,
        { st with cursor := pre.length + lines.flatten.length }) := by
  apply extractBlockQuote_lazy_of cfg hcfg pm mt st pre [] q1 lines sc breakSc (by simpa using hx) hstop
    (by simpa using hmax) hq1 hq1nl hsc hreq hbsc hl (by decide)
  intro f _
  apply extractQuoteLoop_end
  simp only [hmax, List.length_append]
  omega

/-- **(5), lazy branch, the run of marked lines ends with a blank quoted line** (`>` alone, …: `prev_blank_line`) and
is followed by a line without marker: the quote ends there, whatever that line is. -/
theorem extractBlockQuote_lazy_blank (cfg : MdCfg) (hcfg : cfg.named = Generated.namedRx) (pm : ParseMethod)
    (mt : RxMatch) (st : BlockState) (pre rest q1 : Str) (lines : List Str) (sc breakSc : List (String × Rx))
    (hx : st.x = Py.ctxOf (pre ++ lines.flatten ++ rest)) (hstop : mt.stop + 1 = pre.length)
    (hmax : st.cursorMax = (pre ++ lines.flatten ++ rest).length)
    (hq1 : grp cfg st mt "quote_1" = q1) (hq1nl : '\n' ∉ q1)
    (hsc : compileSc cfg ["blank_line", "indent_code", "fenced_code"] = .ok sc)
    (hreq : (scMatch (Py.ctxOf (firstQuoteLine q1 ++ ['\n'])) sc 0).isSome = false)
    (hbsc : compileSc cfg ["blank_line", "thematic_break", "fenced_code", "list", "block_html"] = .ok breakSc)
    (hl : ∀ l ∈ lines, QLine l) (hrest : ¬ QuoteHead rest) (hne : rest ≠ [])
    (hbl : (!lines.isEmpty && blankEnd cfg (subLines quoteLine lines.flatten)) = true) :
    extractBlockQuote cfg pm mt st =
      .ok (expandTab cfg (firstQuoteLine q1 ++ '\n' :: subLines quoteLine lines.flatten), none,
        { st with cursor := pre.length + lines.flatten.length }) := by
  apply extractBlockQuote_lazy_of cfg hcfg pm mt st pre rest q1 lines sc breakSc hx hstop hmax hq1 hq1nl hsc hreq hbsc
    hl hrest
  intro f hf
  rw [hbl]
  have hlen : 0 < rest.length := List.length_pos_iff.mpr hne
  apply extractQuoteLoop_blank cfg hcfg pm breakSc f hf _ none { st with cursor := pre.length + lines.flatten.length }
    (pre ++ lines.flatten ++ rest) hx
  · simp only [hmax, List.length_append]; omega
  · simp only [List.length_append]; omega
  · rw [show pre.length + lines.flatten.length = (pre ++ lines.flatten).length by simp, List.drop_left' rfl]
    exact hrest

/-- **(5), lazy branch, the run of marked lines is followed by a line on which a break rule (blank line, thematic
break, fence, list, block HTML) matches and whose handler accepts** — e.g. the blank line after the quote: the quote
ends there, `end_pos` and the state are those of the handler. -/
theorem extractBlockQuote_lazy_break (cfg : MdCfg) (hcfg : cfg.named = Generated.namedRx) (pm : ParseMethod)
    (mt : RxMatch) (st : BlockState) (pre rest q1 : Str) (lines : List Str) (sc breakSc : List (String × Rx))
    (hx : st.x = Py.ctxOf (pre ++ lines.flatten ++ rest)) (hstop : mt.stop + 1 = pre.length)
    (hmax : st.cursorMax = (pre ++ lines.flatten ++ rest).length)
    (hq1 : grp cfg st mt "quote_1" = q1) (hq1nl : '\n' ∉ q1)
    (hsc : compileSc cfg ["blank_line", "indent_code", "fenced_code"] = .ok sc)
    (hreq : (scMatch (Py.ctxOf (firstQuoteLine q1 ++ ['\n'])) sc 0).isSome = false)
    (hbsc : compileSc cfg ["blank_line", "thematic_break", "fenced_code", "list", "block_html"] = .ok breakSc)
    (hl : ∀ l ∈ lines, QLine l) (hrest : ¬ QuoteHead rest) (hne : rest ≠ [])
    (hbl : (!lines.isEmpty && blankEnd cfg (subLines quoteLine lines.flatten)) = false)
    (name : String) (m4 : RxMatch) (ep : Option Nat) (st2 : BlockState)
    (hbr : scMatch st.x breakSc (pre.length + lines.flatten.length) = some (name, m4))
    (hpm : pm name m4 { st with cursor := pre.length + lines.flatten.length } = .ok (ep, st2))
    (ht : truthyPos ep = true) :
    extractBlockQuote cfg pm mt st =
      .ok (expandTab cfg (firstQuoteLine q1 ++ '\n' :: subLines quoteLine lines.flatten), ep, st2) := by
  apply extractBlockQuote_lazy_of cfg hcfg pm mt st pre rest q1 lines sc breakSc hx hstop hmax hq1 hq1nl hsc hreq hbsc
    hl hrest
  intro f hf
  rw [hbl]
  have hlen : 0 < rest.length := List.length_pos_iff.mpr hne
  apply extractQuoteLoop_break cfg hcfg pm breakSc f hf _ none { st with cursor := pre.length + lines.flatten.length }
    (pre ++ lines.flatten ++ rest) hx _ _ _ name m4 ep st2 hbr hpm ht
  · simp only [hmax, List.length_append]; omega
  · simp only [List.length_append]; omega
  · rw [show pre.length + lines.flatten.length = (pre ++ lines.flatten).length by simp, List.drop_left' rfl]
    exact hrest

/-! #### `parse_block_quote` -/

/-- the children of the `block_quote` token are the tokens of the parse of exactly the extracted text -/
theorem parseBlockQuote_of (cfg : MdCfg) (pm : ParseMethod) (mt : RxMatch) (st : BlockState) (text : Str)
    (endPos : Option Nat) (st1 child : BlockState)
    (hext : extractBlockQuote cfg pm mt st = .ok (text, endPos, st1))
    (hchild : parse cfg pm (st1.childState text)
      (some (if st1.depth + 1 ≥ cfg.maxNested then withoutContainers cfg.quoteRules else cfg.quoteRules)) =
        .ok child) :
    parseBlockQuote cfg pm mt st =
      .ok (if truthyPos endPos = true then
          (endPos, { st1 with env := child.env,
                              tokens := listInsert st1.tokens st.tokens.length
                                (tok "block_quote" [("children", .arr child.tokens)]) })
        else (some st1.cursor,
          ({ st1 with env := child.env } : BlockState).appendToken
            (tok "block_quote" [("children", .arr child.tokens)]))) := by
  unfold parseBlockQuote
  have hok : ∀ {α : Type} (a : α), (Except.ok a : Except PyErr α) = pure a := fun _ => rfl
  simp only [hext, hchild, hok, pure_bind]
  split <;> rfl

section Examples5

/-- the scanners of `extract_block_quote` in the core configuration -/
def quoteExSc : List (String × Rx) := [("blank_line", rx1), ("indent_code", rx7), ("fenced_code", rx6)]
/-- a `parse_method` for the examples: only the handler of `blank_line` is bound -/
def quoteExPm : ParseMethod := fun name mt st =>
  if name == "blank_line" then parseBlankLine mt st else .error .keyError

def quoteExBreakSc : List (String × Rx) :=
  [("blank_line", rx1), ("thematic_break", rx18), ("fenced_code", rx6), ("list", rx8), ("block_html", rx2)]

example : compileSc exCfg ["blank_line", "indent_code", "fenced_code"] = .ok quoteExSc := rfl
example : compileSc exCfg ["blank_line", "thematic_break", "fenced_code", "list", "block_html"] = .ok quoteExBreakSc := rfl

/-- the rule regex on the engine: on `> foo\n> bar\n` it matches `[0, 5)` with `quote_1 = [1, 5)` -/
example : (blockQuoteRuleExpected.matchAt (Py.ctxOf "> foo\n> bar\n".toList) 0).map
    (fun m => (m.start, m.stop, m.caps)) = some (0, 5, [(1, (1, 5))]) := by decide +kernel

/-- **non-vacuity of `extractBlockQuote_lazy_eos`**: the quote `> foo\n> bar\n` at the end of the subject; the child
text is `foo\nbar\n`, the cursor ends at 11 -/
example (pm : ParseMethod) :
    extractBlockQuote exCfg pm { start := 0, stop := 5, caps := [(1, (1, 5))] }
        (BlockState.root ("> foo\n".toList ++ ["> bar\n".toList].flatten)) =
      .ok (expandTab exCfg (firstQuoteLine " foo".toList ++ '\n' :: subLines quoteLine ["> bar\n".toList].flatten),
        none, { BlockState.root ("> foo\n".toList ++ ["> bar\n".toList].flatten) with cursor := 6 + 6 }) :=
  extractBlockQuote_lazy_eos exCfg rfl pm _ _ "> foo\n".toList " foo".toList ["> bar\n".toList] quoteExSc quoteExBreakSc
    rfl rfl rfl (by decide +kernel) (by decide) rfl (by decide +kernel) rfl
    (by
      intro l hl
      simp only [List.mem_cons, List.not_mem_nil, or_false] at hl
      subst hl
      exact ⟨[], " bar".toList, rfl, by simp, by simp, by decide⟩)

example : expandTab exCfg (firstQuoteLine " foo".toList ++ '\n' :: subLines quoteLine ["> bar\n".toList].flatten) =
    "foo\nbar\n".toList := by decide +kernel

end Examples5

/-! #### the extracted text, verbatim -/

namespace QuoteAux
theorem tabHead_cons_sp (l : Str) (h : TabHead (' ' :: l)) : TabHead l := by
  obtain ⟨sp, rest, he, hsp, hlen⟩ := h
  cases sp with
  | nil => simp at he
  | cons ch sp' =>
    simp only [List.cons_append, List.cons.injEq] at he
    exact ⟨sp', rest, he.2, fun c hc => hsp c (by simp [hc]), by simp at hlen; omega⟩
end QuoteAux

/-- first line `> l0` -/
theorem firstQuoteLine_spaced (l0 : Str) (h : ¬ TabHead (' ' :: l0)) : firstQuoteLine (' ' :: l0) = l0 := by
  unfold firstQuoteLine
  rw [expandLineW_other 3 _ h]
  simp [dropUpTo]

/-- first line `>l0`, `l0` not starting with a blank or a tab -/
theorem firstQuoteLine_tight (l0 : Str) (h1 : l0.head? ≠ some ' ') (h2 : l0.head? ≠ some '\t') :
    firstQuoteLine l0 = l0 := by
  have := quoteLine_tight [] l0 (by simp) h1 h2
  rw [quoteLine_marked [] l0 (by simp)] at this
  exact this

namespace QuoteAux
/-- `expand_tab` leaves a text alone none of whose lines starts with (≤ 3 blanks) tab -/
theorem expandTab_id (cfg : MdCfg) (hcfg : cfg.named = Generated.namedRx) (ls : List Str)
    (h : ∀ l ∈ ls, ¬ TabHead l ∧ '\n' ∉ l) :
    expandTab cfg (ls.map (· ++ ['\n'])).flatten = (ls.map (· ++ ['\n'])).flatten := by
  rw [expandTab_eq cfg hcfg, subLines_flatten expandTab4 (by decide) ls (fun l hl => (h l hl).2)]
  congr 1
  apply List.map_congr_left
  intro l hl
  rw [expandTab4_other l (h l hl).1]
end QuoteAux

/-- **the child text of a quote, verbatim**: the first content line `l0` and the content lines of the marked lines, each
followed by a newline — provided no content line starts with (≤ 3 blanks) tab -/
theorem quoteText_verbatim (cfg : MdCfg) (hcfg : cfg.named = Generated.namedRx) (q1 l0 : Str)
    (segs : List (Str × Str)) (h0 : firstQuoteLine q1 = l0) (hl0 : ¬ TabHead l0 ∧ '\n' ∉ l0)
    (hseg : ∀ p ∈ segs, Marked p.1 p.2 ∧ '\n' ∉ p.2 ∧ ¬ TabHead p.2) :
    expandTab cfg (firstQuoteLine q1 ++ '\n' :: subLines quoteLine (segs.map (fun p => p.1 ++ ['\n'])).flatten) =
      ((l0 :: segs.map (·.2)).map (· ++ ['\n'])).flatten := by
  rw [h0, subLines_quoteLine_marked segs (fun p hp => ⟨(hseg p hp).1, (hseg p hp).2.1⟩)]
  have := expandTab_id cfg hcfg (l0 :: segs.map (·.2)) (by
    intro l hl
    rcases List.mem_cons.mp hl with rfl | hl
    · exact hl0
    · obtain ⟨p, hp, rfl⟩ := List.mem_map.mp hl
      exact ⟨(hseg p hp).2.2, (hseg p hp).2.1⟩)
  simp only [List.map_cons, List.flatten_cons, List.map_map, List.append_assoc, List.singleton_append] at this ⊢
  exact this

/-! #### composition with `fenced_closed_verbatim`: a fenced code block inside a block quote -/

namespace QuoteAux
theorem closer_no_tabHead (c : Char) (m : Nat) (sp bl : Str) (hc1 : c ≠ ' ') (hc2 : c ≠ '\t') (hm : 1 ≤ m)
    (hsp : ∀ ch ∈ sp, ch = ' ') (hsp3 : sp.length ≤ 3) : ¬ TabHead (sp ++ List.replicate m c ++ bl) := by
  obtain ⟨m', rfl⟩ : ∃ m', m = m' + 1 := ⟨m - 1, by omega⟩
  rw [tabHead_iff, List.append_assoc, List.replicate_succ, List.cons_append,
    spRun_run 3 sp _ hsp hsp3 (fun ch r h => by cases h; exact hc1)]
  simp only [List.getElem?_append_right (Nat.le_refl _), Nat.sub_self, List.getElem?_cons_zero, Option.some.injEq]
  exact hc2
end QuoteAux

namespace QuoteAux
theorem closer_no_nl (c : Char) (m : Nat) (sp bl : Str) (hc3 : c ≠ '\n') (hsp : ∀ ch ∈ sp, ch = ' ')
    (hbl : ∀ ch ∈ bl, isBlank ch = true) : '\n' ∉ sp ++ List.replicate m c ++ bl := by
  intro e
  rcases List.mem_append.mp e with e | e
  · rcases List.mem_append.mp e with e | e
    · exact absurd (hsp _ e) (by decide)
    · exact hc3 (List.eq_of_mem_replicate e).symm
  · exact absurd (hbl _ e) (by decide)
end QuoteAux

/-- the marked form `ind> l\n` of a content line -/
def markLine (p : Str × Str) : Str := p.1 ++ '>' :: ' ' :: p.2 ++ ['\n']

/-- **`quoted_fenced_verbatim`.**  A block quote whose first line is `> opener` (a fence opener: the hypothesis `hreq`
says that one of `blank_line`, `indent_code`, `fenced_code` matches it), followed by the marked lines `ind> l` of the
body lines `l` and of a closing fence line, then by a text `rest` that does not start with a marker.  No content line
starts with (≤ 3 blanks) tab, no body line is a closing fence line.  Then

* `extract_block_quote` returns as child text exactly the content lines (opener, body, closer), each followed by a
  newline, and the cursor after the run of marked lines;
* on that child text, the code of the fenced block (`fencedBody`, the computation of `parse_fenced_code`, started after
  the opener line) is exactly the body lines (each stripped of up to `k` leading blanks, `k` the indentation of the
  opener) — the body of a fenced code block written inside a block quote with `> ` prefixes is verbatim. -/
theorem quoted_fenced_verbatim (cfg : MdCfg) (hcfg : cfg.named = Generated.namedRx) (pm : ParseMethod)
    (mt : RxMatch) (st : BlockState) (pre rest opener : Str) (body : List (Str × Str)) (indc sp bl : Str)
    (c : Char) (n k m : Nat) (sc : List (String × Rx))
    (hc1 : c ≠ ' ') (hc2 : c ≠ '\t') (hc3 : c ≠ '\n') (hn : 1 ≤ n)
    (hopen : ¬ TabHead opener ∧ '\n' ∉ opener)
    (hbody : ∀ p ∈ body, (∀ ch ∈ p.1, ch = ' ') ∧ p.1.length ≤ 3 ∧ '\n' ∉ p.2 ∧ ¬ TabHead p.2 ∧
      isCloser c n p.2 = false)
    (hindc : (∀ ch ∈ indc, ch = ' ') ∧ indc.length ≤ 3)
    (hsp : ∀ ch ∈ sp, ch = ' ') (hsp3 : sp.length ≤ 3) (hm : n ≤ m) (hbl : ∀ ch ∈ bl, isBlank ch = true)
    (hx : st.x = Py.ctxOf (pre ++
      ((body ++ [(indc, sp ++ List.replicate m c ++ bl)]).map markLine).flatten ++ rest))
    (hstop : mt.stop + 1 = pre.length) (hq1 : grp cfg st mt "quote_1" = ' ' :: opener)
    (hsc : compileSc cfg ["blank_line", "indent_code", "fenced_code"] = .ok sc)
    (hreq : (scMatch (Py.ctxOf (opener ++ ['\n'])) sc 0).isSome = true)
    (hrest : ¬ QuoteHead rest) :
    extractBlockQuote cfg pm mt st =
      .ok (opener ++ '\n' :: (body.map (·.2 ++ ['\n'])).flatten ++ (sp ++ List.replicate m c ++ bl) ++ ['\n'], none,
        { st with cursor := pre.length +
          ((body ++ [(indc, sp ++ List.replicate m c ++ bl)]).map markLine).flatten.length }) ∧
    fencedBody
        (Py.ctxOf (opener ++ '\n' :: (body.map (·.2 ++ ['\n'])).flatten ++ (sp ++ List.replicate m c ++ bl) ++ ['\n']))
        (opener ++ '\n' :: (body.map (·.2 ++ ['\n'])).flatten ++ (sp ++ List.replicate m c ++ bl) ++ ['\n']).length
        c n k (opener.length + 1) =
      ((body.map (fun p => dropUpTo k p.2 ++ ['\n'])).flatten,
        (opener ++ '\n' :: (body.map (·.2 ++ ['\n'])).flatten ++ (sp ++ List.replicate m c ++ bl) ++ ['\n']).length) := by
  have hcl1 := closer_no_tabHead c m sp bl hc1 hc2 (by omega) hsp hsp3
  have hcl2 := closer_no_nl c m sp bl hc3 hsp hbl
  generalize hcloser : sp ++ List.replicate m c ++ bl = closer at *
  have hfirst : firstQuoteLine (' ' :: opener) = opener :=
    firstQuoteLine_spaced opener (fun e => hopen.1 (tabHead_cons_sp _ e))
  constructor
  · have hall : ∀ p ∈ body ++ [(indc, closer)],
        (∀ ch ∈ p.1, ch = ' ') ∧ p.1.length ≤ 3 ∧ '\n' ∉ p.2 ∧ ¬ TabHead p.2 := by
      intro p hp
      rcases List.mem_append.mp hp with hp | hp
      · obtain ⟨h1, h2, h3, h4, _⟩ := hbody p hp
        exact ⟨h1, h2, h3, h4⟩
      · simp only [List.mem_singleton] at hp
        subst hp
        exact ⟨hindc.1, hindc.2, hcl2, hcl1⟩
    rw [extractBlockQuote_marker cfg hcfg pm mt st pre rest (' ' :: opener) _ sc hx hstop hq1
      (by simpa using hopen.2) hsc (by rw [hfirst]; exact hreq) (by
        intro l hl
        obtain ⟨p, hp, rfl⟩ := List.mem_map.mp hl
        obtain ⟨h1, h2, h3, _⟩ := hall p hp
        exact ⟨p.1, ' ' :: p.2, rfl, h1, h2, by simpa using h3⟩) hrest]
    have := quoteText_verbatim cfg hcfg (' ' :: opener) opener
      ((body ++ [(indc, closer)]).map (fun p => (p.1 ++ '>' :: ' ' :: p.2, p.2))) hfirst hopen (by
        intro q hq
        obtain ⟨p, hp, rfl⟩ := List.mem_map.mp hq
        obtain ⟨h1, _, h3, h4⟩ := hall p hp
        exact ⟨Marked.spaced p.1 p.2 h1 (fun e => h4 (tabHead_cons_sp _ e)), h3, h4⟩)
    rw [List.map_map] at this
    rw [show (body ++ [(indc, closer)]).map markLine =
      (body ++ [(indc, closer)]).map ((fun p : Str × Str => p.1 ++ ['\n']) ∘
        fun p => (p.1 ++ '>' :: ' ' :: p.2, p.2)) from rfl, this]
    simp [List.map_append, List.flatten_append, Function.comp_def]
  · have := fenced_closed_verbatim c n k m (opener ++ ['\n']) [] sp bl ['\n'] (body.map (·.2))
      (opener ++ '\n' :: (body.map (·.2 ++ ['\n'])).flatten ++ closer ++ ['\n']).length hc1 hc2 hc3 hn
      (Or.inr (by simp)) (by
        intro l hl
        obtain ⟨p, hp, rfl⟩ := List.mem_map.mp hl
        exact ⟨(hbody p hp).2.2.1, (hbody p hp).2.2.2.2⟩) hsp hsp3 hm hbl (Or.inl rfl)
    simp only [hcloser, List.map_map, List.append_nil] at this
    have e : opener ++ ['\n'] ++ (body.map ((· ++ ['\n']) ∘ fun p => p.2)).flatten ++ (closer ++ ['\n']) =
        opener ++ '\n' :: (body.map (·.2 ++ ['\n'])).flatten ++ closer ++ ['\n'] := by
      simp [Function.comp_def]
    rw [e] at this
    rw [show opener.length + 1 = (opener ++ ['\n']).length by simp, this]
    congr 1
    rw [← e]
    simp only [List.length_append]

section Examples6

/-- **non-vacuity of `quoted_fenced_verbatim`**: the subject is

    > ```
    > a  b
    >  c
    > ```
    (blank line)
    rest

the child text of the quote is the four content lines, and the code of the fenced block is `a  b\n c\n` -/
example (pm : ParseMethod) :
    let s := "> ```\n".toList ++ (([(([] : Str), "a  b".toList), ([], " c".toList)] ++
      [([], [] ++ List.replicate 3 '`' ++ [])]).map markLine).flatten ++ "\nrest\n".toList
    extractBlockQuote exCfg pm { start := 0, stop := 5, caps := [(1, (1, 5))] } (BlockState.root s) =
        .ok ("```\na  b\n c\n```\n".toList, none, { BlockState.root s with cursor := 6 + 18 }) ∧
      fencedBody (Py.ctxOf "```\na  b\n c\n```\n".toList) 16 '`' 3 0 4 = ("a  b\n c\n".toList, 16) := by
  intro s
  exact quoted_fenced_verbatim exCfg rfl pm { start := 0, stop := 5, caps := [(1, (1, 5))] } (BlockState.root s)
    "> ```\n".toList "\nrest\n".toList "```".toList [([], "a  b".toList), ([], " c".toList)] [] [] [] '`' 3 0 3 quoteExSc
    (by decide) (by decide) (by decide) (by decide) (by decide) (by decide) (by decide) (by decide) (by decide)
    (by decide) (by decide) rfl rfl (by decide +kernel) rfl (by decide +kernel) (by decide)

/-- the subject of the example, as a string -/
example : "> ```\n".toList ++ (([(([] : Str), "a  b".toList), ([], " c".toList)] ++
      [([], [] ++ List.replicate 3 '`' ++ [])]).map markLine).flatten ++ "\nrest\n".toList =
    "> ```\n> a  b\n>  c\n> ```\n\nrest\n".toList := by decide

end Examples6

/-! #### where the hypotheses on the match come from -/

/-- The hypotheses `mt.stop + 1 = pre.length` and `grp cfg st mt "quote_1" = q1` of the handler theorems are what a
match of the block rule `block_quote` (the `mt` that `parse` hands to the handler) gives: the subject at `pos` is
`sp ++ ">" ++ content` followed by a newline or the end of the subject, `mt` ends at the end of `content`, and
`quote_1` is `content`. -/
theorem blockQuote_match (cfg : MdCfg) (hg : cfg.groups = Generated.groupIndex) (st : BlockState) (s : Str)
    (pos : Nat) (mt : RxMatch) (hx : st.x = Py.ctxOf s) (h : blockQuoteRuleExpected.matchAt st.x pos = some mt) :
    ∃ sp content tl, s.drop pos = sp ++ '>' :: content ++ tl ∧ (∀ ch ∈ sp, ch = ' ') ∧ sp.length ≤ 3 ∧
      '\n' ∉ content ∧ (tl = [] ∨ ∃ v, tl = '\n' :: v) ∧ bolAt s pos ∧ mt.start = pos ∧
      mt.stop = pos + sp.length + 1 + content.length ∧ grp cfg st mt "quote_1" = content := by
  rw [hx] at h
  obtain ⟨sp, content, tl, h1, h2, h3, h4, h5, h6, h7, h8, h9⟩ := blockQuoteRule_sound s pos mt h
  refine ⟨sp, content, tl, h1, h2, h3, h4, h5, h6, h7, h8, ?_⟩
  unfold grp groupNamed
  rw [hg, quote1_lookup, hx]
  simp only [h9, Option.getD_some]

/-- every configuration the model is run with -/
theorem blockQuote_match_ofRuleCfg (c : RuleCfg) (hc : c ∈ allCfgs) (st : BlockState) (s : Str) (pos : Nat)
    (mt : RxMatch) (hx : st.x = Py.ctxOf s)
    (h : scanAt st.x ((ofRuleCfg c).blockSc ["block_quote"]) pos = some ("block_quote", mt)) :
    ∃ sp content tl, s.drop pos = sp ++ '>' :: content ++ tl ∧ (∀ ch ∈ sp, ch = ' ') ∧ sp.length ≤ 3 ∧
      '\n' ∉ content ∧ (tl = [] ∨ ∃ v, tl = '\n' :: v) ∧ bolAt s pos ∧ mt.start = pos ∧
      mt.stop = pos + sp.length + 1 + content.length ∧ grp (ofRuleCfg c) st mt "quote_1" = content := by
  apply blockQuote_match (ofRuleCfg c) rfl st s pos mt hx
  have hl : (ofRuleCfg c).blockSpec.lookup "block_quote" = some blockQuoteRuleExpected := blockQuoteRule_lookup c hc
  simp only [MdCfg.blockSc, List.filterMap_cons, List.filterMap_nil, hl, Option.map_some, scanAt] at h
  split at h
  · rename_i mt' hm
    simp only [Option.some.injEq, Prod.mk.injEq, true_and] at h
    rw [← h]; exact hm
  · cases h

/-! #### (5) with the text spelled out: the child text is exactly the de-prefixed lines -/

/-- the hypothesis on the marked lines `ind> l` of the verbatim theorems: `ind` is 0–3 blanks, the content line `l` has
no newline and does not start with (≤ 3 blanks) tab -/
def PlainSeg (p : Str × Str) : Prop :=
  (∀ ch ∈ p.1, ch = ' ') ∧ p.1.length ≤ 3 ∧ '\n' ∉ p.2 ∧ ¬ TabHead p.2

instance (p : Str × Str) : Decidable (PlainSeg p) := by unfold PlainSeg; infer_instance

theorem markLines_qLine (segs : List (Str × Str)) (hseg : ∀ p ∈ segs, PlainSeg p) :
    ∀ l ∈ segs.map markLine, QLine l := by
  intro l hl
  obtain ⟨p, hp, rfl⟩ := List.mem_map.mp hl
  obtain ⟨h1, h2, h3, _⟩ := hseg p hp
  exact ⟨p.1, ' ' :: p.2, rfl, h1, h2, by simpa using h3⟩

theorem markLines_text (cfg : MdCfg) (hcfg : cfg.named = Generated.namedRx) (l0 : Str) (segs : List (Str × Str))
    (hl0 : ¬ TabHead l0 ∧ '\n' ∉ l0) (hseg : ∀ p ∈ segs, PlainSeg p) :
    expandTab cfg (firstQuoteLine (' ' :: l0) ++ '\n' :: subLines quoteLine (segs.map markLine).flatten) =
      ((l0 :: segs.map (·.2)).map (· ++ ['\n'])).flatten := by
  have hfirst : firstQuoteLine (' ' :: l0) = l0 := firstQuoteLine_spaced l0 (fun e => hl0.1 (tabHead_cons_sp _ e))
  have := quoteText_verbatim cfg hcfg (' ' :: l0) l0 (segs.map (fun p => (p.1 ++ '>' :: ' ' :: p.2, p.2))) hfirst hl0
    (by
      intro q hq
      obtain ⟨p, hp, rfl⟩ := List.mem_map.mp hq
      obtain ⟨h1, _, h3, h4⟩ := hseg p hp
      exact ⟨Marked.spaced p.1 p.2 h1 (fun e => h4 (tabHead_cons_sp _ e)), h3, h4⟩)
  rw [List.map_map, List.map_map] at this
  exact this

/-- **(5) verbatim, the quote ends the subject**: the quote is `ind0> l0` followed by the marked lines `ind> l` of
`segs`, up to the end of the subject; `l0` is neither blank nor indented code nor a fence (`hreq`).  Then the child text
is exactly `l0` and the `l`s, each followed by a newline, and the cursor is at the end. -/
theorem extractBlockQuote_verbatim_eos (cfg : MdCfg) (hcfg : cfg.named = Generated.namedRx) (pm : ParseMethod)
    (mt : RxMatch) (st : BlockState) (pre l0 : Str) (segs : List (Str × Str)) (sc breakSc : List (String × Rx))
    (hx : st.x = Py.ctxOf (pre ++ (segs.map markLine).flatten)) (hstop : mt.stop + 1 = pre.length)
    (hmax : st.cursorMax = (pre ++ (segs.map markLine).flatten).length)
    (hq1 : grp cfg st mt "quote_1" = ' ' :: l0) (hl0 : ¬ TabHead l0 ∧ '\n' ∉ l0)
    (hsc : compileSc cfg ["blank_line", "indent_code", "fenced_code"] = .ok sc)
    (hreq : (scMatch (Py.ctxOf (l0 ++ ['\n'])) sc 0).isSome = false)
    (hbsc : compileSc cfg ["blank_line", "thematic_break", "fenced_code", "list", "block_html"] = .ok breakSc)
    (hseg : ∀ p ∈ segs, PlainSeg p) :
    extractBlockQuote cfg pm mt st =
      .ok (((l0 :: segs.map (·.2)).map (· ++ ['\n'])).flatten, none,
        { st with cursor := pre.length + (segs.map markLine).flatten.length }) := by
  have hfirst : firstQuoteLine (' ' :: l0) = l0 := firstQuoteLine_spaced l0 (fun e => hl0.1 (tabHead_cons_sp _ e))
  rw [extractBlockQuote_lazy_eos cfg hcfg pm mt st pre (' ' :: l0) _ sc breakSc hx hstop hmax hq1
    (by simpa using hl0.2) hsc (by rw [hfirst]; exact hreq) hbsc (markLines_qLine segs hseg),
    markLines_text cfg hcfg l0 segs hl0 hseg]

/-- **(5) verbatim, the quote is ended by a break rule** (e.g. the blank line after it): as above, with `rest` after
the marked lines; a break rule matches at the start of `rest` and its handler accepts with end position `ep` and state
`st2`, and the last content line is not blank (`hbl`, automatically true when there is no marked line). -/
theorem extractBlockQuote_verbatim_break (cfg : MdCfg) (hcfg : cfg.named = Generated.namedRx) (pm : ParseMethod)
    (mt : RxMatch) (st : BlockState) (pre rest l0 : Str) (segs : List (Str × Str)) (sc breakSc : List (String × Rx))
    (hx : st.x = Py.ctxOf (pre ++ (segs.map markLine).flatten ++ rest)) (hstop : mt.stop + 1 = pre.length)
    (hmax : st.cursorMax = (pre ++ (segs.map markLine).flatten ++ rest).length)
    (hq1 : grp cfg st mt "quote_1" = ' ' :: l0) (hl0 : ¬ TabHead l0 ∧ '\n' ∉ l0)
    (hsc : compileSc cfg ["blank_line", "indent_code", "fenced_code"] = .ok sc)
    (hreq : (scMatch (Py.ctxOf (l0 ++ ['\n'])) sc 0).isSome = false)
    (hbsc : compileSc cfg ["blank_line", "thematic_break", "fenced_code", "list", "block_html"] = .ok breakSc)
    (hseg : ∀ p ∈ segs, PlainSeg p) (hrest : ¬ QuoteHead rest) (hne : rest ≠ [])
    (hbl : (!segs.isEmpty && blankEnd cfg ((segs.map (·.2 ++ ['\n'])).flatten)) = false)
    (name : String) (m4 : RxMatch) (ep : Option Nat) (st2 : BlockState)
    (hbr : scMatch st.x breakSc (pre.length + (segs.map markLine).flatten.length) = some (name, m4))
    (hpm : pm name m4 { st with cursor := pre.length + (segs.map markLine).flatten.length } = .ok (ep, st2))
    (ht : truthyPos ep = true) :
    extractBlockQuote cfg pm mt st = .ok (((l0 :: segs.map (·.2)).map (· ++ ['\n'])).flatten, ep, st2) := by
  have hfirst : firstQuoteLine (' ' :: l0) = l0 := firstQuoteLine_spaced l0 (fun e => hl0.1 (tabHead_cons_sp _ e))
  have hsub : subLines quoteLine (segs.map markLine).flatten = (segs.map (·.2 ++ ['\n'])).flatten := by
    have := subLines_quoteLine_marked (segs.map (fun p => (p.1 ++ '>' :: ' ' :: p.2, p.2))) (by
      intro q hq
      obtain ⟨p, hp, rfl⟩ := List.mem_map.mp hq
      obtain ⟨h1, _, h3, h4⟩ := hseg p hp
      exact ⟨Marked.spaced p.1 p.2 h1 (fun e => h4 (tabHead_cons_sp _ e)), h3⟩)
    rw [List.map_map, List.map_map] at this
    exact this
  rw [extractBlockQuote_lazy_break cfg hcfg pm mt st pre rest (' ' :: l0) _ sc breakSc hx hstop hmax hq1
    (by simpa using hl0.2) hsc (by rw [hfirst]; exact hreq) hbsc (markLines_qLine segs hseg) hrest hne
    (by rw [hsub]; simpa using hbl) name m4 ep st2 hbr hpm ht,
    markLines_text cfg hcfg l0 segs hl0 hseg]

/-- `extractBlockQuote_verbatim_break` instantiated: `> foo  bar\n  >  x\n\nrest\n` gives the child text
`foo  bar\n x\n` (the blanks inside and after the prefix are kept) -/
example :
    extractBlockQuote exCfg quoteExPm { start := 0, stop := 10, caps := [(1, (1, 10))] }
        (BlockState.root ("> foo  bar\n".toList ++ ([("  ".toList, " x".toList)].map markLine).flatten ++
          "\nrest\n".toList)) =
      .ok ("foo  bar\n x\n".toList, some 19,
        ({ BlockState.root ("> foo  bar\n".toList ++ ([("  ".toList, " x".toList)].map markLine).flatten ++
            "\nrest\n".toList) with cursor := 11 + 7 } : BlockState).appendToken (tok "blank_line" [])) :=
  extractBlockQuote_verbatim_break exCfg rfl quoteExPm _ _ "> foo  bar\n".toList "\nrest\n".toList
    "foo  bar".toList [("  ".toList, " x".toList)] quoteExSc quoteExBreakSc rfl rfl rfl (by decide +kernel) (by decide) rfl
    (by decide +kernel) rfl (by decide) (by decide) (by decide) (by decide +kernel)
    "blank_line" { start := 18, stop := 19, caps := [(1, (18, 19))] } (some 19) _ (by rfl) rfl rfl

section Examples7

/-- **non-vacuity of `extractBlockQuote_lazy_break`** (and of `parseBlockQuote_of`): the quote `> foo\n> bar\n` followed
by a blank line and a paragraph; the blank line is matched by the break scanner, `parse_blank_line` accepts (end
position 13), the child text is `foo\nbar\n` -/
example :
    extractBlockQuote exCfg quoteExPm { start := 0, stop := 5, caps := [(1, (1, 5))] }
        (BlockState.root ("> foo\n".toList ++ ["> bar\n".toList].flatten ++ "\nrest\n".toList)) =
      .ok (expandTab exCfg (firstQuoteLine " foo".toList ++ '\n' :: subLines quoteLine ["> bar\n".toList].flatten),
        some 13,
        ({ BlockState.root ("> foo\n".toList ++ ["> bar\n".toList].flatten ++ "\nrest\n".toList) with
            cursor := 6 + 6 } : BlockState).appendToken (tok "blank_line" [])) :=
  extractBlockQuote_lazy_break exCfg rfl quoteExPm _ _ "> foo\n".toList "\nrest\n".toList " foo".toList
    ["> bar\n".toList] quoteExSc quoteExBreakSc rfl rfl rfl (by decide +kernel) (by decide) rfl (by decide +kernel) rfl
    (by
      intro l hl
      simp only [List.mem_cons, List.not_mem_nil, or_false] at hl
      subst hl
      exact ⟨[], " bar".toList, rfl, by simp, by simp, by decide⟩)
    (by decide) (by decide) (by decide +kernel) "blank_line" { start := 12, stop := 13, caps := [(1, (12, 13))] }
    (some 13) _ (by rfl) rfl rfl

/-- **non-vacuity of `extractBlockQuote_lazy_blank`**: `> foo\n>\nrest\n`: the run of marked lines ends with a blank
quoted line, the quote ends before `rest` (no lazy continuation) -/
example (pm : ParseMethod) :
    extractBlockQuote exCfg pm { start := 0, stop := 5, caps := [(1, (1, 5))] }
        (BlockState.root ("> foo\n".toList ++ [">\n".toList].flatten ++ "rest\n".toList)) =
      .ok (expandTab exCfg (firstQuoteLine " foo".toList ++ '\n' :: subLines quoteLine [">\n".toList].flatten), none,
        { BlockState.root ("> foo\n".toList ++ [">\n".toList].flatten ++ "rest\n".toList) with cursor := 6 + 2 }) :=
  extractBlockQuote_lazy_blank exCfg rfl pm _ _ "> foo\n".toList "rest\n".toList " foo".toList
    [">\n".toList] quoteExSc quoteExBreakSc rfl rfl rfl (by decide +kernel) (by decide) rfl (by decide +kernel) rfl
    (by
      intro l hl
      simp only [List.mem_cons, List.not_mem_nil, or_false] at hl
      subst hl
      exact ⟨[], [], rfl, by simp, by simp, by decide⟩)
    (by decide) (by decide) (by decide +kernel)

example : expandTab exCfg (firstQuoteLine " foo".toList ++ '\n' :: subLines quoteLine [">\n".toList].flatten) =
    "foo\n\n".toList := by decide +kernel

/-- **non-vacuity of `extractBlockQuote_marker`** with a blank first line: `>\n> x\nrest\n` (`blank_line` matches the
first content line, so only marked lines continue the quote) -/
example (pm : ParseMethod) :
    extractBlockQuote exCfg pm { start := 0, stop := 1, caps := [(1, (1, 1))] }
        (BlockState.root (">\n".toList ++ ["> x\n".toList].flatten ++ "rest\n".toList)) =
      .ok (expandTab exCfg (firstQuoteLine [] ++ '\n' :: subLines quoteLine ["> x\n".toList].flatten), none,
        { BlockState.root (">\n".toList ++ ["> x\n".toList].flatten ++ "rest\n".toList) with cursor := 2 + 4 }) :=
  extractBlockQuote_marker exCfg rfl pm _ _ ">\n".toList "rest\n".toList [] ["> x\n".toList] quoteExSc rfl rfl
    (by decide +kernel) (by decide) rfl (by decide +kernel)
    (by
      intro l hl
      simp only [List.mem_cons, List.not_mem_nil, or_false] at hl
      subst hl
      exact ⟨[], " x".toList, rfl, by simp, by simp, by decide⟩)
    (by decide)

/-- **non-vacuity of `parseBlockQuote_of`**: the handler on `> foo\n> bar\n\nrest\n`: it returns the end position of
the blank-line handler (13) and inserts, before the `blank_line` token, a `block_quote` token whose children are the
tokens of the parse of `foo\nbar\n` -/
example : ∃ (child st1 : BlockState), st1.tokens = [tok "blank_line" []] ∧
    parse exCfg quoteExPm (st1.childState "foo\nbar\n".toList) (some exCfg.quoteRules) = .ok child ∧
    parseBlockQuote exCfg quoteExPm { start := 0, stop := 5, caps := [(1, (1, 5))] }
        (BlockState.root "> foo\n> bar\n\nrest\n".toList) =
      .ok (some 13, { st1 with env := child.env,
                               tokens := [tok "block_quote" [("children", .arr child.tokens)], tok "blank_line" []] }) := by
  have hext : extractBlockQuote exCfg quoteExPm { start := 0, stop := 5, caps := [(1, (1, 5))] }
        (BlockState.root "> foo\n> bar\n\nrest\n".toList) =
      .ok ("foo\nbar\n".toList, some 13,
        ({ BlockState.root "> foo\n> bar\n\nrest\n".toList with cursor := 12 } : BlockState).appendToken
          (tok "blank_line" [])) := by
    have h1 := extractBlockQuote_lazy_break exCfg rfl quoteExPm
      { start := 0, stop := 5, caps := [(1, (1, 5))] }
      (BlockState.root ("> foo\n".toList ++ ["> bar\n".toList].flatten ++ "\nrest\n".toList))
      "> foo\n".toList "\nrest\n".toList " foo".toList
      ["> bar\n".toList] quoteExSc quoteExBreakSc rfl rfl rfl (by decide +kernel) (by decide) rfl (by decide +kernel) rfl
      (by
        intro l hl
        simp only [List.mem_cons, List.not_mem_nil, or_false] at hl
        subst hl
        exact ⟨[], " bar".toList, rfl, by simp, by simp, by decide⟩)
      (by decide) (by decide) (by decide +kernel) "blank_line" { start := 12, stop := 13, caps := [(1, (12, 13))] }
      (some 13) _ (by rfl) rfl rfl
    have h2 : expandTab exCfg (firstQuoteLine " foo".toList ++ '\n' :: subLines quoteLine ["> bar\n".toList].flatten) =
        "foo\nbar\n".toList := by decide +kernel
    rw [h2] at h1
    exact h1
  cases hp : parse exCfg quoteExPm
      ((({ BlockState.root "> foo\n> bar\n\nrest\n".toList with cursor := 12 } : BlockState).appendToken
          (tok "blank_line" [])).childState "foo\nbar\n".toList) (some exCfg.quoteRules) with
  | error e =>
    exfalso
    have : (parse exCfg quoteExPm
      ((({ BlockState.root "> foo\n> bar\n\nrest\n".toList with cursor := 12 } : BlockState).appendToken
          (tok "blank_line" [])).childState "foo\nbar\n".toList) (some exCfg.quoteRules)).toBool = true := by
      decide +kernel
    rw [hp] at this
    cases this
  | ok child =>
    refine ⟨child, _, rfl, hp, ?_⟩
    exact parseBlockQuote_of exCfg quoteExPm _ _ _ _ _ child hext hp

end Examples7

/-! ### axioms of the headline theorems -/

#print axioms quoteLeadingRx_lookup
#print axioms quoteTrimRx_lookup
#print axioms strictQuoteRx_lookup
#print axioms blockQuoteRule_lookup
#print axioms cleanQuote_eq
#print axioms cleanQuote_lines
#print axioms cleanQuote_verbatim
#print axioms cleanQuote_verbatim_tight
#print axioms cleanQuote_verbatim_marked
#print axioms strictQuote_matchAt
#print axioms strictQuote_matchAt_open
#print axioms strictQuote_matchAt_isSome_iff
#print axioms strictQuote_matchAt_none
#print axioms blockQuote_match_ofRuleCfg
#print axioms extractBlockQuote_marker
#print axioms extractBlockQuote_lazy_eos
#print axioms extractBlockQuote_lazy_blank
#print axioms extractBlockQuote_lazy_break
#print axioms parseBlockQuote_of
#print axioms quoteText_verbatim
#print axioms extractBlockQuote_verbatim_eos
#print axioms extractBlockQuote_verbatim_break
#print axioms quoted_fenced_verbatim

end Mistune
