/-
C01, progress contract of the concrete block parser: the block handlers of the plugins `table`, `footnotes`
(`ref_footnote`), `abbr` (`ref_abbr`) and `def_list` (`Mistune.Model.BlockPluginsB`).
-/
import MistuneProofs.C01Progress
namespace Mistune
namespace Model
namespace Blk

/-- a handler that is bound only when its rule is registered (`KeyError` otherwise) -/
theorem Good.guard {α : Type} {P : α → Prop} {c : Bool} {e : Except PyErr α} (h : c = true → Good P e) :
    Good P (if c = true then e else .error .keyError) := by
  split
  · rename_i hc; exact h hc
  · exact Good.err (by decide)

theorem parseTable_good (cfg : MdCfg) (name : String) (mt : RxMatch) (st : BlockState) (hpre : Pre name mt st) :
    Good (Post st) (parseTable cfg mt st) := by
  obtain ⟨_, h2, h3, _, _⟩ := hpre
  unfold parseTable
  extract_lets pos
  split
  · exact Good.ok (Post.of_frame SameFrame.refl PosOk.none)
  · split
    · exact Good.ok (Post.of_frame SameFrame.refl PosOk.none)
    · exact Good.ok (Post.of_frame ⟨rfl, rfl, rfl⟩ (PosOk.some (by show st.cursor < mt.stop; omega)))

theorem parseNptable_good (cfg : MdCfg) (name : String) (mt : RxMatch) (st : BlockState) (hpre : Pre name mt st) :
    Good (Post st) (parseNptable cfg mt st) := by
  obtain ⟨_, h2, h3, _, _⟩ := hpre
  unfold parseNptable
  split
  · exact Good.ok (Post.of_frame SameFrame.refl PosOk.none)
  · split
    · exact Good.ok (Post.of_frame SameFrame.refl PosOk.none)
    · exact Good.ok (Post.of_frame ⟨rfl, rfl, rfl⟩ (PosOk.some (by omega)))

theorem parseRefFootnote_good (cfg : MdCfg) (name : String) (mt : RxMatch) (st : BlockState)
    (hpre : Pre name mt st) : Good (Post st) (parseRefFootnote cfg mt st) := by
  obtain ⟨_, h2, h3, _, _⟩ := hpre
  unfold parseRefFootnote
  extract_lets ref key st2
  have hfr : SameFrame st st2 := by
    show SameFrame st (if _ then _ else _)
    split
    · exact ⟨rfl, rfl, rfl⟩
    · exact SameFrame.refl
  exact Good.ok (Post.of_frame hfr (PosOk.some (by omega)))

theorem parseRefAbbr_good (cfg : MdCfg) (name : String) (mt : RxMatch) (st : BlockState)
    (hpre : Pre name mt st) : Good (Post st) (parseRefAbbr cfg mt st) := by
  obtain ⟨_, h2, h3, _, _⟩ := hpre
  exact Good.ok (Post.of_frame ⟨rfl, rfl, rfl⟩ (PosOk.some (by omega)))


/-! ### plugins/math.py, plugins/speedup.py (`Mistune.Model.BlockPluginsA`) -/

theorem parseBlockMath_good (cfg : MdCfg) (name : String) (mt : RxMatch) (st : BlockState)
    (hpre : Pre name mt st) : Good (Post st) (parseBlockMath cfg mt st) := by
  obtain ⟨_, h2, h3, _, _⟩ := hpre
  exact Good.ok (Post.of_frame ⟨rfl, rfl, rfl⟩ (PosOk.some (by omega)))

theorem parseParagraph_good (name : String) (mt : RxMatch) (st : BlockState)
    (hpre : Pre name mt st) : Good (Post st) (parseParagraph mt st) := by
  obtain ⟨_, h2, h3, _, _⟩ := hpre
  unfold parseParagraph
  refine Good.bind (addParagraph_good st _) (fun st' h => ?_)
  exact Good.pure (Post.of_frame h (PosOk.some (by omega)))


/-! ### plugins/def_list.py -/

theorem SameFrame.trans {a b c : BlockState} (h1 : SameFrame a b) (h2 : SameFrame b c) : SameFrame a c :=
  ⟨h2.1.trans h1.1, h2.2.1.trans h1.2.1, h2.2.2.trans h1.2.2⟩

theorem defProcessText_good (cfg : MdCfg) (hf : CfgFacts cfg) (pm : ParseMethod) (hpm : PMProgress pm)
    (text : Str) (loose : Bool) (parent : BlockState) :
    Good (fun res => SameFrame parent res.2) (defProcessText cfg pm text loose parent) := by
  unfold defProcessText
  extract_lets text2 child
  refine Good.bind (parse_good cfg hf pm hpm _ (inv_childState _ _) _) (fun child2 _ => ?_)
  extract_lets parent2
  have hfr : SameFrame parent parent2 := ⟨rfl, rfl, rfl⟩
  split
  · split
    · refine Good.bind (typeOf_good _) (fun ty _ => ?_)
      split <;> exact Good.pure hfr
    · exact Good.pure hfr
  · exact Good.pure hfr

theorem defItemLoop_good (cfg : MdCfg) (hf : CfgFacts cfg) (pm : ParseMethod) (hpm : PMProgress pm) (x : RxCtx)
    (hdd : 1 ≤ (cfg.rx "mistune.plugins.def_list.DD_START_RE").minLen) :
    ∀ (fuel start : Nat) (pbl : Bool) (acc : List Json) (st : BlockState), start ≤ x.n → x.n - start < fuel →
      Good (fun res => SameFrame st res.2) (defItemLoop cfg pm x fuel start pbl acc st) := by
  intro fuel
  induction fuel with
  | zero => intro start pbl acc st _ hfu; omega
  | succ fuel ih =>
    intro start pbl acc st hle hfu
    unfold defItemLoop
    split
    · extract_lets text
      refine Good.bind (defProcessText_good cfg hf pm hpm _ _ _) ?_
      rintro ⟨children, st1⟩ h1
      exact Good.pure h1
    · rename_i m2 hm2
      obtain ⟨a1, a2, a3, a4⟩ := pySearch_sound _ _ _ _ hm2
      have hne := nonempty_of_minLen _ _ _ _ _ _ a4 hdd
      extract_lets endPos text pbl2
      refine Good.bind (defProcessText_good cfg hf pm hpm _ _ _) ?_
      rintro ⟨children, st1⟩ h1
      dsimp only at h1 ⊢
      have := ih endPos pbl2 (acc ++ [defListItem children]) st1 (by show m2.start ≤ x.n; omega)
        (by show x.n - m2.start < fuel; omega)
      exact this.mono (fun res hres => h1.trans hres)

theorem ctxOf_n (s : Str) : (Py.ctxOf s).n = s.length := by
  unfold Py.ctxOf mkCtx
  simp

theorem parseDefItem_good (cfg : MdCfg) (hf : CfgFacts cfg) (pm : ParseMethod) (hpm : PMProgress pm)
    (hdd : 1 ≤ (cfg.rx "mistune.plugins.def_list.DD_START_RE").minLen) (mt : RxMatch) (st : BlockState) :
    Good (fun res => SameFrame st res.2) (parseDefItem cfg pm mt st) := by
  unfold parseDefItem
  extract_lets head heads src x endPos
  split
  · exact Good.throw (by decide)
  · rename_i m2 hm2
    obtain ⟨a1, a2, a3, a4⟩ := pySearch_sound _ _ _ _ hm2
    extract_lets start pbl
    have hn : x.n = src.length := ctxOf_n src
    exact defItemLoop_good cfg hf pm hpm x hdd _ _ _ _ _ (by show m2.start ≤ x.n; omega)
      (by show x.n - m2.start < src.length + 1; omega)

theorem defListLoop_good (cfg : MdCfg) (hf : CfgFacts cfg) (pm : ParseMethod) (hpm : PMProgress pm)
    (hdd : 1 ≤ (cfg.rx "mistune.plugins.def_list.DD_START_RE").minLen)
    (hdef : 1 ≤ (cfg.rx "mistune.plugins.def_list.DEF_RE").minLen) :
    ∀ (fuel pos : Nat) (children : List Json) (st : BlockState), pos ≤ st.x.n → st.x.n - pos < fuel →
      Good (fun res => SameFrame st res.2.2 ∧ pos ≤ res.1) (defListLoop cfg pm fuel pos children st) := by
  intro fuel
  induction fuel with
  | zero => intro pos children st _ hfu; omega
  | succ fuel ih =>
    intro pos children st hle hfu
    unfold defListLoop
    split
    · exact Good.ok ⟨SameFrame.refl, Nat.le_refl _⟩
    · rename_i m2 hm2
      obtain ⟨a1, a2, a3, a4⟩ := pyMatchAt_sound _ _ _ _ hm2
      have hne := nonempty_of_minLen _ _ _ _ _ _ a4 hdef
      refine Good.bind (parseDefItem_good cfg hf pm hpm hdd m2 st) ?_
      rintro ⟨more, st1⟩ h1
      dsimp only at h1 ⊢
      have hgt : ¬ m2.stop ≤ pos := by omega
      rw [if_neg hgt]
      have := ih m2.stop (children ++ more) st1 (by rw [h1.1]; exact a3) (by rw [h1.1]; omega)
      refine this.mono ?_
      rintro ⟨p, c, st'⟩ ⟨r1, r2⟩
      exact ⟨h1.trans r1, by dsimp only at r2 ⊢; omega⟩

theorem parseDefList_good (cfg : MdCfg) (hf : CfgFacts cfg) (pm : ParseMethod) (hpm : PMProgress pm)
    (hreg : registered cfg "def_list" = true) (name : String) (mt : RxMatch) (st : BlockState)
    (hpre : Pre name mt st) : Good (Post st) (parseDefList cfg pm mt st) := by
  obtain ⟨hdd, hdef⟩ := hf.defList hreg
  obtain ⟨hinv, h2, h3, h4, _⟩ := hpre
  unfold Inv at hinv
  unfold parseDefList
  refine Good.bind (parseDefItem_good cfg hf pm hpm hdd mt st) ?_
  rintro ⟨children, st1⟩ h1
  dsimp only at h1 ⊢
  refine Good.bind (defListLoop_good cfg hf pm hpm hdd hdef (st1.cursorMax + 1) mt.stop children st1
    (by rw [h1.1]; exact h4) (by rw [h1.1, h1.2.1]; omega)) ?_
  rintro ⟨pos, children2, st2⟩ ⟨r1, r2⟩
  dsimp only at r1 r2 ⊢
  have hfr := h1.trans r1
  exact Good.pure (Post.of_frame ⟨hfr.1, hfr.2.1, hfr.2.2⟩ (PosOk.some (by omega)))

end Blk
end Model
end Mistune
