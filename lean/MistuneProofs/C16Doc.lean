/-
C16 at document level — line-ending style does not matter for the concrete model's whole-document function.

`Model.parseDoc cfg s` (the transcription of `Markdown.parse` with `renderer=None`) reads its argument only through
`norm s` (the two `replace` statements and the final-newline completion at the head of `Markdown.parse`), and so
does the block-level entry `Model.blockParse cfg (norm s)`.  The laws of `norm` proved in `MistuneProofs.C16`
therefore lift, for EVERY configuration object `cfg : MdCfg` (not only the regenerated ones) and EVERY string.

`Markdown.parse("")`: `"".endswith("\n")` is false, hence `s` becomes `"\n"`: the empty document and the document
`"\n"` are parsed identically (`parseDoc_empty`), which is also what `Markdown.__call__(None)` is mapped to.
-/
import Mistune.Model.Doc
import MistuneProofs.C16
namespace Mistune
namespace Model

/-- `parseDoc` is a function of the normalised text only. -/
theorem parseDoc_congr_norm (cfg : MdCfg) (s t : Str) (h : norm s = norm t) : parseDoc cfg s = parseDoc cfg t := by
  unfold parseDoc; rw [h]

/-- the block-level entry on the normalised text -/
theorem blockParse_congr_norm (cfg : MdCfg) (s t : Str) (h : norm s = norm t) :
    blockParse cfg (norm s) = blockParse cfg (norm t) := by rw [h]

/-- **C16 (document, CRLF).** Rewriting every line ending as CRLF does not change the parse. -/
theorem parseDoc_crlf (cfg : MdCfg) (s : Str) : parseDoc cfg (endsTo ['\r', '\n'] s) = parseDoc cfg s :=
  parseDoc_congr_norm cfg _ _ (norm_crlf s)

/-- **C16 (document, lone CR).** -/
theorem parseDoc_cr (cfg : MdCfg) (s : Str) : parseDoc cfg (endsTo ['\r'] s) = parseDoc cfg s :=
  parseDoc_congr_norm cfg _ _ (norm_cr s)

/-- **C16 (document, LF).** -/
theorem parseDoc_lf (cfg : MdCfg) (s : Str) : parseDoc cfg (endsTo ['\n'] s) = parseDoc cfg s :=
  parseDoc_congr_norm cfg _ _ (norm_lf s)

/-- **C16 (document): the CRLF form, the CR form and the LF form of a text parse identically.** -/
theorem parseDoc_crlf_cr_lf (cfg : MdCfg) (s : Str) :
    parseDoc cfg (endsTo ['\r', '\n'] s) = parseDoc cfg (endsTo ['\r'] s) ∧
    parseDoc cfg (endsTo ['\r'] s) = parseDoc cfg (endsTo ['\n'] s) := by
  simp only [parseDoc_crlf, parseDoc_cr, parseDoc_lf, and_self]

/-- **C16 (document, mixed).** Two texts with the same LF form (any per-ending choice among LF / CRLF / CR) parse
identically. -/
theorem parseDoc_of_same_lf_form (cfg : MdCfg) (s t : Str) (h : endsTo ['\n'] s = endsTo ['\n'] t) :
    parseDoc cfg s = parseDoc cfg t :=
  parseDoc_congr_norm cfg _ _ (norm_of_same_lf_form s t h)

/-- **C16 (document, missing final newline).** -/
theorem parseDoc_append_nl (cfg : MdCfg) (s : Str) (h : s.getLast? ≠ some '\n') :
    parseDoc cfg (s ++ ['\n']) = parseDoc cfg s :=
  parseDoc_congr_norm cfg _ _ (norm_append_nl s h)

/-- **C16 (document, empty).** `Markdown.parse("")` sets `s = "\n"`: same parse as `"\n"` (and as `md(None)`). -/
theorem parseDoc_empty (cfg : MdCfg) : parseDoc cfg [] = parseDoc cfg ['\n'] :=
  parseDoc_congr_norm cfg _ _ norm_none_eq_empty.symm

/-! the same for the block pass -/

theorem blockParse_crlf (cfg : MdCfg) (s : Str) :
    blockParse cfg (norm (endsTo ['\r', '\n'] s)) = blockParse cfg (norm s) := by rw [norm_crlf]
theorem blockParse_cr (cfg : MdCfg) (s : Str) :
    blockParse cfg (norm (endsTo ['\r'] s)) = blockParse cfg (norm s) := by rw [norm_cr]
theorem blockParse_lf (cfg : MdCfg) (s : Str) :
    blockParse cfg (norm (endsTo ['\n'] s)) = blockParse cfg (norm s) := by rw [norm_lf]
theorem blockParse_of_same_lf_form (cfg : MdCfg) (s t : Str) (h : endsTo ['\n'] s = endsTo ['\n'] t) :
    blockParse cfg (norm s) = blockParse cfg (norm t) := by rw [norm_of_same_lf_form s t h]
theorem blockParse_append_nl (cfg : MdCfg) (s : Str) (h : s.getLast? ≠ some '\n') :
    blockParse cfg (norm (s ++ ['\n'])) = blockParse cfg (norm s) := by rw [norm_append_nl s h]
theorem blockParse_empty (cfg : MdCfg) : blockParse cfg (norm []) = blockParse cfg (norm ['\n']) := by
  rw [norm_none_eq_empty]

/-! ### Non-vacuity: the three forms really differ as strings, the hypotheses are satisfiable, and the parse is a
real one (`core` configuration, a heading followed by a paragraph). -/

example : endsTo ['\r', '\n'] "# a\nb".toList = "# a\r\nb".toList := by decide
example : endsTo ['\r'] "# a\r\nb\n".toList = "# a\rb\r".toList := by decide
example : endsTo ['\r', '\n'] "# a\nb".toList ≠ endsTo ['\r'] "# a\nb".toList := by decide
/-- a mixed text and a pure-LF text with the same LF form -/
example : endsTo ['\n'] "a\r\nb\rc\n".toList = endsTo ['\n'] "a\nb\nc\n".toList := by decide
example : "a\r\nb\rc\n".toList ≠ "a\nb\nc\n".toList := by decide
example : ("# a\nb".toList).getLast? ≠ some '\n' := by decide

/-- the parse these examples talk about is a real one: the model evaluates `# a⏎b` (CRLF form, given without final
newline) to a token list, in the kernel -/
example : (match parseDoc (ofRuleCfg Generated.cfg_core) "# a\r\nb".toList with
    | .ok toks => toks.length == 2 | .error _ => false) = true := by decide +kernel
example : parseDoc (ofRuleCfg Generated.cfg_core) "# a\r\nb".toList
    = parseDoc (ofRuleCfg Generated.cfg_core) "# a\nb\n".toList :=
  (parseDoc_of_same_lf_form _ "# a\r\nb".toList "# a\nb".toList (by decide)).trans
    (parseDoc_append_nl _ "# a\nb".toList (by decide)).symm

#print axioms parseDoc_crlf_cr_lf
#print axioms parseDoc_of_same_lf_form
#print axioms parseDoc_append_nl
#print axioms parseDoc_empty
#print axioms blockParse_of_same_lf_form

end Model
end Mistune
