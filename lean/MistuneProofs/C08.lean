/-
C08 — conversions are isolated from each other: for every history of conversions on one converter and for
every interleaving of concurrent conversions, each conversion returns its one-shot result.
-/
import Mistune.Conv
namespace Mistune

variable {K V Out : Type} [DecidableEq K] (compile : K → V)

/-- Storing what the key compiles to keeps the cache coherent. -/
theorem coherent_cons {c : Cache K V} (h : Coherent compile c) (k : K) :
    Coherent compile ((k, compile k) :: c) := by
  intro k' v hv
  rw [List.lookup_cons] at hv
  by_cases hk : k' = k
  · subst hk
    simp at hv
    exact hv.symm
  · have : (k' == k) = false := by simpa using hk
    rw [this] at hv
    exact h k' v hv

/-- **C08 (one call).** From a coherent cache a conversion returns its fresh-converter result and leaves the
cache coherent. -/
theorem run_indep (p : Prog K V Out) (c : Cache K V) (h : Coherent compile c) :
    (p.run compile c).2 = p.eval compile ∧ Coherent compile (p.run compile c).1 := by
  induction p generalizing c with
  | ret o => exact ⟨rfl, h⟩
  | getSc k cont ih =>
    unfold Prog.run Prog.eval
    split
    · next v hk =>
      have hv := h k v hk
      subst hv
      exact ih _ c h
    · next hk =>
      exact ih _ _ (coherent_cons compile h k)

/-- **C08 (histories).** For every sequence of conversions fed to one converter, starting from any coherent
cache (in particular the empty one), the i-th output equals the output of the i-th conversion alone on a
fresh converter. -/
theorem history_indep (ps : List (Prog K V Out)) (c : Cache K V) (h : Coherent compile c) :
    (runHistory compile ps c).2 = ps.map (fun p => p.eval compile) ∧
    Coherent compile (runHistory compile ps c).1 := by
  induction ps generalizing c with
  | nil => exact ⟨rfl, h⟩
  | cons p ps ih =>
    have hr := run_indep compile p c h
    have hi := ih _ hr.2
    simp only [runHistory, List.map_cons]
    exact ⟨by rw [hr.1, hi.1], hi.2⟩

theorem coherent_nil : Coherent compile ([] : Cache K V) := by
  intro k v h; simp at h

/-- A thread in state `t` can only ever return `o`, whatever coherent answers the cache gives. -/
def Good : Act K V Out → Out → Prop
  | .ret o', o => o' = o
  | .lookup k cont, o => Good (cont none) o ∧ Good (cont (some (compile k))) o
  | .insert k v cont, o => v = compile k ∧ Good cont o

omit [DecidableEq K] in
theorem good_toAct (p : Prog K V Out) : Good compile (p.toAct compile) (p.eval compile) := by
  induction p with
  | ret o => simp [Prog.toAct, Prog.eval, Good]
  | getSc k cont ih =>
    simp only [Prog.toAct, Prog.eval, Good]
    exact ⟨⟨trivial, ih _⟩, ih _⟩

theorem step_good {c : Cache K V} (h : Coherent compile c) (t : Act K V Out) (o : Out)
    (hg : Good compile t o) :
    Coherent compile (stepThread c t).1 ∧ Good compile (stepThread c t).2 o := by
  cases t with
  | ret o' => exact ⟨h, hg⟩
  | lookup k cont =>
    simp only [stepThread]
    refine ⟨h, ?_⟩
    simp only [Good] at hg
    cases hk : c.lookup k with
    | none => exact hg.1
    | some v =>
      have hv := h k v hk
      subst hv
      exact hg.2
  | insert k v cont =>
    simp only [stepThread]
    simp only [Good] at hg
    obtain ⟨hv, hg⟩ := hg
    subst hv
    exact ⟨coherent_cons compile h k, hg⟩

theorem schedule_gen (ps : List (Prog K V Out)) (sched : List Nat) :
    ∀ (c : Cache K V) (ts : List (Act K V Out)), Coherent compile c →
      (∀ (i : Nat) t, ts[i]? = some t → ∃ p : Prog K V Out, ps[i]? = some p ∧ Good compile t (p.eval compile)) →
      Coherent compile (runSchedule sched c ts).1 ∧
      ∀ (i : Nat) t, (runSchedule sched c ts).2[i]? = some t →
        ∃ p : Prog K V Out, ps[i]? = some p ∧ Good compile t (p.eval compile) := by
  induction sched with
  | nil => intro c ts h inv; exact ⟨h, inv⟩
  | cons i sched ih =>
    intro c ts h inv
    unfold runSchedule
    split
    · exact ih c ts h inv
    · next t hi =>
      obtain ⟨p, hp, hg⟩ := inv i t hi
      have hs := step_good compile h t _ hg
      refine ih _ _ hs.1 ?_
      intro j t' hj
      rw [List.getElem?_set] at hj
      by_cases hij : i = j
      · subst hij
        rw [if_pos rfl] at hj
        split at hj
        · injection hj with hj
          subst hj
          exact ⟨p, hp, hs.2⟩
        · cases hj
      · rw [if_neg hij] at hj
        exact inv j t' hj

/-- **C08 (schedules).** For every pool of concurrent conversions, every schedule of their atomic cache
accesses (any length, any fairness) and every coherent starting cache: each thread that has finished returned
exactly its one-shot result, and the cache is still coherent. -/
theorem schedule_indep (ps : List (Prog K V Out)) (sched : List Nat) (c : Cache K V)
    (h : Coherent compile c) :
    Coherent compile (runSchedule sched c (ps.map (fun p => p.toAct compile))).1 ∧
    ∀ (i : Nat) o, (runSchedule sched c (ps.map (fun p => p.toAct compile))).2[i]? = some (Act.ret o) →
      ∃ p : Prog K V Out, ps[i]? = some p ∧ o = p.eval compile := by
  have key := schedule_gen compile ps sched c (ps.map (fun p => p.toAct compile)) h (by
    intro i t hi
    rw [List.getElem?_map] at hi
    cases hp : ps[i]? with
    | none => rw [hp] at hi; cases hi
    | some p =>
      rw [hp] at hi
      simp only [Option.map_some] at hi
      injection hi with hi
      subst hi
      exact ⟨p, rfl, good_toAct compile p⟩)
  refine ⟨key.1, ?_⟩
  intro i o hi
  obtain ⟨p, hp, hg⟩ := key.2 i _ hi
  exact ⟨p, hp, hg⟩

/-- …and a thread scheduled often enough does finish: running thread `i` alone for `2 * depth` steps ends it
(no thread can be blocked by another). `depth` is the number of cache accesses on the path taken. -/
def Prog.depth (compile : K → V) : Prog K V Out → Nat
  | .ret _ => 0
  | .getSc k cont => (cont (compile k)).depth compile + 1

theorem runSchedule_append (s1 s2 : List Nat) (c : Cache K V) (ts : List (Act K V Out)) :
    runSchedule (s1 ++ s2) c ts = runSchedule s2 (runSchedule s1 c ts).1 (runSchedule s1 c ts).2 := by
  induction s1 generalizing c ts with
  | nil => rfl
  | cons i s1 ih =>
    cases hi : ts[i]? with
    | none =>
      simp only [List.cons_append, runSchedule, hi]
      exact ih c ts
    | some t =>
      simp only [List.cons_append, runSchedule, hi]
      exact ih _ _

theorem runSchedule_single (s : List Nat) (c : Cache K V) (t : Act K V Out) :
    runSchedule (0 :: s) c [t] = runSchedule s (stepThread c t).1 [(stepThread c t).2] := by
  simp [runSchedule]

theorem ret_stuck (n : Nat) (c : Cache K V) (o : Out) :
    runSchedule (List.replicate n 0) c [Act.ret o] = (c, [Act.ret o]) := by
  induction n with
  | zero => rfl
  | succ n ih =>
    rw [List.replicate_succ, runSchedule_single]
    exact ih

theorem thread_finishes (p : Prog K V Out) (c : Cache K V) (h : Coherent compile c) :
    ∃ c', runSchedule (List.replicate (2 * p.depth compile) 0) c [p.toAct compile]
      = (c', [Act.ret (p.eval compile)]) := by
  induction p generalizing c with
  | ret o => exact ⟨c, rfl⟩
  | getSc k cont ih =>
    have hd : 2 * Prog.depth compile (Prog.getSc k cont)
        = 2 * Prog.depth compile (cont (compile k)) + 1 + 1 := by
      simp only [Prog.depth]; omega
    rw [hd, List.replicate_succ, runSchedule_single]
    simp only [Prog.toAct, stepThread, Prog.eval]
    cases hk : c.lookup k with
    | some v =>
      have hv := h k v hk
      subst hv
      obtain ⟨c', hc'⟩ := ih (compile k) c h
      refine ⟨c', ?_⟩
      simp only []
      rw [List.replicate_succ', runSchedule_append, hc']
      exact ret_stuck 1 c' _
    | none =>
      obtain ⟨c', hc'⟩ := ih (compile k) _ (coherent_cons compile h k)
      refine ⟨c', ?_⟩
      simp only []
      rw [List.replicate_succ, runSchedule_single]
      exact hc'

end Mistune

