/-
How the block pass of the CONCRETE model (`Mistune.Model.Blk`) treats the shared `env`.

Only three handlers of the dispatcher `Blk.parseMethod` write `env` (`parse_ref_link`, and the plugin rules
`parse_ref_footnote`, `parse_ref_abbr`); every other handler leaves it alone or threads it through child states
(`parse_block_quote`, the spoiler plugin's `parse_block_spoiler`, `parse_list`, `parse_def_list` continue with
`child.env`; `block_math` and speedup's `paragraph` only append tokens).  Hence every reflexive and
transitive relation `R` on `env` values that the three writers respect holds between the initial `env` and the
final `env` of the whole block pass: `parseMethod_rel`, `parse_rel`, `blockParse_rel`.

`Sat P e` is partial correctness for `Except PyErr`: "if `e` returns `a` then `P a`".
-/
import Mistune.Model.BlockDispatch
namespace Mistune
namespace Model
namespace Blk

/-- partial correctness: if the computation returns a value, the value satisfies `P` -/
def Sat {α : Type} (P : α → Prop) (e : Except PyErr α) : Prop := ∀ a, e = .ok a → P a

theorem Sat.bind {α β : Type} {Q : α → Prop} {P : β → Prop} {e : Except PyErr α} {f : α → Except PyErr β}
    (h1 : Sat Q e) (h2 : ∀ a, Q a → Sat P (f a)) : Sat P (e >>= f) := by
  cases e with
  | ok a => exact h2 a (h1 a rfl)
  | error err => intro b hb; cases hb

theorem Sat.ok {α : Type} {P : α → Prop} {a : α} (h : P a) : Sat P (.ok a : Except PyErr α) := by
  intro b hb; cases hb; exact h

theorem Sat.pure {α : Type} {P : α → Prop} {a : α} (h : P a) : Sat P (pure a : Except PyErr α) := Sat.ok h

theorem Sat.err {α : Type} {P : α → Prop} {e : PyErr} : Sat P (.error e : Except PyErr α) := by
  intro b hb; cases hb

theorem Sat.throw {α : Type} {P : α → Prop} {e : PyErr} : Sat P (throw e : Except PyErr α) := Sat.err

theorem Sat.true {α : Type} (e : Except PyErr α) : Sat (fun _ => True) e := fun _ _ => trivial

theorem Sat.mono {α : Type} {P Q : α → Prop} {e : Except PyErr α} (h : Sat P e) (hpq : ∀ a, P a → Q a) : Sat Q e :=
  fun a ha => hpq a (h a ha)

/-- a relation on `env` values that is reflexive, transitive and respected by the three handlers that write `env` -/
structure EnvRel (cfg : MdCfg) (R : Json → Json → Prop) : Prop where
  refl : ∀ e, R e e
  trans : ∀ {a b c}, R a b → R b c → R a c
  refLink : ∀ mt st r st', parseRefLink cfg mt st = .ok (r, st') → R st.env st'.env
  refFootnote : ∀ mt st r st', parseRefFootnote cfg mt st = .ok (r, st') → R st.env st'.env
  refAbbr : ∀ mt st r st', parseRefAbbr cfg mt st = .ok (r, st') → R st.env st'.env

/-- the contract of a parse method with respect to `R` -/
def PMRel (R : Json → Json → Prop) (pm : ParseMethod) : Prop :=
  ∀ name mt st, Sat (fun res => R st.env res.2.env) (pm name mt st)

/-! ### state helpers keep `env` -/

namespace BlockState
@[simp] theorem appendToken_env (st : BlockState) (t : Json) : (st.appendToken t).env = st.env := rfl
@[simp] theorem setLastToken_env (st : BlockState) (t : Json) : (st.setLastToken t).env = st.env := rfl
@[simp] theorem prependToken_env (st : BlockState) (t : Json) : (st.prependToken t).env = st.env := by
  unfold prependToken; split <;> rfl
@[simp] theorem process_env (st : BlockState) (s : Str) : (st.process s).env = st.env := rfl
@[simp] theorem childState_env (st : BlockState) (s : Str) : (st.childState s).env = st.env := rfl

theorem addParagraph_env (st : BlockState) (text : Str) :
    Sat (fun st' => st'.env = st.env) (st.addParagraph text) := by
  unfold addParagraph
  refine Sat.bind (Sat.true _) (fun o _ => ?_)
  split
  · refine Sat.bind (Sat.true _) (fun l _ => ?_)
    exact Sat.pure rfl
  · exact Sat.pure rfl

theorem appendParagraph_env (cfg : MdCfg) (st : BlockState) :
    Sat (fun res => res.2.env = st.env) (st.appendParagraph cfg) := by
  unfold appendParagraph
  refine Sat.bind (Sat.true _) (fun o _ => ?_)
  split
  · refine Sat.bind (Sat.true _) (fun pos _ => ?_)
    refine Sat.bind (Sat.true _) (fun l _ => ?_)
    exact Sat.pure rfl
  · exact Sat.pure rfl
end BlockState

/-! ### handlers that do not touch `env` -/

theorem parseBlankLine_env (mt : RxMatch) (st : BlockState) :
    Sat (fun res => res.2.env = st.env) (parseBlankLine mt st) := Sat.ok rfl

theorem parseThematicBreak_env (mt : RxMatch) (st : BlockState) :
    Sat (fun res => res.2.env = st.env) (parseThematicBreak mt st) := Sat.ok rfl

theorem parseAtxHeading_env (cfg : MdCfg) (mt : RxMatch) (st : BlockState) :
    Sat (fun res => res.2.env = st.env) (parseAtxHeading cfg mt st) := Sat.ok rfl

theorem parseIndentCode_env (cfg : MdCfg) (mt : RxMatch) (st : BlockState) :
    Sat (fun res => res.2.env = st.env) (parseIndentCode cfg mt st) := by
  unfold parseIndentCode
  refine Sat.bind (BlockState.appendParagraph_env cfg st) ?_
  rintro ⟨endPos, st1⟩ h
  dsimp only at h ⊢
  split
  · exact Sat.pure h
  · exact Sat.pure h

theorem parseFencedCode_env (cfg : MdCfg) (mt : RxMatch) (st : BlockState) :
    Sat (fun res => res.2.env = st.env) (parseFencedCode cfg mt st) := by
  unfold parseFencedCode
  extract_lets spaces marker info info' jp
  have hjp : ∀ c, Sat (fun res => res.2.env = st.env) (jp c) := by
    intro c
    show Sat _ (if _ then _ else _)
    split
    · exact Sat.pure rfl
    · exact Sat.pure rfl
  clear_value jp marker
  split
  · exact Sat.bind (Sat.true _) (fun c _ => hjp c)
  · exact Sat.bind (Sat.true _) (fun c _ => hjp c)

theorem parseHtmlToEnd_env (cfg : MdCfg) (st : BlockState) (endMarker : Str) (startPos : Nat) :
    Sat (fun res => res.2.env = st.env) (parseHtmlToEnd cfg st endMarker startPos) := by
  unfold parseHtmlToEnd
  split
  · exact Sat.pure rfl
  · refine Sat.bind (Sat.true _) (fun e _ => ?_)
    exact Sat.pure rfl

theorem parseHtmlToNewline_env (st : BlockState) (newline : Rx) :
    Sat (fun res => res.2.env = st.env) (parseHtmlToNewline st newline) := by
  unfold parseHtmlToNewline
  split <;> exact Sat.ok rfl

theorem parseTable_env (cfg : MdCfg) (mt : RxMatch) (st : BlockState) :
    Sat (fun res => res.2.env = st.env) (parseTable cfg mt st) := by
  unfold parseTable
  extract_lets pos
  split
  · exact Sat.ok rfl
  · split <;> exact Sat.ok rfl

/-- `math.parse_block_math` -/
theorem parseBlockMath_env (cfg : MdCfg) (mt : RxMatch) (st : BlockState) :
    Sat (fun res => res.2.env = st.env) (parseBlockMath cfg mt st) := Sat.ok rfl

/-- `speedup.parse_paragraph` -/
theorem parseParagraph_env (mt : RxMatch) (st : BlockState) :
    Sat (fun res => res.2.env = st.env) (parseParagraph mt st) := by
  unfold parseParagraph
  refine Sat.bind (BlockState.addParagraph_env st _) (fun st1 h1 => ?_)
  exact Sat.pure h1

theorem parseNptable_env (cfg : MdCfg) (mt : RxMatch) (st : BlockState) :
    Sat (fun res => res.2.env = st.env) (parseNptable cfg mt st) := by
  unfold parseNptable
  split
  · exact Sat.ok rfl
  · split <;> exact Sat.ok rfl

theorem parseRawHtml_env (cfg : MdCfg) (mt : RxMatch) (st : BlockState) :
    Sat (fun res => res.2.env = st.env) (parseRawHtml cfg mt st) := by
  unfold parseRawHtml
  extract_lets blankLine marker closeTag openTag startPos isTruthy jp
  split
  · exact parseHtmlToEnd_env _ _ _ _
  split
  · exact parseHtmlToEnd_env _ _ _ _
  split
  · exact parseHtmlToEnd_env _ _ _ _
  split
  · exact parseHtmlToEnd_env _ _ _ _
  have hjp : ∀ u, Sat (fun res => res.2.env = st.env) (jp u) := by
    intro u
    refine Sat.bind (BlockState.appendParagraph_env cfg st) ?_
    rintro ⟨endPos, st1⟩ h
    dsimp only at h ⊢
    split
    · exact Sat.pure h
    · refine Sat.bind (Sat.true _) (fun e _ => ?_)
      split
      · exact (parseHtmlToNewline_env _ _).mono (fun a ha => ha.trans h)
      · exact Sat.pure h
  clear_value jp closeTag openTag
  split
  · split
    · exact parseHtmlToNewline_env _ _
    · exact hjp _
  · split
    · exact parseHtmlToEnd_env _ _ _ _
    · split
      · exact parseHtmlToNewline_env _ _
      · exact hjp _
  · exact hjp _

/-! ### handlers parameterised by the parse method -/

section rel
variable {cfg : MdCfg} {R : Json → Json → Prop} (hR : EnvRel cfg R)
include hR

theorem Sat.relOfEnv {st : BlockState} {e : PMRes}
    (h : Sat (fun res => res.2.env = st.env) e) : Sat (fun res => R st.env res.2.env) e :=
  h.mono (fun a ha => by rw [ha]; exact hR.refl _)

theorem parseSetexHeading_rel {pm : ParseMethod} (hpm : PMRel R pm) (mt : RxMatch) (st : BlockState) :
    Sat (fun res => R st.env res.2.env) (parseSetexHeading cfg pm mt st) := by
  unfold parseSetexHeading
  refine Sat.bind (Sat.true _) (fun o _ => ?_)
  split
  · exact Sat.pure (hR.refl _)
  · refine Sat.bind (Sat.true _) (fun sc _ => ?_)
    split
    · split
      · exact Sat.pure (hR.refl _)
      · exact hpm _ _ _
    · exact Sat.pure (hR.refl _)

theorem parseLoop_rel {pm : ParseMethod} (hpm : PMRel R pm) (sc : List (String × Rx)) :
    ∀ (fuel : Nat) (st : BlockState), Sat (fun st' => R st.env st'.env) (parseLoop cfg pm sc fuel st) := by
  intro fuel
  induction fuel with
  | zero =>
    intro st
    unfold parseLoop
    split
    · exact Sat.err
    · exact Sat.ok (hR.refl _)
  | succ fuel ih =>
    intro st
    unfold parseLoop
    split
    · split
      · exact Sat.ok (hR.refl _)
      · rename_i name m hscan
        extract_lets endPos jpLoop jp
        have hloop : ∀ st3 : BlockState, R st.env st3.env → Sat (fun st' => R st.env st'.env) (jpLoop st3) :=
          fun st3 h3 => (ih st3).mono (fun a ha => hR.trans h3 ha)
        clear_value jpLoop
        have hjp : ∀ st1 : BlockState, st1.env = st.env → Sat (fun st' => R st.env st'.env) (jp st1) := by
          intro st1 h1
          show Sat _ (pm name m st1 >>= _)
          refine Sat.bind (hpm _ _ _) ?_
          rintro ⟨endPos2, st2⟩ h2
          dsimp only at h2
          rw [h1] at h2
          show Sat _ (if truthyPos endPos2 = true then _ else _)
          split
          · simp only [pure_bind]
            exact hloop _ h2
          · refine Sat.bind (Sat.true _) (fun e _ => ?_)
            refine Sat.bind (BlockState.addParagraph_env _ _) (fun a ha => ?_)
            simp only [pure_bind]
            refine hloop _ ?_
            show R st.env a.env
            rw [ha]; exact h2
        clear_value jp
        split
        · refine Sat.bind (BlockState.addParagraph_env _ _) (fun a ha => ?_)
          simp only [pure_bind]
          exact hjp _ ha
        · simp only [pure_bind]
          exact hjp _ rfl
    · exact Sat.ok (hR.refl _)

theorem parse_rel' {pm : ParseMethod} (hpm : PMRel R pm) (st : BlockState) (rules : Option (List String)) :
    Sat (fun st' => R st.env st'.env) (parse cfg pm st rules) := by
  unfold parse
  refine Sat.bind (Sat.true _) (fun sc _ => ?_)
  refine Sat.bind (parseLoop_rel hR hpm sc _ st) (fun st1 h1 => ?_)
  split
  · refine Sat.bind (BlockState.addParagraph_env _ _) (fun a ha => ?_)
    refine Sat.pure ?_
    show R st.env a.env
    rw [ha]; exact h1
  · exact Sat.pure h1

theorem extractQuoteLoop_rel {pm : ParseMethod} (hpm : PMRel R pm) (breakSc : List (String × Rx)) :
    ∀ (fuel : Nat) (text : Str) (pbl : Bool) (endPos : Option Nat) (st : BlockState),
      Sat (fun res => R st.env res.2.2.env) (extractQuoteLoop cfg pm breakSc fuel text pbl endPos st) := by
  intro fuel
  induction fuel with
  | zero =>
    intro text pbl endPos st
    unfold extractQuoteLoop
    split
    · exact Sat.err
    · exact Sat.ok (hR.refl _)
  | succ fuel ih =>
    intro text pbl endPos st
    unfold extractQuoteLoop
    split
    · split
      · extract_lets quote text' st' pbl'
        exact ih _ _ _ _
      · split
        · exact Sat.ok (hR.refl _)
        · extract_lets jp
          have hjp : ∀ x : Option Nat × BlockState, R st.env x.2.env →
              Sat (fun res => R st.env res.2.2.env) (jp x) := by
            rintro ⟨e1, st1⟩ h1
            dsimp only at h1
            show Sat _ (if _ then _ else _)
            split
            · exact Sat.pure h1
            · refine Sat.bind (Sat.true _) (fun pos _ => ?_)
              extract_lets line
              exact (ih _ _ _ _).mono (fun a ha => hR.trans h1 ha)
          clear_value jp
          split
          · exact Sat.bind (hpm _ _ _) (fun x hx => hjp x hx)
          · simp only [pure_bind]
            exact hjp _ (hR.refl _)
    · exact Sat.ok (hR.refl _)

theorem extractBlockQuote_rel {pm : ParseMethod} (hpm : PMRel R pm) (mt : RxMatch) (st : BlockState) :
    Sat (fun res => R st.env res.2.2.env) (extractBlockQuote cfg pm mt st) := by
  unfold extractBlockQuote
  extract_lets text1 text2 text3
  refine Sat.bind (Sat.true _) (fun sc _ => ?_)
  extract_lets requireMarker
  split
  · split
    · exact Sat.pure (hR.refl _)
    · exact Sat.pure (hR.refl _)
  · refine Sat.bind (Sat.true _) (fun bsc _ => ?_)
    refine Sat.bind (extractQuoteLoop_rel hR hpm bsc _ _ _ _ _) ?_
    rintro ⟨t, e, st2⟩ h2
    exact Sat.pure h2

theorem parseBlockQuote_rel {pm : ParseMethod} (hpm : PMRel R pm) (mt : RxMatch) (st : BlockState) :
    Sat (fun res => R st.env res.2.env) (parseBlockQuote cfg pm mt st) := by
  unfold parseBlockQuote
  extract_lets tokIndex
  refine Sat.bind (extractBlockQuote_rel hR hpm mt st) ?_
  rintro ⟨t, e, st1⟩ h1
  dsimp only at h1 ⊢
  refine Sat.bind (parse_rel' hR hpm _ _) (fun child1 hc => ?_)
  have hc' : R st.env child1.env := hR.trans h1 hc
  split
  · exact Sat.pure hc'
  · exact Sat.pure hc'

/-- `spoiler.parse_block_spoiler` (the rebound `block_quote` handler): threads `child.env` like `parse_block_quote` -/
theorem parseBlockSpoiler_rel {pm : ParseMethod} (hpm : PMRel R pm) (mt : RxMatch) (st : BlockState) :
    Sat (fun res => R st.env res.2.env) (parseBlockSpoiler cfg pm mt st) := by
  unfold parseBlockSpoiler
  extract_lets tokIndex
  refine Sat.bind (extractBlockQuote_rel hR hpm mt st) ?_
  rintro ⟨t, e, st1⟩ h1
  dsimp only at h1 ⊢
  refine Sat.bind (parse_rel' hR hpm _ _) (fun child1 hc => ?_)
  have hc' : R st.env child1.env := hR.trans h1 hc
  split
  · exact Sat.pure hc'
  · exact Sat.pure hc'

theorem listItemLoop_rel {pm : ParseMethod} (hpm : PMRel R pm) (sc : List (String × Rx)) (text continueSpace : Str) :
    ∀ (fuel pos : Nat) (src : Str) (pbl : Bool) (token : Json) (st : BlockState),
      Sat (fun res => R st.env res.2.2.2.env)
        (listItemLoop cfg pm sc text continueSpace fuel pos src pbl token st) := by
  intro fuel
  induction fuel with
  | zero =>
    intro pos src pbl token st
    unfold listItemLoop
    split
    · exact Sat.err
    · exact Sat.ok (hR.refl _)
  | succ fuel ih =>
    intro pos src pbl token st
    unfold listItemLoop
    split
    · refine Sat.bind (Sat.true _) (fun pos1 _ => ?_)
      extract_lets line line2 jp token2 tokIndex
      have hjp : ∀ x : Option (Option ItemGroups × Json) × BlockState, R st.env x.2.env →
          Sat (fun res => R st.env res.2.2.2.env) (jp x) := by
        rintro ⟨stop, st1⟩ h1
        dsimp only at h1
        rcases stop with _ | ⟨ng, tk⟩
        · show Sat _ (if _ then _ else _)
          split
          · exact Sat.pure h1
          · exact (ih _ _ _ _ _).mono (fun a ha => hR.trans h1 ha)
        · exact Sat.pure h1
      clear_value jp
      split
      · exact ih _ _ _ _ _
      · split
        · split
          · exact Sat.pure (hR.refl _)
          · exact ih _ _ _ _ _
        · split
          · split
            · simp only [pure_bind]
              exact hjp _ (hR.refl _)
            · split
              · simp only [pure_bind]
                exact hjp _ (hR.refl _)
              · refine Sat.bind (hpm _ _ _) ?_
                rintro ⟨e2, st2⟩ h2
                dsimp only at h2 ⊢
                split
                · simp only [pure_bind]
                  exact hjp _ h2
                · simp only [pure_bind]
                  exact hjp _ h2
          · simp only [pure_bind]
            exact hjp _ (hR.refl _)
    · exact Sat.ok (hR.refl _)

theorem parseListItem_rel {pm : ParseMethod} (hpm : PMRel R pm) (bullet : Char) (groups : ItemGroups) (token : Json)
    (st : BlockState) (rules : List String) :
    Sat (fun res => R st.env res.2.2.env) (parseListItem cfg pm bullet groups token st rules) := by
  unfold parseListItem
  obtain ⟨spaces, marker, text⟩ := groups
  dsimp only
  refine Sat.bind (listItemLoop_rel hR hpm _ _ _ _ _ _ _ _ _) (fun x h1 => ?_)
  refine Sat.bind (parse_rel' hR hpm _ _) (fun child hc => ?_)
  have hc' : R st.env child.env := hR.trans h1 hc
  refine Sat.bind (Sat.true _) (fun l1 _ => ?_)
  refine Sat.bind (Sat.true _) (fun l2 _ => ?_)
  split
  · simp only [pure_bind]
    refine Sat.bind (Sat.true _) (fun ch _ => ?_)
    exact Sat.pure hc'
  · simp only [pure_bind]
    refine Sat.bind (Sat.true _) (fun ch _ => ?_)
    exact Sat.pure hc'

theorem listItemsLoop_rel {pm : ParseMethod} (hpm : PMRel R pm) (bullet : Char) (rules : List String) :
    ∀ (fuel : Nat) (groups : Option ItemGroups) (token : Json) (st : BlockState),
      Sat (fun res => R st.env res.2.env) (listItemsLoop cfg pm bullet rules fuel groups token st) := by
  intro fuel
  induction fuel with
  | zero =>
    intro groups token st
    cases groups with
    | none => unfold listItemsLoop; exact Sat.ok (hR.refl _)
    | some g => unfold listItemsLoop; exact Sat.err
  | succ fuel ih =>
    intro groups token st
    cases groups with
    | none => unfold listItemsLoop; exact Sat.ok (hR.refl _)
    | some g =>
      unfold listItemsLoop
      refine Sat.bind (parseListItem_rel hR hpm _ _ _ _ _) ?_
      rintro ⟨g1, tk1, st1⟩ h1
      exact (ih _ _ _).mono (fun a ha => hR.trans h1 ha)

theorem parseList_rel {pm : ParseMethod} (hpm : PMRel R pm) (mt : RxMatch) (st : BlockState) :
    Sat (fun res => R st.env res.2.env) (parseList cfg pm mt st) := by
  unfold parseList
  extract_lets text jp1
  have hjp1 : ∀ x : Option Nat × BlockState, R st.env x.2.env → Sat (fun res => R st.env res.2.env) (jp1 x) := by
    rintro ⟨early, st1⟩ h1
    dsimp only at h1
    show Sat _ (if _ then _ else _)
    split
    · exact Sat.pure h1
    extract_lets marker ordered depth attrs rules jp2
    have hjp2 : ∀ last, Sat (fun res => R st.env res.2.env) (jp2 last) := by
      intro last
      unfold jp2; dsimp -zeta only
      extract_lets bullet jp3 jp5
      have hjp3 : ∀ x : Option Nat × Json × BlockState, R st.env x.2.2.env →
          Sat (fun res => R st.env res.2.env) (jp3 x) := by
        intro x3 h3
        show Sat _ (if _ then _ else _)
        split
        · exact Sat.pure h3
        extract_lets
        refine Sat.bind (listItemsLoop_rel hR hpm _ _ _ _ _ _) ?_
        intro x5 h5
        have h5' : R st.env x5.2.env := hR.trans h3 h5
        extract_lets endPos tk6
        clear_value endPos
        dsimp only
        refine Sat.bind (Sat.true _) (fun tk7 _ => ?_)
        split
        · refine Sat.bind (Sat.true _) (fun l _ => ?_)
          split
          · exact Sat.bind (Sat.true _) (fun i _ => Sat.pure h5')
          · exact Sat.bind (Sat.true _) (fun i _ => Sat.pure h5')
        · exact Sat.pure h5'
      clear_value jp3
      split
      · have hjp5 : ∀ start, Sat (fun res => R st.env res.2.env) (jp5 start) := by
          intro start
          show Sat _ (if _ then _ else _)
          split
          · refine Sat.bind (BlockState.appendParagraph_env cfg st1) ?_
            rintro ⟨e6, st6⟩ h6
            dsimp only at h6 ⊢
            split
            · simp only [pure_bind]
              exact hjp3 _ (by show R st.env st6.env; rw [h6]; exact h1)
            · simp only [pure_bind]
              exact hjp3 _ (by show R st.env st6.env; rw [h6]; exact h1)
          · simp only [pure_bind]
            exact hjp3 _ h1
        clear_value jp5
        split
        · exact Sat.bind (Sat.true _) (fun i _ => hjp5 i)
        · exact Sat.bind (Sat.true _) (fun i _ => hjp5 i)
      · simp only [pure_bind]
        exact hjp3 _ h1
    clear_value jp2
    split
    · exact Sat.bind (Sat.true _) (fun i _ => hjp2 i)
    · exact Sat.bind (Sat.true _) (fun i _ => hjp2 i)
  clear_value jp1
  split
  · refine Sat.bind (BlockState.appendParagraph_env cfg st) (fun x hx => ?_)
    exact hjp1 x (by rw [hx]; exact hR.refl _)
  · simp only [pure_bind]
    exact hjp1 _ (hR.refl _)

theorem defProcessText_rel {pm : ParseMethod} (hpm : PMRel R pm) (text : Str) (loose : Bool) (parent : BlockState) :
    Sat (fun res => R parent.env res.2.env) (defProcessText cfg pm text loose parent) := by
  unfold defProcessText
  extract_lets text1 child
  refine Sat.bind (parse_rel' hR hpm _ _) (fun child1 hc => ?_)
  have hc' : R parent.env child1.env := hc
  extract_lets parent1
  split
  · split
    · refine Sat.bind (Sat.true _) (fun ty _ => ?_)
      split
      · exact Sat.pure hc'
      · exact Sat.pure hc'
    · exact Sat.pure hc'
  · exact Sat.pure hc'

theorem defItemLoop_rel {pm : ParseMethod} (hpm : PMRel R pm) (x : RxCtx) :
    ∀ (fuel start : Nat) (pbl : Bool) (acc : List Json) (st : BlockState),
      Sat (fun res => R st.env res.2.env) (defItemLoop cfg pm x fuel start pbl acc st) := by
  intro fuel
  induction fuel with
  | zero =>
    intro start pbl acc st
    unfold defItemLoop
    exact Sat.err
  | succ fuel ih =>
    intro start pbl acc st
    unfold defItemLoop
    split
    · extract_lets text
      refine Sat.bind (defProcessText_rel hR hpm _ _ _) ?_
      rintro ⟨ch, st1⟩ h1
      exact Sat.pure h1
    · extract_lets endPos text
      refine Sat.bind (defProcessText_rel hR hpm _ _ _) ?_
      rintro ⟨ch, st1⟩ h1
      dsimp only at h1 ⊢
      exact (ih _ _ _ _).mono (fun a ha => hR.trans h1 ha)

theorem parseDefItem_rel {pm : ParseMethod} (hpm : PMRel R pm) (mt : RxMatch) (st : BlockState) :
    Sat (fun res => R st.env res.2.env) (parseDefItem cfg pm mt st) := by
  unfold parseDefItem
  extract_lets head heads src x endPos
  split
  · exact Sat.throw
  · extract_lets start pbl
    exact defItemLoop_rel hR hpm _ _ _ _ _ _

theorem defListLoop_rel {pm : ParseMethod} (hpm : PMRel R pm) :
    ∀ (fuel pos : Nat) (children : List Json) (st : BlockState),
      Sat (fun res => R st.env res.2.2.env) (defListLoop cfg pm fuel pos children st) := by
  intro fuel
  induction fuel with
  | zero =>
    intro pos children st
    unfold defListLoop
    exact Sat.err
  | succ fuel ih =>
    intro pos children st
    unfold defListLoop
    split
    · exact Sat.ok (hR.refl _)
    · refine Sat.bind (parseDefItem_rel hR hpm _ _) ?_
      rintro ⟨more, st1⟩ h1
      dsimp only at h1 ⊢
      split
      · exact Sat.bind (Sat.true _) (fun _ _ => (ih _ _ _).mono (fun a ha => hR.trans h1 ha))
      · exact (ih _ _ _).mono (fun a ha => hR.trans h1 ha)

theorem parseDefList_rel {pm : ParseMethod} (hpm : PMRel R pm) (mt : RxMatch) (st : BlockState) :
    Sat (fun res => R st.env res.2.env) (parseDefList cfg pm mt st) := by
  unfold parseDefList
  refine Sat.bind (parseDefItem_rel hR hpm _ _) ?_
  rintro ⟨ch, st1⟩ h1
  dsimp only at h1 ⊢
  refine Sat.bind (defListLoop_rel hR hpm _ _ _ _) ?_
  rintro ⟨pos, ch2, st2⟩ h2
  exact Sat.pure (hR.trans h1 h2)

/-! directives (`Mistune.Model.Directives`): `env` changes only through the children parsed by `parse_tokens` -/

theorem parseTokens_rel {pm : ParseMethod} (hpm : PMRel R pm) (syn : DirSyntax) (text : Str) (st : BlockState) :
    Sat (fun res => R st.env res.2) (parseTokens cfg pm syn text st) := by
  unfold parseTokens
  exact Sat.bind (parse_rel' hR hpm _ _) (fun child hc => Sat.pure hc)

theorem figureContent_rel {pm : ParseMethod} (hpm : PMRel R pm) (d : DirMatch) (st : BlockState) :
    Sat (fun res => R st.env res.2) (figureContent cfg pm d st) := by
  unfold figureContent
  dsimp only
  split
  · exact Sat.pure (hR.refl _)
  · refine Sat.bind (parseTokens_rel hR hpm _ _ _) ?_
    rintro ⟨tokens, env⟩ h1
    dsimp only at h1 ⊢
    split
    · exact Sat.pure h1
    · refine Sat.bind (Sat.true _) (fun a _ => ?_)
      split <;> exact Sat.pure h1

theorem dirTokens_rel {pm : ParseMethod} (hpm : PMRel R pm) (d : DirMatch) (st : BlockState) :
    Sat (fun res => R st.env res.2) (dirTokens cfg pm d st) := by
  unfold dirTokens
  split
  · unfold admonitionParse
    refine Sat.bind (parseTokens_rel hR hpm _ _ _) ?_
    rintro ⟨toks, env⟩ h1
    exact Sat.pure h1
  · exact Sat.ok (hR.refl _)
  · unfold figureParse
    refine Sat.bind (figureContent_rel hR hpm _ _) ?_
    rintro ⟨content, env⟩ h1
    exact Sat.pure h1
  · unfold includeParse
    split
    · split
      · exact Sat.err
      · exact Sat.ok (hR.refl _)
    · exact Sat.ok (hR.refl _)
  · unfold tocParse
    dsimp only
    split <;> exact Sat.ok (hR.refl _)
  · exact Sat.err
  · exact Sat.ok (hR.refl _)

theorem dirParseMethod_rel {pm : ParseMethod} (hpm : PMRel R pm) (d : DirMatch) (st : BlockState) :
    Sat (fun st' => R st.env st'.env) (dirParseMethod cfg pm d st) := by
  unfold dirParseMethod
  refine Sat.bind (dirTokens_rel hR hpm d st) ?_
  rintro ⟨toks, env⟩ h1
  exact Sat.pure h1

theorem parseRstDirective_rel {pm : ParseMethod} (hpm : PMRel R pm) (mt : RxMatch) (st : BlockState) :
    Sat (fun res => R st.env res.2.env) (parseRstDirective cfg pm mt st) := by
  unfold parseRstDirective
  split
  · exact Sat.ok (hR.refl _)
  · exact Sat.bind (dirParseMethod_rel hR hpm _ st) (fun st' h1 => Sat.pure h1)

theorem processDirective_rel {pm : ParseMethod} (hpm : PMRel R pm) (marker : Str) (start : Nat) (st : BlockState) :
    Sat (fun res => R st.env res.2.env) (processDirective cfg pm marker start st) := by
  unfold processDirective
  cases marker with
  | nil => exact Sat.err
  | cons c mrest =>
    simp only [pure_bind]
    split
    · exact Sat.pure (hR.refl _)
    · exact Sat.bind (dirParseMethod_rel hR hpm _ st) (fun st' h1 => Sat.pure h1)

theorem parseFencedCodeDir_rel {pm : ParseMethod} (hpm : PMRel R pm) (mt : RxMatch) (st : BlockState) :
    Sat (fun res => R st.env res.2.env) (parseFencedCodeDir cfg pm mt st) := by
  unfold parseFencedCodeDir
  dsimp only
  split
  · exact Sat.relOfEnv hR (parseFencedCode_env _ _ _)
  · split
    · exact Sat.relOfEnv hR (parseFencedCode_env _ _ _)
    · exact processDirective_rel hR hpm _ _ _

end rel

/-! ### the dispatcher and the whole block pass -/

theorem parseMethod_rel (cfg : MdCfg) (R : Json → Json → Prop) (hR : EnvRel cfg R) :
    ∀ fuel, PMRel R (parseMethod cfg fuel) := by
  intro fuel
  induction fuel with
  | zero => intro name mt st; unfold parseMethod; exact Sat.err
  | succ fuel ih =>
    intro name mt st
    unfold parseMethod
    extract_lets pm
    split
    · exact Sat.relOfEnv hR (parseBlankLine_env _ _)
    · exact Sat.relOfEnv hR (parseAtxHeading_env _ _ _)
    · exact parseSetexHeading_rel hR ih _ _
    · split
      · exact parseFencedCodeDir_rel hR ih _ _
      · exact Sat.relOfEnv hR (parseFencedCode_env _ _ _)
    · exact Sat.relOfEnv hR (parseIndentCode_env _ _ _)
    · exact Sat.relOfEnv hR (parseThematicBreak_env _ _)
    · exact fun a ha => hR.refLink _ _ _ _ ha
    · split
      · exact parseBlockSpoiler_rel hR ih _ _
      · exact parseBlockQuote_rel hR ih _ _
    · exact parseList_rel hR ih _ _
    · exact Sat.relOfEnv hR (parseRawHtml_env _ _ _)
    · exact Sat.relOfEnv hR (parseRawHtml_env _ _ _)
    · split
      · exact Sat.relOfEnv hR (parseTable_env _ _ _)
      · exact Sat.err
    · split
      · exact Sat.relOfEnv hR (parseNptable_env _ _ _)
      · exact Sat.err
    · split
      · exact fun a ha => hR.refFootnote _ _ _ _ ha
      · exact Sat.err
    · split
      · exact parseDefList_rel hR ih _ _
      · exact Sat.err
    · split
      · exact fun a ha => hR.refAbbr _ _ _ _ ha
      · exact Sat.err
    · split
      · exact Sat.relOfEnv hR (parseBlockMath_env _ _ _)
      · exact Sat.err
    · split
      · exact Sat.relOfEnv hR (parseParagraph_env _ _)
      · exact Sat.err
    · split
      · exact parseRstDirective_rel hR ih _ _
      · exact Sat.err
    · split
      · exact processDirective_rel hR ih _ _ _
      · exact Sat.err
    · exact Sat.err

theorem parse_rel (cfg : MdCfg) (R : Json → Json → Prop) (hR : EnvRel cfg R) (pm : ParseMethod) (hpm : PMRel R pm)
    (st : BlockState) (rules : Option (List String)) :
    Sat (fun st' => R st.env st'.env) (parse cfg pm st rules) := parse_rel' hR hpm st rules

theorem blockParse_rel (cfg : MdCfg) (R : Json → Json → Prop) (hR : EnvRel cfg R) (src : Str) (toks : List Json)
    (env : Json) (h : Model.blockParse cfg src = .ok (toks, env)) : R (.obj [("ref_links", .obj [])]) env := by
  unfold Model.blockParse Blk.blockParse at h
  have hp := parse_rel cfg R hR _ (parseMethod_rel cfg R hR (nestFuel cfg src)) (BlockState.root src) none
  cases hq : parse cfg (parseMethod cfg (nestFuel cfg src)) (BlockState.root src) none with
  | error e => simp only [hq, bind, Except.bind] at h; cases h
  | ok st1 =>
    have := hp st1 hq
    simp only [hq, bind, Except.bind, pure, Except.pure] at h
    cases h
    exact this

end Blk
end Model
end Mistune
