/-
C06 (a) — "every non-void element closed in order", for the template model: the rendering of every token tree that
meets the decidable hypotheses is balanced, at every depth.  Same hypothesis as C02Tags (`StripAgrees`), proved in
`MistuneProofs/C02Strip.lean`, where the hypothesis-free corollary `render_balanced_closed` stands.

FOUND WHILE PROVING: the tree theorem `renderTok_balanced` is FALSE for an arbitrary `TagTable` as first stated
(kernel-checked counterexample `ceBal` at the end): `balRunPieces` has a hole — an integer argument met inside a tag after
the name part resets `lastSlash`, although the argument may be absent and print nothing, so `<a /` + k + `></a>` passes the
checker and renders as `<a /></a>`.  The theorem holds, and is proved here, with one more decidable table hypothesis
(`TagTable.balStrict`: every template that passes `tmplBalOk` also passes `tmplBalOkS`, the same check with that case
rejected), kernel-decided for the working tree, so `render_balanced` is proved exactly as stated.
The helpers `balRunPieces_sound` / `evalTmpl_balanced` are restated over the strict run, and from states that satisfy the
invariants of the reachable symbolic states (`SBS.Inv`; from arbitrary states the first statement was false as well: in
character data the record must be `SBS.init`, and the holes of the name being read must be integer arguments, otherwise
`b` + hole could print `br`).
-/
import Mistune.TmplBalance
import Mistune.Generated.Templates
import MistuneProofs.C02Tags
namespace Mistune
open Mistune.Generated

theorem bsRun_append (b : BS) (x y : Str) : bsRun b (x ++ y) = (bsRun b x).bind (fun b' => bsRun b' y) := by
  induction x generalizing b with
  | nil => simp [bsRun]
  | cons c cs ih =>
    simp only [List.cons_append, bsRun]
    cases bsStep b c with
    | none => simp
    | some s => exact ih s

theorem bsStep_frame (b b' : BS) (c : Char) (base : List Str) (h : bsStep b c = some b') :
    bsStep { b with stack := b.stack ++ base } c = some { b' with stack := b'.stack ++ base } := by
  obtain ⟨ts, name, reading, closing, lastSlash, stack⟩ := b
  simp only [bsStep] at h ⊢
  cases hts : tsStep ts c with
  | none => simp [hts] at h
  | some ts' =>
    simp only [hts] at h ⊢
    cases ts <;> cases ts' <;> simp only [] at h ⊢
    all_goals first
      | (simp only [Option.some.injEq] at h; subst h; rfl)
      | skip
    · split at h <;> (simp only [Option.some.injEq] at h; subst h; simp [*])
    · split at h
      · cases stack with
        | nil => simp at h
        | cons top rest =>
          simp only [List.cons_append] at h ⊢
          split at h
          · simp only [Option.some.injEq] at h; subst h; simp [*, BS.init]
          · cases h
      · rename_i hcl
        rw [if_neg hcl]
        split at h <;> rename_i hv
        · rw [if_pos hv]; simp only [Option.some.injEq] at h; subst h; rfl
        · rw [if_neg hv]; simp only [Option.some.injEq] at h; subst h; rfl
    · split at h
      · split at h <;> (simp only [Option.some.injEq] at h; subst h; simp [*])
      · simp only [Option.some.injEq] at h; subst h; simp [*]

theorem bsRun_frame (b b' : BS) (x : Str) (base : List Str) (h : bsRun b x = some b') :
    bsRun { b with stack := b.stack ++ base } x = some { b' with stack := b'.stack ++ base } := by
  induction x generalizing b with
  | nil => simp only [bsRun, Option.some.injEq] at h ⊢; subst h; rfl
  | cons c cs ih =>
    simp only [bsRun] at h ⊢
    cases hs : bsStep b c with
    | none => simp [hs] at h
    | some b1 =>
      rw [hs] at h
      rw [bsStep_frame b b1 c base hs]
      exact ih b1 h


/-- a string is *neutral* if, read in character data on any stack, it ends in character data on the same stack -/
def Neutral (s : Str) : Prop := ∀ stk, bsRun (BS.init stk) s = some (BS.init stk)

theorem bsRun_seq {b b1 b2 : BS} {x y : Str} (h1 : bsRun b x = some b1) (h2 : bsRun b1 y = some b2) :
    bsRun b (x ++ y) = some b2 := by
  rw [bsRun_append, h1]; exact h2

theorem bsRun_stable (b : BS) (s : Str) (h : ∀ c ∈ s, bsStep b c = some b) : bsRun b s = some b := by
  induction s with
  | nil => rfl
  | cons c cs ih =>
    simp only [bsRun, h c List.mem_cons_self]
    exact ih (fun d hd => h d (List.mem_cons_of_mem _ hd))

theorem bsStep_text_plain (b : BS) (c : Char) (hts : b.ts = .text) (hr : b.reading = false) (hl : b.lastSlash = false)
    (hc : plain3 c = true) : bsStep b c = some b := by
  obtain ⟨ts, name, reading, closing, lastSlash, stack⟩ := b
  simp only at hts hr hl; subst hts hr hl
  simp only [bsStep, tsStep_text_of_plain3 c hc]

theorem bsStep_dq_plain (b : BS) (c : Char) (hts : b.ts = .dq) (hr : b.reading = false) (hl : b.lastSlash = false)
    (hc : plain3 c = true) : bsStep b c = some b := by
  obtain ⟨ts, name, reading, closing, lastSlash, stack⟩ := b
  simp only at hts hr hl; subst hts hr hl
  simp only [bsStep, tsStep_dq_of_plain3 c hc]

theorem neutral_of_plain (s : Str) (h : ∀ c ∈ s, plain3 c = true) : Neutral s := by
  intro stk
  exact bsRun_stable _ _ (fun c hc => bsStep_text_plain _ c rfl rfl rfl (h c hc))

theorem bsStep_ts (b b' : BS) (c : Char) (h : bsStep b c = some b') : tsStep b.ts c = some b'.ts := by
  obtain ⟨ts, name, reading, closing, lastSlash, stack⟩ := b
  simp only [bsStep] at h ⊢
  cases hts : tsStep ts c with
  | none => simp [hts] at h
  | some ts' =>
    simp only [hts] at h ⊢
    cases ts <;> cases ts' <;> simp only [] at h ⊢
    all_goals first
      | (simp only [Option.some.injEq] at h; subst h; rfl)
      | skip
    · split at h <;> (simp only [Option.some.injEq] at h; subst h; rfl)
    · split at h
      · split at h
        · split at h
          · simp only [Option.some.injEq] at h; subst h; rfl
          · cases h
        · cases h
      · split at h <;> (simp only [Option.some.injEq] at h; subst h; rfl)
    · split at h
      · split at h <;> (simp only [Option.some.injEq] at h; subst h; rfl)
      · simp only [Option.some.injEq] at h; subst h; rfl

theorem bsRun_ts (b b' : BS) (s : Str) (h : bsRun b s = some b') : tsRun b.ts s = some b'.ts := by
  induction s generalizing b with
  | nil => simp only [bsRun, Option.some.injEq] at h; subst h; rfl
  | cons c cs ih =>
    simp only [bsRun] at h
    cases hs : bsStep b c with
    | none => simp [hs] at h
    | some b1 =>
      rw [hs] at h
      simp only [tsRun, bsStep_ts b b1 c hs]
      exact ih b1 h

theorem Neutral.wellTagged {s : Str} (h : Neutral s) : WellTagged s := bsRun_ts _ _ s (h [])


theorem Neutral.append {x y : Str} (hx : Neutral x) (hy : Neutral y) : Neutral (x ++ y) :=
  fun stk => bsRun_seq (hx stk) (hy stk)

theorem Neutral.nil : Neutral [] := fun _ => rfl

theorem balanced_of_neutral {s : Str} (h : Neutral s) : Balanced s := h []


/-! ### integer arguments print digits and `-` only -/

def intChar (c : Char) : Bool := c.isDigit || c == '-'

theorem int_chars_intChar (n : Int) : ∀ c ∈ (toString n).toList, intChar c = true := by
  have hd : ∀ (m : Nat) c, c ∈ m.repr.toList → intChar c = true := by
    intro m c hc
    rw [Nat.toList_repr] at hc
    have := Nat.isDigit_of_mem_toDigits (by decide) (by decide) hc
    simp [intChar, this]
  intro c hc
  rw [Int.toString_eq_repr, Int.repr_eq_if] at hc
  split at hc
  · exact hd _ c hc
  · simp only [String.toList_append, List.mem_append] at hc
    rcases hc with hc | hc
    · revert c; decide
    · exact hd _ c hc

theorem intChar_props (c : Char) (h : intChar c = true) : plainC c = true ∧ nameEnd c = false ∧ (c == '/') = false := by
  simp only [intChar, Bool.or_eq_true, beq_iff_eq] at h
  rcases h with h | h
  · simp only [plainC, nameEnd, Bool.and_eq_true, bne_iff_ne, ne_eq, Bool.or_eq_false_iff, beq_eq_false_iff_ne]
    refine ⟨⟨⟨⟨?_, ?_⟩, ?_⟩, ?_⟩, ⟨⟨⟨?_, ?_⟩, ?_⟩, ?_⟩, ?_⟩ <;> rintro rfl <;> simp at h
  · subst h; decide

/-- the value of an integer argument: an integer, or absent -/
def IntVal (env : TEnv) (n : String) : Prop := (∃ k, env.get n = .int k) ∨ env.get n = .none

theorem IntVal.chars {env : TEnv} {n : String} (h : IntVal env n) : ∀ c ∈ (env.get n).toTStr.erase, intChar c = true := by
  rcases h with ⟨k, hk⟩ | hk
  · rw [hk]
    simp only [TVal.toTStr, TStr.erase, TStr.ofData, List.map_map, Function.comp_def, List.map_id']
    exact int_chars_intChar k
  · rw [hk]; intro c hc; cases hc

/-! ### concretisation of symbolic names -/

theorem concName_nil (env : TEnv) : concName env [] = [] := rfl

theorem concName_append (env : TEnv) (a b : SName) : concName env (a ++ b) = concName env a ++ concName env b := by
  simp [concName]

theorem concName_c (env : TEnv) (c : Char) : concName env [.c c] = [c] := by
  simp [concName, SymC.conc]

theorem concName_hole (env : TEnv) (n : String) : concName env [.hole n] = (env.get n).toTStr.erase := by
  simp [concName, SymC.conc]

theorem concName_lit (env : TEnv) (t : Str) : concName env (t.map SymC.c) = t := by
  induction t with
  | nil => rfl
  | cons c cs ih =>
    simp only [List.map_cons, concName, List.flatMap_cons, SymC.conc, List.singleton_append, List.cons.injEq, true_and]
    exact ih

def notHole : SymC → Bool := fun x => match x with | .hole _ => false | _ => true

/-- a name none of whose characters is a digit or `-`: its integer holes print nothing -/
theorem filter_of_no_intChar (env : TEnv) (name : SName) (hh : ∀ n, SymC.hole n ∈ name → IntVal env n)
    (hc : ∀ c ∈ concName env name, intChar c = false) :
    name.filter notHole = (concName env name).map SymC.c := by
  induction name with
  | nil => rfl
  | cons x xs ih =>
    have hxs : concName env (x :: xs) = SymC.conc env x ++ concName env xs := by simp [concName]
    rw [hxs] at hc ⊢
    have ih' := ih (fun n hn => hh n (List.mem_cons_of_mem _ hn)) (fun c h => hc c (List.mem_append_right _ h))
    cases x with
    | c ch =>
      simp only [List.filter_cons, notHole, if_true, SymC.conc, List.singleton_append, List.map_cons, List.cons.injEq, true_and]
      exact ih'
    | hole n =>
      have hn := (hh n List.mem_cons_self).chars
      have hempty : SymC.conc env (.hole n) = [] := by
        simp only [SymC.conc]
        cases hs : (env.get n).toTStr.erase with
        | nil => rfl
        | cons c cs =>
          have h1 := hn c (by rw [hs]; exact List.mem_cons_self)
          have h2 := hc c (List.mem_append_left _ (by simp only [SymC.conc]; rw [hs]; exact List.mem_cons_self))
          rw [h1] at h2; cases h2
      rw [hempty]
      simp only [List.filter_cons, notHole, Bool.false_eq_true, if_false, List.nil_append]
      exact ih'

theorem voidTags_no_intChar : ∀ t ∈ voidTags, ∀ c ∈ t, intChar c = false := by decide

/-- the void test of the symbolic automaton decides the void test of the concrete one -/
theorem void_conc (env : TEnv) (name : SName) (hh : ∀ n, SymC.hole n ∈ name → IntVal env n)
    (h2 : voidSym.contains (name.filter notHole) = false) :
    voidTags.contains (concName env name) = false := by
  cases hv : voidTags.contains (concName env name) with
  | false => rfl
  | true =>
    simp only [List.contains_eq_mem, decide_eq_true_eq] at hv
    have := filter_of_no_intChar env name hh (voidTags_no_intChar _ hv)
    rw [this] at h2
    simp only [voidSym, List.contains_eq_mem, decide_eq_false_iff_not, List.mem_map, not_exists, not_and] at h2
    exact absurd rfl (h2 _ hv)

theorem void_conc_pos (env : TEnv) (name : SName) (h : voidSym.contains name = true) :
    voidTags.contains (concName env name) = true := by
  simp only [voidSym, List.contains_eq_mem, decide_eq_true_eq, List.mem_map] at h ⊢
  obtain ⟨t, ht, rfl⟩ := h
  rw [concName_lit]; exact ht


/-! ### one character of a literal: the symbolic step is the concrete step -/

def tsTrans : TS → TS → Bool
  | .text, .text | .text, .lt | .lt, .tag | .tag, .tag | .tag, .text | .tag, .dq | .tag, .sq
  | .dq, .dq | .dq, .tag | .sq, .sq | .sq, .tag => true
  | _, _ => false

theorem tsStep_trans (ts ts' : TS) (c : Char) (h : tsStep ts c = some ts') : tsTrans ts ts' = true := by
  cases ts <;> simp only [tsStep] at h <;> (repeat' split at h) <;> cases h <;> rfl

/-- what the symbolic states reached from `SBS.init` satisfy -/
structure SBS.Inv (env : TEnv) (b : SBS) : Prop where
  text : b.ts = .text → b.name = [] ∧ b.reading = false ∧ b.closing = false ∧ b.lastSlash = false
  quote : b.ts = .dq ∨ b.ts = .sq → b.reading = false ∧ b.lastSlash = false
  holes : ∀ n, SymC.hole n ∈ b.name → IntVal env n

theorem SBS.Inv.init (env : TEnv) (stk : List SName) : (SBS.init stk).Inv env :=
  ⟨fun _ => ⟨rfl, rfl, rfl, rfl⟩, fun _ => ⟨rfl, rfl⟩, fun n hn => by cases hn⟩

theorem SBS.conc_init (env : TEnv) (stk : List SName) : (SBS.init stk).conc env = BS.init (stk.map (concName env)) := rfl

theorem SBS.conc_mk (env : TEnv) (ts : TS) (name : SName) (r cl ls : Bool) (stk : List SName) :
    SBS.conc env ⟨ts, name, r, cl, ls, stk⟩ = ⟨ts, concName env name, r, cl, ls, stk.map (concName env)⟩ := rfl

theorem sbsStep_sound (env : TEnv) (b b' : SBS) (c : Char) (hi : b.Inv env) (h : sbsStep b c = some b') :
    bsStep (b.conc env) c = some (b'.conc env) ∧ b'.Inv env := by
  obtain ⟨ts, name, reading, closing, lastSlash, stack⟩ := b
  obtain ⟨hit, hiq, hih⟩ := hi
  simp only at hit hiq hih
  simp only [sbsStep] at h
  cases hts : tsStep ts c with
  | none => simp [hts] at h
  | some ts' =>
    simp only [hts] at h
    have htr := tsStep_trans _ _ _ hts
    cases ts <;> cases ts' <;> first | cases htr | skip
    all_goals simp only [] at h
    all_goals first
      | (simp only [Option.some.injEq] at h; subst h
         refine ⟨by simp [bsStep, SBS.conc, hts, concName_nil], ⟨?_, ?_, ?_⟩⟩ <;> simp_all; done)
      | skip
    · -- lt → tag
      split at h <;> rename_i hc <;> simp only [Option.some.injEq] at h <;> subst h
      · exact ⟨by simp [bsStep, SBS.conc, hts, hc], ⟨by simp, by simp, hih⟩⟩
      · refine ⟨by simp [bsStep, SBS.conc, hts, hc, concName_c], ⟨by simp, by simp, ?_⟩⟩
        intro n hn; simp at hn
    · -- `>`
      split at h <;> rename_i hcl
      · cases stack with
        | nil => simp at h
        | cons top rest =>
          simp only at h
          split at h
          · rename_i heq
            simp only [beq_iff_eq] at heq
            subst heq
            simp only [Option.some.injEq] at h; subst h
            exact ⟨by simp [bsStep, SBS.conc, hts, hcl, SBS.init, BS.init, concName_nil], SBS.Inv.init env rest⟩
          · cases h
      · split at h
        · rename_i hv
          simp only [Option.some.injEq] at h; subst h
          have : (lastSlash || voidTags.contains (concName env name)) = true := by
            simp only [Bool.or_eq_true] at hv ⊢
            rcases hv with hv | hv
            · exact Or.inl hv
            · exact Or.inr (void_conc_pos env name hv)
          refine ⟨?_, SBS.Inv.init env stack⟩
          rw [SBS.conc_mk]
          simp only [bsStep, hts]
          rw [if_neg hcl, if_pos this]; rfl
        · rename_i hv
          split at h
          · cases h
          · rename_i hv2
            simp only [Option.some.injEq] at h; subst h
            simp only [Bool.or_eq_true, not_or, Bool.not_eq_true] at hv hv2
            have : ¬ (lastSlash || voidTags.contains (concName env name)) = true := by
              simp only [Bool.or_eq_true, not_or, Bool.not_eq_true]
              exact ⟨hv.1, void_conc env name hih hv2⟩
            refine ⟨?_, SBS.Inv.init env _⟩
            rw [SBS.conc_mk]
            simp only [bsStep, hts]
            rw [if_neg hcl, if_neg this]; rfl
    · -- tag → tag
      split at h <;> rename_i hr
      · split at h <;> rename_i hne <;> simp only [Option.some.injEq] at h <;> subst h
        · exact ⟨by simp [bsStep, SBS.conc, hts, hr, hne], ⟨by simp, by simp, hih⟩⟩
        · refine ⟨by simp [bsStep, SBS.conc, hts, hr, hne, concName_append, concName_c], ⟨by simp, by simp, ?_⟩⟩
          intro n hn
          simp only [List.mem_append, List.mem_singleton, reduceCtorEq, or_false] at hn
          exact hih n hn
      · simp only [Option.some.injEq] at h; subst h
        exact ⟨by simp [bsStep, SBS.conc, hts, hr], ⟨by simp, by simp, hih⟩⟩


/-! ### runs -/

theorem sbsRunLit_sound (env : TEnv) (s : Str) : ∀ (b b' : SBS), b.Inv env → sbsRunLit b s = some b' →
    bsRun (b.conc env) s = some (b'.conc env) ∧ b'.Inv env := by
  induction s with
  | nil =>
    intro b b' hi h
    simp only [sbsRunLit, Option.some.injEq] at h; subst h
    exact ⟨rfl, hi⟩
  | cons c cs ih =>
    intro b b' hi h
    simp only [sbsRunLit] at h
    cases hs : sbsStep b c with
    | none => simp [hs] at h
    | some b1 =>
      rw [hs] at h
      obtain ⟨h1, hi1⟩ := sbsStep_sound env b b1 c hi hs
      obtain ⟨h2, hi2⟩ := ih b1 b' hi1 h
      refine ⟨?_, hi2⟩
      simp only [bsRun, h1]
      exact h2

theorem bsRun_plain (b : BS) (s : Str) (hts : b.ts = .text ∨ b.ts = .dq) (hr : b.reading = false)
    (hl : b.lastSlash = false) (h : ∀ c ∈ s, plain3 c = true) : bsRun b s = some b := by
  apply bsRun_stable
  intro c hc
  rcases hts with hts | hts
  · exact bsStep_text_plain b c hts hr hl (h c hc)
  · exact bsStep_dq_plain b c hts hr hl (h c hc)

theorem bsStep_tag_name (b : BS) (c : Char) (hts : b.ts = .tag) (hr : b.reading = true) (hc : intChar c = true) :
    bsStep b c = some { b with name := b.name ++ [c] } := by
  obtain ⟨ts, name, reading, closing, lastSlash, stack⟩ := b
  simp only at hts hr; subst hts hr
  obtain ⟨h1, h2, _⟩ := intChar_props c hc
  simp [bsStep, tsStep_tag_of_plainC c h1, h2]

theorem bsRun_tag_name (s : Str) : ∀ (b : BS), b.ts = .tag → b.reading = true → (∀ c ∈ s, intChar c = true) →
    bsRun b s = some { b with name := b.name ++ s } := by
  induction s with
  | nil => intro b _ _ _; simp [bsRun]
  | cons c cs ih =>
    intro b hts hr h
    simp only [bsRun, bsStep_tag_name b c hts hr (h c List.mem_cons_self)]
    rw [ih { b with name := b.name ++ [c] } hts hr (fun d hd => h d (List.mem_cons_of_mem _ hd))]
    simp

theorem bsStep_tag_rest (b : BS) (c : Char) (hts : b.ts = .tag) (hr : b.reading = false) (hl : b.lastSlash = false)
    (hc : intChar c = true) : bsStep b c = some b := by
  obtain ⟨ts, name, reading, closing, lastSlash, stack⟩ := b
  simp only at hts hr hl; subst hts hr hl
  obtain ⟨h1, _, h3⟩ := intChar_props c hc
  simp [bsStep, tsStep_tag_of_plainC c h1, h3]

theorem intChar_plain3 (c : Char) (h : intChar c = true) : plain3 c = true :=
  plain3_of_plainC c (intChar_props c h).1



/-! ### the checker with its hole closed

HOLE FOUND WHILE PROVING: where `balRunPieces` meets an integer argument inside a tag after the name part, it sets
`lastSlash := false` — but an integer argument may be absent (`None` prints nothing), and then the `/` before it is still the
last character when `>` comes: `<a /` + k + `></a>` passes `balRunPieces` (it pushes `a` and pops it), and renders as
`<a /></a>` for a token without `k` — not balanced (`ceBal` below).  `balRunStrict` is `balRunPieces` with that single case
rejected; the templates of the working tree pass both (`templates_strict`). -/

def balRunStrict (info : TagInfo) : SBS → List TPiece → Option SBS
  | b, [] => some b
  | b, .lit s :: rest => match sbsRunLit b s with
    | some b' => balRunStrict info b' rest
    | none => none
  | b, .arg n ops :: rest =>
    if n == "$text" && info.textIsChildren then
      if (ops == [] && b.ts == .text) || (ops == [.striptags] && (b.ts == .text || b.ts == .dq)) then balRunStrict info b rest else none
    else if info.intArgs.contains n && ops.all (fun o => o == .str) then
      if b.ts == .text || b.ts == .dq then balRunStrict info b rest
      else if b.ts == .tag then
        (if b.reading then balRunStrict info { b with name := b.name ++ [.hole n] } rest
         else if b.lastSlash then none      -- the argument may print nothing: the `/` stays the last character
         else balRunStrict info b rest)
      else none
    else if (!info.dataArgs.contains n || hasEscaper ops) && (b.ts == .text || b.ts == .dq) then balRunStrict info b rest
    else none
  | b, .sub ops _ :: rest =>
    if hasEscaper ops && (b.ts == .text || b.ts == .dq) then balRunStrict info b rest else none
  | _, .toc _ :: _ => none
  | _, .replaceFirst _ _ _ :: _ => none

/-- the strict run is a restriction of the checker's run -/
theorem balRunStrict_le (info : TagInfo) (e : List TPiece) : ∀ (b b' : SBS),
    balRunStrict info b e = some b' → balRunPieces info b e = some b' := by
  induction e with
  | nil => intro b b' h; simpa [balRunStrict, balRunPieces] using h
  | cons p rest ih =>
    intro b b' h
    cases p with
    | lit s =>
      simp only [balRunStrict] at h
      simp only [balRunPieces]
      split at h
      · rename_i b1 hs; rw [hs]; exact ih _ _ h
      · cases h
    | arg n ops =>
      simp only [balRunStrict] at h
      simp only [balRunPieces]
      split at h
      · rename_i hc; rw [if_pos hc]
        split at h
        · rename_i hc2; rw [if_pos hc2]; exact ih _ _ h
        · cases h
      · rename_i hc; rw [if_neg hc]
        split at h
        · rename_i hc2; rw [if_pos hc2]
          split at h
          · rename_i hc3; rw [if_pos hc3]; exact ih _ _ h
          · rename_i hc3; rw [if_neg hc3]
            split at h
            · rename_i hc4; rw [if_pos hc4]
              split at h
              · rename_i hc5; rw [if_pos hc5]; exact ih _ _ h
              · rename_i hc5; rw [if_neg hc5]
                split at h
                · cases h
                · rename_i hc6
                  have : b.lastSlash = false := by simpa using hc6
                  have hb : { b with lastSlash := false } = b := by cases b; simp_all
                  rw [hb]; exact ih _ _ h
            · cases h
        · rename_i hc2; rw [if_neg hc2]
          split at h
          · rename_i hc3; rw [if_pos hc3]; exact ih _ _ h
          · cases h
    | sub ops e =>
      simp only [balRunStrict] at h
      simp only [balRunPieces]
      split at h
      · rename_i hc; rw [if_pos hc]; exact ih _ _ h
      · cases h
    | replaceFirst e pat b => simp [balRunStrict] at h
    | toc n => simp [balRunStrict] at h



theorem evalPiece_bsRun_step (env : TEnv) (p : TPiece) (rest : List TPiece) {b b1 b' : BS}
    (h1 : bsRun b (evalPiece env p).erase = some b1) (h2 : bsRun b1 (evalPieces env rest).erase = some b') :
    bsRun b (evalPieces env (p :: rest)).erase = some b' := by
  simp only [evalPieces, TStr.erase_append]
  exact bsRun_seq h1 h2

theorem SBS.Inv.eq_init {env : TEnv} {sb : SBS} (hi : sb.Inv env) (hts : sb.ts = .text) : sb = SBS.init sb.stack := by
  obtain ⟨ts, name, reading, closing, lastSlash, stack⟩ := sb
  obtain ⟨h1, h2, h3, h4⟩ := hi.text hts
  simp only at hts h1 h2 h3 h4
  subst hts h1 h2 h3 h4
  rfl

theorem SBS.Inv.flags {env : TEnv} {sb : SBS} (hi : sb.Inv env) (hst : sb.ts = .text ∨ sb.ts = .dq) :
    sb.reading = false ∧ sb.lastSlash = false := by
  rcases hst with h | h
  · exact ⟨(hi.text h).2.1, (hi.text h).2.2.2⟩
  · exact hi.quote (Or.inl h)

theorem conc_plain_run (env : TEnv) (sb : SBS) (hi : sb.Inv env) (hst : sb.ts = .text ∨ sb.ts = .dq) (t : TStr)
    (h : t.Plain) : bsRun (sb.conc env) t.erase = some (sb.conc env) :=
  bsRun_plain _ _ hst (hi.flags hst).1 (hi.flags hst).2 h.erase

theorem conc_neutral_run (env : TEnv) (sb : SBS) (hi : sb.Inv env) (hst : sb.ts = .text) (s : Str) (h : Neutral s) :
    bsRun (sb.conc env) s = some (sb.conc env) := by
  rw [hi.eq_init hst, SBS.conc_init]
  exact h _

/-- soundness of the strict symbolic run on a piece list -/
theorem balRunStrict_core (info : TagInfo) (env : TEnv) (h : EnvCore info env)
    (hchildren : info.textIsChildren = true → Neutral (env.get "$text").toTStr.erase) :
    ∀ (e : List TPiece) (sb sb' : SBS), sb.Inv env → balRunStrict info sb e = some sb' →
      bsRun (sb.conc env) (evalPieces env e).erase = some (sb'.conc env) ∧ sb'.Inv env := by
  intro e
  induction e with
  | nil =>
    intro sb sb' hi hr
    simp only [balRunStrict, Option.some.injEq] at hr
    subst hr
    exact ⟨by simp [evalPieces, TStr.erase, bsRun], hi⟩
  | cons p rest ih =>
    intro sb sb' hi hr
    -- one piece, then the rest
    have step : ∀ sb1 : SBS, bsRun (sb.conc env) (evalPiece env p).erase = some (sb1.conc env) → sb1.Inv env →
        balRunStrict info sb1 rest = some sb' →
        bsRun (sb.conc env) (evalPieces env (p :: rest)).erase = some (sb'.conc env) ∧ sb'.Inv env := by
      intro sb1 h1 hi1 hr1
      obtain ⟨h2, hi2⟩ := ih sb1 sb' hi1 hr1
      exact ⟨evalPiece_bsRun_step env p rest h1 h2, hi2⟩
    cases p with
    | lit s =>
      simp only [balRunStrict] at hr
      split at hr
      · rename_i sb1 hs
        obtain ⟨h1, hi1⟩ := sbsRunLit_sound env s sb sb1 hi hs
        refine step sb1 ?_ hi1 hr
        simp only [evalPiece, TStr.erase_ofLit]
        exact h1
      · cases hr
    | arg n ops =>
      simp only [balRunStrict] at hr
      split at hr
      · -- the rendered children
        rename_i hc
        simp only [Bool.and_eq_true, beq_iff_eq] at hc
        obtain ⟨hn, htc⟩ := hc
        subst hn
        have hneu := hchildren htc
        split at hr
        · rename_i hcase
          refine step sb ?_ hi hr
          simp only [evalPiece]
          simp only [Bool.or_eq_true, Bool.and_eq_true, beq_iff_eq] at hcase
          rcases hcase with ⟨ho, hst⟩ | ⟨ho, hst⟩
          · subst ho
            exact conc_neutral_run env sb hi hst _ hneu
          · subst ho
            have : applyOps env [TOp.striptags] (env.get "$text").toTStr = tsStripT .text (env.get "$text").toTStr := by
              simp only [applyOps, List.foldl_cons, List.foldl_nil, applyOp]
              exact h.strip _ hneu.wellTagged
            rw [this]
            exact conc_plain_run env sb hi hst _ (tsStripT_plain _ _)
        · cases hr
      · rename_i hc
        have hguard : n = "$text" → info.textIsChildren = false := by
          intro hn
          subst hn
          simpa using hc
        split at hr
        · -- an integer
          rename_i hint
          simp only [Bool.and_eq_true] at hint
          have hiv : IntVal env n := h.ints n hguard hint.1
          have hev : (evalPiece env (.arg n ops)).erase = (env.get n).toTStr.erase := by
            simp only [evalPiece]; rw [applyOps_all_str env ops _ hint.2]
          split at hr
          · rename_i hst
            simp only [Bool.or_eq_true, beq_iff_eq] at hst
            refine step sb ?_ hi hr
            rw [hev]
            exact bsRun_plain _ _ hst (hi.flags hst).1 (hi.flags hst).2 (fun c hc => intChar_plain3 c (hiv.chars c hc))
          · split at hr
            · rename_i hst
              simp only [beq_iff_eq] at hst
              split at hr
              · rename_i hrd
                refine step _ ?_ ?_ hr
                · rw [hev, bsRun_tag_name _ (sb.conc env) hst hrd hiv.chars]
                  simp [SBS.conc, concName_append, concName_hole]
                · refine ⟨?_, ?_, ?_⟩
                  · intro ht; rw [hst] at ht; cases ht
                  · intro ht; rw [hst] at ht; rcases ht with ht | ht <;> cases ht
                  · intro m hm
                    simp only [List.mem_append, List.mem_singleton, SymC.hole.injEq] at hm
                    rcases hm with hm | hm
                    · exact hi.holes m hm
                    · subst hm; exact hiv
              · rename_i hrd
                split at hr
                · cases hr
                · rename_i hls
                  refine step sb ?_ hi hr
                  rw [hev]
                  have hrd' : (sb.conc env).reading = false := by simpa [SBS.conc] using hrd
                  have hls' : (sb.conc env).lastSlash = false := by simpa [SBS.conc] using hls
                  exact bsRun_stable _ _ (fun c hc => bsStep_tag_rest _ c hst hrd' hls' (hiv.chars c hc))
            · cases hr
        · split at hr
          · rename_i hcase
            simp only [Bool.and_eq_true, Bool.or_eq_true, Bool.not_eq_true', beq_iff_eq] at hcase
            refine step sb ?_ hi hr
            simp only [evalPiece]
            apply conc_plain_run env sb hi hcase.2
            apply applyOps_Plain
            rcases hcase.1 with hd | he
            · exact Or.inr (safe_allData_Plain _ (h.allData n hguard) (TVal.toTStr_safe _ (h.safe n hguard hd)))
            · exact Or.inl he
          · cases hr
    | sub ops e =>
      simp only [balRunStrict] at hr
      split at hr
      · rename_i hcase
        simp only [Bool.and_eq_true, Bool.or_eq_true, beq_iff_eq] at hcase
        refine step sb ?_ hi hr
        simp only [evalPiece]
        exact conc_plain_run env sb hi hcase.2 _ (applyOps_Plain _ _ _ (Or.inl hcase.1))
      · cases hr
    | replaceFirst e pat b => simp [balRunStrict] at hr
    | toc n => simp [balRunStrict] at hr



/-- soundness of the symbolic run for one template body, on top of any stack (`base`); `hchildren`: the rendered children are
neutral.  Restated from the first draft: for the strict run (the checker's own run has a hole, see above), and from a state
that satisfies the invariants of the reachable states (`SBS.Inv`: the statement is false from arbitrary states). -/
theorem balRunPieces_sound (info : TagInfo) (env : TEnv) (h : EnvTagged info env)
    (hchildren : info.textIsChildren = true → Neutral (env.get "$text").toTStr.erase) :
    ∀ (e : List TPiece) (sb sb' : SBS), sb.Inv env → balRunStrict info sb e = some sb' →
      ∀ base, bsRun { (sb.conc env) with stack := (sb.conc env).stack ++ base } (evalPieces env e).erase
        = some { (sb'.conc env) with stack := (sb'.conc env).stack ++ base } :=
  fun e sb sb' hi hr base =>
    bsRun_frame _ _ _ base (balRunStrict_core info env h.toEnvCore hchildren e sb sb' hi hr).1

/-- `tmplBalOk` over the strict run -/
def tmplBalOkS (info : TagInfo) : Tmpl → Bool
  | .seq e => balRunStrict info (SBS.init []) e == some (SBS.init [])
  | .ite .flagEscape t _ => tmplBalOkS info t
  | .ite (.not .flagEscape) _ e => tmplBalOkS info e
  | .ite (.isDigit n) t e => tmplBalOkS { info with dataArgs := info.dataArgs.filter (· != n) } t && tmplBalOkS info e
  | .ite (.notNone n) t e => tmplBalOkS info t && tmplBalOkS { info with dataArgs := info.dataArgs.filter (· != n) } e
  | .ite _ t e => tmplBalOkS info t && tmplBalOkS info e
  | .opaque => false

theorem evalTmpl_balanced_core (info : TagInfo) (env : TEnv) (T : Tmpl) (h : EnvCore info env)
    (hchildren : info.textIsChildren = true → Neutral (env.get "$text").toTStr.erase)
    (hok : tmplBalOkS info T = true) : ∀ out, evalTmpl env T = some out → Neutral out.erase := by
  fun_induction tmplBalOkS info T with
  | case1 info e =>
    intro out ho
    simp only [evalTmpl, Option.some.injEq] at ho
    subst ho
    simp only [beq_iff_eq] at hok
    intro stk
    have := bsRun_frame _ _ _ stk (balRunStrict_core info env h hchildren e _ _ (SBS.Inv.init env []) hok).1
    simpa [SBS.conc_init, BS.init] using this
  | case2 info t e ih =>
    intro out ho
    have hc : evalCond env .flagEscape = true := by simp only [evalCond, h.esc]
    simp only [evalTmpl] at ho
    rw [if_pos hc] at ho
    exact ih h hchildren hok out ho
  | case3 info t e ih =>
    intro out ho
    have hc : ¬ evalCond env (.not .flagEscape) = true := by simp [evalCond, h.esc]
    simp only [evalTmpl] at ho
    rw [if_neg hc] at ho
    exact ih h hchildren hok out ho
  | case4 info n t e ih1 ih2 =>
    intro out ho
    simp only [Bool.and_eq_true] at hok
    simp only [evalTmpl] at ho
    by_cases hc : evalCond env (.isDigit n) = true
    · rw [if_pos hc] at ho
      simp only [evalCond] at hc
      exact ih1 (h.filter (isDigitStr_safe _ hc)) hchildren hok.1 out ho
    · rw [if_neg hc] at ho
      exact ih2 h hchildren hok.2 out ho
  | case5 info n t e ih1 ih2 =>
    intro out ho
    simp only [Bool.and_eq_true] at hok
    simp only [evalTmpl] at ho
    by_cases hc : evalCond env (.notNone n) = true
    · rw [if_pos hc] at ho
      exact ih1 h hchildren hok.1 out ho
    · rw [if_neg hc] at ho
      refine ih2 (h.filter ?_) hchildren hok.2 out ho
      simp only [evalCond] at hc
      cases heq : env.get n with
      | none => trivial
      | bool b => rw [heq] at hc; simp at hc
      | int b => rw [heq] at hc; simp at hc
      | str b => rw [heq] at hc; simp at hc
      | toc b => rw [heq] at hc; simp at hc
  | case6 info c t e _ _ _ _ ih1 ih2 =>
    intro out ho
    simp only [Bool.and_eq_true] at hok
    simp only [evalTmpl] at ho
    split at ho
    · exact ih1 h hchildren hok.1 out ho
    · exact ih2 h hchildren hok.2 out ho
  | case7 info => simp at hok

theorem evalTmpl_balanced (info : TagInfo) (env : TEnv) (T : Tmpl) (h : EnvTagged info env)
    (hchildren : info.textIsChildren = true → Neutral (env.get "$text").toTStr.erase)
    (hok : tmplBalOkS info T = true) : ∀ out, evalTmpl env T = some out → Neutral out.erase :=
  evalTmpl_balanced_core info env T h.toEnvCore hchildren hok

/-- the strict check is a restriction of the checker -/
theorem tmplBalOkS_le (info : TagInfo) (T : Tmpl) (h : tmplBalOkS info T = true) : tmplBalOk info T = true := by
  fun_induction tmplBalOkS info T with
  | case1 info e =>
    simp only [beq_iff_eq] at h
    simp only [tmplBalOk, beq_iff_eq]
    exact balRunStrict_le info e _ _ h
  | case2 info t e ih => simp only [tmplBalOk]; exact ih h
  | case3 info t e ih => simp only [tmplBalOk]; exact ih h
  | case4 info n t e ih1 ih2 =>
    simp only [Bool.and_eq_true] at h
    simp only [tmplBalOk, Bool.and_eq_true]; exact ⟨ih1 h.1, ih2 h.2⟩
  | case5 info n t e ih1 ih2 =>
    simp only [Bool.and_eq_true] at h
    simp only [tmplBalOk, Bool.and_eq_true]; exact ⟨ih1 h.1, ih2 h.2⟩
  | case6 info c t e h1 h2 h3 h4 ih1 ih2 =>
    simp only [Bool.and_eq_true] at h
    cases c <;> simp only [tmplBalOk, Bool.and_eq_true] <;> first | exact ⟨ih1 h.1, ih2 h.2⟩ | skip
    · exact (h4 _ rfl).elim
    · exact (h1 rfl).elim
    · exact (h3 _ rfl).elim
  | case7 info => simp at h



/-! ### token trees -/

theorem Neutral.flatMap {α : Type} (l : List α) (f : α → TStr) (h : ∀ x ∈ l, Neutral (f x).erase) :
    Neutral (TStr.erase (l.flatMap f)) := by
  induction l with
  | nil => exact Neutral.nil
  | cons x xs ih =>
    simp only [List.flatMap_cons, TStr.erase_append]
    exact (h x List.mem_cons_self).append (ih (fun y hy => h y (List.mem_cons_of_mem _ hy)))

/-- decidable table condition (found while proving; the tree theorem is false without it, `ceBal` below): every template that
passes the checker also passes it with the hole closed -/
def TagTable.balStrict (tt : TagTable) : Bool :=
  tt.tbl.tmpls.all (fun p => !tmplBalOk (tt.infoOf p.1) p.2 || tmplBalOkS (tt.infoOf p.1) p.2)

/-- **Tree theorem**.  `hstrict` is a decidable condition on the table that the first statement lacked (it is false without
it: section "counterexample"); kernel-decided for the working tree. -/
theorem renderTok_balanced (tt : TagTable) (mk : List (String × TVal) → TEnv)
    (hmk : ∀ args, (mk args).escapeFlag = true ∧ (mk args).args = args)
    (hstrip : ∀ args, StripAgrees (mk args).striptagsRe)
    (hnd : (tt.tbl.tmpls.map (·.1)).Nodup) (hwf : tt.wf = true) (hstrict : tt.balStrict = true) :
    ∀ fuel t, refinedOk tt.tbl fuel t = true → balTreeOk tt fuel t = true →
      Neutral (renderTok tt.tbl mk fuel t).erase := by
  intro fuel
  induction fuel with
  | zero => intro t h; simp [refinedOk] at h
  | succ fuel ih =>
    intro t h1 h2
    simp only [refinedOk, Bool.and_eq_true, Bool.or_eq_true, Bool.not_eq_true'] at h1
    obtain ⟨⟨⟨_, hraw⟩, hattrs⟩, hch⟩ := h1
    simp only [balTreeOk, Bool.and_eq_true] at h2
    obtain ⟨⟨hokT, hints⟩, hch2⟩ := h2
    unfold renderTok
    simp only
    cases hT : tt.tbl.tmpls.lookup t.type with
    | none => exact Neutral.nil
    | some T =>
      simp only
      have hmem := mem_of_lookup_eq_some _ _ T hT
      -- the template passes the balance check, hence the strict one
      have hTok : tmplBalOkS (tt.infoOf t.type) T = true := by
        simp only [TagTable.balTypes, List.contains_eq_mem, decide_eq_true_eq, List.mem_map, List.mem_filter] at hokT
        obtain ⟨p, ⟨hp, hpok⟩, hpt⟩ := hokT
        obtain ⟨k, T'⟩ := p
        simp only at hpt hpok
        subst hpt
        have := lookup_of_mem_nodup _ hnd _ _ hp
        rw [hT] at this
        simp only [Option.some.injEq] at this
        subst this
        have hs := List.all_eq_true.1 hstrict _ hp
        simp only [hpok, Bool.not_true, Bool.false_or] at hs
        exact hs
      -- the table conditions for this type
      have hw := List.all_eq_true.1 hwf _ hmem
      simp only [Bool.and_eq_true, Bool.or_eq_true, Bool.not_eq_true', List.all_eq_true] at hw
      obtain ⟨⟨_, hwint⟩, hwdata⟩ := hw
      have hV := attrs_valOk (tt.infoOf t.type) _ hattrs hints
      generalize hattrsdef : attrVals ((t.get? "attrs").getD (.obj [])) = attrs at hV
      generalize htext : (if tt.tbl.rawTypes.contains t.type = true then Option.map TStr.ofData (t.getStr? "raw")
        else match t.get? "children" with
          | some (Json.arr cs) => some (List.flatMap (renderTok tt.tbl mk fuel) cs)
          | _ => none) = text
      generalize hout : evalTmpl _ T = r
      cases r with
      | none => exact Neutral.nil
      | some out =>
        simp only [Option.getD_some]
        cases text with
        | none =>
          simp only at hout
          have hget : ∀ n, (mk attrs).get n = (attrs.lookup n).getD .none := by
            intro n; unfold TEnv.get; rw [(hmk attrs).2]
          have hneu : (tt.infoOf t.type).textIsChildren = true → Neutral ((mk attrs).get "$text").toTStr.erase := by
            intro htc
            rw [hget]
            have hnr : tt.tbl.rawTypes.contains t.type = false := by simpa [TagTable.infoOf] using htc
            have hd : (tt.tbl.dataArgsOf t.type).contains "$text" = false := by
              rcases hwdata with h | h
              · rw [hnr] at h; cases h
              · exact h
            have hv := hV "$text"
            exact neutral_of_plain _ (safe_allData_plain _ hv.allData (TVal.toTStr_safe _ (hv.safe hd)))
          refine evalTmpl_balanced_core (tt.infoOf t.type) _ T ?_ hneu hTok out hout
          refine EnvCore.of_valOk _ _ (hmk _).1 (hstrip _) (fun htc => (hneu htc).wellTagged) ?_ ?_
          · intro n _; rw [hget]; exact hV n
          · intro n items; rw [hget]; exact (hV n).toc items
        | some x =>
          simp only at hout
          have hget : ∀ n, (mk (("$text", TVal.str x) :: attrs)).get n =
              if n = "$text" then TVal.str x else (attrs.lookup n).getD .none := by
            intro n; unfold TEnv.get; rw [(hmk _).2]; exact get_cons_text x attrs n
          have hneu : (tt.infoOf t.type).textIsChildren = true →
              Neutral ((mk (("$text", TVal.str x) :: attrs)).get "$text").toTStr.erase := by
            intro htc
            rw [hget, if_pos rfl]
            have hnr : tt.tbl.rawTypes.contains t.type = false := by simpa [TagTable.infoOf] using htc
            have hnr' : ¬ tt.tbl.rawTypes.contains t.type = true := by rw [hnr]; exact Bool.false_ne_true
            rw [if_neg hnr'] at htext
            split at htext
            · rename_i cs heq
              rw [heq] at hch hch2
              simp only [List.all_eq_true] at hch hch2
              simp only [Option.some.injEq] at htext
              subst htext
              simp only [TVal.toTStr]
              apply Neutral.flatMap
              intro c hc
              exact ih c (hch c hc) (hch2 c hc)
            · cases htext
          refine evalTmpl_balanced_core (tt.infoOf t.type) _ T ?_ hneu hTok out hout
          refine EnvCore.of_valOk _ _ (hmk _).1 (hstrip _) (fun htc => (hneu htc).wellTagged) ?_ ?_
          · intro n hg
            rw [hget]
            by_cases hn : n = "$text"
            · rw [if_pos hn]
              have hr : tt.tbl.rawTypes.contains t.type = true := by simpa [TagTable.infoOf] using hg hn
              rw [if_pos hr] at htext
              cases hgr : t.getStr? "raw" with
              | none => rw [hgr] at htext; simp at htext
              | some r =>
                rw [hgr] at htext hraw
                simp only [Option.map_some, Option.some.injEq] at htext
                subst htext
                subst hn
                refine ⟨TStr.ofData_allData r, ?_, ?_, ?_⟩
                · intro hd
                  rcases hraw with (h | h) | h
                  · rw [hr] at h; cases h
                  · rw [show (tt.infoOf t.type).dataArgs = tt.tbl.dataArgsOf t.type from rfl] at hd
                    rw [hd] at h; cases h
                  · simp only [Option.map_some, Option.getD_some] at h
                    exact (TStr.safeB_iff _).1 h
                · intro hint
                  rcases hwint with h | h
                  · rw [hr] at h; cases h
                  · rw [show (tt.infoOf t.type).intArgs = (tt.intArgs.lookup t.type).getD [] from rfl] at hint
                    rw [hint] at h; cases h
                · intro items h; cases h
            · rw [if_neg hn]; exact hV n
          · intro n items
            rw [hget]
            by_cases hn : n = "$text"
            · rw [if_pos hn]; intro h; cases h
            · rw [if_neg hn]; exact (hV n).toc items


/-- kernel-decided: every template of the working tree is balanced, except the four that are outside the checker -/
theorem templates_balOk :
    (templates.tmpls.map (·.1)).filter (fun ty => !tagTable.balTypes.contains ty) = ["block_error", "footnote_item", "task_list_item", "toc"] := by
  decide +kernel

/-- kernel-decided: no template of the working tree runs into the hole of the checker -/
theorem templates_strict : tagTable.balStrict = true := by decide +kernel

/-- **C06 (a), balance, on the templates of the working tree** (statement unchanged; `hnd`, `hwf`, `hstrict` kernel-decided) -/
theorem render_balanced (fuel : Nat) (toks : List Json)
    (hstrip : StripAgrees ((namedRx.lookup "mistune.util._striptags_re").getD .fail))
    (h1 : toks.all (refinedOk templates fuel) = true) (h2 : toks.all (balTreeOk tagTable fuel) = true) :
    Balanced (renderToks templates (fun a => mkTEnv a true) fuel toks).erase := by
  apply balanced_of_neutral
  unfold renderToks
  apply Neutral.flatMap
  intro t ht
  exact renderTok_balanced tagTable (fun a => mkTEnv a true) (fun _ => ⟨rfl, rfl⟩) (fun _ => hstrip)
    templates_nodup tagTable_wf templates_strict fuel t (List.all_eq_true.1 h1 t ht) (List.all_eq_true.1 h2 t ht)

/-- non-vacuity -/
example : Balanced "<p>a <img src=\"x\" /><br />\n<h2 id=\"k\">t</h2></p>\n".toList ∧ ¬ Balanced "<p>a</li>".toList := by
  unfold Balanced
  exact ⟨by decide +kernel, by decide +kernel⟩

/-! ### counterexample: why `renderTok_balanced` needs `hstrict`

The table below passes `Nodup`, `wf`, and its only template passes `tmplBalOk`; the token passes `refinedOk` and `balTreeOk`;
the rendering is NOT balanced.  (`StripAgrees` plays no role: the template does not use `striptags`.) -/

section Counterexample

/-- hole of `balRunPieces`: an integer argument after the name part of a tag resets `lastSlash`, but may print nothing -/
def ceBalTable : TagTable :=
  { tbl := { tmpls := [("x", .seq [.lit "<a /".toList, .arg "k" [], .lit "></a>".toList])], rawTypes := [], dataArgs := [],
             exempt := [] },
    intArgs := [("x", ["k"])] }
/-- a token of that type without the argument `k` (`None`) -/
def ceBalTok : Json := .obj [("type", .str "x".toList)]

theorem ceBal :
    (ceBalTable.tbl.tmpls.map (·.1)).Nodup ∧ ceBalTable.wf = true ∧ ceBalTable.balTypes = ["x"] ∧ ceBalTable.balStrict = false ∧
    refinedOk ceBalTable.tbl 1 ceBalTok = true ∧ balTreeOk ceBalTable 1 ceBalTok = true ∧
    (renderTok ceBalTable.tbl (fun a => mkTEnv a true) 1 ceBalTok).erase = "<a /></a>".toList ∧
    bsRun (BS.init []) (renderTok ceBalTable.tbl (fun a => mkTEnv a true) 1 ceBalTok).erase = none := by
  decide +kernel

/-- the tree theorem without `hstrict` (the statement first asked for) is false -/
theorem renderTok_balanced_without_strict_false
    (hstrip : StripAgrees ((namedRx.lookup "mistune.util._striptags_re").getD .fail)) :
    ¬ (∀ (tt : TagTable) (mk : List (String × TVal) → TEnv),
        (∀ args, (mk args).escapeFlag = true ∧ (mk args).args = args) →
        (∀ args, StripAgrees (mk args).striptagsRe) →
        (tt.tbl.tmpls.map (·.1)).Nodup → tt.wf = true →
        ∀ fuel t, refinedOk tt.tbl fuel t = true → balTreeOk tt fuel t = true →
          Neutral (renderTok tt.tbl mk fuel t).erase) := by
  intro H
  have h := H ceBalTable (fun a => mkTEnv a true) (fun _ => ⟨rfl, rfl⟩) (fun _ => hstrip) ceBal.1 ceBal.2.1 1 ceBalTok
    ceBal.2.2.2.2.1 ceBal.2.2.2.2.2.1 []
  rw [ceBal.2.2.2.2.2.2.2] at h
  cases h

end Counterexample

end Mistune

