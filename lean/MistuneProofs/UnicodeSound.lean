/-
Soundness of the decidable table conditions: a Boolean over the regenerated Unicode tables implies the
hypotheses (`FoldOk`, variant maps) of the generic `unikey` theorems.
-/
import Mistune.Unicode
import MistuneProofs.C18Unikey
namespace Mistune
open Mistune.Generated

def validNat (n : Nat) : Bool := Nat.blt n 0xd800 || (Nat.blt 0xdfff n && Nat.blt n 0x110000)

/-- all naturals of the closed ranges satisfy `p` -/
def rangesAll (p : Nat → Bool) : List (Nat × Nat) → Bool
  | [] => true
  | (a, b) :: r => (List.range' a (b + 1 - a)).all p && rangesAll p r

theorem rangesAll_sound (p : Nat → Bool) (rs : List (Nat × Nat)) (h : rangesAll p rs = true) (n : Nat)
    (hn : inRanges rs n = true) : p n = true := by
  induction rs with
  | nil => simp [inRanges] at hn
  | cons ab r ih =>
    obtain ⟨a, b⟩ := ab
    simp only [rangesAll, Bool.and_eq_true, List.all_eq_true] at h
    simp only [inRanges] at hn
    by_cases hab : (Nat.ble a n && Nat.ble n b) = true
    · simp only [Bool.and_eq_true, Nat.ble_eq] at hab
      apply h.1 n
      rw [List.mem_range'_1]; omega
    · simp only [hab, cond_false] at hn
      exact ih h.2 hn

/-- everything `FoldOk` needs, as one Boolean over the tables -/
def foldTableGood : Bool :=
  isSpaceNat 32 &&
  rangesAll (fun n => (foldNat n).isNone) spaceRanges &&
  foldTree.all (fun _ l => !l.isEmpty &&
    l.all (fun m => validNat m && !isSpaceNat m && (foldNat m).isNone))

theorem toNat_ofNat_valid (n : Nat) (h : validNat n = true) : (Char.ofNat n).toNat = n := by
  have hv : n.isValidChar := by
    unfold validNat at h
    simp only [Bool.or_eq_true, Bool.and_eq_true, Nat.blt_eq] at h
    exact h
  simp [Char.ofNat, hv, Char.ofNatAux, Char.toNat]

theorem foldOk_of_good (hg : foldTableGood = true) : FoldOk isSpace foldChar := by
  unfold foldTableGood at hg
  simp only [Bool.and_eq_true] at hg
  obtain ⟨⟨h32, hsp⟩, htab⟩ := hg
  have hentry : ∀ n l, foldNat n = some l →
      l ≠ [] ∧ ∀ m ∈ l, validNat m = true ∧ isSpaceNat m = false ∧ foldNat m = none := by
    intro n l h
    have := NatTree.lookup_all _ _ htab n l h
    simp only [Bool.and_eq_true, List.all_eq_true, Bool.not_eq_true', Option.isNone_iff_eq_none] at this
    refine ⟨by simpa using this.1, ?_⟩
    intro m hm
    have := this.2 m hm
    exact ⟨this.1.1, this.1.2, this.2⟩
  refine ⟨h32, ?_, ?_, ?_, ?_⟩
  · intro c hc
    have := rangesAll_sound _ _ hsp c.toNat hc
    simp only [Option.isNone_iff_eq_none] at this
    simp [foldChar, this]
  · intro c _
    unfold foldChar
    cases h : foldNat c.toNat with
    | none => simp
    | some l => simp; exact (hentry _ _ h).1
  · intro c hc x hx
    unfold foldChar at hx
    cases h : foldNat c.toNat with
    | none => rw [h] at hx; simp at hx; subst hx; exact hc
    | some l =>
      rw [h] at hx; simp at hx
      obtain ⟨m, hm, e⟩ := hx
      have := (hentry _ _ h).2 m hm
      subst e
      simp only [isSpace, toNat_ofNat_valid m this.1]
      exact this.2.1
  · intro c x hx
    unfold foldChar at hx
    cases h : foldNat c.toNat with
    | none => rw [h] at hx; simp at hx; subst hx; simp [foldChar, h]
    | some l =>
      rw [h] at hx; simp at hx
      obtain ⟨m, hm, e⟩ := hx
      have := (hentry _ _ h).2 m hm
      subst e
      simp [foldChar, toNat_ofNat_valid m this.1, this.2.2]

/-- a single-code-point case-variant table is identified by the fold table -/
def variantGood (tbl : NatTree Nat) : Bool :=
  tbl.all (fun k v => validNat v && !isSpaceNat k && !isSpaceNat v &&
    (match foldNat v, foldNat k with
     | some a, some b => a == b
     | some a, none => a == [k]
     | none, some b => b == [v]
     | none, none => Nat.beq k v))

theorem variant_sound (tbl : NatTree Nat) (h : variantGood tbl = true) :
    (∀ c, isSpace (variantOf tbl c) = isSpace c) ∧ (∀ c, foldChar (variantOf tbl c) = foldChar c) := by
  unfold variantGood at h
  constructor
  · intro c
    unfold variantOf
    cases hl : tbl.lookup c.toNat with
    | none => rfl
    | some m =>
      have := NatTree.lookup_all _ _ h _ _ hl
      simp only [Bool.and_eq_true, Bool.not_eq_true'] at this
      simp only [isSpace, toNat_ofNat_valid m this.1.1.1, this.1.1.2, this.1.2]
  · intro c
    unfold variantOf
    cases hl : tbl.lookup c.toNat with
    | none => rfl
    | some m =>
      have := NatTree.lookup_all _ _ h _ _ hl
      simp only [Bool.and_eq_true, Bool.not_eq_true'] at this
      have hv := toNat_ofNat_valid m this.1.1.1
      have h2 := this.2
      unfold foldChar
      rw [hv]
      cases h1 : foldNat m <;> cases h3 : foldNat c.toNat <;> simp only [h1, h3] at h2 ⊢
      · have e : c.toNat = m := by simpa using h2
        rw [← e]; simp
      · rename_i b
        have e : b = [m] := by simpa using h2
        rw [e]; simp
      · rename_i a
        have e : a = [c.toNat] := by simpa using h2
        rw [e]; simp
      · rename_i a b
        have e : a = b := by simpa using h2
        rw [e]

end Mistune
