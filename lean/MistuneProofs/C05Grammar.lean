/-
C05 (the token tree obeys the documented grammar): headline theorem for the CONCRETE parser model.

`parseDoc_wf`: for every configuration all of whose handlers are covered (no hooks, no `footnote` inline rule, no
uncovered block / inline plugin rule: `coreCfgB`; the core configurations and those with the plugins formatting, url,
speedup, math, spoiler), whose ATX rules capture one to six `#` (`CfgAtx`; discharged from a decidable check of the regexes
in `C05GrammarAtx`, which also has the hypothesis-free `parseDoc_wf_core`), and `max_nested_level ≥ 1`, every token tree
returned by `Model.parseDoc` satisfies the grammar predicate `wfSeq` of `Mistune.SecondPass` (the predicate behind
`wfTokens`), nesting clause included, with an explicit fuel that covers the deepest tree the model can return.

HISTORY: `wfTokens` used to fix the fuel of `wfSeq` at 64, but inline nesting is not bounded by 64 (`</a>` resets
`in_link`, so links nest in links): a 63-fold nested link is a reachable tree that the old `wfTokens` rejected only
because its fuel ran out (`harness/tokgrammar.py`, which has no fuel, accepts it).  `wfTokens` now uses the fuel
`2 * maxNested + 404` = `wfFuel`, which `parseDoc_wf` proves sufficient; `parseDoc_wfTokens` is the statement about
`wfTokens` itself.  `wfSeq` is monotone in the fuel (`wfSeq_mono_le`).
-/
import MistuneProofs.C05GrammarList
import MistuneProofs.C05GrammarInline
namespace Mistune
namespace Model
open Blk Blk.G

/-- the decidable side conditions of `parseDoc_wf`: no block plugin rule, no hook, no `footnote` inline rule,
`max_nested_level ≥ 1`; no plugin block rule (`registered`), no `spoiler` rebinding of `block_quote`, no plugin inline
rule -/
def coreCfgB (cfg : MdCfg) : Bool :=
  noBlockPlugins cfg && Inl.G.noInlinePlugins cfg && cfg.beforeRenderHooks.isEmpty && cfg.afterRenderHooks.isEmpty &&
    !cfg.inlineRules.contains "footnote" && decide (1 ≤ cfg.maxNested)

/-- fuel of `wfSeq` that covers every tree `parseDoc` returns: two levels per container, one for the text block,
and the inline budget -/
def wfFuel (cfg : MdCfg) : Nat := 2 * cfg.maxNested + 1 + (2 * Inl.inlineFuel + 2) + 1

/-- **C05 for the concrete model.** -/
theorem parseDoc_wf (cfg : MdCfg) (hcore : coreCfgB cfg = true) (hatx : CfgAtx cfg) (s : Str) (toks : List Json)
    (h : parseDoc cfg s = .ok toks) : wfSeq (wfFuel cfg) toks .block 0 cfg.maxNested = true := by
  simp only [coreCfgB, Bool.and_eq_true, List.isEmpty_iff, decide_eq_true_eq, Bool.not_eq_true'] at hcore
  obtain ⟨⟨⟨⟨⟨hnp, hpl⟩, hbr⟩, har⟩, hfn⟩, hmx⟩ := hcore
  have hna : (cfg.blockSpec.lookup "ref_abbr").isSome = false := by
    simp only [noBlockPlugins, Bool.and_eq_true, Bool.not_eq_true'] at hnp
    exact hnp.1.1.1.2
  have hfn' : ¬ "footnote" ∈ cfg.inlineRules := by simpa using hfn
  cases hb : blockParse cfg (norm s) with
  | error e =>
    by_cases hh : cfg.beforeParseHooks.isEmpty <;>
      simp [parseDoc, hh, hb, hbr, har, hfn', bind, Except.bind, throw, throwThe, MonadExceptOf.throw] at h
  | ok res =>
    obtain ⟨btoks, env⟩ := res
    obtain ⟨hpre, henv⟩ := blockParse_pre cfg hatx hnp hmx (norm s) btoks env hb
    cases hr : iterRender cfg env 64 btoks with
    | error e =>
      by_cases hh : cfg.beforeParseHooks.isEmpty <;>
        simp [parseDoc, hh, hb, hr, hbr, har, hfn', Hooks.beforeRender, Hooks.afterRender, bind, Except.bind, throw,
          throwThe, MonadExceptOf.throw, pure, Except.pure] at h
    | ok out =>
      have e : out = toks := by
        by_cases hh : cfg.beforeParseHooks.isEmpty <;>
          simp [parseDoc, hh, hb, hr, hbr, har, hfn', Hooks.beforeRender, Hooks.afterRender, bind, Except.bind, throw,
            throwThe, MonadExceptOf.throw, pure, Except.pure] at h
        exact h
      subst e
      unfold iterRender at hr
      exact iterRender_wf (inlineParse cfg env) (2 * Inl.inlineFuel + 2) cfg.maxNested
        (fun src o d hd ho => Inl.G.inlineParse_wf cfg hna hpl env henv src o d cfg.maxNested hd ho)
        _ _ _ _ _ _ hpre hr

/-- the same tree has only core token types, with `attrs` of the shape `attrsShape` (used by C02Doc) -/
theorem parseDoc_shp (cfg : MdCfg) (hcore : coreCfgB cfg = true) (hatx : CfgAtx cfg) (s : Str) (toks : List Json)
    (h : parseDoc cfg s = .ok toks) : shpAll (wfFuel cfg) toks = true := by
  simp only [coreCfgB, Bool.and_eq_true, List.isEmpty_iff, decide_eq_true_eq, Bool.not_eq_true'] at hcore
  obtain ⟨⟨⟨⟨⟨hnp, hpl⟩, hbr⟩, har⟩, hfn⟩, hmx⟩ := hcore
  have hna : (cfg.blockSpec.lookup "ref_abbr").isSome = false := by
    simp only [noBlockPlugins, Bool.and_eq_true, Bool.not_eq_true'] at hnp
    exact hnp.1.1.1.2
  have hfn' : ¬ "footnote" ∈ cfg.inlineRules := by simpa using hfn
  cases hb : blockParse cfg (norm s) with
  | error e =>
    by_cases hh : cfg.beforeParseHooks.isEmpty <;>
      simp [parseDoc, hh, hb, hbr, har, hfn', bind, Except.bind, throw, throwThe, MonadExceptOf.throw] at h
  | ok res =>
    obtain ⟨btoks, env⟩ := res
    obtain ⟨hpre, henv⟩ := blockParse_pre cfg hatx hnp hmx (norm s) btoks env hb
    cases hr : iterRender cfg env 64 btoks with
    | error e =>
      by_cases hh : cfg.beforeParseHooks.isEmpty <;>
        simp [parseDoc, hh, hb, hr, hbr, har, hfn', Hooks.beforeRender, Hooks.afterRender, bind, Except.bind, throw,
          throwThe, MonadExceptOf.throw, pure, Except.pure] at h
    | ok out =>
      have e : out = toks := by
        by_cases hh : cfg.beforeParseHooks.isEmpty <;>
          simp [parseDoc, hh, hb, hr, hbr, har, hfn', Hooks.beforeRender, Hooks.afterRender, bind, Except.bind, throw,
            throwThe, MonadExceptOf.throw, pure, Except.pure] at h
        exact h
      subst e
      unfold iterRender at hr
      exact iterRender_shp (inlineParse cfg env) (2 * Inl.inlineFuel + 2) cfg.maxNested
        (fun src o ho => Inl.G.inlineParse_shp cfg hna hpl env henv src o ho)
        _ _ _ _ _ _ hpre hr

theorem wfFuel_eq (cfg : MdCfg) : wfFuel cfg = 2 * cfg.maxNested + 404 := by
  unfold wfFuel Inl.inlineFuel; omega

/-- **C05 for the concrete model, as the predicate `wfTokens`** (whose fuel is exactly `wfFuel`) -/
theorem parseDoc_wfTokens (cfg : MdCfg) (hcore : coreCfgB cfg = true) (hatx : CfgAtx cfg) (s : Str) (toks : List Json)
    (h : parseDoc cfg s = .ok toks) : wfTokens toks cfg.maxNested = true := by
  have := parseDoc_wf cfg hcore hatx s toks h
  rw [wfFuel_eq] at this
  exact this

/-! ### the decidable side conditions hold for the core configurations -/

/-- the configurations all of whose handlers are covered: the plugin-free ones and those with the inline plugins\nformatting / url / speedup / math / spoiler only (other plugin handlers are outside this proof) -/
def coreNames : List String :=
  ["core", "core-noescape", "core-hardwrap", "ast-core", "markdown-core", "rst-core",
   -- configurations with covered inline plugins (formatting, url)
   "only-strikethrough", "only-mark", "only-insert", "only-superscript", "only-subscript", "only-url", "only-speedup", "only-math", "only-spoiler"]

theorem coreCfgs_ok : ∀ n ∈ coreNames, (findCfg n).any coreCfgB = true := by decide +kernel

end Model
end Mistune

#print axioms Mistune.Model.parseDoc_wf
