/-
C14 — refinement: the CONCRETE footnote handlers `Inl.parseInlineFootnote` (one call per `[^key]` occurrence) and
`Hooks.mdFootnotesHook` / `Hooks.footnoteItems` perform exactly the steps of the abstract numbering machine
`fnRef` / `fnItems` of `Mistune.Footnotes`, about which `fn_notes_eq`, `fn_notes_nodup`, `fn_refs_sound`,
`fn_items_referenced`, `fn_items_numbers` (C14) are proved.

Abstraction functions
* `absDefs env`  — the keys of the dict `env["ref_footnotes"]` (the machine's `defs`);
* `absNotes env` — the list `env["footnotes"]` (the machine's `notes`), `[]` when the key is absent;
* `NotesWf env`  — `env["footnotes"]` is absent or a list of strings (true initially, kept by the handler).
-/
import MistuneProofs.C12Refine
import MistuneProofs.C14
namespace Mistune
namespace Model
open Inl

/-! ### abstraction functions -/

def strOf : Json → Option Str
  | .str s => some s
  | _ => none

/-- the machine's `defs`: keys of `env["ref_footnotes"]` -/
def absDefs (env : Json) : List Str := (absTable ((env.get? "ref_footnotes").getD .null)).map (·.1)

/-- the machine's `notes`: the list `env["footnotes"]` -/
def absNotes (env : Json) : List Str :=
  match env.get? "footnotes" with
  | some (.arr l) => l.filterMap strOf
  | _ => []

/-- `env["footnotes"]` is absent or a list of strings -/
def NotesWf (env : Json) : Prop :=
  env.get? "footnotes" = none ∨ ∃ ns : List Str, env.get? "footnotes" = some (.arr (ns.map Json.str))

theorem filterMap_strOf (ns : List Str) : (ns.map Json.str).filterMap strOf = ns := by
  induction ns with
  | nil => rfl
  | cons a r ih => simp [strOf, ih]

theorem absNotes_of (env : Json) (ns : List Str) (h : env.get? "footnotes" = some (.arr (ns.map Json.str))) :
    absNotes env = ns := by
  unfold absNotes; rw [h]; exact filterMap_strOf ns

theorem absNotes_none (env : Json) (h : env.get? "footnotes" = none) : absNotes env = [] := by
  unfold absNotes; rw [h]

/-- the handler's membership test `key in notes` -/
def isKey (key : Str) (j : Json) : Bool := match j with | .str s => s == key | _ => false

theorem any_isKey (ns : List Str) (key : Str) : (ns.map Json.str).any (isKey key) = ns.contains key := by
  induction ns with
  | nil => rfl
  | cons a r ih =>
    simp only [List.map_cons, List.any_cons, List.contains_cons, ih, isKey]
    rw [Bool.beq_comm]

theorem findIdx_isKey (ns : List Str) (key : Str) : (ns.map Json.str).findIdx (isKey key) = ns.idxOf key := by
  induction ns with
  | nil => rfl
  | cons a r ih =>
    simp only [List.map_cons, List.findIdx_cons, List.idxOf_cons, ih, isKey]

/-- `key in ref` for the dict `env["ref_footnotes"]` -/
theorem absDefs_contains (env : Json) (key : Str) :
    (absDefs env).contains key =
      (((env.get? "ref_footnotes").getD .null).truthy && ((env.get? "ref_footnotes").getD .null).has (String.ofList key)) := by
  unfold absDefs
  generalize (env.get? "ref_footnotes").getD .null = ref
  cases ref with
  | obj kv =>
    rw [← absTable_has]
    have : (absTable (Json.obj kv)).any (fun p => p.1 == key) = ((absTable (Json.obj kv)).map (·.1)).contains key := by
      rw [List.contains_eq_any_beq, List.any_map]
      congr 1; funext p; exact Bool.beq_comm
    rw [this]
    cases kv with
    | nil => rfl
    | cons a b => simp [Json.truthy]
  | _ => simp [absTable, Json.truthy, Json.has, Json.get?]

/-! ### (d) one reference: `Inl.parseInlineFootnote` is `fnRef` -/

/-- the list the handler works on: `notes = state.env.get("footnotes"); if not notes: notes = []` -/
def concNotes (env : Json) : List Json :=
  match env.get? "footnotes" with
  | some (.arr l) => l
  | _ => []

theorem concNotes_abs (env : Json) (hwf : NotesWf env) : concNotes env = (absNotes env).map Json.str := by
  rcases hwf with h | ⟨ns, h⟩
  · unfold concNotes; rw [absNotes_none env h, h]; rfl
  · unfold concNotes; rw [absNotes_of env ns h, h]

/-- the `footnote_ref` token -/
def footnoteRefTok (key : Str) (index : Nat) : Json :=
  tok "footnote_ref" [("raw", .str key), ("attrs", .obj [("index", .num index)])]

/-- the token a reference becomes, from the machine's outcome -/
def outcomeTok (key raw : Str) : Option Nat → Json
  | some i => footnoteRefTok key i
  | none => textTok raw

/-- the state with a new `env` and one more token, everything else unchanged -/
def withEnvTok (st : InlineState) (env' : Json) (t : Json) : InlineState :=
  { st with env := env', tokens := st.tokens.push t }

/-- `parse_inline_footnote` with the key, the matched text and `m.end()` as parameters -/
def footnoteCore (key raw : Str) (stop : Nat) (st : InlineState) : HRes :=
  if ((st.env.get? "ref_footnotes").getD .null).truthy && ((st.env.get? "ref_footnotes").getD .null).has (String.ofList key)
      && !st.inImage then
    if !(concNotes st.env).any (isKey key) then
      .ok (some stop, withEnvTok st (st.env.set "footnotes" (.arr (concNotes st.env ++ [Json.str key])))
        (footnoteRefTok key ((concNotes st.env ++ [Json.str key]).findIdx (isKey key) + 1)))
    else
      .ok (some stop, withEnvTok st st.env (footnoteRefTok key ((concNotes st.env).findIdx (isKey key) + 1)))
  else .ok (some stop, withEnvTok st st.env (textTok raw))

/-- the handler's code with `concNotes` / `isKey` named and key, matched text, `m.end()` as parameters -/
def footnoteCore0 (key raw : Str) (stop : Nat) (st : InlineState) : HRes :=
  let ref := (st.env.get? "ref_footnotes").getD .null
  if ref.truthy && ref.has (String.ofList key) && !st.inImage then
    let notes := concNotes st.env
    let (notes, st) :=
      if !notes.any (isKey key) then
        let notes := notes ++ [Json.str key]
        (notes, { st with env := st.env.set "footnotes" (.arr notes) })
      else (notes, st)
    let index := (notes.findIdx (isKey key)) + 1
    .ok (some stop, st.appendToken (tok "footnote_ref" [("raw", .str key), ("attrs", .obj [("index", .num index)])]))
  else .ok (some stop, st.appendToken (textTok raw))

theorem parseInlineFootnote_eq0 (cfg : MdCfg) (m : RxMatch) (st : InlineState) :
    parseInlineFootnote cfg m st =
      footnoteCore0 (unikeyPy (groupNamed cfg st.x.s m "inline:footnote/footnote_key")) (group0 st m) m.stop st := rfl

theorem footnoteCore0_eq (key raw : Str) (stop : Nat) (st : InlineState) :
    footnoteCore0 key raw stop st = footnoteCore key raw stop st := by
  unfold footnoteCore0 footnoteCore
  cases hA : (concNotes st.env).any (isKey key)
  · simp only [hA, Bool.not_false, if_true]; rfl
  · simp only [hA, Bool.not_true, Bool.false_eq_true, if_false]; rfl

theorem parseInlineFootnote_eq (cfg : MdCfg) (m : RxMatch) (st : InlineState) :
    parseInlineFootnote cfg m st =
      footnoteCore (unikeyPy (groupNamed cfg st.x.s m "inline:footnote/footnote_key")) (group0 st m) m.stop st := by
  rw [parseInlineFootnote_eq0, footnoteCore0_eq]

theorem footnoteCore_step (key raw : Str) (stop : Nat) (st : InlineState) (hwf : NotesWf st.env)
    (himg : st.inImage = false) :
    ∃ env', footnoteCore key raw stop st =
        .ok (some stop, withEnvTok st env' (outcomeTok key raw (fnRef (absDefs st.env) (absNotes st.env) key).2)) ∧
      NotesWf env' ∧ absNotes env' = (fnRef (absDefs st.env) (absNotes st.env) key).1 ∧
      (∀ k, k ≠ "footnotes" → env'.get? k = st.env.get? k) ∧
      (key ∉ absDefs st.env → env' = st.env) := by
  have hdef := absDefs_contains st.env key
  by_cases hc : (absDefs st.env).contains key = true
  · -- defined
    have hmem : key ∈ absDefs st.env := by simpa using hc
    rw [hc] at hdef
    have hcond : (((st.env.get? "ref_footnotes").getD .null).truthy &&
        ((st.env.get? "ref_footnotes").getD .null).has (String.ofList key) && !st.inImage) = true := by
      rw [← hdef, himg]; rfl
    -- `env` is a dict
    obtain ⟨ekv, hekv⟩ : ∃ ekv, st.env = .obj ekv := by
      cases hg : st.env.get? "ref_footnotes" with
      | none => rw [hg] at hdef; simp [Json.truthy] at hdef
      | some v => exact get?_some_obj _ _ _ hg
    have hcn := concNotes_abs st.env hwf
    by_cases hin : (absNotes st.env).contains key = true
    · -- already referenced
      have hinm : key ∈ absNotes st.env := by simpa using hin
      have hr : fnRef (absDefs st.env) (absNotes st.env) key = (absNotes st.env, some ((absNotes st.env).idxOf key + 1)) := by
        unfold fnRef; simp [hmem, hinm]
      refine ⟨st.env, ?_, hwf, by rw [hr], fun _ _ => rfl, fun h => absurd hmem h⟩
      have hany : (concNotes st.env).any (isKey key) = true := by rw [hcn, any_isKey]; exact hin
      have hidx : (concNotes st.env).findIdx (isKey key) = (absNotes st.env).idxOf key := by
        rw [hcn, findIdx_isKey]
      unfold footnoteCore
      rw [hr, if_pos hcond, hany, hidx]
      rfl
    · -- first reference
      have hin' : (absNotes st.env).contains key = false := by simpa using hin
      have hinm : key ∉ absNotes st.env := by simpa using hin'
      have hr : fnRef (absDefs st.env) (absNotes st.env) key =
          (absNotes st.env ++ [key], some ((absNotes st.env ++ [key]).idxOf key + 1)) := by
        unfold fnRef; simp [hmem, hinm]
      have hl : (concNotes st.env ++ [Json.str key]) = (absNotes st.env ++ [key]).map Json.str := by rw [hcn]; simp
      refine ⟨st.env.set "footnotes" (.arr ((absNotes st.env ++ [key]).map Json.str)), ?_, ?_, ?_, ?_, fun h => absurd hmem h⟩
      · have hany : (concNotes st.env).any (isKey key) = false := by rw [hcn, any_isKey]; exact hin'
        unfold footnoteCore
        rw [hr, if_pos hcond, hany, hl, findIdx_isKey]
        rfl
      · right
        exact ⟨_, by rw [hekv]; exact JsonL.get?_set_same _ _ _⟩
      · rw [absNotes_of _ (absNotes st.env ++ [key]) (by rw [hekv]; exact JsonL.get?_set_same _ _ _), hr]
      · intro k hk; exact JsonL.get?_set_other _ _ _ _ hk
  · -- undefined
    have hc' : (absDefs st.env).contains key = false := by simpa using hc
    have hnm : key ∉ absDefs st.env := by simpa using hc'
    rw [hc'] at hdef
    have hcond : ¬ (((st.env.get? "ref_footnotes").getD .null).truthy &&
        ((st.env.get? "ref_footnotes").getD .null).has (String.ofList key) && !st.inImage) = true := by
      rw [← hdef]; simp
    have hr : fnRef (absDefs st.env) (absNotes st.env) key = (absNotes st.env, none) := by
      unfold fnRef; simp [hnm]
    refine ⟨st.env, ?_, hwf, by rw [hr], fun _ _ => rfl, fun _ => rfl⟩
    unfold footnoteCore
    rw [hr, if_neg hcond]
    rfl

/-- **C14 (d): `parse_inline_footnote` is one `fnRef` step of the numbering machine.**  Outside an image
description, the handler always returns `m.end()`; the new `env["footnotes"]` and the emitted token are the two
components of `fnRef defs notes key` (`defs` = keys of `env["ref_footnotes"]`, `notes` = `env["footnotes"]`,
`key = unikey(m.group("footnote_key"))`): a defined key is appended iff absent and the `footnote_ref` token carries
`position + 1`; an undefined key leaves `env` untouched and yields the literal text.  Nothing else of the state
changes. -/
theorem parseInlineFootnote_step (cfg : MdCfg) (m : RxMatch) (st : InlineState) (hwf : NotesWf st.env)
    (himg : st.inImage = false) :
    ∃ env', parseInlineFootnote cfg m st =
        .ok (some m.stop, withEnvTok st env'
          (outcomeTok (unikeyPy (groupNamed cfg st.x.s m "inline:footnote/footnote_key")) (group0 st m)
            (fnRef (absDefs st.env) (absNotes st.env)
              (unikeyPy (groupNamed cfg st.x.s m "inline:footnote/footnote_key"))).2)) ∧
      NotesWf env' ∧
      absNotes env' = (fnRef (absDefs st.env) (absNotes st.env)
        (unikeyPy (groupNamed cfg st.x.s m "inline:footnote/footnote_key"))).1 ∧
      (∀ k, k ≠ "footnotes" → env'.get? k = st.env.get? k) ∧
      (unikeyPy (groupNamed cfg st.x.s m "inline:footnote/footnote_key") ∉ absDefs st.env → env' = st.env) := by
  rw [parseInlineFootnote_eq]
  exact footnoteCore_step _ _ _ st hwf himg

/-- inside an image description a reference is always literal text and `env` is untouched -/
theorem parseInlineFootnote_inImage (cfg : MdCfg) (m : RxMatch) (st : InlineState) (himg : st.inImage = true) :
    parseInlineFootnote cfg m st = .ok (some m.stop, withEnvTok st st.env (textTok (group0 st m))) := by
  rw [parseInlineFootnote_eq]
  unfold footnoteCore
  rw [himg]
  simp

/-! ### (e) the notes section: `Hooks.footnoteItems` / `Hooks.mdFootnotesHook` are `fnItems` -/

open Hooks

/-- the `attrs` of a `footnote_item` token -/
def itemAttrs (key : Str) (index : Nat) : Json := .obj [("key", .str key), ("index", .num index)]

theorem parseFootnoteItem_attrs (cfg : MdCfg) (key : Str) (index : Nat) (env : Json) :
    Holds (fun t => t.get? "type" = some (Json.s "footnote_item") ∧ t.get? "attrs" = some (itemAttrs key index))
      (parseFootnoteItem cfg key index env) := by
  intro t ht
  unfold parseFootnoteItem at ht
  simp only [bind, Except.bind, pure, Except.pure, throw, throwThe, MonadExceptOf.throw] at ht
  repeat' split at ht
  all_goals first | (cases ht; done) | (cases ht; exact ⟨by simp [tok, Json.get?, List.lookup], by simp [tok, Json.get?, List.lookup, itemAttrs]⟩)

/-- `[parse_footnote_item(md.block, k, i + 1, state) for i, k in enumerate(notes)]`: one `footnote_item` per key, in
list order, the `j`-th (0-based, counting from `i`) carrying `attrs = {"key": notes[j], "index": i + j + 1}` -/
theorem footnoteItems_spec (cfg : MdCfg) (env : Json) (ns : List Str) :
    ∀ i, Holds (fun items =>
        items.map (fun t => (t.get? "type", t.get? "attrs")) =
          (ns.zipIdx i).map (fun p => (some (Json.s "footnote_item"), some (itemAttrs p.1 (p.2 + 1)))))
      (footnoteItems cfg env (ns.map Json.str) i) := by
  induction ns with
  | nil => intro i; exact Holds.ok rfl
  | cons k rest ih =>
    intro i
    simp only [List.map_cons, footnoteItems]
    refine Holds.bind (Holds.pure (P := fun s => s = k) rfl) (fun key hkey => ?_)
    subst hkey
    refine Holds.bind (parseFootnoteItem_attrs cfg key (i + 1) env) (fun item hitem => ?_)
    refine Holds.bind (ih (i + 1)) (fun items hitems => ?_)
    refine Holds.pure ?_
    simp only [List.map_cons, List.zipIdx_cons, hitem.1, hitem.2, hitems]

/-- with the machine's item list: keys in `notes` order, numbered `1..n` (`fn_items_numbers`) -/
theorem footnoteItems_fnItems (cfg : MdCfg) (env : Json) (ns : List Str) (items : List Json)
    (h : footnoteItems cfg env (ns.map Json.str) 0 = .ok items) :
    items.map (fun t => (t.get? "type", t.get? "attrs")) =
      (fnItems ns).map (fun q => (some (Json.s "footnote_item"), some (itemAttrs q.1 q.2))) := by
  rw [footnoteItems_spec cfg env ns 0 items h]
  unfold fnItems
  simp [List.map_map]

/-! #### the second pass keeps `type` and `attrs` of every token -/

theorem get?_erase_other (j : Json) (k k' : String) (h : k' ≠ k) : (j.erase k).get? k' = j.get? k' := by
  cases j with
  | obj kv =>
    simp only [Json.erase, Json.get?]
    induction kv with
    | nil => rfl
    | cons p r ih =>
      obtain ⟨a, b⟩ := p
      by_cases ha : a = k
      · subst ha
        have : (k' == a) = false := by simpa using h
        simp [List.lookup_cons, this, ih]
      · have h1 : (a != k) = true := by simpa using ha
        simp only [List.filter_cons, h1, if_true, List.lookup_cons, ih]
  | _ => rfl

/-- what `_iter_render` keeps of a token -/
def keep (t : Json) : Option Json × Option Json := (t.get? "type", t.get? "attrs")

theorem keep_set_children (t v : Json) : keep (t.set "children" v) = keep t := by
  unfold keep
  rw [JsonL.get?_set_other _ _ _ _ (by decide), JsonL.get?_set_other _ _ _ _ (by decide)]

theorem keep_erase_text (t : Json) : keep (t.erase "text") = keep t := by
  unfold keep
  rw [get?_erase_other _ _ _ (by decide), get?_erase_other _ _ _ (by decide)]

theorem foldlM_shape {σ : Type} (f : List Json × σ → Json → Except PyErr (List Json × σ))
    (hf : ∀ acc t, Holds (fun acc' => ∃ t', acc'.1 = acc.1 ++ [t'] ∧ keep t' = keep t) (f acc t)) :
    ∀ (toks : List Json) (acc : List Json × σ),
      Holds (fun res => ∃ more : List Json, res.1 = acc.1 ++ more ∧ more.map keep = toks.map keep)
        (toks.foldlM f acc) := by
  intro toks
  induction toks with
  | nil => intro acc; exact Holds.pure ⟨[], by simp, rfl⟩
  | cons t rest ih =>
    intro acc
    rw [List.foldlM_cons]
    refine Holds.bind (hf acc t) ?_
    rintro acc' ⟨t', h1, h2⟩
    refine Holds.mono (ih acc') ?_
    rintro res ⟨more, h3, h4⟩
    refine ⟨t' :: more, ?_, ?_⟩
    · rw [h3, h1]; simp
    · simp only [List.map_cons, h2, h4]

/-- `_iter_render` returns one token per input token, with the same `type` and `attrs` -/
theorem iterRenderEnv_shape (cfg : MdCfg) : ∀ (fuel : Nat) (env : Json) (toks : List Json),
    Holds (fun res => res.1.map keep = toks.map keep) (iterRenderEnv cfg fuel env toks) := by
  intro fuel
  induction fuel with
  | zero => intro env toks; unfold iterRenderEnv; exact Holds.throw
  | succ fuel ih =>
    intro env toks
    unfold iterRenderEnv
    refine Holds.mono (foldlM_shape _ ?_ toks ([], env)) ?_
    · rintro ⟨out, env1⟩ t
      dsimp only
      split
      · rename_i cs hcs
        refine Holds.bind (ih env1 cs) ?_
        rintro ⟨cs', env2⟩ _
        exact Holds.pure ⟨_, rfl, keep_set_children _ _⟩
      · split
        · refine Holds.bind (Holds.true _) ?_
          rintro ⟨cs', env2⟩ _
          refine Holds.pure ⟨_, rfl, ?_⟩
          rw [keep_set_children, keep_erase_text]
        · exact Holds.pure ⟨_, rfl, rfl⟩
    · rintro res ⟨more, h1, h2⟩
      simp only [List.nil_append] at h1
      rw [h1]; exact h2

theorem iterRenderEnv_single (cfg : MdCfg) (fuel : Nat) (env t : Json) (cs : List Json)
    (h : t.get? "children" = some (.arr cs)) :
    iterRenderEnv cfg (fuel + 1) env [t] =
      (iterRenderEnv cfg fuel env cs >>= fun r => pure ([t.set "children" (.arr r.1)], r.2)) := by
  rw [iterRenderEnv]
  simp only [List.foldlM_cons, List.foldlM_nil, h]
  cases iterRenderEnv cfg fuel env cs with
  | error e => rfl
  | ok r => rfl

/-- **C14 (e): `md_footnotes_hook` emits the machine's item list.**  With `notes = env["footnotes"]`:
an empty (or absent) list leaves the result alone; otherwise EXACTLY ONE token is appended, of type `footnotes`,
whose children are one `footnote_item` per key of `notes`, in list order, with `attrs = {"key": k, "index": i}` for
`(k, i)` running through `fnItems notes` — i.e. numbered `1..n` (`fn_items_numbers`). -/
theorem mdFootnotesHook_items (cfg : MdCfg) (result : List Json) (env : Json) (hwf : NotesWf env) :
    Holds (fun out =>
      (absNotes env = [] ∧ out = result) ∨
      (absNotes env ≠ [] ∧ ∃ sect cs, out = result ++ [sect] ∧ sect.get? "type" = some (Json.s "footnotes") ∧
        sect.get? "children" = some (.arr cs) ∧
        cs.map keep = (fnItems (absNotes env)).map (fun q => (some (Json.s "footnote_item"), some (itemAttrs q.1 q.2)))))
      (mdFootnotesHook cfg result env) := by
  unfold mdFootnotesHook
  rcases hwf with hnone | ⟨ns, hns⟩
  · rw [hnone]
    exact Holds.pure (Or.inl ⟨absNotes_none env hnone, rfl⟩)
  · rw [hns]
    have habs := absNotes_of env ns hns
    rw [habs]
    cases ns with
    | nil => exact Holds.pure (Or.inl ⟨rfl, rfl⟩)
    | cons k rest =>
      simp -zeta only [Option.getD_some]
      refine Holds.bind (Holds.pure (P := fun l => l = (k :: rest).map Json.str) rfl) (fun l hl => ?_)
      subst hl
      refine Holds.bind (Holds.self _) (fun items hitems => ?_)
      have hspec := footnoteItems_fnItems cfg env (k :: rest) items hitems
      extract_lets refLinks env2
      unfold renderState
      rw [iterRenderEnv_single cfg 63 env2 _ items (by simp [tok, Json.get?, List.lookup])]
      refine Holds.bind (Holds.bind (iterRenderEnv_shape cfg 63 env2 items) (fun r hr => Holds.pure (P := fun (o : List Json × Json) =>
        ∃ cs : List Json, o.1 = [(tok "footnotes" [("children", .arr items)]).set "children" (.arr cs)] ∧
          cs.map keep = items.map keep) ⟨r.1, rfl, hr⟩)) ?_
      rintro ⟨output, envOut⟩ ⟨cs, ho, hcs⟩
      dsimp only at ho
      refine Holds.pure (Or.inr ⟨by simp, _, cs, by rw [ho], ?_, ?_, ?_⟩)
      · rw [JsonL.get?_set_other _ _ _ _ (by decide)]
        simp [tok, Json.get?, List.lookup]
      · exact JsonL.get?_set_same _ _ _
      · rw [hcs]; exact hspec

/-- numbering read off the hook's output through the machine theorem `fn_items_numbers`: the `index` attributes of
the items are `1..n` and their `key` attributes are the notes, in order -/
theorem fnItems_attrs (ns : List Str) :
    (fnItems ns).map (fun q => itemAttrs q.1 q.2) = (ns.zipIdx).map (fun p => itemAttrs p.1 (p.2 + 1)) := by
  unfold fnItems; simp [List.map_map]

/-! ### non-vacuity: kernel-evaluated runs of the concrete model -/

section Examples
open Mistune.Generated

/-- the `index` of every `footnote_ref` among the children of the top-level tokens, in order -/
def refIndices (toks : List Json) : List Int :=
  toks.flatMap (fun t => (t.getArr "children").filterMap (fun c =>
    if c.type == "footnote_ref" then (c.get? "attrs").bind (·.getInt? "index") else none))

/-- `(key, index)` of the items of every top-level `footnotes` token -/
def itemKeys (toks : List Json) : List (Str × Int) :=
  toks.flatMap (fun t => if t.type == "footnotes" then (t.getArr "children").filterMap (fun c =>
    match c.get? "attrs" with
    | some a => (a.getInt? "index").map (fun i => (a.getStr "key", i))
    | none => none) else [])

def docView (r : Except PyErr (List Json)) : Option (List Int × List (Str × Int)) :=
  match r with
  | .ok toks => some (refIndices toks, itemKeys toks)
  | .error _ => none

/-- a repeated reference, a case variant, an undefined key: `x` is note 1 both times, `Y` note 2, `[^z]` stays text;
two items numbered 1, 2 -/
example : docView (Model.parseDoc (ofRuleCfg cfg_only_footnotes)
      "a[^x] b[^Y] c[^x] d[^z]\n\n[^x]: one\n[^y]: two\n".toList)
    = some ([1, 2, 1], [("X".toList, 1), ("Y".toList, 2)]) := by decide +kernel

/-- the same history on the abstract machine -/
example : fnRun ["X".toList, "Y".toList] [] ["X".toList, "Y".toList, "X".toList, "Z".toList]
    = (["X".toList, "Y".toList], [("X".toList, some 1), ("Y".toList, some 2), ("X".toList, some 1), ("Z".toList, none)]) := by
  decide

example : NotesWf (.obj [("ref_links", .obj []), ("ref_footnotes", .obj [("X", Json.s "one")])]) := Or.inl rfl
example : NotesWf (.obj [("footnotes", .arr [Json.str "X".toList])]) := Or.inr ⟨["X".toList], rfl⟩

end Examples

end Model
end Mistune
