/-
C14 — footnote references and notes stay in bijection: theorems about the numbering machine for ALL
definition sets and ALL reference sequences.
-/
import Mistune.Footnotes
namespace Mistune

theorem firstOccs_congr (l : List Str) : ∀ (s s' : List Str), (∀ k, k ∈ s ↔ k ∈ s') →
    firstOccs s l = firstOccs s' l := by
  induction l with
  | nil => intros; rfl
  | cons k ks ih =>
    intro s s' h
    simp only [firstOccs]
    have hc : s.contains k = s'.contains k := by
      rw [Bool.eq_iff_iff]; simp [h]
    rw [hc]
    split
    · exact ih _ _ h
    · congr 1
      apply ih
      intro k'
      simp [h]

theorem firstOccs_cons (seen : List Str) (k : Str) (ks : List Str) :
    firstOccs seen (k :: ks) = if k ∈ seen then firstOccs seen ks else k :: firstOccs (k :: seen) ks := by
  simp [firstOccs]

theorem fnRef_fst (defs notes : List Str) (k : Str) :
    (fnRef defs notes k).1 = if k ∈ defs ∧ k ∉ notes then notes ++ [k] else notes := by
  unfold fnRef
  by_cases h1 : k ∈ defs <;> by_cases h2 : k ∈ notes <;> simp [h1, h2]

theorem fnRef_snd (defs notes : List Str) (k : Str) :
    (fnRef defs notes k).2 =
      if k ∈ defs then some ((fnRef defs notes k).1.idxOf k + 1) else none := by
  unfold fnRef
  by_cases h1 : k ∈ defs <;> simp [h1]

theorem fnRun_cons (defs notes : List Str) (k : Str) (ks : List Str) :
    fnRun defs notes (k :: ks) =
      ((fnRun defs (fnRef defs notes k).1 ks).1,
        (k, (fnRef defs notes k).2) :: (fnRun defs (fnRef defs notes k).1 ks).2) := rfl

theorem fnRun_prefix (defs : List Str) (refs : List Str) :
    ∀ notes, ∃ more, (fnRun defs notes refs).1 = notes ++ more := by
  induction refs with
  | nil => intro notes; exact ⟨[], by simp [fnRun]⟩
  | cons k ks ih =>
    intro notes
    rw [fnRun_cons]
    obtain ⟨more, hm⟩ := ih (fnRef defs notes k).1
    show ∃ more', (fnRun defs (fnRef defs notes k).1 ks).1 = notes ++ more'
    rw [hm, fnRef_fst]
    split
    · exact ⟨[k] ++ more, by simp⟩
    · exact ⟨more, rfl⟩

theorem fnRun_notes_gen (defs : List Str) (refs : List Str) :
    ∀ notes seen, (∀ k, k ∈ seen ↔ k ∈ notes) →
      (fnRun defs notes refs).1 = notes ++ firstOccs seen (refs.filter (fun k => defs.contains k)) := by
  induction refs with
  | nil => intro notes seen _; simp [fnRun, firstOccs]
  | cons k ks ih =>
    intro notes seen h
    rw [fnRun_cons]
    simp only [fnRef_fst]
    by_cases h1 : k ∈ defs
    · have h1' : defs.contains k = true := by simpa using h1
      by_cases h2 : k ∈ notes
      · have h2' : k ∈ seen := (h k).2 h2
        rw [List.filter_cons_of_pos h1', firstOccs_cons, if_pos h2', if_neg (by simp [h2])]
        exact ih notes seen h
      · have h2' : k ∉ seen := fun hh => h2 ((h k).1 hh)
        rw [List.filter_cons_of_pos h1', firstOccs_cons, if_neg h2', if_pos ⟨h1, h2⟩]
        rw [ih (notes ++ [k]) (k :: seen) (by intro k'; simp [h, or_comm])]
        simp only [List.append_assoc, List.singleton_append]
    · have h1' : ¬ (defs.contains k = true) := by simpa using h1
      rw [List.filter_cons_of_neg h1', if_neg (by simp [h1])]
      exact ih notes seen h

theorem fnRun_nodup_gen (defs : List Str) (refs : List Str) :
    ∀ notes, notes.Nodup → (fnRun defs notes refs).1.Nodup := by
  induction refs with
  | nil => intro notes h; simpa [fnRun] using h
  | cons k ks ih =>
    intro notes h
    rw [fnRun_cons]
    apply ih
    rw [fnRef_fst]
    split
    · rename_i hc
      rw [List.nodup_append]
      refine ⟨h, by simp, ?_⟩
      intro a ha b hb
      simp at hb
      subst hb
      intro hab
      subst hab
      exact hc.2 ha
    · exact h

theorem fnRun_mem_gen (defs : List Str) (refs : List Str) :
    ∀ notes, ∀ k ∈ (fnRun defs notes refs).1, k ∈ notes ∨ (k ∈ defs ∧ k ∈ refs) := by
  induction refs with
  | nil => intro notes k hk; left; simpa [fnRun] using hk
  | cons k ks ih =>
    intro notes k' hk'
    rw [fnRun_cons] at hk'
    rcases ih _ k' hk' with h | h
    · rw [fnRef_fst] at h
      split at h
      · rename_i hc
        simp at h
        rcases h with h | h
        · exact Or.inl h
        · subst h; exact Or.inr ⟨hc.1, by simp⟩
      · exact Or.inl h
    · exact Or.inr ⟨h.1, by simp [h.2]⟩

theorem fnRef_mem (defs notes : List Str) (k : Str) (h : k ∈ defs) :
    k ∈ (fnRef defs notes k).1 := by
  rw [fnRef_fst]
  split
  · simp
  · rename_i hc
    simp at hc
    exact hc h

theorem fnRun_sound_gen (defs : List Str) (refs : List Str) :
    ∀ notes, ∀ p ∈ (fnRun defs notes refs).2,
      (p.2 = none ↔ p.1 ∉ defs) ∧
      (∀ i, p.2 = some i → 1 ≤ i ∧ (fnRun defs notes refs).1[i - 1]? = some p.1) := by
  induction refs with
  | nil => intro notes p hp; simp [fnRun] at hp
  | cons k ks ih =>
    intro notes p hp
    rw [fnRun_cons] at hp ⊢
    simp only [List.mem_cons] at hp
    rcases hp with hp | hp
    · subst hp
      simp only
      rw [fnRef_snd]
      by_cases h1 : k ∈ defs
      · have hmem := fnRef_mem defs notes k h1
        obtain ⟨more, hm⟩ := fnRun_prefix defs ks (fnRef defs notes k).1
        rw [if_pos h1]
        refine ⟨by simp [h1], ?_⟩
        intro i hi
        simp at hi
        subst hi
        refine ⟨by omega, ?_⟩
        rw [hm]
        have hlt : List.idxOf k (fnRef defs notes k).1 < (fnRef defs notes k).1.length :=
          List.idxOf_lt_length_of_mem hmem
        simp only [Nat.add_sub_cancel]
        rw [List.getElem?_append_left hlt]
        simp [List.getElem?_eq_getElem hlt]
      · rw [if_neg h1]
        simp [h1]
    · exact ih _ p hp

theorem fnRun_items_gen (defs : List Str) (refs : List Str) :
    ∀ notes i, notes.length ≤ i → (h : i < (fnRun defs notes refs).1.length) →
      ((fnRun defs notes refs).1[i], some (i + 1)) ∈ (fnRun defs notes refs).2 := by
  induction refs with
  | nil => intro notes i h1 h2; simp [fnRun] at h2; omega
  | cons k ks ih =>
    intro notes i h1 h2
    simp only [fnRun_cons] at h2 ⊢
    by_cases hi : (fnRef defs notes k).1.length ≤ i
    · exact List.mem_cons_of_mem _ (ih _ i hi h2)
    · have hfst := fnRef_fst defs notes k
      split at hfst
      · rename_i hc
        have hlen : i = notes.length := by
          rw [hfst] at hi; simp at hi; omega
        obtain ⟨more, hm⟩ := fnRun_prefix defs ks (fnRef defs notes k).1
        have hget : (fnRun defs (fnRef defs notes k).1 ks).1[i] = k := by
          have : (fnRun defs (fnRef defs notes k).1 ks).1[i]? = some k := by
            rw [hm, hfst, hlen]; simp
          simpa [List.getElem?_eq_getElem h2] using this
        rw [hget]
        apply List.mem_cons.2
        left
        rw [fnRef_snd, hfst, if_pos hc.1]
        congr 2
        rw [hlen]
        simp [List.idxOf_append, hc.2]
      · rw [hfst] at hi; omega

/-- **C14 (order of first reference).** The emitted notes are exactly the distinct *defined* keys that are
referenced, in order of first reference. -/
theorem fn_notes_eq (defs refs : List Str) :
    (fnRun defs [] refs).1 = firstOccs [] (refs.filter (fun k => defs.contains k)) := by
  have h := fnRun_notes_gen defs refs [] [] (by simp)
  simpa using h

/-- **C14 (no duplicates, only defined, only referenced).** -/
theorem fn_notes_nodup (defs refs : List Str) :
    (fnRun defs [] refs).1.Nodup ∧
    (∀ k ∈ (fnRun defs [] refs).1, k ∈ defs ∧ k ∈ refs) := by
  refine ⟨fnRun_nodup_gen defs refs [] List.nodup_nil, ?_⟩
  intro k hk
  rcases fnRun_mem_gen defs refs [] k hk with h | h
  · simp at h
  · exact h

/-- **C14 (every reference carries the final number of its note; undefined stay literal).**
For every reference occurrence: it became a `footnote_ref` iff its key is defined, and then its index `i`
satisfies `1 ≤ i ≤ n` and the `i`-th emitted note is that key — so repeated references reuse the number and
the number never changes later. -/
theorem fn_refs_sound (defs refs : List Str) :
    ∀ p ∈ (fnRun defs [] refs).2,
      (p.2 = none ↔ p.1 ∉ defs) ∧
      (∀ i, p.2 = some i → 1 ≤ i ∧ (fnRun defs [] refs).1[i - 1]? = some p.1) := by
  exact fnRun_sound_gen defs refs []

/-- the outcome list has one entry per reference, in order -/
theorem fn_refs_keys (defs refs : List Str) : ((fnRun defs [] refs).2.map Prod.fst) = refs := by
  suffices h : ∀ notes, ((fnRun defs notes refs).2.map Prod.fst) = refs from h []
  induction refs with
  | nil => intro notes; rfl
  | cons k ks ih => intro notes; rw [fnRun_cons]; simp [ih]

/-- **C14 (every emitted note is referenced, with its own number).** -/
theorem fn_items_referenced (defs refs : List Str) :
    ∀ q ∈ fnItems (fnRun defs [] refs).1, (q.1, some q.2) ∈ (fnRun defs [] refs).2 := by
  intro q hq
  unfold fnItems at hq
  rw [List.mem_map] at hq
  obtain ⟨⟨a, i⟩, hmem, rfl⟩ := hq
  rw [List.mem_zipIdx_iff_getElem?] at hmem
  simp only at hmem ⊢
  obtain ⟨hlt, hget⟩ := List.getElem?_eq_some_iff.1 hmem
  have := fnRun_items_gen defs refs [] i (by simp) hlt
  rw [hget] at this
  exact this

/-- **C14 (numbering is 1..n in order).** -/
theorem fn_items_numbers (notes : List Str) :
    (fnItems notes).map Prod.snd = (List.range notes.length).map (· + 1) ∧
    (fnItems notes).map Prod.fst = notes := by
  unfold fnItems
  constructor
  · apply List.ext_getElem?
    intro i
    simp
    by_cases h : i < notes.length
    · simp [h]
    · simp [h]
  · apply List.ext_getElem?
    intro i
    simp
    cases notes[i]? <;> simp

/-- non-vacuity: a concrete history with a repeated, an undefined and an unreferenced key -/
example :
    fnRun ["A".toList, "B".toList, "C".toList] [] ["B".toList, "X".toList, "A".toList, "B".toList]
      = (["B".toList, "A".toList],
         [("B".toList, some 1), ("X".toList, none), ("A".toList, some 2), ("B".toList, some 1)]) := by
  decide


end Mistune
