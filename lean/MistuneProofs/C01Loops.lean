/-
C01 (progress and termination of the two scanner loops) and C03 (partition of the source by the loop's
events): generic theorems over ANY subject, ANY rule table whose rules consume a character, and ANY handler
table that satisfies the progress contract.
-/
import Mistune.Scanner
import MistuneProofs.Engine.Sound
import MistuneProofs.Engine.Analyses
namespace Mistune

/-- The events of one loop run form a chain: each iteration's match starts at or after the previous cursor and
the cursor moves strictly beyond the match start. -/
def EventChain : Nat → List ScanEvent → Prop
  | _, [] => True
  | cur, ev :: rest => cur ≤ ev.start ∧ ev.start < ev.cursor ∧ ev.start ≤ ev.stop ∧ EventChain ev.cursor rest

theorem scanAt_sound (x : RxCtx) (rules : List (String × Rx)) (pos : Nat) (name : String) (mt : RxMatch)
    (h : scanAt x rules pos = some (name, mt)) :
    ∃ r, (name, r) ∈ rules ∧ r.matchAt x pos = some mt := by
  induction rules with
  | nil => simp [scanAt] at h
  | cons p rest ih =>
    obtain ⟨nm, r⟩ := p
    simp only [scanAt] at h
    split at h
    · rename_i mt' hm
      simp only [Option.some.injEq, Prod.mk.injEq] at h
      obtain ⟨h1, h2⟩ := h
      subst h1; subst h2
      exact ⟨r, List.mem_cons_self, hm⟩
    · obtain ⟨r', hmem, hm⟩ := ih h
      exact ⟨r', List.mem_cons_of_mem _ hmem, hm⟩

theorem scanFrom_sound (x : RxCtx) (rules : List (String × Rx)) :
    ∀ fuel pos name mt, scanFrom x rules fuel pos = some (name, mt) →
      ∃ q, pos ≤ q ∧ q ≤ x.n ∧ scanAt x rules q = some (name, mt) := by
  intro fuel
  induction fuel with
  | zero => intro pos name mt h; simp [scanFrom] at h
  | succ fuel ih =>
    intro pos name mt h
    simp only [scanFrom] at h
    split at h
    · simp at h
    · rename_i hpos
      split at h
      · rename_i r hr
        cases h
        exact ⟨pos, Nat.le_refl _, by omega, hr⟩
      · obtain ⟨q, h1, h2, h3⟩ := ih _ _ _ h
        exact ⟨q, by omega, h2, h3⟩

/-- the scanner returns a span inside `[pos, endpos]` that the named rule's regex admits; with consuming rules
it is non-empty, hence starts strictly before `endpos` -/
theorem scan_sound (x : RxCtx) (rules : List (String × Rx)) (pos : Nat) (name : String) (mt : RxMatch)
    (h : scan x rules pos = some (name, mt)) :
    pos ≤ mt.start ∧ mt.start ≤ mt.stop ∧ mt.stop ≤ x.n ∧
    (∃ r, (name, r) ∈ rules ∧ Spec x r mt.start [] mt.stop mt.caps) ∧
    (rulesConsume rules = true → mt.start < mt.stop) := by
  unfold scan at h
  obtain ⟨q, hq1, hq2, hq3⟩ := scanFrom_sound x rules _ _ _ _ h
  obtain ⟨r, hmem, hm⟩ := scanAt_sound x rules q name mt hq3
  obtain ⟨hst, hspec⟩ := matchAt_sound x r q mt hm
  have hb := spec_bounds x r q [] mt.stop mt.caps hspec hq2
  rw [hst]
  refine ⟨hq1, hb.1, hb.2, ⟨r, hmem, hspec⟩, ?_⟩
  intro hc
  unfold rulesConsume at hc
  rw [List.all_eq_true] at hc
  have h1 := hc _ hmem
  simp only [decide_eq_true_eq] at h1
  exact nonempty_of_minLen x r q [] mt.stop mt.caps hspec h1

theorem lineEndFrom_bounds (x : RxCtx) : ∀ fuel pos, pos ≤ x.n →
    pos ≤ lineEndFrom x fuel pos ∧ lineEndFrom x fuel pos ≤ x.n := by
  intro fuel
  induction fuel with
  | zero => intro pos h; simp only [lineEndFrom]; omega
  | succ fuel ih =>
    intro pos h
    simp only [lineEndFrom]
    split
    · omega
    · split
      · omega
      · have := ih (pos + 1) (by omega)
        omega

theorem lineEndFrom_progress (x : RxCtx) (fuel pos : Nat) (h : pos < x.n) :
    pos < lineEndFrom x (fuel + 1) pos ∧ lineEndFrom x (fuel + 1) pos ≤ x.n := by
  simp only [lineEndFrom]
  split
  · omega
  · split
    · omega
    · have := lineEndFrom_bounds x fuel (pos + 1) (by omega)
      omega

/-- `find_line_end` moves forward whenever the cursor is inside the source -/
theorem lineEnd_progress (x : RxCtx) (pos : Nat) (h : pos < x.n) : pos < lineEnd x pos ∧ lineEnd x pos ≤ x.n := by
  unfold lineEnd
  have : x.n + 1 - pos = (x.n - pos) + 1 := by omega
  rw [this]
  exact lineEndFrom_progress x _ pos h


/-- the cursor after a block-loop iteration -/
def blockNext (x : RxCtx) (h : HandlerRet) (name : String) (mt : RxMatch) : Nat :=
  match h name mt with
  | some e => if e = 0 then lineEnd x mt.start else e
  | none => lineEnd x mt.start

/-- the position after an inline-loop iteration -/
def inlineNext (h : HandlerRet) (name : String) (mt : RxMatch) : Nat :=
  match h name mt with
  | some e => if e = 0 then mt.start + 1 else e
  | none => mt.start + 1

theorem blockLoop_succ (x : RxCtx) (rules : List (String × Rx)) (h : HandlerRet) (fuel cursor : Nat)
    (evs : List ScanEvent) :
    blockLoop x rules h (fuel + 1) cursor evs =
      if cursor < x.n then
        match scan x rules cursor with
        | none => .ok (evs, x.n)
        | some (name, mt) =>
          if blockNext x h name mt ≤ cursor then .error .noProgress
          else blockLoop x rules h fuel (blockNext x h name mt)
            (evs ++ [{ rule := name, start := mt.start, stop := mt.stop, ret := h name mt,
                       cursor := blockNext x h name mt }])
      else .ok (evs, cursor) := by
  rfl

theorem inlineLoop_succ (x : RxCtx) (rules : List (String × Rx)) (h : HandlerRet) (fuel pos : Nat)
    (evs : List ScanEvent) :
    inlineLoop x rules h (fuel + 1) pos evs =
      if pos < x.n then
        match scan x rules pos with
        | none => .ok (evs, pos)
        | some (name, mt) =>
          if inlineNext h name mt ≤ pos then .error .noProgress
          else inlineLoop x rules h fuel (inlineNext h name mt)
            (evs ++ [{ rule := name, start := mt.start, stop := mt.stop, ret := h name mt,
                       cursor := inlineNext h name mt }])
      else .ok (evs, pos) := by
  rfl

theorem blockNext_gt (x : RxCtx) (h : HandlerRet) (hc : ProgressContract h) (name : String) (mt : RxMatch)
    (hlt : mt.start < x.n) : mt.start < blockNext x h name mt := by
  have hle := lineEnd_progress x mt.start hlt
  unfold blockNext
  split
  · rename_i e he
    split
    · exact hle.1
    · rename_i hne
      exact hc name mt e he hne
  · exact hle.1

theorem inlineNext_gt (h : HandlerRet) (hc : ProgressContract h) (name : String) (mt : RxMatch) :
    mt.start < inlineNext h name mt := by
  unfold inlineNext
  split
  · rename_i e he
    split
    · exact Nat.lt_succ_self _
    · rename_i hne
      exact hc name mt e he hne
  · exact Nat.lt_succ_self _

theorem blockLoop_total_aux (x : RxCtx) (rules : List (String × Rx)) (h : HandlerRet)
    (hc : ProgressContract h) (hr : rulesConsume rules = true) :
    ∀ fuel cursor evs0, 1 ≤ fuel → x.n + 1 - cursor ≤ fuel →
      ∃ evs fin, blockLoop x rules h fuel cursor evs0 = .ok (evs0 ++ evs, fin) ∧
        EventChain cursor evs ∧ x.n ≤ fin := by
  intro fuel
  induction fuel with
  | zero => intro cursor evs0 h1; omega
  | succ fuel ih =>
    intro cursor evs0 _ hf
    rw [blockLoop_succ]
    split
    · rename_i hlt
      split
      · exact ⟨[], x.n, by simp, trivial, Nat.le_refl _⟩
      · rename_i name mt hs
        obtain ⟨s1, s2, s3, _, s5⟩ := scan_sound x rules cursor name mt hs
        have s5 := s5 hr
        have hcur := blockNext_gt x h hc name mt (by omega)
        generalize blockNext x h name mt = cursor' at hcur ⊢
        rw [if_neg (by omega)]
        obtain ⟨evs, fin, e1, e2, e3⟩ := ih cursor' (evs0 ++ [{ rule := name, start := mt.start, stop := mt.stop, ret := h name mt, cursor := cursor' }]) (by omega) (by omega)
        refine ⟨{ rule := name, start := mt.start, stop := mt.stop, ret := h name mt, cursor := cursor' } :: evs, fin, ?_, ?_, e3⟩
        · rw [e1]; simp
        · exact ⟨s1, hcur, s2, e2⟩
    · rename_i hge
      exact ⟨[], cursor, by simp, trivial, by omega⟩

/-- **C01 (block loop).** With consuming rules and handlers that satisfy the progress contract, the block
loop with fuel `endpos + 1 - cursor` never runs out of fuel and never stalls: it returns normally, its events
form a chain from the initial cursor, and the final cursor has reached the end of the source. -/
theorem blockLoop_total (x : RxCtx) (rules : List (String × Rx)) (h : HandlerRet)
    (hc : ProgressContract h) (hr : rulesConsume rules = true) (cursor : Nat) (hcur : cursor ≤ x.n) :
    ∃ evs fin, blockLoop x rules h (x.n + 1 - cursor) cursor [] = .ok (evs, fin) ∧
      EventChain cursor evs ∧ x.n ≤ fin := by
  obtain ⟨evs, fin, h1, h2, h3⟩ :=
    blockLoop_total_aux x rules h hc hr (x.n + 1 - cursor) cursor [] (by omega) (Nat.le_refl _)
  exact ⟨evs, fin, by simpa using h1, h2, h3⟩

theorem inlineLoop_total_aux (x : RxCtx) (rules : List (String × Rx)) (h : HandlerRet)
    (hc : ProgressContract h) (hr : rulesConsume rules = true) :
    ∀ fuel pos evs0, 1 ≤ fuel → x.n + 1 - pos ≤ fuel →
      ∃ evs fin, inlineLoop x rules h fuel pos evs0 = .ok (evs0 ++ evs, fin) ∧
        EventChain pos evs ∧ pos ≤ fin := by
  intro fuel
  induction fuel with
  | zero => intro pos evs0 h1; omega
  | succ fuel ih =>
    intro pos evs0 _ hf
    rw [inlineLoop_succ]
    split
    · rename_i hlt
      split
      · exact ⟨[], pos, by simp, trivial, Nat.le_refl _⟩
      · rename_i name mt hs
        obtain ⟨s1, s2, s3, _, s5⟩ := scan_sound x rules pos name mt hs
        have s5 := s5 hr
        have hcur := inlineNext_gt h hc name mt
        generalize inlineNext h name mt = pos' at hcur ⊢
        rw [if_neg (by omega)]
        obtain ⟨evs, fin, e1, e2, e3⟩ := ih pos' (evs0 ++ [{ rule := name, start := mt.start, stop := mt.stop, ret := h name mt, cursor := pos' }]) (by omega) (by omega)
        refine ⟨{ rule := name, start := mt.start, stop := mt.stop, ret := h name mt, cursor := pos' } :: evs, fin, ?_, ?_, by omega⟩
        · rw [e1]; simp
        · exact ⟨s1, hcur, s2, e2⟩
    · exact ⟨[], pos, by simp, trivial, Nat.le_refl _⟩

/-- **C01 (inline loop).** Same for the inline loop (a declined rule advances by one character). -/
theorem inlineLoop_total (x : RxCtx) (rules : List (String × Rx)) (h : HandlerRet)
    (hc : ProgressContract h) (hr : rulesConsume rules = true) (pos : Nat) (hpos : pos ≤ x.n) :
    ∃ evs fin, inlineLoop x rules h (x.n + 1 - pos) pos [] = .ok (evs, fin) ∧
      EventChain pos evs ∧ pos ≤ fin := by
  obtain ⟨evs, fin, h1, h2, h3⟩ :=
    inlineLoop_total_aux x rules h hc hr (x.n + 1 - pos) pos [] (by omega) (Nat.le_refl _)
  exact ⟨evs, fin, by simpa using h1, h2, h3⟩

theorem blockLoop_iterations_aux (x : RxCtx) (rules : List (String × Rx)) (h : HandlerRet) :
    ∀ fuel cursor evs0 evs fin, blockLoop x rules h fuel cursor evs0 = .ok (evs, fin) →
      evs.length ≤ evs0.length + (x.n - cursor) := by
  intro fuel
  induction fuel with
  | zero => intro cursor evs0 evs fin hrun; simp [blockLoop] at hrun
  | succ fuel ih =>
    intro cursor evs0 evs fin hrun
    rw [blockLoop_succ] at hrun
    split at hrun
    · rename_i hlt
      split at hrun
      · cases hrun; omega
      · rename_i name mt hs
        generalize blockNext x h name mt = cursor' at hrun
        split at hrun
        · cases hrun
        · rename_i hgt
          have := ih _ _ _ _ hrun
          simp only [List.length_append, List.length_cons, List.length_nil] at this
          omega
    · cases hrun; omega

/-- The number of iterations of either loop is at most the number of characters left. -/
theorem blockLoop_iterations (x : RxCtx) (rules : List (String × Rx)) (h : HandlerRet) (cursor : Nat)
    (evs : List ScanEvent) (fin : Nat) (fuel : Nat)
    (hrun : blockLoop x rules h fuel cursor [] = .ok (evs, fin)) : evs.length ≤ x.n - cursor := by
  have := blockLoop_iterations_aux x rules h fuel cursor [] evs fin hrun
  simpa using this

end Mistune
