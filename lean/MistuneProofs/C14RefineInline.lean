/-
C14 — refinement, whole inline pass and whole document: the list `env["footnotes"]` after `render_state` is the
notes list of a RUN of the numbering machine (`fnRun`) over the keys of the `parse_inline_footnote` calls, in call
order; hence (C14: `fn_notes_nodup`) it has no duplicates and only defined keys, and the section built by
`md_footnotes_hook` has one item per such key numbered `1..n`.
-/
import MistuneProofs.C14Refine
import MistuneProofs.C12RefineBlock
import MistuneProofs.EnvRelInline
namespace Mistune
namespace Model
open Inl Hooks

theorem fnRun_append_fst (defs : List Str) (k1 k2 : List Str) : ∀ notes,
    (fnRun defs notes (k1 ++ k2)).1 = (fnRun defs (fnRun defs notes k1).1 k2).1 := by
  induction k1 with
  | nil => intro notes; rfl
  | cons k ks ih => intro notes; simp only [List.cons_append, fnRun_cons, ih]

/-- the evolution of `env` during the inline pass: `ref_footnotes` fixed, `footnotes` a run of the machine -/
def FnRel (e e' : Json) : Prop :=
  NotesWf e → NotesWf e' ∧ absDefs e' = absDefs e ∧ ∃ keys, absNotes e' = (fnRun (absDefs e) (absNotes e) keys).1

theorem absDefs_congr {e e' : Json} (h : e'.get? "ref_footnotes" = e.get? "ref_footnotes") : absDefs e' = absDefs e := by
  unfold absDefs; rw [h]

theorem fnRel_inlEnvRel (cfg : MdCfg) : InlEnvRel cfg FnRel where
  refl := fun e hw => ⟨hw, rfl, [], rfl⟩
  trans := by
    intro a b c h1 h2 hw
    obtain ⟨hw1, hd1, k1, hn1⟩ := h1 hw
    obtain ⟨hw2, hd2, k2, hn2⟩ := h2 hw1
    refine ⟨hw2, hd2.trans hd1, k1 ++ k2, ?_⟩
    rw [fnRun_append_fst, ← hn1, ← hd1, hn2]
  footnote := by
    intro m st r st' h hw
    by_cases himg : st.inImage = true
    · rw [parseInlineFootnote_inImage cfg m st himg] at h
      cases h
      exact ⟨hw, rfl, [], rfl⟩
    · have himg' : st.inImage = false := by simpa using himg
      obtain ⟨env', heq, hw', hn, hother, _⟩ := parseInlineFootnote_step cfg m st hw himg'
      rw [heq] at h
      cases h
      exact ⟨hw', absDefs_congr (hother _ (by decide)), [_], hn⟩

/-! ### the block pass never creates `env["footnotes"]` -/

def KeepKey (k : String) (e e' : Json) : Prop := e'.get? k = e.get? k

theorem keepFootnotes_envRel (cfg : MdCfg) : Blk.EnvRel cfg (KeepKey "footnotes") where
  refl := fun _ => rfl
  trans := fun h1 h2 => Eq.trans h2 h1
  refLink := by
    intro mt st r st' h
    rcases parseRefLink_raw cfg mt st _ h with he | ⟨_, _, _, _, _, _, _, henv⟩
    · dsimp only at he; unfold KeepKey; rw [he]
    · dsimp only at henv; unfold KeepKey; rw [henv]; exact JsonL.get?_set_other _ _ _ _ (by decide)
  refFootnote := by
    intro mt st r st' h
    unfold Blk.parseRefFootnote at h
    simp only [Except.ok.injEq, Prod.mk.injEq] at h
    obtain ⟨_, hst⟩ := h
    subst hst
    unfold KeepKey
    split
    · exact JsonL.get?_set_other _ _ _ _ (by decide)
    · rfl
  refAbbr := by
    intro mt st r st' h
    unfold Blk.parseRefAbbr at h
    simp only [Except.ok.injEq, Prod.mk.injEq] at h
    obtain ⟨_, hst⟩ := h
    subst hst
    exact JsonL.get?_set_other _ _ _ _ (by decide)

theorem blockParse_no_footnotes (cfg : MdCfg) (src : Str) (toks : List Json) (env : Json)
    (h : Model.blockParse cfg src = .ok (toks, env)) : env.get? "footnotes" = none := by
  have := Blk.blockParse_rel cfg _ (keepFootnotes_envRel cfg) src toks env h
  unfold KeepKey at this
  rw [this]; rfl

/-! ### the inline pass and the whole document -/

/-- **C14 (f): the inline pass runs the numbering machine.**  `render_state` (every `parse_inline_footnote` call of
every inline text of the document, including the speculative calls of `precedence_scan`, chained through the shared
`env`) leaves `env["ref_footnotes"]` as it was and turns `env["footnotes"]` into the notes list of `fnRun` over the
sequence of keys of those calls. -/
theorem renderState_notes (cfg : MdCfg) (toks : List Json) (env : Json) (result : List Json) (env' : Json)
    (h : renderState cfg toks env = .ok (result, env')) (hw : NotesWf env) :
    NotesWf env' ∧ absDefs env' = absDefs env ∧
      ∃ keys, absNotes env' = (fnRun (absDefs env) (absNotes env) keys).1 :=
  Hooks.renderState_rel cfg FnRel (fnRel_inlEnvRel cfg) toks env _ h hw

/-- one inline text: `InlineParser.__call__(s, env)` -/
theorem inlineParseEnv_notes (cfg : MdCfg) (env : Json) (src : Str) (toks : List Json) (env' : Json)
    (h : Model.inlineParseEnv cfg env src = .ok (toks, env')) (hw : NotesWf env) :
    NotesWf env' ∧ absDefs env' = absDefs env ∧
      ∃ keys, absNotes env' = (fnRun (absDefs env) (absNotes env) keys).1 :=
  Model.inlineParseEnv_rel cfg FnRel (fnRel_inlEnvRel cfg) env src _ h hw

/-- **C14 for the concrete model, whole document** (the three stages of `parseDoc` for a configuration with the
footnotes plugin: block pass, `render_state` on the — possibly hook-rewritten — block tokens, `md_footnotes_hook`).
There is a sequence `keys` (the keys of the inline handler calls) such that, with `notes` the machine's notes list
for the definitions of the block pass: `notes` has no duplicates, every note is defined and referenced, and the hook
appends nothing when `notes` is empty and otherwise exactly one `footnotes` token whose children are the
`footnote_item`s of `fnItems notes` — one per note, in order, numbered `1..n`. -/
theorem doc_footnotes (cfg : MdCfg) (src : Str) (toks toks' : List Json) (env : Json) (result : List Json) (env' : Json)
    (out : List Json)
    (hb : Model.blockParse cfg src = .ok (toks, env))
    (hr : renderState cfg toks' env = .ok (result, env'))
    (hh : mdFootnotesHook cfg result env' = .ok out) :
    ∃ keys : List Str,
      ((fnRun (absDefs env) [] keys).1).Nodup ∧
      (∀ k ∈ (fnRun (absDefs env) [] keys).1, k ∈ absDefs env ∧ k ∈ keys) ∧
      (((fnRun (absDefs env) [] keys).1 = [] ∧ out = result) ∨
       ((fnRun (absDefs env) [] keys).1 ≠ [] ∧ ∃ sect cs, out = result ++ [sect] ∧
          sect.get? "type" = some (Json.s "footnotes") ∧ sect.get? "children" = some (.arr cs) ∧
          cs.map keep = (fnItems (fnRun (absDefs env) [] keys).1).map
            (fun q => (some (Json.s "footnote_item"), some (itemAttrs q.1 q.2))))) := by
  have hnone := blockParse_no_footnotes cfg src toks env hb
  have hw : NotesWf env := Or.inl hnone
  obtain ⟨hw', _, keys, hn⟩ := renderState_notes cfg toks' env result env' hr hw
  rw [absNotes_none env hnone] at hn
  obtain ⟨h1, h2⟩ := fn_notes_nodup (absDefs env) keys
  refine ⟨keys, h1, h2, ?_⟩
  have := mdFootnotesHook_items cfg result env' hw' out hh
  rw [hn] at this
  exact this

/-- the three stages inside `parseDoc` for a configuration with the footnotes plugin (its inline rule and its hook,
no other `after_render` hook) -/
theorem parseDoc_stages (cfg : MdCfg) (s : Str) (out : List Json) (h : parseDoc cfg s = .ok out)
    (h1 : cfg.inlineRules.contains "footnote" = true) (h2 : cfg.afterRenderHooks = ["md_footnotes_hook"]) :
    ∃ toks env toks' result env', Model.blockParse cfg (norm s) = .ok (toks, env) ∧
      renderState cfg toks' env = .ok (result, env') ∧ mdFootnotesHook cfg result env' = .ok out := by
  revert out
  show Holds _ (parseDoc cfg s)
  unfold parseDoc
  extract_lets jp2 jp
  have hjp : Holds (fun a => ∃ toks env toks' result env', Model.blockParse cfg (norm s) = .ok (toks, env) ∧
      renderState cfg toks' env = .ok (result, env') ∧ mdFootnotesHook cfg result env' = .ok a) (jp ()) := by
    unfold jp
    dsimp -zeta only
    refine Holds.bind (Holds.self _) ?_
    rintro ⟨toks, env⟩ hb
    dsimp -zeta only
    refine Holds.bind (Holds.true _) (fun toks' _ => ?_)
    rw [if_pos h1]
    refine Holds.bind (Holds.self _) ?_
    rintro ⟨result, env'⟩ hr
    unfold jp2
    dsimp -zeta only
    rw [h2]
    unfold afterRender
    simp only [BEq.rfl, if_true]
    refine Holds.bind (Holds.self _) (fun o ho => ?_)
    unfold afterRender
    exact Holds.ok ⟨toks, env, toks', result, env', hb, hr, ho⟩
  clear_value jp
  split
  · exact Holds.bind (Q := fun _ => False) Holds.throw (fun _ h => h.elim)
  · exact hjp

/-- **C14 for `parseDoc` itself** (configurations with the footnotes plugin): `doc_footnotes` applied to the stages -/
theorem parseDoc_footnotes (cfg : MdCfg) (s : Str) (out : List Json) (h : parseDoc cfg s = .ok out)
    (h1 : cfg.inlineRules.contains "footnote" = true) (h2 : cfg.afterRenderHooks = ["md_footnotes_hook"]) :
    ∃ (defs keys : List Str) (result : List Json),
      ((fnRun defs [] keys).1).Nodup ∧
      (∀ k ∈ (fnRun defs [] keys).1, k ∈ defs ∧ k ∈ keys) ∧
      (((fnRun defs [] keys).1 = [] ∧ out = result) ∨
       ((fnRun defs [] keys).1 ≠ [] ∧ ∃ sect cs, out = result ++ [sect] ∧
          sect.get? "type" = some (Json.s "footnotes") ∧ sect.get? "children" = some (.arr cs) ∧
          cs.map keep = (fnItems (fnRun defs [] keys).1).map
            (fun q => (some (Json.s "footnote_item"), some (itemAttrs q.1 q.2))))) := by
  obtain ⟨toks, env, toks', result, env', hb, hr, hh⟩ := parseDoc_stages cfg s out h h1 h2
  obtain ⟨keys, hk⟩ := doc_footnotes cfg (norm s) toks toks' env result env' out hb hr hh
  exact ⟨absDefs env, keys, result, hk⟩

/-! ### non-vacuity -/

section Examples
open Mistune.Generated

example : (ofRuleCfg cfg_only_footnotes).inlineRules.contains "footnote" = true := by decide +kernel
example : (ofRuleCfg cfg_only_footnotes).afterRenderHooks = ["md_footnotes_hook"] := by decide +kernel
example : isOk (parseDoc (ofRuleCfg cfg_only_footnotes) "a[^x] b[^Y] c[^x] d[^z]\n\n[^x]: one\n[^y]: two\n".toList) = true := by
  decide +kernel

end Examples

end Model
end Mistune
