/-
A capture-level regex analysis: `Rx.grpConsumes idx r` (every group numbered `idx` in `r` has a body that consumes
at least one character) implies that in every match the capture of group `idx`, when set, is a NON-EMPTY span inside
the subject.  Instantiated on the regenerated rule `ref_abbr` (plugins/abbr.py): the group `abbr_key` (`[^\]]+`) of
every match is non-empty — the fact that makes the `process_text` loop of the `abbr` plugin advance.
-/
import Mistune.Model.BlockDispatch
import MistuneProofs.Engine.Sound
import MistuneProofs.Engine.Analyses
namespace Mistune

/-- every group numbered `idx` has a body with `minLen ≥ 1` -/
def Rx.grpConsumes (idx : Nat) : Rx → Bool
  | .seq a b => a.grpConsumes idx && b.grpConsumes idx
  | .alt a b => a.grpConsumes idx && b.grpConsumes idx
  | .rep r _ _ _ => r.grpConsumes idx
  | .grp i r => r.grpConsumes idx && (i != idx || decide (1 ≤ r.minLen))
  | .look _ _ _ r => r.grpConsumes idx
  | _ => true

/-- the capture of group `idx`, when set, is a non-empty span that ends inside the subject -/
def CapOk (x : RxCtx) (idx : Nat) (c : Caps) : Prop := ∀ a b, c.get idx = some (a, b) → a < b ∧ b ≤ x.n

theorem iter_capOk {x : RxCtx} {r : Rx} {idx : Nat}
    (ih : ∀ (i : Nat) (c : Caps) (j : Nat) (c' : Caps), Spec x r i c j c' → i ≤ x.n → CapOk x idx c → CapOk x idx c')
    {cnt i : Nat} {c : Caps} {j : Nat} {c' : Caps} (h : Iter (Spec x r) cnt i c j c') :
    i ≤ x.n → CapOk x idx c → CapOk x idx c' := by
  induction h with
  | zero i c => exact fun _ hc => hc
  | succ hs _ ih2 =>
    intro hi hc
    exact ih2 (spec_bounds _ _ _ _ _ _ hs hi).2 (ih _ _ _ _ hs hi hc)

theorem grpConsumes_sound (x : RxCtx) (idx : Nat) (r : Rx) (i : Nat) (c : Caps) (j : Nat) (c' : Caps)
    (h : Spec x r i c j c') (hg : r.grpConsumes idx = true) (hi : i ≤ x.n) (hc : CapOk x idx c) : CapOk x idx c' := by
  induction r generalizing i c j c' with
  | eps => simp only [Spec] at h; rw [h.2]; exact hc
  | fail => simp only [Spec] at h
  | cls neg items => simp only [Spec] at h; rw [h.2.2.2]; exact hc
  | any dotall => simp only [Spec] at h; rw [h.2.2.2]; exact hc
  | seq a b iha ihb =>
    simp only [Rx.grpConsumes, Bool.and_eq_true] at hg
    rw [Spec] at h
    obtain ⟨m, cm, h1, h2⟩ := h
    exact ihb _ _ _ _ h2 hg.2 (spec_bounds _ _ _ _ _ _ h1 hi).2 (iha _ _ _ _ h1 hg.1 hi hc)
  | alt a b iha ihb =>
    simp only [Rx.grpConsumes, Bool.and_eq_true] at hg
    rw [Spec] at h
    rcases h with h | h
    · exact iha _ _ _ _ h hg.1 hi hc
    · exact ihb _ _ _ _ h hg.2 hi hc
  | rep r mn mx g ih =>
    simp only [Rx.grpConsumes] at hg
    rw [Spec] at h
    obtain ⟨cnt, _, _, hit⟩ := h
    exact iter_capOk (fun i c j c' hs hi hc => ih i c j c' hs hg hi hc) hit hi hc
  | grp k r ih =>
    simp only [Rx.grpConsumes, Bool.and_eq_true, Bool.or_eq_true, bne_iff_ne, ne_eq, decide_eq_true_eq] at hg
    rw [Spec] at h
    obtain ⟨c0, h1, hc'⟩ := h
    have h0 := ih _ _ _ _ h1 hg.1 hi hc
    subst hc'
    intro a b hab
    simp only [Caps.get, List.lookup] at hab
    split at hab
    · rename_i heq
      have hk : k = idx := by have := heq; simp at this; exact this.symm
      cases hab
      rcases hg.2 with hne | hml
      · exact absurd hk hne
      · exact ⟨nonempty_of_minLen _ _ _ _ _ _ h1 hml, (spec_bounds _ _ _ _ _ _ h1 hi).2⟩
    · exact h0 a b hab
  | backref k => simp only [Spec] at h; obtain ⟨a, b, _, _, _, _, hcc⟩ := h; rw [hcc]; exact hc
  | look ahead neg w r ih =>
    simp only [Rx.grpConsumes] at hg
    cases ahead <;> cases neg <;> simp only [Spec] at h
    · exact ih _ _ _ _ h.2.2 hg (by omega) hc
    · rw [h.2]; exact hc
    · obtain ⟨_, e, he⟩ := h; exact ih _ _ _ _ he hg hi hc
    · rw [h.2]; exact hc
  | bos => simp only [Spec] at h; rw [h.2.2]; exact hc
  | bol => simp only [Spec] at h; rw [h.2.2]; exact hc
  | eos => simp only [Spec] at h; rw [h.2.2]; exact hc
  | eol => simp only [Spec] at h; rw [h.2.2]; exact hc
  | eosStrict => simp only [Spec] at h; rw [h.2.2]; exact hc
  | wordb => simp only [Spec] at h; rw [h.2.2]; exact hc
  | nwordb => simp only [Spec] at h; rw [h.2.2]; exact hc

/-- a successful `pattern.match`: group `idx`, when it took part, captured a non-empty span inside the subject -/
theorem matchAt_capOk (x : RxCtx) (idx : Nat) (r : Rx) (pos : Nat) (m : RxMatch) (h : r.matchAt x pos = some m)
    (hg : r.grpConsumes idx = true) (hpos : pos ≤ x.n) : CapOk x idx m.caps := by
  obtain ⟨_, hs⟩ := matchAt_sound x r pos m h
  exact grpConsumes_sound x idx r pos [] m.stop m.caps hs hg hpos (fun a b hab => by cases hab)


/-! ### a group that takes part in every match -/

/-- group `idx` is set by every match (it lies on every path through the regex) -/
def Rx.grpAlways (idx : Nat) : Rx → Bool
  | .seq a b => a.grpAlways idx || b.grpAlways idx
  | .alt a b => a.grpAlways idx && b.grpAlways idx
  | .rep r mn _ _ => decide (1 ≤ mn) && r.grpAlways idx
  | .grp i r => i == idx || r.grpAlways idx
  | _ => false

theorem get_cons_isSome (k idx : Nat) (sp : Nat × Nat) (c0 : Caps) (h : (Caps.get c0 idx).isSome = true) :
    (Caps.get ((k, sp) :: c0) idx).isSome = true := by
  simp only [Caps.get, List.lookup]
  split
  · rfl
  · exact h

theorem iter_persist {x : RxCtx} {r : Rx} {idx : Nat}
    (ih : ∀ (i : Nat) (c : Caps) (j : Nat) (c' : Caps), Spec x r i c j c' →
      (c.get idx).isSome = true → (c'.get idx).isSome = true)
    {cnt i : Nat} {c : Caps} {j : Nat} {c' : Caps} (h : Iter (Spec x r) cnt i c j c') :
    (c.get idx).isSome = true → (c'.get idx).isSome = true := by
  induction h with
  | zero i c => exact fun hc => hc
  | succ hs _ ih2 => exact fun hc => ih2 (ih _ _ _ _ hs hc)

/-- captures persist: a set group stays set -/
theorem spec_persist (x : RxCtx) (idx : Nat) (r : Rx) (i : Nat) (c : Caps) (j : Nat) (c' : Caps)
    (h : Spec x r i c j c') (hc : (c.get idx).isSome = true) : (c'.get idx).isSome = true := by
  induction r generalizing i c j c' with
  | eps => simp only [Spec] at h; rw [h.2]; exact hc
  | fail => simp only [Spec] at h
  | cls neg items => simp only [Spec] at h; rw [h.2.2.2]; exact hc
  | any dotall => simp only [Spec] at h; rw [h.2.2.2]; exact hc
  | seq a b iha ihb =>
    rw [Spec] at h
    obtain ⟨m, cm, h1, h2⟩ := h
    exact ihb _ _ _ _ h2 (iha _ _ _ _ h1 hc)
  | alt a b iha ihb =>
    rw [Spec] at h
    rcases h with h | h
    · exact iha _ _ _ _ h hc
    · exact ihb _ _ _ _ h hc
  | rep r mn mx g ih =>
    rw [Spec] at h
    obtain ⟨cnt, _, _, hit⟩ := h
    exact iter_persist ih hit hc
  | grp k r ih =>
    rw [Spec] at h
    obtain ⟨c0, h1, hc'⟩ := h
    subst hc'
    exact get_cons_isSome _ _ _ _ (ih _ _ _ _ h1 hc)
  | backref k => simp only [Spec] at h; obtain ⟨a, b, _, _, _, _, hcc⟩ := h; rw [hcc]; exact hc
  | look ahead neg w r ih =>
    cases ahead <;> cases neg <;> simp only [Spec] at h
    · exact ih _ _ _ _ h.2.2 hc
    · rw [h.2]; exact hc
    · obtain ⟨_, e, he⟩ := h; exact ih _ _ _ _ he hc
    · rw [h.2]; exact hc
  | bos => simp only [Spec] at h; rw [h.2.2]; exact hc
  | bol => simp only [Spec] at h; rw [h.2.2]; exact hc
  | eos => simp only [Spec] at h; rw [h.2.2]; exact hc
  | eol => simp only [Spec] at h; rw [h.2.2]; exact hc
  | eosStrict => simp only [Spec] at h; rw [h.2.2]; exact hc
  | wordb => simp only [Spec] at h; rw [h.2.2]; exact hc
  | nwordb => simp only [Spec] at h; rw [h.2.2]; exact hc

theorem grpAlways_sound (x : RxCtx) (idx : Nat) (r : Rx) (i : Nat) (c : Caps) (j : Nat) (c' : Caps)
    (h : Spec x r i c j c') (hg : r.grpAlways idx = true) : (c'.get idx).isSome = true := by
  induction r generalizing i c j c' with
  | seq a b iha ihb =>
    simp only [Rx.grpAlways, Bool.or_eq_true] at hg
    rw [Spec] at h
    obtain ⟨m, cm, h1, h2⟩ := h
    rcases hg with hg | hg
    · exact spec_persist _ _ _ _ _ _ _ h2 (iha _ _ _ _ h1 hg)
    · exact ihb _ _ _ _ h2 hg
  | alt a b iha ihb =>
    simp only [Rx.grpAlways, Bool.and_eq_true] at hg
    rw [Spec] at h
    rcases h with h | h
    · exact iha _ _ _ _ h hg.1
    · exact ihb _ _ _ _ h hg.2
  | rep r mn mx g ih =>
    simp only [Rx.grpAlways, Bool.and_eq_true, decide_eq_true_eq] at hg
    rw [Spec] at h
    obtain ⟨cnt, hcnt, _, hit⟩ := h
    cases hit with
    | zero => omega
    | succ hs hrest =>
      have h1 := ih _ _ _ _ hs hg.2
      exact iter_persist (fun i c j c' hs' => spec_persist x idx r i c j c' hs') hrest h1
  | grp k r ih =>
    simp only [Rx.grpAlways, Bool.or_eq_true, beq_iff_eq] at hg
    rw [Spec] at h
    obtain ⟨c0, h1, hc'⟩ := h
    subst hc'
    rcases hg with hg | hg
    · subst hg
      simp [Caps.get, List.lookup]
    · exact get_cons_isSome _ _ _ _ (ih _ _ _ _ h1 hg)
  | _ => simp [Rx.grpAlways] at hg


/-! ### the key of an abbreviation definition -/

namespace Model
open Mistune.Generated

/-- in every match of `r` (from a position inside a well-formed subject) the text of the named group is non-empty -/
theorem groupNamed_nonempty (cfg : MdCfg) (name : String) (idx : Nat) (hidx : cfg.groups.lookup name = some idx)
    (hne : idx ≠ 0) (r : Rx) (hc : r.grpConsumes idx = true) (ha : r.grpAlways idx = true)
    (x : RxCtx) (pos : Nat) (m : RxMatch) (hm : r.matchAt x pos = some m) (hpos : pos ≤ x.n)
    (hn : x.n ≤ x.s.size) : groupNamed cfg x.s m name ≠ [] := by
  obtain ⟨_, hs⟩ := matchAt_sound x r pos m hm
  have hsome := grpAlways_sound x idx r pos [] m.stop m.caps hs ha
  have hcap := matchAt_capOk x idx r pos m hm hc hpos
  cases hg : m.caps.get idx with
  | none => rw [hg] at hsome; cases hsome
  | some ab =>
    obtain ⟨a, b⟩ := ab
    obtain ⟨hab, hb⟩ := hcap a b hg
    have hi0 : (idx == 0) = false := by simpa using hne
    unfold groupNamed
    rw [hidx]
    simp only [Py.groupStr, RxMatch.group, hi0, Bool.false_eq_true, if_false, hg, Option.map_some, Option.getD_some,
      Py.slice]
    intro hnil
    have hlen : ((x.s.extract a b).toList).length = 0 := by rw [hnil]; rfl
    simp only [Array.length_toList, Array.size_extract] at hlen
    omega

/-- **the decidable obligation on the rule `ref_abbr`**: where the rule is registered, its group `abbr_key` lies on
every path of the regex and consumes at least one character -/
def abbrRuleOk (cfg : MdCfg) : Bool :=
  match cfg.blockSpec.lookup "ref_abbr" with
  | none => true
  | some r =>
    match cfg.groups.lookup "abbr_key" with
    | none => false
    | some idx => idx != 0 && r.grpConsumes idx && r.grpAlways idx

theorem allCfgs_abbrRuleOk : allCfgs.all (fun c => abbrRuleOk (ofRuleCfg c)) = true := by decide +kernel

/-- every genuine match of the regenerated `ref_abbr` rule has a non-empty `abbr_key` -/
theorem abbrKey_nonempty (cfg : MdCfg) (hok : abbrRuleOk cfg = true) (r : Rx)
    (hr : cfg.blockSpec.lookup "ref_abbr" = some r) (x : RxCtx) (pos : Nat) (m : RxMatch)
    (hm : r.matchAt x pos = some m) (hpos : pos ≤ x.n) (hn : x.n ≤ x.s.size) :
    groupNamed cfg x.s m "abbr_key" ≠ [] := by
  unfold abbrRuleOk at hok
  rw [hr] at hok
  dsimp only at hok
  cases hi : cfg.groups.lookup "abbr_key" with
  | none => rw [hi] at hok; cases hok
  | some idx =>
    rw [hi] at hok
    simp only [Bool.and_eq_true, bne_iff_ne, ne_eq] at hok
    exact groupNamed_nonempty cfg _ idx hi hok.1.1 r hok.1.2 hok.2 x pos m hm hpos hn

end Model
end Mistune
