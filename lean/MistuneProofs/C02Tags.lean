/-
C02 — tag structure: the rendered HTML is *well tagged* (every `<`, `>`, `"` delimits a tag or a quoted attribute
value, or sits inside such a value).  Together with `render_safe` (no document character is `<`, `>`, `"`) this is
"input text appears only as escaped character data or inside properly quoted attribute values": the delimiters
all come from template literals, and they pair up.

One hypothesis is explicit here: `StripAgrees` — on well-tagged strings the regenerated
`_striptags_re` removes exactly what the scanner calls tags (the image template puts the tag-stripped rendering of
its children into the `alt` attribute).  It was first only TESTED; it is now PROVED in `MistuneProofs/C02Strip.lean`
(`stripAgrees_generated`), which also holds the hypothesis-free corollaries (`render_tagged_closed`, …; they cannot
stand here: C02Strip imports this file for the definition of `StripAgrees`).

FOUND WHILE PROVING: the tree theorem `renderTok_tagged` is FALSE for an arbitrary `TagTable` as first stated (four
kernel-checked counterexamples in the section "counterexamples" below); it holds, and is proved here, with two more
decidable table hypotheses (`Nodup` of the type names and `TagTable.wf`), both kernel-decided for the working tree, so
`render_tagged` is proved exactly as stated.
-/
import Mistune.TmplTags
import Mistune.Generated.Templates
import MistuneProofs.C02Tmpl
namespace Mistune
open Mistune.Generated

/-- on well-tagged strings, `striptags` is the scanner's projection on character data -/
def StripAgrees (re : Rx) : Prop := ∀ t : TStr, WellTagged t.erase → tStriptags re t = tsStripT .text t

/-- every character is document data (argument values are; rendered children are not) -/
def TStr.AllData (t : TStr) : Prop := ∀ p ∈ t, p.2 = true

theorem tsRun_append (st : TS) (a b : Str) :
    tsRun st (a ++ b) = (tsRun st a).bind (fun s => tsRun s b) := by
  induction a generalizing st with
  | nil => simp [tsRun]
  | cons c cs ih =>
    simp only [List.cons_append, tsRun]
    cases tsStep st c with
    | none => simp
    | some s => exact ih s

theorem tsStep_text_of_plain3 (c : Char) (h : plain3 c = true) : tsStep .text c = some .text := by
  simp only [plain3, Bool.and_eq_true, bne_iff_ne, ne_eq] at h
  simp [tsStep, h]

theorem plain3_of_tsStep_text (c : Char) (h : tsStep .text c = some .text) : plain3 c = true := by
  simp only [tsStep] at h
  simp only [plain3, Bool.and_eq_true, bne_iff_ne, ne_eq]
  split at h
  · cases h
  · split at h
    · cases h
    · rename_i h1 h2
      simp at h1 h2
      exact ⟨⟨h1, h2.1⟩, h2.2⟩

theorem tsStep_dq_of_plain3 (c : Char) (h : plain3 c = true) : tsStep .dq c = some .dq := by
  simp only [plain3, Bool.and_eq_true, bne_iff_ne, ne_eq] at h
  simp [tsStep, h]

theorem tsStep_tag_of_plainC (c : Char) (h : plainC c = true) : tsStep .tag c = some .tag := by
  simp only [plainC, Bool.and_eq_true, bne_iff_ne, ne_eq] at h
  simp [tsStep, h]

theorem plain3_of_plainC (c : Char) (h : plainC c = true) : plain3 c = true := by
  simp only [plainC, Bool.and_eq_true] at h
  simp only [plain3, Bool.and_eq_true]
  exact h.1

theorem tsRun_stable (st : TS) (s : Str) (h : ∀ c ∈ s, tsStep st c = some st) : tsRun st s = some st := by
  induction s with
  | nil => rfl
  | cons c cs ih =>
    simp only [tsRun, h c List.mem_cons_self]
    exact ih (fun d hd => h d (List.mem_cons_of_mem _ hd))

theorem tsStripT_plain (st : TS) (t : TStr) : ∀ p ∈ tsStripT st t, plain3 p.1 = true := by
  induction t generalizing st with
  | nil => intro p hp; simp [tsStripT] at hp
  | cons q qs ih =>
    intro p hp
    unfold tsStripT at hp
    split at hp
    · rename_i st' hst
      split at hp
      · rename_i hc
        simp only [Bool.and_eq_true, beq_iff_eq] at hc
        rcases List.mem_cons.1 hp with rfl | hp
        · rw [hc.1, hc.2] at hst
          exact plain3_of_tsStep_text _ hst
        · exact ih _ p hp
      · exact ih _ p hp
    · cases hp

theorem plain_run_text (s : Str) (h : ∀ c ∈ s, plain3 c = true) : tsRun .text s = some .text :=
  tsRun_stable _ _ (fun c hc => tsStep_text_of_plain3 c (h c hc))

theorem plain_run_dq (s : Str) (h : ∀ c ∈ s, plain3 c = true) : tsRun .dq s = some .dq :=
  tsRun_stable _ _ (fun c hc => tsStep_dq_of_plain3 c (h c hc))


/-! ### strings with none of `<`, `>`, `"` (whatever the flags) -/

def TStr.Plain (t : TStr) : Prop := ∀ p ∈ t, plain3 p.1 = true

theorem TStr.Plain.erase {t : TStr} (h : t.Plain) : ∀ c ∈ t.erase, plain3 c = true := by
  intro c hc
  simp only [TStr.erase, List.mem_map] at hc
  obtain ⟨p, hp, rfl⟩ := hc
  exact h p hp

theorem TStr.Plain.nil : TStr.Plain [] := by intro p hp; cases hp

theorem TStr.Plain.append {a b : TStr} (ha : a.Plain) (hb : b.Plain) : (a ++ b).Plain := by
  intro p hp
  rcases List.mem_append.1 hp with h | h
  · exact ha p h
  · exact hb p h

theorem TStr.Plain.of_subset {a b : TStr} (hb : b.Plain) (h : ∀ p ∈ a, p ∈ b) : a.Plain :=
  fun p hp => hb p (h p hp)

theorem TStr.Plain.of_sublist {a b : TStr} (hb : b.Plain) (h : a.Sublist b) : a.Plain :=
  hb.of_subset (fun _ hp => h.subset hp)

theorem plain3_iff (c : Char) : plain3 c = true ↔ c ≠ '<' ∧ c ≠ '>' ∧ c ≠ '"' := by
  simp [plain3, and_assoc]

theorem TStr.ofData_plain (s : Str) (h : ∀ c ∈ s, c ≠ '<' ∧ c ≠ '>' ∧ c ≠ '"') : (TStr.ofData s).Plain := by
  intro p hp
  simp [TStr.ofData] at hp
  obtain ⟨c, hc, rfl⟩ := hp
  exact (plain3_iff c).2 (h c hc)

/-- a safe all-data string has none of `<`, `>`, `"` -/
theorem safe_allData_Plain (t : TStr) (hd : t.AllData) (hs : t.Safe) : t.Plain :=
  fun p hp => (plain3_iff _).2 (hs p hp (hd p hp))

theorem safe_allData_plain (t : TStr) (hd : t.AllData) (hs : t.Safe) : ∀ c ∈ t.erase, plain3 c = true :=
  (safe_allData_Plain t hd hs).erase

theorem tEscape_true_plain (t : TStr) : (tEscape true t).Plain := by
  intro p hp
  simp only [tEscape, List.mem_flatMap, List.mem_map] at hp
  obtain ⟨q, _, c, hc, rfl⟩ := hp
  have := escChar_no_special true q.1 c hc
  exact (plain3_iff c).2 ⟨this.1, this.2.1, this.2.2 rfl⟩

theorem tEscape_plain_preserves (q : Bool) (t : TStr) (h : t.Plain) : (tEscape q t).Plain := by
  intro p hp
  simp only [tEscape, List.mem_flatMap, List.mem_map] at hp
  obtain ⟨r, hr, c, hc, rfl⟩ := hp
  have hs := (plain3_iff _).1 (h r hr)
  have := escChar_no_special q r.1 c hc
  refine (plain3_iff c).2 ⟨this.1, this.2.1, ?_⟩
  intro hcq
  subst hcq
  unfold escChar at hc
  split at hc
  · simp at hc
  split at hc
  · simp at hc
  split at hc
  · simp at hc
  split at hc
  · simp at hc
  · simp at hc; exact hs.2.2 hc.symm

theorem applyOp_escaper_plain (env : TEnv) (op : TOp) (t : TStr) (h : isEscaper op = true) : (applyOp env op t).Plain := by
  cases op <;> simp [isEscaper] at h
  · exact tEscape_true_plain t
  · exact TStr.ofData_plain _ (escape_mem_no_specials _)
  · exact TStr.ofData_plain _ (safeUrlStr_no_specials _ _ _)

theorem applyOp_plain_preserves (env : TEnv) (op : TOp) (t : TStr) (h : t.Plain) : (applyOp env op t).Plain := by
  cases op
  · exact tEscape_true_plain t
  · exact tEscape_plain_preserves false t h
  · exact TStr.ofData_plain _ (escape_mem_no_specials _)
  · exact TStr.ofData_plain _ (safeUrlStr_no_specials _ _ _)
  · exact h.of_subset (mem_deleteSpans _ _ _)
  · exact h
  · refine h.of_sublist ?_
    show (tStrip t).Sublist t
    unfold tStrip
    have h1 : ((t.dropWhile (fun p => isSpace p.1)).reverse.dropWhile (fun p => isSpace p.1)).Sublist
        (t.dropWhile (fun p => isSpace p.1)).reverse := List.dropWhile_sublist _
    have h2 := List.reverse_sublist.2 h1
    rw [List.reverse_reverse] at h2
    exact h2.trans (List.dropWhile_sublist _)
  · refine h.of_sublist ?_
    show (tRstrip t).Sublist t
    unfold tRstrip
    have h1 : (t.reverse.dropWhile (fun p => isSpace p.1)).Sublist t.reverse := List.dropWhile_sublist _
    have h2 := List.reverse_sublist.2 h1
    rw [List.reverse_reverse] at h2
    exact h2
  · refine h.of_sublist ?_
    exact (List.takeWhile_sublist _).trans (List.dropWhile_sublist _)
  · refine h.of_sublist ?_
    exact List.take_sublist _ _

theorem applyOps_Plain (env : TEnv) (ops : List TOp) (t : TStr) (h : hasEscaper ops = true ∨ t.Plain) :
    (applyOps env ops t).Plain := by
  induction ops generalizing t with
  | nil =>
    rcases h with h | h
    · simp [hasEscaper] at h
    · exact h
  | cons op ops ih =>
    simp only [applyOps, List.foldl_cons]
    apply ih
    rcases h with h | h
    · simp only [hasEscaper, List.any_cons, Bool.or_eq_true] at h
      rcases h with h | h
      · exact Or.inr (applyOp_escaper_plain env op t h)
      · exact Or.inl h
    · exact Or.inr (applyOp_plain_preserves env op t h)

/-- whatever goes in, an operation chain that contains an escaper yields none of `<`, `>`, `"` -/
theorem applyOps_escaper_plain (env : TEnv) (ops : List TOp) (t : TStr) (h : hasEscaper ops = true) :
    ∀ c ∈ (applyOps env ops t).erase, plain3 c = true :=
  (applyOps_Plain env ops t (Or.inl h)).erase

theorem applyOps_all_str (env : TEnv) (ops : List TOp) (t : TStr) (h : ops.all (fun o => o == .str) = true) :
    applyOps env ops t = t := by
  induction ops generalizing t with
  | nil => rfl
  | cons op ops ih =>
    simp only [List.all_cons, Bool.and_eq_true, beq_iff_eq] at h
    simp only [applyOps, List.foldl_cons]
    rw [h.1]
    exact ih _ h.2

/-- digits and `-` are harmless inside a tag -/
theorem int_chars_plainC (n : Int) : ∀ c ∈ (toString n).toList, plainC c = true := by
  have hd : ∀ (m : Nat) c, c ∈ m.repr.toList → plainC c = true := by
    intro m c hc
    rw [Nat.toList_repr] at hc
    have := Nat.isDigit_of_mem_toDigits (by decide) (by decide) hc
    simp only [plainC, Bool.and_eq_true, bne_iff_ne, ne_eq]
    refine ⟨⟨⟨?_, ?_⟩, ?_⟩, ?_⟩ <;> rintro rfl <;> simp at this
  intro c hc
  rw [Int.toString_eq_repr, Int.repr_eq_if] at hc
  split at hc
  · exact hd _ c hc
  · simp only [String.toList_append, List.mem_append] at hc
    rcases hc with hc | hc
    · revert c; decide
    · exact hd _ c hc

theorem int_run (st : TS) (n : Int) (h : st = .text ∨ st = .dq ∨ st = .tag) :
    tsRun st (toString n).toList = some st := by
  apply tsRun_stable
  intro c hc
  have hp := int_chars_plainC n c hc
  rcases h with rfl | rfl | rfl
  · exact tsStep_text_of_plain3 c (plain3_of_plainC c hp)
  · exact tsStep_dq_of_plain3 c (plain3_of_plainC c hp)
  · exact tsStep_tag_of_plainC c hp


/-! ### environments -/

/-- the items of a table-of-contents value have none of `<`, `>`, `"` -/
def TocSafe (env : TEnv) (n : String) : Prop :=
  ∀ items, env.get n = .toc items → ∀ it ∈ items, it.2.1.Safe ∧ it.2.2.Safe

/-- what the environment of one token must satisfy (everything except the safety of table-of-contents items, which
`tagRunPieces` does not ask about: see `TocSafe`, `tocNames`, counterexample 1).  Compared with the first draft: `ints` is
guarded like `allData` / `safe` (for a container, `$text` is the rendered children even when listed in `intArgs`). -/
structure EnvCore (info : TagInfo) (env : TEnv) : Prop where
  esc : env.escapeFlag = true
  strip : StripAgrees env.striptagsRe
  /-- `$text` of a container is well tagged (induction hypothesis of the tree theorem) -/
  children : info.textIsChildren = true → WellTagged (env.get "$text").toTStr.erase
  /-- every other value is all-data, and safe unless listed as arbitrary data -/
  allData : ∀ n, (n = "$text" → info.textIsChildren = false) → (env.get n).toTStr.AllData
  safe : ∀ n, (n = "$text" → info.textIsChildren = false) → info.dataArgs.contains n = false → (env.get n).Safe
  ints : ∀ n, (n = "$text" → info.textIsChildren = false) → info.intArgs.contains n = true →
    (∃ k, env.get n = .int k) ∨ env.get n = .none
  tocs : ∀ n items, env.get n = .toc items → ∀ it ∈ items, it.2.1.AllData ∧ it.2.2.AllData

/-- `EnvCore` plus: every table-of-contents value is safe, whatever its name (needed because the checker accepts any `.toc n`) -/
structure EnvTagged (info : TagInfo) (env : TEnv) : Prop extends EnvCore info env where
  tocSafe : ∀ n, TocSafe env n

theorem TStr.erase_append (a b : TStr) : (a ++ b).erase = a.erase ++ b.erase := by
  simp [TStr.erase]

theorem TStr.erase_ofLit (s : Str) : (TStr.ofLit s).erase = s := by
  simp [TStr.erase, TStr.ofLit, Function.comp_def]

theorem tsRun_seq {st st1 st2 : TS} {a b : Str} (h1 : tsRun st a = some st1) (h2 : tsRun st1 b = some st2) :
    tsRun st (a ++ b) = some st2 := by
  rw [tsRun_append, h1]; exact h2

theorem plain_run {st : TS} (hst : st = .text ∨ st = .dq) (t : TStr) (h : t.Plain) : tsRun st t.erase = some st := by
  rcases hst with rfl | rfl
  · exact plain_run_text _ h.erase
  · exact plain_run_dq _ h.erase

theorem tocAnchorT_run (id text : TStr) (h1 : id.Plain) (h2 : text.Plain) :
    tsRun .text (tocAnchorT id text).erase = some .text := by
  unfold tocAnchorT
  simp only [TStr.erase_append, TStr.erase_ofLit]
  have e1 : tsRun .text "<a href=\"#".toList = some .dq := by decide
  have e2 : tsRun .dq "\">".toList = some .text := by decide
  have e3 : tsRun .text "</a>".toList = some .text := by decide
  exact tsRun_seq (tsRun_seq (tsRun_seq (tsRun_seq e1 (plain_run (Or.inr rfl) _ h1)) e2) (plain_run (Or.inl rfl) _ h2)) e3

theorem flatMap_run {α : Type} (l : List α) (f : α → TStr) (h : ∀ x ∈ l, tsRun .text (f x).erase = some .text) :
    tsRun .text (TStr.erase (l.flatMap f)) = some .text := by
  induction l with
  | nil => rfl
  | cons x xs ih =>
    simp only [List.flatMap_cons, TStr.erase_append]
    exact tsRun_seq (h x List.mem_cons_self) (ih (fun y hy => h y (List.mem_cons_of_mem _ hy)))

theorem evalPiece_run_step (env : TEnv) (p : TPiece) (rest : List TPiece) {st st1 st' : TS}
    (h1 : tsRun st (evalPiece env p).erase = some st1) (h2 : tsRun st1 (evalPieces env rest).erase = some st') :
    tsRun st (evalPieces env (p :: rest)).erase = some st' := by
  simp only [evalPieces, TStr.erase_append]
  exact tsRun_seq h1 h2

/-- soundness of the checker on a piece list; the `.toc` pieces it meets must read safe values -/
theorem tagRunPieces_core (info : TagInfo) (env : TEnv) (h : EnvCore info env) :
    ∀ (e : List TPiece), (∀ n, TPiece.toc n ∈ e → TocSafe env n) →
      ∀ (st st' : TS), tagRunPieces info st e = some st' → tsRun st (evalPieces env e).erase = some st' := by
  intro e
  induction e with
  | nil =>
    intro _ st st' hr
    simp only [tagRunPieces, Option.some.injEq] at hr
    subst hr
    simp [evalPieces, TStr.erase, tsRun]
  | cons p rest ih =>
    intro htoc st st' hr
    have ih' := ih (fun n hn => htoc n (List.mem_cons_of_mem _ hn))
    cases p with
    | lit s =>
      simp only [tagRunPieces] at hr
      split at hr
      · rename_i st1 hs
        refine evalPiece_run_step env _ rest ?_ (ih' _ _ hr)
        simp only [evalPiece, TStr.erase_ofLit]
        exact hs
      · cases hr
    | arg n ops =>
      simp only [tagRunPieces] at hr
      split at hr
      · -- the rendered children
        rename_i hc
        simp only [Bool.and_eq_true, beq_iff_eq] at hc
        obtain ⟨hn, htc⟩ := hc
        subst hn
        have hw := h.children htc
        split at hr
        · rename_i hcase
          refine evalPiece_run_step env _ rest ?_ (ih' _ _ hr)
          simp only [evalPiece]
          simp only [Bool.or_eq_true, Bool.and_eq_true, beq_iff_eq] at hcase
          rcases hcase with ⟨ho, hst⟩ | ⟨ho, hst⟩
          · subst ho; subst hst
            exact hw
          · subst ho
            have : applyOps env [TOp.striptags] (env.get "$text").toTStr = tsStripT .text (env.get "$text").toTStr := by
              simp only [applyOps, List.foldl_cons, List.foldl_nil, applyOp]
              exact h.strip _ hw
            rw [this]
            exact plain_run hst _ (tsStripT_plain _ _)
        · cases hr
      · rename_i hc
        have hguard : n = "$text" → info.textIsChildren = false := by
          intro hn
          subst hn
          simpa using hc
        split at hr
        · -- an integer
          rename_i hint
          simp only [Bool.and_eq_true] at hint
          split at hr
          · rename_i hst
            simp only [Bool.or_eq_true, beq_iff_eq] at hst
            refine evalPiece_run_step env _ rest ?_ (ih' _ _ hr)
            simp only [evalPiece]
            rw [applyOps_all_str env ops _ hint.2]
            rcases h.ints n hguard hint.1 with ⟨k, hk⟩ | hk
            · rw [hk]
              simp only [TVal.toTStr, TStr.erase, TStr.ofData, List.map_map, Function.comp_def, List.map_id']
              exact int_run st k (by rcases hst with (h | h) | h <;> simp [h])
            · rw [hk]; rfl
          · cases hr
        · split at hr
          · rename_i hcase
            simp only [Bool.and_eq_true, Bool.or_eq_true, Bool.not_eq_true', beq_iff_eq] at hcase
            refine evalPiece_run_step env _ rest ?_ (ih' _ _ hr)
            simp only [evalPiece]
            apply plain_run hcase.2
            apply applyOps_Plain
            rcases hcase.1 with hd | he
            · exact Or.inr (safe_allData_Plain _ (h.allData n hguard) (TVal.toTStr_safe _ (h.safe n hguard hd)))
            · exact Or.inl he
          · cases hr
    | sub ops e =>
      simp only [tagRunPieces] at hr
      split at hr
      · rename_i hcase
        simp only [Bool.and_eq_true, Bool.or_eq_true, beq_iff_eq] at hcase
        refine evalPiece_run_step env _ rest ?_ (ih' _ _ hr)
        simp only [evalPiece]
        exact plain_run hcase.2 _ (applyOps_Plain _ _ _ (Or.inl hcase.1))
      · cases hr
    | replaceFirst e pat b => simp [tagRunPieces] at hr
    | toc n =>
      simp only [tagRunPieces] at hr
      split at hr
      · rename_i hst
        simp only [beq_iff_eq] at hst
        subst hst
        refine evalPiece_run_step env _ rest ?_ (ih' _ _ hr)
        simp only [evalPiece]
        split
        · rename_i items heq
          apply flatMap_run
          intro it hit
          have hs := htoc n List.mem_cons_self items heq it hit
          have hd := h.tocs n items heq it hit
          exact tocAnchorT_run _ _ (safe_allData_Plain _ hd.1 hs.1) (safe_allData_Plain _ hd.2 hs.2)
        · rfl
      · cases hr

theorem tagRunPieces_sound (info : TagInfo) (env : TEnv) (h : EnvTagged info env) :
    ∀ (e : List TPiece) (st st' : TS), tagRunPieces info st e = some st' → tsRun st (evalPieces env e).erase = some st' :=
  fun e => tagRunPieces_core info env h.toEnvCore e (fun n _ => h.tocSafe n)


/-! ### templates -/

/-- names of the table-of-contents pieces a template can evaluate -/
def tocNamesP (e : List TPiece) : List String :=
  e.filterMap (fun p => match p with | .toc n => some n | _ => none)

def tocNames : Tmpl → List String
  | .seq e => tocNamesP e
  | .ite _ t e => tocNames t ++ tocNames e
  | .opaque => []

theorem mem_tocNamesP (e : List TPiece) (n : String) (h : TPiece.toc n ∈ e) : n ∈ tocNamesP e :=
  List.mem_filterMap.2 ⟨_, h, rfl⟩

theorem EnvCore.filter {info : TagInfo} {env : TEnv} {n : String} (h : EnvCore info env)
    (hn : (env.get n).Safe) : EnvCore { info with dataArgs := info.dataArgs.filter (· != n) } env where
  esc := h.esc
  strip := h.strip
  children := h.children
  allData := h.allData
  ints := h.ints
  tocs := h.tocs
  safe := by
    intro m hg hm
    by_cases hmn : m = n
    · subst hmn; exact hn
    · apply h.safe m hg
      simp only [List.contains_eq_mem, decide_eq_false_iff_not, List.mem_filter, bne_iff_ne, ne_eq, not_and,
        Decidable.not_not] at hm ⊢
      intro hmem
      exact hmn (hm hmem)

theorem evalTmpl_tagged_core (info : TagInfo) (env : TEnv) (T : Tmpl) (h : EnvCore info env)
    (hok : tmplTagOk info T = true) (htoc : ∀ n ∈ tocNames T, TocSafe env n) :
    ∀ out, evalTmpl env T = some out → WellTagged out.erase := by
  fun_induction tmplTagOk info T with
  | case1 info e =>
    intro out ho
    simp only [evalTmpl, Option.some.injEq] at ho
    subst ho
    simp only [beq_iff_eq] at hok
    exact tagRunPieces_core info env h e (fun n hn => htoc n (mem_tocNamesP e n hn)) _ _ hok
  | case2 info t e ih =>
    intro out ho
    have hc : evalCond env .flagEscape = true := by simp only [evalCond, h.esc]
    simp only [evalTmpl] at ho
    rw [if_pos hc] at ho
    exact ih h hok (fun n hn => htoc n (by simp [tocNames, hn])) out ho
  | case3 info t e ih =>
    intro out ho
    have hc : ¬ evalCond env (.not .flagEscape) = true := by simp [evalCond, h.esc]
    simp only [evalTmpl] at ho
    rw [if_neg hc] at ho
    exact ih h hok (fun n hn => htoc n (by simp [tocNames, hn])) out ho
  | case4 info n t e ih1 ih2 =>
    intro out ho
    simp only [Bool.and_eq_true] at hok
    simp only [evalTmpl] at ho
    by_cases hc : evalCond env (.isDigit n) = true
    · rw [if_pos hc] at ho
      simp only [evalCond] at hc
      exact ih1 (h.filter (isDigitStr_safe _ hc)) hok.1 (fun n hn => htoc n (by simp [tocNames, hn])) out ho
    · rw [if_neg hc] at ho
      exact ih2 h hok.2 (fun n hn => htoc n (by simp [tocNames, hn])) out ho
  | case5 info n t e ih1 ih2 =>
    intro out ho
    simp only [Bool.and_eq_true] at hok
    simp only [evalTmpl] at ho
    by_cases hc : evalCond env (.notNone n) = true
    · rw [if_pos hc] at ho
      exact ih1 h hok.1 (fun n hn => htoc n (by simp [tocNames, hn])) out ho
    · rw [if_neg hc] at ho
      refine ih2 (h.filter ?_) hok.2 (fun n hn => htoc n (by simp [tocNames, hn])) out ho
      simp only [evalCond] at hc
      cases heq : env.get n with
      | none => trivial
      | bool b => rw [heq] at hc; simp at hc
      | int b => rw [heq] at hc; simp at hc
      | str b => rw [heq] at hc; simp at hc
      | toc b => rw [heq] at hc; simp at hc
  | case6 info c t e _ _ _ _ ih1 ih2 =>
    intro out ho
    simp only [Bool.and_eq_true] at hok
    simp only [evalTmpl] at ho
    split at ho
    · exact ih1 h hok.1 (fun n hn => htoc n (by simp [tocNames, hn])) out ho
    · exact ih2 h hok.2 (fun n hn => htoc n (by simp [tocNames, hn])) out ho
  | case7 info => simp at hok

theorem evalTmpl_tagged (info : TagInfo) (env : TEnv) (T : Tmpl) (h : EnvTagged info env) (hok : tmplTagOk info T = true) :
    ∀ out, evalTmpl env T = some out → WellTagged out.erase :=
  evalTmpl_tagged_core info env T h.toEnvCore hok (fun n _ => h.tocSafe n)


/-! ### token trees -/

theorem TStr.ofData_allData (s : Str) : (TStr.ofData s).AllData := by
  intro p hp
  simp [TStr.ofData] at hp
  obtain ⟨c, _, rfl⟩ := hp
  rfl

theorem TStr.AllData.nil : TStr.AllData [] := by intro p hp; cases hp

theorem valOfJson_allData (j : Json) : (valOfJson j).toTStr.AllData := by
  cases j <;> simp only [valOfJson, TVal.toTStr]
  · exact TStr.AllData.nil
  · exact TStr.ofData_allData _
  · exact TStr.ofData_allData _
  · exact TStr.ofData_allData _
  · exact TStr.AllData.nil
  · exact TStr.AllData.nil

theorem valOfJson_toc (j : Json) (items : List (Int × TStr × TStr)) (h : valOfJson j = .toc items) :
    ∀ it ∈ items, it.2.1.AllData ∧ it.2.2.AllData := by
  cases j <;> simp only [valOfJson, reduceCtorEq, TVal.toc.injEq] at h
  subst h
  intro it hit
  obtain ⟨x, _, hx⟩ := List.mem_filterMap.1 hit
  split at hx
  · simp only [Option.some.injEq] at hx
    subst hx
    exact ⟨TStr.ofData_allData _, TStr.ofData_allData _⟩
  · cases hx

theorem attrVals_lookup (a : Json) (n : String) (v : TVal) (h : (attrVals a).lookup n = some v) :
    ∃ j, v = valOfJson j := by
  have hm := mem_of_lookup_eq_some n _ v h
  cases a <;> simp only [attrVals, List.not_mem_nil] at hm
  obtain ⟨p, _, hp⟩ := List.mem_map.1 hm
  simp only [Prod.mk.injEq] at hp
  exact ⟨p.2, hp.2.symm⟩

theorem lookup_of_mem_nodup {β : Type} (l : List (String × β)) (hnd : (l.map (·.1)).Nodup) (a : String) (b : β)
    (h : (a, b) ∈ l) : l.lookup a = some b := by
  induction l with
  | nil => cases h
  | cons p l ih =>
    obtain ⟨k, v⟩ := p
    simp only [List.map_cons, List.nodup_cons] at hnd
    simp only [List.lookup_cons]
    rcases List.mem_cons.1 h with heq | hm
    · simp only [Prod.mk.injEq] at heq
      rw [heq.1, heq.2]
      simp
    · have hne : a ≠ k := by
        rintro rfl
        exact hnd.1 (List.mem_map.2 ⟨_, hm, rfl⟩)
      have : (a == k) = false := by simpa using hne
      rw [this]
      exact ih hnd.2 hm

/-- what a keyword argument taken from `token["attrs"]` satisfies -/
structure ValOk (info : TagInfo) (n : String) (v : TVal) : Prop where
  allData : v.toTStr.AllData
  safe : info.dataArgs.contains n = false → v.Safe
  int : info.intArgs.contains n = true → (∃ k, v = .int k) ∨ v = .none
  toc : ∀ items, v = .toc items → ∀ it ∈ items, it.2.1.AllData ∧ it.2.2.AllData

theorem ValOk.none (info : TagInfo) (n : String) : ValOk info n .none where
  allData := TStr.AllData.nil
  safe := fun _ => trivial
  int := fun _ => Or.inr rfl
  toc := by intro items h; cases h

theorem attrs_valOk (info : TagInfo) (a : Json)
    (hs : (attrVals a).all (fun p => info.dataArgs.contains p.1 || p.2.safeB) = true)
    (hi : (attrVals a).all (fun p =>
      if info.intArgs.contains p.1 then (match p.2 with | .int _ => true | .none => true | _ => false) else true) = true) :
    ∀ n, ValOk info n (((attrVals a).lookup n).getD .none) := by
  intro n
  cases hl : (attrVals a).lookup n with
  | none => exact ValOk.none info n
  | some v =>
    simp only [Option.getD_some]
    obtain ⟨j, rfl⟩ := attrVals_lookup a n v hl
    have hm := mem_of_lookup_eq_some n _ _ hl
    refine ⟨valOfJson_allData j, ?_, ?_, valOfJson_toc j⟩
    · intro hd
      have := attrs_lookup_safe _ _ hs n hd
      rw [hl] at this
      exact this
    · intro hint
      have := List.all_eq_true.1 hi _ hm
      simp only [hint, if_true] at this
      cases hv : valOfJson j with
      | none => exact Or.inr rfl
      | int k => exact Or.inl ⟨k, rfl⟩
      | bool b => rw [hv] at this; cases this
      | str b => rw [hv] at this; cases this
      | toc b => rw [hv] at this; cases this

theorem EnvCore.of_valOk (info : TagInfo) (env : TEnv) (esc : env.escapeFlag = true) (strip : StripAgrees env.striptagsRe)
    (children : info.textIsChildren = true → WellTagged (env.get "$text").toTStr.erase)
    (hv : ∀ n, (n = "$text" → info.textIsChildren = false) → ValOk info n (env.get n))
    (htoc : ∀ n items, env.get n = .toc items → ∀ it ∈ items, it.2.1.AllData ∧ it.2.2.AllData) : EnvCore info env where
  esc := esc
  strip := strip
  children := children
  allData := fun n hg => (hv n hg).allData
  safe := fun n hg => (hv n hg).safe
  ints := fun n hg => (hv n hg).int
  tocs := htoc

theorem WellTagged.nil : WellTagged [] := rfl

theorem WellTagged.flatMap {α : Type} (l : List α) (f : α → TStr) (h : ∀ x ∈ l, WellTagged (f x).erase) :
    WellTagged (TStr.erase (l.flatMap f)) := flatMap_run l f h

/-- what the table must satisfy besides the per-template check (found while proving: without these the tree theorem
fails): no table-of-contents piece reads a data argument; `$text` is not an integer argument of a raw type; `$text` is a data
argument of raw types only -/
def TagTable.wf (tt : TagTable) : Bool :=
  tt.tbl.tmpls.all (fun p =>
    (tocNames p.2).all (fun n => !(tt.tbl.dataArgsOf p.1).contains n) &&
    (!tt.tbl.rawTypes.contains p.1 || !((tt.intArgs.lookup p.1).getD []).contains "$text") &&
    (tt.tbl.rawTypes.contains p.1 || !(tt.tbl.dataArgsOf p.1).contains "$text"))

theorem get_cons_text (x : TStr) (attrs : List (String × TVal)) (n : String) :
    (((("$text", TVal.str x) :: attrs).lookup n).getD .none) =
      if n = "$text" then TVal.str x else (attrs.lookup n).getD .none := by
  simp only [List.lookup_cons]
  by_cases h : n = "$text"
  · subst h; simp
  · have : (n == "$text") = false := by simpa using h
    rw [this]; simp [h]

/-- **Tree theorem**: for every token tree that meets the decidable hypotheses (`refinedOk`, `tagTreeOk`), at every depth,
the rendering is well tagged.  `hnd` and `hwf` are decidable conditions on the table that the first statement lacked
(it is false without them: section "counterexamples"). -/
theorem renderTok_tagged (tt : TagTable) (mk : List (String × TVal) → TEnv)
    (hmk : ∀ args, (mk args).escapeFlag = true ∧ (mk args).args = args)
    (hstrip : ∀ args, StripAgrees (mk args).striptagsRe)
    (hnd : (tt.tbl.tmpls.map (·.1)).Nodup) (hwf : tt.wf = true) :
    ∀ fuel t, refinedOk tt.tbl fuel t = true → tagTreeOk tt fuel t = true →
      WellTagged (renderTok tt.tbl mk fuel t).erase := by
  intro fuel
  induction fuel with
  | zero => intro t h; simp [refinedOk] at h
  | succ fuel ih =>
    intro t h1 h2
    simp only [refinedOk, Bool.and_eq_true, Bool.or_eq_true, Bool.not_eq_true'] at h1
    obtain ⟨⟨⟨_, hraw⟩, hattrs⟩, hch⟩ := h1
    simp only [tagTreeOk, Bool.and_eq_true] at h2
    obtain ⟨⟨hokT, hints⟩, hch2⟩ := h2
    unfold renderTok
    simp only
    cases hT : tt.tbl.tmpls.lookup t.type with
    | none => exact WellTagged.nil
    | some T =>
      simp only
      have hmem := mem_of_lookup_eq_some _ _ T hT
      -- the template passes the tag check
      have hTok : tmplTagOk (tt.infoOf t.type) T = true := by
        simp only [TagTable.okTypes, List.contains_eq_mem, decide_eq_true_eq, List.mem_map, List.mem_filter] at hokT
        obtain ⟨p, ⟨hp, hpok⟩, hpt⟩ := hokT
        obtain ⟨k, T'⟩ := p
        simp only at hpt hpok
        subst hpt
        have := lookup_of_mem_nodup _ hnd _ _ hp
        rw [hT] at this
        simp only [Option.some.injEq] at this
        subst this
        exact hpok
      -- the table conditions for this type
      have hw := List.all_eq_true.1 hwf _ hmem
      simp only [Bool.and_eq_true, Bool.or_eq_true, Bool.not_eq_true', List.all_eq_true] at hw
      obtain ⟨⟨hwtoc, hwint⟩, hwdata⟩ := hw
      have hV := attrs_valOk (tt.infoOf t.type) _ hattrs hints
      generalize hattrsdef : attrVals ((t.get? "attrs").getD (.obj [])) = attrs at hV
      generalize htext : (if tt.tbl.rawTypes.contains t.type = true then Option.map TStr.ofData (t.getStr? "raw")
        else match t.get? "children" with
          | some (Json.arr cs) => some (List.flatMap (renderTok tt.tbl mk fuel) cs)
          | _ => none) = text
      generalize hout : evalTmpl _ T = r
      cases r with
      | none => exact WellTagged.nil
      | some out =>
        simp only [Option.getD_some]
        refine evalTmpl_tagged_core (tt.infoOf t.type) _ T ?_ hTok ?_ out hout
        · -- the environment
          cases text with
          | none =>
            simp only
            have hget : ∀ n, (mk attrs).get n = (attrs.lookup n).getD .none := by
              intro n; unfold TEnv.get; rw [(hmk attrs).2]
            refine EnvCore.of_valOk _ _ (hmk _).1 (hstrip _) ?_ ?_ ?_
            · intro htc
              rw [hget]
              have hnr : tt.tbl.rawTypes.contains t.type = false := by simpa [TagTable.infoOf] using htc
              have hd : (tt.tbl.dataArgsOf t.type).contains "$text" = false := by
                rcases hwdata with h | h
                · rw [hnr] at h; cases h
                · exact h
              have hv := hV "$text"
              exact plain_run_text _ (safe_allData_plain _ hv.allData (TVal.toTStr_safe _ (hv.safe hd)))
            · intro n _; rw [hget]; exact hV n
            · intro n items; rw [hget]; exact (hV n).toc items
          | some x =>
            simp only
            have hget : ∀ n, (mk (("$text", TVal.str x) :: attrs)).get n =
                if n = "$text" then TVal.str x else (attrs.lookup n).getD .none := by
              intro n; unfold TEnv.get; rw [(hmk _).2]; exact get_cons_text x attrs n
            refine EnvCore.of_valOk _ _ (hmk _).1 (hstrip _) ?_ ?_ ?_
            · intro htc
              rw [hget, if_pos rfl]
              have hnr : tt.tbl.rawTypes.contains t.type = false := by simpa [TagTable.infoOf] using htc
              have hnr' : ¬ tt.tbl.rawTypes.contains t.type = true := by rw [hnr]; exact Bool.false_ne_true
              rw [if_neg hnr'] at htext
              split at htext
              · rename_i cs heq
                rw [heq] at hch hch2
                simp only [List.all_eq_true] at hch hch2
                simp only [Option.some.injEq] at htext
                subst htext
                simp only [TVal.toTStr]
                apply WellTagged.flatMap
                intro c hc
                exact ih c (hch c hc) (hch2 c hc)
              · cases htext
            · intro n hg
              rw [hget]
              by_cases hn : n = "$text"
              · rw [if_pos hn]
                have hr : tt.tbl.rawTypes.contains t.type = true := by simpa [TagTable.infoOf] using hg hn
                rw [if_pos hr] at htext
                cases hgr : t.getStr? "raw" with
                | none => rw [hgr] at htext; simp at htext
                | some r =>
                  rw [hgr] at htext hraw
                  simp only [Option.map_some, Option.some.injEq] at htext
                  subst htext
                  subst hn
                  refine ⟨TStr.ofData_allData r, ?_, ?_, ?_⟩
                  · intro hd
                    rcases hraw with (h | h) | h
                    · rw [hr] at h; cases h
                    · rw [show (tt.infoOf t.type).dataArgs = tt.tbl.dataArgsOf t.type from rfl] at hd
                      rw [hd] at h; cases h
                    · simp only [Option.map_some, Option.getD_some] at h
                      exact (TStr.safeB_iff _).1 h
                  · intro hint
                    rcases hwint with h | h
                    · rw [hr] at h; cases h
                    · rw [show (tt.infoOf t.type).intArgs = (tt.intArgs.lookup t.type).getD [] from rfl] at hint
                      rw [hint] at h; cases h
                  · intro items h; cases h
              · rw [if_neg hn]; exact hV n
            · intro n items
              rw [hget]
              by_cases hn : n = "$text"
              · rw [if_pos hn]; intro h; cases h
              · rw [if_neg hn]; exact (hV n).toc items
        · -- table-of-contents pieces read safe values
          intro n hn items hget it hit
          have hd : (tt.tbl.dataArgsOf t.type).contains n = false := hwtoc n hn
          have hs : ((attrs.lookup n).getD .none).Safe := (hV n).safe hd
          have : (attrs.lookup n).getD .none = .toc items := by
            cases text with
            | none =>
              simp only at hget
              unfold TEnv.get at hget; rw [(hmk _).2] at hget; exact hget
            | some x =>
              simp only at hget
              unfold TEnv.get at hget; rw [(hmk _).2, get_cons_text] at hget
              by_cases hnt : n = "$text"
              · rw [if_pos hnt] at hget; cases hget
              · rw [if_neg hnt] at hget; exact hget
          rw [this] at hs
          exact hs it hit


/-- integer arguments of the templates of the working tree -/
def templateIntArgs : List (String × List String) :=
  [("heading", ["level"]), ("list", ["start"]), ("footnote_ref", ["index"]), ("footnote_item", ["index"])]

def tagTable : TagTable := { tbl := templates, intArgs := templateIntArgs }

/-- the driver evaluates `tagTreeOk` with the same table -/
theorem templateIntArgs_eq : templateIntArgs = defaultIntArgs := rfl

/-- kernel-decided: every template of the working tree passes the tag check, except the three that transform the rendered
text of their children or emit raw data (`block_error`: known finding; `footnote_item`, `task_list_item`: string surgery) -/
theorem templates_tagOk :
    (templates.tmpls.map (·.1)).filter (fun ty => !tagTable.okTypes.contains ty) = ["block_error", "footnote_item", "task_list_item"] := by
  decide +kernel

/-- kernel-decided: the type names of the working tree's table are distinct -/
theorem templates_nodup : (tagTable.tbl.tmpls.map (·.1)).Nodup := by decide +kernel

/-- kernel-decided: the extra table conditions hold for the working tree -/
theorem tagTable_wf : tagTable.wf = true := by decide +kernel

/-- **C02, tag structure, on the templates of the working tree** (statement unchanged; `hnd`, `hwf` kernel-decided) -/
theorem render_tagged (fuel : Nat) (toks : List Json)
    (hstrip : StripAgrees ((namedRx.lookup "mistune.util._striptags_re").getD .fail))
    (h1 : toks.all (refinedOk templates fuel) = true) (h2 : toks.all (tagTreeOk tagTable fuel) = true) :
    WellTagged (renderToks templates (fun a => mkTEnv a true) fuel toks).erase := by
  unfold renderToks
  apply WellTagged.flatMap
  intro t ht
  exact renderTok_tagged tagTable (fun a => mkTEnv a true) (fun _ => ⟨rfl, rfl⟩) (fun _ => hstrip)
    templates_nodup tagTable_wf fuel t (List.all_eq_true.1 h1 t ht) (List.all_eq_true.1 h2 t ht)

/-! ### counterexamples: why `renderTok_tagged` needs `hnd` and `hwf`

Each table below passes `refinedOk` and `tagTreeOk` on the token shown, and the rendering is NOT well tagged.
(`StripAgrees` plays no role: no template here uses `striptags`.) -/

section Counterexamples

/-- 1. hole of `tagRunPieces`: a `.toc n` piece is accepted without checking that `n` is not a data argument -/
def ceTable1 : TagTable :=
  { tbl := { tmpls := [("t", .seq [.toc "toc"])], rawTypes := [], dataArgs := [("t", ["toc"])], exempt := [] }, intArgs := [] }
def ceTok1 : Json := .obj [("type", .str "t".toList), ("attrs", .obj [("toc", .arr [.arr [.num 1, .str "\"".toList, .str "".toList]])])]

/-- 2. `$text` listed as an integer argument of a raw type: `tagRunPieces` lets it stand inside a tag, `tagTreeOk` checks the
integer arguments among `attrs` only -/
def ceTable2 : TagTable :=
  { tbl := { tmpls := [("x", .seq [.lit "<a ".toList, .arg "$text" [], .lit ">".toList])], rawTypes := ["x"], dataArgs := [],
             exempt := [] }, intArgs := [("x", ["$text"])] }
def ceTok2 : Json := .obj [("type", .str "x".toList), ("raw", .str "'".toList)]

/-- 3. a container type whose `$text` is declared data: a token WITHOUT children takes `$text` from `attrs`
(`renderTok` binds `$text` only when there are children), and `tagRunPieces` believes it is the rendered children -/
def ceTable3 : TagTable :=
  { tbl := { tmpls := [("x", .seq [.arg "$text" []])], rawTypes := [], dataArgs := [("x", ["$text"])], exempt := [] }, intArgs := [] }
def ceTok3 : Json := .obj [("type", .str "x".toList), ("attrs", .obj [("$text", .str "<".toList)])]

/-- 4. two templates under one name: `okTypes` is satisfied by the second, `lookup` renders the first -/
def ceTable4 : TagTable :=
  { tbl := { tmpls := [("x", .seq [.lit "<".toList]), ("x", .seq [])], rawTypes := [], dataArgs := [], exempt := [] }, intArgs := [] }
def ceTok4 : Json := .obj [("type", .str "x".toList)]

theorem counterexamples :
    (refinedOk ceTable1.tbl 1 ceTok1 = true ∧ tagTreeOk ceTable1 1 ceTok1 = true ∧
      (renderTok ceTable1.tbl (fun a => mkTEnv a true) 1 ceTok1).erase = "<a href=\"#\"\"></a>".toList ∧
      tsRun .text (renderTok ceTable1.tbl (fun a => mkTEnv a true) 1 ceTok1).erase = some .dq) ∧
    (refinedOk ceTable2.tbl 1 ceTok2 = true ∧ tagTreeOk ceTable2 1 ceTok2 = true ∧
      (renderTok ceTable2.tbl (fun a => mkTEnv a true) 1 ceTok2).erase = "<a '>".toList ∧
      tsRun .text (renderTok ceTable2.tbl (fun a => mkTEnv a true) 1 ceTok2).erase = some .sq) ∧
    (refinedOk ceTable3.tbl 1 ceTok3 = true ∧ tagTreeOk ceTable3 1 ceTok3 = true ∧
      (renderTok ceTable3.tbl (fun a => mkTEnv a true) 1 ceTok3).erase = "<".toList ∧
      tsRun .text (renderTok ceTable3.tbl (fun a => mkTEnv a true) 1 ceTok3).erase = some .lt) ∧
    (refinedOk ceTable4.tbl 1 ceTok4 = true ∧ tagTreeOk ceTable4 1 ceTok4 = true ∧
      (renderTok ceTable4.tbl (fun a => mkTEnv a true) 1 ceTok4).erase = "<".toList ∧
      tsRun .text (renderTok ceTable4.tbl (fun a => mkTEnv a true) 1 ceTok4).erase = some .lt) := by
  decide +kernel

/-- the tree theorem without `hnd` / `hwf` (the statement first asked for) is false -/
theorem renderTok_tagged_without_wf_false
    (hstrip : StripAgrees ((namedRx.lookup "mistune.util._striptags_re").getD .fail)) :
    ¬ (∀ (tt : TagTable) (mk : List (String × TVal) → TEnv),
        (∀ args, (mk args).escapeFlag = true ∧ (mk args).args = args) →
        (∀ args, StripAgrees (mk args).striptagsRe) →
        ∀ fuel t, refinedOk tt.tbl fuel t = true → tagTreeOk tt fuel t = true →
          WellTagged (renderTok tt.tbl mk fuel t).erase) := by
  intro H
  have h := H ceTable1 (fun a => mkTEnv a true) (fun _ => ⟨rfl, rfl⟩) (fun _ => hstrip) 1 ceTok1
    counterexamples.1.1 counterexamples.1.2.1
  unfold WellTagged at h
  rw [counterexamples.1.2.2.2] at h
  cases h

end Counterexamples

/-! ### non-vacuity -/

/-- `deleteSpans` is compiled by well-founded recursion, which the kernel cannot evaluate; a copy with fuel -/
def deleteSpansF {α : Type} : Nat → List (Nat × Nat) → Nat → List α → List α
  | 0, _, _, l => l
  | _ + 1, _, _, [] => []
  | _ + 1, [], _, l => l
  | fuel + 1, (a, b) :: rest, i, x :: xs =>
    if i < a then x :: deleteSpansF fuel ((a, b) :: rest) (i + 1) xs
    else if i < b then deleteSpansF fuel ((a, b) :: rest) (i + 1) xs
    else deleteSpansF fuel rest i (x :: xs)

theorem deleteSpansF_eq {α : Type} (sp : List (Nat × Nat)) (i : Nat) (l : List α) :
    ∀ fuel, sp.length + l.length ≤ fuel → deleteSpansF fuel sp i l = deleteSpans sp i l := by
  fun_induction deleteSpans sp i l with
  | case1 sp i =>
    intro fuel _
    cases fuel <;> simp [deleteSpansF]
  | case2 i l hl =>
    intro fuel _
    cases fuel with
    | zero => simp [deleteSpansF]
    | succ f => cases l <;> simp [deleteSpansF]
  | case3 a b rest i x xs h ih =>
    intro fuel hf
    cases fuel with
    | zero => simp at hf
    | succ f =>
      simp only [deleteSpansF, if_pos h]
      rw [ih f (by simp at hf ⊢; omega)]
  | case4 a b rest i x xs h1 h2 ih =>
    intro fuel hf
    cases fuel with
    | zero => simp at hf
    | succ f =>
      simp only [deleteSpansF, if_neg h1, if_pos h2]
      rw [ih f (by simp at hf ⊢; omega)]
  | case5 a b rest i x xs h1 h2 ih =>
    intro fuel hf
    cases fuel with
    | zero => simp at hf
    | succ f =>
      simp only [deleteSpansF, if_neg h1, if_neg h2]
      rw [ih f (by simp at hf ⊢; omega)]

theorem tStriptags_eq_F (re : Rx) (t : TStr) :
    tStriptags re t = deleteSpansF ((allSpans re t.erase).length + t.length) (allSpans re t.erase) 0 t := by
  unfold tStriptags
  rw [deleteSpansF_eq _ _ _ _ (Nat.le_refl _)]

theorem renderTok_children (tbl : TmplTable) (mk : List (String × TVal) → TEnv) (fuel : Nat) (t : Json)
    (cs : List Json) (T : Tmpl) (h1 : tbl.rawTypes.contains t.type = false) (h2 : t.get? "children" = some (.arr cs))
    (h3 : tbl.tmpls.lookup t.type = some T) :
    renderTok tbl mk (fuel + 1) t =
      (evalTmpl (mk (("$text", .str (cs.flatMap (renderTok tbl mk fuel))) :: attrVals ((t.get? "attrs").getD (.obj [])))) T).getD [] := by
  unfold renderTok
  simp only [h1, h2, h3, Bool.false_eq_true, if_false]

theorem evalPieces_split (env : TEnv) (n : String) (ops : List TOp) :
    ∀ (k : Nat) (e : List TPiece), e[k]? = some (.arg n ops) →
      evalPieces env e = evalPieces env (e.take k) ++ (applyOps env ops (env.get n).toTStr ++ evalPieces env (e.drop (k + 1))) := by
  intro k
  induction k with
  | zero =>
    intro e h
    cases e with
    | nil => simp at h
    | cons p rest =>
      simp only [List.getElem?_cons_zero, Option.some.injEq] at h
      subst h
      simp [evalPieces, evalPiece]
  | succ k ih =>
    intro e h
    cases e with
    | nil => simp at h
    | cons p rest =>
      simp only [List.getElem?_cons_succ] at h
      simp only [List.take_succ_cons, List.drop_succ_cons, evalPieces, ih rest h, List.append_assoc]

/-- the pieces of the `else` branch -/
def Tmpl.elseSeq : Tmpl → List TPiece
  | .ite _ _ (.seq e) => e
  | _ => []

theorem evalTmpl_image_notitle (env : TEnv) (h : (env.get "title").truthy = false) :
    evalTmpl env tmpl_image = some (evalPieces env tmpl_image.elseSeq) := by
  unfold tmpl_image
  simp only [evalTmpl, evalCond, h, Bool.false_eq_true, if_false, Tmpl.elseSeq]

/-- non-vacuity: an image whose description holds a link with a title -/
example :
    let tok := Json.obj [("type", .str "paragraph".toList), ("children", .arr [
      Json.obj [("type", .str "image".toList), ("attrs", .obj [("url", .str "x.png".toList)]), ("children", .arr [
        Json.obj [("type", .str "link".toList), ("attrs", .obj [("url", .str "on=1//".toList), ("title", .str "t\nu".toList)]),
                  ("children", .arr [Json.obj [("type", .str "text".toList), ("raw", .str "a".toList)]])]])]])]
    refinedOk templates 6 tok = true ∧ tagTreeOk tagTable 6 tok = true ∧
    (renderTok templates (fun a => mkTEnv a true) 6 tok).erase = "<p><img src=\"x.png\" alt=\"a\" /></p>\n".toList := by
  dsimp only
  refine ⟨by decide +kernel, by decide +kernel, ?_⟩
  rw [renderTok_children templates _ 5 _ _ tmpl_paragraph (by decide +kernel) rfl rfl]
  simp only [List.flatMap_cons, List.flatMap_nil]
  rw [renderTok_children templates _ 4 _ _ tmpl_image (by decide +kernel) rfl rfl]
  rw [evalTmpl_image_notitle, evalPieces_split _ "$text" [.striptags] 3 _ rfl]
  · simp only [applyOps, List.foldl_cons, List.foldl_nil, applyOp]
    rw [tStriptags_eq_F]
    decide +kernel
  · decide +kernel


end Mistune
