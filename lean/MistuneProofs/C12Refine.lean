/-
C12 — refinement: the CONCRETE handlers `Blk.parseRefLink` (definition site) and `Inl.parseLinkRef` (use site)
perform exactly the steps of the abstract reference-table machine `refAdd` / `refBuild` / `refLookup` of
`Mistune.RefTable`, about which `refBuild_first`, `refBuild_append_stable` (C12) are proved.

Abstraction functions
* `absTable : Json → List (Str × Json)`  — a Python dict (JSON object, insertion order) as an association list whose
  keys are code-point lists (`String.toList`);
* `absRefs env = absTable env["ref_links"]` — the abstract table of an `env`.
-/
import Mistune.Model.Doc
import MistuneProofs.C12
import MistuneProofs.C18Unikey
import MistuneProofs.Oblig.Unicode
namespace Mistune
namespace Model
open Blk

/-! ### association lists and `Json` objects -/

theorem lookup_isSome_eq_any {β : Type} (kv : List (String × β)) (k : String) :
    (kv.lookup k).isSome = kv.any (fun p => p.1 == k) := by
  induction kv with
  | nil => rfl
  | cons p r ih =>
    obtain ⟨a, b⟩ := p
    simp only [List.lookup_cons, List.any_cons]
    by_cases h : a = k
    · subst h; simp
    · have h1 : (a == k) = false := by simpa using h
      have h2 : (k == a) = false := by simpa using fun e : k = a => h e.symm
      simp [h1, h2, ih]

theorem lookup_map_set {β : Type} (kv : List (String × β)) (k k' : String) (v : β) :
    (kv.map (fun p => if p.1 == k then (k, v) else p)).lookup k' =
      if k' = k then (kv.lookup k').map (fun _ => v) else kv.lookup k' := by
  induction kv with
  | nil => simp [List.lookup]
  | cons p r ih =>
    obtain ⟨a, b⟩ := p
    rw [List.map_cons]
    by_cases ha : a = k
    · subst ha
      have e : (if (a == a) = true then (a, v) else (a, b)) = (a, v) := by simp
      rw [e, List.lookup_cons, List.lookup_cons, ih]
      by_cases hk : k' = a
      · subst hk; simp
      · have : (k' == a) = false := by simpa using hk
        simp [this, hk]
    · have h1 : (a == k) = false := by simpa using ha
      have e : (if (a == k) = true then (k, v) else (a, b)) = (a, b) := by simp [h1]
      rw [e, List.lookup_cons, List.lookup_cons, ih]
      by_cases hka : k' = a
      · subst hka; simp [ha]
      · have : (k' == a) = false := by simpa using hka
        simp [this]

theorem lookup_append_single {β : Type} (kv : List (String × β)) (k k' : String) (v : β) :
    (kv ++ [(k, v)]).lookup k' = (kv.lookup k').orElse (fun _ => if k' = k then some v else none) := by
  induction kv with
  | nil =>
    by_cases h : k' = k
    · subst h; simp [List.lookup]
    · have : (k' == k) = false := by simpa using h
      simp [List.lookup, this, h]
  | cons p r ih =>
    obtain ⟨a, b⟩ := p
    simp only [List.cons_append, List.lookup_cons]
    cases k' == a <;> simp [ih]

namespace JsonL

theorem set_obj (kv : List (String × Json)) (k : String) (v : Json) :
    (Json.obj kv).set k v = if kv.any (fun p => p.1 == k) then .obj (kv.map (fun p => if p.1 == k then (k, v) else p))
      else .obj (kv ++ [(k, v)]) := rfl

/-- `d[k] = v; d.get(k)` -/
theorem get?_set_same (kv : List (String × Json)) (k : String) (v : Json) :
    ((Json.obj kv).set k v).get? k = some v := by
  rw [set_obj]
  split
  · rename_i h
    simp only [Json.get?, lookup_map_set, if_true]
    rw [← lookup_isSome_eq_any] at h
    cases hl : kv.lookup k with
    | none => simp [hl] at h
    | some x => rfl
  · rename_i h
    simp only [Json.get?, lookup_append_single, if_true]
    rw [← lookup_isSome_eq_any] at h
    cases hl : kv.lookup k with
    | none => rfl
    | some x => simp [hl] at h

/-- `d[k] = v` leaves every other key alone -/
theorem get?_set_other (j : Json) (k k' : String) (v : Json) (h : k' ≠ k) :
    (j.set k v).get? k' = j.get? k' := by
  cases j with
  | obj kv =>
    rw [set_obj]
    split
    · simp only [Json.get?, lookup_map_set, if_neg h]
    · simp only [Json.get?, lookup_append_single, if_neg h]
      cases kv.lookup k' <;> rfl
  | _ => rfl

end JsonL

/-! ### the abstraction functions -/

/-- a Python dict with string keys as an association list (insertion order), keys as code-point lists -/
def absTable : Json → List (Str × Json)
  | .obj kv => kv.map (fun p => (p.1.toList, p.2))
  | _ => []

/-- the abstract reference table of an `env`: `env["ref_links"]` -/
def absRefs (env : Json) : List (Str × Json) :=
  match env.get? "ref_links" with
  | some t => absTable t
  | none => []

/-- `env["ref_links"]` is a dict (true of the root state, kept by every handler) -/
def RefsWf (env : Json) : Prop := ∃ kv, env.get? "ref_links" = some (.obj kv)

theorem toList_beq (s : String) (k : Str) : (s.toList == k) = (s == String.ofList k) := by
  by_cases h : s = String.ofList k
  · subst h; simp
  · have h2 : s.toList ≠ k := by
      intro e; apply h; rw [← e]; simp
    have h3 : (s == String.ofList k) = false := by simpa using h
    have h4 : (s.toList == k) = false := by simpa using h2
    rw [h3, h4]

/-- `key in d` on the dict = membership of the key in the abstract table -/
theorem absTable_has (kv : List (String × Json)) (k : Str) :
    (absTable (.obj kv)).any (fun p => p.1 == k) = (Json.obj kv).has (String.ofList k) := by
  unfold Json.has Json.get? absTable
  rw [lookup_isSome_eq_any]
  simp only [List.any_map]
  congr 1
  funext p
  exact toList_beq p.1 k

/-- `d.get(key)` on the dict = `refLookup` on the abstract table -/
theorem absTable_lookup (kv : List (String × Json)) (k : Str) :
    refLookup (absTable (.obj kv)) k = (Json.obj kv).get? (String.ofList k) := by
  unfold refLookup absTable Json.get?
  induction kv with
  | nil => rfl
  | cons p r ih =>
    obtain ⟨a, b⟩ := p
    simp only [List.map_cons, List.lookup_cons]
    have : (k == a.toList) = (String.ofList k == a) := by
      rw [Bool.beq_comm, toList_beq, Bool.beq_comm]
    rw [this, ih]

/-- **the abstract step**: `if key not in d: d[key] = data` on the dict is `refAdd` on the abstract table -/
theorem absTable_step (kv : List (String × Json)) (k : Str) (d : Json) :
    absTable (if !(Json.obj kv).has (String.ofList k) then (Json.obj kv).set (String.ofList k) d else .obj kv)
      = refAdd (absTable (.obj kv)) k d := by
  unfold refAdd
  rw [absTable_has]
  by_cases h : (Json.obj kv).has (String.ofList k) = true
  · simp [h]
  · have h' : (Json.obj kv).has (String.ofList k) = false := by simpa using h
    simp only [h', Bool.not_false, if_true, Bool.false_eq_true, if_false]
    unfold Json.set
    have : kv.any (fun p => p.1 == String.ofList k) = false := by
      rw [← lookup_isSome_eq_any]; exact h'
    simp [this, absTable]

/-! ### (a) the definition site: `Blk.parseRefLink` -/

theorem appendParagraph_frame (cfg : MdCfg) (st : BlockState) (p : Option Nat) (st1 : BlockState)
    (h : st.appendParagraph cfg = .ok (p, st1)) : st1.env = st.env ∧ st1.x = st.x := by
  unfold BlockState.appendParagraph at h
  cases hl : st.lastParagraph with
  | error e => rw [hl] at h; cases h
  | ok o =>
    rw [hl] at h
    cases o with
    | none => cases h; exact ⟨rfl, rfl⟩
    | some last =>
      simp only [bind, Except.bind] at h
      split at h
      · cases h
      · split at h
        · cases h
        · cases h; exact ⟨rfl, rfl⟩

/-- the `data` dict that `parse_ref_link` stores for a definition -/
def refLinkData (cfg : MdCfg) (label href : Str) (title : Option Str) : Json :=
  let data := Json.obj [("url", .str (escapeUrlM cfg (unescapeChar cfg href))), ("label", .str label)]
  match title with
  | some t => if !t.isEmpty then data.set "title" (.str t) else data
  | none => data

/-- partial correctness for `Except PyErr` (local copy; the block-pass file `EnvRel` has its own `Blk.Sat`) -/
def Holds {α : Type} (P : α → Prop) (e : Except PyErr α) : Prop := ∀ a, e = .ok a → P a

theorem Holds.bind {α β : Type} {Q : α → Prop} {P : β → Prop} {e : Except PyErr α} {f : α → Except PyErr β}
    (h1 : Holds Q e) (h2 : ∀ a, Q a → Holds P (f a)) : Holds P (e >>= f) := by
  cases e with
  | ok a => exact h2 a (h1 a rfl)
  | error err => intro b hb; cases hb

theorem Holds.pure {α : Type} {P : α → Prop} {a : α} (h : P a) : Holds P (pure a : Except PyErr α) := by
  intro b hb; cases hb; exact h

theorem Holds.ok {α : Type} {P : α → Prop} {a : α} (h : P a) : Holds P (.ok a : Except PyErr α) := Holds.pure h

theorem Holds.throw {α : Type} {P : α → Prop} {e : PyErr} : Holds P (throw e : Except PyErr α) := by
  intro b hb; cases hb

theorem Holds.mono {α : Type} {P Q : α → Prop} {e : Except PyErr α} (h : Holds P e) (hpq : ∀ a, P a → Q a) :
    Holds Q e := fun a ha => hpq a (h a ha)

theorem Holds.true {α : Type} (e : Except PyErr α) : Holds (fun _ => True) e := fun _ _ => trivial

theorem Holds.self {α : Type} (e : Except PyErr α) : Holds (fun a => e = .ok a) e := fun _ h => h

/-- what `parse_ref_link` does to `env`, on the concrete values -/
def RefLinkPost (cfg : MdCfg) (mt : RxMatch) (st : BlockState) (res : Option Nat × BlockState) : Prop :=
  res.2.env = st.env ∨
    ∃ refs href title, st.env.get? "ref_links" = some refs ∧
      refs.has (String.ofList (unikeyPy (grp cfg st mt "reflink_1"))) = false ∧
      truthyPos res.1 = true ∧ unikeyPy (grp cfg st mt "reflink_1") ≠ [] ∧
      res.2.env = st.env.set "ref_links"
        (refs.set (String.ofList (unikeyPy (grp cfg st mt "reflink_1")))
          (refLinkData cfg (grp cfg st mt "reflink_1") href title))

theorem getE_some (j : Json) (k : String) : Holds (fun v => j.get? k = some v) (getE j k) := by
  unfold getE
  split
  · rename_i v hv; exact Holds.ok hv
  · exact Holds.throw

theorem parseRefLink_raw (cfg : MdCfg) (mt : RxMatch) (st : BlockState) :
    Holds (RefLinkPost cfg mt st) (parseRefLink cfg mt st) := by
  unfold parseRefLink
  refine Holds.bind (Holds.self _) ?_
  rintro ⟨endPos, st1⟩ hap
  obtain ⟨he, hx⟩ := appendParagraph_frame cfg st endPos st1 hap
  show Holds _ (if truthyPos endPos = true then _ else _)
  split
  · exact Holds.pure (Or.inl he)
  have hg : grp cfg st1 mt "reflink_1" = grp cfg st mt "reflink_1" := by unfold grp; rw [hx]
  extract_lets label key k
  split
  · exact Holds.pure (Or.inl he)
  rename_i hkey
  refine Holds.bind (Holds.true _) (fun r _ => ?_)
  split
  · exact Holds.pure (Or.inl he)
  rename_i href0 hrefPos0
  extract_lets maxPos
  split
  rename_i title titlePos htp
  split
  rename_i title2 titlePos2 htp2
  split
  rename_i href hrefPos hhp
  extract_lets endPos2
  split
  · exact Holds.pure (Or.inl he)
  rename_i hend
  refine Holds.bind (getE_some _ _) (fun refs hrefs => ?_)
  split
  · rename_i hhas
    split
    · exact Holds.throw
    · rename_i href1
      refine Holds.pure (Or.inr ⟨refs, href1, title2, ?_, ?_, ?_, ?_, ?_⟩)
      · rw [← he]; exact hrefs
      · rw [← hg]; simpa using hhas
      · simpa using hend
      · rw [← hg]; intro e; apply hkey; show (unikeyPy (grp cfg st1 mt "reflink_1")).isEmpty = true; rw [e]; rfl
      · rw [← hg, ← he]; rfl
  · exact Holds.pure (Or.inl he)

theorem get?_some_obj (j : Json) (k : String) (v : Json) (h : j.get? k = some v) : ∃ kv, j = .obj kv := by
  cases j with
  | obj kv => exact ⟨kv, rfl⟩
  | _ => cases h

theorem absRefs_of_get (env refs : Json) (h : env.get? "ref_links" = some refs) : absRefs env = absTable refs := by
  unfold absRefs; rw [h]

/-- **C12 (a): `parse_ref_link` is one `refAdd` step of the abstract machine.**  Whenever the handler returns,
`env["ref_links"]` is still a dict, every other key of `env` is untouched, and the abstract table is either unchanged
(the handler declined, the line continued a paragraph, the label normalised to the empty key, …) or it is
`refAdd table (unikey label) data` for the label matched by the rule — i.e. the definition is stored iff its
normalised key was absent; in that case the returned position is truthy and the key non-empty. -/
theorem parseRefLink_env (cfg : MdCfg) (mt : RxMatch) (st : BlockState) (r : Option Nat) (st' : BlockState)
    (h : parseRefLink cfg mt st = .ok (r, st')) (hwf : RefsWf st.env) :
    RefsWf st'.env ∧ (∀ k, k ≠ "ref_links" → st'.env.get? k = st.env.get? k) ∧
    (absRefs st'.env = absRefs st.env ∨
      ∃ href title, truthyPos r = true ∧ unikeyPy (grp cfg st mt "reflink_1") ≠ [] ∧
        absRefs st'.env = refAdd (absRefs st.env) (unikeyPy (grp cfg st mt "reflink_1"))
          (refLinkData cfg (grp cfg st mt "reflink_1") href title)) := by
  have hraw := parseRefLink_raw cfg mt st _ h
  rcases hraw with he | ⟨refs, href, title, hrefs, hhas, htr, hne, henv⟩
  · dsimp only at he
    rw [he]
    exact ⟨hwf, fun _ _ => rfl, Or.inl rfl⟩
  · dsimp only at htr henv
    obtain ⟨kv, hkv⟩ := hwf
    have hr : refs = .obj kv := by rw [hrefs] at hkv; cases hkv; rfl
    subst hr
    obtain ⟨ekv, hekv⟩ := get?_some_obj _ _ _ hrefs
    have hget : st'.env.get? "ref_links" = some ((Json.obj kv).set (String.ofList (unikeyPy (grp cfg st mt "reflink_1")))
        (refLinkData cfg (grp cfg st mt "reflink_1") href title)) := by
      rw [henv, hekv]; exact JsonL.get?_set_same _ _ _
    refine ⟨?_, ?_, Or.inr ⟨href, title, htr, hne, ?_⟩⟩
    · rw [JsonL.set_obj] at hget
      split at hget <;> exact ⟨_, hget⟩
    · intro k hk; rw [henv]; exact JsonL.get?_set_other _ _ _ _ hk
    · rw [absRefs_of_get _ _ hget, absRefs_of_get _ _ hrefs, ← absTable_step, hhas]
      rfl

/-- a declined `ref_link` match (falsy position) leaves `env` as it was -/
theorem parseRefLink_decline (cfg : MdCfg) (mt : RxMatch) (st : BlockState) (r : Option Nat) (st' : BlockState)
    (h : parseRefLink cfg mt st = .ok (r, st')) (hr : truthyPos r = false) : st'.env = st.env := by
  rcases parseRefLink_raw cfg mt st _ h with he | ⟨_, _, _, _, _, htr, _, _⟩
  · exact he
  · dsimp only at htr; rw [hr] at htr; cases htr

/-- a label that normalises to the empty key (`[ ]: /url`) defines nothing -/
theorem parseRefLink_invalid (cfg : MdCfg) (mt : RxMatch) (st : BlockState) (r : Option Nat) (st' : BlockState)
    (h : parseRefLink cfg mt st = .ok (r, st')) (hk : unikeyPy (grp cfg st mt "reflink_1") = []) : st'.env = st.env := by
  rcases parseRefLink_raw cfg mt st _ h with he | ⟨_, _, _, _, _, _, hne, _⟩
  · exact he
  · exact absurd hk hne

/-! ### (c) the use site: `Inl.parseLinkRef` -/

/-- what `parse_link` does with the result of `ref_links.get(key)` (the code after the look-up, verbatim) -/
def linkRefResolve (R : Inl.Rec) (isImage : Bool) (text label : Str) (endPos : Nat) (st : Inl.InlineState) :
    Option Json → Inl.HRes
  | none => .ok (none, st)
  | some env =>
    if !env.truthy then .ok (none, st) else do
    let url ← match env.get? "url" with
      | some u => pure u
      | none => .error .keyError
    let title := (env.get? "title").getD .null
    let attrs := Json.obj [("url", url), ("title", title)]
    let (token, st) ← Inl.parseLinkToken R isImage text attrs st
    let token := (token.set "ref" (.str (unikeyPy label))).set "label" (.str label)
    pure (some endPos, st.appendToken token)

/-- **C12 (c): the use site is `refLookup` at the normalised key.**  `parse_link`'s reference form resolves a label
by looking `unikey(label)` up in the abstract table of the current `env`, and nothing else of the label or of the
table enters the decision. -/
theorem parseLinkRef_lookup (R : Inl.Rec) (isImage : Bool) (text label : Str) (endPos : Nat) (st : Inl.InlineState)
    (hwf : RefsWf st.env) :
    Inl.parseLinkRef R isImage text (some label) endPos st =
      linkRefResolve R isImage text label endPos st (refLookup (absRefs st.env) (unikeyPy label)) := by
  obtain ⟨kv, hkv⟩ := hwf
  unfold Inl.parseLinkRef
  simp only [hkv, absRefs_of_get _ _ hkv, absTable_lookup]
  by_cases hemp : (Json.obj kv).truthy = true
  · simp only [hemp, Bool.not_true, Bool.false_eq_true, if_false]
    cases (Json.obj kv).get? (String.ofList (unikeyPy label)) with
    | none => rfl
    | some d => rfl
  · have hk : kv = [] := by
      cases kv with
      | nil => rfl
      | cons a b => exact absurd rfl hemp
    subst hk
    simp [Json.truthy, Json.get?, linkRefResolve, List.lookup]

/-- the resolved definition depends on the label only through its key -/
theorem parseLinkRef_key (tbl : List (Str × Json)) (l1 l2 : Str) (h : unikeyPy l1 = unikeyPy l2) :
    refLookup tbl (unikeyPy l1) = refLookup tbl (unikeyPy l2) := by rw [h]

/-- case variants of a label resolve to the same definition (`unikeyPy_case`, C18) -/
theorem parseLinkRef_case (tbl : List (Str × Json)) (t : NatTree Nat)
    (h : t = Generated.lowerTree ∨ t = Generated.upperTree ∨ t = Generated.titleTree ∨ t = Generated.swapcaseTree ∨
      t = Generated.casefoldTree) (label : Str) :
    refLookup tbl (unikeyPy (label.map (variantOf t))) = refLookup tbl (unikeyPy label) := by
  rw [unikeyPy_case t h]

/-- white-space variants of a label resolve to the same definition (`unikeyPy_ws_run`, C18) -/
theorem parseLinkRef_ws (tbl : List (Str × Json)) (a b sp1 sp2 : Str) (h1 : sp1 ≠ []) (h2 : sp2 ≠ [])
    (hs1 : ∀ c ∈ sp1, isSpace c = true) (hs2 : ∀ c ∈ sp2, isSpace c = true) :
    refLookup tbl (unikeyPy (a ++ sp1 ++ b)) = refLookup tbl (unikeyPy (a ++ sp2 ++ b)) := by
  rw [unikeyPy_ws_run a b sp1 sp2 h1 h2 hs1 hs2]

/-! ### non-vacuity: kernel-evaluated runs of the concrete model -/

section Examples
open Mistune.Generated

/-- keys and urls of the final table of a block pass -/
def refsView (env : Json) : List (Str × Str) := (absRefs env).map (fun p => (p.1, p.2.getStr "url"))

def refsOfRun (r : Except PyErr (List Json × Json)) : Option (List (Str × Str)) :=
  match r with
  | .ok (_, env) => some (refsView env)
  | .error _ => none

/-- two definitions of the same label in different case, a third with another white-space run: the first wins -/
example : refsOfRun (Model.blockParse (ofRuleCfg cfg_core) "[Foo]: /a\n[fOO]: /b\n\n[foo  bar]: /c\n[Foo\tBAR]: /d\n".toList)
    = some [("FOO".toList, "/a".toList), ("FOO BAR".toList, "/c".toList)] := by decide +kernel

/-- one call of the handler on the root state of `[Foo]: /a`: accepted (truthy position), one `refAdd` step -/
def refLinkDemo (src : String) (env : Json) : Option (Bool × Bool × List (Str × Str)) :=
  let cfg := ofRuleCfg cfg_core
  let st := { BlockState.root src.toList with env := env }
  match compileSc cfg ["ref_link"] with
  | .ok sc =>
    match scan st.x sc 0 with
    | some (_, m) =>
      match parseRefLink cfg m st with
      | .ok (r, st') => some (truthyPos r, decide (unikeyPy (grp cfg st m "reflink_1") ≠ []), refsView st'.env)
      | .error _ => none
    | none => none
  | .error _ => none

example : refLinkDemo "[Foo]: /a\n" (.obj [("ref_links", .obj [])]) = some (true, true, [("FOO".toList, "/a".toList)]) := by
  decide +kernel

/-- the key is present already (another case variant): accepted, table unchanged -/
example : refLinkDemo "[fOO]: /b\n" (.obj [("ref_links", .obj [("FOO", .obj [("url", Json.s "/a")])])])
    = some (true, true, [("FOO".toList, "/a".toList)]) := by decide +kernel

example : RefsWf (BlockState.root "[Foo]: /a\n".toList).env := ⟨[], rfl⟩

end Examples

end Model
end Mistune
