/-
C05 — the second pass (`Markdown._iter_render`) leaves no unprocessed `text` field: for ANY token tree the
block pass can produce (`preOKL`) and ANY inline parser whose tokens contain no `text` key.
-/
import Mistune.SecondPass
namespace Mistune

/-! ### helper lemmas -/

theorem mapM_cons_ok {α β ε : Type} (f : α → Except ε β) (a : α) (l : List α) (out : List β) :
    (a :: l).mapM f = .ok out ↔ ∃ b bs, f a = .ok b ∧ l.mapM f = .ok bs ∧ out = b :: bs := by
  rw [List.mapM_cons]
  cases h : f a with
  | error e => simp [bind, Except.bind]
  | ok b =>
    cases h2 : l.mapM f with
    | error e => simp [bind, Except.bind]
    | ok bs =>
      simp [bind, Except.bind, pure, Except.pure]
      exact eq_comm

theorem mapM_ok_length {α β ε : Type} (f : α → Except ε β) :
    ∀ (l : List α) (out : List β), l.mapM f = .ok out → out.length = l.length := by
  intro l
  induction l with
  | nil => intro out h; simp [pure, Except.pure] at h; subst h; rfl
  | cons a l ih =>
    intro out h
    obtain ⟨b, bs, _, h2, rfl⟩ := (mapM_cons_ok f a l out).1 h
    simp [ih bs h2]

theorem mapM_ok_forall {α β ε : Type} (f : α → Except ε β) (P : α → Prop) (Q : β → Prop)
    (hf : ∀ a b, P a → f a = .ok b → Q b) :
    ∀ (l : List α) (out : List β), l.mapM f = .ok out → (∀ a ∈ l, P a) → ∀ b ∈ out, Q b := by
  intro l
  induction l with
  | nil => intro out h _; simp [pure, Except.pure] at h; subst h; simp
  | cons a l ih =>
    intro out h hP
    obtain ⟨b, bs, h1, h2, rfl⟩ := (mapM_cons_ok f a l out).1 h
    intro x hx
    rcases List.mem_cons.1 hx with rfl | hx
    · exact hf a _ (hP a (List.mem_cons_self)) h1
    · exact ih bs h2 (fun a ha => hP a (List.mem_cons_of_mem _ ha)) x hx

theorem noTextL_iff (l : List Json) : noTextL l = true ↔ ∀ j ∈ l, noTextJ j = true := by
  induction l with
  | nil => simp [noTextL]
  | cons a l ih => simp [noTextL, ih]

theorem preOKL_iff (l : List Json) : preOKL l = true ↔ ∀ j ∈ l, preOKJ j = true := by
  induction l with
  | nil => simp [preOKL]
  | cons a l ih => simp [preOKL, ih]

theorem noTextKV_iff (kv : List (String × Json)) :
    noTextKV kv = true ↔ ∀ p ∈ kv, noTextJ p.2 = true := by
  induction kv with
  | nil => simp [noTextKV]
  | cons a l ih => obtain ⟨k, v⟩ := a; simp [noTextKV, ih]

/-- the per-entry condition of `preOKKV` -/
def preEntry (p : String × Json) : Bool :=
  if p.1 == "children" then (match p.2 with | .arr l => preOKL l | _ => false)
  else if p.1 == "text" then (match p.2 with | .str _ => true | _ => false)
  else noTextJ p.2

theorem preOKKV_iff (kv : List (String × Json)) :
    preOKKV kv = true ↔ ∀ p ∈ kv, preEntry p = true := by
  induction kv with
  | nil => simp [preOKKV]
  | cons a l ih =>
    obtain ⟨k, v⟩ := a
    cases v <;> simp [preOKKV, ih, preEntry, noTextJ]

theorem lookup_some_mem (kv : List (String × Json)) (k : String) (v : Json) :
    kv.lookup k = some v → (k, v) ∈ kv := by
  induction kv with
  | nil => simp
  | cons a l ih =>
    obtain ⟨k', v'⟩ := a
    simp only [List.lookup_cons]
    cases h : (k == k') with
    | true =>
      intro hv
      have : k = k' := by simpa using h
      simp at hv
      subst hv; subst this
      exact List.mem_cons_self
    | false =>
      intro hv
      exact List.mem_cons_of_mem _ (ih hv)

theorem lookup_none_key (kv : List (String × Json)) (k : String) :
    kv.lookup k = none → ∀ p ∈ kv, p.1 ≠ k := by
  induction kv with
  | nil => simp
  | cons a l ih =>
    obtain ⟨k', v'⟩ := a
    simp only [List.lookup_cons]
    cases h : (k == k') with
    | true => simp
    | false =>
      intro hv p hp
      rcases List.mem_cons.1 hp with rfl | hp
      · intro e
        simp at e
        subst e
        simp at h
      · exact ih hv p hp

/-- one step of the second pass on a single token -/
def stepG (inl : Str → Except PyErr (List Json)) (fuel : Nat) (t : Json) : Except PyErr Json :=
  match t.get? "children" with
  | some (.arr cs) => do
    let cs' ← iterRenderG inl fuel cs
    pure (t.set "children" (.arr cs'))
  | _ =>
    match t.get? "text" with
    | some (.str text) => do
      let cs ← inl (Py.stripC " \r\n\t\x0c".toList text)
      pure ((t.erase "text").set "children" (.arr cs))
    | _ => pure t

theorem iterRenderG_succ (inl : Str → Except PyErr (List Json)) (fuel : Nat) (toks : List Json) :
    iterRenderG inl (fuel + 1) toks = toks.mapM (stepG inl fuel) := by
  rfl

/-- the single-token step preserves the invariant, given the IH for the smaller fuel -/
theorem stepG_shape (inl : Str → Except PyErr (List Json))
    (hinl : ∀ s r, inl s = .ok r → noTextL r = true) (fuel : Nat)
    (ih : ∀ toks out, iterRenderG inl fuel toks = .ok out → preOKL toks = true → noTextL out = true)
    (t b : Json) (hpre : preOKJ t = true) (hrun : stepG inl fuel t = .ok b) :
    noTextJ b = true := by
  cases t with
  | obj kv =>
    simp only [preOKJ, Bool.and_eq_true, Bool.not_eq_true', Bool.and_eq_false_iff] at hpre
    obtain ⟨hboth, hkv⟩ := hpre
    rw [preOKKV_iff] at hkv
    unfold stepG at hrun
    simp only [Json.get?] at hrun
    cases hc : kv.lookup "children" with
    | some c =>
      have hmem := lookup_some_mem kv _ _ hc
      have hce := hkv _ hmem
      simp only [preEntry, beq_self_eq_true, if_true] at hce
      cases c with
      | arr cs =>
        simp only at hce
        rw [hc] at hrun
        simp only at hrun
        cases hr : iterRenderG inl fuel cs with
        | error e => rw [hr] at hrun; simp [bind, Except.bind] at hrun
        | ok cs' =>
          rw [hr] at hrun
          simp only [bind, Except.bind, pure, Except.pure, Except.ok.injEq] at hrun
          subst hrun
          have hcs' := ih cs cs' hr hce
          have hany : kv.any (fun p => p.1 == "children") = true := by
            rw [List.any_eq_true]; exact ⟨_, hmem, by simp⟩
          have hnotext : kv.any (fun p => p.1 == "text") = false := by
            rcases hboth with h | h
            · rw [hany] at h; cases h
            · exact h
          rw [List.any_eq_false] at hnotext
          simp only [Json.set, hany, if_true, noTextJ, Bool.and_eq_true, Bool.not_eq_true']
          constructor
          · rw [List.any_eq_false]
            intro p hp
            rw [List.mem_map] at hp
            obtain ⟨q, hq, rfl⟩ := hp
            by_cases hqc : q.1 == "children"
            · simp [hqc]
            · simp only [hqc]
              exact hnotext q hq
          · rw [noTextKV_iff]
            intro p hp
            rw [List.mem_map] at hp
            obtain ⟨q, hq, rfl⟩ := hp
            by_cases hqc : q.1 == "children"
            · simp [hqc, noTextJ, hcs']
            · have hqt := hnotext q hq
              have := hkv q hq
              simp only [preEntry, hqc, hqt] at this
              simpa [hqc] using this
      | _ => simp at hce
    | none =>
      rw [hc] at hrun
      simp only at hrun
      have hnoc := lookup_none_key kv _ hc
      have hvals : ∀ p ∈ kv, p.1 ≠ "text" → noTextJ p.2 = true := by
        intro p hp hpt
        have := hkv p hp
        have h1 : (p.1 == "children") = false := by simpa using hnoc p hp
        have h2 : (p.1 == "text") = false := by simpa using hpt
        simpa [preEntry, h1, h2] using this
      cases ht : kv.lookup "text" with
      | some tx =>
        have hmem := lookup_some_mem kv _ _ ht
        have hte := hkv _ hmem
        have : ("text" == "children") = false := by decide
        simp only [preEntry, this, beq_self_eq_true, if_true] at hte
        cases tx with
        | str text =>
          rw [ht] at hrun
          simp only at hrun
          cases hr : inl (Py.stripC " \r\n\t\x0c".toList text) with
          | error e => rw [hr] at hrun; simp [bind, Except.bind] at hrun
          | ok cs =>
            rw [hr] at hrun
            simp only [bind, Except.bind, pure, Except.pure, Except.ok.injEq] at hrun
            subst hrun
            have hcs := hinl _ _ hr
            have hany : (kv.filter (fun p => p.1 != "text")).any (fun p => p.1 == "children") = false := by
              rw [List.any_eq_false]
              intro p hp
              have := hnoc p (List.mem_filter.1 hp).1
              simpa using this
            simp only [Json.erase, Json.set, hany, Bool.false_eq_true, if_false, noTextJ, Bool.and_eq_true, Bool.not_eq_true']
            constructor
            · rw [List.any_eq_false]
              intro p hp
              rcases List.mem_append.1 hp with hp | hp
              · have := (List.mem_filter.1 hp).2
                simpa using this
              · simp at hp; subst hp; simp
            · rw [noTextKV_iff]
              intro p hp
              rcases List.mem_append.1 hp with hp | hp
              · obtain ⟨hp1, hp2⟩ := List.mem_filter.1 hp
                exact hvals p hp1 (by simpa using hp2)
              · simp at hp; subst hp; simp [noTextJ, hcs]
        | _ => simp at hte
      | none =>
        rw [ht] at hrun
        simp only [pure, Except.pure, Except.ok.injEq] at hrun
        subst hrun
        have hnot := lookup_none_key kv _ ht
        simp only [noTextJ, Bool.and_eq_true, Bool.not_eq_true']
        constructor
        · rw [List.any_eq_false]
          intro p hp
          simpa using hnot p hp
        · rw [noTextKV_iff]
          intro p hp
          exact hvals p hp (hnot p hp)
  | _ => simp [preOKJ] at hpre

/-- **C05 (no left-over `text`).** -/
theorem iterRender_shape (inl : Str → Except PyErr (List Json))
    (hinl : ∀ s r, inl s = .ok r → noTextL r = true)
    (fuel : Nat) (toks out : List Json)
    (hrun : iterRenderG inl fuel toks = .ok out) (hpre : preOKL toks = true) :
    noTextL out = true := by
  induction fuel generalizing toks out with
  | zero => simp [iterRenderG] at hrun
  | succ fuel ih =>
    rw [iterRenderG_succ] at hrun
    rw [noTextL_iff]
    rw [preOKL_iff] at hpre
    exact mapM_ok_forall (stepG inl fuel) (fun t => preOKJ t = true) (fun b => noTextJ b = true)
      (fun t b hp hr => stepG_shape inl hinl fuel ih t b hp hr) toks out hrun hpre

/-- the second pass keeps the number of tokens at every level it returns -/
theorem iterRender_length (inl : Str → Except PyErr (List Json)) (fuel : Nat) (toks out : List Json)
    (hrun : iterRenderG inl fuel toks = .ok out) : out.length = toks.length := by
  cases fuel with
  | zero => simp [iterRenderG] at hrun
  | succ fuel =>
    rw [iterRenderG_succ] at hrun
    exact mapM_ok_length _ toks out hrun

/-- non-vacuity: a block token tree with nested `text` satisfies the precondition -/
example : preOKL [tok "block_quote" [("children", .arr [tok "paragraph" [("text", .str "a".toList)]])],
                  tok "heading" [("text", .str "h".toList), ("attrs", .obj [("level", .num 1)])]] = true := by
  decide

end Mistune
