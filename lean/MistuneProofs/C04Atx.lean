/-
C04 (ATX headings): the text computation of `parse_atx_heading` (`Model.Blk.atxText`): `m.group("atx_2").strip()`
followed by `_ATX_HEADING_TRIM.sub("", text)` with `_ATX_HEADING_TRIM = (\s+|^)#+\s*$` (no flags: `^` is `\A`, `$` is
"end, or before a final newline").

On a stripped non-empty text `t` the regex is evaluated exactly on the engine:
* `$` can only hold at `len(t)` (the last character of `t` is not white space, hence not a newline) and `\s*` matches
  nothing there, so every match ends at `len(t)` and has the shape `ws ++ hashes` (`ws` white space, non-empty unless the
  match starts at `0`; `hashes` a non-empty run of `#`);
* `hashes` is then the *maximal* trailing run of `#` of `t` and `ws` reaches back over the whole white space before it
  (the leftmost match wins), so there is at most one match and it cannot start before the last run.
-/
import MistuneProofs.C11Indent
namespace Mistune
open Mistune.Model Mistune.Model.Blk Mistune.Generated

/-! ### the regex, as expected; kernel-decided against the regenerated table -/

/-- `re.compile(r"(\s+|^)#+\s*$")` -/
def atxTrimRxExpected : Rx :=
  .seq (.grp 1 (.alt (.rep (.cls false [.cat false .space]) 1 none true) .bos))
    (.seq (.rep (.cls false [.chr 35]) 1 none true)
      (.seq (.rep (.cls false [.cat false .space]) 0 none true) .eos))

/-- **Obligation:** the regenerated `mistune.block_parser._ATX_HEADING_TRIM` is the expected term. -/
theorem atxTrimRx_lookup :
    namedRx.lookup "mistune.block_parser._ATX_HEADING_TRIM" = some atxTrimRxExpected := by
  decide +kernel

/-! ### trailing runs -/

/-- `l` without its maximal trailing run of characters satisfying `p` -/
def rdropWhile (p : Char → Bool) (l : Str) : Str := (l.reverse.dropWhile p).reverse

/-- the maximal trailing run of characters satisfying `p` -/
def rtakeWhile (p : Char → Bool) (l : Str) : Str := (l.reverse.takeWhile p).reverse

theorem rdrop_append_rtake (p : Char → Bool) (l : Str) : rdropWhile p l ++ rtakeWhile p l = l := by
  unfold rdropWhile rtakeWhile
  rw [← List.reverse_append, List.takeWhile_append_dropWhile, List.reverse_reverse]

theorem rtake_all (p : Char → Bool) (l : Str) : ∀ ch ∈ rtakeWhile p l, p ch = true := by
  intro ch h
  unfold rtakeWhile at h
  exact mem_takeWhile_pos (List.mem_reverse.mp h)

theorem rdrop_last (p : Char → Bool) (l : Str) (ch : Char) (h : (rdropWhile p l).getLast? = some ch) :
    p ch = false := by
  unfold rdropWhile at h
  rw [List.getLast?_reverse] at h
  exact head?_dropWhile_ne p _ ch h

theorem rstrip_eq (s : Str) : Py.rstrip s = rdropWhile isSpace s := rfl

/-- a trailing run cannot reach back over a character outside the class -/
theorem suffix_run (p : Char → Bool) (u r v s : Str) (h : u ++ r = v ++ s) (hr : ∀ ch ∈ r, p ch = true)
    (hv : ∀ ch, v.getLast? = some ch → p ch = false) : ∃ w, u = v ++ w ∧ s = w ++ r := by
  rcases List.append_eq_append_iff.mp h with ⟨a', h1, h2⟩ | ⟨c', h1, h2⟩
  · -- `v = u ++ a'`, `r = a' ++ s`
    rcases List.eq_nil_or_concat a' with rfl | ⟨a0, x, rfl⟩
    · exact ⟨[], by simpa using h1.symm, by simpa using h2.symm⟩
    · exfalso
      have hx : p x = true := hr x (by rw [h2]; simp)
      have : v.getLast? = some x := by
        rw [h1, List.concat_eq_append, ← List.append_assoc, List.getLast?_concat]
      rw [hv x this] at hx
      cases hx
  · exact ⟨c', h1, h2⟩

/-- the decomposition "no trailing class character, then a run of class characters" is unique -/
theorem run_split_unique (p : Char → Bool) (u r v s : Str) (h : u ++ r = v ++ s) (hr : ∀ ch ∈ r, p ch = true)
    (hs : ∀ ch ∈ s, p ch = true) (hu : ∀ ch, u.getLast? = some ch → p ch = false)
    (hv : ∀ ch, v.getLast? = some ch → p ch = false) : u = v ∧ r = s := by
  obtain ⟨w, h1, h2⟩ := suffix_run p u r v s h hr hv
  obtain ⟨w', h1', h2'⟩ := suffix_run p v s u r h.symm hs hu
  have hl : w.length = 0 := by
    have e1 := congrArg List.length h1
    have e2 := congrArg List.length h1'
    rw [List.length_append] at e1 e2
    omega
  have hw : w = [] := List.eq_nil_of_length_eq_zero hl
  subst hw
  simp only [List.append_nil, List.nil_append] at h1 h2
  exact ⟨h1, h2.symm⟩

theorem rdrop_of_split (p : Char → Bool) (v s : Str) (hs : ∀ ch ∈ s, p ch = true)
    (hv : ∀ ch, v.getLast? = some ch → p ch = false) : rdropWhile p (v ++ s) = v ∧ rtakeWhile p (v ++ s) = s :=
  run_split_unique p _ _ v s (rdrop_append_rtake p (v ++ s)) (rtake_all p _) hs (rdrop_last p _) hv

/-! ### the specification -/

def isHash (ch : Char) : Bool := ch == '#'

/-- The heading text: `t = g2.strip()`; `b` is `t` without its trailing run of `#`; `body` is `b` without the white
space at its end.
* `b` empty (`t` consists of `#`s only: a closing sequence alone, or `t` is empty): the result is empty;
* the run of `#` is non-empty and there is white space before it: the result is `body`;
* otherwise (no `#` at the end, or a `#` run that is glued to the text, as in `foo#` or `foo \#`): `t`. -/
def atxSpec (g2 : Str) : Str :=
  let t := Py.strip g2
  let b := rdropWhile isHash t
  let body := Py.rstrip b
  if b.isEmpty then []
  else if b.length < t.length && body.length < b.length then body
  else t

/-! ### the two character classes -/

theorem clsTest_space (ch : Char) : clsTest pyCats false [.cat false .space] ch.toNat = isSpace ch := by
  simp [clsTest, ClsItem.test, pyCats, isSpace]

theorem clsTest_hash (ch : Char) : clsTest pyCats false [.chr 35] ch.toNat = isHash ch :=
  clsTest_chr1 pyCats '#' ch

theorem isSpace_hash : isSpace '#' = false := by decide

theorem isSpace_nl : isSpace '\n' = true := by decide

theorem not_space_of_hash {ch : Char} (h : isHash ch = true) : isSpace ch = false := by
  have : ch = '#' := by simpa [isHash] using h
  rw [this]; exact isSpace_hash

theorem alt_some {R : Type} (x : RxCtx) (a b : Rx) (i : Nat) (c : Caps) (k : Nat → Caps → Option R)
    (h : (∃ r, a.m x i c k = some r) ∨ (∃ r, b.m x i c k = some r)) : ∃ r, (Rx.alt a b).m x i c k = some r := by
  simp only [Rx.m]
  cases ha : a.m x i c k with
  | some r => exact ⟨r, rfl⟩
  | none =>
    rcases h with ⟨r, hr⟩ | ⟨r, hr⟩
    · rw [ha] at hr; cases hr
    · exact ⟨r, hr⟩

/-! ### `(\s+|^)#+\s*$`: success -/

/-- the part after the group, at the start of a final run of `#` -/
theorem atxTail_m {R : Type} (a hs : Str) (hhs : ∀ ch ∈ hs, isHash ch = true) (hne : hs ≠ []) (c : Caps)
    (K : Nat → Caps → Option R) :
    (Rx.seq (.rep (.cls false [.chr 35]) 1 none true)
      (.seq (.rep (.cls false [.cat false .space]) 0 none true) .eos)).m (Py.ctxOf (a ++ hs)) a.length c K =
      K (a ++ hs).length c := by
  cases hK : K (a ++ hs).length c with
  | none =>
    -- the continuation is tried at most at `len`; use soundness to see that nothing else is returned
    cases hm : (Rx.seq (.rep (.cls false [.chr 35]) 1 none true)
      (.seq (.rep (.cls false [.cat false .space]) 0 none true) .eos)).m (Py.ctxOf (a ++ hs)) a.length c K with
    | none => rfl
    | some r =>
      exfalso
      obtain ⟨j, c', hs', hk⟩ := m_sound _ _ _ _ _ _ hm
      obtain ⟨i1, c1, h1, h2⟩ := spec_seq.mp hs'
      obtain ⟨cnt, _, _, hit⟩ := spec_rep.mp h1
      obtain ⟨rfl, rfl, hr⟩ := iter_cls hit
      obtain ⟨i2, c2, h3, h4⟩ := spec_seq.mp h2
      obtain ⟨cnt2, _, _, hit2⟩ := spec_rep.mp h3
      obtain ⟨rfl, rfl, hr2⟩ := iter_cls hit2
      simp only [Spec] at h4
      obtain ⟨h5, rfl, rfl⟩ := h4
      -- every `\s` iteration would sit on a `#`
      have hcnt : cnt ≤ hs.length := by
        rcases Nat.lt_or_ge hs.length cnt with hlt | hge
        · have := (hr hs.length hlt).1
          rw [ctxOf_n, List.length_append] at this
          omega
        · exact hge
      have hcnt2 : cnt2 = 0 := by
        rcases Nat.eq_zero_or_pos cnt2 with h0 | hpos
        · exact h0
        · exfalso
          obtain ⟨ch, hch, hsp⟩ := cls_at _ _ isSpace clsTest_space _ (hr2 0 hpos)
          have hlt : a.length + cnt + 0 < (a ++ hs).length := by
            have := (hr2 0 hpos).1; rwa [ctxOf_n] at this
          rw [List.length_append] at hlt
          rw [Nat.add_zero, List.getElem?_append_right (by omega), Nat.add_sub_cancel_left,
            List.getElem?_eq_getElem (by omega), Option.some.injEq] at hch
          have := not_space_of_hash (hhs ch (hch ▸ List.getElem_mem _))
          rw [this] at hsp; cases hsp
      subst hcnt2
      rw [ctxOf_n, List.length_append, Nat.add_zero] at h5
      have hend : a.length + cnt = a.length + hs.length := by
        rcases h5 with h5 | ⟨h5, h6⟩
        · exact h5
        · exfalso
          rw [ctxOf_chr, List.getElem?_append_right (by omega), Nat.add_sub_cancel_left,
            List.getElem?_eq_getElem (by omega), Option.getD_some] at h6
          have hmem : hs[cnt] ∈ hs := List.getElem_mem _
          have h7 : hs[cnt] = '#' := by simpa [isHash] using hhs _ hmem
          rw [h7] at h6
          cases h6
      rw [Nat.add_zero, hend, ← List.length_append, hK] at hk
      cases hk
  | some r =>
    have h3 := rep_greedy_list (a ++ hs) [] [] [.cat false .space] isSpace clsTest_space 0 none
      (fun j c' => Rx.eos.m (Py.ctxOf (a ++ hs)) j c' K) c r (by simp) (Or.inr (Or.inl rfl))
      (by intro m hm; cases hm) (by simp)
      (by simp only [Rx.m, ctxOf_n, List.length_nil, Nat.add_zero, beq_self_eq_true, Bool.true_or, if_true]
          exact hK)
    simp only [List.append_nil] at h3
    have h2 := rep_greedy_list a hs [] [.chr 35] isHash clsTest_hash 1 none
      (fun j c' => (Rx.seq (.rep (.cls false [.cat false .space]) 0 none true) .eos).m (Py.ctxOf (a ++ hs)) j c' K)
      c r hhs (Or.inr (Or.inl rfl)) (by intro m hm; cases hm)
      (by cases hs with
          | nil => exact absurd rfl hne
          | cons _ _ => simp)
      (by rw [m_seq, ← List.length_append]; exact h3)
    simp only [List.append_nil] at h2
    rw [m_seq]
    exact h2

/-- `(\s+|^)#+\s*$` matches where a white-space run (non-empty, unless at the start of the text) is followed by a run of
`#` up to the end -/
theorem atxTrim_matchAt_hit (a ws hs : Str) (hws : ∀ ch ∈ ws, isSpace ch = true) (hhs : ∀ ch ∈ hs, isHash ch = true)
    (hne : hs ≠ []) (h0 : ws ≠ [] ∨ a = []) :
    ∃ mt, atxTrimRxExpected.matchAt (Py.ctxOf (a ++ ws ++ hs)) a.length = some mt := by
  unfold Rx.matchAt atxTrimRxExpected
  rw [m_seq, m_grp]
  have htail : ∀ c : Caps, (Rx.seq (.rep (.cls false [.chr 35]) 1 none true)
      (.seq (.rep (.cls false [.cat false .space]) 0 none true) .eos)).m (Py.ctxOf (a ++ ws ++ hs))
        (a.length + ws.length) c (fun j c => some ({ start := a.length, stop := j, caps := c } : RxMatch)) =
      some { start := a.length, stop := (a ++ ws ++ hs).length, caps := c } := by
    intro c
    rw [← List.length_append]
    exact atxTail_m (a ++ ws) hs hhs hne c _
  apply alt_some
  by_cases hw : ws = []
  · -- at the start of the text: the `^` branch
    right
    subst hw
    have ha : a = [] := by
      rcases h0 with h | h
      · exact absurd rfl h
      · exact h
    subst ha
    exact ⟨_, by
      simp only [Rx.m, List.length_nil, beq_self_eq_true, if_true]
      exact htail _⟩
  · left
    obtain ⟨h, hs', rfl⟩ : ∃ h hs', hs = h :: hs' := by
      cases hs with
      | nil => exact absurd rfl hne
      | cons h hs' => exact ⟨h, hs', rfl⟩
    exact ⟨_, rep_greedy_list a ws (h :: hs') [.cat false .space] isSpace clsTest_space 1 none _ [] _ hws
      (Or.inr (Or.inr ⟨h, hs', rfl, not_space_of_hash (hhs h (by simp))⟩)) (by intro m hm; cases hm)
      (by cases ws with
          | nil => exact absurd rfl hw
          | cons _ _ => simp)
      (htail _)⟩

/-! ### `(\s+|^)#+\s*$`: what a match looks like (from soundness) -/

theorem spec_alt {x : RxCtx} {a b : Rx} {i : Nat} {c : Caps} {j : Nat} {c' : Caps} :
    Spec x (.alt a b) i c j c' ↔ Spec x a i c j c' ∨ Spec x b i c j c' := Iff.rfl

/-- On a text whose last character is not white space, a match ends at the end of the text and consists of white space
(non-empty unless the match starts at `0`) and a non-empty run of `#`. -/
theorem atxTrim_matchAt_sound (t : Str) (q : Nat) (mt : RxMatch)
    (hlast : ∀ ch, t.getLast? = some ch → isSpace ch = false)
    (h : atxTrimRxExpected.matchAt (Py.ctxOf t) q = some mt) :
    mt.start = q ∧ mt.stop = t.length ∧ ∃ ws hs, t.drop q = ws ++ hs ∧ (∀ ch ∈ ws, isSpace ch = true) ∧
      (∀ ch ∈ hs, isHash ch = true) ∧ hs ≠ [] ∧ (ws ≠ [] ∨ q = 0) := by
  obtain ⟨hst, hs⟩ := matchAt_sound _ _ _ _ h
  unfold atxTrimRxExpected at hs
  obtain ⟨i1, c1, hg, hs⟩ := spec_seq.mp hs
  obtain ⟨c0, halt, _⟩ := spec_grp.mp hg
  obtain ⟨i2, c2, hh, hs⟩ := spec_seq.mp hs
  obtain ⟨cnt2, hc2, _, hit2⟩ := spec_rep.mp hh
  obtain ⟨rfl, _, hr2⟩ := iter_cls hit2
  obtain ⟨i3, c3, hsp, he⟩ := spec_seq.mp hs
  obtain ⟨cnt3, _, _, hit3⟩ := spec_rep.mp hsp
  obtain ⟨rfl, _, hr3⟩ := iter_cls hit3
  simp only [Spec] at he
  obtain ⟨he, hstop, _⟩ := he
  rw [ctxOf_n] at he
  -- the last character
  have hlast' : ∀ i ch, i + 1 = t.length → t[i]? = some ch → isSpace ch = false := by
    intro i ch hi hch
    apply hlast
    rw [List.getLast?_eq_getElem?, ← hi, Nat.add_sub_cancel]
    exact hch
  -- `$` holds at the end only, `\s*` matches nothing
  have hend : cnt3 = 0 ∧ i1 + cnt2 = t.length := by
    rcases he with he | ⟨he1, he2⟩
    · rcases Nat.eq_zero_or_pos cnt3 with h0 | hpos
      · exact ⟨h0, by omega⟩
      · exfalso
        obtain ⟨ch, hch, hsp⟩ := cls_at t _ isSpace clsTest_space _ (hr3 (cnt3 - 1) (by omega))
        rw [hlast' _ ch (by omega) hch] at hsp
        cases hsp
    · exfalso
      have hlt : i1 + cnt2 + cnt3 < t.length := by omega
      rw [ctxOf_chr, List.getElem?_eq_getElem hlt, Option.getD_some] at he2
      have hnl : t[i1 + cnt2 + cnt3] = '\n' := Char.toNat_inj.mp he2
      have := hlast' _ _ he1 (List.getElem?_eq_getElem hlt)
      rw [hnl, isSpace_nl] at this
      cases this
  obtain ⟨h3, hlen⟩ := hend
  subst h3
  obtain ⟨hs', hhs1, hhs2, hhd⟩ := run_of_forall isHash cnt2 t i1
    (fun j hj => cls_at t _ isHash clsTest_hash _ (hr2 j hj))
  rw [hlen, List.drop_length, List.append_nil] at hhd
  have hne : hs' ≠ [] := by
    intro e
    rw [e] at hhs1
    simp at hhs1
    omega
  refine ⟨hst, by rw [hstop]; omega, ?_⟩
  rcases spec_alt.mp halt with hrep | hbos
  · obtain ⟨cnt1, hc1, _, hit1⟩ := spec_rep.mp hrep
    obtain ⟨rfl, _, hr1⟩ := iter_cls hit1
    obtain ⟨ws, hws1, hws2, hwd⟩ := run_of_forall isSpace cnt1 t q
      (fun j hj => cls_at t _ isSpace clsTest_space _ (hr1 j hj))
    refine ⟨ws, hs', by rw [hwd, hhd], hws2, hhs2, hne, Or.inl ?_⟩
    intro e
    rw [e] at hws1
    simp at hws1
    omega
  · simp only [Spec] at hbos
    obtain ⟨rfl, rfl, _⟩ := hbos
    exact ⟨[], hs', by rw [hhd]; rfl, by simp, hhs2, hne, Or.inr rfl⟩

/-! ### `sub` with at most one match, which ends at the end of the text -/

theorem reSub_no_match (r : Rx) (repl : Array Char → RxMatch → Str) (t : Str)
    (h : ∀ i, i ≤ t.length → r.matchAt (Py.ctxOf t) i = none) : Py.reSub r repl t = t := by
  show Py.reSub.go r repl (Py.ctxOf t) (t.length + 1 + 1) 0 0 [] = t
  have hs : r.search (Py.ctxOf t) 0 = none :=
    search_all_none _ _ _ (fun i _ hi => h i (by rwa [ctxOf_n] at hi))
  rw [Py.reSub.go, if_neg (by omega), hs]
  simp [ctxOf_s, ctxOf_n, slice_toArray]

theorem reSub_single (r : Rx) (t : Str) (q : Nat) (mt : RxMatch) (hq : q < t.length)
    (hfail : ∀ i, i < q → r.matchAt (Py.ctxOf t) i = none) (hm : r.matchAt (Py.ctxOf t) q = some mt)
    (hst : mt.start = q) (hstop : mt.stop = t.length) (hend : r.matchAt (Py.ctxOf t) t.length = none) :
    Py.reSub r (fun _ _ => []) t = t.take q := by
  show Py.reSub.go r _ (Py.ctxOf t) (t.length + 1 + 1) 0 0 [] = t.take q
  have hs : r.search (Py.ctxOf t) 0 = some mt :=
    search_first _ _ 0 q mt (Nat.zero_le _) (by rw [ctxOf_n]; omega) (fun i _ hi => hfail i hi) hm
  have hs2 : r.search (Py.ctxOf t) t.length = none :=
    search_all_none _ _ _ (fun i h1 h2 => by
      rw [ctxOf_n] at h2
      rw [show i = t.length by omega]; exact hend)
  rw [Py.reSub.go, if_neg (by omega), hs]
  simp only
  rw [hst, hstop, if_neg (by simp; omega), Py.reSub.go, if_neg (by rw [ctxOf_n]; omega), hs2]
  simp [ctxOf_s, ctxOf_n, slice_toArray]

/-! ### the positions where `(\s+|^)#+\s*$` matches, in terms of the trailing runs -/

/-- the core of the specification, on the stripped text -/
def atxCore (t : Str) : Str :=
  let b := rdropWhile isHash t
  let body := rdropWhile isSpace b
  if b.isEmpty then []
  else if b.length < t.length && body.length < b.length then body
  else t

theorem atxSpec_eq_core (g2 : Str) : atxSpec g2 = atxCore (Py.strip g2) := rfl

/-- a match at `i` forces a non-empty trailing run of `#` and, unless the text consists of `#`s only, white space
before that run, over which the match cannot reach back -/
theorem atx_match_shape (t : Str) (i : Nat) (mt : RxMatch)
    (hlast : ∀ ch, t.getLast? = some ch → isSpace ch = false)
    (h : atxTrimRxExpected.matchAt (Py.ctxOf t) i = some mt) :
    rtakeWhile isHash t ≠ [] ∧ (rdropWhile isHash t = [] ∨
      (rtakeWhile isSpace (rdropWhile isHash t) ≠ [] ∧ (rdropWhile isSpace (rdropWhile isHash t)).length ≤ i)) := by
  obtain ⟨_, _, ws, hs, hd, hws, hhs, hne, h0⟩ := atxTrim_matchAt_sound t i mt hlast h
  have hi : i ≤ t.length := by
    rcases Nat.lt_or_ge t.length i with h | h
    · rw [List.drop_eq_nil_of_le (by omega)] at hd
      have : hs = [] := (List.append_eq_nil_iff.mp hd.symm).2
      exact absurd this hne
    · exact h
  have ht : (t.take i ++ ws) ++ hs = rdropWhile isHash t ++ rtakeWhile isHash t := by
    rw [rdrop_append_rtake, List.append_assoc, ← hd, List.take_append_drop]
  have hu : ∀ ch, (t.take i ++ ws).getLast? = some ch → isHash ch = false := by
    intro ch hch
    rcases List.eq_nil_or_concat ws with rfl | ⟨w0, x, rfl⟩
    · rcases h0 with h0 | h0
      · exact absurd rfl h0
      · subst h0; simp at hch
    · rw [List.concat_eq_append, ← List.append_assoc, List.getLast?_concat, Option.some.injEq] at hch
      subst hch
      have hx : isSpace x = true := hws x (by simp)
      cases hh : isHash x with
      | false => rfl
      | true => rw [not_space_of_hash hh] at hx; cases hx
  obtain ⟨e1, e2⟩ := run_split_unique isHash _ hs _ _ ht hhs (rtake_all _ _) hu (rdrop_last _ _)
  refine ⟨e2 ▸ hne, ?_⟩
  rcases List.eq_nil_or_concat ws with rfl | ⟨w0, x, hw⟩
  · left
    rcases h0 with h0 | h0
    · exact absurd rfl h0
    · rw [← e1, h0]; rfl
  · right
    have hb : t.take i ++ ws = rdropWhile isSpace (rdropWhile isHash t) ++ rtakeWhile isSpace (rdropWhile isHash t) := by
      rw [rdrop_append_rtake, e1]
    obtain ⟨w, hw1, hw2⟩ := suffix_run isSpace _ ws _ _ hb hws (rdrop_last _ _)
    constructor
    · rw [hw2, hw]; simp
    · have := congrArg List.length hw1
      rw [List.length_append, List.length_take, Nat.min_eq_left hi] at this
      omega

/-- **`_ATX_HEADING_TRIM.sub("", t)`** for a non-empty text whose last character is not white space -/
theorem reSub_atxTrim (t : Str) (hne : t ≠ []) (hlast : ∀ ch, t.getLast? = some ch → isSpace ch = false) :
    Py.reSub atxTrimRxExpected (fun _ _ => []) t = atxCore t := by
  have hend : atxTrimRxExpected.matchAt (Py.ctxOf t) t.length = none := by
    cases hm : atxTrimRxExpected.matchAt (Py.ctxOf t) t.length with
    | none => rfl
    | some mt =>
      exfalso
      obtain ⟨_, _, ws, hs, hd, _, _, hn, _⟩ := atxTrim_matchAt_sound t _ mt hlast hm
      rw [List.drop_length] at hd
      exact hn (List.append_eq_nil_iff.mp hd.symm).2
  have htb := rdrop_append_rtake isHash t
  have hbw := rdrop_append_rtake isSpace (rdropWhile isHash t)
  have hlt : (rdropWhile isHash t).length + (rtakeWhile isHash t).length = t.length := by
    rw [← List.length_append, htb]
  have hlb : (rdropWhile isSpace (rdropWhile isHash t)).length + (rtakeWhile isSpace (rdropWhile isHash t)).length =
      (rdropWhile isHash t).length := by
    rw [← List.length_append, hbw]
  have hlen0 : ∀ l : Str, l ≠ [] → 0 < l.length := fun l hl => List.length_pos_iff.mpr hl
  unfold atxCore
  simp only
  by_cases hb : rdropWhile isHash t = []
  · -- only `#`s
    rw [hb, List.nil_append] at htb
    have hH : rtakeWhile isHash t ≠ [] := by rw [htb]; exact hne
    obtain ⟨mt, hm⟩ := atxTrim_matchAt_hit [] [] (rtakeWhile isHash t) (by simp) (rtake_all _ _) hH (Or.inr rfl)
    simp only [List.nil_append, List.length_nil] at hm
    rw [htb] at hm
    obtain ⟨hst, hstop, _⟩ := atxTrim_matchAt_sound t _ mt hlast hm
    rw [hb, reSub_single _ t 0 mt (hlen0 t hne) (fun i hi => by omega) hm hst hstop hend]
    rfl
  · rw [if_neg (by simpa using hb)]
    by_cases hc : rtakeWhile isHash t ≠ [] ∧ rtakeWhile isSpace (rdropWhile isHash t) ≠ []
    · obtain ⟨hH, hW⟩ := hc
      have h1 := hlen0 _ hH
      have h2 := hlen0 _ hW
      rw [if_pos (by simp only [Bool.and_eq_true, decide_eq_true_eq]; omega)]
      obtain ⟨mt, hm⟩ := atxTrim_matchAt_hit (rdropWhile isSpace (rdropWhile isHash t)) _ _
        (rtake_all isSpace (rdropWhile isHash t)) (rtake_all isHash t) hH (Or.inl hW)
      rw [hbw, htb] at hm
      obtain ⟨hst, hstop, _⟩ := atxTrim_matchAt_sound t _ mt hlast hm
      rw [reSub_single _ t _ mt (by omega) (fun i hi => by
          cases hmi : atxTrimRxExpected.matchAt (Py.ctxOf t) i with
          | none => rfl
          | some mt' =>
            exfalso
            obtain ⟨_, h3⟩ := atx_match_shape t i mt' hlast hmi
            rcases h3 with h3 | ⟨_, h3⟩
            · exact hb h3
            · omega) hm hst hstop hend]
      have ht : t = rdropWhile isSpace (rdropWhile isHash t) ++
          (rtakeWhile isSpace (rdropWhile isHash t) ++ rtakeWhile isHash t) := by
        rw [← List.append_assoc, hbw, htb]
      exact (congrArg (List.take (rdropWhile isSpace (rdropWhile isHash t)).length) ht).trans List.take_left
    · rw [if_neg (by
        simp only [Bool.and_eq_true, decide_eq_true_eq]
        intro ⟨h1, h2⟩
        apply hc
        constructor
        · intro e; rw [e] at hlt; simp at hlt; omega
        · intro e; rw [e] at hlb; simp at hlb; omega)]
      apply reSub_no_match
      intro i _
      cases hmi : atxTrimRxExpected.matchAt (Py.ctxOf t) i with
      | none => rfl
      | some mt' =>
        exfalso
        obtain ⟨h3, h4⟩ := atx_match_shape t i mt' hlast hmi
        rcases h4 with h4 | ⟨h4, _⟩
        · exact hb h4
        · exact hc ⟨h3, h4⟩

/-! ### `str.strip()` -/

theorem strip_def (s : Str) : Py.strip s = rdropWhile isSpace (s.dropWhile isSpace) := rfl

/-- the result of `strip()` does not end with white space -/
theorem strip_last (s : Str) (ch : Char) (h : (Py.strip s).getLast? = some ch) : isSpace ch = false :=
  rdrop_last isSpace _ ch h

/-- … nor start with white space -/
theorem strip_head (s : Str) (ch : Char) (h : (Py.strip s).head? = some ch) : isSpace ch = false := by
  rw [strip_def] at h
  have hu : ∀ c, (s.dropWhile isSpace).head? = some c → isSpace c = false := fun c hc => head?_dropWhile_ne _ s c hc
  generalize s.dropWhile isSpace = u at *
  have hpre := rdrop_append_rtake isSpace u
  generalize rdropWhile isSpace u = v at *
  cases v with
  | nil => simp at h
  | cons a v' =>
    simp only [List.head?_cons, Option.some.injEq] at h
    exact hu ch (by rw [← hpre, ← h]; rfl)

theorem dropWhile_all {p : Char → Bool} {l : Str} (h : ∀ ch ∈ l, p ch = true) : l.dropWhile p = [] := by
  have := List.dropWhile_append_of_pos (p := p) (l₁ := l) (l₂ := []) h
  simpa using this

/-- white space around a text that neither starts nor ends with white space is what `strip()` removes -/
theorem strip_pad (pad1 text pad2 : Str) (h1 : ∀ ch ∈ pad1, isSpace ch = true) (h2 : ∀ ch ∈ pad2, isSpace ch = true)
    (hh : ∀ ch, text.head? = some ch → isSpace ch = false) (hl : ∀ ch, text.getLast? = some ch → isSpace ch = false) :
    Py.strip (pad1 ++ text ++ pad2) = text := by
  rw [strip_def, List.append_assoc, List.dropWhile_append_of_pos h1]
  cases text with
  | nil => rw [List.nil_append, dropWhile_all h2]; rfl
  | cons a r =>
    rw [dropWhile_id_of_head (fun ch r' h => by
      simp only [List.cons_append, List.cons.injEq] at h
      exact hh ch (by rw [h.1]; rfl))]
    exact (rdrop_of_split isSpace _ _ h2 hl).1

theorem strip_eq_self_iff (text : Str) : Py.strip text = text ↔
    (∀ ch, text.head? = some ch → isSpace ch = false) ∧ (∀ ch, text.getLast? = some ch → isSpace ch = false) := by
  constructor
  · intro h
    exact ⟨fun ch hch => strip_head text ch (by rw [h]; exact hch), fun ch hch => strip_last text ch (by rw [h]; exact hch)⟩
  · intro ⟨h1, h2⟩
    have := strip_pad [] text [] (by simp) (by simp) h1 h2
    simpa using this

/-! ### the three cases of the specification -/

/-- a closing sequence alone -/
theorem atxCore_hashes (hs : Str) (hhs : ∀ ch ∈ hs, isHash ch = true) : atxCore hs = [] := by
  have := (rdrop_of_split isHash [] hs hhs (by simp)).1
  rw [List.nil_append] at this
  simp [atxCore, this]

/-- white space and a closing sequence after `body` -/
theorem atxCore_closing (body ws hs : Str) (hb : ∀ ch, body.getLast? = some ch → isSpace ch = false)
    (hws : ∀ ch ∈ ws, isSpace ch = true) (hw : ws ≠ []) (hhs : ∀ ch ∈ hs, isHash ch = true) (hh : hs ≠ []) :
    atxCore (body ++ ws ++ hs) = body := by
  have e1 : rdropWhile isHash (body ++ ws ++ hs) = body ++ ws := by
    refine (rdrop_of_split isHash (body ++ ws) hs hhs ?_).1
    intro ch hch
    rcases List.eq_nil_or_concat ws with rfl | ⟨w0, x, rfl⟩
    · exact absurd rfl hw
    · rw [List.concat_eq_append, ← List.append_assoc, List.getLast?_concat, Option.some.injEq] at hch
      subst hch
      have hx : isSpace x = true := hws x (by simp)
      cases hc : isHash x with
      | false => rfl
      | true => rw [not_space_of_hash hc] at hx; cases hx
  have e2 : rdropWhile isSpace (body ++ ws) = body := (rdrop_of_split isSpace body ws hws hb).1
  have l1 : 0 < ws.length := List.length_pos_iff.mpr hw
  have l2 : 0 < hs.length := List.length_pos_iff.mpr hh
  unfold atxCore
  simp only [e1, e2]
  rw [if_neg (by
    cases ws with
    | nil => exact absurd rfl hw
    | cons a r => simp), if_pos (by simp only [List.length_append, Bool.and_eq_true, decide_eq_true_eq]; omega)]

/-- no closing sequence, or one that is glued to the text (`foo#`, `foo \#`): nothing is removed -/
theorem atxCore_glued (u hs : Str) (hu : u ≠ [])
    (hlast : ∀ ch, u.getLast? = some ch → isHash ch = false ∧ isSpace ch = false)
    (hhs : ∀ ch ∈ hs, isHash ch = true) : atxCore (u ++ hs) = u ++ hs := by
  have e1 : rdropWhile isHash (u ++ hs) = u := (rdrop_of_split isHash u hs hhs (fun ch h => (hlast ch h).1)).1
  have e2 : rdropWhile isSpace u = u := by
    have := (rdrop_of_split isSpace u [] (by simp) (fun ch h => (hlast ch h).2)).1
    rwa [List.append_nil] at this
  unfold atxCore
  simp only [e1, e2]
  rw [if_neg (by
    cases u with
    | nil => exact absurd rfl hu
    | cons a r => simp), if_neg (by simp)]

/-- **the three cases are exhaustive**: the stripped text is a closing sequence alone (result empty), or ends with
white space and a closing sequence (both removed, whatever `body` is — it may itself end with `#`), or is kept. -/
theorem atxSpec_cases (g2 : Str) :
    ((∀ ch ∈ Py.strip g2, isHash ch = true) ∧ atxSpec g2 = []) ∨
    (∃ body ws hs, Py.strip g2 = body ++ ws ++ hs ∧ body ≠ [] ∧ (∀ ch, body.getLast? = some ch → isSpace ch = false) ∧
      (∀ ch ∈ ws, isSpace ch = true) ∧ ws ≠ [] ∧ (∀ ch ∈ hs, isHash ch = true) ∧ hs ≠ [] ∧ atxSpec g2 = body) ∨
    (∃ u hs, Py.strip g2 = u ++ hs ∧ u ≠ [] ∧ (∀ ch, u.getLast? = some ch → isHash ch = false ∧ isSpace ch = false) ∧
      (∀ ch ∈ hs, isHash ch = true) ∧ atxSpec g2 = Py.strip g2) := by
  rw [atxSpec_eq_core]
  have hl := strip_last g2
  have hhd := strip_head g2
  generalize Py.strip g2 = t at *
  have htb := rdrop_append_rtake isHash t
  have hbw := rdrop_append_rtake isSpace (rdropWhile isHash t)
  by_cases hb : rdropWhile isHash t = []
  · left
    rw [hb, List.nil_append] at htb
    have hall : ∀ ch ∈ t, isHash ch = true := by rw [← htb]; exact rtake_all _ _
    exact ⟨hall, atxCore_hashes t hall⟩
  · right
    by_cases hc : rtakeWhile isHash t ≠ [] ∧ rtakeWhile isSpace (rdropWhile isHash t) ≠ []
    · left
      refine ⟨rdropWhile isSpace (rdropWhile isHash t), rtakeWhile isSpace (rdropWhile isHash t), rtakeWhile isHash t,
        by rw [hbw, htb], ?_, rdrop_last _ _, rtake_all _ _, hc.2, rtake_all _ _, hc.1, ?_⟩
      · -- `t` does not start with white space
        intro e
        rw [e, List.nil_append] at hbw
        obtain ⟨a, r, har⟩ : ∃ a r, rtakeWhile isSpace (rdropWhile isHash t) = a :: r := by
          cases h : rtakeWhile isSpace (rdropWhile isHash t) with
          | nil => exact absurd h hc.2
          | cons a r => exact ⟨a, r, rfl⟩
        have ha : isSpace a = true := rtake_all isSpace (rdropWhile isHash t) a (by rw [har]; simp)
        have : t.head? = some a := by rw [← htb, ← hbw, har]; rfl
        rw [hhd a this] at ha
        cases ha
      · conv => lhs; rw [← htb, ← hbw]
        exact atxCore_closing _ _ _ (rdrop_last _ _) (rtake_all _ _) hc.2 (rtake_all _ _) hc.1
    · right
      have hlast : ∀ ch, (rdropWhile isHash t).getLast? = some ch → isHash ch = false ∧ isSpace ch = false := by
        intro ch hch
        refine ⟨rdrop_last _ _ ch hch, ?_⟩
        by_cases hH : rtakeWhile isHash t = []
        · rw [hH, List.append_nil] at htb
          exact hl ch (by rw [← htb]; exact hch)
        · have hW : rtakeWhile isSpace (rdropWhile isHash t) = [] := by
            cases h : rtakeWhile isSpace (rdropWhile isHash t) with
            | nil => rfl
            | cons a r => exact absurd ⟨hH, by rw [h]; simp⟩ hc
          rw [hW, List.append_nil] at hbw
          exact rdrop_last isSpace (rdropWhile isHash t) ch (by rw [hbw]; exact hch)
      refine ⟨rdropWhile isHash t, rtakeWhile isHash t, htb.symm, hb, hlast, rtake_all _ _, ?_⟩
      · conv => lhs; rw [← htb]
        conv => rhs; rw [← htb]
        exact atxCore_glued _ _ hb hlast (rtake_all _ _)

/-! ### `atxText` is the specification -/

/-- the refactoring of `parseAtxHeading` is syntactic -/
theorem atxText_def (cfg : MdCfg) (g2 : Str) :
    atxText cfg g2 = if !(Py.strip g2).isEmpty then
      Py.reSub (cfg.rx "mistune.block_parser._ATX_HEADING_TRIM") (fun _ _ => []) (Py.strip g2) else Py.strip g2 := rfl

/-- **`atxText` is `atxSpec`**, for every configuration whose `_ATX_HEADING_TRIM` is the expected regex -/
theorem atxText_eq_of_lookup (cfg : MdCfg)
    (h : cfg.named.lookup "mistune.block_parser._ATX_HEADING_TRIM" = some atxTrimRxExpected) (g2 : Str) :
    atxText cfg g2 = atxSpec g2 := by
  rw [atxText_def, atxSpec_eq_core, rx_of_lookup cfg _ _ h]
  by_cases he : Py.strip g2 = []
  · rw [he]; rfl
  · rw [if_pos (by
      cases hs : Py.strip g2 with
      | nil => exact absurd hs he
      | cons a r => rfl)]
    exact reSub_atxTrim _ he (strip_last g2)

/-- **…in particular for every regenerated configuration** (closed: the obligation is kernel-decided above) -/
theorem atxText_eq (cfg : MdCfg) (hcfg : cfg.named = Generated.namedRx) (g2 : Str) : atxText cfg g2 = atxSpec g2 :=
  atxText_eq_of_lookup cfg (by rw [hcfg]; exact atxTrimRx_lookup) g2

/-- every configuration the model is run with (`ofRuleCfg`) -/
theorem atxText_eq_ofRuleCfg (c : RuleCfg) (g2 : Str) : atxText (ofRuleCfg c) g2 = atxSpec g2 :=
  atxText_eq (ofRuleCfg c) rfl g2

/-! ### the properties -/

/-- **a heading text without closing sequence comes out verbatim**: `text` non-empty, without white space at its ends,
not ending with `#`; the padding is any white space (newlines included: `\s` and `strip()` use the same class). -/
theorem atx_plain_verbatim (cfg : MdCfg) (hcfg : cfg.named = Generated.namedRx) (pad1 text pad2 : Str)
    (hne : text ≠ []) (hstrip : Py.strip text = text) (hlast : text.getLast? ≠ some '#')
    (h1 : ∀ ch ∈ pad1, isSpace ch = true) (h2 : ∀ ch ∈ pad2, isSpace ch = true) :
    atxText cfg (pad1 ++ text ++ pad2) = text := by
  obtain ⟨hh, hl⟩ := (strip_eq_self_iff text).mp hstrip
  rw [atxText_eq cfg hcfg, atxSpec_eq_core, strip_pad pad1 text pad2 h1 h2 hh hl]
  have := atxCore_glued text [] hne (fun ch hch => ⟨by
    cases hc : isHash ch with
    | false => rfl
    | true =>
      have : ch = '#' := by simpa [isHash] using hc
      rw [this] at hch
      exact absurd hch hlast, hl ch hch⟩) (by simp)
  rwa [List.append_nil] at this

/-- **a closing sequence is removed together with the white space before it**: `text` is any text without white space
at its ends — it may be empty (`# ##`) and it may itself end with `#` (`# a # #` gives `a #`, `# foo# #` gives `foo#`):
only the last run of `#` goes. -/
theorem atx_closing_removed (cfg : MdCfg) (hcfg : cfg.named = Generated.namedRx) (pad1 text sp hashes pad2 : Str)
    (hstrip : Py.strip text = text)
    (hsp : ∀ ch ∈ sp, isSpace ch = true) (hspne : sp ≠ [])
    (hhs : ∀ ch ∈ hashes, ch = '#') (hhne : hashes ≠ [])
    (h1 : ∀ ch ∈ pad1, isSpace ch = true) (h2 : ∀ ch ∈ pad2, isSpace ch = true) :
    atxText cfg (pad1 ++ text ++ sp ++ hashes ++ pad2) = text := by
  obtain ⟨hh, hl⟩ := (strip_eq_self_iff text).mp hstrip
  have hhs' : ∀ ch ∈ hashes, isHash ch = true := fun ch hch => by simp [isHash, hhs ch hch]
  obtain ⟨x, hs', rfl⟩ : ∃ x hs', hashes = x :: hs' := by
    cases hashes with
    | nil => exact absurd rfl hhne
    | cons x hs' => exact ⟨x, hs', rfl⟩
  have hx : isSpace x = false := not_space_of_hash (hhs' x (by simp))
  rw [atxText_eq cfg hcfg, atxSpec_eq_core]
  cases text with
  | nil =>
    -- a closing sequence alone
    have : Py.strip (pad1 ++ [] ++ sp ++ x :: hs' ++ pad2) = x :: hs' := by
      have := strip_pad (pad1 ++ sp) (x :: hs') pad2 (by
        intro ch hch
        rcases List.mem_append.mp hch with h | h
        · exact h1 ch h
        · exact hsp ch h) h2 (by
        intro ch hch
        simp only [List.head?_cons, Option.some.injEq] at hch
        rw [← hch]; exact hx) (by
        intro ch hch
        exact not_space_of_hash (hhs' ch (List.mem_of_getLast? hch)))
      simpa using this
    rw [this]
    exact atxCore_hashes _ hhs'
  | cons a r =>
    have : Py.strip (pad1 ++ a :: r ++ sp ++ x :: hs' ++ pad2) = a :: r ++ sp ++ x :: hs' := by
      have := strip_pad pad1 (a :: r ++ sp ++ x :: hs') pad2 h1 h2 (by
        intro ch hch
        exact hh ch (by simpa using hch)) (by
        intro ch hch
        apply not_space_of_hash
        apply hhs'
        apply List.mem_of_getLast?
        rw [List.getLast?_append] at hch
        cases hg : (x :: hs').getLast? with
        | none => simp at hg
        | some y => rw [hg] at hch; simpa using hch)
      simpa using this
    rw [this]
    exact atxCore_closing (a :: r) sp (x :: hs') hl hsp hspne hhs' (by simp)

/-- a run of `#` that is glued to the text is kept (`# foo#`, `# foo \#`) -/
theorem atx_glued_kept (cfg : MdCfg) (hcfg : cfg.named = Generated.namedRx) (pad1 u hashes pad2 : Str)
    (hu : u ≠ []) (hhead : ∀ ch, u.head? = some ch → isSpace ch = false)
    (hlast : ∀ ch, u.getLast? = some ch → ch ≠ '#' ∧ isSpace ch = false)
    (hhs : ∀ ch ∈ hashes, ch = '#')
    (h1 : ∀ ch ∈ pad1, isSpace ch = true) (h2 : ∀ ch ∈ pad2, isSpace ch = true) :
    atxText cfg (pad1 ++ (u ++ hashes) ++ pad2) = u ++ hashes := by
  have hhs' : ∀ ch ∈ hashes, isHash ch = true := fun ch hch => by simp [isHash, hhs ch hch]
  rw [atxText_eq cfg hcfg, atxSpec_eq_core, strip_pad pad1 (u ++ hashes) pad2 h1 h2 (by
    intro ch hch
    cases u with
    | nil => exact absurd rfl hu
    | cons a r => exact hhead ch (by simpa using hch)) (by
    intro ch hch
    rw [List.getLast?_append] at hch
    cases hg : hashes.getLast? with
    | none => rw [hg] at hch; exact (hlast ch (by simpa using hch)).2
    | some y =>
      rw [hg] at hch
      simp only [Option.some_or, Option.some.injEq] at hch
      subst hch
      exact not_space_of_hash (hhs' y (List.mem_of_getLast? hg)))]
  exact atxCore_glued u hashes hu (fun ch hch => ⟨by
    cases hc : isHash ch with
    | false => rfl
    | true => exact absurd (by simpa [isHash] using hc) (hlast ch hch).1, (hlast ch hch).2⟩) hhs'

/-! ### the handler -/

/-- the token `parse_atx_heading` appends -/
def atxToken (text : Str) (level : Nat) : Json :=
  tok "heading" [("text", .str text), ("attrs", .obj [("level", .num level)]), ("style", Json.s "atx")]

/-- **`parse_atx_heading`**: never raises, never declines; appends one `heading` token whose text is
`atxText cfg (m.group("atx_2"))` and whose level is `len(m.group("atx_1"))`, and returns `m.end() + 1`. -/
theorem parseAtxHeading_eq (cfg : MdCfg) (mt : RxMatch) (st : BlockState) :
    parseAtxHeading cfg mt st =
      .ok (some (mt.stop + 1), st.appendToken
        (atxToken (atxText cfg (grp cfg st mt "atx_2")) (grp cfg st mt "atx_1").length)) := rfl

theorem atxToken_fields (text : Str) (level : Nat) :
    (atxToken text level).type = "heading" ∧ (atxToken text level).getStr? "text" = some text ∧
    ((atxToken text level).get? "attrs").bind (fun a => a.getInt? "level") = some (level : Int) ∧
    (atxToken text level).getStr? "style" = some "atx".toList := by
  refine ⟨rfl, ?_, ?_, ?_⟩ <;>
    simp [atxToken, tok, Json.getStr?, Json.get?, Json.getInt?, Json.s, List.lookup]

/-- the handler with the text computation replaced by its specification -/
theorem parseAtxHeading_spec (cfg : MdCfg) (hcfg : cfg.named = Generated.namedRx) (mt : RxMatch) (st : BlockState) :
    parseAtxHeading cfg mt st =
      .ok (some (mt.stop + 1), st.appendToken
        (atxToken (atxSpec (grp cfg st mt "atx_2")) (grp cfg st mt "atx_1").length)) := by
  rw [parseAtxHeading_eq, atxText_eq cfg hcfg]

/-- `parse_thematic_break` (no text computation): one `thematic_break` token, returns `m.end() + 1` -/
theorem parseThematicBreak_eq (mt : RxMatch) (st : BlockState) :
    parseThematicBreak mt st = .ok (some (mt.stop + 1), st.appendToken (tok "thematic_break" [])) := rfl

/-! ### instances -/

section AtxExamples

/-- the configuration the examples run with (any `ofRuleCfg c` has `named = namedRx` by definition) -/
abbrev atxCfg : MdCfg := ofRuleCfg cfg_core

/-- the closing sequence, the blanks before it and the blanks after it go (model on the engine, then specification) -/
example : atxText atxCfg "foo ## ".toList = "foo".toList := by decide
example : atxSpec "foo ## ".toList = "foo".toList := by decide

/-- a closing sequence alone: the `^` branch of `(\s+|^)` -/
example : atxText atxCfg "#".toList = [] := by decide
example : atxSpec "#".toList = [] := by decide

/-- only the LAST run goes: the leftmost match of `(\s+|^)#+\s*$` cannot start at the first ` #` (after `#+\s*` the
engine is at `b`, not at the end) -/
example : atxText atxCfg "a # b #".toList = "a # b".toList := by decide
example : atxSpec "a # b #".toList = "a # b".toList := by decide

/-- … also when only white space separates the two runs: `\s*$` after the first `#` fails at the second `#` -/
example : atxText atxCfg "a # #".toList = "a #".toList := by decide
example : atxSpec "a # #".toList = "a #".toList := by decide

/-- a glued `#` is not a closing sequence -/
example : atxText atxCfg "foo#".toList = "foo#".toList := by decide
example : atxSpec "foo#".toList = "foo#".toList := by decide

/-- an escaped `#` is kept — not because of the backslash as such: `\` is not white space, so the run is glued -/
example : atxText atxCfg "foo \\#".toList = "foo \\#".toList := by decide
example : atxSpec "foo \\#".toList = "foo \\#".toList := by decide

/-- `body` may consist of `#`s: `# # #` (group `atx_2` = `"# #"`) is the heading `#` -/
example : atxText atxCfg "# #".toList = "#".toList := by decide

/-- white space is the Unicode class, newlines included (`atx_2` cannot contain one, but the theorems do not need that) -/
example : atxText atxCfg "a\t\n #\n".toList = "a".toList := by decide
example : atxText atxCfg "a\u00a0#".toList = "a".toList := by decide

/-- `atxText_eq` / `atx_closing_removed` / `atx_plain_verbatim` instantiated -/
example : atxText atxCfg " a # #  ## \n".toList = atxSpec " a # #  ## \n".toList := atxText_eq atxCfg rfl _

example : atxText atxCfg " a # #  ## \n".toList = "a # #".toList :=
  atx_closing_removed atxCfg rfl " ".toList "a # #".toList "  ".toList "##".toList " \n".toList
    (by decide) (by decide) (by decide) (by decide) (by decide) (by decide) (by decide)

example : atxText atxCfg "  foo # bar\t".toList = "foo # bar".toList :=
  atx_plain_verbatim atxCfg rfl "  ".toList "foo # bar".toList "\t".toList (by decide) (by decide) (by decide)
    (by decide) (by decide)

/-- `foo \#` ends with `#`: `atx_plain_verbatim` does not apply, `atx_glued_kept` does (`u = "foo \"`) -/
example : atxText atxCfg "  foo \\#\t".toList = "foo \\#".toList :=
  atx_glued_kept atxCfg rfl "  ".toList "foo \\".toList "#".toList "\t".toList (by decide) (by decide) (by decide)
    (by decide) (by decide) (by decide)

/-- the handler on the root state of `"# foo ##\n"`, match `[0, 8)`, `atx_1 = [0, 1)`, `atx_2 = [1, 8)` -/
def exSt : BlockState := BlockState.root "# foo ##\n".toList
def exMt : RxMatch := { start := 0, stop := 8, caps := [(2, (1, 8)), (1, (0, 1))] }

example : parseAtxHeading atxCfg exMt exSt =
    .ok (some 9, exSt.appendToken
      (atxToken (atxText atxCfg (grp atxCfg exSt exMt "atx_2")) (grp atxCfg exSt exMt "atx_1").length)) :=
  parseAtxHeading_eq _ _ _

example : grp atxCfg exSt exMt "atx_2" = " foo ##".toList ∧
    atxText atxCfg (grp atxCfg exSt exMt "atx_2") = "foo".toList ∧ (grp atxCfg exSt exMt "atx_1").length = 1 := by
  decide

end AtxExamples


end Mistune
