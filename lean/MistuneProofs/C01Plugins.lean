/-
C01 (termination / progress), per-handler contract for the inline rules of the plugins
(`Mistune.Model.InlinePlugins`: formatting, url, math, speedup, spoiler, ruby) and the block rules of `math` / `speedup`
(`Mistune.Model.BlockPluginsA`).

The generic theorems of `C01Loops` need, for every handler, the progress contract K₁ ("a truthy return value lies
strictly after the start of the trigger match").  For the core handlers K₁ is monitored on traced runs; for the
plugin handlers transcribed here it is PROVED, about the functions the driver executes, in the stronger form

  the position returned by the handler is at or after the END of the trigger match      (`…_spec`, first part)

together with frame facts of the same handlers:

  a handler that declines (`None`) leaves the state untouched
  a handler leaves `src`, the matching context and the `in_*` flags as they are          (`Inl.Frame`)
  a handler only appends to `state.tokens` (and may write `env`)                         (`Inl.Extends`)

The last one holds for every handler that does not go through `inline.process_text`; for `url_link` (inside a link)
and speedup's `text`, which do, it holds when the plugin `abbr` is absent (its `process_text` takes a preceding text
token back and scans it again: the token list can change at its end).

`plugin_inline_progress` combines them at the dispatch `Inl.parseMethod`: for these rules the `noProgress` branch of
`Inl.parseLoop` (`p ≤ pos`) is unreachable as soon as the rule's pattern consumes a character (`allCfgs_consume`).
-/
import Mistune.Model.Inline
import Mistune.Model.BlockDispatch
import MistuneProofs.Engine.Sound
import MistuneProofs.Engine.Analyses
namespace Mistune
open Model Model.Inl

/-! ### the frame relations -/

/-- `st'` is `st` with tokens appended and possibly another `env`: same `src` and flags -/
def Inl.Extends (st st' : InlineState) : Prop :=
  ∃ (l : Array Json) (env : Json), st' = { st with tokens := st.tokens ++ l, env := env }

theorem Inl.Extends.refl (st : InlineState) : Inl.Extends st st := ⟨#[], st.env, by simp⟩

theorem Inl.Extends.append (st : InlineState) (t : Json) : Inl.Extends st (st.appendToken t) :=
  ⟨#[t], st.env, by simp [InlineState.appendToken]⟩

theorem Inl.Extends.setEnv (st : InlineState) (e : Json) : Inl.Extends st { st with env := e } :=
  ⟨#[], e, by simp⟩

theorem Inl.Extends.trans {a b c : InlineState} (h1 : Inl.Extends a b) (h2 : Inl.Extends b c) : Inl.Extends a c := by
  obtain ⟨l1, e1, rfl⟩ := h1
  obtain ⟨l2, e2, rfl⟩ := h2
  exact ⟨l1 ++ l2, e2, by simp [Array.append_assoc]⟩

/-- `st'` has the subject and the flags of `st` (tokens and `env` are free) -/
structure Inl.Frame (st st' : InlineState) : Prop where
  src : st'.src = st.src
  x : st'.x = st.x
  inImage : st'.inImage = st.inImage
  inLink : st'.inLink = st.inLink
  inEmphasis : st'.inEmphasis = st.inEmphasis
  inStrong : st'.inStrong = st.inStrong

theorem Inl.Frame.refl (st : InlineState) : Inl.Frame st st := ⟨rfl, rfl, rfl, rfl, rfl, rfl⟩

theorem Inl.Frame.trans {a b c : InlineState} (h1 : Inl.Frame a b) (h2 : Inl.Frame b c) : Inl.Frame a c :=
  ⟨h2.src.trans h1.src, h2.x.trans h1.x, h2.inImage.trans h1.inImage, h2.inLink.trans h1.inLink,
   h2.inEmphasis.trans h1.inEmphasis, h2.inStrong.trans h1.inStrong⟩

theorem Inl.Extends.frame {st st' : InlineState} (h : Inl.Extends st st') : Inl.Frame st st' := by
  obtain ⟨l, e, rfl⟩ := h
  exact ⟨rfl, rfl, rfl, rfl, rfl, rfl⟩

theorem Inl.Frame.append (st : InlineState) (t : Json) : Inl.Frame st (st.appendToken t) :=
  (Inl.Extends.append st t).frame

/-- `renderChildren` hands the handler's own state back, with the `env` the children left -/
theorem renderChildren_ext (R : Rec) (child st : InlineState) (c : Array Json) (st' : InlineState)
    (h : renderChildren R child st = .ok (c, st')) : Inl.Extends st st' := by
  unfold renderChildren Rec.renderIn at h
  simp only [bind, Except.bind, pure, Except.pure] at h
  split at h
  · cases h
  · cases h; exact Inl.Extends.setEnv _ _

/-! ### `inline.process_text` (the method of `InlineParser`, or the function of the plugin `abbr`) -/

theorem abbrLoop_frame (ref : Json) (keys : List Str) : ∀ (fuel : Nat) (rest : Str) (z : Bool) (st st' : InlineState),
    abbrLoop ref keys fuel rest z st = .ok st' → Inl.Frame st st' := by
  intro fuel
  induction fuel with
  | zero => intro rest z st st' h; simp [abbrLoop] at h
  | succ fuel ih =>
    intro rest z st st' h
    have hfin : Inl.Frame st (if z = true then st.appendToken (textTok rest)
        else if (!rest.isEmpty) = true then st.appendToken (textTok rest) else st) := by
      split
      · exact Inl.Frame.append _ _
      · split
        · exact Inl.Frame.append _ _
        · exact Inl.Frame.refl _
    simp only [abbrLoop] at h
    split at h
    · cases h; exact hfin
    · split at h
      · cases h; exact hfin
      · rename_i off label _
        split at h
        · cases h
        · split at h
          · cases h
          · have := ih _ _ _ _ h
            refine Inl.Frame.trans ?_ this
            refine Inl.Frame.trans ?_ (Inl.Frame.append _ _)
            split
            · exact Inl.Frame.append _ _
            · exact Inl.Frame.refl _

theorem abbrProcessText_frame (text : Str) (st st' : InlineState) (h : abbrProcessText text st = .ok st') :
    Inl.Frame st st' := by
  unfold abbrProcessText at h
  dsimp only at h
  split at h
  · cases h; exact Inl.Frame.append _ _
  · refine Inl.Frame.trans ?_ (abbrLoop_frame _ _ _ _ _ _ _ h)
    split
    · split
      · exact ⟨rfl, rfl, rfl, rfl, rfl, rfl⟩
      · exact Inl.Frame.refl _
    · exact Inl.Frame.refl _

theorem processTextC_frame (cfg : MdCfg) (text : Str) (st st' : InlineState) (h : processTextC cfg text st = .ok st') :
    Inl.Frame st st' := by
  unfold processTextC at h
  split at h
  · exact abbrProcessText_frame _ _ _ h
  · cases h; exact Inl.Frame.append _ _

/-- without the plugin `abbr`, `process_text` appends one text token -/
theorem processTextC_ext (cfg : MdCfg) (text : Str) (st st' : InlineState)
    (hab : (cfg.blockSpec.lookup "ref_abbr").isSome = false) (h : processTextC cfg text st = .ok st') :
    Inl.Extends st st' := by
  unfold processTextC at h
  rw [hab] at h
  cases h
  exact Inl.Extends.append _ _

/-! ### `_parse_to_end` (strikethrough, mark, insert) -/

/-- `_parse_to_end`: an accepted span ends at or after the end of the opening delimiter, a declined one leaves the
state as it was, and the state is only extended -/
theorem parseToEnd_spec (R : Rec) (ty : String) (re : Rx) (m : RxMatch) (st : InlineState) (r : Option Nat)
    (st' : InlineState) (h : parseToEnd R ty re m st = .ok (r, st')) :
    (∀ p, r = some p → m.stop ≤ p) ∧ (r = none → st' = st) ∧ Inl.Extends st st' := by
  unfold parseToEnd at h
  simp only [bind, Except.bind, pure, Except.pure] at h
  split at h
  · cases h
    exact ⟨fun p hp => (by cases hp), fun _ => rfl, Inl.Extends.refl _⟩
  · rename_i m1 hm1
    have hs := search_sound st.x re m.stop m1 hm1
    split at h
    · cases h
    · rename_i v hv
      obtain ⟨c, s⟩ := v
      have he := renderChildren_ext _ _ _ _ _ hv
      cases h
      refine ⟨?_, fun hn => (by cases hn), Inl.Extends.trans he (Inl.Extends.append _ _)⟩
      intro p hp
      cases hp
      omega

/-! ### handlers that always accept at `m.end()` -/

theorem parseScript_spec (R : Rec) (ty : String) (m : RxMatch) (st : InlineState) (r : Option Nat)
    (st' : InlineState) (h : parseScript R ty m st = .ok (r, st')) : r = some m.stop ∧ Inl.Extends st st' := by
  unfold parseScript at h
  simp only [bind, Except.bind, pure, Except.pure] at h
  split at h
  · cases h
  · rename_i v hv
    obtain ⟨c, s⟩ := v
    have he := renderChildren_ext _ _ _ _ _ hv
    cases h
    exact ⟨rfl, Inl.Extends.trans he (Inl.Extends.append _ _)⟩

theorem parseInlineSpoiler_spec (cfg : MdCfg) (R : Rec) (m : RxMatch) (st : InlineState) (r : Option Nat)
    (st' : InlineState) (h : parseInlineSpoiler cfg R m st = .ok (r, st')) : r = some m.stop ∧ Inl.Extends st st' := by
  unfold parseInlineSpoiler at h
  simp only [bind, Except.bind, pure, Except.pure] at h
  split at h
  · cases h
  · rename_i v hv
    obtain ⟨c, s⟩ := v
    have he := renderChildren_ext _ _ _ _ _ hv
    cases h
    exact ⟨rfl, Inl.Extends.trans he (Inl.Extends.append _ _)⟩

/-- `parse_url_link` accepts at `m.end()`; inside a link it goes through `process_text` -/
theorem parseUrlLink_spec (cfg : MdCfg) (m : RxMatch) (st : InlineState) (r : Option Nat)
    (st' : InlineState) (h : parseUrlLink cfg m st = .ok (r, st')) :
    r = some m.stop ∧ Inl.Frame st st' ∧ ((cfg.blockSpec.lookup "ref_abbr").isSome = false → Inl.Extends st st') := by
  unfold parseUrlLink at h
  simp only [bind, Except.bind, pure, Except.pure] at h
  split at h
  · split at h
    · cases h
    · rename_i v hv
      cases h
      exact ⟨rfl, processTextC_frame _ _ _ _ hv, fun hab => processTextC_ext _ _ _ _ hab hv⟩
  · split at h
    · cases h
    · cases h
      exact ⟨rfl, Inl.Frame.append _ _, fun _ => Inl.Extends.append _ _⟩

theorem parseInlineMath_spec (cfg : MdCfg) (m : RxMatch) (st : InlineState) (r : Option Nat)
    (st' : InlineState) (h : parseInlineMath cfg m st = .ok (r, st')) : r = some m.stop ∧ Inl.Extends st st' := by
  unfold parseInlineMath at h
  cases h
  exact ⟨rfl, Inl.Extends.append _ _⟩

/-- speedup's `parse_text` accepts at `m.end()` and goes through `process_text` -/
theorem parseText_spec (cfg : MdCfg) (m : RxMatch) (st : InlineState) (r : Option Nat)
    (st' : InlineState) (h : parseText cfg m st = .ok (r, st')) :
    r = some m.stop ∧ Inl.Frame st st' ∧ ((cfg.blockSpec.lookup "ref_abbr").isSome = false → Inl.Extends st st') := by
  unfold parseText at h
  simp only [bind, Except.bind, pure, Except.pure] at h
  split at h
  · cases h
  · rename_i v hv
    cases h
    exact ⟨rfl, processTextC_frame _ _ _ _ hv, fun hab => processTextC_ext _ _ _ _ hab hv⟩

/-! ### positions returned by the link helpers (helpers.py) -/

/-- `pattern.match(s, pos)`: the span starts at `pos` and does not end before it (no assumption on `pos`) -/
theorem matchAt_le (x : RxCtx) (r : Rx) (pos : Nat) (mt : RxMatch) (h : r.matchAt x pos = some mt) :
    mt.start = pos ∧ pos ≤ mt.stop := by
  obtain ⟨h1, h2⟩ := matchAt_sound x r pos mt h
  have := minLen_sound x r pos [] mt.stop mt.caps h2
  exact ⟨h1, by omega⟩

theorem parseLinkHref_ge (cfg : MdCfg) (x : RxCtx) (startPos : Nat) (block : Bool) (href : Str) (p : Nat)
    (h : parseLinkHref cfg x startPos block = .ok (some (href, p))) : startPos ≤ p + 1 := by
  unfold parseLinkHref at h
  split at h
  · rename_i m hm
    have := matchAt_le _ _ _ _ hm
    dsimp only at h
    split at h
    · rename_i m2 hm2
      have := matchAt_le _ _ _ _ hm2
      cases h
      omega
    · cases h
  · dsimp only at h
    split at h
    · cases h
    · rename_i m hm
      have hge : startPos ≤ m.stop := by
        split at hm
        · exact (matchAt_le _ _ _ _ hm).2
        · exact (matchAt_le _ _ _ _ hm).2
      simp only [bind, Except.bind, pure, Except.pure] at h
      repeat' first
        | (cases h; omega)
        | (cases h; done)
        | split at h

theorem parseLinkTitle_ge (cfg : MdCfg) (x : RxCtx) (sp mp : Nat) (t : Str) (p : Nat)
    (h : parseLinkTitle cfg x sp mp = some (t, p)) : sp ≤ p := by
  unfold parseLinkTitle at h
  split at h
  · rename_i m hm
    have := matchAt_le _ _ _ _ hm
    cases h
    omega
  · cases h

theorem parseLinkLabel_ge (cfg : MdCfg) (x : RxCtx) (sp : Nat) (l : Str) (p : Nat)
    (h : parseLinkLabel cfg x sp = some (l, p)) : sp ≤ p := by
  unfold parseLinkLabel at h
  split at h
  · rename_i m hm
    have := matchAt_le _ _ _ _ hm
    cases h
    omega
  · cases h

theorem parseLinkH_ge (cfg : MdCfg) (x : RxCtx) (pos : Nat) (attrs : Json) (e : Nat)
    (h : parseLinkH cfg x pos = .ok (some (attrs, e))) : pos ≤ e + 1 := by
  unfold parseLinkH at h
  simp only [bind, Except.bind, pure, Except.pure] at h
  split at h
  · cases h
  · rename_i v hv
    split at h
    · cases h
    · rename_i href hrefPos
      have h1 := parseLinkHref_ge _ _ _ _ _ _ hv
      split at h
      · cases h
      · rename_i m hm
        have h2 := matchAt_le _ _ _ _ hm
        have h3 : hrefPos ≤ m.stop := by
          refine Nat.le_trans ?_ h2.2
          split
          · rename_i t tp ht
            have := parseLinkTitle_ge _ _ _ _ _ _ ht
            split <;> omega
          · omega
        split at h
        · cases h
        · cases h
          omega
/-! ### ruby -/

theorem foldl_appendToken_extends (l : List Json) (st : InlineState) :
    Inl.Extends st (l.foldl (fun s t => s.appendToken t) st) := by
  induction l generalizing st with
  | nil => exact Inl.Extends.refl _
  | cons t l ih => exact Inl.Extends.trans (Inl.Extends.append st t) (ih _)

/-- the `while True` loop of `parse_ruby` ends at or after the end of the first group and only appends tokens -/
theorem rubyLoop_spec (cfg : MdCfg) : ∀ (fuel : Nat) (m : RxMatch) (st : InlineState) (toks : List Json) (e : Nat)
    (st' : InlineState), rubyLoop cfg fuel m st = .ok (toks, e, st') → m.stop ≤ e ∧ Inl.Extends st st' := by
  intro fuel
  induction fuel with
  | zero => intro m st toks e st' h; simp [rubyLoop] at h
  | succ fuel ih =>
    intro m st toks e st' h
    simp only [rubyLoop, bind, Except.bind, pure, Except.pure] at h
    split at h
    · cases h
    · split at h
      · cases h
        exact ⟨Nat.le_refl _, Inl.Extends.refl _⟩
      · rename_i next hnext
        have h1 := matchAt_le _ _ _ _ hnext
        obtain ⟨h2, h3⟩ := ih _ _ _ _ _ h
        exact ⟨by omega, Inl.Extends.trans (foldl_appendToken_extends _ _) h3⟩

/-- `_parse_ruby_link`: a link position is at or after `pos`; a declined tail leaves the state untouched -/
theorem parseRubyLink_spec (cfg : MdCfg) (st : InlineState) (pos : Nat) (tokens : List Json) (r : Option Nat)
    (st' : InlineState) (h : parseRubyLink cfg st pos tokens = .ok (r, st')) :
    (∀ p, r = some p → pos ≤ p) ∧ (r = none → st' = st) ∧ Inl.Extends st st' := by
  unfold parseRubyLink at h
  simp only [bind, Except.bind, pure, Except.pure] at h
  split at h
  · cases h
  · split at h
    · -- "("
      split at h
      · cases h
      · rename_i v hv
        split at h
        · rename_i attrs linkPos
          have := parseLinkH_ge _ _ _ _ _ hv
          split at h
          · cases h
            exact ⟨fun p hp => (by cases hp; omega), fun hn => (by cases hn), Inl.Extends.append _ _⟩
          · cases h
            exact ⟨fun p hp => (by cases hp), fun _ => rfl, Inl.Extends.refl _⟩
        · cases h
          exact ⟨fun p hp => (by cases hp), fun _ => rfl, Inl.Extends.refl _⟩
    · split at h
      · -- "["
        split at h
        · rename_i label linkPos hl
          have := parseLinkLabel_ge _ _ _ _ _ hl
          split at h
          · have hpos : ∀ p, some linkPos = some p → pos ≤ p := fun p hp => (by cases hp; omega)
            have hext : Inl.Extends st ((tokens.foldl (fun s t => s.appendToken t) st).appendToken
                (textTok (['['] ++ label ++ [']']))) :=
              Inl.Extends.trans (foldl_appendToken_extends _ _) (Inl.Extends.append _ _)
            repeat' first
              | (cases h; exact ⟨hpos, fun hn => (by cases hn), Inl.Extends.append _ _⟩)
              | (cases h; exact ⟨hpos, fun hn => (by cases hn), hext⟩)
              | (cases h; done)
              | split at h
          · cases h
            exact ⟨fun p hp => (by cases hp), fun _ => rfl, Inl.Extends.refl _⟩
        · cases h
          exact ⟨fun p hp => (by cases hp), fun _ => rfl, Inl.Extends.refl _⟩
      · cases h
        exact ⟨fun p hp => (by cases hp), fun _ => rfl, Inl.Extends.refl _⟩

/-- `parse_ruby` never declines, returns a position at or after `m.end()` and only appends tokens -/
theorem parseRuby_spec (cfg : MdCfg) (m : RxMatch) (st : InlineState) (r : Option Nat) (st' : InlineState)
    (h : parseRuby cfg m st = .ok (r, st')) : (∃ p, r = some p ∧ m.stop ≤ p) ∧ Inl.Extends st st' := by
  unfold parseRuby at h
  simp only [bind, Except.bind, pure, Except.pure] at h
  split at h
  · cases h
  · rename_i v hv
    obtain ⟨toks, e, s1⟩ := v
    obtain ⟨h1, h2⟩ := rubyLoop_spec _ _ _ _ _ _ _ hv
    dsimp only at h
    have key : ∀ (w : Option Nat × InlineState),
        ((∀ p, w.1 = some p → e ≤ p) ∧ (w.1 = none → w.2 = s1) ∧ Inl.Extends s1 w.2) →
        (if posTruthy w.1 = true then (Except.ok (w.1, w.2) : HRes)
          else Except.ok (some e, List.foldl (fun s t => s.appendToken t) w.2 toks)) = .ok (r, st') →
        (∃ p, r = some p ∧ m.stop ≤ p) ∧ Inl.Extends st st' := by
      intro w h3 hh
      obtain ⟨lp, s2⟩ := w
      dsimp only at h3 hh
      split at hh
      · rename_i ht
        cases hh
        cases r with
        | none => simp [posTruthy] at ht
        | some p => exact ⟨⟨p, rfl, by have := h3.1 p rfl; omega⟩, Inl.Extends.trans h2 h3.2.2⟩
      · cases hh
        exact ⟨⟨e, rfl, h1⟩, Inl.Extends.trans h2 (Inl.Extends.trans h3.2.2 (foldl_appendToken_extends _ _))⟩
    split at h
    · -- `end_pos < len(state.src)`: the link tail
      split at h
      · cases h
      · rename_i w hw
        exact key w (parseRubyLink_spec _ _ _ _ _ _ hw) h
    · exact key (none, s1) ⟨fun p hp => (by cases hp), fun _ => rfl, Inl.Extends.refl _⟩ h

/-! ### at the dispatch -/

/-- the contract of one handler call: position, decline, frame -/
def Inl.Contract (m : RxMatch) (st : InlineState) (r : Option Nat) (st' : InlineState) : Prop :=
  (∀ p, r = some p → m.stop ≤ p) ∧ (r = none → st' = st) ∧ Inl.Frame st st'

theorem Inl.Contract.ofAccept {m : RxMatch} {st : InlineState} {r : Option Nat} {st' : InlineState}
    (h : r = some m.stop ∧ Inl.Frame st st') : Inl.Contract m st r st' := by
  obtain ⟨rfl, he⟩ := h
  exact ⟨fun p hp => (by cases hp; exact Nat.le_refl _), fun hn => (by cases hn), he⟩

/-- the plugin rules whose handlers are covered by `plugin_inline_contract`: every inline rule that
`Mistune.Model.InlinePlugins` transcribes -/
def provedPluginRules : List String :=
  ["strikethrough", "mark", "insert", "superscript", "subscript", "url_link", "inline_math", "text", "inline_spoiler",
   "ruby"]

/-- Every call `self._methods[name](m, state)` of a plugin rule of `provedPluginRules` that returns normally
returns a position at or after `m.end()` (or `None`, and then the state is untouched), and leaves the subject and
the flags of the state as they are. -/
theorem plugin_inline_contract (cfg : MdCfg) (R : Rec) (name : String) (m : RxMatch) (st : InlineState)
    (r : Option Nat) (st' : InlineState) (hn : name ∈ provedPluginRules)
    (h : Inl.parseMethod cfg R name m st = .ok (r, st')) : Inl.Contract m st r st' := by
  unfold Inl.parseMethod at h
  split at h
  · cases h
  · simp only [provedPluginRules, List.mem_cons, List.not_mem_nil, or_false] at hn
    rcases hn with rfl | rfl | rfl | rfl | rfl | rfl | rfl | rfl | rfl | rfl
    · have := parseToEnd_spec _ _ _ _ _ _ _ h; exact ⟨this.1, this.2.1, this.2.2.frame⟩
    · have := parseToEnd_spec _ _ _ _ _ _ _ h; exact ⟨this.1, this.2.1, this.2.2.frame⟩
    · have := parseToEnd_spec _ _ _ _ _ _ _ h; exact ⟨this.1, this.2.1, this.2.2.frame⟩
    · have := parseScript_spec _ _ _ _ _ _ h; exact Inl.Contract.ofAccept ⟨this.1, this.2.frame⟩
    · have := parseScript_spec _ _ _ _ _ _ h; exact Inl.Contract.ofAccept ⟨this.1, this.2.frame⟩
    · have := parseUrlLink_spec _ _ _ _ _ h; exact Inl.Contract.ofAccept ⟨this.1, this.2.1⟩
    · have := parseInlineMath_spec _ _ _ _ _ h; exact Inl.Contract.ofAccept ⟨this.1, this.2.frame⟩
    · have := parseText_spec _ _ _ _ _ h; exact Inl.Contract.ofAccept ⟨this.1, this.2.1⟩
    · have := parseInlineSpoiler_spec _ _ _ _ _ _ h; exact Inl.Contract.ofAccept ⟨this.1, this.2.frame⟩
    · obtain ⟨⟨p, rfl, hp⟩, he⟩ := parseRuby_spec _ _ _ _ _ h
      exact ⟨fun q hq => (by cases hq; exact hp), fun hn => (by cases hn), he.frame⟩

/-- The same calls only append to `state.tokens` (and may write `env`): unconditionally for the rules that do not go
through `inline.process_text`, and for `url_link` / `text` when the plugin `abbr` is not installed. -/
theorem plugin_inline_appends (cfg : MdCfg) (R : Rec) (name : String) (m : RxMatch) (st : InlineState)
    (r : Option Nat) (st' : InlineState) (hn : name ∈ provedPluginRules)
    (hab : name = "url_link" ∨ name = "text" → (cfg.blockSpec.lookup "ref_abbr").isSome = false)
    (h : Inl.parseMethod cfg R name m st = .ok (r, st')) : Inl.Extends st st' := by
  unfold Inl.parseMethod at h
  split at h
  · cases h
  · simp only [provedPluginRules, List.mem_cons, List.not_mem_nil, or_false] at hn
    rcases hn with rfl | rfl | rfl | rfl | rfl | rfl | rfl | rfl | rfl | rfl
    · exact (parseToEnd_spec _ _ _ _ _ _ _ h).2.2
    · exact (parseToEnd_spec _ _ _ _ _ _ _ h).2.2
    · exact (parseToEnd_spec _ _ _ _ _ _ _ h).2.2
    · exact (parseScript_spec _ _ _ _ _ _ h).2
    · exact (parseScript_spec _ _ _ _ _ _ h).2
    · exact (parseUrlLink_spec _ _ _ _ _ h).2.2 (hab (Or.inl rfl))
    · exact (parseInlineMath_spec _ _ _ _ _ h).2
    · exact (parseText_spec _ _ _ _ _ h).2.2 (hab (Or.inr rfl))
    · exact (parseInlineSpoiler_spec _ _ _ _ _ _ h).2
    · exact (parseRuby_spec _ _ _ _ _ h).2

/-- K₁ (the progress contract of `C01Loops`) for the plugin rules: when the trigger match is non-empty (every rule
of every regenerated configuration consumes a character: obligation `allCfgs_consume`), a truthy return value lies
strictly after the match start, so the scanner loop `Inl.parseLoop`, whose cursor is `≤ m.start`, advances. -/
theorem plugin_inline_progress (cfg : MdCfg) (R : Rec) (name : String) (m : RxMatch) (st : InlineState)
    (p : Nat) (st' : InlineState) (hn : name ∈ provedPluginRules) (hm : m.start < m.stop)
    (h : Inl.parseMethod cfg R name m st = .ok (some p, st')) : m.start < p := by
  have := (plugin_inline_contract cfg R name m st _ st' hn h).1 p rfl
  omega

/-! ### non-vacuity: concrete calls (kernel-evaluated on the regenerated configuration `only-strikethrough`) -/

section Examples
open Generated

private def exCfg : MdCfg := ofRuleCfg cfg_only_strikethrough
private def exM : RxMatch := { start := 0, stop := 2, caps := [] }
private def exSt (s : String) : InlineState := (InlineState.new (.obj [])).setSrc s.toList

/-- `~~a~~`: the handler of `strikethrough` accepts (the hypotheses of `plugin_inline_progress` hold) … -/
example : ∃ p st', Inl.parseMethod exCfg (recAt exCfg 3) "strikethrough" exM (exSt "~~a~~") = .ok (some p, st') ∧
    "strikethrough" ∈ provedPluginRules ∧ exM.start < exM.stop := by
  have h : (match Inl.parseMethod exCfg (recAt exCfg 3) "strikethrough" exM (exSt "~~a~~") with
      | .ok (some _, _) => true | _ => false) = true := by decide +kernel
  split at h
  · exact ⟨_, _, ‹_›, by decide, by decide⟩
  · cases h

/-- … and returns 5 = `len("~~a~~")`, with one token appended -/
example : (match Inl.parseMethod exCfg (recAt exCfg 3) "strikethrough" exM (exSt "~~a~~") with
    | .ok (some p, st') => p == 5 && st'.tokens.size == 1 | _ => false) = true := by decide +kernel

/-- `~~a`: no closing delimiter, the handler declines (`None`) -/
example : (match Inl.parseMethod exCfg (recAt exCfg 3) "strikethrough" exM (exSt "~~a") with
    | .ok (none, st') => st'.tokens.size == 0 | _ => false) = true := by decide +kernel

/-- a rule that the configuration does not have is not bound: `KeyError` (the contract is about normal returns) -/
example : (match Inl.parseMethod exCfg (recAt exCfg 3) "mark" exM (exSt "==a==") with
    | .error .keyError => true | _ => false) = true := by decide +kernel

/-- the hypothesis of `plugin_inline_appends` on `abbr` holds in the configurations without that plugin … -/
example : ((ofRuleCfg cfg_only_speedup).blockSpec.lookup "ref_abbr").isSome = false := by decide +kernel

/-- … and is needed: with `abbr` (configuration `all-speedup`), the `text` handler called after the text token `HT`
on the rest `ML` of `HTML` takes that token back and leaves ONE token, the abbreviation `HTML` -/
example :
    let cfg := ofRuleCfg cfg_all_speedup
    let st : InlineState :=
      { (InlineState.new (.obj [("ref_abbrs", .obj [("HTML", .str "x".toList)])])).setSrc "HTML".toList with
        tokens := #[textTok "HT".toList] }
    (match Inl.parseMethod cfg (recAt cfg 3) "text" { start := 2, stop := 4, caps := [] } st with
      | .ok (some p, st') => p == 4 && st'.tokens.size == 1 && (st'.tokens.map Json.type).toList == ["abbr"]
      | _ => false) = true := by decide +kernel

end Examples

/-! ### block rules of `math` and `speedup` -/

open Model.Blk in
/-- `parse_block_math` returns `m.end() + 1` and appends one token -/
theorem parseBlockMath_spec (cfg : MdCfg) (mt : RxMatch) (st : BlockState) (r : Option Nat) (st' : BlockState)
    (h : parseBlockMath cfg mt st = .ok (r, st')) :
    r = some (mt.stop + 1) ∧ st'.tokens.length = st.tokens.length + 1 ∧ st'.cursor = st.cursor ∧ st'.env = st.env := by
  unfold parseBlockMath at h
  cases h
  simp [BlockState.appendToken]

open Model.Blk in
/-- speedup's `parse_paragraph` returns `m.end()`: with a non-empty trigger match (`allCfgs_consume`) the block loop
advances; it changes nothing but the token list, which does not shrink -/
theorem parseParagraph_spec (mt : RxMatch) (st : BlockState) (r : Option Nat) (st' : BlockState)
    (h : parseParagraph mt st = .ok (r, st')) :
    r = some mt.stop ∧ st.tokens.length ≤ st'.tokens.length ∧ st'.cursor = st.cursor ∧ st'.env = st.env := by
  unfold parseParagraph at h
  simp only [bind, Except.bind, pure, Except.pure] at h
  split at h
  · cases h
  · rename_i s hs
    cases h
    unfold BlockState.addParagraph at hs
    simp only [bind, Except.bind, pure, Except.pure] at hs
    split at hs
    · cases hs
    · split at hs
      · split at hs
        · cases hs
        · cases hs
          refine ⟨rfl, ?_, rfl, rfl⟩
          simp only [BlockState.setLastToken, List.length_append, List.length_dropLast, List.length_cons,
            List.length_nil]
          omega
      · cases hs
        refine ⟨rfl, ?_, rfl, rfl⟩
        simp [BlockState.appendToken]

end Mistune
