/-
C05 for the concrete model: the grammar of the BLOCK PASS (tokens that still carry `text`), `preSeq`, and its
algebra (field updates that do not touch the five grammar fields, monotonicity in the fuel, literal tokens).
`C05GrammarBridge` shows that the second pass turns a `preSeq` tree into a `wfSeq` tree.
-/
import MistuneProofs.C05GrammarBase
namespace Mistune

/-! ### `get?` of updated tokens -/

theorem lookup_map_set (k k' : String) (v : Json) (kv : List (String × Json)) (h : k' ≠ k) :
    (kv.map (fun p => if p.1 == k then (k, v) else p)).lookup k' = kv.lookup k' := by
  induction kv with
  | nil => rfl
  | cons p kv ih =>
    obtain ⟨a, b⟩ := p
    simp only [List.map_cons]
    by_cases hak : a = k
    · subst hak
      have h1 : (k' == a) = false := by simpa using h
      simp [List.lookup, h1]
      simpa using ih
    · have h0 : (a == k) = false := by simpa using hak
      simp only [h0]
      by_cases h1 : k' = a
      · subst h1; simp [List.lookup]
      · have h2 : (k' == a) = false := by simpa using h1
        simp [List.lookup, h2]
        simpa using ih

theorem lookup_append_ne (k k' : String) (v : Json) (kv : List (String × Json)) (h : k' ≠ k) :
    (kv ++ [(k, v)]).lookup k' = kv.lookup k' := by
  induction kv with
  | nil =>
    have h1 : (k' == k) = false := by simpa using h
    simp [List.lookup, h1]
  | cons p kv ih =>
    obtain ⟨a, b⟩ := p
    simp only [List.cons_append, List.lookup]
    split
    · rfl
    · exact ih

theorem get?_set_ne (t : Json) (k k' : String) (v : Json) (h : k' ≠ k) : (t.set k v).get? k' = t.get? k' := by
  cases t with
  | obj kv =>
    simp only [Json.set]
    split
    · simp only [Json.get?]; exact lookup_map_set k k' v kv h
    · simp only [Json.get?]; exact lookup_append_ne k k' v kv h
  | _ => rfl

theorem lookup_map_set_self (k : String) (v : Json) (kv : List (String × Json))
    (h : kv.any (fun p => p.1 == k) = true) :
    (kv.map (fun p => if p.1 == k then (k, v) else p)).lookup k = some v := by
  induction kv with
  | nil => simp at h
  | cons p kv ih =>
    obtain ⟨a, b⟩ := p
    simp only [List.map_cons]
    by_cases hak : a = k
    · subst hak
      simp [List.lookup]
    · have h0 : (a == k) = false := by simpa using hak
      have h1 : (k == a) = false := by simpa using (fun e : k = a => hak e.symm)
      simp only [h0, List.any_cons, Bool.false_or] at h
      simp [List.lookup, h0, h1]
      simpa using ih h

theorem lookup_append_self (k : String) (v : Json) (kv : List (String × Json))
    (h : ¬ kv.any (fun p => p.1 == k) = true) : (kv ++ [(k, v)]).lookup k = some v := by
  induction kv with
  | nil => simp [List.lookup]
  | cons p kv ih =>
    obtain ⟨a, b⟩ := p
    simp only [List.any_cons, Bool.or_eq_true, not_or] at h
    have h1 : (k == a) = false := by
      have := h.1
      simp only [beq_iff_eq] at this
      simpa using (fun e : k = a => this e.symm)
    simp only [List.cons_append, List.lookup, h1]
    exact ih h.2

theorem get?_set_self (kv : List (String × Json)) (k : String) (v : Json) :
    ((Json.obj kv).set k v).get? k = some v := by
  simp only [Json.set]
  split
  · rename_i h; simp only [Json.get?]; exact lookup_map_set_self k v kv h
  · rename_i h; simp only [Json.get?]; exact lookup_append_self k v kv h

theorem get?_erase_ne (t : Json) (k k' : String) (h : k' ≠ k) : (t.erase k).get? k' = t.get? k' := by
  cases t with
  | obj kv =>
    simp only [Json.erase, Json.get?]
    induction kv with
    | nil => rfl
    | cons p kv ih =>
      obtain ⟨a, b⟩ := p
      simp only [List.filter_cons]
      by_cases hak : a = k
      · subst hak
        have h1 : (k' == a) = false := by simpa using h
        simp [List.lookup, h1, ih]
      · have h0 : (a != k) = true := by simpa using hak
        simp only [h0, if_true, List.lookup]
        split
        · rfl
        · exact ih
  | _ => rfl

theorem isObj_of_get? (t : Json) (k : String) (v : Json) (h : t.get? k = some v) : ∃ kv, t = .obj kv := by
  cases t with
  | obj kv => exact ⟨kv, rfl⟩
  | _ => simp [Json.get?] at h

/-! ### the grammar of the block pass -/

def isBlockCtx : TokCtx → Bool
  | .block => true
  | _ => false

def isItemCtx : TokCtx → Bool
  | .only allowed => allowed.contains "list_item"
  | _ => false

def optHas (o : Option Json) : Bool := o.isSome

def attrsOkB : Option Json → Bool
  | some (.obj _) => true
  | none => true
  | _ => false

def optStr : Option Json → Bool
  | some (.str _) => true
  | _ => false

def optArr : Option Json → Bool
  | some (.arr _) => true
  | _ => false

def optList : Option Json → List Json
  | some (.arr l) => l
  | _ => []

/-- `attrs` is absent or an object, and of the shape `attrsShape` for the type -/
def attrsOkT (ty : String) (a : Option Json) : Bool := attrsOkB a && attrsShape ty a

theorem attrsOkT_B {ty : String} {a : Option Json} (h : attrsOkT ty a = true) : attrsOkB a = true := by
  simp only [attrsOkT, Bool.and_eq_true] at h; exact h.1

theorem attrsOkT_none (ty : String) : attrsOkT ty none = true := rfl

/-- for types other than link / image / block_code the shape does not depend on the type -/
theorem attrsOkT_congr (ty ty' : String) (a : Option Json)
    (h1 : ty ≠ "link" ∧ ty ≠ "image" ∧ ty ≠ "block_code") (h2 : ty' ≠ "link" ∧ ty' ≠ "image" ∧ ty' ≠ "block_code") :
    attrsOkT ty' a = attrsOkT ty a := by
  obtain ⟨a1, a2, a3⟩ := h1
  obtain ⟨b1, b2, b3⟩ := h2
  have e1 : (ty == "link") = false := by simpa using a1
  have e2 : (ty == "image") = false := by simpa using a2
  have e3 : (ty == "block_code") = false := by simpa using a3
  have f1 : (ty' == "link") = false := by simpa using b1
  have f2 : (ty' == "image") = false := by simpa using b2
  have f3 : (ty' == "block_code") = false := by simpa using b3
  unfold attrsOkT attrsShape
  cases a with
  | none => rfl
  | some v => cases v <;> simp only [e1, e2, e3, f1, f2, f3]

/-- the check of one block-pass token as a function of its five grammar fields; `rec` checks a list of children -/
def preView (rec : List Json → TokCtx → Nat → Bool) (tyJ attrsJ rawJ chJ textJ : Option Json)
    (ctx : TokCtx) (depth mx : Nat) : Bool :=
  match tyJ with
  | some (.str tyS) =>
    let ty := String.ofList tyS
    let attrs := attrsJ.getD (.obj [])
    decide (depth ≤ mx) &&
    attrsOkT ty attrsJ &&
    (if ty == "paragraph" || ty == "block_text" then
       isBlockCtx ctx && optStr textJ && !optHas rawJ && !optHas chJ
     else if ty == "heading" then
       isBlockCtx ctx && optStr textJ && !optHas rawJ && !optHas chJ &&
         (match attrs.getInt? "level" with | some n => decide (1 ≤ n) && decide (n ≤ 6) | none => false)
     else if ty == "block_code" || ty == "block_html" || ty == "block_math" then
       isBlockCtx ctx && optStr rawJ && !optHas textJ && !optHas chJ
     else if ty == "thematic_break" || ty == "blank_line" then
       isBlockCtx ctx && !optHas rawJ && !optHas textJ && !optHas chJ
     else if ty == "block_quote" || ty == "block_spoiler" then
       isBlockCtx ctx && decide (depth + 1 ≤ mx) && optArr chJ && !optHas rawJ && !optHas textJ &&
         rec (optList chJ) .block (depth + 1)
     else if ty == "list" then
       isBlockCtx ctx && decide (depth + 1 ≤ mx) && optArr chJ && !optHas rawJ && !optHas textJ &&
         (match attrs.get? "ordered" with | some (.bool _) => true | _ => false) && isIntJ (attrs.get? "depth") &&
         (match attrs.get? "start" with | none => true | some (.num _) => true | _ => false) &&
         rec (optList chJ) (.only ["list_item", "task_list_item"]) (depth + 1)
     else if ty == "list_item" then
       isItemCtx ctx && optArr chJ && !optHas rawJ && !optHas textJ &&
         rec (optList chJ) .block depth
     else false)
  | _ => false

/-- the check of one block-pass token -/
def preTok (rec : List Json → TokCtx → Nat → Bool) (t : Json) (ctx : TokCtx) (depth mx : Nat) : Bool :=
  preView rec (t.get? "type") (t.get? "attrs") (t.get? "raw") (t.get? "children") (t.get? "text") ctx depth mx

/-- the grammar of the block pass on a token list (core rules); fuel bounds the depth of the tree -/
def preSeq : Nat → List Json → TokCtx → Nat → Nat → Bool
  | 0, _, _, _, _ => false
  | fuel + 1, toks, ctx, depth, mx =>
    toks.all (fun t => preTok (fun cs c d => preSeq fuel cs c d mx) t ctx depth mx)

theorem preSeq_iff (fuel : Nat) (toks : List Json) (ctx : TokCtx) (d mx : Nat) :
    preSeq (fuel + 1) toks ctx d mx = true ↔ ∀ t ∈ toks, preSeq (fuel + 1) [t] ctx d mx = true := by
  simp only [preSeq, List.all_eq_true, List.all_cons, List.all_nil, Bool.and_true]

theorem preSeq_single (fuel : Nat) (t : Json) (ctx : TokCtx) (d mx : Nat) :
    preSeq (fuel + 1) [t] ctx d mx = preTok (fun cs c d => preSeq fuel cs c d mx) t ctx d mx := by
  simp only [preSeq, List.all_cons, List.all_nil, Bool.and_true]

theorem preSeq_nil (fuel : Nat) (ctx : TokCtx) (d mx : Nat) : preSeq (fuel + 1) [] ctx d mx = true := by
  simp [preSeq]

theorem preSeq_append (fuel : Nat) (a b : List Json) (ctx : TokCtx) (d mx : Nat) :
    preSeq (fuel + 1) (a ++ b) ctx d mx = (preSeq (fuel + 1) a ctx d mx && preSeq (fuel + 1) b ctx d mx) := by
  simp only [preSeq, List.all_append]

/-- the check depends on the five grammar fields only -/
theorem preTok_congr (rec : List Json → TokCtx → Nat → Bool) (t t' : Json) (ctx : TokCtx) (d mx : Nat)
    (h1 : t'.get? "type" = t.get? "type") (h2 : t'.get? "attrs" = t.get? "attrs") (h3 : t'.get? "raw" = t.get? "raw")
    (h4 : t'.get? "children" = t.get? "children") (h5 : t'.get? "text" = t.get? "text") :
    preTok rec t' ctx d mx = preTok rec t ctx d mx := by
  simp only [preTok, h1, h2, h3, h4, h5]

theorem preView_mono (rec rec' : List Json → TokCtx → Nat → Bool)
    (h : ∀ cs c d, rec cs c d = true → rec' cs c d = true) (tyJ attrsJ rawJ chJ textJ : Option Json)
    (ctx : TokCtx) (d mx : Nat)
    (ht : preView rec tyJ attrsJ rawJ chJ textJ ctx d mx = true) : preView rec' tyJ attrsJ rawJ chJ textJ ctx d mx = true := by
  unfold preView at ht ⊢
  split
  · rename_i tyS
    simp only [Bool.and_eq_true] at ht ⊢
    refine ⟨ht.1, ?_⟩
    have ht2 := ht.2
    clear ht
    revert ht2
    repeat' split
    all_goals first
      | exact id
      | (simp only [Bool.and_eq_true]; rintro ⟨a, b⟩; exact ⟨a, h _ _ _ b⟩)
  · simp at ht

theorem preTok_mono (rec rec' : List Json → TokCtx → Nat → Bool)
    (h : ∀ cs c d, rec cs c d = true → rec' cs c d = true) (t : Json) (ctx : TokCtx) (d mx : Nat)
    (ht : preTok rec t ctx d mx = true) : preTok rec' t ctx d mx = true :=
  preView_mono rec rec' h _ _ _ _ _ ctx d mx ht

theorem preSeq_mono : ∀ (fuel : Nat) (toks : List Json) (ctx : TokCtx) (d mx : Nat),
    preSeq fuel toks ctx d mx = true → preSeq (fuel + 1) toks ctx d mx = true := by
  intro fuel
  induction fuel with
  | zero => intro toks ctx d mx h; simp [preSeq] at h
  | succ n ih =>
    intro toks ctx d mx h
    unfold preSeq at h ⊢
    rw [List.all_eq_true] at h ⊢
    intro t ht
    exact preTok_mono _ _ (fun cs c d' hh => ih cs c d' mx hh) t ctx d mx (h t ht)

theorem preSeq_mono_le {n m : Nat} (h : n ≤ m) (toks : List Json) (ctx : TokCtx) (d mx : Nat)
    (hw : preSeq n toks ctx d mx = true) : preSeq m toks ctx d mx = true := by
  induction h with
  | refl => exact hw
  | step _ ih => exact preSeq_mono _ _ _ _ _ ih

/-- updating a field that the grammar does not look at -/
theorem preSeq_set_other (fuel : Nat) (t : Json) (k : String) (v : Json) (ctx : TokCtx) (d mx : Nat)
    (hk : k ≠ "type" ∧ k ≠ "attrs" ∧ k ≠ "raw" ∧ k ≠ "children" ∧ k ≠ "text") :
    preSeq (fuel + 1) [t.set k v] ctx d mx = preSeq (fuel + 1) [t] ctx d mx := by
  obtain ⟨a1, a2, a3, a4, a5⟩ := hk
  rw [preSeq_single, preSeq_single]
  exact preTok_congr _ _ _ _ _ _ (get?_set_ne _ _ _ _ (Ne.symm a1)) (get?_set_ne _ _ _ _ (Ne.symm a2))
    (get?_set_ne _ _ _ _ (Ne.symm a3)) (get?_set_ne _ _ _ _ (Ne.symm a4)) (get?_set_ne _ _ _ _ (Ne.symm a5))

theorem preSeq_erase_other (fuel : Nat) (t : Json) (k : String) (ctx : TokCtx) (d mx : Nat)
    (hk : k ≠ "type" ∧ k ≠ "attrs" ∧ k ≠ "raw" ∧ k ≠ "children" ∧ k ≠ "text") :
    preSeq (fuel + 1) [t.erase k] ctx d mx = preSeq (fuel + 1) [t] ctx d mx := by
  obtain ⟨a1, a2, a3, a4, a5⟩ := hk
  rw [preSeq_single, preSeq_single]
  exact preTok_congr _ _ _ _ _ _ (get?_erase_ne _ _ _ (Ne.symm a1)) (get?_erase_ne _ _ _ (Ne.symm a2))
    (get?_erase_ne _ _ _ (Ne.symm a3)) (get?_erase_ne _ _ _ (Ne.symm a4)) (get?_erase_ne _ _ _ (Ne.symm a5))

end Mistune
