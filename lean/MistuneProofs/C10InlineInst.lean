/-
C10 for the concrete inline parser, instantiated on regenerated configurations: `core` against the configuration
with exactly one formatting plugin loaded.  Every hypothesis of `inlineParse_irrelevant_rule` is a closed, kernel-decided
fact about the regenerated tables.
-/
import MistuneProofs.C10Inline
namespace Mistune
namespace Model
namespace Inl
open Mistune.Generated

/-- the pattern of rule `name` in `c` -/
def ruleRx (c : MdCfg) (name : String) : Rx := (c.inlineSpec.lookup name).getD .fail
def preOf (c : MdCfg) (name : String) : List String := c.inlineRules.takeWhile (· != name)
def postOf (c : MdCfg) (name : String) : List String := (c.inlineRules.dropWhile (· != name)).drop 1

theorem adds_strikethrough : AddsInlineRule (ofRuleCfg cfg_core) (ofRuleCfg cfg_only_strikethrough) "strikethrough"
    (ruleRx (ofRuleCfg cfg_only_strikethrough) "strikethrough")
    (preOf (ofRuleCfg cfg_only_strikethrough) "strikethrough") (postOf (ofRuleCfg cfg_only_strikethrough) "strikethrough") :=
  ⟨rfl, by decide +kernel, by decide +kernel, by decide +kernel, by decide +kernel, by decide +kernel⟩

/-- **`strikethrough` only affects sources containing `~`** -/
theorem strikethrough_irrelevant (env : Json) (src : Str) (hsrc : CF 126 src) :
    Model.inlineParse (ofRuleCfg cfg_only_strikethrough) env src = Model.inlineParse (ofRuleCfg cfg_core) env src :=
  inlineParse_irrelevant_rule _ _ _ _ _ _ adds_strikethrough (by decide +kernel)
    126 (by decide +kernel) env src hsrc

-- non-vacuity: a `~`-free text, both sides; and the hypothesis is necessary
example : CF 126 "a *b* c".toList := by decide
example : Model.inlineParse (ofRuleCfg cfg_only_strikethrough) (.obj []) "a *b* c".toList =
    Model.inlineParse (ofRuleCfg cfg_core) (.obj []) "a *b* c".toList := strikethrough_irrelevant _ _ (by decide)
example : ((Model.inlineParse (ofRuleCfg cfg_core) (.obj []) "a *b* c".toList).toOption.map List.length) = some 3 := by
  decide +kernel
-- the hypothesis is necessary: with a `~` the token lists differ (1 token against 2)
example : ((Model.inlineParse (ofRuleCfg cfg_only_strikethrough) (.obj []) "a ~~b~~".toList).toOption.map List.length) ≠
    ((Model.inlineParse (ofRuleCfg cfg_core) (.obj []) "a ~~b~~".toList).toOption.map List.length) := by decide +kernel

theorem adds_mark : AddsInlineRule (ofRuleCfg cfg_core) (ofRuleCfg cfg_only_mark) "mark"
    (ruleRx (ofRuleCfg cfg_only_mark) "mark")
    (preOf (ofRuleCfg cfg_only_mark) "mark") (postOf (ofRuleCfg cfg_only_mark) "mark") :=
  ⟨rfl, by decide +kernel, by decide +kernel, by decide +kernel, by decide +kernel, by decide +kernel⟩

/-- **`mark` only affects sources containing `=`** -/
theorem mark_irrelevant (env : Json) (src : Str) (hsrc : CF 61 src) :
    Model.inlineParse (ofRuleCfg cfg_only_mark) env src = Model.inlineParse (ofRuleCfg cfg_core) env src :=
  inlineParse_irrelevant_rule _ _ _ _ _ _ adds_mark (by decide +kernel)
    61 (by decide +kernel) env src hsrc

theorem adds_insert : AddsInlineRule (ofRuleCfg cfg_core) (ofRuleCfg cfg_only_insert) "insert"
    (ruleRx (ofRuleCfg cfg_only_insert) "insert")
    (preOf (ofRuleCfg cfg_only_insert) "insert") (postOf (ofRuleCfg cfg_only_insert) "insert") :=
  ⟨rfl, by decide +kernel, by decide +kernel, by decide +kernel, by decide +kernel, by decide +kernel⟩

/-- **`insert` only affects sources containing `^`** -/
theorem insert_irrelevant (env : Json) (src : Str) (hsrc : CF 94 src) :
    Model.inlineParse (ofRuleCfg cfg_only_insert) env src = Model.inlineParse (ofRuleCfg cfg_core) env src :=
  inlineParse_irrelevant_rule _ _ _ _ _ _ adds_insert (by decide +kernel)
    94 (by decide +kernel) env src hsrc

theorem adds_superscript : AddsInlineRule (ofRuleCfg cfg_core) (ofRuleCfg cfg_only_superscript) "superscript"
    (ruleRx (ofRuleCfg cfg_only_superscript) "superscript")
    (preOf (ofRuleCfg cfg_only_superscript) "superscript") (postOf (ofRuleCfg cfg_only_superscript) "superscript") :=
  ⟨rfl, by decide +kernel, by decide +kernel, by decide +kernel, by decide +kernel, by decide +kernel⟩

/-- **`superscript` only affects sources containing `^`** -/
theorem superscript_irrelevant (env : Json) (src : Str) (hsrc : CF 94 src) :
    Model.inlineParse (ofRuleCfg cfg_only_superscript) env src = Model.inlineParse (ofRuleCfg cfg_core) env src :=
  inlineParse_irrelevant_rule _ _ _ _ _ _ adds_superscript (by decide +kernel)
    94 (by decide +kernel) env src hsrc

theorem adds_subscript : AddsInlineRule (ofRuleCfg cfg_core) (ofRuleCfg cfg_only_subscript) "subscript"
    (ruleRx (ofRuleCfg cfg_only_subscript) "subscript")
    (preOf (ofRuleCfg cfg_only_subscript) "subscript") (postOf (ofRuleCfg cfg_only_subscript) "subscript") :=
  ⟨rfl, by decide +kernel, by decide +kernel, by decide +kernel, by decide +kernel, by decide +kernel⟩

/-- **`subscript` only affects sources containing `~`** -/
theorem subscript_irrelevant (env : Json) (src : Str) (hsrc : CF 126 src) :
    Model.inlineParse (ofRuleCfg cfg_only_subscript) env src = Model.inlineParse (ofRuleCfg cfg_core) env src :=
  inlineParse_irrelevant_rule _ _ _ _ _ _ adds_subscript (by decide +kernel)
    126 (by decide +kernel) env src hsrc

theorem adds_url_link : AddsInlineRule (ofRuleCfg cfg_core) (ofRuleCfg cfg_only_url) "url_link"
    (ruleRx (ofRuleCfg cfg_only_url) "url_link")
    (preOf (ofRuleCfg cfg_only_url) "url_link") (postOf (ofRuleCfg cfg_only_url) "url_link") :=
  ⟨rfl, by decide +kernel, by decide +kernel, by decide +kernel, by decide +kernel, by decide +kernel⟩

/-- **`url_link` only affects sources containing `:`** (`:` is one of the needed characters of its pattern) -/
theorem url_link_irrelevant (env : Json) (src : Str) (hsrc : CF 58 src) :
    Model.inlineParse (ofRuleCfg cfg_only_url) env src = Model.inlineParse (ofRuleCfg cfg_core) env src :=
  inlineParse_irrelevant_rule _ _ _ _ _ _ adds_url_link (by decide +kernel)
    58 (by decide +kernel) env src hsrc

theorem adds_inline_spoiler : AddsInlineRule (ofRuleCfg cfg_core) (ofRuleCfg cfg_only_spoiler) "inline_spoiler"
    (ruleRx (ofRuleCfg cfg_only_spoiler) "inline_spoiler")
    (preOf (ofRuleCfg cfg_only_spoiler) "inline_spoiler") (postOf (ofRuleCfg cfg_only_spoiler) "inline_spoiler") :=
  ⟨rfl, by decide +kernel, by decide +kernel, by decide +kernel, by decide +kernel, by decide +kernel⟩

/-- **`inline_spoiler` only affects sources containing `>`** (`>` is one of the needed characters of its pattern) -/
theorem inline_spoiler_irrelevant (env : Json) (src : Str) (hsrc : CF 62 src) :
    Model.inlineParse (ofRuleCfg cfg_only_spoiler) env src = Model.inlineParse (ofRuleCfg cfg_core) env src :=
  inlineParse_irrelevant_rule _ _ _ _ _ _ adds_inline_spoiler (by decide +kernel)
    62 (by decide +kernel) env src hsrc

theorem adds_ruby : AddsInlineRule (ofRuleCfg cfg_core) (ofRuleCfg cfg_only_ruby) "ruby"
    (ruleRx (ofRuleCfg cfg_only_ruby) "ruby")
    (preOf (ofRuleCfg cfg_only_ruby) "ruby") (postOf (ofRuleCfg cfg_only_ruby) "ruby") :=
  ⟨rfl, by decide +kernel, by decide +kernel, by decide +kernel, by decide +kernel, by decide +kernel⟩

/-- **`ruby` only affects sources containing `[`** (its pattern needs `[`, `(`, `)`, `]`).  `nameOk` accepts `ruby`
because the regenerated `named` table has `_ruby_re`: the fallback of `rubyRe` to `inlineSpec["ruby"]` is dead. -/
theorem ruby_irrelevant (env : Json) (src : Str) (hsrc : CF 91 src) :
    Model.inlineParse (ofRuleCfg cfg_only_ruby) env src = Model.inlineParse (ofRuleCfg cfg_core) env src :=
  inlineParse_irrelevant_rule _ _ _ _ _ _ adds_ruby (by decide +kernel)
    91 (by decide +kernel) env src hsrc

end Inl
end Model
end Mistune

